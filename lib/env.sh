# sourced by every driver; never call bare `go`
export VERIF_ROOT=${VERIF_ROOT:-/verif}
export VERIF_REPO=${VERIF_REPO:-/repo}
GO_TC=/root/go/pkg/mod/golang.org/toolchain@v0.0.1-go1.26.4.linux-amd64/bin/go
if [ -x "$GO_TC" ]; then export GO="$GO_TC"; else export GO="$(command -v go1.26)"; fi
export GOFLAGS=-mod=mod GOPROXY=off GOSUMDB=off GOTOOLCHAIN=local GONOSUMCHECK=1 GONOSUMDB='*' GOWORK=off
export CGO_ENABLED=1
