// Harness for continuous queries: C29 (windows contiguous, processed once,
// labelled with their start).
package main

import (
	"flag"
	"fmt"
	"os"

	"github.com/basekick-labs/arc/internal/zzverif/vlib"
)

func main() {
	// One OS process per batch of histories: the virtual clock
	// (verifhook.SetNow) is process-global and every history has its own
	// clock positions.
	if len(os.Args) > 1 && os.Args[1] == "cqbatch" {
		runBatchChild(os.Args[2:])
		return
	}
	prop := flag.String("prop", "", "property id")
	flag.String("replay", "", "replay file")
	flag.Parse()
	switch *prop {
	case "C29":
		vlib.Main("C29", "exploration", checkC29)
	default:
		fmt.Println("unknown property", *prop)
		os.Exit(2)
	}
}
