package main

import (
	"fmt"
	"sort"
	"strings"
)

// Stable signatures (one per root cause).
const (
	sigManualMoved    = "manual execution with an explicit range that does not start at the cursor moved the scheduled cursor (the following scheduled window overlaps earlier windows or skips a range)"
	sigLabelFrac      = "output rows labelled with the sub-second start instant although the executed and recorded window starts at the whole second"
	sigLabel          = "output rows not labelled with the start of the window they summarise"
	sigAgg            = "output rows differ from the aggregates of the source rows inside the recorded window"
	sigUnaccounted    = "destination holds rows that no completed execution accounts for"
	sigMissing        = "rows of a completed execution are missing from the destination"
	sigFailAdvanced   = "failed or rejected execution advanced the window cursor"
	sigRecord         = "successful execution is not recorded as exactly one completed execution plus one cursor advance to its window end"
	sigChainStart     = "execution without explicit range does not start where the previous successful execution ended"
	sigOverlap        = "successive windows overlap"
	sigGap            = "successive windows leave a gap"
	sigBookSplit      = "completed execution recorded although the cursor update of the same execution failed (history row and cursor advance are not atomic)"
	sigInverted       = "completed execution records a window whose start is after its end (the cursor moved backwards)"
	sigOverlapEarlier = "a completed window covers instants that an earlier completed window of the chain already covered"
	sigNonExec        = "cursor or execution history changed by an operation that executes nothing (dry run, update, restart)"
	sigResume         = "first successful execution after failures does not start at the failed executions' window start"
	sigConservation   = "source rows are not summarised exactly once across successive windows"
)

type finding struct {
	Sig    string `json:"sig"`
	Detail any    `json:"detail"`
}

type execRec struct {
	Step     int    `json:"step"`
	Op       string `json:"op"`
	Note     string `json:"note,omitempty"`
	ID       string `json:"execution_id"`
	Status   string `json:"status"`
	Start    string `json:"start"`
	End      string `json:"end"`
	S, E     int64  `json:"-"` // microseconds
	Compat   bool   `json:"starts_at_cursor"`
	Explicit bool   `json:"explicit_range"`
}

type histReport struct {
	Idx      int              `json:"idx"`
	Findings []finding        `json:"findings"`
	Inconcl  string           `json:"inconclusive,omitempty"`
	Counters map[string]int64 `json:"counters"`
	Nontriv  []string         `json:"nontrivial"`
	Sample   any              `json:"sample,omitempty"`
}

func us(s string) (int64, bool) {
	t, ok := parseT(s)
	if !ok {
		return 0, false
	}
	return t.UnixMicro(), true
}

func sameInstant(a, b string) bool {
	if a == "" || b == "" {
		return a == b
	}
	x, ok1 := us(a)
	y, ok2 := us(b)
	return ok1 && ok2 && x == y
}

type expRow struct {
	outRow
	Exec int `json:"exec"`
}

func aggKey(r outRow) string {
	f := func(p *float64) string {
		if p == nil {
			return "NULL"
		}
		return fmt.Sprintf("%v", *p)
	}
	i := func(p *int64) string {
		if p == nil {
			return "NULL"
		}
		return fmt.Sprintf("%d", *p)
	}
	return fmt.Sprintf("%s|%d|%s|%s|%s", r.Host, r.N, f(r.SV), i(r.Lo), i(r.Hi))
}

// expected computes, from the generator's rows alone, what a completed execution over
// [s,e) must have written.
func expected(h *history, s, e int64, exec int) []expRow {
	type acc struct {
		n      int64
		sv     float64
		lo, hi int64
	}
	groups := map[string]*acc{}
	var order []string
	bucketT := map[string]int64{}
	for _, r := range h.Rows {
		if r.T < s || r.T >= e {
			continue
		}
		k := ""
		switch h.Variant {
		case "grouped":
			k = r.Host
		case "bucketed":
			b := r.T - mod(r.T, 60_000_000)
			k = fmt.Sprintf("%d", b)
			bucketT[k] = b
		}
		a := groups[k]
		if a == nil {
			a = &acc{lo: r.Rid, hi: r.Rid}
			groups[k] = a
			order = append(order, k)
		}
		a.n++
		a.sv += r.V
		if r.Rid < a.lo {
			a.lo = r.Rid
		}
		if r.Rid > a.hi {
			a.hi = r.Rid
		}
	}
	var out []expRow
	if h.Variant == "ungrouped" && len(groups) == 0 {
		// an aggregate without GROUP BY yields one row even over no input
		return []expRow{{outRow: outRow{T: s, N: 0}, Exec: exec}}
	}
	for _, k := range order {
		a := groups[k]
		sv, lo, hi := a.sv, a.lo, a.hi
		r := outRow{T: s, N: a.n, SV: &sv, Lo: &lo, Hi: &hi}
		switch h.Variant {
		case "grouped":
			r.Host = k
		case "bucketed":
			r.T = bucketT[k]
		}
		out = append(out, expRow{outRow: r, Exec: exec})
	}
	return out
}

func mod(a, b int64) int64 {
	m := a % b
	if m < 0 {
		m += b
	}
	return m
}

func isExecOp(op string) bool {
	return op == opSched || op == opManual || op == opManualRange || op == opSchedBookFault
}

// judge applies the oracle to what the monitors observed for one history.
func judge(h *history, res *histResult) histReport {
	rep := histReport{Idx: h.Idx, Counters: map[string]int64{}, Inconcl: res.Inconcl}
	if res.Inconcl != "" {
		return rep
	}
	cnt := func(k string, n int64) { rep.Counters[k] += n }
	seen := map[string]bool{}
	add := func(sig string, detail map[string]any) {
		if seen[sig] {
			return
		}
		seen[sig] = true
		detail["history"] = h
		detail["observed_steps"] = res.Obs
		rep.Findings = append(rep.Findings, finding{sig, detail})
	}

	var execs []execRec
	var opsKey strings.Builder
	faulted := false // a bookkeeping fault was injected somewhere in this history
	for _, o := range res.Obs {
		var le, lc []logEntry
		for _, e := range o.Log {
			if e.Kind == "exec" {
				le = append(le, e)
			} else {
				lc = append(lc, e)
			}
		}
		cnt("steps_"+o.Op, 1)
		cnt("cursor_transitions_logged", int64(len(lc)))
		cnt("execution_records_logged", int64(len(le)))
		outcome := "-"
		if !isExecOp(o.Op) {
			// dry run, update, restart: nothing may be recorded, cursor untouched
			if len(le) > 0 || len(lc) > 0 || o.CursorPre != o.CursorPst {
				add(sigNonExec, map[string]any{"step": o})
			}
			if o.Op == opDry && o.Err == "" {
				cnt("dry_runs_answered", 1)
			}
			opsKey.WriteString(o.Op + ";")
			continue
		}
		ok := o.Err == ""
		if o.Op == opSchedBookFault {
			// the cursor update of this execution was made to fail. History row and cursor
			// advance come together or not at all; what the call answers and what it already
			// wrote to the destination is counted, not judged here (the history is excluded
			// from the output-row oracle below).
			faulted = true
			cnt("bookkeeping_faults_injected", 1)
			completed := ""
			for _, e := range le {
				if e.A == "completed" {
					completed = e.C
				}
			}
			switch {
			case completed != "" && !sameInstant(o.CursorPst, completed):
				add(sigBookSplit, map[string]any{"step": o})
			case completed == "" && ok:
				cnt("bookkeeping_fault_answered_completed_with_nothing_recorded", 1)
			case completed == "":
				cnt("bookkeeping_fault_reported_as_error_nothing_recorded", 1)
			}
			if completed == "" && (len(lc) > 0 || o.CursorPre != o.CursorPst) {
				add(sigFailAdvanced, map[string]any{"step": o})
			}
			opsKey.WriteString(o.Op + ";")
			continue
		}
		switch {
		case ok:
			outcome = "ok"
			recorded := len(le) == 1 && le[0].A == "completed" && sameInstant(le[0].B, o.RespStart) && sameInstant(le[0].C, o.RespEnd)
			advanced := len(lc) == 1 && sameInstant(lc[0].A, o.CursorPre) && sameInstant(lc[0].B, o.RespEnd) && sameInstant(o.CursorPst, o.RespEnd)
			// an explicit range that does not continue the chain may leave the cursor alone
			// (whether it may MOVE it is judged below)
			offChain := o.Op == opManualRange && recorded && o.CursorPre != "" && !sameInstant(o.CursorPre, le[0].B)
			untouched := len(lc) == 0 && o.CursorPre == o.CursorPst
			good := recorded && (advanced || (offChain && untouched))
			if offChain && untouched {
				cnt("explicit_range_left_cursor_alone", 1)
			}
			if !good {
				add(sigRecord, map[string]any{"step": o})
			}
			cnt("executions_completed", 1)
		default:
			if len(lc) > 0 || o.CursorPre != o.CursorPst {
				add(sigFailAdvanced, map[string]any{"step": o})
			}
			for _, e := range le {
				if e.A == "completed" {
					add(sigRecord, map[string]any{"step": o, "why": "error answer but a completed execution was recorded"})
				}
			}
			if len(le) > 0 {
				outcome = "failed"
				cnt("executions_failed", 1)
				cnt("executions_failed_under_"+faultName(res.Obs, o.I), 1)
			} else {
				outcome = "rejected"
				cnt("executions_rejected_without_record", 1)
			}
		}
		for _, e := range le {
			x := execRec{Step: o.I, Op: o.Op, Note: o.Note, ID: e.D, Status: e.A, Start: e.B, End: e.C,
				Explicit: o.Op == opManualRange}
			var ok1, ok2 bool
			x.S, ok1 = us(e.B)
			x.E, ok2 = us(e.C)
			if !ok1 || !ok2 {
				add(sigRecord, map[string]any{"step": o, "why": "unparsable window in the execution record"})
				continue
			}
			x.Compat = o.CursorPre == "" || sameInstant(o.CursorPre, e.B)
			if wantSched := o.Op == opSched; wantSched != strings.HasPrefix(e.D, "cq-sched-") {
				add(sigRecord, map[string]any{"step": o, "why": "execution id prefix does not match the entry point used"})
			}
			execs = append(execs, x)
		}
		opsKey.WriteString(o.Op + ":" + o.Note + ":" + outcome + ";")
	}

	// --- chain of windows ---------------------------------------------------
	var prevOK *execRec       // last completed execution
	var failedSince []execRec // failed default-range executions since prevOK
	chainLen, breaks := 0, 0
	var firstS, lastE int64
	pure := true
	for i := range execs {
		x := &execs[i]
		if x.Status != "completed" {
			if !x.Explicit {
				failedSince = append(failedSince, *x)
			}
			continue
		}
		if x.Explicit {
			cnt("manual_range_completed_"+x.Note, 1)
		}
		switch {
		case !x.Explicit && !x.Compat:
			add(sigChainStart, map[string]any{"execution": x, "previous": prevOK})
		case x.Explicit && !x.Compat:
			// the explicit range is the caller's choice; what must not happen is that it
			// redirects the scheduled chain
			pure = false
			o := res.Obs[x.Step]
			if o.CursorPre != o.CursorPst {
				breaks++
				cnt("explicit_range_moved_cursor", 1)
				rel := "skips"
				if c, ok := us(o.CursorPre); ok && x.E < c {
					rel = "rewinds"
				}
				add(sigManualMoved, map[string]any{"execution": x, "cursor_before": o.CursorPre, "cursor_after": o.CursorPst, "effect": rel,
					"next_scheduled_window_starts_at": o.CursorPst})
			}
			prevOK, failedSince, chainLen = x, nil, 0 // re-anchor
			continue
		}
		if x.Explicit {
			pure = false
		}
		// a completed chain window runs forwards, and covers no instant an earlier
		// completed chain window already covered (not only its direct predecessor's)
		if x.S > x.E {
			add(sigInverted, map[string]any{"execution": x, "previous": prevOK})
		}
		for j := 0; j < i; j++ {
			w := &execs[j]
			if w.Status != "completed" || (w.Explicit && !w.Compat) || w.S >= w.E || x.S >= x.E || (prevOK != nil && w == prevOK) {
				continue
			}
			lo, hi := x.S, x.E
			if w.S > lo {
				lo = w.S
			}
			if w.E < hi {
				hi = w.E
			}
			if lo < hi {
				add(sigOverlapEarlier, map[string]any{"earlier": w, "later": x})
				break
			}
		}
		if prevOK != nil && chainLen > 0 {
			switch {
			case x.S < prevOK.E:
				add(sigOverlap, map[string]any{"previous": prevOK, "next": x})
			case x.S > prevOK.E:
				add(sigGap, map[string]any{"previous": prevOK, "next": x})
			default:
				cnt("contiguous_window_pairs", 1)
			}
		}
		for _, f := range failedSince {
			// Without a stored cursor (no success yet) every attempt starts at now-1h:
			// there is no window to hold, so only failures under a cursor are judged.
			if res.Obs[f.Step].CursorPre == "" {
				cnt("failures_before_any_cursor_exists", 1)
				continue
			}
			if f.S != x.S && !x.Explicit {
				add(sigResume, map[string]any{"failed": f, "next_success": x})
			}
		}
		if len(failedSince) > 0 && !x.Explicit {
			cnt("successes_resuming_after_failures", 1)
		}
		if chainLen == 0 && breaks == 0 && prevOK == nil {
			firstS = x.S
		}
		lastE = x.E
		prevOK, failedSince = x, nil
		chainLen++
	}

	if faulted {
		// an execution whose bookkeeping failed has already written output rows that no
		// execution record explains; the row-level oracle cannot be applied to this history
		cnt("histories_with_bookkeeping_fault_excluded_from_output_row_oracle", 1)
		if chainLen >= 2 {
			rep.Nontriv = append(rep.Nontriv, h.Variant+"|"+opsKey.String())
		}
		rep.Sample = map[string]any{"variant": h.Variant, "steps": len(h.Steps), "executions": execs}
		return rep
	}
	// --- output rows ----------------------------------------------------------
	var exp []expRow
	for i, x := range execs {
		if x.Status == "completed" {
			exp = append(exp, expected(h, x.S, x.E, i)...)
			cnt("windows_checked_against_ground_truth", 1)
		}
	}
	cnt("output_rows_read", int64(len(res.Out)))
	cnt("output_rows_expected", int64(len(exp)))
	full := func(r outRow) string { return fmt.Sprintf("%d|%s", r.T, aggKey(r)) }
	pool := map[string][]int{}
	for i, e := range exp {
		pool[full(e.outRow)] = append(pool[full(e.outRow)], i)
	}
	usedExp := make([]bool, len(exp))
	var leftObs []outRow
	for _, r := range res.Out {
		k := full(r)
		if ids := pool[k]; len(ids) > 0 {
			usedExp[ids[0]] = true
			pool[k] = ids[1:]
			cnt("output_rows_matched", 1)
			continue
		}
		leftObs = append(leftObs, r)
	}
	byAgg := map[string][]int{}
	for i, e := range exp {
		if !usedExp[i] {
			byAgg[aggKey(e.outRow)] = append(byAgg[aggKey(e.outRow)], i)
		}
	}
	sort.Slice(leftObs, func(i, j int) bool { return leftObs[i].T < leftObs[j].T })
	for _, r := range leftObs {
		k := aggKey(r)
		if ids := byAgg[k]; len(ids) > 0 && h.Variant != "bucketed" {
			// same aggregates, other label: choose the closest expected label
			best := 0
			for j := range ids {
				if abs(exp[ids[j]].T-r.T) < abs(exp[ids[best]].T-r.T) {
					best = j
				}
			}
			e := exp[ids[best]]
			usedExp[ids[best]] = true
			byAgg[k] = append(ids[:best:best], ids[best+1:]...)
			d := r.T - e.T
			x := execs[e.Exec]
			det := map[string]any{"execution": x, "label_us": r.T, "label": rfc(r.T), "window_start_us": e.T, "label_minus_start_us": d, "row": r}
			if d > 0 && d < 1_000_000 {
				cnt("labels_with_subsecond_offset", 1)
				if res.Obs[x.Step].CursorPre == "" {
					det["case"] = "first execution: start defaults to now-1h (sub-second kept in the label, dropped in the query and the record)"
				} else {
					det["case"] = "explicit start_time with fractional seconds"
				}
				add(sigLabelFrac, det)
			} else {
				add(sigLabel, det)
			}
			continue
		}
		// no expected row with these aggregates
		if anyWindowAt(execs, r.T) {
			add(sigAgg, map[string]any{"row": r, "label": rfc(r.T), "expected_for_windows_starting_there": expAt(exp, r.T)})
		} else {
			add(sigUnaccounted, map[string]any{"row": r, "label": rfc(r.T)})
		}
	}
	for i, e := range exp {
		if !usedExp[i] {
			add(sigMissing, map[string]any{"execution": execs[e.Exec], "expected_row": e.outRow})
		}
	}

	// --- end-to-end conservation (histories whose executions are all chain members) --
	// (label findings do not disturb it: conservation ignores labels)
	otherFindings := 0
	for sig := range seen {
		if sig != sigLabelFrac && sig != sigLabel {
			otherFindings++
		}
	}
	if pure && chainLen > 0 && otherFindings == 0 {
		var wantN, gotN int64
		var wantSV, gotSV float64
		for _, r := range h.Rows {
			if r.T >= firstS && r.T < lastE {
				wantN++
				wantSV += r.V
			}
		}
		for _, r := range res.Out {
			gotN += r.N
			if r.SV != nil {
				gotSV += *r.SV
			}
		}
		cnt("conservation_histories", 1)
		cnt("conservation_source_rows", wantN)
		if wantN != gotN || wantSV != gotSV {
			add(sigConservation, map[string]any{"range": []string{rfc(firstS), rfc(lastE)}, "source_rows": wantN, "sum_of_counts_in_output": gotN,
				"source_sum_v": wantSV, "output_sum_v": gotSV})
		}
	}

	if chainLen >= 2 {
		rep.Nontriv = append(rep.Nontriv, h.Variant+"|"+opsKey.String())
	}
	rep.Sample = map[string]any{"variant": h.Variant, "steps": len(h.Steps), "source_rows": len(h.Rows), "executions": execs, "output_rows": len(res.Out)}
	return rep
}

func abs(x int64) int64 {
	if x < 0 {
		return -x
	}
	return x
}

func anyWindowAt(execs []execRec, t int64) bool {
	for _, x := range execs {
		if x.Status == "completed" && x.S == t {
			return true
		}
	}
	return false
}

func expAt(exp []expRow, t int64) []outRow {
	var out []outRow
	for _, e := range exp {
		if e.T == t {
			out = append(out, e.outRow)
		}
	}
	return out
}

// faultName names the fault in force at step i (for the evidence counters).
func faultName(obs []stepObs, i int) string {
	q, buf, active := "none", true, true
	for _, o := range obs[:i] {
		switch o.Op {
		case opFailSrc:
			q = "source_query_error"
		case opFailDst:
			q = "destination_write_error"
		case opRepair, opUpdQuery:
			q = "none"
		case opRestart:
			buf = true
		case opRestartNoBuf:
			buf = false
		case opDeactivate:
			active = false
		case opActivate:
			active = true
		}
	}
	switch {
	case !active:
		return "inactive"
	case q != "none":
		return q
	case !buf:
		return "no_ingest_buffer"
	}
	return "no_injected_fault"
}
