package main

import (
	"bytes"
	"context"
	"database/sql"
	"encoding/json"
	"fmt"
	"io"
	"net/http/httptest"
	"os"
	"path/filepath"
	"strings"
	"sync/atomic"
	"time"

	"github.com/gofiber/fiber/v2"
	_ "github.com/mattn/go-sqlite3"
	"github.com/rs/zerolog"

	"github.com/basekick-labs/arc/internal/api"
	"github.com/basekick-labs/arc/internal/config"
	"github.com/basekick-labs/arc/internal/verifhook"
	"github.com/basekick-labs/arc/internal/zzverif/vfix"
	"github.com/basekick-labs/arc/internal/zzverif/vpq"
)

// vNow is the virtual clock (ns since the epoch) read by the rewritten
// internal/api/continuous_query.go and internal/scheduler/cq_scheduler.go.
var vNow atomic.Int64

var debug = os.Getenv("VERIF_DEBUG") != ""

func installClock() {
	verifhook.SetNow(func() time.Time { return time.Unix(0, vNow.Load()).UTC() })
}

// logEntry is one row of the transition log written by the harness's SQLite
// triggers (no arc source involved).
type logEntry struct {
	Seq  int64  `json:"seq"`
	Kind string `json:"kind"` // cursor | exec
	A    string `json:"a"`    // cursor: old value ("" = NULL) | exec: status
	B    string `json:"b"`    // cursor: new value            | exec: start_time
	C    string `json:"c"`    // exec: end_time
	D    string `json:"d"`    // exec: execution_id
}

// stepObs is what the monitors saw around one step.
type stepObs struct {
	I         int        `json:"i"`
	Op        string     `json:"op"`
	Note      string     `json:"note,omitempty"`
	NowNS     int64      `json:"now_ns"`
	ReqStart  string     `json:"req_start,omitempty"`
	ReqEnd    string     `json:"req_end,omitempty"`
	HTTP      int        `json:"http,omitempty"`
	Err       string     `json:"err,omitempty"`
	RespStart string     `json:"resp_start,omitempty"`
	RespEnd   string     `json:"resp_end,omitempty"`
	Written   int64      `json:"written"`
	CursorPre string     `json:"cursor_before"`
	CursorPst string     `json:"cursor_after"`
	Log       []logEntry `json:"log,omitempty"`
}

// outRow is one row of the destination measurement, read back with vpq.
type outRow struct {
	T    int64    `json:"t_us"`
	Host string   `json:"host,omitempty"`
	N    int64    `json:"n"`
	SV   *float64 `json:"sv"`
	Lo   *int64   `json:"lo"`
	Hi   *int64   `json:"hi"`
	File string   `json:"file"`
}

type world struct {
	n       *vfix.Node
	h       *api.ContinuousQueryHandler
	app     *fiber.App
	sq      *sql.DB
	dbPath  string
	db      string
	hist    *history
	cqID    int64
	def     api.ContinuousQueryRequest // definition currently stored
	origQ   string
	written int64 // rows the node's buffer must have flushed so far
}

func cqQuery(variant, db string) (string, []string) {
	where := " FROM " + db + ".src WHERE time >= {start_time} AND time < {end_time}"
	switch variant {
	case "grouped":
		return "SELECT host, count(*) AS n, sum(v) AS sv, min(rid) AS lo, max(rid) AS hi" + where + " GROUP BY host", []string{"host"}
	case "bucketed":
		return "SELECT date_trunc('minute', time) AS time, count(*) AS n, sum(v) AS sv, min(rid) AS lo, max(rid) AS hi" + where + " GROUP BY 1", nil
	}
	return "SELECT count(*) AS n, sum(v) AS sv, min(rid) AS lo, max(rid) AS hi" + where, nil
}

func (w *world) newHandler(withBuffer bool) error {
	if w.h != nil {
		_ = w.h.Close()
	}
	buf := w.n.Buffer
	if !withBuffer {
		buf = nil
	}
	h, err := api.NewContinuousQueryHandler(w.n.DB, w.n.Backend, buf,
		&config.ContinuousQueryConfig{Enabled: true, DBPath: w.dbPath}, nil, zerolog.Nop())
	if err != nil {
		return err
	}
	w.h = h
	w.app = fiber.New(fiber.Config{DisableStartupMessage: true})
	h.RegisterRoutes(w.app)
	return nil
}

func (w *world) do(method, path string, body any) (int, []byte) {
	b, _ := json.Marshal(body)
	req := httptest.NewRequest(method, path, bytes.NewReader(b))
	req.Header.Set("Content-Type", "application/json")
	resp, err := w.app.Test(req, 120000)
	if err != nil {
		return -1, []byte(err.Error())
	}
	out, _ := io.ReadAll(resp.Body)
	return resp.StatusCode, out
}

func (w *world) cursor() string {
	var s sql.NullString
	_ = w.sq.QueryRow(`SELECT CAST(last_processed_time AS TEXT) FROM continuous_queries WHERE id = ?`, w.cqID).Scan(&s)
	return s.String
}

func (w *world) maxSeq() int64 {
	var s sql.NullInt64
	_ = w.sq.QueryRow(`SELECT MAX(seq) FROM verif_log`).Scan(&s)
	return s.Int64
}

func (w *world) logSince(seq int64) []logEntry {
	rows, err := w.sq.Query(`SELECT seq, kind, COALESCE(a,''), COALESCE(b,''), COALESCE(c,''), COALESCE(d,'') FROM verif_log WHERE seq > ? ORDER BY seq`, seq)
	if err != nil {
		return nil
	}
	defer rows.Close()
	var out []logEntry
	for rows.Next() {
		var e logEntry
		if rows.Scan(&e.Seq, &e.Kind, &e.A, &e.B, &e.C, &e.D) == nil {
			out = append(out, e)
		}
	}
	return out
}

const triggerDDL = `
CREATE TABLE IF NOT EXISTS verif_log(seq INTEGER PRIMARY KEY AUTOINCREMENT, kind TEXT, qid INTEGER, a TEXT, b TEXT, c TEXT, d TEXT);
CREATE TRIGGER IF NOT EXISTS verif_cur AFTER UPDATE OF last_processed_time ON continuous_queries
BEGIN INSERT INTO verif_log(kind,qid,a,b) VALUES('cursor', NEW.id, CAST(OLD.last_processed_time AS TEXT), CAST(NEW.last_processed_time AS TEXT)); END;
CREATE TRIGGER IF NOT EXISTS verif_exec AFTER INSERT ON continuous_query_executions
BEGIN INSERT INTO verif_log(kind,qid,a,b,c,d) VALUES('exec', NEW.query_id, NEW.status, CAST(NEW.start_time AS TEXT), CAST(NEW.end_time AS TEXT), NEW.execution_id); END;
`

// result of one history run in a child.
type histResult struct {
	Obs      []stepObs `json:"steps"`
	Out      []outRow  `json:"output_rows"`
	Inconcl  string    `json:"inconclusive,omitempty"`
	SrcFiles int       `json:"source_files"`
}

func rfc(us int64) string { return time.UnixMicro(us).UTC().Format(time.RFC3339Nano) }

func parseT(s string) (time.Time, bool) {
	t, err := time.Parse(time.RFC3339Nano, s)
	if err != nil {
		return time.Time{}, false
	}
	return t.UTC(), true
}

// runHistory plays one history on node n (the node is shared by the histories of a
// batch; every history has its own database name and SQLite file).
func runHistory(n *vfix.Node, hs *history, written *int64) (res histResult) {
	w := &world{n: n, hist: hs, db: fmt.Sprintf("h%d", hs.Idx), dbPath: filepath.Join(n.Dir, fmt.Sprintf("cq-%d.db", hs.Idx))}
	vNow.Store(hs.T0NS)

	// 1. source rows through the real line-protocol route
	var lp strings.Builder
	for _, r := range hs.Rows {
		fmt.Fprintf(&lp, "src,host=%s v=%v,rid=%di %d\n", r.Host, r.V, r.Rid, r.T)
	}
	code, body, _ := n.Do("POST", "/write?db="+w.db+"&precision=us", nil, []byte(lp.String()))
	if code != 204 && code != 200 {
		res.Inconcl = fmt.Sprintf("source ingest answered %d: %s", code, body)
		return
	}
	*written += int64(len(hs.Rows))
	tq := time.Now()
	if debug {
		defer func() { fmt.Fprintf(os.Stderr, "history %d total %v\n", hs.Idx, time.Since(tq)) }()
	}
	if !n.Quiesce(*written) {
		res.Inconcl = "watchdog: source rows not flushed"
		return
	}
	if debug {
		fmt.Fprintf(os.Stderr, "quiesce src %v\n", time.Since(tq))
	}
	srcFiles, err := vpq.ReadTree(filepath.Join(n.Root, w.db, "src"))
	if err != nil {
		res.Inconcl = "reading source files: " + err.Error()
		return
	}
	got := map[int64]int64{}
	for _, f := range srcFiles {
		for _, r := range f.Rows {
			rid, _ := r["rid"].(int64)
			t, _ := r["time"].(int64)
			got[rid] = t
		}
	}
	res.SrcFiles = len(srcFiles)
	if len(got) != len(hs.Rows) {
		res.Inconcl = fmt.Sprintf("ingest stored %d of %d source rows (C01's subject)", len(got), len(hs.Rows))
		return
	}
	for _, r := range hs.Rows {
		if got[r.Rid] != r.T {
			res.Inconcl = fmt.Sprintf("ingest stored rid %d at %d, sent %d (C01's subject)", r.Rid, got[r.Rid], r.T)
			return
		}
	}

	// 2. handler, triggers, definition
	if err := w.newHandler(true); err != nil {
		res.Inconcl = "NewContinuousQueryHandler: " + err.Error()
		return
	}
	defer func() { _ = w.h.Close() }()
	w.sq, err = sql.Open("sqlite3", w.dbPath)
	if err != nil {
		res.Inconcl = err.Error()
		return
	}
	defer w.sq.Close()
	w.sq.SetMaxOpenConns(1)
	if _, err := w.sq.Exec(triggerDDL); err != nil {
		res.Inconcl = "installing triggers: " + err.Error()
		return
	}
	q, tags := cqQuery(hs.Variant, w.db)
	w.origQ = q
	w.def = api.ContinuousQueryRequest{Name: "cq", Database: w.db, SourceMeasurement: "src", DestinationMeasurement: "agg",
		Query: q, Interval: hs.Interval, TagColumns: tags, IsActive: true}
	code, b := w.do("POST", "/api/v1/continuous_queries/", w.def)
	var created struct {
		ID int64 `json:"id"`
	}
	if code != 201 || json.Unmarshal(b, &created) != nil || created.ID == 0 {
		res.Inconcl = fmt.Sprintf("create answered %d: %s", code, b)
		return
	}
	w.cqID = created.ID

	// 3. steps
	for i, st := range hs.Steps {
		t0 := time.Now()
		vNow.Add(st.AdvanceNS)
		o := stepObs{I: i, Op: st.Op, Note: st.Note, NowNS: vNow.Load(), CursorPre: w.cursor()}
		seq := w.maxSeq()
		w.step(st, &o, res.Obs)
		o.CursorPst = w.cursor()
		o.Log = w.logSince(seq)
		res.Obs = append(res.Obs, o)
		if debug {
			fmt.Fprintf(os.Stderr, "step %s %v\n", st.Op, time.Since(t0))
		}
	}

	// 4. destination rows
	*written += w.written
	if !n.Quiesce(*written) {
		res.Inconcl = "watchdog: output rows not flushed"
		return
	}
	files, err := vpq.ReadTree(filepath.Join(n.Root, w.db, "agg"))
	if err != nil {
		res.Inconcl = "reading output files: " + err.Error()
		return
	}
	for _, f := range files {
		for _, r := range f.Rows {
			or := outRow{File: f.Rel}
			or.T, _ = r["time"].(int64)
			or.Host, _ = r["host"].(string)
			or.N, _ = r["n"].(int64)
			if v, ok := r["sv"].(float64); ok {
				or.SV = &v
			}
			if v, ok := r["lo"].(int64); ok {
				or.Lo = &v
			}
			if v, ok := r["hi"].(int64); ok {
				or.Hi = &v
			}
			res.Out = append(res.Out, or)
		}
	}
	return
}

func (w *world) put(o *stepObs) {
	code, b := w.do("PUT", fmt.Sprintf("/api/v1/continuous_queries/%d", w.cqID), w.def)
	o.HTTP = code
	if code != 200 {
		o.Err = string(b)
	}
}

func (w *world) step(st step, o *stepObs, prev []stepObs) {
	switch st.Op {
	case opSched:
		resp, err := w.h.ExecuteCQ(context.Background(), w.cqID)
		if err != nil {
			o.Err = err.Error()
			return
		}
		o.RespStart, o.RespEnd, o.Written = resp.StartTime, resp.EndTime, resp.RecordsWritten
		w.written += resp.RecordsWritten
	case opSchedBookFault:
		if _, err := w.sq.Exec(`CREATE TRIGGER verif_bookfault BEFORE UPDATE OF last_processed_time ON continuous_queries BEGIN SELECT RAISE(ABORT, 'verif: injected bookkeeping fault'); END`); err != nil {
			o.Err = "harness: cannot install the fault trigger: " + err.Error()
			return
		}
		resp, err := w.h.ExecuteCQ(context.Background(), w.cqID)
		_, _ = w.sq.Exec(`DROP TRIGGER IF EXISTS verif_bookfault`)
		if err != nil {
			o.Err = err.Error()
			return
		}
		o.RespStart, o.RespEnd, o.Written = resp.StartTime, resp.EndTime, resp.RecordsWritten
		w.written += resp.RecordsWritten
	case opManual, opDry, opManualRange:
		req := map[string]any{}
		if st.Op == opDry {
			req["dry_run"] = true
		}
		if st.Op == opManualRange {
			w.resolveRange(st.Note, o, prev)
			if o.ReqStart != "" {
				req["start_time"] = o.ReqStart
			}
			if o.ReqEnd != "" {
				req["end_time"] = o.ReqEnd
			}
		}
		code, b := w.do("POST", fmt.Sprintf("/api/v1/continuous_queries/%d/execute", w.cqID), req)
		o.HTTP = code
		var r api.ExecuteCQResponse
		if code != 200 || json.Unmarshal(b, &r) != nil {
			o.Err = string(b)
			return
		}
		o.RespStart, o.RespEnd, o.Written = r.StartTime, r.EndTime, r.RecordsWritten
		if !r.DryRun {
			w.written += r.RecordsWritten
		}
	case opFailSrc:
		w.def.Query = strings.Replace(w.origQ, "sum(v) AS sv", "sum(v) AS sv, max(nosuchcolumn) AS broken", 1)
		w.put(o)
	case opFailDst:
		w.def.Query = strings.Replace(w.origQ, "sum(v) AS sv", "sum(v) AS sv, sum(rid) AS huge", 1)
		w.put(o)
	case opRepair:
		w.def.Query = w.origQ
		w.put(o)
	case opUpdQuery:
		w.def.Query = strings.Replace(w.origQ, "SELECT ", "SELECT  /* v2 */ ", 1)
		w.put(o)
	case opUpdInterval:
		for _, iv := range intervals {
			if iv != w.def.Interval {
				w.def.Interval = iv
				break
			}
		}
		w.put(o)
	case opDeactivate:
		w.def.IsActive = false
		w.put(o)
	case opActivate:
		w.def.IsActive = true
		w.put(o)
	case opRestart:
		if err := w.newHandler(true); err != nil {
			o.Err = err.Error()
		}
	case opRestartNoBuf:
		if err := w.newHandler(false); err != nil {
			o.Err = err.Error()
		}
	}
}

// resolveRange turns a manual_range variant into the literal start/end strings
// sent to the API, using only what the monitors observed so far.
func (w *world) resolveRange(note string, o *stepObs, prev []stepObs) {
	nowSec := o.NowNS / 1e9
	sec := func(s int64) string { return time.Unix(s, 0).UTC().Format(time.RFC3339) }
	cur, hasCur := parseT(o.CursorPre)
	switch note {
	case mrBackfill:
		b := w.hist.T0NS/1e9 - 4*3600
		o.ReqStart, o.ReqEnd = sec(b), sec(b+3600)
	case mrRerunLast:
		for i := len(prev) - 1; i >= 0; i-- {
			for _, e := range prev[i].Log {
				if e.Kind == "exec" && e.A == "completed" {
					o.ReqStart, o.ReqEnd = e.B, e.C
					return
				}
			}
		}
		o.ReqStart, o.ReqEnd = sec(nowSec-120), sec(nowSec-60)
	case mrAhead:
		o.ReqStart, o.ReqEnd = sec(nowSec-20), sec(nowSec)
	case mrFromCursor:
		if hasCur {
			o.ReqStart = cur.Format(time.RFC3339)
		} else {
			o.ReqStart = sec(nowSec - 1800)
		}
	case mrOffsetTZ:
		if hasCur {
			o.ReqStart = cur.In(time.FixedZone("", 2*3600)).Format(time.RFC3339)
		} else {
			o.ReqStart = time.Unix(nowSec-1800, 0).In(time.FixedZone("", 2*3600)).Format(time.RFC3339)
		}
	case mrFrac:
		if hasCur {
			o.ReqStart = cur.Add(250 * time.Millisecond).Format(time.RFC3339Nano)
		} else {
			o.ReqStart = time.Unix(nowSec-1800, 250_000_000).UTC().Format(time.RFC3339Nano)
		}
	case mrFutureEnd:
		if hasCur {
			o.ReqStart = cur.Format(time.RFC3339)
		} else {
			o.ReqStart = sec(nowSec - 1800)
		}
		o.ReqEnd = sec(nowSec + 90)
	}
}
