package main

import (
	"math/rand/v2"
	"sort"
	"time"
)

// srcRow is one generated source row (ground truth of the oracle).
type srcRow struct {
	Rid  int64   `json:"rid"`
	T    int64   `json:"t_us"`
	Host string  `json:"host"`
	V    float64 `json:"v"`
}

// step is one operation of a history; the virtual clock is advanced by AdvanceNS
// before the operation runs.
type step struct {
	Op        string `json:"op"`
	AdvanceNS int64  `json:"advance_ns"`
	Note      string `json:"note,omitempty"` // sub-variant of manual_range
}

// Operations.
const (
	opSched        = "sched"            // ExecuteCQ (the scheduler's entry point)
	opManual       = "manual"           // POST .../execute {} (default range)
	opManualRange  = "manual_range"     // POST .../execute with explicit start/end (Note = variant)
	opDry          = "dry_run"          // POST .../execute {"dry_run":true}
	opFailSrc      = "break_source"     // PUT: query references an unknown column (source query error)
	opFailDst      = "break_dest"       // PUT: query yields a HUGEINT column the ingest buffer rejects (destination write error)
	opRepair       = "repair_query"     // PUT: original query again
	opRestart      = "restart"          // close handler, new handler over the same SQLite file
	opRestartNoBuf = "restart_nobuffer" // new handler without an ingest buffer (every write fails)
	opUpdInterval  = "update_interval"  // PUT: other interval
	opUpdQuery     = "update_query"     // PUT: equivalent query text
	opDeactivate   = "deactivate"       // PUT is_active=false
	opActivate     = "activate"         // PUT is_active=true
	// ExecuteCQ while the UPDATE of last_processed_time is made to fail (SQLite trigger
	// RAISE(ABORT) installed for this one execution): the history row and the cursor
	// advance must come together or not at all
	opSchedBookFault = "sched_bookkeeping_fault"
)

// manual_range variants (resolved against the state observed at run time).
const (
	mrBackfill   = "backfill"    // absolute range hours before the first window
	mrRerunLast  = "rerun_last"  // exactly the window of the last completed execution
	mrAhead      = "ahead"       // [now-20s, now): starts after the cursor when the clock moved more than 20s
	mrFromCursor = "from_cursor" // start = cursor (chain compatible), end omitted
	mrOffsetTZ   = "cursor_tz"   // start = cursor written with a +02:00 offset, end omitted
	mrFrac       = "frac_start"  // start = (cursor | now-30m) + 250ms, end omitted
	mrFutureEnd  = "future_end"  // start = cursor, end = now + 90s
)

type history struct {
	Idx      int      `json:"idx"`
	Variant  string   `json:"variant"` // ungrouped | grouped | bucketed
	Interval string   `json:"interval"`
	T0NS     int64    `json:"t0_ns"`
	Rows     []srcRow `json:"rows"`
	Steps    []step   `json:"steps"`
}

var intervals = []string{"10s", "1m", "5m", "1h"}

func pick[T any](r *rand.Rand, xs []T) T { return xs[r.IntN(len(xs))] }

// genHistory builds one history. pure histories contain no explicit-range manual
// execution (they carry the end-to-end conservation check).
func genHistory(r *rand.Rand, idx int) history {
	h := history{Idx: idx}
	h.Variant = pick(r, []string{"ungrouped", "ungrouped", "grouped", "grouped", "bucketed"})
	h.Interval = pick(r, intervals)
	iv, _ := time.ParseDuration(h.Interval)

	base := time.Date(2026, 3, 1, 0, 0, 0, 0, time.UTC).Unix() + r.Int64N(30*86400)
	switch r.IntN(4) {
	case 0: // exactly on a second
		h.T0NS = base * 1e9
	case 1: // just before a second
		h.T0NS = base*1e9 + 999_999_999
	default:
		h.T0NS = base*1e9 + r.Int64N(1e9)
	}
	if r.IntN(6) == 0 { // close to an hour / day boundary
		h.T0NS = (base-base%3600)*1e9 + r.Int64N(3)*1e9 - 1e9 + r.Int64N(1e9)
	}

	adv := []int64{0, 1, 999_999_999, 1e9, 1e9 + 1, 10e9, 59_500_000_000, 60e9,
		int64(iv), int64(iv) - 1, int64(iv) + 1, 2*int64(iv) + 333_333_333, 3600e9, 3*3600e9 + 7*60e9 + 123_456_789}
	advance := func() int64 {
		if r.IntN(10) == 0 {
			return 25 * 3600e9 // crosses a day
		}
		return pick(r, adv)
	}

	withRange := r.IntN(100) < 35
	n := 7 + r.IntN(9)
	brokenQ, noBuf, inactive := false, false, false
	for i := 0; i < n; i++ {
		st := step{AdvanceNS: advance()}
		x := r.IntN(100)
		switch {
		case i == 0 && withRange && r.IntN(3) == 0:
			st.Op, st.Note = opManualRange, pick(r, []string{mrFrac, mrBackfill})
		case x < 46:
			st.Op = opSched
			if idx%4 == 3 && r.IntN(6) == 0 { // only every fourth history may carry the fault
				st.Op = opSchedBookFault
			}
		case x < 54:
			st.Op = opManual
		case x < 62:
			if withRange {
				st.Op = opManualRange
				st.Note = pick(r, []string{mrBackfill, mrRerunLast, mrAhead, mrAhead, mrFromCursor, mrOffsetTZ, mrFrac, mrFutureEnd})
			} else {
				st.Op = opSched
			}
		case x < 66:
			st.Op = opDry
		case x < 72:
			if brokenQ {
				st.Op, brokenQ = opRepair, false
			} else {
				st.Op, brokenQ = opFailSrc, true
			}
		case x < 78:
			if brokenQ {
				st.Op, brokenQ = opRepair, false
			} else {
				st.Op, brokenQ = opFailDst, true
			}
		case x < 85:
			st.Op, noBuf = opRestart, false
		case x < 88:
			st.Op, noBuf = opRestartNoBuf, true
		case x < 92:
			st.Op = opUpdInterval
		case x < 96:
			st.Op = opUpdQuery
			brokenQ = false
		default:
			if inactive {
				st.Op, inactive = opActivate, false
			} else {
				st.Op, inactive = opDeactivate, true
			}
		}
		h.Steps = append(h.Steps, st)
		// a fault is always followed by at least one scheduled attempt under it
		if st.Op == opSchedBookFault {
			h.Steps = append(h.Steps, step{Op: opSched, AdvanceNS: pick(r, []int64{1e9, 10e9, int64(iv), 3600e9})})
		}
		if st.Op == opFailSrc || st.Op == opFailDst || st.Op == opRestartNoBuf || st.Op == opDeactivate {
			h.Steps = append(h.Steps, step{Op: opSched, AdvanceNS: pick(r, []int64{1e9, 10e9, int64(iv), 3600e9})})
			if r.IntN(3) == 0 {
				h.Steps = append(h.Steps, step{Op: pick(r, []string{opSched, opManual}), AdvanceNS: advance()})
			}
		}
	}
	// Heal everything, then two scheduled executions: the first one must resume at
	// the cursor the faults left behind.
	if noBuf {
		h.Steps = append(h.Steps, step{Op: opRestart, AdvanceNS: advance()})
	}
	if brokenQ {
		h.Steps = append(h.Steps, step{Op: opRepair, AdvanceNS: advance()})
	}
	if inactive {
		h.Steps = append(h.Steps, step{Op: opActivate, AdvanceNS: advance()})
	}
	h.Steps = append(h.Steps, step{Op: opSched, AdvanceNS: pick(r, []int64{10e9, int64(iv), 60e9, 3600e9})})
	h.Steps = append(h.Steps, step{Op: opSched, AdvanceNS: pick(r, []int64{1e9, 10e9 + 1, int64(iv) + 999_999_999})})

	h.Rows = genRows(r, &h)
	return h
}

// genRows places source rows on and next to every instant at which a window
// boundary can fall (whole seconds of the clock positions, minus one hour for the
// first window), plus uniformly spread rows and rows in the backfill range.
func genRows(r *rand.Rand, h *history) []srcRow {
	var ts []int64 // microseconds
	clock := h.T0NS
	var marks []int64
	marks = append(marks, (clock/1e9-3600)*1e6, (clock-3600e9)/1e3)
	for _, st := range h.Steps {
		clock += st.AdvanceNS
		sec := clock / 1e9
		marks = append(marks, sec*1e6, (sec-3600)*1e6, (clock-3600e9)/1e3, (sec-20)*1e6, (sec+90)*1e6, (sec-1800)*1e6+250_000)
	}
	first, last := (h.T0NS/1e9-3600-600)*1e6, (clock/1e9+600)*1e6
	for _, m := range marks {
		for _, d := range []int64{-1_000_000, -1, 0, 1, 250_000, 999_999} {
			if r.IntN(100) < 55 {
				ts = append(ts, m+d)
			}
		}
	}
	for i := 0; i < 40+r.IntN(60); i++ {
		t := first + r.Int64N(last-first)
		if r.IntN(3) == 0 {
			t -= t % 1e6
		}
		ts = append(ts, t)
	}
	// backfill range: [trunc(T0)-4h, trunc(T0)-3h)
	bf := (h.T0NS/1e9 - 4*3600) * 1e6
	for _, d := range []int64{-1, 0, 1, 1800e6, 3600e6 - 1, 3600e6, 3600e6 + 1} {
		ts = append(ts, bf+d)
	}
	sort.Slice(ts, func(i, j int) bool { return ts[i] < ts[j] })
	rows := make([]srcRow, 0, len(ts))
	for i, t := range ts {
		if i > 0 && t == ts[i-1] {
			continue // one row per instant
		}
		rows = append(rows, srcRow{
			Rid:  int64(h.Idx)*1_000_000 + int64(i) + 1,
			T:    t,
			Host: pick(r, []string{"a", "b", "c"}),
			V:    float64(r.IntN(161)-80) * 0.25,
		})
	}
	return rows
}
