package main

import (
	"bytes"
	"context"
	"encoding/json"
	"fmt"
	"os"
	"os/exec"
	"path/filepath"
	"sync"
	"time"

	"github.com/basekick-labs/arc/internal/verifhook"
	"github.com/basekick-labs/arc/internal/zzverif/vfix"
	"github.com/basekick-labs/arc/internal/zzverif/vlib"
)

type batchSpec struct {
	Histories []history `json:"histories"`
}

// runBatch plays the histories of one batch sequentially in this process (one
// virtual clock) on one in-process arc node.
func runBatch(spec batchSpec) []histReport {
	installClock()
	defer verifhook.SetNow(nil)
	out := make([]histReport, 0, len(spec.Histories))
	n, err := vfix.NewNode(vfix.Options{WithQuery: true})
	if err != nil {
		for _, h := range spec.Histories {
			out = append(out, histReport{Idx: h.Idx, Inconcl: "vfix.NewNode: " + err.Error(), Counters: map[string]int64{}})
		}
		return out
	}
	defer n.Close()
	var written int64
	for i := range spec.Histories {
		h := &spec.Histories[i]
		res := runHistory(n, h, &written)
		if res.Inconcl != "" {
			// the flushed-row bookkeeping of the shared node is no longer reliable
			st := n.Buffer.GetStats()
			if v, ok := st["total_records_written"].(int64); ok {
				written = v
			}
		}
		out = append(out, judge(h, &res))
	}
	return out
}

func runBatchChild(args []string) {
	if len(args) != 2 {
		fmt.Fprintln(os.Stderr, "usage: cqbatch <spec.json> <out.json>")
		os.Exit(2)
	}
	b, err := os.ReadFile(args[0])
	if err != nil {
		fmt.Fprintln(os.Stderr, err)
		os.Exit(2)
	}
	var spec batchSpec
	if err := json.Unmarshal(b, &spec); err != nil {
		fmt.Fprintln(os.Stderr, err)
		os.Exit(2)
	}
	out, _ := json.Marshal(runBatch(spec))
	if err := os.WriteFile(args[1], out, 0o644); err != nil {
		fmt.Fprintln(os.Stderr, err)
		os.Exit(2)
	}
}

func checkC29(c *vlib.Ctx) {
	c.Rule("case = history of one continuous query under a virtual clock: 9..25 steps drawn from scheduled executions (ExecuteCQ, the scheduler's entry point), " +
		"manual executions through POST /execute (default range; explicit ranges: backfill before the first window, re-run of the last window, a range ahead of the cursor, " +
		"start at the cursor, cursor written with a +02:00 offset, fractional-second start, end in the future; dry runs), injected faults (definition updated to a query with an unknown column = source error; " +
		"to a query yielding a HUGEINT column the ingest buffer rejects = destination write error; handler restarted without ingest buffer; CQ deactivated), repairs, handler restarts over the same SQLite file, " +
		"interval / query-text updates; clock advances of 0, 1 ns, 999 999 999 ns, 1 s, 1 s + 1 ns, 10 s, 59.5 s, 1 min, the interval -1/+0/+1 ns, 2 intervals + 1/3 s, 1 h, 3 h 7 min, 25 h; start instant on / just before / off a second, near hour boundaries. " +
		"CQ variants: ungrouped aggregate without time column, GROUP BY host with tag_columns, date_trunc('minute') bucketed. Source rows (unique rid, one per instant) sit on, 1 us before/after and 250 ms / 999 999 us after every whole second at which a window boundary can fall. " +
		"Non-trivial = at least two completed chain executions; distinct by variant + operation/outcome sequence.")
	c.Assume("All time.Now/Since calls of internal/api/continuous_query.go and internal/scheduler/cq_scheduler.go are redirected to the harness clock by the build-time rewrite; the scheduler's ticker is not virtualised, so scheduled executions are driven by calling ContinuousQueryHandler.ExecuteCQ, which is all CQScheduler.executeJob does.")
	c.Assume("Expected output = aggregates computed in Go from the generator's rows over the window recorded in continuous_query_executions (ground truth, no SQL engine); source rows are pre-ingested through the real /write route and verified present with the arrow-go reader before the history starts (late-arriving data is outside the property).")
	c.Assume("Cursor transitions and execution inserts are logged by SQLite triggers installed by the harness in the handler's own database; histories are sequential (no two executions of one CQ race).")

	if c.Replay != "" {
		var d struct {
			History history `json:"history"`
		}
		if err := vlib.LoadReplay(c.Replay, &d); err != nil {
			panic(err)
		}
		for _, rep := range runBatch(batchSpec{Histories: []history{d.History}}) {
			reportC29(c, rep)
		}
		c.Floor(0)
		return
	}

	batches := c.N(16, 64)
	per := c.N(30, 150)
	exe, err := os.Executable()
	if err != nil {
		panic(err)
	}
	dir := vlib.TempDir("cqbatches")
	defer os.RemoveAll(dir)
	specs := make([]batchSpec, batches)
	idx := 0
	for bi := range specs {
		for i := 0; i < per; i++ {
			specs[bi].Histories = append(specs[bi].Histories, genHistory(c.Rand(fmt.Sprintf("history/%d", idx)), idx))
			idx++
		}
	}
	results := make([][]histReport, batches)
	errs := make([]string, batches)
	var wg sync.WaitGroup
	sem := make(chan struct{}, 16)
	for bi := range specs {
		wg.Add(1)
		go func(bi int) {
			defer wg.Done()
			sem <- struct{}{}
			defer func() { <-sem }()
			in := filepath.Join(dir, fmt.Sprintf("batch-%d.json", bi))
			out := filepath.Join(dir, fmt.Sprintf("batch-%d.out.json", bi))
			b, _ := json.Marshal(specs[bi])
			if err := os.WriteFile(in, b, 0o644); err != nil {
				errs[bi] = err.Error()
				return
			}
			ctx, cancel := context.WithTimeout(context.Background(), 60*time.Minute)
			defer cancel()
			cmd := exec.CommandContext(ctx, exe, "cqbatch", in, out)
			var stderr bytes.Buffer
			cmd.Stderr = &stderr
			if err := cmd.Run(); err != nil {
				errs[bi] = fmt.Sprintf("batch %d child: %v: %s", bi, err, tail(stderr.String(), 2000))
				return
			}
			ob, err := os.ReadFile(out)
			if err == nil {
				err = json.Unmarshal(ob, &results[bi])
			}
			if err != nil {
				errs[bi] = fmt.Sprintf("batch %d result: %v", bi, err)
			}
		}(bi)
	}
	wg.Wait()
	for bi := range results {
		if errs[bi] != "" {
			c.Inconclusive(errs[bi])
		}
		for _, rep := range results[bi] {
			reportC29(c, rep)
		}
	}
	c.Floor(batches * per / 2)
}

func tail(s string, n int) string {
	if len(s) > n {
		return s[len(s)-n:]
	}
	return s
}

func reportC29(c *vlib.Ctx, r histReport) {
	if r.Inconcl != "" {
		c.Inconclusive(fmt.Sprintf("history %d: %s", r.Idx, r.Inconcl))
		return
	}
	c.Eval()
	for _, k := range r.Nontriv {
		c.Nontrivial(k)
	}
	for k, v := range r.Counters {
		c.Count(k, v)
	}
	if r.Sample != nil {
		c.Sample(r.Sample)
	}
	for _, f := range r.Findings {
		c.Violation(f.Sig, f.Detail)
	}
}
