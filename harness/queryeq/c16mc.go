package main

import (
	"strings"

	"github.com/basekick-labs/arc/internal/zzverif/vlib"
)

// ===================== C16 family "mixed-case names" =====================
//
// Measurement names are case-preserved on storage (default/NetIO/..., default/HostInfo/...), so
// every rewriter that turns a reference into a storage path has to carry the name through in
// its stored case. This family ENUMERATES (nothing is sampled; the same cases run at every
// seed, dealt round-robin to the workers) the places a mixed-case name can stand in:
//
//	measurement  NetIO | HostInfo
//	spelling     bare | "double-quoted"
//	header       none | x-arc-database: default | x-arc-database: db2
//	position     FROM (plain, aliased + WHERE) | right-hand side of every join kind |
//	             both sides | NATURAL self join | CTE + JOIN (CTE left, CTE right, join inside
//	             the CTE body) | derived table + JOIN | IN-subquery | two joins
//	+ the db-qualified spellings (db2.M, "default".M; FROM and JOIN) without a header
//
// in plain style (single spaces, no comments; keyword case varies) so that the whitespace /
// comment defects of the random family cannot mask a difference. Same oracle as the random
// family: the same text on arc and on the reference DuckDB.

// c16ExtraMixedCase are stored in addition to cpu/mem/NetIO (written from their own stream).
var c16ExtraMixedCase = []string{"HostInfo"}

var c16MixedCase = []string{"NetIO", "HostInfo"}

var mcJoinKinds = []string{"JOIN", "INNER JOIN", "LEFT JOIN", "LEFT OUTER JOIN", "RIGHT JOIN", "RIGHT OUTER JOIN", "FULL JOIN", "FULL OUTER JOIN", "CROSS JOIN", "SEMI JOIN", "ANTI JOIN", "ASOF JOIN", "ASOF LEFT JOIN"}

type mcCase struct {
	Q     qspec
	Shape string // position class (counter name)
	M     string
}

func ptr(t tok) *tok { return &t }

// mcJoin builds `<kind> <src> b ON ...` with the usual condition of that join kind; where
// receives the predicates a CROSS JOIN needs to stay small.
func mcJoin(kind string, src srcSpec, left, right string, where *[]item) joinSpec {
	src.Alias = right
	js := joinSpec{Kind: kind, Src: src}
	switch {
	case kind == "CROSS JOIN":
		*where = append(*where, item{pl(left + ".rid % 7 = 0")}, item{pl(right + ".rid % 5 = 0")})
	case strings.HasPrefix(kind, "ASOF"):
		js.Cond = item{kw("ON"), pl(left + ".host = " + right + ".host"), kw("AND"), pl(left + ".time >= " + right + ".time")}
	default:
		js.Cond = item{kw("ON"), pl(left + ".host = " + right + ".host")}
	}
	return js
}

func genMCCases() []mcCase {
	var out []mcCase
	idx := 0
	add := func(shape, m, hdr string, quote int, sel *selSpec) {
		idx++
		q := qspec{Sel: sel, Hdr: hdr, Style: styleSpec{KwCase: idx % 3, Quote: quote, Seed: uint64(idx)}}
		out = append(out, mcCase{Q: q, Shape: shape, M: m})
	}
	proj2 := func(a, b string) []item {
		return []item{{pl(a + ".rid")}, {pl(b + ".rid")}, {pl(b + ".vi")}}
	}
	for mi, m := range c16MixedCase {
		other := c16MixedCase[(mi+1)%len(c16MixedCase)]
		for quote := 0; quote <= 1; quote++ {
			for _, hdr := range []string{"", "default", "db2"} {
				lower := []string{"cpu", "mem"}[(idx/7)%2]
				M, O, M2 := tb("", m), tb("", lower), tb("", other)
				// FROM position
				add("from", m, hdr, quote, &selSpec{Proj: []item{{pl("rid")}, {pl("host")}, {pl("vi")}}, From: srcSpec{Tab: ptr(M)}})
				add("from", m, hdr, quote, &selSpec{Proj: []item{{pl("a.rid")}, {pl("a.LoadAvg")}}, From: srcSpec{Tab: ptr(M), Alias: "a"}, Where: []item{{pl("a.vi > 20")}}})
				// JOIN position: right-hand side of every join kind, a lower-case measurement on the left
				for _, kind := range mcJoinKinds {
					s := &selSpec{From: srcSpec{Tab: ptr(O), Alias: "a"}}
					s.Joins = []joinSpec{mcJoin(kind, srcSpec{Tab: ptr(M)}, "a", "b", &s.Where)}
					if kind == "SEMI JOIN" || kind == "ANTI JOIN" {
						s.Proj = []item{{pl("a.rid")}, {pl("a.vi")}}
					} else {
						s.Proj = proj2("a", "b")
					}
					add("join", m, hdr, quote, s)
				}
				// both sides mixed-case
				{
					s := &selSpec{Proj: proj2("a", "b"), From: srcSpec{Tab: ptr(M), Alias: "a"}}
					s.Joins = []joinSpec{mcJoin("LEFT JOIN", srcSpec{Tab: ptr(M2)}, "a", "b", &s.Where)}
					add("from+join", m, hdr, quote, s)
				}
				// NATURAL self join (every common column): returns the rows without NULLs
				add("natural-self-join", m, hdr, quote, &selSpec{Proj: []item{{pl("rid")}, {pl("host")}}, From: srcSpec{Tab: ptr(M), Alias: "a"},
					Joins: []joinSpec{{Kind: "NATURAL JOIN", Src: srcSpec{Tab: ptr(M), Alias: "b"}}}})
				// CTE + JOIN
				{
					s := &selSpec{With: []cteSpec{{Name: "c", Body: &selSpec{Proj: allCols(), From: srcSpec{Tab: ptr(O)}}}},
						Proj: proj2("a", "b"), From: srcSpec{CTE: "c", Alias: "a"}}
					s.Joins = []joinSpec{mcJoin([]string{"JOIN", "LEFT JOIN", "SEMI JOIN"}[idx%3], srcSpec{Tab: ptr(M)}, "a", "b", &s.Where)}
					if s.Joins[0].Kind == "SEMI JOIN" {
						s.Proj = []item{{pl("a.rid")}, {pl("a.vi")}}
					}
					add("cte-left+join", m, hdr, quote, s)
				}
				{
					s := &selSpec{With: []cteSpec{{Name: "c", Body: &selSpec{Proj: allCols(), From: srcSpec{Tab: ptr(M)}, Where: []item{{pl("vi IS NOT NULL")}}}}},
						Proj: proj2("a", "b"), From: srcSpec{Tab: ptr(O), Alias: "a"}}
					s.Joins = []joinSpec{mcJoin("LEFT JOIN", srcSpec{CTE: "c"}, "a", "b", &s.Where)}
					add("cte-right(reads-mixed-case)+join", m, hdr, quote, s)
				}
				{
					body := &selSpec{Proj: []item{{pl("a.rid"), kw("AS"), pl("ar")}, {pl("b.rid"), kw("AS"), pl("br")}}, From: srcSpec{Tab: ptr(O), Alias: "a"}}
					body.Joins = []joinSpec{mcJoin("JOIN", srcSpec{Tab: ptr(M)}, "a", "b", &body.Where)}
					add("join-inside-cte-body", m, hdr, quote, &selSpec{With: []cteSpec{{Name: "c", Body: body}}, Proj: []item{{pl("ar")}, {pl("br")}}, From: srcSpec{CTE: "c"}})
				}
				// derived table + JOIN
				{
					s := &selSpec{Proj: proj2("a", "b"), From: srcSpec{Sub: &selSpec{Proj: allCols(), From: srcSpec{Tab: ptr(O)}}, Alias: "a"}}
					s.Joins = []joinSpec{mcJoin("RIGHT JOIN", srcSpec{Tab: ptr(M)}, "a", "b", &s.Where)}
					add("derived+join", m, hdr, quote, s)
				}
				// IN-subquery reading the mixed-case measurement (FROM position inside a subquery)
				add("in-subquery", m, hdr, quote, &selSpec{Proj: []item{{pl("rid")}}, From: srcSpec{Tab: ptr(O)},
					Where: []item{{pl("host"), kw("IN"), pl("("), kw("SELECT"), pl("host"), kw("FROM"), M, kw("WHERE"), pl("vi > 60"), pl(")")}}})
				// two joins, both right-hand sides mixed-case
				{
					s := &selSpec{Proj: []item{{pl("a.rid")}, {pl("b.rid")}, {pl("c.rid")}}, From: srcSpec{Tab: ptr(O), Alias: "a"}, Where: []item{{pl("a.rid % 3 = 0")}}}
					s.Joins = []joinSpec{mcJoin("JOIN", srcSpec{Tab: ptr(M)}, "a", "b", &s.Where), mcJoin("LEFT JOIN", srcSpec{Tab: ptr(M2)}, "b", "c", &s.Where)}
					s.Joins[0].Cond = append(s.Joins[0].Cond, kw("AND"), pl("a.vi < b.vi"))
					add("two-joins", m, hdr, quote, s)
				}
			}
			// db-qualified spellings (only valid without a header)
			for _, db := range []string{"default", "db2"} {
				add("db-qualified-from", m, "", quote, &selSpec{Proj: []item{{pl("rid")}, {pl("vi")}}, From: srcSpec{Tab: ptr(tb(db, m))}})
				s := &selSpec{Proj: proj2("a", "b"), From: srcSpec{Tab: ptr(tb(db, "cpu")), Alias: "a"}}
				s.Joins = []joinSpec{mcJoin("LEFT JOIN", srcSpec{Tab: ptr(tb(db, m))}, "a", "b", &s.Where)}
				add("db-qualified-join", m, "", quote, s)
			}
		}
	}
	return out
}

// c16MixedCaseFamily runs the worker's share of the enumerated cases. It has its own
// shrinking budget, so it neither takes budget from the random family nor is starved by it.
func c16MixedCaseFamily(c *vlib.Ctx, e *env, w, workers int) {
	seen := map[string]int{}
	shrunk := 0
	for i, mc := range genMCCases() {
		if i%workers != w {
			continue
		}
		q := mc.Q
		text := q.render()
		o := e.run(text, q.Hdr, false, false)
		c.Eval()
		c.Count("queries_sent", 1)
		c.Count("mc_queries_sent", 1)
		c.Count("arc_ms_total", o.ArcMS)
		c.Count("ref_ms_total", o.RefMS)
		switch o.Kind {
		case "rejected":
			c.Count("queries_rejected_by_validation", 1)
			c.Count("mc_rejected_by_validation", 1)
			continue
		case "inconclusive":
			c.Inconclusive(o.Why)
			continue
		case "both_fail":
			c.Count("queries_both_fail", 1)
			c.Count("mc_both_fail", 1)
			continue
		}
		c.Count("queries_compared", 1)
		c.Count("mc_compared", 1)
		c.Count("mc_position_"+mc.Shape, 1)
		c.Count("mc_measurement_"+mc.M, 1)
		if q.Style.Quote > 0 {
			c.Count("mc_spelling_quoted", 1)
		} else {
			c.Count("mc_spelling_bare", 1)
		}
		if q.Hdr == "" {
			c.Count("mc_header_none", 1)
		} else {
			c.Count("mc_header_"+q.Hdr, 1)
		}
		if o.Ref.NRows > 0 {
			c.Count("compared_with_rows", 1)
			c.Count("mc_compared_with_rows", 1)
		}
		c.Nontrivial(text + "|" + q.Hdr)
		if o.Kind == "equal" {
			continue
		}
		c.Count("mismatches", 1)
		c.Count("mc_mismatches", 1)
		prov := c16Classify(e, q, o)
		if seen[prov] >= 1 || shrunk >= 4 {
			c.Count("mismatches_not_shrunk_same_provisional_class", 1)
			continue
		}
		seen[prov]++
		shrunk++
		mq, mhdr, mo := c16Shrink(c, e, q, q.Hdr, o)
		kind := "arc fails where DuckDB answers"
		switch mo.Why {
		case "arc succeeds, reference fails":
			kind = "arc answers where DuckDB fails"
		case "arc fails, reference succeeds":
		default:
			kind = "silently different result"
		}
		sig := c16Classify(e, mq, mo) + ": " + kind
		c.Violation(sig, map[string]any{"worker": w, "family": "mixed-case names", "position": mc.Shape, "original_sql": text, "original_hdr": q.Hdr, "original_outcome": o,
			"minimal_sql": mq.render(), "minimal_hdr": mhdr, "minimal_spec": mq, "minimal_features": mq.features(), "minimal_outcome": mo})
	}
}
