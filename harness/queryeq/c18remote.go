package main

import (
	"context"
	"errors"
	"fmt"
	"math/rand/v2"
	"sort"
	"strings"
	"sync"
	"time"

	"github.com/rs/zerolog"

	"github.com/basekick-labs/arc/internal/pruning"
	"github.com/basekick-labs/arc/internal/storage"
	"github.com/basekick-labs/arc/internal/zzverif/vfix"
	"github.com/basekick-labs/arc/internal/zzverif/vlib"
)

// ===================== C18 family "remote storage" =====================
//
// arc validates the generated partition paths differently on remote storage (s3:// /
// azure:// table paths): instead of globbing it LISTs the parent of every path through the
// storage backend (storage.DirectoryLister; file LIST for day-level paths) and caches the
// listings. This family drives that code path through the pruner's exported API:
//
//	pruning.NewPartitionPruner + SetStorageBackend(<fault wrapper over the node's real
//	LocalBackend>) + OptimizeTablePath(ctx, "s3://bucket/<db>/<m>/**/*.parquet", sql)
//
// over the SAME stored layouts the rest of the check uses (mx: hour-partitioned / compacted
// days; daily: compacted days, day file + late hour file; sensor: sparse hour files; two
// databases) with two-sided literal time ranges (the class that is pruned correctly on local
// storage). The returned s3:// path list is mapped back onto the local tree and read with the
// reference DuckDB; oracle as everywhere in C18: rows of the pruned file list == rows of the
// unpruned read (the view over every file) for the same WHERE clause.
//
// Faults: the wrapper makes individual listing calls fail like a throttled / timed-out
// object store: ListDirectories of one partition parent (the day directory listing hour
// partitions, or the month directory listing day directories), once or for as long as the
// fault is armed, two parents at once, or the file LIST of a day-level path. Every case uses
// a fresh pruner (cold caches) and runs: Q1 while the fault is armed, a second text Q2 (while
// the fault persists in "while" mode), then the store recovers and a third text Q3 and Q1
// again are checked. No clock is involved: "after the fault" means after the wrapper stopped
// failing, not after a TTL.

const remoteBucket = "s3://verif-bucket"

type faultStore struct {
	*storage.LocalBackend
	mu        sync.Mutex
	dirFaults map[string]int // ListDirectories(prefix) fails while > 0
	lsFaults  map[string]int // List(prefix) fails while > 0
	calls     int
	failed    int
	failedNow int // failures since the last mark()
}

func (s *faultStore) hit(m map[string]int, prefix string) bool {
	s.mu.Lock()
	defer s.mu.Unlock()
	s.calls++
	if m[prefix] > 0 {
		m[prefix]--
		s.failed++
		s.failedNow++
		return true
	}
	return false
}

func (s *faultStore) ListDirectories(ctx context.Context, prefix string) ([]string, error) {
	if s.hit(s.dirFaults, prefix) {
		return nil, errors.New("RequestTimeout: injected transient LIST failure (directories)")
	}
	return s.LocalBackend.ListDirectories(ctx, prefix)
}

func (s *faultStore) List(ctx context.Context, prefix string) ([]string, error) {
	if s.hit(s.lsFaults, prefix) {
		return nil, errors.New("SlowDown: injected transient LIST failure (objects)")
	}
	return s.LocalBackend.List(ctx, prefix)
}

func (s *faultStore) heal() {
	s.mu.Lock()
	s.dirFaults, s.lsFaults = map[string]int{}, map[string]int{}
	s.mu.Unlock()
}

func (s *faultStore) mark() {
	s.mu.Lock()
	s.failedNow = 0
	s.mu.Unlock()
}

// remoteFault: which listing fails. Day is relative to the dataset's Base day.
type remoteFault struct {
	Call  string `json:"call"`  // "ListDirectories" | "List"
	Level string `json:"level"` // "day" (lists the hour partitions of one day) | "month" (lists the day directories) | "dayfiles" (objects of a day-level path)
	Day   int    `json:"day_rel"`
	Mode  string `json:"mode"` // "once" | "while" (every call until the store recovers)
}

// remoteRange: [Lo, Hi) in µs relative to Base (so that a replay on another day re-creates it).
type remoteRange struct {
	Lo  int64  `json:"lo_rel_us"`
	Hi  int64  `json:"hi_rel_us"`
	Op  string `json:"op"`
	Fmt int    `json:"fmt"`
}

type remoteCase struct {
	DB     string        `json:"db"`
	M      string        `json:"measurement"`
	Q      []remoteRange `json:"ranges"` // Q1, Q2, Q3
	Faults []remoteFault `json:"faults"`
	Kind   string        `json:"fault_kind"`
}

func (r remoteRange) where(d *c18Data) string {
	b := d.Base.UnixMicro()
	return fmt.Sprintf("time %s '%s' AND time < '%s'", r.Op, fmtLit(b+r.Lo, r.Fmt), fmtLit(b+r.Hi, r.Fmt))
}

func (f remoteFault) prefix(d *c18Data, db, m string) string {
	day := d.Base.AddDate(0, 0, f.Day)
	if f.Level == "month" {
		return fmt.Sprintf("%s/%s/%s/", db, m, day.Format("2006/01"))
	}
	return fmt.Sprintf("%s/%s/%s/", db, m, day.Format("2006/01/02"))
}

func genRemoteCase(rng *rand.Rand) remoteCase {
	var rc remoteCase
	var first, ndays int // first day (relative to Base) and number of days of the layout
	var los, his []int64 // times of day for the bounds
	switch k := rng.IntN(20); {
	case k < 8:
		rc.DB, rc.M, first, ndays = "default", "mx", mxFirstDay, len(mxLayout)
		los = []int64{2 * hourUS, 2*hourUS + 1800_000000, 13 * hourUS, 22 * hourUS, 22*hourUS + 1800_000000}
		his = los
	case k < 14:
		rc.DB, rc.M, first, ndays = "default", "daily", c18Days[0], len(c18Days)
	case k < 17:
		rc.DB, rc.M, first, ndays = "default", "sensor", c18Days[0], len(c18Days)
	default:
		rc.DB, rc.M, first, ndays = "db2", "sensor", c18Days[0], len(c18Days)
	}
	if los == nil {
		los = []int64{0, 5 * hourUS, 10 * hourUS, 10*hourUS + 1800_000000, 12 * hourUS, 23 * hourUS}
		his = los[1:]
	}
	m := 1 + rng.IntN(3) // midnights crossed
	if m > ndays-1 {
		m = ndays - 1
	}
	i := rng.IntN(ndays - m)
	lo := int64(first+i)*dayUS + los[rng.IntN(len(los))]
	hi := int64(first+i+m)*dayUS + his[rng.IntN(len(his))]
	op, f := []string{">=", ">"}[rng.IntN(2)], []int{0, 0, 1, 3}[rng.IntN(4)]
	rc.Q = []remoteRange{{lo, hi, op, f}, {lo - hourUS, hi + hourUS, ">=", 0}, {lo - 2*hourUS, hi + 1800_000000, op, f}}
	target := first + i + rng.IntN(m+1) // a day the range touches
	switch k := rng.IntN(12); {
	case k < 1:
		rc.Kind = "none"
	case k < 4:
		rc.Kind, rc.Faults = "day-parent-once", []remoteFault{{"ListDirectories", "day", target, "once"}}
	case k < 6:
		rc.Kind, rc.Faults = "day-parent-while", []remoteFault{{"ListDirectories", "day", target, "while"}}
	case k < 8:
		rc.Kind, rc.Faults = "month-parent-once", []remoteFault{{"ListDirectories", "month", target, "once"}}
	case k < 9:
		rc.Kind, rc.Faults = "month-parent-while", []remoteFault{{"ListDirectories", "month", target, "while"}}
	case k < 10:
		rc.Kind, rc.Faults = "day-and-month-parent-once", []remoteFault{{"ListDirectories", "day", target, "once"}, {"ListDirectories", "month", target, "once"}}
	default:
		rc.Kind, rc.Faults = "day-level-file-list-once", []remoteFault{{"List", "dayfiles", target, "once"}}
	}
	return rc
}

type remoteStep struct {
	Label      string   `json:"step"`
	Where      string   `json:"where"`
	Phase      string   `json:"phase"` // "during" | "after" | "no fault"
	Optimized  bool     `json:"pruned"`
	Paths      int      `json:"paths"`
	Want       int      `json:"rows_unpruned"`
	Got        int      `json:"rows_pruned"`
	ReadErr    string   `json:"pruned_read_error,omitempty"`
	FailedNow  int      `json:"list_failures_injected_in_this_step"`
	SameText   bool     `json:"same_text_as_an_earlier_step,omitempty"`
	Missing    []int64  `json:"-"`
	Extra      []int64  `json:"-"`
	PathSample []string `json:"path_sample,omitempty"`
}

func ridList(r *vfix.Ref, q string) ([]int64, error) {
	_, rows, err := refQuery(r, q)
	if err != nil {
		return nil, err
	}
	out := make([]int64, 0, len(rows))
	for _, row := range rows {
		if v, ok := row[0].(int64); ok {
			out = append(out, v)
		}
	}
	return out, nil
}

// runRemoteCase executes one case on a fresh pruner; returns the steps (nil + error text when
// the reference itself fails, which is inconclusive).
func runRemoteCase(e *env, d *c18Data, rc remoteCase) ([]remoteStep, *faultStore, string) {
	store := &faultStore{LocalBackend: e.n.Backend, dirFaults: map[string]int{}, lsFaults: map[string]int{}}
	pr := pruning.NewPartitionPruner(zerolog.Nop())
	pr.SetStorageBackend(store)
	ref := e.refs[""]
	glob := remoteBucket + "/" + rc.DB + "/" + rc.M + "/**/*.parquet"
	view := `"` + rc.DB + `"."` + rc.M + `"`
	everFailed := false
	step := func(label string, r remoteRange) (remoteStep, string) {
		st := remoteStep{Label: label, Where: r.where(d)}
		store.mark()
		res, optimized := pr.OptimizeTablePath(context.Background(), glob, "SELECT rid FROM "+rc.M+" WHERE "+st.Where)
		store.mu.Lock()
		st.FailedNow = store.failedNow
		store.mu.Unlock()
		switch {
		case st.FailedNow > 0:
			st.Phase, everFailed = "during", true
		case everFailed:
			st.Phase = "after"
		default:
			st.Phase = "no fault"
		}
		want, err := ridList(ref, "SELECT rid FROM "+view+" WHERE "+st.Where+" ORDER BY rid")
		if err != nil {
			return st, "reference (unpruned) read failed: " + err.Error()
		}
		st.Want, st.Optimized = len(want), optimized
		if !optimized {
			st.Got = st.Want // the unpruned glob is read: same statement
			return st, ""
		}
		var paths []string
		switch v := res.(type) {
		case string:
			paths = []string{v}
		case []string:
			paths = v
		}
		st.Paths = len(paths)
		quoted := make([]string, len(paths))
		for i, p := range paths {
			quoted[i] = "'" + e.n.Root + strings.TrimPrefix(p, remoteBucket) + "'"
			if i < 6 {
				st.PathSample = append(st.PathSample, p)
			}
		}
		got, err := ridList(ref, "SELECT rid FROM read_parquet(["+strings.Join(quoted, ", ")+"], union_by_name=true) WHERE "+st.Where+" ORDER BY rid")
		if err != nil {
			st.ReadErr = err.Error()
			if isResourceError(st.ReadErr) {
				return st, "pruned read: " + st.ReadErr
			}
			got = nil // arc answers a "No files found" failure with an empty result; any other failure returns no rows either
		}
		st.Got = len(got)
		in := map[int64]int{}
		for _, r := range want {
			in[r]++
		}
		for _, r := range got {
			if in[r] > 0 {
				in[r]--
			} else {
				st.Extra = append(st.Extra, r)
			}
		}
		for _, r := range want {
			if in[r] > 0 {
				in[r]--
				st.Missing = append(st.Missing, r)
			}
		}
		return st, ""
	}
	arm := func() {
		store.mu.Lock()
		for _, f := range rc.Faults {
			n := 1
			if f.Mode == "while" {
				n = 1 << 30
			}
			if f.Call == "List" {
				store.lsFaults[f.prefix(d, rc.DB, rc.M)] = n
			} else {
				store.dirFaults[f.prefix(d, rc.DB, rc.M)] = n
			}
		}
		store.mu.Unlock()
	}
	var steps []remoteStep
	arm()
	plan := []struct {
		label   string
		q       int
		recover bool // the store recovers before this step
	}{{"Q1 with the fault armed", 0, false}, {"Q2 (another text)", 1, false}, {"Q3 (another text) after the store recovered", 2, true}, {"Q1 again after the store recovered", 0, false}}
	for _, p := range plan {
		if p.recover {
			store.heal()
		}
		st, bad := step(p.label, rc.Q[p.q])
		if bad != "" {
			return steps, store, bad
		}
		for _, prev := range steps {
			if prev.Where == st.Where {
				st.SameText = true
			}
		}
		steps = append(steps, st)
	}
	return steps, store, ""
}

// remoteSignatures names the failure class(es) of one differing step: what was lost relative
// to the failed listings and when (while the listing fails / after the store recovered).
func remoteSignatures(d *c18Data, rc remoteCase, st remoteStep) []string {
	if len(rc.Faults) == 0 || st.Phase == "no fault" {
		if st.ReadErr != "" {
			return []string{"remote storage, no listing fault: the pruned path list cannot be read (" + readErrClass(st.ReadErr) + ")"}
		}
		return []string{"remote storage, no listing fault: pruning changes the result"}
	}
	if st.ReadErr != "" {
		return []string{"remote storage, failed LIST of a partition parent: every generated child path is assumed to exist, a path without files makes the pruned read fail (" + readErrClass(st.ReadErr) + "; arc answers 'No files found' with an empty result)"}
	}
	if len(st.Missing) == 0 {
		return []string{"remote storage, listing fault: the pruned file list returns rows the unpruned read does not"}
	}
	// where do the lost rows live relative to the failed listings?
	under := map[string]bool{}
	for _, rid := range st.Missing {
		g, ok := d.ByID[rid]
		if !ok {
			continue
		}
		t := time.UnixMicro(g.US).UTC()
		dayP := fmt.Sprintf("%s/%s/%s/", g.DB, g.M, t.Format("2006/01/02"))
		monP := fmt.Sprintf("%s/%s/%s/", g.DB, g.M, t.Format("2006/01"))
		cls := "outside every failed listing"
		for _, f := range rc.Faults {
			p := f.prefix(d, rc.DB, rc.M)
			switch {
			case f.Call == "List" && p == dayP:
				cls = "the compacted day file of a day-level path whose file LIST failed"
			case f.Call == "ListDirectories" && f.Level == "day" && p == dayP:
				cls = "the hour partitions under a day directory whose LIST failed"
			case f.Call == "ListDirectories" && f.Level == "month" && p == monP && cls == "outside every failed listing":
				cls = "the day-level (compacted) files under a month directory whose LIST failed"
			}
		}
		under[cls] = true
	}
	when := "while the listing fails"
	if st.Phase == "after" {
		when = "after the store has recovered, for another SQL text (the failed listing is served from the listing cache)"
		if st.SameText {
			when = "after the store has recovered, for the same SQL text (cached path list)"
		}
	}
	var out []string
	for k := range under {
		out = append(out, "remote storage, transient LIST failure: rows are lost from the pruned file list "+when+": "+k)
	}
	sort.Strings(out)
	return out
}

func readErrClass(s string) string {
	if strings.Contains(s, "No files found that match the pattern") {
		return "No files found that match the pattern"
	}
	if i := strings.Index(s, ":"); i > 0 && i < 40 {
		return s[:i]
	}
	return "read error"
}

func remoteRowInfo(d *c18Data, rids []int64) []map[string]any {
	var out []map[string]any
	for _, id := range rids {
		if len(out) >= 12 {
			break
		}
		if g, ok := d.ByID[id]; ok {
			out = append(out, map[string]any{"rid": id, "table": g.DB + "." + g.M, "time": time.UnixMicro(g.US).UTC().Format(time.RFC3339Nano)})
		}
	}
	return out
}

// c18RemoteFamily runs n generated cases on worker w's dataset.
func c18RemoteFamily(c *vlib.Ctx, e *env, d *c18Data, w, n int) {
	rng := c.Rand(fmt.Sprintf("c18-remote-%d", w))
	reported := map[string]int{}
	for i := 0; i < n; i++ {
		rc := genRemoteCase(rng)
		c.Count("remote_cases", 1)
		c.Count("remote_fault_kind_"+rc.Kind, 1)
		c.Count("remote_table_"+rc.DB+"."+rc.M, 1)
		t0 := time.Now()
		steps, store, bad := runRemoteCase(e, d, rc)
		c.Count("remote_ms_total", time.Since(t0).Milliseconds())
		if bad != "" {
			c.Inconclusive("remote family: " + bad)
			continue
		}
		c.Count("remote_list_calls", int64(store.calls))
		c.Count("remote_list_failures_injected", int64(store.failed))
		if len(rc.Faults) > 0 && store.failed == 0 {
			c.Count("remote_cases_fault_never_reached", 1)
		}
		for si, st := range steps {
			c.Eval()
			c.Count("queries_generated", 1)
			c.Count("remote_steps_compared", 1)
			c.Count("remote_steps_"+strings.ReplaceAll(st.Phase, " ", "_"), 1)
			if st.Optimized {
				c.Count("remote_steps_pruned", 1)
				c.Count("remote_partition_paths", int64(st.Paths))
				if st.Want > 0 {
					c.Nontrivial(fmt.Sprintf("remote|%d|%d|%d|%s|%s.%s|%s", w, i, si, rc.Kind, rc.DB, rc.M, st.Where))
				}
			} else {
				c.Count("remote_steps_not_pruned_fallback", 1)
			}
			if st.ReadErr == "" && len(st.Missing) == 0 && len(st.Extra) == 0 {
				if st.Optimized && st.Want > 0 {
					c.Count("remote_pruned_equal_with_rows", 1)
					if st.Phase != "no fault" {
						c.Count("remote_pruned_equal_with_rows_"+st.Phase+"_fault", 1)
					}
				}
				continue
			}
			c.Count("remote_mismatches", 1)
			if st.SameText && st.FailedNow == 0 && differsLike(steps[:si], st) {
				// the same text again: the path list cached for the earlier, already reported step
				c.Count("remote_mismatches_repeated_from_the_cached_path_list", 1)
				continue
			}
			for _, sig := range remoteSignatures(d, rc, st) {
				if reported[sig] >= 2 {
					continue
				}
				reported[sig]++
				c.Violation(sig, map[string]any{"worker": w, "family": "remote storage", "t0": d.T0.Format(time.RFC3339), "remote_case": rc, "failing_step": si,
					"steps": steps, "table_path": remoteBucket + "/" + rc.DB + "/" + rc.M + "/**/*.parquet",
					"fault_prefixes": remoteFaultPrefixes(d, rc), "missing_rows": remoteRowInfo(d, st.Missing), "extra_rows": remoteRowInfo(d, st.Extra)})
			}
		}
	}
}

// differsLike: an earlier step with the same text already differed in the same way.
func differsLike(prev []remoteStep, st remoteStep) bool {
	for _, p := range prev {
		if p.Where == st.Where && (p.ReadErr != "") == (st.ReadErr != "") && len(p.Missing) == len(st.Missing) && len(p.Extra) == len(st.Extra) && (p.ReadErr != "" || len(p.Missing) > 0 || len(p.Extra) > 0) {
			return true
		}
	}
	return false
}

func remoteFaultPrefixes(d *c18Data, rc remoteCase) []string {
	var out []string
	for _, f := range rc.Faults {
		out = append(out, f.Call+"("+f.prefix(d, rc.DB, rc.M)+") "+f.Mode)
	}
	return out
}

func replayC18Remote(c *vlib.Ctx, e *env, d *c18Data, rc remoteCase) {
	steps, store, bad := runRemoteCase(e, d, rc)
	fmt.Printf("REPLAY remote case %s.%s faults=%v list_calls=%d injected_failures=%d %s\n", rc.DB, rc.M, remoteFaultPrefixes(d, rc), store.calls, store.failed, bad)
	for si, st := range steps {
		c.Eval()
		fmt.Printf(" step %d [%s] %s: WHERE %s pruned=%v paths=%d unpruned_rows=%d pruned_rows=%d read_error=%q missing=%v extra=%v\n", si, st.Phase, st.Label, st.Where, st.Optimized, st.Paths, st.Want, st.Got, st.ReadErr, remoteRowInfo(d, st.Missing), remoteRowInfo(d, st.Extra))
		if st.ReadErr != "" || len(st.Missing) > 0 || len(st.Extra) > 0 {
			c.Violation("replayed remote case still differs: "+strings.Join(remoteSignatures(d, rc, st), " / "), map[string]any{"remote_case": rc, "steps": steps})
		}
	}
}
