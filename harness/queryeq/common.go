package main

import (
	"bytes"
	"encoding/json"
	"fmt"
	"math"
	"math/big"
	"os"
	"path/filepath"
	"sort"
	"strconv"
	"strings"
	"sync"
	"time"

	"github.com/rs/zerolog"

	"github.com/basekick-labs/arc/internal/zzverif/vfix"
)

// ---------- log capture (behavioural observation of the transform / pruner) ----------

// logTap receives arc's zerolog output (one JSON object per Write) and keeps the
// events of the query currently running on this node. Queries on one node are issued
// sequentially, so everything between begin() and end() belongs to that query.
type logTap struct {
	mu     sync.Mutex
	active bool
	cur    qlog
}

// qlog is what arc logged while handling one query.
type qlog struct {
	Converted   string   `json:"converted_sql,omitempty"` // "Executing query" debug event
	CacheHit    bool     `json:"transform_cache_hit,omitempty"`
	Parallel    bool     `json:"parallel,omitempty"`
	PrunedRefs  int      `json:"pruned_table_refs"`             // table references replaced by a pruned path list
	Partitions  int      `json:"pruned_partition_paths"`        // total partition paths used by them
	Generated   int      `json:"pruner_generated_path_sets"`    // "Generated partition paths" events (cache misses)
	PrunedPaths []string `json:"pruned_single_paths,omitempty"` // single optimized paths
}

func (t *logTap) Write(p []byte) (int, error) {
	t.mu.Lock()
	defer t.mu.Unlock()
	if !t.active {
		return len(p), nil
	}
	var ev map[string]any
	if json.Unmarshal(p, &ev) != nil {
		return len(p), nil
	}
	msg, _ := ev["message"].(string)
	switch msg {
	case "Executing query":
		t.cur.Converted, _ = ev["converted_sql"].(string)
		t.cur.CacheHit, _ = ev["cache_hit"].(bool)
		t.cur.Parallel, _ = ev["parallel"].(bool)
	case "Partition pruning: Using targeted paths", "Partition pruning: Using parallel execution":
		t.cur.PrunedRefs++
		if f, ok := ev["partition_count"].(float64); ok {
			t.cur.Partitions += int(f)
		}
	case "Partition pruning: Using optimized path":
		t.cur.PrunedRefs++
		t.cur.Partitions++
		if s, ok := ev["optimized_path"].(string); ok {
			t.cur.PrunedPaths = append(t.cur.PrunedPaths, s)
		}
	case "Generated partition paths":
		t.cur.Generated++
	}
	return len(p), nil
}

func (t *logTap) begin() {
	t.mu.Lock()
	t.active = true
	t.cur = qlog{}
	t.mu.Unlock()
}

func (t *logTap) end() qlog {
	t.mu.Lock()
	defer t.mu.Unlock()
	t.active = false
	return t.cur
}

// ---------- environment: one arc node + reference engines ----------

type env struct {
	n    *vfix.Node
	tap  *logTap
	refs map[string]*vfix.Ref // header database ("" = no header: bare names resolve to "default")
	rows int64
}

func newEnv() (*env, error) {
	tap := &logTap{}
	lg := zerolog.New(tap).Level(zerolog.DebugLevel)
	n, err := vfix.NewNode(vfix.Options{WithQuery: true, Logger: &lg})
	if err != nil {
		return nil, err
	}
	return &env{n: n, tap: tap, refs: map[string]*vfix.Ref{}}, nil
}

func (e *env) close() {
	for _, r := range e.refs {
		r.Close()
	}
	e.n.Close()
}

// write posts line protocol (microsecond precision) to db; nLines rows are expected
// to be accepted.
func (e *env) write(db string, lp []byte, nLines int) error {
	code, body, _ := e.n.Do("POST", "/write?db="+db+"&precision=us", nil, lp)
	if code != 204 {
		return fmt.Errorf("write rejected: HTTP %d %s", code, string(body))
	}
	e.rows += int64(nLines)
	return nil
}

// flush makes every accepted row durable as Parquet (false: watchdog fired).
func (e *env) flush() bool { return e.n.Quiesce(e.rows) }

// defineRefs (re)creates the reference engines: one for requests without a header
// (bare measurement names resolve to database "default", as arc documents) and one per
// header database (bare names resolve to that database).
func (e *env) defineRefs(hdrDBs ...string) error {
	for _, r := range e.refs {
		r.Close()
	}
	e.refs = map[string]*vfix.Ref{}
	for _, h := range append([]string{""}, hdrDBs...) {
		r, err := vfix.NewRef()
		if err != nil {
			return err
		}
		def := h
		if def == "" {
			def = "default"
		}
		if _, err := r.DefineViews(e.n.Root, def); err != nil {
			return err
		}
		e.refs[h] = r
	}
	return nil
}

// ---------- running one SQL text on both engines ----------

type sideResult struct {
	OK     bool       `json:"ok"`
	Status int        `json:"status,omitempty"`
	Err    string     `json:"error,omitempty"`
	Cols   []string   `json:"columns,omitempty"`
	Rows   [][]string `json:"rows,omitempty"` // canonical cells
	NRows  int        `json:"row_count"`
}

type outcome struct {
	// Kind: "equal" | "both_fail" | "rejected" (arc refused at validation: not an accepted
	// query) | "mismatch" | "inconclusive"
	Kind  string     `json:"kind"`
	Why   string     `json:"why,omitempty"` // mismatch class
	Arc   sideResult `json:"arc"`
	Ref   sideResult `json:"reference"`
	Log   qlog       `json:"arc_log"`
	ArcMS int64      `json:"arc_ms"`
	RefMS int64      `json:"ref_ms"`

	arcAll, refAll [][]string // complete canonical rows (aligned columns) when both succeeded
}

func isResourceError(s string) bool {
	l := strings.ToLower(s)
	for _, k := range []string{"timed out", "timeout", "out of memory", "deadline", "cancel", "interrupt", "resource", "too many open files"} {
		if strings.Contains(l, k) {
			return true
		}
	}
	return false
}

// refQuery runs sql on the reference engine; values are returned raw.
func refQuery(r *vfix.Ref, q string) ([]string, [][]any, error) {
	rows, err := r.DB.Query(q)
	if err != nil {
		return nil, nil, err
	}
	defer rows.Close()
	cols, _ := rows.Columns()
	var out [][]any
	for rows.Next() {
		vals := make([]any, len(cols))
		ptrs := make([]any, len(cols))
		for i := range vals {
			ptrs[i] = &vals[i]
		}
		if err := rows.Scan(ptrs...); err != nil {
			return cols, out, err
		}
		out = append(out, vals)
	}
	return cols, out, rows.Err()
}

// canonRef renders a reference value; kind tells canonArc how to read arc's JSON cell
// for the same column ('t' time, 'f' float, 'i' integer, 'b' big integer, 0 other).
func canonRef(v any) (string, byte) {
	switch t := v.(type) {
	case time.Time:
		return vfix.Canon(t), 't'
	case float64, float32:
		return vfix.Canon(t), 'f'
	case *big.Int:
		return t.String(), 'b'
	case int64, int32, int16, int8, int, uint64, uint32, uint16, uint8:
		return vfix.Canon(t), 'i'
	}
	return vfix.Canon(v), 0
}

// canonArc renders arc's JSON cell. JSON has no timestamp / wide-integer type, so arc
// sends RFC3339 strings and decimal strings; those documented encodings are mapped back
// using the column kind seen on the reference side (encoding fidelity itself is C19).
func canonArc(v any, kind byte) string {
	switch t := v.(type) {
	case string:
		switch kind {
		case 't':
			if ts, err := time.Parse(time.RFC3339Nano, t); err == nil {
				return vfix.Canon(ts)
			}
		case 'b':
			if _, ok := new(big.Int).SetString(t, 10); ok {
				return t
			}
		}
	case json.Number:
		if kind == 'f' {
			if f, err := t.Float64(); err == nil {
				return vfix.Canon(f)
			}
		}
		if kind == 'b' {
			return t.String()
		}
	}
	return vfix.Canon(v)
}

func sortRows(rows [][]string) {
	sort.Slice(rows, func(i, j int) bool {
		a, b := rows[i], rows[j]
		for k := 0; k < len(a) && k < len(b); k++ {
			if a[k] != b[k] {
				return a[k] < b[k]
			}
		}
		return len(a) < len(b)
	})
}

const keepRows = 40 // rows kept per side in replay details

func trimRows(r [][]string) [][]string {
	if len(r) > keepRows {
		return r[:keepRows]
	}
	return r
}

// run sends the SAME text to arc (with/without the header) and to the reference engine
// for that header, and compares. ordered: the query has a total ORDER BY. byName: the
// projection is `*`, whose column order is not part of the row value; align by name.
func (e *env) run(sqlText, hdr string, ordered, byName bool) outcome {
	var o outcome
	h := map[string]string{}
	if hdr != "" {
		h["x-arc-database"] = hdr
	}
	t0 := time.Now()
	e.tap.begin()
	ar := e.n.QueryJSON(sqlText, h)
	o.Log = e.tap.end()
	o.ArcMS = time.Since(t0).Milliseconds()
	o.Arc.Status = ar.Status
	o.Arc.OK = ar.Status == 200 && ar.Success
	o.Arc.Err = ar.Error
	o.Arc.Cols = ar.Columns
	o.Arc.NRows = len(ar.Rows)
	if ar.Status == -1 {
		o.Kind, o.Why = "inconclusive", "arc request watchdog: "+string(ar.Raw)
		return o
	}
	if ar.Status >= 400 && ar.Status < 500 {
		o.Kind = "rejected"
		return o
	}
	ref := e.refs[hdr]
	t1 := time.Now()
	rcols, rrows, rerr := refQuery(ref, sqlText)
	o.RefMS = time.Since(t1).Milliseconds()
	o.Ref.OK = rerr == nil
	o.Ref.Cols = rcols
	o.Ref.NRows = len(rrows)
	if rerr != nil {
		o.Ref.Err = rerr.Error()
	}
	if !o.Arc.OK && !o.Ref.OK {
		o.Kind = "both_fail"
		return o
	}
	if !o.Arc.OK || !o.Ref.OK {
		msg := o.Arc.Err + o.Ref.Err
		if isResourceError(msg) {
			o.Kind, o.Why = "inconclusive", "resource/timeout error: "+msg
			return o
		}
		o.Kind = "mismatch"
		if !o.Arc.OK {
			o.Why = "arc fails, reference succeeds"
		} else {
			o.Why = "arc succeeds, reference fails"
			o.Arc.Rows = trimRows(canonArcRows(ar.Rows, nil))
		}
		if o.Ref.OK {
			o.Ref.Rows = trimRows(canonRefRows(rrows))
		}
		return o
	}
	// both succeeded
	kinds := make([]byte, len(rcols))
	rr := make([][]string, len(rrows))
	for i, row := range rrows {
		rr[i] = make([]string, len(row))
		for j, v := range row {
			s, k := canonRef(v)
			rr[i][j] = s
			if k != 0 && v != nil {
				kinds[j] = k
			}
		}
	}
	perm := identity(len(rcols))
	if len(ar.Columns) != len(rcols) {
		// arc answers "no files" with an empty column list and no rows; the row sets are
		// then both empty, which is what the property compares.
		if !(len(ar.Columns) == 0 && len(ar.Rows) == 0 && len(rrows) == 0) {
			o.Kind, o.Why = "mismatch", "column count differs"
			o.Arc.Rows, o.Ref.Rows = trimRows(canonArcRows(ar.Rows, nil)), trimRows(rr)
			return o
		}
	} else if byName {
		if p, ok := alignByName(rcols, ar.Columns); ok {
			perm = p
		} else {
			o.Kind, o.Why = "mismatch", "column names differ"
			o.Arc.Rows, o.Ref.Rows = trimRows(canonArcRows(ar.Rows, nil)), trimRows(rr)
			return o
		}
	}
	arows := make([][]string, len(ar.Rows))
	for i, row := range ar.Rows {
		arows[i] = make([]string, len(rcols))
		for j := range rcols {
			if perm[j] < len(row) {
				arows[i][j] = canonArc(row[perm[j]], kinds[j])
			}
		}
	}
	o.arcAll, o.refAll = cloneRows(arows), cloneRows(rr)
	if len(arows) != len(rr) {
		o.Kind, o.Why = "mismatch", "row count differs"
	} else {
		if !ordered {
			sortRows(arows)
			sortRows(rr)
		}
		for i := range rr {
			if !equalRow(arows[i], rr[i]) {
				o.Kind = "mismatch"
				if ordered {
					o.Why = "row sequence differs"
					a2, r2 := cloneRows(arows), cloneRows(rr)
					sortRows(a2)
					sortRows(r2)
					same := true
					for k := range a2 {
						if !equalRow(a2[k], r2[k]) {
							same = false
							break
						}
					}
					if !same {
						o.Why = "row values differ"
					}
				} else {
					o.Why = "row values differ"
				}
				break
			}
		}
	}
	if o.Kind == "mismatch" {
		o.Arc.Rows, o.Ref.Rows = diffSample(arows, rr, ordered)
		return o
	}
	o.Kind = "equal"
	return o
}

func identity(n int) []int {
	p := make([]int, n)
	for i := range p {
		p[i] = i
	}
	return p
}

func alignByName(ref, arc []string) ([]int, bool) {
	idx := map[string]int{}
	for i, c := range arc {
		if _, dup := idx[c]; dup {
			return nil, false
		}
		idx[c] = i
	}
	p := make([]int, len(ref))
	for i, c := range ref {
		j, ok := idx[c]
		if !ok {
			return nil, false
		}
		p[i] = j
	}
	return p, true
}

func equalRow(a, b []string) bool {
	if len(a) != len(b) {
		return false
	}
	for i := range a {
		if a[i] != b[i] {
			return false
		}
	}
	return true
}

func cloneRows(r [][]string) [][]string {
	out := make([][]string, len(r))
	copy(out, r)
	return out
}

func canonArcRows(rows [][]any, kinds []byte) [][]string {
	out := make([][]string, len(rows))
	for i, row := range rows {
		out[i] = make([]string, len(row))
		for j, v := range row {
			var k byte
			if j < len(kinds) {
				k = kinds[j]
			}
			out[i][j] = canonArc(v, k)
		}
	}
	return out
}

func canonRefRows(rows [][]any) [][]string {
	out := make([][]string, len(rows))
	for i, row := range rows {
		out[i] = make([]string, len(row))
		for j, v := range row {
			out[i][j], _ = canonRef(v)
		}
	}
	return out
}

// diffSample returns the rows only in arc's answer and only in the reference's
// (multiset difference; for ordered results the first differing positions), trimmed.
func diffSample(a, r [][]string, ordered bool) ([][]string, [][]string) {
	if ordered && len(a) == len(r) {
		var oa, or [][]string
		for i := range a {
			if !equalRow(a[i], r[i]) {
				oa = append(oa, a[i])
				or = append(or, r[i])
			}
		}
		return trimRows(oa), trimRows(or)
	}
	cnt := map[string]int{}
	for _, row := range r {
		cnt[strings.Join(row, "\x1f")]++
	}
	var onlyA, onlyR [][]string
	for _, row := range a {
		k := strings.Join(row, "\x1f")
		if cnt[k] > 0 {
			cnt[k]--
		} else {
			onlyA = append(onlyA, row)
		}
	}
	cnt2 := map[string]int{}
	for _, row := range a {
		cnt2[strings.Join(row, "\x1f")]++
	}
	for _, row := range r {
		k := strings.Join(row, "\x1f")
		if cnt2[k] > 0 {
			cnt2[k]--
		} else {
			onlyR = append(onlyR, row)
		}
	}
	return trimRows(onlyA), trimRows(onlyR)
}

// ---------- small helpers ----------

func lpEscTag(s string) string {
	r := strings.NewReplacer(",", `\,`, "=", `\=`, " ", `\ `)
	return r.Replace(s)
}

func lpEscStr(s string) string {
	r := strings.NewReplacer(`\`, `\\`, `"`, `\"`)
	return r.Replace(s)
}

func fmtFloatLP(f float64) string {
	if f == math.Trunc(f) && math.Abs(f) < 1e15 {
		return strconv.FormatFloat(f, 'f', 1, 64)
	}
	return strconv.FormatFloat(f, 'g', -1, 64)
}

func countParquet(root string) int {
	n := 0
	filepath.Walk(root, func(p string, info os.FileInfo, err error) error {
		if err == nil && !info.IsDir() && strings.HasSuffix(p, ".parquet") {
			n++
		}
		return nil
	})
	return n
}

func jsonString(v any) string {
	var b bytes.Buffer
	enc := json.NewEncoder(&b)
	enc.SetEscapeHTML(false)
	_ = enc.Encode(v)
	return strings.TrimSpace(b.String())
}
