package main

import (
	"fmt"
	"math/rand/v2"
	"sort"
	"strings"
)

// ---------- query specification (structured so that it can be shrunk) ----------

// tok is one SQL token. Kind: 0 plain text, 1 keyword (case may be randomised),
// 2 table reference (rendered according to the style: bare, db.m, quoted).
type tok struct {
	T    string `json:"t,omitempty"`
	Kind int    `json:"k,omitempty"`
	DB   string `json:"db,omitempty"` // table refs: "" = bare name
	M    string `json:"m,omitempty"`
}

type item []tok

func kw(s string) tok     { return tok{T: s, Kind: 1} }
func pl(s string) tok     { return tok{T: s} }
func tb(db, m string) tok { return tok{Kind: 2, DB: db, M: m} }

// words splits "a b c" into plain tokens, marking ALL-CAPS words as keywords.
func words(s string) item {
	var out item
	for _, w := range strings.Fields(s) {
		if w == strings.ToUpper(w) && strings.IndexFunc(w, func(r rune) bool { return r >= 'A' && r <= 'Z' }) >= 0 && !strings.ContainsAny(w, "'\"") {
			out = append(out, kw(w))
		} else {
			out = append(out, pl(w))
		}
	}
	return out
}

type srcSpec struct {
	Tab   *tok     `json:"tab,omitempty"` // stored measurement
	CTE   string   `json:"cte,omitempty"` // or a CTE name
	Sub   *selSpec `json:"sub,omitempty"` // or a derived table
	Alias string   `json:"alias,omitempty"`
}

type joinSpec struct {
	Kind    string  `json:"kind"` // "LEFT JOIN", "," ...
	Src     srcSpec `json:"src"`
	Cond    item    `json:"cond,omitempty"` // after ON / USING
	Lateral bool    `json:"lateral,omitempty"`
}

type cteSpec struct {
	Name string   `json:"name"`
	Cols string   `json:"cols,omitempty"` // "(h, n)"
	Body *selSpec `json:"body"`
}

type selSpec struct {
	With     []cteSpec  `json:"with,omitempty"`
	Distinct bool       `json:"distinct,omitempty"`
	Proj     []item     `json:"proj"`
	From     srcSpec    `json:"from"`
	Joins    []joinSpec `json:"joins,omitempty"`
	Where    []item     `json:"where,omitempty"`
	Group    []item     `json:"group,omitempty"`
	Having   item       `json:"having,omitempty"`
	SetOp    string     `json:"setop,omitempty"` // "UNION ALL" ... with Right
	Right    *selSpec   `json:"right,omitempty"`
	Order    []item     `json:"order,omitempty"`
	Limit    int        `json:"limit,omitempty"`
	Star     bool       `json:"star,omitempty"`
}

type styleSpec struct {
	KwCase   int    `json:"kwcase"`   // 0 upper, 1 lower, 2 random per keyword
	WS       int    `json:"ws"`       // 0 single spaces, 1 random runs of space/tab/newline/CRLF
	Comments int    `json:"comments"` // 0 none, 1 harmless, 2 SQL-looking text, 3 with an apostrophe / quote
	Quote    int    `json:"quote"`    // 0 none, 1 quote measurement (and db) names, 2 also quote column names where generated quoted
	DotSpace bool   `json:"dotspace"` // whitespace around the dot of db.m
	Seed     uint64 `json:"seed"`
}

type qspec struct {
	Sel     *selSpec  `json:"sel"`
	Style   styleSpec `json:"style"`
	Hdr     string    `json:"hdr"`
	Ordered bool      `json:"ordered"`
}

// ---------- rendering ----------

type renderer struct {
	st  styleSpec
	rng *rand.Rand
	out []string // rendered tokens
}

func (r *renderer) emit(t tok) {
	switch t.Kind {
	case 1:
		switch r.st.KwCase {
		case 1:
			r.out = append(r.out, strings.ToLower(t.T))
		case 2:
			b := []byte(t.T)
			for i := range b {
				if r.rng.IntN(2) == 0 {
					b[i] = strings.ToLower(string(b[i]))[0]
				}
			}
			r.out = append(r.out, string(b))
		default:
			r.out = append(r.out, t.T)
		}
	case 2:
		m, db := t.M, t.DB
		needQ := strings.ContainsAny(m, "-")
		if r.st.Quote >= 1 || needQ {
			m = `"` + m + `"`
		}
		if db == "" {
			r.out = append(r.out, m)
			return
		}
		if r.st.Quote >= 1 || db == "default" { // DEFAULT is a reserved word in DuckDB: always quoted
			db = `"` + db + `"`
		}
		if r.st.DotSpace {
			r.out = append(r.out, db, ".", m)
		} else {
			r.out = append(r.out, db+"."+m)
		}
	default:
		r.out = append(r.out, t.T)
	}
}

func (r *renderer) item(it item) {
	for _, t := range it {
		r.emit(t)
	}
}

func (r *renderer) list(items []item) {
	for i, it := range items {
		if i > 0 {
			r.emit(pl(","))
		}
		r.item(it)
	}
}

func (r *renderer) src(s srcSpec) {
	switch {
	case s.Sub != nil:
		r.emit(pl("("))
		r.sel(s.Sub)
		r.emit(pl(")"))
	case s.CTE != "":
		r.emit(pl(s.CTE))
	default:
		r.emit(*s.Tab)
	}
	if s.Alias != "" {
		r.emit(pl(s.Alias))
	}
}

func (r *renderer) sel(s *selSpec) {
	if len(s.With) > 0 {
		r.emit(kw("WITH"))
		for i, c := range s.With {
			if i > 0 {
				r.emit(pl(","))
			}
			r.emit(pl(c.Name + c.Cols))
			r.emit(kw("AS"))
			r.emit(pl("("))
			r.sel(c.Body)
			r.emit(pl(")"))
		}
	}
	r.emit(kw("SELECT"))
	if s.Distinct {
		r.emit(kw("DISTINCT"))
	}
	if s.Star {
		r.emit(pl("*"))
	} else {
		r.list(s.Proj)
	}
	r.emit(kw("FROM"))
	r.src(s.From)
	for _, j := range s.Joins {
		if j.Kind == "," {
			r.emit(pl(","))
		} else {
			for _, w := range strings.Fields(j.Kind) {
				r.emit(kw(w))
			}
		}
		if j.Lateral {
			r.emit(kw("LATERAL"))
		}
		r.src(j.Src)
		if len(j.Cond) > 0 {
			r.item(j.Cond)
		}
	}
	if len(s.Where) > 0 {
		r.emit(kw("WHERE"))
		for i, w := range s.Where {
			if i > 0 {
				r.emit(kw("AND"))
			}
			r.item(w)
		}
	}
	if len(s.Group) > 0 {
		r.emit(kw("GROUP"))
		r.emit(kw("BY"))
		r.list(s.Group)
	}
	if len(s.Having) > 0 {
		r.emit(kw("HAVING"))
		r.item(s.Having)
	}
	if s.SetOp != "" && s.Right != nil {
		for _, w := range strings.Fields(s.SetOp) {
			r.emit(kw(w))
		}
		r.sel(s.Right)
	}
	if len(s.Order) > 0 {
		r.emit(kw("ORDER"))
		r.emit(kw("BY"))
		r.list(s.Order)
	}
	if s.Limit > 0 {
		r.emit(kw("LIMIT"))
		r.emit(pl(fmt.Sprint(s.Limit)))
	}
}

var harmlessComments = []string{"/* c */", "/* note */", "-- plain comment\n", "/**/", "/* multi\n line */"}
var sqlComments = []string{"/* FROM db2.cpu */", "-- FROM mem\n", "/* JOIN db2.mem ON 1=1 */", "-- SELECT * FROM cpu WHERE\n", "/* WITH x AS ( */", "/* ; */"}
var quoteComments = []string{"-- it's a comment\n", "/* don't */", "/* \"q */", "-- 'open\n"}

func (q *qspec) render() string {
	r := &renderer{st: q.Style, rng: rand.New(rand.NewPCG(q.Style.Seed, 0x9e3779b97f4a7c15))}
	r.sel(q.Sel)
	var sb strings.Builder
	for i, t := range r.out {
		if i > 0 {
			// no space is needed before "," / ")" / after "(" but SQL allows any; keep one
			// separator everywhere so that token boundaries never depend on the style
			sep := " "
			if q.Style.WS == 1 {
				sep = []string{" ", " ", "  ", "\n", "\t", "\r\n", " \n  ", "   "}[r.rng.IntN(8)]
			}
			if q.Style.Comments > 0 && r.rng.IntN(6) == 0 {
				var pool []string
				switch q.Style.Comments {
				case 1:
					pool = harmlessComments
				case 2:
					pool = sqlComments
				default:
					pool = quoteComments
				}
				sep = " " + pool[r.rng.IntN(len(pool))] + sep
			}
			sb.WriteString(sep)
		}
		sb.WriteString(t)
	}
	return sb.String()
}

// ---------- generator ----------

type c16Gen struct {
	rng      *rand.Rand
	tables   [][2]string // (db, m) stored
	aliasN   int
	colAlias []string
}

var c16Measurements = []string{"cpu", "mem", "NetIO"}
var c16DBs = []string{"default", "db2"}
var c16ColAliases = []string{"x", "val", "valid_from", "n_from", "joined", "with_x", "c1", "sel", "grp"}

func (g *c16Gen) pickTable(hdr string) tok {
	m := c16Measurements[g.rng.IntN(len(c16Measurements))]
	if hdr != "" {
		return tb("", m)
	}
	switch g.rng.IntN(5) {
	case 0, 1:
		return tb("", m)
	case 2:
		return tb("default", m)
	default:
		return tb("db2", m)
	}
}

func (g *c16Gen) alias() string {
	g.aliasN++
	return []string{"a", "b", "c", "d", "e", "f"}[(g.aliasN-1)%6] + fmt.Sprint((g.aliasN-1)/6+1)
}

func col(p, c string) string {
	if p == "" {
		return c
	}
	return p + "." + c
}

// scalar returns a scalar expression over alias p (tokens) .
func (g *c16Gen) scalar(p string) item {
	r := g.rng
	switch r.IntN(22) {
	case 0:
		return item{pl(col(p, "vi") + " + 1")}
	case 1:
		return item{pl(col(p, "vf") + " * 2")}
	case 2:
		return item{pl("abs(" + col(p, "vi") + ")")}
	case 3:
		return item{pl("coalesce(" + col(p, "vi") + ", -1)")}
	case 4:
		return append(append(item{kw("CASE"), kw("WHEN"), pl(col(p, "ok")), kw("THEN")}, pl("1"), kw("ELSE"), pl("0")), kw("END"))
	case 5:
		return item{pl(col(p, "s") + " || '_x'")}
	case 6:
		return item{pl("upper(" + col(p, "host") + ")")}
	case 7:
		return item{pl("length(" + col(p, "s") + ")")}
	case 8:
		f := []string{"hour", "day", "dow", "EPOCH", "year", "minute", "HOUR"}[r.IntN(7)]
		return item{kw("EXTRACT"), pl("("), pl(f), kw("FROM"), pl(col(p, "time")), pl(")")}
	case 9:
		return item{kw("SUBSTRING"), pl("("), pl(col(p, "s")), kw("FROM"), pl("2"), kw("FOR"), pl("3"), pl(")")}
	case 10:
		return item{pl("substring(" + col(p, "host")), kw("FROM"), pl("2)")}
	case 11:
		return item{kw("TRIM"), pl("("), kw("BOTH"), pl("'x'"), kw("FROM"), pl(col(p, "s")), pl(")")}
	case 12:
		return item{pl("trim("), kw("LEADING"), pl("' '"), kw("FROM"), pl(col(p, "s") + ")")}
	case 13:
		// OVERLAY(... PLACING ... FROM ...) is in arc's FROM-masking list but is not a DuckDB
		// function (both engines fail), so a second TRIM form is used instead
		return item{kw("TRIM"), pl("("), kw("TRAILING"), pl("'e'"), kw("FROM"), pl(col(p, "s")), pl(")")}
	case 14:
		return item{pl("epoch_us(" + col(p, "time") + ")")}
	case 15:
		return item{pl(col(p, "time"))}
	case 16:
		return item{pl(col(p, []string{"LoadAvg", "loadavg", `"LoadAvg"`}[r.IntN(3)]))}
	case 17:
		return item{pl([]string{"'select from cpu'", "'FROM db2.mem m'", "'a -- b'", "'it''s'", "'/* x */'", "'JOIN mem'"}[r.IntN(6)])}
	case 18:
		return item{kw("POSITION"), pl("("), pl("'a'"), kw("IN"), pl(col(p, "s")), pl(")")}
	case 19:
		return item{pl(col(p, "extra"))}
	case 20:
		return item{pl(col(p, "region"))}
	}
	return item{pl(col(p, []string{"host", "vi", "vf", "s", "ok", "rid"}[r.IntN(6)]))}
}

func (g *c16Gen) withAlias(it item) item {
	if g.rng.IntN(2) == 0 {
		return it
	}
	a := c16ColAliases[g.rng.IntN(len(c16ColAliases))]
	return append(append(item{}, it...), kw("AS"), pl(a))
}

func (g *c16Gen) pred(p, hdr string, allowSub bool) item {
	r := g.rng
	switch k := r.IntN(20); {
	case k == 0:
		return item{pl(col(p, "vi") + " > " + fmt.Sprint(r.IntN(100)))}
	case k == 1:
		return item{pl(col(p, "vf") + " <= " + fmt.Sprint(float64(r.IntN(80)-40)/4))}
	case k == 2:
		return item{pl(col(p, "host") + " = 'h" + fmt.Sprint(r.IntN(5)) + "'")}
	case k == 3:
		return item{pl(col(p, "host")), kw("IN"), pl("('h1', 'h2', 'h9')")}
	case k == 4:
		return item{pl(col(p, "s")), kw("LIKE"), pl([]string{"'a%'", "'%from%'", "'%e'"}[r.IntN(3)])}
	case k == 5:
		return item{pl(col(p, "s")), kw("IS"), kw("NULL")}
	case k == 6:
		return item{pl(col(p, "region")), kw("IS"), kw("NOT"), kw("NULL")}
	case k == 7:
		return item{pl(col(p, "ok"))}
	case k == 8:
		return item{kw("NOT"), pl(col(p, "ok"))}
	case k == 9:
		return item{pl(col(p, "vi")), kw("BETWEEN"), pl("10"), kw("AND"), pl("60")}
	case k == 10:
		return item{pl("(" + col(p, "vi") + " > 50"), kw("OR"), pl(col(p, "vf") + " < 0)")}
	case k == 11:
		return item{kw("EXTRACT"), pl("("), pl("hour"), kw("FROM"), pl(col(p, "time")), pl(")"), pl("= " + fmt.Sprint(6*r.IntN(4)))}
	case k == 12:
		return item{pl(col(p, "s") + " = " + []string{"'it''s'", "'from here'", "'x--y'", "'/*z*/'", "'MiXed'"}[r.IntN(5)])}
	case k == 13:
		return item{pl(col(p, "s") + " <> 'a b'")}
	case k >= 14 && k <= 16 && allowSub:
		t := g.pickTable(hdr)
		switch r.IntN(3) {
		case 0:
			return item{pl(col(p, "host")), kw("IN"), pl("("), kw("SELECT"), pl("host"), kw("FROM"), t, kw("WHERE"), pl("vi > 60"), pl(")")}
		case 1:
			return item{pl(col(p, "vi") + " >"), pl("("), kw("SELECT"), pl("avg(vi)"), kw("FROM"), t, pl(")")}
		default:
			return item{kw("EXISTS"), pl("("), kw("SELECT"), pl("1"), kw("FROM"), t, pl("sq"), kw("WHERE"), pl("sq.host = " + col(p, "host")), kw("AND"), pl("sq.vi > 80"), pl(")")}
		}
	}
	return item{pl(col(p, "rid") + " % 2 = " + fmt.Sprint(r.IntN(2)))}
}

func (g *c16Gen) aggregate(p string) item {
	r := g.rng
	switch r.IntN(9) {
	case 0:
		return item{pl("count(*)")}
	case 1:
		return item{pl("count(" + col(p, "vi") + ")")}
	case 2:
		return item{pl("sum(" + col(p, "vi") + ")")}
	case 3:
		return item{pl("min(" + col(p, "vf") + ")")}
	case 4:
		return item{pl("max(" + col(p, "s") + ")")}
	case 5:
		return item{pl("avg(" + col(p, "vf") + ")")}
	case 6:
		return item{pl("sum(" + col(p, "vf") + ")")}
	case 7:
		return item{pl("count("), kw("DISTINCT"), pl(col(p, "host") + ")")}
	}
	return item{pl("max(" + col(p, "rid") + ")")}
}

// simpleSel: SELECT <cols> FROM <table> [WHERE], used as CTE body / derived table /
// set-operation arm. Always projects host, rid, vi (plus maybe more) so outer queries
// can rely on those names.
func (g *c16Gen) simpleSel(hdr string, t tok) *selSpec {
	s := &selSpec{From: srcSpec{Tab: &t}}
	if g.rng.IntN(4) == 0 {
		s.Star = true
	} else {
		s.Proj = allCols()
	}
	for i := 0; i < g.rng.IntN(3); i++ {
		s.Where = append(s.Where, g.pred("", hdr, false))
	}
	return s
}

func allCols() []item {
	var out []item
	for _, c := range []string{"host", "rid", "vi", "vf", "s", "ok", "time", "region", "LoadAvg", "extra"} {
		out = append(out, item{pl(c)})
	}
	return out
}

var joinKinds = []string{"JOIN", "INNER JOIN", "LEFT JOIN", "LEFT OUTER JOIN", "RIGHT JOIN", "RIGHT OUTER JOIN", "FULL JOIN", "FULL OUTER JOIN", "CROSS JOIN", "SEMI JOIN", "ANTI JOIN", "NATURAL JOIN", "ASOF JOIN", "ASOF LEFT JOIN", ","}

func (g *c16Gen) gen() qspec {
	r := g.rng
	g.aliasN = 0
	q := qspec{}
	switch r.IntN(5) {
	case 0:
		q.Hdr = "default"
	case 1, 2:
		q.Hdr = "db2"
	}
	q.Style = styleSpec{KwCase: r.IntN(3), WS: r.IntN(2), Seed: r.Uint64()}
	switch r.IntN(8) {
	case 0, 1:
		q.Style.Comments = 1
	case 2:
		q.Style.Comments = 2
	case 3:
		if r.IntN(3) == 0 {
			q.Style.Comments = 3
		}
	}
	if r.IntN(4) == 0 {
		q.Style.Quote = 1 + r.IntN(2)
	}
	if q.Hdr == "" && r.IntN(12) == 0 {
		q.Style.DotSpace = true
	}
	s := &selSpec{}
	q.Sel = s

	// ---- FROM source ----
	var aliases []string // aliases of row sources whose rid is visible (for total ORDER BY)
	cteRef := ""
	mainT := g.pickTable(q.Hdr)
	shape := r.IntN(100)
	switch {
	case shape < 12: // CTE
		name := []string{"c", "agg_src", "Recent", "cpu", "mem", "NetIO", `"my-cte"`, "with_data"}[r.IntN(8)]
		bodyT := g.pickTable(q.Hdr)
		if (name == "cpu" || name == "mem" || name == "NetIO") && r.IntN(2) == 0 {
			bodyT = tb(bodyT.DB, name) // CTE shadowing the very measurement it reads
		}
		cte := cteSpec{Name: name, Body: g.simpleSel(q.Hdr, bodyT)}
		if !cte.Body.Star && r.IntN(4) == 0 {
			cte.Cols = "(host, rid, vi, vf, s, ok, time, region, LoadAvg, extra)"
		}
		s.With = append(s.With, cte)
		ref := name
		if r.IntN(5) == 0 && !strings.Contains(name, `"`) {
			ref = strings.ToUpper(name[:1]) + name[1:]
			if ref == name {
				ref = strings.ToLower(name)
			}
		}
		if r.IntN(4) == 0 { // second CTE over the first
			s.With = append(s.With, cteSpec{Name: "c2", Body: &selSpec{Proj: allCols(), From: srcSpec{CTE: ref}, Where: []item{{pl("vi IS NOT NULL")}}}})
			ref = "c2"
		}
		a := g.alias()
		cteRef = ref
		if r.IntN(3) == 0 { // CTE only used on the right-hand side of a join
			s.From = srcSpec{Tab: &mainT, Alias: a}
		} else {
			s.From = srcSpec{CTE: ref, Alias: a}
		}
		aliases = append(aliases, a)
	case shape < 22: // derived table
		a := g.alias()
		s.From = srcSpec{Sub: g.simpleSel(q.Hdr, mainT), Alias: a}
		aliases = append(aliases, a)
	default:
		a := ""
		if r.IntN(3) != 0 || shape >= 60 {
			a = g.alias()
		}
		s.From = srcSpec{Tab: &mainT, Alias: a}
		aliases = append(aliases, a)
	}
	cteOrSub := s.From.Tab == nil || cteRef != ""

	// ---- joins ----
	nj := 0
	if shape >= 60 {
		nj = 1
		if r.IntN(5) == 0 {
			nj = 2
		}
	} else if shape < 22 && (r.IntN(3) == 0 || (cteRef != "" && s.From.Tab != nil)) {
		nj = 1
	}
	semi := false
	for j := 0; j < nj; j++ {
		left := aliases[len(aliases)-1]
		if left == "" {
			left = aliases[0]
		}
		kind := joinKinds[r.IntN(len(joinKinds))]
		if j > 0 && (kind == "," || strings.HasPrefix(kind, "ASOF") || kind == "NATURAL JOIN") {
			kind = "LEFT JOIN"
		}
		if kind == "NATURAL JOIN" && cteOrSub {
			kind = "JOIN"
		}
		a := g.alias()
		js := joinSpec{Kind: kind, Src: srcSpec{Alias: a}}
		t := g.pickTable(q.Hdr)
		switch k := r.IntN(8); {
		case cteRef != "" && (k < 4 || s.From.Tab != nil):
			js.Src.CTE = cteRef
		case k == 0:
			js.Src.Sub = g.simpleSel(q.Hdr, t)
		default:
			js.Src.Tab = &t
		}
		switch {
		case kind == "CROSS JOIN" || kind == ",":
			if r.IntN(2) == 0 {
				s.Where = append(s.Where, item{pl(left + ".host = " + a + ".host")})
			} else {
				s.Where = append(s.Where, item{pl(left + ".rid % 7 = 0")}, item{pl(a + ".rid % 5 = 0")})
			}
		case kind == "NATURAL JOIN":
			// joins on every common column; a self join returns the table's rows
			if s.From.Tab != nil {
				tt := *s.From.Tab
				js.Src.Tab, js.Src.Sub = &tt, nil
			}
		case strings.HasPrefix(kind, "ASOF"):
			js.Cond = item{kw("ON"), pl(left + ".host = " + a + ".host"), kw("AND"), pl(left + ".time >= " + a + ".time")}
		case r.IntN(4) == 0 && kind != "SEMI JOIN" && kind != "ANTI JOIN":
			js.Cond = item{kw("USING"), pl("(host)")}
		default:
			js.Cond = item{kw("ON"), pl(left + ".host = " + a + ".host")}
			if r.IntN(3) == 0 {
				js.Cond = append(js.Cond, kw("AND"), pl(left+".vi < "+a+".vi"))
			}
		}
		s.Joins = append(s.Joins, js)
		if kind == "SEMI JOIN" || kind == "ANTI JOIN" {
			semi = true
			break
		}
		if kind == "NATURAL JOIN" {
			break
		}
		aliases = append(aliases, a)
	}
	if nj == 0 && shape >= 50 && shape < 60 && !cteOrSub { // lateral subquery
		left := aliases[0]
		if left == "" {
			left = g.alias()
			s.From.Alias = left
			aliases[0] = left
		}
		t := g.pickTable(q.Hdr)
		sub := &selSpec{Proj: []item{{pl("max(l.vi)"), kw("AS"), pl("mv")}, {pl("count(*)"), kw("AS"), pl("n")}}, From: srcSpec{Tab: &t, Alias: "l"}, Where: []item{{pl("l.host = " + left + ".host")}}}
		s.Joins = append(s.Joins, joinSpec{Kind: []string{"CROSS JOIN", "JOIN", "LEFT JOIN"}[r.IntN(3)], Lateral: true, Src: srcSpec{Sub: sub, Alias: "lat"}})
		if s.Joins[0].Kind != "CROSS JOIN" {
			s.Joins[0].Cond = item{kw("ON"), pl("true")}
		}
	}
	_ = semi
	natural := len(s.Joins) > 0 && s.Joins[len(s.Joins)-1].Kind == "NATURAL JOIN"

	// prefix for column references
	p := aliases[0]
	if natural {
		p = "" // common columns of a natural join are referenced unqualified
		if s.From.Alias != "" {
			p = s.From.Alias
		}
	}
	pick := func() string {
		if natural {
			return p
		}
		return aliases[r.IntN(len(aliases))]
	}

	// ---- WHERE ----
	for i := 0; i < r.IntN(3); i++ {
		s.Where = append(s.Where, g.pred(pick(), q.Hdr, true))
	}

	// ---- projection / aggregation ----
	ridKeys := func() []item {
		var ks []item
		for _, a := range aliases {
			ks = append(ks, item{pl(col(a, "rid"))})
		}
		return ks
	}
	mode := r.IntN(10)
	lateral := len(s.Joins) > 0 && s.Joins[0].Lateral
	switch {
	case mode < 3 && !lateral: // aggregate
		keyCol := "host"
		if r.IntN(4) == 0 {
			keyCol = "ok"
		}
		if r.IntN(3) != 0 {
			kp := pick()
			key := item{pl(col(kp, keyCol))}
			if r.IntN(5) == 0 {
				key = item{kw("EXTRACT"), pl("("), pl("hour"), kw("FROM"), pl(col(pick(), "time")), pl(")")}
			}
			s.Group = []item{key}
			s.Proj = append(s.Proj, key)
			s.Order = []item{append(append(item{}, key...), kw("NULLS"), kw("LAST"))}
		}
		for i := 0; i < 1+r.IntN(3); i++ {
			s.Proj = append(s.Proj, g.withAlias(g.aggregate(pick())))
		}
		if len(s.Group) > 0 && r.IntN(4) == 0 {
			s.Having = item{pl("count(*) > 1")}
		}
		if len(s.Group) == 0 {
			s.Order = nil
		}
		q.Ordered = len(s.Order) > 0
		if q.Ordered && r.IntN(3) == 0 {
			s.Limit = 1 + r.IntN(4)
		}
		if !q.Ordered {
			q.Ordered = len(s.Group) == 0 // a single row is trivially ordered
		}
		if len(s.Order) > 0 && r.IntN(2) == 0 { // unordered variant
			s.Order, s.Limit, q.Ordered = nil, 0, false
		}
	case mode < 5 && len(s.Joins) == 0 && !cteOrSub: // SELECT *
		s.Star = true
		if r.IntN(2) == 0 {
			s.Order, q.Ordered = ridKeys(), true
		}
	default:
		n := 1 + r.IntN(4)
		for i := 0; i < n; i++ {
			s.Proj = append(s.Proj, g.withAlias(g.scalar(pick())))
		}
		if lateral {
			s.Proj = append(s.Proj, item{pl("lat.mv")}, item{pl("lat.n")})
		}
		for _, k := range ridKeys() { // rids make every row identifiable in a diff
			s.Proj = append(s.Proj, k)
		}
		if r.IntN(8) == 0 && len(s.Joins) == 0 {
			s.Distinct = true
		}
		if r.IntN(2) == 0 {
			s.Order, q.Ordered = ridKeys(), true
			if r.IntN(3) == 0 {
				s.Order[0] = append(s.Order[0], kw("DESC"))
			}
			if r.IntN(2) == 0 {
				s.Limit = 1 + r.IntN(30)
			}
		}
	}

	// ---- set operation ----
	if len(s.Joins) == 0 && !cteOrSub && !s.Star && mode >= 5 && r.IntN(8) == 0 {
		t2 := g.pickTable(q.Hdr)
		s.Proj = []item{{pl("host")}, {pl("vi")}}
		s.Distinct, s.Order, s.Limit, q.Ordered = false, nil, 0, false
		s.From.Alias = ""
		s.Where = nil
		for i := 0; i < r.IntN(2); i++ {
			s.Where = append(s.Where, g.pred("", q.Hdr, false))
		}
		s.SetOp = []string{"UNION ALL", "UNION", "EXCEPT", "INTERSECT"}[r.IntN(4)]
		s.Right = &selSpec{Proj: []item{{pl("host")}, {pl("vi")}}, From: srcSpec{Tab: &t2}}
		if r.IntN(2) == 0 {
			s.Right.Where = []item{g.pred("", q.Hdr, false)}
		}
	}
	return q
}

// ---------- features (for signatures) ----------

func (q *qspec) features() []string {
	f := map[string]bool{}
	if q.Hdr != "" {
		f["header"] = true
	}
	if q.Style.KwCase != 0 {
		f["keyword-case"] = true
	}
	if q.Style.WS != 0 {
		f["whitespace(newline/tab)"] = true
	}
	switch q.Style.Comments {
	case 1:
		f["comments"] = true
	case 2:
		f["comments-with-sql-text"] = true
	case 3:
		f["comments-with-quote-char"] = true
	}
	if q.Style.Quote > 0 {
		f["quoted-names"] = true
	}
	if q.Style.DotSpace {
		f["space-around-dot"] = true
	}
	var walkItem func(it item)
	var walkSel func(s *selSpec, top bool)
	measurements := map[string]bool{"cpu": true, "mem": true, "netio": true}
	walkItem = func(it item) {
		for _, t := range it {
			if t.Kind == 2 {
				if t.DB != "" {
					f["db-qualified"] = true
				}
				if t.M != strings.ToLower(t.M) {
					f["mixed-case-measurement"] = true
				}
				f["subquery-in-where"] = true
			}
			up := strings.ToUpper(t.T)
			for _, fn := range []string{"EXTRACT", "SUBSTRING", "TRIM", "OVERLAY", "POSITION"} {
				if strings.HasPrefix(up, fn) {
					f["fn:"+fn] = true
				}
			}
			if strings.HasSuffix(t.T, "_from") {
				f["alias-ending-in-from"] = true
			}
			if strings.HasPrefix(t.T, "with_") {
				f["alias-starting-with-with"] = true
			}
			if strings.Contains(t.T, "''") {
				f["escaped-quote-literal"] = true
			}
			if strings.HasPrefix(t.T, "'") && (strings.Contains(up, "FROM") || strings.Contains(up, "JOIN") || strings.Contains(t.T, "--") || strings.Contains(t.T, "/*")) {
				f["literal-with-sql-text"] = true
			}
			if strings.Contains(t.T, `"LoadAvg"`) {
				f["quoted-column"] = true
			}
		}
	}
	walkSrc := func(s srcSpec) {
		switch {
		case s.Sub != nil:
			f["derived-table"] = true
			walkSel(s.Sub, false)
		case s.CTE != "":
		case s.Tab != nil:
			if s.Tab.DB != "" {
				f["db-qualified"] = true
			}
			if s.Tab.M != strings.ToLower(s.Tab.M) {
				f["mixed-case-measurement"] = true
			}
		}
	}
	walkSel = func(s *selSpec, top bool) {
		for _, c := range s.With {
			f["cte"] = true
			if measurements[strings.ToLower(c.Name)] {
				f["cte-named-like-measurement"] = true
				if c.Body.From.Tab != nil && strings.EqualFold(c.Body.From.Tab.M, c.Name) {
					f["cte-reads-the-measurement-it-shadows"] = true
				}
			}
			if c.Cols != "" {
				f["cte-column-list"] = true
			}
			if strings.Contains(c.Name, `"`) {
				f["quoted-cte-name"] = true
			}
			walkSel(c.Body, false)
		}
		if s.From.CTE != "" && len(s.With) > 0 && s.From.CTE != s.With[0].Name && s.From.CTE != "c2" {
			f["cte-referenced-in-other-case"] = true
		}
		walkSrc(s.From)
		for _, j := range s.Joins {
			if j.Kind == "," {
				f["comma-join"] = true
			} else {
				f["join:"+j.Kind] = true
			}
			if j.Lateral {
				f["lateral"] = true
			}
			walkSrc(j.Src)
			walkItem(j.Cond)
		}
		for _, it := range s.Proj {
			walkItem(it)
		}
		for _, it := range s.Where {
			walkItem(it)
		}
		if s.Star {
			f["select-star"] = true
		}
		if s.Distinct {
			f["distinct"] = true
		}
		if len(s.Group) > 0 {
			f["group-by"] = true
		}
		if len(s.Having) > 0 {
			f["having"] = true
		}
		if len(s.Order) > 0 {
			f["order-by"] = true
		}
		if s.Limit > 0 {
			f["limit"] = true
		}
		if s.SetOp != "" {
			f["setop:"+s.SetOp] = true
			walkSel(s.Right, false)
		}
	}
	walkSel(q.Sel, true)
	delete(f, "subquery-in-where")
	for _, it := range q.Sel.Where {
		for _, t := range it {
			if t.Kind == 2 {
				f["subquery-in-where"] = true
			}
		}
	}
	var out []string
	for k := range f {
		out = append(out, k)
	}
	sort.Strings(out)
	return out
}

// ---------- shrinking ----------

func cloneSel(s *selSpec) *selSpec {
	if s == nil {
		return nil
	}
	c := *s
	c.With = nil
	for _, w := range s.With {
		c.With = append(c.With, cteSpec{Name: w.Name, Cols: w.Cols, Body: cloneSel(w.Body)})
	}
	c.Proj = append([]item{}, s.Proj...)
	c.Where = append([]item{}, s.Where...)
	c.Group = append([]item{}, s.Group...)
	c.Order = append([]item{}, s.Order...)
	c.Joins = nil
	for _, j := range s.Joins {
		jj := j
		jj.Src.Sub = cloneSel(j.Src.Sub)
		c.Joins = append(c.Joins, jj)
	}
	c.From.Sub = cloneSel(s.From.Sub)
	c.Right = cloneSel(s.Right)
	return &c
}

func (q qspec) with(sel *selSpec) qspec {
	q.Sel = sel
	return q
}

// selCandidates returns one-step simplifications of a select.
func selCandidates(s *selSpec) []*selSpec {
	var out []*selSpec
	add := func(f func(c *selSpec)) {
		c := cloneSel(s)
		f(c)
		out = append(out, c)
	}
	if s.Limit > 0 {
		add(func(c *selSpec) { c.Limit = 0 })
	}
	if len(s.Order) > 0 && s.Limit == 0 {
		add(func(c *selSpec) { c.Order = nil })
	}
	if s.SetOp != "" {
		add(func(c *selSpec) { c.SetOp, c.Right = "", nil })
		out = append(out, cloneSel(s.Right))
	}
	if len(s.Having) > 0 {
		add(func(c *selSpec) { c.Having = nil })
	}
	if s.Distinct {
		add(func(c *selSpec) { c.Distinct = false })
	}
	for i := range s.Where {
		add(func(c *selSpec) { c.Where = append(c.Where[:i:i], c.Where[i+1:]...) })
	}
	for i := len(s.Joins) - 1; i >= 0; i-- {
		add(func(c *selSpec) { c.Joins = append(c.Joins[:i:i], c.Joins[i+1:]...) })
	}
	if len(s.Proj) > 1 {
		for i := range s.Proj {
			add(func(c *selSpec) { c.Proj = append(c.Proj[:i:i], c.Proj[i+1:]...) })
		}
	}
	if len(s.Group) > 0 {
		add(func(c *selSpec) { c.Group, c.Having = nil, nil })
	}
	if !s.Star && len(s.Proj) > 0 {
		add(func(c *selSpec) {
			c.Proj = []item{{pl("count(*)")}}
			c.Group, c.Order, c.Limit, c.Having, c.Distinct = nil, nil, 0, nil, false
		})
	}
	// replace by an inner select (CTE body / derived table)
	if s.From.Sub != nil {
		out = append(out, cloneSel(s.From.Sub))
		for _, sc := range selCandidates(s.From.Sub) {
			c := cloneSel(s)
			c.From.Sub = sc
			out = append(out, c)
		}
	}
	for i, w := range s.With {
		c := cloneSel(w.Body)
		out = append(out, c)
		for _, sc := range selCandidates(w.Body) {
			c := cloneSel(s)
			c.With[i].Body = sc
			out = append(out, c)
		}
		if w.Cols != "" {
			add(func(c *selSpec) { c.With[i].Cols = "" })
		}
	}
	if len(s.With) > 1 {
		add(func(c *selSpec) { c.With = c.With[:1]; c.From.CTE = c.With[0].Name })
	}
	for i, j := range s.Joins {
		if j.Src.Sub != nil {
			for _, sc := range selCandidates(j.Src.Sub) {
				c := cloneSel(s)
				c.Joins[i].Src.Sub = sc
				out = append(out, c)
			}
		}
		if j.Kind != "JOIN" && j.Kind != "," && len(j.Cond) > 0 && !strings.HasPrefix(j.Kind, "ASOF") {
			add(func(c *selSpec) { c.Joins[i].Kind = "JOIN" })
		}
	}
	// aliases off
	if s.From.Alias != "" && s.From.Tab != nil && len(s.Joins) == 0 {
		add(func(c *selSpec) {
			a := c.From.Alias + "."
			c.From.Alias = ""
			strip := func(items []item) []item {
				var o []item
				for _, it := range items {
					var ni item
					for _, t := range it {
						t.T = strings.ReplaceAll(t.T, a, "")
						ni = append(ni, t)
					}
					o = append(o, ni)
				}
				return o
			}
			c.Proj, c.Where, c.Group, c.Order = strip(c.Proj), strip(c.Where), strip(c.Group), strip(c.Order)
		})
	}
	// unqualify table names where a header-less bare name means the same ("default")
	if s.From.Tab != nil && s.From.Tab.DB == "default" {
		add(func(c *selSpec) { t := *c.From.Tab; t.DB = ""; c.From.Tab = &t })
	}
	// drop the column alias of projections
	for i, it := range s.Proj {
		if len(it) >= 3 && it[len(it)-2].T == "AS" {
			add(func(c *selSpec) { c.Proj[i] = append(item{}, it[:len(it)-2]...) })
		}
	}
	return out
}

func (q qspec) candidates() []qspec {
	var out []qspec
	st := q.Style
	if st.Comments != 0 {
		c := q
		c.Style.Comments = 0
		out = append(out, c)
	}
	if st.WS != 0 {
		c := q
		c.Style.WS = 0
		out = append(out, c)
	}
	if st.KwCase != 0 {
		c := q
		c.Style.KwCase = 0
		out = append(out, c)
	}
	if st.Quote != 0 {
		c := q
		c.Style.Quote = 0
		out = append(out, c)
	}
	if st.DotSpace {
		c := q
		c.Style.DotSpace = false
		out = append(out, c)
	}
	if q.Hdr != "" {
		c := q
		c.Hdr = ""
		out = append(out, c)
	}
	for _, s := range selCandidates(q.Sel) {
		c := q.with(s)
		if len(s.Order) == 0 {
			c.Ordered = false
		}
		out = append(out, c)
	}
	return out
}
