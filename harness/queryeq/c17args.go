package main

import (
	"fmt"
	"strconv"
	"strings"

	"github.com/basekick-labs/arc/internal/zzverif/vlib"
)

// ===================== C17 family "urlargs" =====================
//
// The URL-domain rewrites are triggered by the TEXT of a function call. This family
// enumerates (nothing is sampled, the same cases run at every seed) the call forms around
// the two documented ones:
//
//	REGEXP_EXTRACT(col, p)            no group argument: DuckDB returns group 0 (whole match)
//	REGEXP_EXTRACT(col, p, 0|1|2)     explicit group
//	REGEXP_EXTRACT(col, p, 1, 'i')    group + options
//	REGEXP_REPLACE(col, p, r)         r = '\1', '\\1', '\0', '', '[\1]'
//	REGEXP_REPLACE(col, p, '\1', 'g') replacement + options
//
// x every URL pattern of the pool (+ a pattern with two capture groups) x four spellings of
// the call (upper/lower/mixed-case name, no / single / padded / newline-tab spacing) over
// bare, quoted and alias-qualified columns, as value and as filter form, over
// default.web: every combination of scheme x www x host x port x path of real URLs plus the
// malformed shapes of the main dataset. Verdict as everywhere: same text on arc and on the
// reference DuckDB, rows matched by rid.

const webFirstRid = 100000

// genWebRows is deterministic (no PRNG): the urlargs family observes the same rows at every seed.
func genWebRows() []c17Row {
	var urls []string
	for _, scheme := range []string{"http://", "https://"} {
		for _, www := range []string{"", "www."} {
			for _, host := range []string{"example.com", "sub.domain.example.co.uk", "localhost", "10.0.0.1", "shop.example.io"} {
				for _, port := range []string{"", ":8080", ":443"} {
					for _, path := range []string{"", "/", "/a/b.html", "/search?q=arc&u=https://other.org/x", "/p#frag"} {
						urls = append(urls, scheme+www+host+port+path)
					}
				}
			}
		}
	}
	urls = append(urls, c17URLs...)
	base := utc(2024, 3, 15, 10, 15, 0)
	rows := make([]c17Row, 0, len(urls)+2)
	for i := range urls {
		u := urls[i]
		r := c17Row{Rid: int64(webFirstRid + i + 1), US: base + int64(i)*1_000000, N: int64(i % 100), URL: &u}
		if i%11 != 0 {
			v := urls[(i*7+3)%len(urls)]
			r.Ref = &v
		}
		rows = append(rows, r)
	}
	for k := 0; k < 2; k++ { // NULL url
		i := len(urls) + k
		v := urls[k]
		rows = append(rows, c17Row{Rid: int64(webFirstRid + i + 1), US: base + int64(i)*1_000000, N: int64(i % 100), Ref: &v})
	}
	return rows
}

func webLP(r c17Row) string {
	var sb strings.Builder
	fmt.Fprintf(&sb, "web,host=h%d rid=%di,n=%di", r.Rid%4, r.Rid, r.N)
	if r.URL != nil {
		fmt.Fprintf(&sb, `,url="%s"`, lpEscStr(*r.URL))
	}
	if r.Ref != nil {
		fmt.Fprintf(&sb, `,ref="%s"`, lpEscStr(*r.Ref))
	}
	fmt.Fprintf(&sb, " %d", r.US)
	return sb.String()
}

// urlArgVariant is one argument-count / optional-argument form of a call. Args are the
// arguments after the pattern literal.
type urlArgVariant struct {
	Fn        string
	Key       string // counter suffix
	Args      []string
	Canonical bool // the documented form the rewrite is meant for
	Desc      string
}

var urlArgVariants = []urlArgVariant{
	{"REGEXP_EXTRACT", "extract_2arg", nil, false, "2-argument form (no group argument: DuckDB returns group 0, the whole match)"},
	{"REGEXP_EXTRACT", "extract_group0", []string{"0"}, false, "3-argument form with group 0 (the whole match)"},
	{"REGEXP_EXTRACT", "extract_group1", []string{"1"}, true, "3-argument form with group 1"},
	{"REGEXP_EXTRACT", "extract_group2", []string{"2"}, false, "3-argument form with group 2"},
	{"REGEXP_EXTRACT", "extract_group1_options", []string{"1", "'i'"}, false, "4-argument form (group 1 with options 'i')"},
	{"REGEXP_REPLACE", "replace_backref1", []string{`'\1'`}, true, `3-argument form with replacement '\1'`},
	{"REGEXP_REPLACE", "replace_double_backslash1", []string{`'\\1'`}, false, `replacement '\\1' (two backslashes: DuckDB substitutes a literal backslash followed by 1)`},
	{"REGEXP_REPLACE", "replace_backref0", []string{`'\0'`}, false, `replacement '\0' (the whole match)`},
	{"REGEXP_REPLACE", "replace_empty", []string{`''`}, false, "empty replacement ''"},
	{"REGEXP_REPLACE", "replace_backref_in_text", []string{`'[\1]'`}, false, `replacement '[\1]' (group reference inside other text)`},
	{"REGEXP_REPLACE", "replace_backref1_options", []string{`'\1'`, "'g'"}, false, `4-argument form (replacement '\1' with options 'g')`},
}

// A pattern with two capture groups (scheme, host): group 2 is the host. It is generated for
// every variant except the canonical one: REGEXP_EXTRACT(col, <this>, 1) IS rewritten by the
// unchanged tree (root cause "the rewrite ignores the actual regex", already recorded for the
// other pattern shapes), which is not what this family is about.
var urlTwoGroupPattern = struct{ fn, label, pat string }{"REGEXP_EXTRACT", "two capture groups (scheme, host)", `^(https?)://(?:www\.)?([^/]+)`}

// renderCall spells fn(args...) in one of four styles.
func renderCall(fn string, args []string, style int) string {
	switch style {
	case 1:
		return strings.ToLower(fn) + "(" + strings.Join(args, ",") + ")"
	case 2:
		parts := strings.Split(strings.ToLower(fn), "_")
		for i, p := range parts {
			parts[i] = strings.ToUpper(p[:1]) + p[1:]
		}
		return strings.Join(parts, "_") + " ( " + strings.Join(args, " , ") + " )"
	case 3:
		return fn + "(\n\t" + strings.Join(args, ",\n\t") + "\n)"
	}
	return fn + "(" + strings.Join(args, ", ") + ")"
}

type urlArgCase struct {
	Q urlQ
	V urlArgVariant
}

// genURLArgCases enumerates the family; the cases are dealt round-robin to the workers.
func genURLArgCases() []urlArgCase {
	var out []urlArgCase
	idx := 0
	for _, v := range urlArgVariants {
		pats := append([]struct{ fn, label, pat string }{}, urlPatterns...)
		if !v.Canonical {
			pats = append(pats, urlTwoGroupPattern)
		}
		for _, p := range pats {
			if p.fn != v.Fn {
				continue
			}
			for style := 0; style < 4; style++ {
				idx++
				q := urlQ{Fn: v.Fn, Label: p.label, Pattern: p.pat, Variant: v.Key, Table: "web", Form: "value"}
				switch idx % 6 {
				case 3:
					q.Col = "ref"
				case 4:
					q.Col = `"url"`
				case 5:
					q.Col, q.Table = "e.url", "web e"
				default:
					q.Col = "url"
				}
				q.Expr = renderCall(v.Fn, append([]string{q.Col, "'" + p.pat + "'"}, v.Args...), style)
				if idx%5 == 4 {
					q.Form = "filter"
					q.SQL = fmt.Sprintf("SELECT rid FROM %s WHERE %s LIKE 'http%%'", q.Table, q.Expr)
				} else {
					q.SQL = fmt.Sprintf("SELECT rid, %s AS d FROM %s", q.Expr, q.Table)
				}
				if idx%3 == 0 {
					q.Hdr = "default"
				}
				out = append(out, urlArgCase{Q: q, V: v})
			}
		}
	}
	return out
}

func c17URLArgs(c *vlib.Ctx, e *env, w, workers int, web []c17Row) {
	byRid := map[string]c17Row{}
	for _, r := range web {
		byRid[strconv.FormatInt(r.Rid, 10)] = r
	}
	for i, uc := range genURLArgCases() {
		if i%workers != w {
			continue
		}
		q, v := uc.Q, uc.V
		o := e.run(q.SQL, q.Hdr, false, false)
		c.Count("urlargs_queries", 1)
		if !account(c, o, "urlargs") {
			continue
		}
		c.Count("urlargs_"+v.Key, 1)
		rewritten := strings.Contains(o.Log.Converted, "split_part(")
		if rewritten {
			c.Count("urlargs_rewritten_"+v.Key, 1)
		} else {
			c.Count("urlargs_not_rewritten", 1)
		}
		if o.Ref.NRows > 0 {
			c.Nontrivial(q.SQL + "|" + q.Hdr)
		}
		if o.Kind == "equal" {
			continue
		}
		c.Count("urlargs_mismatches", 1)
		if v.Canonical {
			c17URLMismatch(c, e, w, q, o, byRid)
			continue
		}
		how := "result differs from DuckDB evaluating the original call"
		if o.arcAll == nil {
			how = o.Why
		}
		sig := fmt.Sprintf("URL-domain rewrite of %s fires for the %s: %s", v.Fn, v.Desc, how)
		if !rewritten {
			sig = fmt.Sprintf("%s in the %s is not rewritten but arc's answer differs: %s", v.Fn, v.Desc, how)
		}
		c.Violation(sig, map[string]any{"worker": w, "query": q, "variant": v, "converted_sql": o.Log.Converted, "outcome": o})
	}
}
