package main

import (
	"fmt"
	"math/rand/v2"
	"sort"
	"strconv"
	"strings"
	"sync"
	"time"

	"github.com/basekick-labs/arc/internal/zzverif/vlib"
)

// ===================== C17: performance rewrites keep values / filter decisions =====================
//
// Dataset: one measurement default.ev whose rows carry a unique rid, adversarial
// timestamps and URL-like / text columns. Every query selects rid plus ONE expression
// (value check) or selects rid under ONE WHERE clause (filter-decision check); the same
// text runs on arc (which rewrites it) and on the reference DuckDB (which evaluates the
// original). Rows are matched by rid, so a mismatch names the input rows.

type c17Row struct {
	Rid    int64
	US     int64 // timestamp, microseconds
	URL    *string
	Ref    *string
	Title  *string
	Phrase *string
	N      int64
}

func utc(y int, m time.Month, d, hh, mm, ss int) int64 {
	return time.Date(y, m, d, hh, mm, ss, 0, time.UTC).UnixMicro()
}

// c17Anchors are instants at which some unit rolls over (or arithmetic changes sign).
var c17Anchors = []int64{
	utc(2024, 3, 15, 10, 30, 0), // minute / half-hour
	utc(2024, 3, 15, 11, 0, 0),  // hour
	utc(2024, 3, 14, 0, 0, 0),   // day; Thursday = boundary of epoch-aligned weeks
	utc(2024, 3, 18, 0, 0, 0),   // day; Monday = boundary of ISO weeks
	utc(2024, 3, 1, 0, 0, 0),    // month (leap February)
	utc(2024, 4, 1, 0, 0, 0),    // quarter
	utc(2024, 1, 1, 0, 0, 0),    // year (also a Monday)
	utc(2023, 1, 1, 0, 0, 0),    // year (a Sunday)
	utc(2000, 1, 3, 0, 0, 0),    // DuckDB's default time_bucket origin
	utc(1970, 1, 1, 0, 0, 0),    // the epoch: sign change
	utc(1969, 7, 20, 20, 0, 0),  // before 1970
	utc(1955, 11, 5, 6, 0, 0),   // before 1970
	utc(2100, 1, 1, 0, 0, 0),    // far future
	utc(2199, 12, 31, 23, 0, 0), // far future
}

// offsets (µs) around an anchor: exact, ±1µs, around the half second, whole seconds.
var c17Offsets = []int64{-3600_000000, -61_000000, -1_000000, -500001, -500000, -499999, -1, 0, 1, 499999, 500000, 999999, 1_000000, 59_500000, 1799_750000}

var c17URLs = []string{
	"https://www.example.com/path/page.html",
	"http://www.example.com/",
	"https://example.com/a/b?q=https://other.org/x",
	"http://example.com/x",
	"https://example.com",
	"http://www.example.com",
	"https://sub.domain.example.co.uk:8443/index",
	"https://user:pw@host.example.com/private",
	"HTTPS://WWW.EXAMPLE.COM/UPPER",
	"Http://Mixed.Example.com/Case",
	"https://WWW.example.com/wwwupper",
	"www.example.com/noscheme",
	"example.com",
	"ftp://files.example.com/pub",
	"https://",
	"http://www.",
	"https://www./x",
	"https:///triple",
	"http:/one-slash.com/x",
	"://missing.scheme/x",
	"",
	"/relative/path",
	"https://wwwx.example.com/notwww",
	"http://https.example.com/httpsname",
	"see https://embedded.example.com/in text",
	"https://xn--bcher-kva.example/ü",
	"https://example.com//double//slash",
	"http://[::1]:8080/ipv6",
	"https://www.google.com/search?q=arc",
	"http://mail.google.co.uk/inbox",
}

var c17Titles = []string{"Google Search", "google maps", "Arc docs", "", "100% pure", "under_score", "Bing", "The Google", "gOOgle", "  ", "x"}
var c17Phrases = []string{"", "", "arc database", "time series", " ", "google", "%", "''"}

func genC17Rows(rng *rand.Rand) []c17Row {
	var ts []int64
	for _, a := range c17Anchors {
		for _, o := range c17Offsets {
			ts = append(ts, a+o)
		}
		for i := 0; i < 6; i++ { // random sub-second points in the two hours around the anchor
			ts = append(ts, a-3600_000000+rng.Int64N(7200_000000))
		}
	}
	rng.Shuffle(len(ts), func(i, j int) { ts[i], ts[j] = ts[j], ts[i] })
	pick := func(pool []string, nullOneIn int) *string {
		if rng.IntN(nullOneIn) == 0 {
			return nil
		}
		s := pool[rng.IntN(len(pool))]
		return &s
	}
	rows := make([]c17Row, len(ts))
	for i, t := range ts {
		r := c17Row{Rid: int64(i + 1), US: t, N: int64(rng.IntN(100))}
		if i < len(c17URLs) { // every fixed URL shape occurs at every seed
			u := c17URLs[i]
			r.URL = &u
		} else if rng.IntN(8) != 0 {
			u := randURL(rng)
			r.URL = &u
		}
		r.Ref = pick(c17URLs, 5)
		r.Title = pick(c17Titles, 7)
		r.Phrase = pick(c17Phrases, 6)
		rows[i] = r
	}
	return rows
}

func randURL(rng *rand.Rand) string {
	schemes := []string{"https://", "http://", "https://www.", "http://www.", "", "HTTPS://", "ftp://", "https:/", "//"}
	hosts := []string{"example.com", "a.b.c.example.org", "localhost", "10.0.0.1", "EXAMPLE.com", "www", "x", "google.com", "maps.google.de"}
	ports := []string{"", "", "", ":80", ":8443"}
	paths := []string{"", "/", "/a", "/a/b/c.html", "/?q=1", "/https://nested/", "?noslash=1", "#frag"}
	return schemes[rng.IntN(len(schemes))] + hosts[rng.IntN(len(hosts))] + ports[rng.IntN(len(ports))] + paths[rng.IntN(len(paths))]
}

func (r c17Row) lp() string {
	var sb strings.Builder
	fmt.Fprintf(&sb, "ev,host=h%d rid=%di,n=%di", r.Rid%4, r.Rid, r.N)
	add := func(k string, v *string) {
		if v != nil {
			fmt.Fprintf(&sb, `,%s="%s"`, k, lpEscStr(*v))
		}
	}
	add("url", r.URL)
	add("ref", r.Ref)
	add("title", r.Title)
	add("phrase", r.Phrase)
	fmt.Fprintf(&sb, " %d", r.US)
	return sb.String()
}

// ---------- time rewrite queries ----------

type timeQ struct {
	Fn     string `json:"fn"` // "time_bucket" | "time_bucket_origin" | "date_trunc"
	Amount int    `json:"amount,omitempty"`
	Unit   string `json:"unit"`
	Origin string `json:"origin,omitempty"`
	Form   string `json:"form"` // value | group | filter
	SQL    string `json:"sql"`
	Expr   string `json:"expr"`
	Hdr    string `json:"hdr"`
}

var tbUnits = []struct {
	spell []string
	amts  []int
	sec   int64
}{
	{[]string{"second", "seconds", "SECOND"}, []int{1, 5, 10, 15, 30, 45, 90, 3600}, 1},
	{[]string{"minute", "minutes", "Minutes"}, []int{1, 2, 5, 7, 10, 15, 30, 45, 90}, 60},
	{[]string{"hour", "hours", "HOURS"}, []int{1, 2, 3, 4, 5, 6, 7, 8, 12, 24, 36}, 3600},
	{[]string{"day", "days", "Day"}, []int{1, 2, 3, 7, 10, 30}, 86400},
	{[]string{"week", "weeks"}, []int{1, 2, 4}, 604800},
	{[]string{"month", "months"}, []int{1, 3}, 0},
}

var tbOrigins = []string{
	"2024-01-01", "2024-01-01 00:07:00", "2024-03-15T10:00:00", "2000-01-01 00:00:00", "1970-01-01",
	"2030-01-01 00:00:00", "1960-01-01 12:00:00", "2024-03-15 10:30:00Z", "2024-03-15T10:30:00Z", "2024-03-14 00:00:01",
}

var dtUnits = []string{"second", "minute", "hour", "day", "week", "month", "quarter", "year", "HOUR", "Day"}

func genTimeQ(rng *rand.Rand) timeQ {
	var q timeQ
	col := []string{"time", "time", "time", `"time"`, "e.time"}[rng.IntN(5)]
	from := "ev"
	if col == "e.time" {
		from = "ev e"
	}
	sp := func() string { return []string{"", "", " "}[rng.IntN(3)] }
	switch k := rng.IntN(10); {
	case k < 4:
		u := tbUnits[rng.IntN(len(tbUnits))]
		q.Fn, q.Amount, q.Unit = "time_bucket", u.amts[rng.IntN(len(u.amts))], u.spell[rng.IntN(len(u.spell))]
		iv := "INTERVAL "
		if rng.IntN(6) == 0 {
			iv = ""
		}
		q.Expr = fmt.Sprintf("time_bucket(%s%s'%d %s'%s,%s%s)", sp(), iv, q.Amount, q.Unit, sp(), " ", col)
	case k < 7:
		u := tbUnits[rng.IntN(len(tbUnits)-1)]
		q.Fn, q.Amount, q.Unit = "time_bucket_origin", u.amts[rng.IntN(len(u.amts))], u.spell[rng.IntN(len(u.spell))]
		q.Origin = tbOrigins[rng.IntN(len(tbOrigins))]
		ts := "TIMESTAMP "
		if rng.IntN(4) == 0 {
			ts = ""
		}
		q.Expr = fmt.Sprintf("time_bucket(INTERVAL '%d %s', %s, %s'%s')", q.Amount, q.Unit, col, ts, q.Origin)
	default:
		q.Fn, q.Unit = "date_trunc", dtUnits[rng.IntN(len(dtUnits))]
		q.Expr = fmt.Sprintf("date_trunc(%s'%s',%s%s)", sp(), q.Unit, " ", col)
	}
	switch k := rng.IntN(10); {
	case k < 6:
		q.Form = "value"
		q.SQL = fmt.Sprintf("SELECT rid, %s AS b FROM %s", q.Expr, from)
	case k < 8:
		q.Form = "group"
		q.SQL = fmt.Sprintf("SELECT %s AS b, count(*) AS c, min(rid) AS lo, max(rid) AS hi FROM %s GROUP BY %s", q.Expr, from, q.Expr)
	default:
		q.Form = "filter"
		a := c17Anchors[rng.IntN(8)]
		lit := time.UnixMicro(a).UTC().Format("2006-01-02 15:04:05")
		op := []string{"=", ">=", "<", "<>"}[rng.IntN(4)]
		q.SQL = fmt.Sprintf("SELECT rid FROM %s WHERE %s %s TIMESTAMP '%s'", from, q.Expr, op, lit)
	}
	if rng.IntN(3) == 0 {
		q.Hdr = "default"
	}
	return q
}

// ---- classification model (used ONLY to name the cause of an observed mismatch) ----

func floorDiv(a, b int64) int64 {
	q := a / b
	if a%b != 0 && (a < 0) != (b < 0) {
		q--
	}
	return q
}

func roundHalfEven(us int64) int64 { // microseconds -> whole seconds the way DOUBLE::BIGINT rounds (half to even)
	f := floorDiv(us, 1000000)
	r := us - f*1000000
	switch {
	case r < 500000:
		return f
	case r > 500000:
		return f + 1
	}
	if f%2 == 0 {
		return f
	}
	return f + 1
}

// arcModel evaluates arc's emitted formula to_timestamp(o + ((sec - o) // w) * w) with the
// two arithmetic choices switchable, returning microseconds.
func arcModel(us, w, origin int64, floorSec, floorDivide bool) int64 {
	var sec int64
	if floorSec {
		sec = floorDiv(us, 1000000)
	} else {
		sec = roundHalfEven(us)
	}
	d := sec - origin
	var k int64
	if floorDivide {
		k = floorDiv(d, w)
	} else {
		k = d / w
	}
	return (origin + k*w) * 1000000
}

func parseOrigin(s string) (int64, bool) {
	for _, f := range []string{"2006-01-02 15:04:05", "2006-01-02T15:04:05", "2006-01-02 15:04:05Z", "2006-01-02T15:04:05Z", "2006-01-02"} {
		if t, err := time.Parse(f, s); err == nil {
			return t.Unix(), true
		}
	}
	return 0, false
}

// timeCause names why arc's value for one row differs from the reference's.
func timeCause(q timeQ, us, arcUS, refUS int64) string {
	w := int64(0)
	unit := strings.TrimSuffix(strings.ToLower(q.Unit), "s")
	for _, u := range tbUnits {
		if strings.TrimSuffix(u.spell[0], "s") == unit {
			w = u.sec
		}
	}
	amt := int64(q.Amount)
	if q.Fn == "date_trunc" {
		amt = 1
	}
	w *= amt
	if w == 0 {
		return "unit not covered by the epoch rewrite"
	}
	var origin int64
	if q.Fn == "time_bucket_origin" {
		o, ok := parseOrigin(q.Origin)
		if !ok {
			return "origin not parsed by the model"
		}
		origin = o
	}
	if arcModel(us, w, origin, false, false) != arcUS {
		return "value not explained by the emitted epoch formula"
	}
	switch refUS {
	case arcModel(us, w, origin, true, false):
		return "fractional second >= .5 is rounded up (epoch()::BIGINT) into the next bucket"
	case arcModel(us, w, origin, false, true):
		if q.Fn == "time_bucket_origin" {
			return "timestamp before the origin: // truncates toward zero instead of flooring"
		}
		return "timestamp before 1970: // truncates toward zero instead of flooring"
	case arcModel(us, w, origin, true, true):
		return "fractional-second rounding together with toward-zero division of a negative offset"
	}
	if q.Fn == "date_trunc" {
		return "week buckets aligned to the epoch (Thursday) instead of Monday"
	}
	if q.Fn == "time_bucket" {
		return "bucket grid anchored at the epoch instead of DuckDB's default origin (2000-01-03)"
	}
	return "bucket differs for another reason"
}

// ---------- URL rewrite queries ----------

type urlQ struct {
	Fn      string `json:"fn"`
	Label   string `json:"pattern_label"`
	Pattern string `json:"pattern"`
	Col     string `json:"column"`
	SQL     string `json:"sql"`
	Hdr     string `json:"hdr"`
	Form    string `json:"form"`
	Expr    string `json:"expr,omitempty"`    // urlargs family: the exact call text
	Table   string `json:"table,omitempty"`   // urlargs family: FROM clause ("web", "web e")
	Variant string `json:"variant,omitempty"` // urlargs family: argument-count / optional-argument variant
}

// every pattern contains "https" and "[^/]" and therefore triggers the rewrite
var urlPatterns = []struct{ fn, label, pat string }{
	{"REGEXP_REPLACE", "documented pattern", `^https?://(?:www\.)?([^/]+)/.*$`},
	{"REGEXP_EXTRACT", "documented pattern", `^https?://(?:www\.)?([^/]+)`},
	{"REGEXP_REPLACE", "https-only scheme", `^https://(?:www\.)?([^/]+)/.*$`},
	{"REGEXP_EXTRACT", "https-only scheme", `^https://(?:www\.)?([^/]+)`},
	{"REGEXP_EXTRACT", "no www group", `^https?://([^/]+)`},
	{"REGEXP_REPLACE", "no www group", `^https?://([^/]+)/.*$`},
	{"REGEXP_EXTRACT", "unanchored", `https?://(?:www\.)?([^/]+)`},
	{"REGEXP_EXTRACT", "host without port", `^https?://(?:www\.)?([^/:]+)`},
	{"REGEXP_EXTRACT", "optional scheme", `^(?:https?://)?(?:www\.)?([^/]+)`},
	{"REGEXP_REPLACE", "path captured instead of host", `^https?://[^/]+(/.*)$`},
}

func genURLQ(rng *rand.Rand) urlQ {
	p := urlPatterns[rng.IntN(len(urlPatterns))]
	q := urlQ{Fn: p.fn, Label: p.label, Pattern: p.pat, Col: []string{"url", "url", "ref"}[rng.IntN(3)]}
	fn := p.fn
	if rng.IntN(3) == 0 {
		fn = strings.ToLower(fn)
	}
	var expr string
	if p.fn == "REGEXP_REPLACE" {
		expr = fmt.Sprintf(`%s(%s, '%s', '\1')`, fn, q.Col, p.pat)
	} else {
		expr = fmt.Sprintf(`%s(%s, '%s', 1)`, fn, q.Col, p.pat)
	}
	switch rng.IntN(4) {
	case 0:
		q.Form = "group"
		q.SQL = fmt.Sprintf("SELECT %s AS d, count(*) AS c, min(rid) AS lo FROM ev GROUP BY %s", expr, expr)
	case 1:
		q.Form = "filter"
		q.SQL = fmt.Sprintf("SELECT rid FROM ev WHERE %s = 'example.com'", expr)
	default:
		q.Form = "value"
		q.SQL = fmt.Sprintf("SELECT rid, %s AS d FROM ev", expr)
	}
	if rng.IntN(3) == 0 {
		q.Hdr = "default"
	}
	return q
}

// urlClass names the shape of a URL value (priority order = order of the checks).
func urlClass(u *string) string {
	if u == nil {
		return "NULL"
	}
	s := *u
	l := strings.ToLower(s)
	rest, scheme := "", ""
	switch {
	case s == "":
		return "empty string"
	case strings.HasPrefix(s, "https://"):
		scheme, rest = "https", s[8:]
	case strings.HasPrefix(s, "http://"):
		scheme, rest = "http", s[7:]
	case strings.HasPrefix(l, "https://") || strings.HasPrefix(l, "http://"):
		return "scheme in upper/mixed case"
	case strings.Contains(l, "https://") || strings.Contains(l, "http://"):
		return "scheme not at the start"
	default:
		return "no http(s) scheme"
	}
	host := rest
	hasPath := false
	if i := strings.Index(rest, "/"); i >= 0 {
		host, hasPath = rest[:i], true
	}
	switch {
	case host == "" || host == "www.":
		return scheme + " scheme with empty host"
	case !hasPath:
		return scheme + " URL without a '/' after the host"
	case strings.HasPrefix(strings.ToLower(host), "www.") && !strings.HasPrefix(host, "www."):
		return scheme + " URL with upper-case WWW"
	case strings.Contains(host, ":") || strings.Contains(host, "@"):
		return scheme + " URL with port/userinfo"
	case strings.HasPrefix(host, "www."):
		return scheme + " URL with www and a path"
	}
	return scheme + " URL with a path"
}

var urlClassPriority = []string{
	"https URL with a path", "http URL with a path", "https URL with www and a path", "http URL with www and a path",
	"https URL with port/userinfo", "http URL with port/userinfo",
	"https URL without a '/' after the host", "http URL without a '/' after the host",
	"https URL with upper-case WWW", "http URL with upper-case WWW",
	"https scheme with empty host", "http scheme with empty host",
	"scheme in upper/mixed case", "scheme not at the start", "no http(s) scheme", "empty string", "NULL",
}

// ---------- LIKE / empty-string predicate ordering ----------

// pnode is a WHERE tree: leaf (Kind L/E/P + SQL text) or operator AND/OR/NOT.
type pnode struct {
	Op    string   `json:"op,omitempty"` // "AND" | "OR" | "NOT" | "" (leaf)
	Kids  []*pnode `json:"kids,omitempty"`
	Kind  string   `json:"kind,omitempty"` // leaf: "L" LIKE/NOT LIKE, "E" col <> '', "P" other predicate
	Text  string   `json:"text,omitempty"`
	Paren bool     `json:"paren,omitempty"` // redundant parentheses around this node
}

func prec(op string) int {
	switch op {
	case "OR":
		return 1
	case "AND":
		return 2
	case "NOT":
		return 3
	}
	return 4
}

// sql renders the tree with the MINIMAL parentheses SQL precedence requires (plus the
// redundant ones marked), so that predicate order and precedence are both exercised.
func (p *pnode) sql(parent int) string {
	var s string
	switch p.Op {
	case "":
		s = p.Text
	case "NOT":
		s = "NOT " + p.Kids[0].sql(prec("NOT"))
	default:
		parts := make([]string, len(p.Kids))
		for i, k := range p.Kids {
			parts[i] = k.sql(prec(p.Op))
		}
		s = strings.Join(parts, " "+p.Op+" ")
	}
	if p.Paren || (p.Op != "" && prec(p.Op) < parent) {
		return "(" + s + ")"
	}
	return s
}

// shape abstracts leaves to their kind.
func (p *pnode) shape(parent int) string {
	var s string
	switch p.Op {
	case "":
		s = p.Kind
	case "NOT":
		s = "NOT " + p.Kids[0].shape(prec("NOT"))
	default:
		parts := make([]string, len(p.Kids))
		for i, k := range p.Kids {
			parts[i] = k.shape(prec(p.Op))
		}
		s = strings.Join(parts, " "+p.Op+" ")
	}
	if p.Paren || (p.Op != "" && prec(p.Op) < parent) {
		return "(" + s + ")"
	}
	return s
}

func (p *pnode) clone() *pnode {
	c := *p
	c.Kids = make([]*pnode, len(p.Kids))
	for i, k := range p.Kids {
		c.Kids[i] = k.clone()
	}
	return &c
}

// shrinkCandidates returns trees one simplification step smaller.
func (p *pnode) shrinkCandidates() []*pnode {
	var out []*pnode
	if p.Paren {
		c := p.clone()
		c.Paren = false
		out = append(out, c)
	}
	for i := range p.Kids {
		out = append(out, p.Kids[i].clone()) // replace node by a child
		if (p.Op == "AND" || p.Op == "OR") && len(p.Kids) > 2 {
			c := p.clone()
			c.Kids = append(c.Kids[:i:i], c.Kids[i+1:]...)
			out = append(out, c)
		}
		for _, sub := range p.Kids[i].shrinkCandidates() {
			c := p.clone()
			c.Kids[i] = sub
			out = append(out, c)
		}
	}
	return out
}

func likeLeaf(rng *rand.Rand) *pnode {
	col := []string{"title", "url", "ref", "phrase"}[rng.IntN(4)]
	pat := []string{"%google%", "%Google%", "%.google.%", "%example%", "http%", "%com", "%a%", "%\\%%", "x", "%"}[rng.IntN(10)]
	if strings.Contains(pat, `\`) {
		pat = "%e_a%"
	}
	not := ""
	if rng.IntN(3) == 0 {
		not = "NOT "
	}
	return &pnode{Kind: "L", Text: fmt.Sprintf("%s %sLIKE '%s'", col, not, pat)}
}

func emptyLeaf(rng *rand.Rand) *pnode {
	col := []string{"phrase", "title", "url", "ref"}[rng.IntN(4)]
	sp := []string{" <> ", "<>", " <>", "  <>  "}[rng.IntN(4)]
	return &pnode{Kind: "E", Text: col + sp + "''"}
}

func otherLeaf(rng *rand.Rand) *pnode {
	return &pnode{Kind: "P", Text: []string{"n > 50", "n <= 20", "rid % 2 = 0", "host = 'h1'", "phrase = ''", "title IS NULL", "n <> 7", "url IS NOT NULL"}[rng.IntN(8)]}
}

func genTree(rng *rand.Rand, depth int) *pnode {
	if depth == 0 || rng.IntN(4) == 0 {
		switch k := rng.IntN(10); {
		case k < 4:
			return likeLeaf(rng)
		case k < 7:
			return emptyLeaf(rng)
		}
		return otherLeaf(rng)
	}
	switch k := rng.IntN(10); {
	case k < 1:
		return &pnode{Op: "NOT", Kids: []*pnode{genTree(rng, depth-1)}}
	case k < 6:
		n := &pnode{Op: "AND"}
		for i := 0; i < 2+rng.IntN(2); i++ {
			n.Kids = append(n.Kids, genTree(rng, depth-1))
		}
		return n
	default:
		n := &pnode{Op: "OR", Paren: rng.IntN(4) == 0}
		for i := 0; i < 2+rng.IntN(2); i++ {
			n.Kids = append(n.Kids, genTree(rng, depth-1))
		}
		return n
	}
}

type likeQ struct {
	Tree *pnode `json:"tree"`
	Tail string `json:"tail"`
	Hdr  string `json:"hdr"`
	SQL  string `json:"sql"`
}

func (q *likeQ) render() {
	q.SQL = "SELECT rid FROM ev WHERE " + q.Tree.sql(0) + q.Tail
}

func genLikeQ(rng *rand.Rand) likeQ {
	var q likeQ
	// bias toward the shapes the optimizer looks for: "... AND col <> ''" at the end
	t := genTree(rng, 2)
	if rng.IntN(2) == 0 {
		switch t.Op {
		case "AND":
			t.Kids = append(t.Kids, emptyLeaf(rng))
		case "OR":
			last := t.Kids[len(t.Kids)-1]
			t.Kids[len(t.Kids)-1] = &pnode{Op: "AND", Kids: []*pnode{last, emptyLeaf(rng)}}
		default:
			t = &pnode{Op: "AND", Kids: []*pnode{t, emptyLeaf(rng)}}
		}
	}
	q.Tree = t
	q.Tail = []string{"", "", "", " ORDER BY rid", " ORDER BY rid LIMIT 25", " GROUP BY rid", " LIMIT 100000"}[rng.IntN(7)]
	if rng.IntN(3) == 0 {
		q.Hdr = "default"
	}
	q.render()
	return q
}

func hasKind(p *pnode, k string) bool {
	if p.Op == "" {
		return p.Kind == k
	}
	for _, c := range p.Kids {
		if hasKind(c, k) {
			return true
		}
	}
	return false
}

// ---------- the check ----------

func ridMap(rows [][]string) (map[string]string, bool) {
	m := map[string]string{}
	for _, r := range rows {
		if len(r) == 0 {
			return nil, false
		}
		if _, dup := m[r[0]]; dup {
			return nil, false
		}
		m[r[0]] = strings.Join(r[1:], "|")
	}
	return m, true
}

func checkC17(c *vlib.Ctx) {
	c.Rule("default.ev holds ~300 rows with unique rid: timestamps at/around every unit boundary (±1µs, around .5s), the epoch, 1955/1969, 2100/2199, DuckDB's default bucket origin; URL-like strings of every malformed shape. Queries: time_bucket for every supported unit x amount with/without origin, date_trunc for every unit, URL-domain REGEXP_REPLACE/REGEXP_EXTRACT patterns that trigger the rewrite, WHERE trees of AND/OR/NOT/parentheses over LIKE, <> '' and other predicates, as value, GROUP BY and filter forms, with and without x-arc-database. A query is non-trivial when arc's logged converted SQL shows the rewrite fired.")
	c.Rule("family 'urlargs' (enumerated, identical at every seed, 232 queries dealt to the workers) over default.web = every scheme x www x host x port x path combination of real http(s) URLs (300 rows) + the malformed shapes + NULLs: REGEXP_EXTRACT(col, p) | (col, p, 0|1|2) | (col, p, 1, 'i') and REGEXP_REPLACE(col, p, '\\1' | '\\\\1' | '\\0' | '' | '[\\1]') | (col, p, '\\1', 'g') x every URL pattern (+ a two-group pattern) x 4 spellings (upper/lower/mixed-case name; tight, padded, newline/tab spacing) over url/ref, a quoted and an alias-qualified column, as value and filter form; non-trivial = compared with a non-empty reference result")
	c.Assume("reference = the same SQL text on a private DuckDB (same library version) over views of exactly the stored Parquet files; rows matched by rid")
	c.Assume("arc's debug log line 'Executing query' (converted_sql) is used only to count whether a rewrite fired and for replay details, never for the verdict")

	if c.Replay != "" {
		replayC17(c)
		return
	}
	workers := 4
	nTime, nURL, nLike := c.N(110, 6000), c.N(35, 1500), c.N(90, 5000)
	var wg sync.WaitGroup
	for w := 0; w < workers; w++ {
		wg.Add(1)
		go func(w int) {
			defer wg.Done()
			c17Worker(c, w, nTime, nURL, nLike)
		}(w)
	}
	wg.Wait()
	c.Floor(c.N(450, 12000))
}

func c17Setup(c *vlib.Ctx, w int) (*env, []c17Row, bool) {
	rng := c.Rand(fmt.Sprintf("c17-data-%d", w))
	e, err := newEnv()
	if err != nil {
		c.Inconclusive("node: " + err.Error())
		return nil, nil, false
	}
	rows := genC17Rows(rng)
	for _, part := range [][]c17Row{rows} {
		var sb strings.Builder
		for _, r := range part {
			sb.WriteString(r.lp())
			sb.WriteByte('\n')
		}
		if err := e.write("default", []byte(sb.String()), len(part)); err != nil {
			c.Inconclusive(err.Error())
			e.close()
			return nil, nil, false
		}
		if !e.flush() {
			c.Inconclusive("flush watchdog")
			e.close()
			return nil, nil, false
		}
	}
	// default.web: the rows of the urlargs family (deterministic, see c17args.go)
	web := genWebRows()
	{
		var sb strings.Builder
		for _, r := range web {
			sb.WriteString(webLP(r))
			sb.WriteByte('\n')
		}
		if err := e.write("default", []byte(sb.String()), len(web)); err != nil {
			c.Inconclusive(err.Error())
			e.close()
			return nil, nil, false
		}
		if !e.flush() {
			c.Inconclusive("flush watchdog")
			e.close()
			return nil, nil, false
		}
	}
	if err := e.defineRefs("default"); err != nil {
		c.Inconclusive("reference: " + err.Error())
		e.close()
		return nil, nil, false
	}
	if _, got, err := refQuery(e.refs[""], "SELECT count(*), count(DISTINCT rid), count(url) FROM web"); err != nil || len(got) != 1 ||
		got[0][0].(int64) != int64(len(web)) || got[0][1].(int64) != int64(len(web)) || got[0][2].(int64) != int64(len(web)-2) {
		c.Inconclusive(fmt.Sprintf("dataset web not stored as generated: %v %v want %d", err, got, len(web)))
		e.close()
		return nil, nil, false
	}
	c.Count("dataset_rows_web", int64(len(web)))
	// sanity: the stored rows are the generated rows (otherwise comparisons are moot)
	_, got, err := refQuery(e.refs[""], "SELECT rid, epoch_us(time) FROM ev ORDER BY rid")
	if err != nil || len(got) != len(rows) {
		c.Inconclusive(fmt.Sprintf("dataset not stored as generated: %v rows=%d want=%d", err, len(got), len(rows)))
		e.close()
		return nil, nil, false
	}
	for i, r := range got {
		if r[0].(int64) != rows[i].Rid || r[1].(int64) != rows[i].US {
			c.Inconclusive(fmt.Sprintf("dataset row %d stored with another timestamp", rows[i].Rid))
			e.close()
			return nil, nil, false
		}
	}
	c.Count("dataset_rows", int64(len(rows)))
	c.Count("dataset_files", int64(countParquet(e.n.Root)))
	return e, rows, true
}

func c17Worker(c *vlib.Ctx, w, nTime, nURL, nLike int) {
	e, rows, ok := c17Setup(c, w)
	if !ok {
		return
	}
	defer e.close()
	byRid := map[string]c17Row{}
	for _, r := range rows {
		byRid[strconv.FormatInt(r.Rid, 10)] = r
	}
	rng := c.Rand(fmt.Sprintf("c17-q-%d", w))
	for i := 0; i < nTime; i++ {
		q := genTimeQ(rng)
		c17Time(c, e, w, q, byRid)
	}
	for i := 0; i < nURL; i++ {
		q := genURLQ(rng)
		c17URL(c, e, w, q, byRid)
	}
	for i := 0; i < nLike; i++ {
		q := genLikeQ(rng)
		c17Like(c, e, w, q)
	}
	c17URLArgs(c, e, w, 4, genWebRows())
}

func account(c *vlib.Ctx, o outcome, class string) bool {
	c.Eval()
	c.Count("queries_generated", 1)
	c.Count("arc_ms_total", o.ArcMS)
	c.Count("ref_ms_total", o.RefMS)
	switch o.Kind {
	case "rejected":
		c.Count("queries_rejected_by_validation", 1)
		return false
	case "inconclusive":
		c.Inconclusive(o.Why)
		return false
	case "both_fail":
		c.Count("queries_both_fail", 1)
		return false
	}
	c.Count("queries_compared", 1)
	c.Count("compared_"+class, 1)
	return true
}

func c17Time(c *vlib.Ctx, e *env, w int, q timeQ, byRid map[string]c17Row) {
	o := e.run(q.SQL, q.Hdr, false, false)
	if !account(c, o, q.Fn) {
		return
	}
	rewritten := strings.Contains(o.Log.Converted, "to_timestamp(") && !strings.Contains(strings.ToLower(o.Log.Converted), "date_trunc(") && !strings.Contains(strings.ToLower(o.Log.Converted), "time_bucket(")
	if rewritten {
		c.Count("rewritten_"+q.Fn, 1)
		c.Nontrivial(q.SQL + "|" + q.Hdr)
	} else {
		c.Count("not_rewritten_"+q.Fn, 1)
	}
	if o.Kind == "equal" {
		return
	}
	detail := map[string]any{"worker": w, "query": q, "outcome": o}
	if o.arcAll == nil || q.Form != "value" {
		// failure asymmetry, or group/filter form: classify through the value form of the same expression
		if o.arcAll == nil {
			sig := fmt.Sprintf("%s rewrite: %s", q.Fn, o.Why)
			if q.Fn == "time_bucket_origin" && o.Why == "arc succeeds, reference fails" && !strings.Contains(q.Expr, "TIMESTAMP '") {
				sig = "time_bucket(width, ts, 'string') rewrite: untyped third argument taken as an origin and answered, DuckDB reads it as a time zone and fails"
			}
			c.Violation(sig, detail)
			return
		}
		vq := q
		vq.Form = "value"
		from := "ev"
		if strings.Contains(q.Expr, "e.time") {
			from = "ev e"
		}
		vq.SQL = fmt.Sprintf("SELECT rid, %s AS b FROM %s", q.Expr, from)
		vo := e.run(vq.SQL, vq.Hdr, false, false)
		if vo.Kind != "mismatch" || vo.arcAll == nil {
			c.Violation(fmt.Sprintf("%s rewrite: %s form differs although the per-row values agree", q.Fn, q.Form), detail)
			return
		}
		detail["value_form"] = map[string]any{"sql": vq.SQL, "outcome": vo}
		o = vo
	}
	am, ok1 := ridMap(o.arcAll)
	rm, ok2 := ridMap(o.refAll)
	if !ok1 || !ok2 || len(am) != len(rm) {
		c.Violation(fmt.Sprintf("%s rewrite: row set differs", q.Fn), detail)
		return
	}
	causes := map[string][]map[string]any{}
	for rid, rv := range rm {
		av := am[rid]
		if av == rv {
			continue
		}
		row := byRid[rid]
		cause := "value differs (non-timestamp result)"
		if strings.HasPrefix(av, "T") && strings.HasPrefix(rv, "T") {
			a, _ := strconv.ParseInt(av[1:], 10, 64)
			r, _ := strconv.ParseInt(rv[1:], 10, 64)
			cause = timeCause(q, row.US, a, r)
		}
		if len(causes[cause]) < 5 {
			causes[cause] = append(causes[cause], map[string]any{"rid": rid, "time_us": row.US, "time": time.UnixMicro(row.US).UTC().Format(time.RFC3339Nano), "arc": av, "reference": rv})
		}
	}
	c.Count("time_queries_with_differing_rows", 1)
	names := make([]string, 0, len(causes))
	for k := range causes {
		names = append(names, k)
	}
	sort.Strings(names)
	single := false
	for _, cause := range names {
		if !strings.HasPrefix(cause, "fractional-second rounding together") {
			single = true
		}
	}
	for _, cause := range names {
		if single && strings.HasPrefix(cause, "fractional-second rounding together") {
			continue // both single causes are reported from rows that need only one of them
		}
		d := map[string]any{"worker": w, "query": q, "converted_sql": o.Log.Converted, "cause": cause, "differing_rows_sample": causes[cause]}
		fn := map[string]string{"time_bucket": "time_bucket(width, ts)", "time_bucket_origin": "time_bucket(width, ts, origin)", "date_trunc": "date_trunc"}[q.Fn]
		c.Violation(fn+" rewrite: "+cause, d)
	}
}

func c17URL(c *vlib.Ctx, e *env, w int, q urlQ, byRid map[string]c17Row) {
	o := e.run(q.SQL, q.Hdr, false, false)
	if !account(c, o, "url_"+q.Fn) {
		return
	}
	if strings.Contains(o.Log.Converted, "split_part(") {
		c.Count("rewritten_url_"+q.Fn, 1)
		c.Nontrivial(q.SQL + "|" + q.Hdr)
	} else {
		c.Count("not_rewritten_url", 1)
	}
	if o.Kind == "equal" {
		return
	}
	c17URLMismatch(c, e, w, q, o, byRid)
}

// c17URLMismatch names a mismatch of the canonical rewritten call forms
// (REGEXP_EXTRACT(col, p, 1) / REGEXP_REPLACE(col, p, '\1')): pattern label + first
// differing input class.
func c17URLMismatch(c *vlib.Ctx, e *env, w int, q urlQ, o outcome, byRid map[string]c17Row) {
	detail := map[string]any{"worker": w, "query": q, "outcome": o}
	sigBase := fmt.Sprintf("URL-domain rewrite of %s (%s)", q.Fn, q.Label)
	if o.arcAll == nil {
		c.Violation(sigBase+": "+o.Why, detail)
		return
	}
	if q.Form != "value" {
		fn := q.Fn
		var expr string
		if fn == "REGEXP_REPLACE" {
			expr = fmt.Sprintf(`%s(%s, '%s', '\1')`, fn, q.Col, q.Pattern)
		} else {
			expr = fmt.Sprintf(`%s(%s, '%s', 1)`, fn, q.Col, q.Pattern)
		}
		from := "ev"
		if q.Expr != "" {
			expr, from = q.Expr, q.Table
		}
		vs := fmt.Sprintf("SELECT rid, %s AS d FROM %s", expr, from)
		vo := e.run(vs, q.Hdr, false, false)
		if vo.Kind != "mismatch" || vo.arcAll == nil {
			c.Violation(sigBase+": "+q.Form+" form differs although per-row values agree", detail)
			return
		}
		detail["value_form"] = map[string]any{"sql": vs, "outcome": vo}
		o = vo
	}
	am, ok1 := ridMap(o.arcAll)
	rm, ok2 := ridMap(o.refAll)
	if !ok1 || !ok2 || len(am) != len(rm) {
		c.Violation(sigBase+": row set differs", detail)
		return
	}
	classes := map[string]map[string]any{}
	for rid, rv := range rm {
		if am[rid] == rv {
			continue
		}
		row := byRid[rid]
		u := row.URL
		if q.Col == "ref" {
			u = row.Ref
		}
		cl := urlClass(u)
		if _, ok := classes[cl]; !ok {
			classes[cl] = map[string]any{"rid": rid, "input": u, "arc": am[rid], "reference": rv}
		}
	}
	first := ""
	for _, cl := range urlClassPriority {
		if _, ok := classes[cl]; ok {
			first = cl
			break
		}
	}
	detail["differing_input_classes"] = classes
	c.Violation(sigBase+": differs for "+first, detail)
}

func c17Like(c *vlib.Ctx, e *env, w int, q likeQ) {
	ordered := strings.Contains(q.Tail, "ORDER BY")
	o := e.run(q.SQL, q.Hdr, ordered, false)
	if !account(c, o, "like") {
		return
	}
	// did the optimizer change the WHERE text? compare the converted SQL's WHERE part
	if i := strings.Index(o.Log.Converted, " WHERE "); i >= 0 && !strings.HasSuffix(o.Log.Converted, " WHERE "+q.Tree.sql(0)+q.Tail) {
		c.Count("rewritten_like_predicate_order", 1)
		c.Nontrivial(q.SQL + "|" + q.Hdr)
	} else {
		c.Count("not_rewritten_like", 1)
	}
	if o.Kind == "equal" {
		return
	}
	// shrink: smaller trees / no tail while the mismatch persists
	cur, curO := q, o
	budget := 40
	for improved := true; improved && budget > 0; {
		improved = false
		var cands []likeQ
		if cur.Tail != "" {
			cands = append(cands, likeQ{Tree: cur.Tree, Tail: "", Hdr: cur.Hdr})
		}
		if cur.Hdr != "" {
			cands = append(cands, likeQ{Tree: cur.Tree, Tail: cur.Tail, Hdr: ""})
		}
		for _, t := range cur.Tree.shrinkCandidates() {
			cands = append(cands, likeQ{Tree: t, Tail: cur.Tail, Hdr: cur.Hdr})
		}
		for _, cand := range cands {
			cand.render()
			budget--
			co := e.run(cand.SQL, cand.Hdr, strings.Contains(cand.Tail, "ORDER BY"), false)
			c.Count("shrink_queries", 1)
			if co.Kind == "mismatch" {
				cur, curO, improved = cand, co, true
				break
			}
			if budget <= 0 {
				break
			}
		}
	}
	sig := fmt.Sprintf("LIKE/empty-check reordering changes the filter: minimal WHERE shape `%s` (L=LIKE, E=col <> '', P=other)", cur.Tree.shape(0))
	if t := cur.Tree; t.Op == "OR" && !t.Paren && hasKind(t, "L") {
		if last := t.Kids[len(t.Kids)-1]; last.Op == "AND" && !last.Paren && last.Kids[len(last.Kids)-1].Kind == "E" {
			sig = "LIKE optimizer hoists a trailing `AND col <> ''` in front of a WHERE clause with a top-level OR (A OR B AND E becomes E AND A OR B)"
		}
	}
	if curO.arcAll == nil {
		sig = "LIKE/empty-check reordering: " + curO.Why + " for WHERE shape `" + cur.Tree.shape(0) + "`"
	}
	c.Violation(sig, map[string]any{"worker": w, "original": q, "minimal": cur, "minimal_outcome": curO})
}

// replayC17 re-runs the SQL of a replay file on a freshly generated dataset of the same
// seed/worker and prints both answers.
func replayC17(c *vlib.Ctx) {
	var d struct {
		Worker int `json:"worker"`
		Query  struct {
			SQL string `json:"sql"`
			Hdr string `json:"hdr"`
		} `json:"query"`
		Minimal struct {
			SQL string `json:"sql"`
			Hdr string `json:"hdr"`
		} `json:"minimal"`
	}
	if err := vlib.LoadReplay(c.Replay, &d); err != nil {
		c.Inconclusive("replay: " + err.Error())
		return
	}
	e, _, ok := c17Setup(c, d.Worker)
	if !ok {
		return
	}
	defer e.close()
	sqlText, hdr := d.Query.SQL, d.Query.Hdr
	if d.Minimal.SQL != "" {
		sqlText, hdr = d.Minimal.SQL, d.Minimal.Hdr
	}
	o := e.run(sqlText, hdr, false, false)
	c.Eval()
	fmt.Printf("REPLAY sql=%s\n hdr=%q kind=%s why=%s\n converted=%s\n arc-only rows=%v\n ref-only rows=%v\n", sqlText, hdr, o.Kind, o.Why, o.Log.Converted, o.Arc.Rows, o.Ref.Rows)
	if o.Kind == "mismatch" {
		c.Violation("replayed query still differs: "+o.Why, map[string]any{"sql": sqlText, "hdr": hdr, "outcome": o})
	}
	c.Nontrivial("replay-a")
	c.Nontrivial("replay-b")
}
