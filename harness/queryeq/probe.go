package main

import (
	"encoding/json"
	"fmt"
	"os"
	"strings"
)

// probeScript drives an ad-hoc differential run (debugging aid, not a check):
//
//	{"steps":[{"db":"default","lp":"cpu,host=a v=1i 1700000000000000"},{"flush":true},
//	          {"exec_ref":"COPY ... "}],
//	 "hdr_dbs":["db2"], "queries":[{"sql":"SELECT ...","hdr":"","ordered":false}]}
type probeScript struct {
	Steps []struct {
		DB      string `json:"db"`
		LP      string `json:"lp"`
		Flush   bool   `json:"flush"`
		ExecRef string `json:"exec_ref"` // run on a scratch reference engine; {ROOT} is replaced
		Remove  string `json:"remove"`   // path under {ROOT} to delete
	} `json:"steps"`
	HdrDBs  []string `json:"hdr_dbs"`
	Queries []struct {
		SQL     string `json:"sql"`
		Hdr     string `json:"hdr"`
		Ordered bool   `json:"ordered"`
		ByName  bool   `json:"by_name"`
		RefOnly bool   `json:"ref_only"`
	} `json:"queries"`
}

func runProbe(path string) {
	b, err := os.ReadFile(path)
	if err != nil {
		fmt.Println(err)
		os.Exit(2)
	}
	var s probeScript
	if err := json.Unmarshal(b, &s); err != nil {
		fmt.Println(err)
		os.Exit(2)
	}
	e, err := newEnv()
	if err != nil {
		fmt.Println(err)
		os.Exit(2)
	}
	defer e.close()
	for _, st := range s.Steps {
		switch {
		case st.LP != "":
			lp := strings.TrimSpace(st.LP) + "\n"
			if err := e.write(st.DB, []byte(lp), strings.Count(lp, "\n")); err != nil {
				fmt.Println("WRITE:", err)
			}
		case st.Flush:
			fmt.Println("flush:", e.flush())
		case st.ExecRef != "":
			_ = e.defineRefs()
			_, err := e.refs[""].DB.Exec(strings.ReplaceAll(st.ExecRef, "{ROOT}", e.n.Root))
			fmt.Println("exec_ref:", err)
		case st.Remove != "":
			fmt.Println("remove:", os.RemoveAll(strings.ReplaceAll(st.Remove, "{ROOT}", e.n.Root)))
		}
	}
	fmt.Println("flush:", e.flush(), "files:", countParquet(e.n.Root))
	if err := e.defineRefs(s.HdrDBs...); err != nil {
		fmt.Println("refs:", err)
		os.Exit(2)
	}
	for _, q := range s.Queries {
		fmt.Println("------------------------------------------------------------")
		fmt.Printf("SQL [%s]: %s\n", q.Hdr, q.SQL)
		if q.RefOnly {
			cols, rows, err := refQuery(e.refs[q.Hdr], q.SQL)
			fmt.Println(" ref cols:", cols, "err:", err)
			for _, r := range canonRefRows(rows) {
				fmt.Println("   ", r)
			}
			continue
		}
		o := e.run(q.SQL, q.Hdr, q.Ordered, q.ByName)
		fmt.Printf(" kind=%s why=%s\n converted: %s\n log: %s\n", o.Kind, o.Why, o.Log.Converted, jsonString(o.Log))
		fmt.Printf(" arc: ok=%v status=%d n=%d cols=%v err=%s\n", o.Arc.OK, o.Arc.Status, o.Arc.NRows, o.Arc.Cols, o.Arc.Err)
		for _, r := range o.Arc.Rows {
			fmt.Println("   ", r)
		}
		fmt.Printf(" ref: ok=%v n=%d cols=%v err=%s\n", o.Ref.OK, o.Ref.NRows, o.Ref.Cols, o.Ref.Err)
		for _, r := range o.Ref.Rows {
			fmt.Println("   ", r)
		}
	}
}
