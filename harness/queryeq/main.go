// Harness for the query-equivalence area: C16 (query answers match DuckDB for the
// same SQL text), C17 (performance rewrites keep per-row values / filter decisions)
// and C18 (partition pruning never changes results). All three are differential
// runtime monitors: the real arc query endpoint (in-process node built by vfix) against
// a private reference DuckDB with one view per stored measurement.
package main

import (
	"flag"
	"fmt"
	"os"

	"github.com/basekick-labs/arc/internal/zzverif/vlib"
)

func main() {
	prop := flag.String("prop", "", "property id")
	flag.String("replay", "", "replay file")
	script := flag.String("script", "", "probe script (JSON) for -prop probe")
	flag.Parse()
	switch *prop {
	case "C16":
		vlib.Main("C16", "exploration", checkC16)
	case "C17":
		vlib.Main("C17", "exploration", checkC17)
	case "C18":
		vlib.Main("C18", "exploration", checkC18)
	case "probe":
		runProbe(*script)
	default:
		fmt.Println("unknown property", *prop)
		os.Exit(2)
	}
}
