package main

import (
	"fmt"
	"math/rand/v2"
	"os"
	"regexp"
	"sort"
	"strings"
	"sync"

	"github.com/basekick-labs/arc/internal/zzverif/vlib"
)

// ===================== C16: query answers match DuckDB for the same SQL text =====================

var c16Strings = []string{"", "a b", "it's", "MiXed", "from here", "x--y", "/*z*/", "alpha", "axe", "xxpadxx", " lead", "e", "select", "join me"}

// c16Write ingests one round of rows for every (database, measurement). withExtra adds
// the column `extra`, which therefore is missing from the files of other rounds.
func c16Write(e *env, rng *rand.Rand, rid *int64, round int, withExtra bool, measurements []string) error {
	for _, db := range c16DBs {
		var sb strings.Builder
		n := 0
		for _, m := range measurements {
			for day := 1; day <= 2; day++ {
				for _, h := range []int{0, 6, 12, 18} {
					if round > 0 && rng.IntN(3) != 0 && !(day == 1 && h == 0) { // later rounds touch only some partitions
						continue
					}
					for k := 0; k < 2+rng.IntN(3); k++ {
						*rid++
						us := utc(2024, 5, day, h, rng.IntN(60), rng.IntN(60)) + *rid // unique timestamps
						fmt.Fprintf(&sb, "%s,host=h%d", m, rng.IntN(5))
						if rng.IntN(3) != 0 {
							fmt.Fprintf(&sb, ",region=%s", []string{"eu", "us", "ap"}[rng.IntN(3)])
						}
						fmt.Fprintf(&sb, " rid=%di", *rid)
						if rng.IntN(5) != 0 {
							fmt.Fprintf(&sb, ",vi=%di", rng.IntN(100))
						}
						if rng.IntN(5) != 0 {
							fmt.Fprintf(&sb, ",vf=%s", fmtFloatLP(float64(rng.IntN(160)-80)/4))
						}
						if rng.IntN(4) != 0 {
							fmt.Fprintf(&sb, `,s="%s"`, lpEscStr(c16Strings[rng.IntN(len(c16Strings))]))
						}
						if rng.IntN(4) != 0 {
							fmt.Fprintf(&sb, ",ok=%v", rng.IntN(2) == 0)
						}
						if rng.IntN(3) != 0 {
							fmt.Fprintf(&sb, ",LoadAvg=%s", fmtFloatLP(float64(rng.IntN(64))/4))
						}
						if withExtra && (rng.IntN(4) != 0 || k == 0) {
							fmt.Fprintf(&sb, ",extra=%di", rng.IntN(10))
						}
						fmt.Fprintf(&sb, " %d\n", us)
						n++
					}
				}
			}
		}
		if err := e.write(db, []byte(sb.String()), n); err != nil {
			return err
		}
	}
	return nil
}

func c16Setup(c *vlib.Ctx, w int) (*env, bool) {
	rng := c.Rand(fmt.Sprintf("c16-data-%d", w))
	e, err := newEnv()
	if err != nil {
		c.Inconclusive("node: " + err.Error())
		return nil, false
	}
	rid := int64(0)
	for round := 0; round < 3; round++ {
		if err := c16Write(e, rng, &rid, round, round == 1, c16Measurements); err != nil {
			c.Inconclusive(err.Error())
			e.close()
			return nil, false
		}
		if !e.flush() { // a flush between rounds: files with different column sets
			c.Inconclusive("flush watchdog")
			e.close()
			return nil, false
		}
	}
	// the additional mixed-case measurements of the "mixed-case names" family come from their
	// own stream and are written afterwards, so the data of cpu/mem/NetIO (and with it the
	// random family) is the same as without them
	rngMC := c.Rand(fmt.Sprintf("c16-data-mc-%d", w))
	for round := 0; round < 2; round++ {
		if err := c16Write(e, rngMC, &rid, round, round == 1, c16ExtraMixedCase); err != nil {
			c.Inconclusive(err.Error())
			e.close()
			return nil, false
		}
		if !e.flush() {
			c.Inconclusive("flush watchdog")
			e.close()
			return nil, false
		}
	}
	if err := e.defineRefs("default", "db2"); err != nil {
		c.Inconclusive("reference: " + err.Error())
		e.close()
		return nil, false
	}
	_, got, err := refQuery(e.refs[""], `SELECT (SELECT count(*) FROM cpu) + (SELECT count(*) FROM mem) + (SELECT count(*) FROM "NetIO") + (SELECT count(*) FROM db2.cpu) + (SELECT count(*) FROM db2.mem) + (SELECT count(*) FROM db2."NetIO") + (SELECT count(*) FROM "HostInfo") + (SELECT count(*) FROM db2."HostInfo")`)
	if err != nil || len(got) != 1 || got[0][0].(int64) != rid {
		c.Inconclusive(fmt.Sprintf("dataset not stored as generated: %v %v want %d", err, got, rid))
		e.close()
		return nil, false
	}
	c.Count("dataset_rows", rid)
	c.Count("dataset_files", int64(countParquet(e.n.Root)))
	return e, true
}

func checkC16(c *vlib.Ctx) {
	// vlib keeps ONE rule text: the three families are joined into it
	c.Rule("per worker: cpu, mem, NetIO (+ HostInfo for the mixed-case family) in databases default and db2 (nullable int/float/string/bool columns, nullable tag, mixed-case column, a column present only in some files, 2 days x 4 hours, 3 flush rounds). Queries from a grammar: scalar/aggregate projections, SELECT *, DISTINCT, WHERE (comparisons, IN, LIKE, IS NULL, BETWEEN, OR, IN/scalar/EXISTS subqueries), GROUP BY/HAVING, total ORDER BY (+LIMIT), CTEs (named like measurements, shadowing the measurement they read, column lists, quoted names, chained), derived tables, every join kind (inner/left/right/full/cross/semi/anti/natural/asof/lateral/comma, ON/USING), set operations, EXTRACT/SUBSTRING/TRIM/POSITION bodies, literals containing SQL text, quoted and db-qualified names, random keyword case, whitespace (newline/tab/CRLF) and comments between any two tokens; each text is sent under several header settings and repeated (transform cache). Non-trivial = accepted by arc and compared." +
		" || family 'mixed-case names' (enumerated, identical at every seed, 292 queries dealt to the workers): measurement NetIO | HostInfo x bare | double-quoted x no header | x-arc-database default | db2 x position: FROM (plain, aliased + WHERE), right-hand side of each of 13 join kinds, both sides, NATURAL self join, CTE + JOIN (CTE left / CTE right reading the measurement / join inside the CTE body), derived table + JOIN, IN-subquery, two joins; plus db2.M and \"default\".M in FROM and JOIN position; plain style (single spaces, no comments, varying keyword case)" +
		fmt.Sprintf(" || family 'FROM-carrying builtins' (enumerated, identical at every seed, %d queries dealt to the workers): %d bodies of EXTRACT / SUBSTRING(.. FROM .. [FOR ..]) / TRIM([BOTH|LEADING|TRAILING] [x] FROM y) / OVERLAY(.. PLACING .. FROM ..) - plain; nested call / CAST / parenthesised arithmetic / another such builtin / a literal holding a parenthesis BEFORE the body's FROM; column | literal | call | CAST | parenthesised | column-led expression AFTER it and after FOR; wrapped in a call; two builtins in one expression - x unqualified | alias-qualified columns (t.col) x no header | x-arc-database x position: select list | WHERE | select list of a derived table; over cpu / mem; plain style without comments; a text the reference DuckDB rejects is discarded", len(genFBCases()), len(fbBodies)))
	c.Assume("reference = the same SQL text on a private DuckDB (same library version) whose views \"db\".\"m\" (and bare m for the header / default database) read exactly the stored Parquet files with union_by_name")
	c.Assume("measurement names are referenced in their stored case (arc's storage is case-sensitive by design); database `default` is written quoted when explicit because DEFAULT is reserved in DuckDB; float data are multiples of 0.25 so aggregates do not depend on summation order; SELECT * compares columns by name")
	if c.Replay != "" {
		replayC16(c)
		return
	}
	workers := 4
	n := c.N(85, 1200)
	var wg sync.WaitGroup
	for w := 0; w < workers; w++ {
		wg.Add(1)
		go func(w int) {
			defer wg.Done()
			c16Worker(c, w, n)
		}(w)
	}
	wg.Wait()
	floor := c.N(700, 3400)
	if n := c.Counter("fb_compared"); n < int64(len(genFBCases()))*2/3 {
		// the enumerated FROM-carrying-builtin family must have been compared, not just sent
		c.Extra("fb_family_floor_missed", fmt.Sprintf("only %d of %d FROM-carrying-builtin queries were compared", n, len(genFBCases())))
		floor = 1 << 30
	}
	c.Floor(floor)
}

// hdrPlan: the header settings one text is sent under, in order. Bare-name texts are
// meaningful under every setting (and must not leak between them through the transform
// cache); db-qualified texts only without a header (arc rejects them with one).
func hdrPlan(rng *rand.Rand, q qspec, bare bool) []string {
	if !bare {
		if rng.IntN(6) == 0 {
			return []string{"", "db2"} // the second one must be rejected by validation
		}
		return []string{""}
	}
	switch rng.IntN(4) {
	case 0:
		return []string{q.Hdr}
	case 1:
		return []string{q.Hdr, "", q.Hdr}
	case 2:
		return []string{"db2", "default", "db2"}
	}
	return []string{"", "db2", "", "default"}
}

func bareOnly(q qspec) bool {
	for _, f := range q.features() {
		if f == "db-qualified" {
			return false
		}
	}
	return true
}

func c16Worker(c *vlib.Ctx, w, n int) {
	e, ok := c16Setup(c, w)
	if !ok {
		return
	}
	defer e.close()
	c16MixedCaseFamily(c, e, w, 4)
	c16FromBodyFamily(c, e, w, 4)
	rng := c.Rand(fmt.Sprintf("c16-q-%d", w))
	g := &c16Gen{rng: rng}
	shrunk := 0
	seen := map[string]int{}
	for i := 0; i < n; i++ {
		q := g.gen()
		text := q.render()
		byName := q.Sel.Star
		for pi, hdr := range hdrPlan(rng, q, bareOnly(q)) {
			o := e.run(text, hdr, q.Ordered, byName)
			c.Eval()
			c.Count("queries_sent", 1)
			c.Count("arc_ms_total", o.ArcMS)
			c.Count("ref_ms_total", o.RefMS)
			if o.Log.CacheHit && pi > 0 {
				c.Count("transform_cache_hits_on_repeat", 1)
			}
			switch o.Kind {
			case "rejected":
				c.Count("queries_rejected_by_validation", 1)
				continue
			case "inconclusive":
				c.Inconclusive(o.Why)
				continue
			case "both_fail":
				c.Count("queries_both_fail", 1)
				if os.Getenv("VERIF_DEBUG") != "" {
					fmt.Printf("BOTHFAIL %q\n   arc: %s\n   ref: %s\n", text, strings.ReplaceAll(o.Arc.Err, "\n", " "), strings.ReplaceAll(o.Ref.Err, "\n", " "))
				}
				continue
			}
			c.Count("queries_compared", 1)
			if o.Ref.NRows > 0 {
				c.Count("compared_with_rows", 1)
			}
			for _, f := range q.features() {
				if strings.HasPrefix(f, "join:") || f == "cte" || f == "derived-table" || f == "subquery-in-where" || strings.HasPrefix(f, "fn:") || strings.HasPrefix(f, "setop") || f == "comma-join" || f == "lateral" {
					c.Count("shape_"+f, 1)
				}
			}
			c.Nontrivial(text + "|" + hdr)
			if w == 0 && i < 8 && pi == 0 {
				c.Sample(map[string]any{"sql": text, "hdr": hdr, "rows": o.Ref.NRows, "kind": o.Kind})
			}
			if o.Kind == "equal" {
				continue
			}
			c.Count("mismatches", 1)
			qh := q
			qh.Hdr = hdr
			prov := c16Classify(e, qh, o) + "|" + fmt.Sprint(q.Style.Comments == 3)
			if seen[prov] >= 1 || shrunk >= 9 {
				c.Count("mismatches_not_shrunk_same_provisional_class", 1)
				continue
			}
			seen[prov]++
			shrunk++
			mq, mhdr, mo := c16Shrink(c, e, q, hdr, o)
			kind := "arc fails where DuckDB answers"
			switch mo.Why {
			case "arc succeeds, reference fails":
				kind = "arc answers where DuckDB fails"
			case "arc fails, reference succeeds":
			default:
				kind = "silently different result"
			}
			sig := c16Classify(e, mq, mo) + ": " + kind
			if strings.HasPrefix(sig, "stored-measurement reference left unrewritten") && mq.Style.Comments != 0 {
				// a FROM-carrying builtin plus comments: when the same query without its
				// comments is answered correctly, the comment inside the function body is what
				// derails the function-body scan (e.g. a parenthesis inside the comment)
				hasFn := false
				for _, f := range mq.features() {
					if strings.HasPrefix(f, "fn:") {
						hasFn = true
					}
				}
				if hasFn {
					nc := mq
					nc.Style.Comments = 0
					if co := e.run(nc.render(), nc.Hdr, nc.Ordered, nc.Sel.Star); co.Kind != "mismatch" {
						sig = "comment inside an EXTRACT/SUBSTRING/TRIM body: the function-body scan does not end at the function's closing parenthesis and later measurement references are left unrewritten: " + kind
					}
				}
			}
			c.Violation(sig, map[string]any{"worker": w, "original_sql": text, "original_hdr": hdr, "original_outcome": o, "hdr_sequence_position": pi,
				"minimal_sql": mq.render(), "minimal_hdr": mhdr, "minimal_spec": mq, "minimal_features": mq.features(), "minimal_outcome": mo})
		}
	}
}

var reQualified = regexp.MustCompile(`"?\w+"?\s*\.\s*"?[\w-]+"?`) // db.measurement / alias.column
var rePathCall = regexp.MustCompile(`read_parquet\([^)]*\)`)
var rePath = regexp.MustCompile(`read_parquet\(\[?'([^']*)'`)
var reRefKeyword = regexp.MustCompile(`(?i)\b(FROM|JOIN)\s+read_parquet\(\[?'([^']*)'`)

// c16Stored returns the stored measurement whose name equals name ignoring letter case ("" = none).
func c16Stored(name string) string {
	for _, m := range c16Measurements {
		if strings.EqualFold(m, name) {
			return m
		}
	}
	for _, m := range c16ExtraMixedCase {
		if strings.EqualFold(m, name) {
			return m
		}
	}
	return ""
}

// refDBs lists the database of every stored-measurement reference ("" = bare name).
func (s *selSpec) refDBs() []string {
	if s == nil {
		return nil
	}
	var out []string
	items := func(its []item) {
		for _, it := range its {
			for _, t := range it {
				if t.Kind == 2 {
					out = append(out, t.DB)
				}
			}
		}
	}
	src := func(x srcSpec) {
		if x.Tab != nil {
			out = append(out, x.Tab.DB)
		}
		out = append(out, x.Sub.refDBs()...)
	}
	for _, w := range s.With {
		out = append(out, w.Body.refDBs()...)
	}
	src(s.From)
	for _, j := range s.Joins {
		src(j.Src)
	}
	items(s.Proj)
	items(s.Where)
	out = append(out, s.Right.refDBs()...)
	return out
}

func (s *selSpec) tableRefs() (n int, ctes []string) {
	if s == nil {
		return 0, nil
	}
	cnt := func(items []item) {
		for _, it := range items {
			for _, t := range it {
				if t.Kind == 2 {
					n++
				}
			}
		}
	}
	src := func(x srcSpec) {
		if x.Tab != nil {
			n++
		}
		if x.Sub != nil {
			k, _ := x.Sub.tableRefs()
			n += k
		}
	}
	for _, w := range s.With {
		ctes = append(ctes, strings.Trim(w.Name, `"`))
		k, _ := w.Body.tableRefs()
		n += k
	}
	src(s.From)
	for _, j := range s.Joins {
		src(j.Src)
		cnt([]item{j.Cond})
	}
	cnt(s.Proj)
	cnt(s.Where)
	if s.Right != nil {
		k, _ := s.Right.tableRefs()
		n += k
	}
	return n, ctes
}

// c16Classify names the root-cause class of a mismatch. It looks at the (shrunk) query
// specification and at arc's logged converted SQL: which identifiers were turned into
// storage paths and how many stored-measurement references were rewritten. The log is
// used for naming only; the verdict was already made on the rows.
func c16Classify(e *env, q qspec, o outcome) string {
	conv := o.Log.Converted
	expected, ctes := q.Sel.tableRefs()
	valid, bogus := 0, []string{}
	gotDB := map[string]int{}
	wrongCase := map[string]string{} // path component -> stored mixed-case measurement it equals except for letter case
	for _, m := range rePath.FindAllStringSubmatch(conv, -1) {
		rel := strings.TrimPrefix(m[1], e.n.Root+"/")
		parts := strings.Split(rel, "/")
		if len(parts) >= 2 && (parts[0] == "default" || parts[0] == "db2") && c16Stored(parts[1]) != "" && c16Stored(parts[1]) == parts[1] {
			valid++
			gotDB[parts[0]]++
		} else if len(parts) >= 2 {
			bogus = append(bogus, parts[1])
			if st := c16Stored(parts[1]); st != "" && st != strings.ToLower(st) && (parts[0] == "default" || parts[0] == "db2") {
				wrongCase[parts[1]] = st
			}
		}
	}
	has := map[string]bool{}
	for _, f := range q.features() {
		has[f] = true
	}
	hdr := ""
	if q.Hdr != "" {
		hdr = " (with x-arc-database)"
	}
	text := reQualified.ReplaceAllString(q.render(), " ")
	stripped := reQualified.ReplaceAllString(rePathCall.ReplaceAllString(conv, "read_parquet()"), " ")
	cteRewritten := false
	for _, n := range ctes {
		re := regexp.MustCompile(`(?i)\b` + regexp.QuoteMeta(n) + `\b`)
		if len(re.FindAllString(stripped, -1)) < len(re.FindAllString(text, -1)) {
			cteRewritten = true
		}
	}
	if q.Style.Comments == 3 {
		return "comment containing a quote character (' or \") hides the SQL after it from the rewriter"
	}
	for _, b := range bogus {
		if strings.EqualFold(b, "FROM") && q.Hdr != "" {
			return "header fast path: the first 'from ' substring lies inside an identifier (alias ending in _from), the keyword FROM itself is rewritten as a measurement"
		}
		if strings.EqualFold(b, "LATERAL") {
			return "JOIN LATERAL followed by a newline before '(': the keyword LATERAL is rewritten to a storage path"
		}
	}
	if cteRewritten {
		if q.Hdr != "" && q.Style.WS != 0 {
			return "header path: WITH followed by tab/newline is not recognised, CTE references are rewritten to storage paths"
		}
		return "CTE reference rewritten to a storage path" + hdr
	}
	if len(wrongCase) > 0 {
		pos := map[string]bool{}
		for _, m := range reRefKeyword.FindAllStringSubmatch(conv, -1) {
			parts := strings.Split(strings.TrimPrefix(m[2], e.n.Root+"/"), "/")
			if len(parts) >= 2 && wrongCase[parts[1]] != "" {
				pos[strings.ToUpper(m[1])] = true
			}
		}
		var ps []string
		for k := range pos {
			ps = append(ps, k)
		}
		sort.Strings(ps)
		if len(ps) == 0 {
			ps = []string{"table"}
		}
		return "mixed-case measurement name in " + strings.Join(ps, "/") + " position: the storage path is built with another letter case than the stored name, the measurement reads as empty" + hdr
	}
	if q.Style.DotSpace {
		return "whitespace around the dot of db.measurement: reference not rewritten (or the database name rewritten as a measurement)" + hdr
	}
	if len(bogus) > 0 {
		for f := range has {
			if strings.HasPrefix(f, "fn:") && q.Style.Comments != 0 {
				return "comment inside an EXTRACT/SUBSTRING/TRIM body: the FROM keyword of the function is not masked and its argument is rewritten to a storage path"
			}
		}
		return "identifier that is not a table reference rewritten to a storage path" + hdr
	}
	if valid == expected {
		flat := strings.ToUpper(strings.Join(strings.Fields(conv), " "))
		for _, j := range q.Sel.Joins {
			if j.Src.Tab != nil && !j.Lateral && j.Kind != "JOIN" && j.Kind != "," && !strings.Contains(flat, j.Kind+" READ_PARQUET(") {
				return "join operator changed by the rewrite: the modifier of `" + j.Kind + "` is missing in front of the rewritten table"
			}
		}
		wantDB := map[string]int{}
		for _, d := range q.Sel.refDBs() {
			if d == "" {
				d = q.Hdr
			}
			if d == "" {
				d = "default"
			}
			wantDB[d]++
		}
		if wantDB["default"] != gotDB["default"] || wantDB["db2"] != gotDB["db2"] {
			if o.Log.CacheHit {
				return "bare measurement name resolved to another database: transformed SQL served from the cache entry of another x-arc-database value"
			}
			return "measurement reference resolved to another database than the header/default database"
		}
	}
	if valid < expected {
		switch {
		case has["comma-join"]:
			return "comma join: the table after the comma is not rewritten"
		case has["cte-reads-the-measurement-it-shadows"]:
			return "CTE named like the measurement it reads: the inner measurement reference is not rewritten"
		case q.Hdr != "" && q.Style.WS != 0 && q.Style.Comments == 0 && !strings.ContainsAny(text, `'"`):
			return "header fast path: FROM/JOIN delimited by tab/newline is not recognised by the single-table test, later table references are not rewritten"
		}
		return "stored-measurement reference left unrewritten" + hdr + " [" + strings.Join(q.features(), ", ") + "]"
	}
	return "other [" + strings.Join(q.features(), ", ") + "]"
}

// c16Shrink greedily simplifies the query while the same kind of mismatch persists:
// style (comments, whitespace, case, quoting, header) first, then structure.
func c16Shrink(c *vlib.Ctx, e *env, q qspec, hdr string, o outcome) (qspec, string, outcome) {
	cur, curO := q, o
	cur.Hdr = hdr
	budget := 60
	for improved := true; improved && budget > 0; {
		improved = false
		for _, cand := range cur.candidates() {
			if budget <= 0 {
				break
			}
			budget--
			co := e.run(cand.render(), cand.Hdr, cand.Ordered, cand.Sel.Star)
			c.Count("shrink_queries", 1)
			if co.Kind == "mismatch" && (co.Why == curO.Why || (co.arcAll != nil && curO.arcAll != nil)) {
				cur, curO, improved = cand, co, true
				break
			}
		}
	}
	return cur, cur.Hdr, curO
}

func replayC16(c *vlib.Ctx) {
	var d struct {
		Worker     int    `json:"worker"`
		MinimalSQL string `json:"minimal_sql"`
		MinimalHdr string `json:"minimal_hdr"`
		Spec       qspec  `json:"minimal_spec"`
	}
	if err := vlib.LoadReplay(c.Replay, &d); err != nil {
		c.Inconclusive("replay: " + err.Error())
		return
	}
	e, ok := c16Setup(c, d.Worker)
	if !ok {
		return
	}
	defer e.close()
	o := e.run(d.MinimalSQL, d.MinimalHdr, d.Spec.Ordered, d.Spec.Sel != nil && d.Spec.Sel.Star)
	c.Eval()
	fmt.Printf("REPLAY sql=%s\n hdr=%q kind=%s why=%s\n converted=%s\n arc: ok=%v err=%s rows=%v\n ref: ok=%v err=%s rows=%v\n", d.MinimalSQL, d.MinimalHdr, o.Kind, o.Why, o.Log.Converted, o.Arc.OK, o.Arc.Err, o.Arc.Rows, o.Ref.OK, o.Ref.Err, o.Ref.Rows)
	if o.Kind == "mismatch" {
		c.Violation("replayed query still differs: "+o.Why, map[string]any{"sql": d.MinimalSQL, "hdr": d.MinimalHdr, "outcome": o})
	}
	c.Nontrivial("replay-a")
	c.Nontrivial("replay-b")
}
