package main

import (
	"fmt"
	"math/rand/v2"
	"os"
	"path/filepath"
	"sort"
	"strconv"
	"strings"
	"sync"
	"time"

	"github.com/basekick-labs/arc/internal/zzverif/vfix"
	"github.com/basekick-labs/arc/internal/zzverif/vlib"
)

// ===================== C18: partition pruning never changes results =====================
//
// The reference engine reads EVERY file of each measurement (views over all files); arc
// prunes the file list from the query's time predicates. Same text on both; equal row
// multisets required. A query counts only when arc's log shows that a pruned path list
// was actually used for at least one table reference.

type c18Row struct {
	Rid    int64
	M      string // measurement
	DB     string
	US     int64
	Host   string
	V      float64
	Uptime int64
	Event  int64 // event_time (µs), rendered as 'YYYY-MM-DD HH:MM:SS' string column
	Peer   int64 // rid of a row of default.sensor (join key)
}

type c18Data struct {
	T0   time.Time // wall clock at dataset creation, truncated to the hour (+20 min)
	Base time.Time // midnight (UTC) of T0's day; the main data cluster is Base-13d .. Base-9d
	// default.mx: ten consecutive days Base-26d .. Base-17d, day k compacted into a day-level
	// file iff mxLayout[k]=='1'. The pattern 0001011100 contains every combination of
	// hour-partitioned / compacted days for windows of 2 and of 3 consecutive days.
	MxDays []time.Time
	Rows   []c18Row
	ByID   map[int64]c18Row
}

const hourUS = int64(3600_000000)
const dayUS = 24 * hourUS

// The main cluster sits a few days before the wall clock (not at a fixed date) because
// arc's pruner generates and globs one path per hour between the predicate and now+24h:
// a fixed old date would make every lower-bound-only query walk tens of thousands of paths.
var c18Days = []int{-13, -12, -11, -10, -9} // days relative to Base
var c18Hours = []int{0, 10, 11, 23}

const mxLayout = "0001011100"
const mxFirstDay = -26 // relative to Base

// mxDayIndex returns the index of the mx day holding instant us, or -1.
func (d *c18Data) mxDayIndex(us int64) int {
	k := int((us - d.dayUS(mxFirstDay)) / dayUS)
	if us < d.dayUS(mxFirstDay) || k >= len(mxLayout) {
		return -1
	}
	return k
}

func (d *c18Data) dayUS(rel int) int64 { return d.Base.UnixMicro() + int64(rel)*dayUS }

// relative rows (hours from T0) and NOW()-interval pool; every row stays >= 6h away from
// every now-derived boundary (see checkC18 assumptions).
var c18RelHours = []int64{-2400, -1080, -480, -96, -30, -6, 6, 30, 96, 480}
var c18NowIntervals = []string{"1 hour", "12 hours", "2 days", "5 days", "1 week", "30 days", "1 month", "2 months", "3 months", "1 HOUR", "720 hours"}

func genC18Data(rng *rand.Rand) *c18Data {
	d := &c18Data{ByID: map[int64]c18Row{}}
	d.T0 = time.Now().UTC().Truncate(time.Hour).Add(20 * time.Minute)
	d.Base = d.T0.Truncate(24 * time.Hour)
	rid := int64(0)
	var sensorRids []int64
	add := func(db, m string, us int64) {
		rid++
		r := c18Row{Rid: rid, M: m, DB: db, US: us, Host: fmt.Sprintf("h%d", rng.IntN(4)), V: float64(rng.IntN(400)-200) / 4,
			Uptime: int64(rng.IntN(100000)), Event: us - int64(rng.IntN(40))*dayUS - int64(rng.IntN(86400))*1000000}
		if db == "default" && m == "sensor" {
			sensorRids = append(sensorRids, rid)
		} else if len(sensorRids) > 0 {
			r.Peer = sensorRids[rng.IntN(len(sensorRids))]
		}
		d.Rows = append(d.Rows, r)
		d.ByID[rid] = r
	}
	// default.mx: one row in (almost) every hour of ten days, plus rows exactly on the hour
	// boundaries used by the range generator. The hours within 2 h of the wall clock's
	// time-of-day stay empty, so that NOW() - INTERVAL 'n days' boundaries are >= 2 h away
	// from every row.
	h0 := d.T0.Hour()
	for k := range mxLayout {
		d.MxDays = append(d.MxDays, d.Base.AddDate(0, 0, mxFirstDay+k))
		for h := 0; h < 24; h++ {
			if dist := (h - h0 + 24) % 24; dist <= 2 || dist >= 22 {
				continue
			}
			base := d.dayUS(mxFirstDay+k) + int64(h)*hourUS
			add("default", "mx", base+1+rng.Int64N(hourUS-1))
			if h == 0 || h == 2 || h == 13 || h == 22 {
				add("default", "mx", base)
			}
		}
	}
	for _, tbl := range [][2]string{{"default", "sensor"}, {"default", "daily"}, {"db2", "sensor"}} {
		db, m := tbl[0], tbl[1]
		for _, day := range c18Days {
			for _, h := range c18Hours {
				base := d.dayUS(day) + int64(h)*hourUS
				for _, off := range []int64{0, 1, 1800_000000, hourUS - 1} {
					if off == 0 || rng.IntN(4) != 0 {
						add(db, m, base+off)
					}
				}
				if rng.IntN(2) == 0 {
					add(db, m, base+rng.Int64N(hourUS))
				}
			}
		}
		// before 2020 / before 1970 / far future
		for _, us := range []int64{utc(2015, 6, 1, 10, 0, 0), utc(2015, 6, 1, 10, 59, 59), utc(2019, 12, 31, 23, 30, 0), utc(1999, 12, 31, 23, 59, 59),
			utc(1969, 12, 31, 12, 0, 0), utc(2020, 1, 10, 10, 0, 0), utc(2020, 1, 10, 10, 59, 59), utc(2020, 1, 10, 11, 0, 0),
			utc(2040, 1, 1, 0, 0, 0), utc(2040, 1, 1, 5, 30, 0)} {
			add(db, m, us)
		}
		// around the wall clock
		for _, h := range c18RelHours {
			add(db, m, d.T0.UnixMicro()+h*hourUS)
			if rng.IntN(2) == 0 {
				add(db, m, d.T0.UnixMicro()+h*hourUS+int64(rng.IntN(1200))*1000000)
			}
		}
	}
	return d
}

func (r c18Row) lp() string {
	ev := time.UnixMicro(r.Event).UTC().Format("2006-01-02 15:04:05")
	return fmt.Sprintf(`%s,host=%s rid=%di,v=%s,uptime=%di,event_time="%s",peer=%di %d`, r.M, r.Host, r.Rid, fmtFloatLP(r.V), r.Uptime, ev, r.Peer, r.US)
}

// compactDay merges the hour files of <db>/<m>/YYYY/MM/DD into one day-level file (the
// layout arc's daily compaction produces: a Parquet file directly in the day directory)
// and removes the hour directories listed in dropHours (nil = all).
func compactDay(ref *vfix.Ref, root, db, m string, day time.Time, keepHours map[string]bool) error {
	dir := filepath.Join(root, db, m, day.Format("2006"), day.Format("01"), day.Format("02"))
	ents, err := os.ReadDir(dir)
	if err != nil {
		return err
	}
	var files, rmDirs []string
	for _, e := range ents {
		if !e.IsDir() || keepHours[e.Name()] {
			continue
		}
		fs, _ := filepath.Glob(filepath.Join(dir, e.Name(), "*.parquet"))
		files = append(files, fs...)
		rmDirs = append(rmDirs, filepath.Join(dir, e.Name()))
	}
	if len(files) == 0 {
		return nil
	}
	q := make([]string, len(files))
	for i, f := range files {
		q[i] = "'" + f + "'"
	}
	out := filepath.Join(dir, fmt.Sprintf("%s_%s_000000_0_b0_daily.parquet", m, day.Format("20060102")))
	if _, err := ref.DB.Exec(fmt.Sprintf("COPY (SELECT * FROM read_parquet([%s], union_by_name=true) ORDER BY time) TO '%s' (FORMAT PARQUET)", strings.Join(q, ","), out)); err != nil {
		return err
	}
	for _, d := range rmDirs {
		if err := os.RemoveAll(d); err != nil {
			return err
		}
	}
	return nil
}

func c18Setup(c *vlib.Ctx, w int) (*env, *c18Data, bool) {
	rng := c.Rand(fmt.Sprintf("c18-data-%d", w))
	e, err := newEnv()
	if err != nil {
		c.Inconclusive("node: " + err.Error())
		return nil, nil, false
	}
	fail := func(msg string) (*env, *c18Data, bool) {
		c.Inconclusive(msg)
		e.close()
		return nil, nil, false
	}
	d := genC18Data(rng)
	byDB := map[string]*strings.Builder{"default": {}, "db2": {}}
	cnt := map[string]int{}
	for _, r := range d.Rows {
		byDB[r.DB].WriteString(r.lp() + "\n")
		cnt[r.DB]++
	}
	for db, sb := range byDB {
		if err := e.write(db, []byte(sb.String()), cnt[db]); err != nil {
			return fail(err.Error())
		}
	}
	if !e.flush() {
		return fail("flush watchdog")
	}
	// day-level layout for default.daily: fully compacted days, a day with a compacted file
	// plus a late hour file, untouched hour-level days; old and future days compacted too
	tmp, err := vfix.NewRef()
	if err != nil {
		return fail(err.Error())
	}
	day := func(y int, m time.Month, dd int) time.Time { return time.Date(y, m, dd, 0, 0, 0, 0, time.UTC) }
	plan := []struct {
		d    time.Time
		keep map[string]bool
	}{
		{d.Base.AddDate(0, 0, -13), nil}, {d.Base.AddDate(0, 0, -12), nil}, {d.Base.AddDate(0, 0, -11), nil}, {d.Base.AddDate(0, 0, -10), map[string]bool{"23": true}},
		{day(2015, 6, 1), nil}, {day(2040, 1, 1), nil}, {d.T0.Add(-96 * time.Hour).Truncate(24 * time.Hour), nil}, {d.T0.Add(96 * time.Hour).Truncate(24 * time.Hour), nil},
	}
	for _, p := range plan {
		if err := compactDay(tmp, e.n.Root, "default", "daily", p.d, p.keep); err != nil {
			tmp.Close()
			return fail("compactDay: " + err.Error())
		}
		c.Count("day_level_files_created", 1)
	}
	for k, bit := range mxLayout {
		if bit != '1' {
			continue
		}
		if err := compactDay(tmp, e.n.Root, "default", "mx", d.MxDays[k], nil); err != nil {
			tmp.Close()
			return fail("compactDay mx: " + err.Error())
		}
		c.Count("day_level_files_created", 1)
	}
	tmp.Close()
	if err := e.defineRefs("default", "db2"); err != nil {
		return fail("reference: " + err.Error())
	}
	// sanity: every generated row is stored exactly once with its timestamp
	for _, tbl := range [][3]string{{"", "sensor", "default"}, {"", "daily", "default"}, {"", "mx", "default"}, {"db2", "sensor", "db2"}} {
		_, got, err := refQuery(e.refs[tbl[0]], "SELECT rid, epoch_us(time) FROM "+tbl[1]+" ORDER BY rid")
		if err != nil {
			return fail("sanity: " + err.Error())
		}
		n := 0
		for _, r := range d.Rows {
			if r.DB == tbl[2] && r.M == tbl[1] {
				n++
			}
		}
		if len(got) != n {
			return fail(fmt.Sprintf("dataset %s.%s stored %d rows, generated %d", tbl[2], tbl[1], len(got), n))
		}
		for _, g := range got {
			if d.ByID[g[0].(int64)].US != g[1].(int64) {
				return fail("dataset row stored with another timestamp")
			}
		}
	}
	c.Count("dataset_rows", int64(len(d.Rows)))
	c.Count("dataset_files", int64(countParquet(e.n.Root)))
	return e, d, true
}

// ---------- predicate leaves ----------

// tleaf is a leaf of the WHERE tree. Kind (used in signatures):
//
//	TL  time >/>= literal      TU  time </<= literal     TB  time BETWEEN a AND b
//	NL  time >/>= NOW()±I      NU  time </<= NOW()±I
//	XL/XU  the same comparison on event_time (a column whose name ends in "time")
//	UP  uptime compared with a number        RV  literal on the left (reversed operands)
//	TY  typed literal: TIMESTAMP '...' / CAST('...' AS TIMESTAMP)       P  other predicate
//	TC  '<literal with UTC offset>'::TIMESTAMP (postfix cast of an offset literal)
type tleaf struct {
	Kind string `json:"kind"`
	Col  string `json:"col"`
	Op   string `json:"op"`
	US   int64  `json:"instant_us,omitempty"`
	US2  int64  `json:"instant2_us,omitempty"`
	Fmt  int    `json:"fmt"`
	Ival string `json:"interval,omitempty"`
	Sign string `json:"sign,omitempty"`
	Now  string `json:"now,omitempty"`
	Off  int    `json:"offset_hours,omitempty"` // TC: UTC offset written in the literal
	Text string `json:"text"`
}

var litFormats = []string{"2006-01-02 15:04:05", "2006-01-02T15:04:05Z", "2006-01-02T15:04:05+02:00", "2006-01-02 15:04", "2006-01-02", "2006-01-02T15:04:05.000Z", "2006-01-02 15:04:05.000000"}

func fmtLit(us int64, f int) string {
	t := time.UnixMicro(us).UTC()
	if f == 3 && t.Second() != 0 { // minute precision only for whole minutes
		f = 0
	}
	if f == 4 && (t.Hour() != 0 || t.Minute() != 0 || t.Second() != 0) { // date only for midnight
		f = 0
	}
	if t.Nanosecond() != 0 && f != 6 { // sub-second instants keep their microseconds
		if f == 2 {
			return t.In(time.FixedZone("", 2*3600)).Format("2006-01-02T15:04:05.000000+02:00")
		}
		if f == 1 || f == 5 {
			return t.Format("2006-01-02T15:04:05.000000Z")
		}
		return t.Format("2006-01-02 15:04:05.000000")
	}
	if f == 2 {
		return t.In(time.FixedZone("", 2*3600)).Format(litFormats[2])
	}
	return t.Format(litFormats[f])
}

func (l *tleaf) render(alias string) string {
	col := l.Col
	if alias != "" && !strings.Contains(col, `"`) {
		col = alias + "." + col
	}
	switch l.Kind {
	case "TL", "TU", "XL", "XU":
		return fmt.Sprintf("%s %s '%s'", col, l.Op, fmtLit(l.US, l.Fmt))
	case "TB":
		return fmt.Sprintf("%s BETWEEN '%s' AND '%s'", col, fmtLit(l.US, l.Fmt), fmtLit(l.US2, l.Fmt))
	case "NL", "NU":
		return fmt.Sprintf("%s %s %s %s INTERVAL '%s'", col, l.Op, l.Now, l.Sign, l.Ival)
	case "RV":
		return fmt.Sprintf("'%s' %s %s", fmtLit(l.US, l.Fmt), l.Op, col)
	case "TY":
		if l.Fmt%2 == 0 {
			return fmt.Sprintf("%s %s TIMESTAMP '%s'", col, l.Op, fmtLit(l.US, 0))
		}
		return fmt.Sprintf("%s %s CAST('%s' AS TIMESTAMP)", col, l.Op, fmtLit(l.US, 0))
	case "TC":
		// the literal names instant l.US with an explicit offset and is cast with ::TIMESTAMP
		t := time.UnixMicro(l.US).In(time.FixedZone("", l.Off*3600))
		return fmt.Sprintf("%s %s '%s'::TIMESTAMP", col, l.Op, t.Format("2006-01-02T15:04:05-07:00"))
	case "UP":
		return fmt.Sprintf("%s %s %s", col, l.Op, l.Text)
	}
	if alias != "" {
		return alias + "." + l.Text
	}
	return l.Text
}

func c18Instants(d *c18Data, rng *rand.Rand) int64 {
	switch k := rng.IntN(20); {
	case k < 10:
		day := c18Days[rng.IntN(len(c18Days))]
		h := []int{0, 0, 9, 10, 10, 11, 12, 23}[rng.IntN(8)]
		off := []int64{0, 0, 0, 1800_000000, 1, hourUS - 1, 1_000000}[rng.IntN(7)]
		return d.dayUS(day) + int64(h)*hourUS + off
	case k < 12:
		return d.dayUS(-8 + rng.IntN(3))
	case k < 15:
		// 2020-01: the pruner substitutes 2020-01-01 for a missing lower bound; an upper
		// bound shortly after it keeps the generated path list short
		return []int64{utc(2020, 1, 1, 0, 0, 0), utc(2019, 12, 31, 23, 30, 0), utc(2020, 1, 10, 10, 0, 0), utc(2020, 1, 10, 11, 0, 0), utc(2020, 1, 11, 0, 0, 0), utc(2020, 2, 1, 0, 0, 0), utc(2000, 1, 1, 0, 0, 0), utc(1970, 1, 1, 0, 0, 0), utc(1960, 1, 1, 0, 0, 0)}[rng.IntN(9)]
	case k < 16:
		return []int64{utc(2040, 1, 1, 0, 0, 0), utc(2040, 1, 1, 5, 30, 0), utc(2040, 1, 2, 0, 0, 0), utc(2039, 12, 31, 0, 0, 0)}[rng.IntN(4)]
	default:
		// literal instants around the wall clock (literals: no clock dependence)
		h := []int64{-2000, -200, -48, -15, 15, 48, 200}[rng.IntN(7)]
		return d.T0.Truncate(time.Hour).UnixMicro() + h*hourUS
	}
}

func genLeaf(d *c18Data, rng *rand.Rand) *tleaf {
	tcol := []string{"time", "time", "time", "time", `"time"`, "TIME"}[rng.IntN(6)]
	lo := []string{">=", ">"}[rng.IntN(2)]
	hi := []string{"<", "<="}[rng.IntN(2)]
	f := rng.IntN(len(litFormats))
	switch k := rng.IntN(100); {
	case k < 22:
		return &tleaf{Kind: "TL", Col: tcol, Op: lo, US: c18Instants(d, rng), Fmt: f}
	case k < 44:
		return &tleaf{Kind: "TU", Col: tcol, Op: hi, US: c18Instants(d, rng), Fmt: f}
	case k < 52:
		a, b := c18Instants(d, rng), c18Instants(d, rng)
		if a > b {
			a, b = b, a
		}
		return &tleaf{Kind: "TB", Col: tcol, US: a, US2: b, Fmt: f}
	case k < 64:
		l := &tleaf{Col: tcol, Ival: c18NowIntervals[rng.IntN(len(c18NowIntervals))], Sign: []string{"-", "-", "-", "+"}[rng.IntN(4)],
			Now: []string{"NOW()", "now()", "CURRENT_TIMESTAMP", "NOW( )"}[rng.IntN(4)]}
		if rng.IntN(3) != 0 {
			l.Kind, l.Op = "NL", lo
		} else {
			l.Kind, l.Op = "NU", hi
		}
		return l
	case k < 72:
		if rng.IntN(2) == 0 {
			return &tleaf{Kind: "XL", Col: "event_time", Op: lo, US: c18Instants(d, rng), Fmt: []int{0, 4}[rng.IntN(2)]}
		}
		return &tleaf{Kind: "XU", Col: "event_time", Op: hi, US: c18Instants(d, rng), Fmt: []int{0, 4}[rng.IntN(2)]}
	case k < 77:
		return &tleaf{Kind: "UP", Col: "uptime", Op: []string{">", ">=", "<", "<="}[rng.IntN(4)], Text: []string{"50000", "'50000'", "1000", "'99000'"}[rng.IntN(4)]}
	case k < 81:
		return &tleaf{Kind: "RV", Col: tcol, Op: []string{"<=", "<", ">", ">="}[rng.IntN(4)], US: c18Instants(d, rng), Fmt: f}
	case k < 85:
		return &tleaf{Kind: "TC", Col: tcol, Op: []string{">=", ">", "<", "<="}[rng.IntN(4)], US: c18Instants(d, rng) / 1000000 * 1000000, Off: []int{2, -5, 9}[rng.IntN(3)]}
	case k < 90:
		return &tleaf{Kind: "TY", Col: tcol, Op: []string{">=", ">", "<", "<="}[rng.IntN(4)], US: c18Instants(d, rng), Fmt: rng.IntN(2)}
	}
	return &tleaf{Kind: "P", Text: []string{"host = 'h1'", "host <> 'h0'", "v > 0.5", "v <= 10", "rid % 3 = 0", "host IN ('h1', 'h2')"}[rng.IntN(6)]}
}

// wnode: WHERE tree over tleaf.
type wnode struct {
	Op   string   `json:"op,omitempty"`
	Kids []*wnode `json:"kids,omitempty"`
	Leaf *tleaf   `json:"leaf,omitempty"`
}

func (p *wnode) sql(parent int, alias string) string {
	var s string
	switch p.Op {
	case "":
		return p.Leaf.render(alias)
	case "NOT":
		s = "NOT " + p.Kids[0].sqlParen(alias)
	default:
		parts := make([]string, len(p.Kids))
		for i, k := range p.Kids {
			parts[i] = k.sql(prec(p.Op), alias)
		}
		s = strings.Join(parts, " "+p.Op+" ")
	}
	if prec(p.Op) < parent {
		return "(" + s + ")"
	}
	return s
}

// NOT always parenthesises its operand: NOT (time >= '...') is the usual spelling.
func (p *wnode) sqlParen(alias string) string {
	return "(" + p.sql(0, alias) + ")"
}

func (p *wnode) shape(parent int) string {
	var s string
	switch p.Op {
	case "":
		return p.Leaf.Kind
	case "NOT":
		s = "NOT (" + p.Kids[0].shape(0) + ")"
	default:
		parts := make([]string, len(p.Kids))
		for i, k := range p.Kids {
			parts[i] = k.shape(prec(p.Op))
		}
		s = strings.Join(parts, " "+p.Op+" ")
	}
	if prec(p.Op) < parent {
		return "(" + s + ")"
	}
	return s
}

func (p *wnode) clone() *wnode {
	c := &wnode{Op: p.Op}
	if p.Leaf != nil {
		l := *p.Leaf
		c.Leaf = &l
	}
	for _, k := range p.Kids {
		c.Kids = append(c.Kids, k.clone())
	}
	return c
}

func (p *wnode) leaves() []*tleaf {
	if p.Op == "" {
		return []*tleaf{p.Leaf}
	}
	var out []*tleaf
	for _, k := range p.Kids {
		out = append(out, k.leaves()...)
	}
	return out
}

func (p *wnode) hasOp(op string) bool {
	if p.Op == op {
		return true
	}
	for _, k := range p.Kids {
		if k.hasOp(op) {
			return true
		}
	}
	return false
}

func (p *wnode) shrinkCandidates() []*wnode {
	var out []*wnode
	for i := range p.Kids {
		out = append(out, p.Kids[i].clone())
	}
	for i := range p.Kids {
		if (p.Op == "AND" || p.Op == "OR") && len(p.Kids) > 2 {
			c := p.clone()
			c.Kids = append(c.Kids[:i:i], c.Kids[i+1:]...)
			out = append(out, c)
		}
		for _, sub := range p.Kids[i].shrinkCandidates() {
			c := p.clone()
			c.Kids[i] = sub
			out = append(out, c)
		}
	}
	if p.Op == "" && p.Leaf.Fmt != 0 && (p.Leaf.Kind == "TL" || p.Leaf.Kind == "TU" || p.Leaf.Kind == "TB" || p.Leaf.Kind == "RV") {
		c := p.clone()
		c.Leaf.Fmt = 0
		out = append(out, c)
	}
	if p.Op == "" && p.Leaf.Col != "time" && (strings.EqualFold(p.Leaf.Col, "time") || p.Leaf.Col == `"time"`) {
		c := p.clone()
		c.Leaf.Col = "time"
		out = append(out, c)
	}
	return out
}

func genWhere(d *c18Data, rng *rand.Rand, depth int) *wnode {
	if depth == 0 || rng.IntN(3) == 0 {
		return &wnode{Leaf: genLeaf(d, rng)}
	}
	switch k := rng.IntN(10); {
	case k < 1:
		return &wnode{Op: "NOT", Kids: []*wnode{genWhere(d, rng, depth-1)}}
	case k < 7:
		n := &wnode{Op: "AND"}
		for i := 0; i < 2+rng.IntN(2); i++ {
			n.Kids = append(n.Kids, genWhere(d, rng, depth-1))
		}
		return n
	default:
		n := &wnode{Op: "OR"}
		for i := 0; i < 2; i++ {
			n.Kids = append(n.Kids, genWhere(d, rng, depth-1))
		}
		return n
	}
}

// ---------- queries ----------

type c18Q struct {
	Shape  string `json:"shape"` // single | agg | join | leftjoin | subq_outer_pruned | subq_inner_pruned | derived | union | comment
	Table  string `json:"table"` // sensor | daily
	Table2 string `json:"table2,omitempty"`
	Ref    string `json:"ref_style"` // how the table is named: bare | qdefault | db2
	Alias  string `json:"alias,omitempty"`
	Where  *wnode `json:"where"`
	Where2 *wnode `json:"where2,omitempty"`
	Tail   string `json:"tail,omitempty"`
	Hdr    string `json:"hdr"`
	SQL    string `json:"sql"`
}

func (q *c18Q) tbl(name string) string {
	switch q.Ref {
	case "qdefault":
		return `"default".` + name
	case "db2":
		return "db2." + name
	}
	return name
}

func (q *c18Q) render() {
	t := q.tbl(q.Table)
	switch q.Shape {
	case "single":
		from := t
		if q.Alias != "" {
			from += " " + q.Alias
		}
		q.SQL = "SELECT rid FROM " + from + " WHERE " + q.Where.sql(0, q.Alias) + q.Tail
	case "comment":
		q.SQL = "SELECT rid FROM " + t + " WHERE host <> 'zz' /* not: " + q.Where.sql(0, "") + " */"
	case "agg":
		q.SQL = "SELECT host, count(*) AS c, min(rid) AS lo, max(rid) AS hi FROM " + t + " WHERE " + q.Where.sql(0, "") + " GROUP BY host"
	case "join", "leftjoin":
		j := "JOIN"
		if q.Shape == "leftjoin" {
			j = "LEFT JOIN"
		}
		q.SQL = "SELECT a.rid, b.rid AS brid FROM " + q.tbl("sensor") + " a " + j + " " + q.tbl(q.Table2) + " b ON b.peer = a.rid WHERE " + q.Where.sql(0, "a") + q.Tail
	case "subq_outer_pruned": // predicate lives in the subquery; the outer table is pruned by it too
		q.SQL = "SELECT rid FROM " + q.tbl(q.Table2) + " WHERE peer IN (SELECT rid FROM " + q.tbl("sensor") + " WHERE " + q.Where.sql(0, "") + ")"
	case "subq_inner_pruned": // predicate on the outer table; the subquery's table is pruned by it too
		q.SQL = "SELECT rid FROM " + q.tbl("sensor") + " WHERE rid IN (SELECT peer FROM " + q.tbl(q.Table2) + ") AND " + q.Where.sql(2, "")
	case "derived":
		q.SQL = "SELECT t.rid FROM (SELECT * FROM " + t + " WHERE " + q.Where.sql(0, "") + ") t WHERE t.v > -100" + q.Tail
	case "union":
		q.SQL = "SELECT rid FROM " + t + " WHERE " + q.Where.sql(0, "") + " UNION ALL SELECT rid FROM " + q.tbl(q.Table2) + " WHERE " + q.Where2.sql(0, "")
	}
}

func genC18Q(d *c18Data, rng *rand.Rand) c18Q {
	var q c18Q
	q.Table = []string{"sensor", "sensor", "daily"}[rng.IntN(3)]
	switch rng.IntN(6) {
	case 0:
		q.Hdr = "default"
	case 1:
		q.Hdr, q.Table = "db2", "sensor"
	case 2:
		q.Ref = "qdefault"
	case 3:
		q.Ref, q.Table = "db2", "sensor"
	}
	q.Where = genWhere(d, rng, 2)
	onlyDB2 := q.Hdr == "db2" || q.Ref == "db2"
	switch k := rng.IntN(100); {
	case k < 55 || onlyDB2:
		q.Shape = "single"
		if rng.IntN(4) == 0 {
			q.Alias = "s"
		}
		q.Tail = []string{"", "", "", " ORDER BY rid", " ORDER BY rid DESC LIMIT 7", " LIMIT 100000"}[rng.IntN(6)]
		if k >= 45 && k < 55 {
			q.Shape, q.Alias, q.Tail = "agg", "", ""
		}
	case k < 65:
		q.Shape, q.Table2 = []string{"join", "leftjoin"}[rng.IntN(2)], []string{"daily", "sensor"}[rng.IntN(2)]
		q.Tail = []string{"", " ORDER BY a.rid, b.rid"}[rng.IntN(2)]
	case k < 73:
		q.Shape, q.Table2 = "subq_outer_pruned", "daily"
	case k < 81:
		q.Shape, q.Table2 = "subq_inner_pruned", "daily"
	case k < 89:
		q.Shape = "derived"
		q.Tail = []string{"", " ORDER BY t.rid"}[rng.IntN(2)]
	case k < 96:
		q.Shape, q.Table2 = "union", []string{"daily", "sensor"}[rng.IntN(2)]
		q.Where2 = genWhere(d, rng, 1)
	default:
		q.Shape = "comment"
	}
	if q.Shape == "join" || q.Shape == "leftjoin" || strings.HasPrefix(q.Shape, "subq") {
		q.Table = "sensor"
	}
	if (q.Shape == "join" || q.Shape == "leftjoin" || strings.HasPrefix(q.Shape, "subq") || q.Shape == "union" || q.Shape == "comment") && rng.IntN(10) < 6 {
		// a plain two-sided range strictly inside the data (correct on one table alone), so that
		// a difference can only come from its effect on the OTHER table reference
		lo := d.dayUS(c18Days[rng.IntN(3)]) + 5*hourUS
		hi := lo + int64(1+rng.IntN(2))*dayUS
		q.Where = &wnode{Op: "AND", Kids: []*wnode{{Leaf: &tleaf{Kind: "TL", Col: "time", Op: ">=", US: lo}}, {Leaf: &tleaf{Kind: "TU", Col: "time", Op: "<", US: hi}}}}
		if q.Where2 != nil {
			q.Where2 = &wnode{Leaf: &tleaf{Kind: "P", Text: "host <> 'h0'"}}
		}
	}
	q.render()
	return q
}

// genMxQueries enumerates two-sided ranges over default.mx that cross 1..3 UTC midnights:
// every window of the ten-day layout (24 windows, i.e. every combination of hour-partitioned
// and compacted days for 2 and 3 consecutive days) x start time-of-day x end time-of-day
// (5 x 5: end earlier than, equal to and later than the start, on and off hour boundaries).
// The 600 combinations are dealt round-robin to the workers; `extra` random single-sided,
// BETWEEN, NOW()-relative and offset-literal variants per worker follow.
func genMxQueries(d *c18Data, rng *rand.Rand, w, workers, extra int) []c18Q {
	tods := []int64{2 * hourUS, 2*hourUS + 1800_000000, 13 * hourUS, 22 * hourUS, 22*hourUS + 1800_000000}
	leaf := func(kind, op string, us int64) *wnode {
		return &wnode{Leaf: &tleaf{Kind: kind, Col: "time", Op: op, US: us, Fmt: []int{0, 0, 1, 3}[rng.IntN(4)]}}
	}
	mk := func(where *wnode) c18Q {
		q := c18Q{Shape: "single", Table: "mx", Where: where}
		switch rng.IntN(4) {
		case 0:
			q.Hdr = "default"
		case 1:
			q.Ref = "qdefault"
		}
		q.Tail = []string{"", "", " ORDER BY rid"}[rng.IntN(3)]
		q.render()
		return q
	}
	var out []c18Q
	idx := 0
	for m := 1; m <= 3; m++ { // midnights crossed
		for i := 0; i+m < len(mxLayout); i++ {
			for _, st := range tods {
				for _, et := range tods {
					idx++
					lo, hi := d.dayUS(mxFirstDay+i)+st, d.dayUS(mxFirstDay+i+m)+et
					if idx%workers != w {
						rng.IntN(2) // keep the streams of all workers aligned
						continue
					}
					out = append(out, mk(&wnode{Op: "AND", Kids: []*wnode{leaf("TL", []string{">=", ">"}[rng.IntN(2)], lo), leaf("TU", "<", hi)}}))
				}
			}
		}
	}
	days := func(us int64) int { return int((d.T0.UnixMicro() - us) / dayUS) } // whole days back from now
	for k := 0; k < extra; k++ {
		i := rng.IntN(len(mxLayout) - 1)
		m := 1 + rng.IntN(min(3, len(mxLayout)-1-i))
		lo, hi := d.dayUS(mxFirstDay+i)+tods[rng.IntN(5)], d.dayUS(mxFirstDay+i+m)+tods[rng.IntN(5)]
		var wh *wnode
		switch rng.IntN(7) {
		case 0: // single-sided lower bound (range runs to now+24h over all later days)
			wh = leaf("TL", ">=", lo)
		case 1: // single-sided upper bound
			wh = leaf("TU", "<", hi)
		case 2:
			wh = &wnode{Leaf: &tleaf{Kind: "TB", Col: "time", US: lo, US2: hi + 1800_000000}}
		case 3: // both bounds relative to NOW(): whole days, so the boundaries fall into the empty hours
			kd, jd := days(lo)+1, days(hi)
			if jd >= kd {
				jd = kd - 1
			}
			wh = &wnode{Op: "AND", Kids: []*wnode{
				{Leaf: &tleaf{Kind: "NL", Col: "time", Op: ">=", Now: "NOW()", Sign: "-", Ival: fmt.Sprintf("%d days", kd)}},
				{Leaf: &tleaf{Kind: "NU", Col: "time", Op: "<", Now: "NOW()", Sign: "-", Ival: fmt.Sprintf("%d days", jd)}}}}
		case 4: // literal start, NOW()-relative end
			wh = &wnode{Op: "AND", Kids: []*wnode{leaf("TL", ">=", lo),
				{Leaf: &tleaf{Kind: "NU", Col: "time", Op: "<", Now: "CURRENT_TIMESTAMP", Sign: "-", Ival: fmt.Sprintf("%d days", max(days(hi), 17))}}}}
		case 5: // NOW()-relative start, literal end
			wh = &wnode{Op: "AND", Kids: []*wnode{
				{Leaf: &tleaf{Kind: "NL", Col: "time", Op: ">", Now: "now()", Sign: "-", Ival: fmt.Sprintf("%d hours", 24*(days(lo)+1))}}, leaf("TU", "<", hi)}}
		default: // offset literal cast with ::TIMESTAMP on the upper / lower bound
			off := []int{2, -5, 9}[rng.IntN(3)]
			if rng.IntN(2) == 0 {
				wh = &wnode{Op: "AND", Kids: []*wnode{leaf("TL", ">=", lo), {Leaf: &tleaf{Kind: "TC", Col: "time", Op: "<", US: hi, Off: off}}}}
			} else {
				wh = &wnode{Op: "AND", Kids: []*wnode{{Leaf: &tleaf{Kind: "TC", Col: "time", Op: ">=", US: lo, Off: off}}, leaf("TU", "<", hi)}}
			}
		}
		out = append(out, mk(wh))
	}
	return out
}

func (q *c18Q) ordered() bool { return strings.Contains(q.Tail, "ORDER BY") }

// ---------- the check ----------

func checkC18(c *vlib.Ctx) {
	c.Rule("per worker: default.sensor and db2.sensor in hour-level files, default.daily with compacted day-level files (whole days, a day with a day file plus a late hour file, hour-only days); default.mx: ten consecutive days (26..17 days ago), one row per hour, each day hour-partitioned or compacted following the pattern 0001011100 (every combination for 2 and 3 consecutive days); every two-sided range over mx crossing 1..3 midnights for 5x5 start/end times-of-day (end earlier/equal/later, on and off hour boundaries) is enumerated (600 ranges dealt to the workers) plus single-sided, BETWEEN, NOW()-relative and '<offset literal>'::TIMESTAMP variants; rows exactly on hour boundaries (±1µs), in 2015/2019/2020-01/1999/1969, in 2040 and around the wall clock (main cluster: 13..9 days before today). Queries: WHERE trees (AND/OR/NOT, depth<=2) over time >/>=/</<= literal (7 literal formats incl. Z and +02:00), BETWEEN, NOW()/CURRENT_TIMESTAMP ± INTERVAL, typed literals, reversed operands, event_time / uptime predicates, other predicates; as single-table, aggregate, join, left join, IN-subquery (either side), derived table, UNION ALL and comment shapes; bare, \"default\".m and db2.m names, with and without x-arc-database. A query is non-trivial (counted) only if arc's log shows a pruned path list was used.")
	c.Rule("family 'remote storage' (30 cases per worker in the quick tier): PartitionPruner.OptimizeTablePath over an s3:// table path with a fault-injecting wrapper around the node's LocalBackend as storage backend / DirectoryLister, fresh pruner per case; tables mx / daily / sensor / db2.sensor, two-sided literal ranges crossing 1-3 midnights; fault plans: none | ListDirectories of the day parent (hour partitions) once / while armed | of the month parent (day directories) once / while armed | both once | file LIST of a day-level path once; steps: Q1 with the fault armed, Q2 (another text), store recovers, Q3 (another text), Q1 again; the returned path list is mapped to the local tree and read by the reference DuckDB, rows must equal the unpruned read of the same WHERE; non-trivial = pruned step whose unpruned result has rows")
	c.Assume("reference = same SQL text on a private DuckDB whose views read ALL files of each measurement")
	c.Assume("pruned / not pruned is read from arc's own log events ('Partition pruning: Using …'); the pruner's counters are not exported through the handler")
	c.Assume("remote family: observed at the pruner's exported API (the query endpoint runs on local storage); that arc turns DuckDB's 'No files found' for an unreadable path list into an empty result is read from the handler's code")
	c.Assume("NOW()-relative predicates: every stored row is >= 6 h away from every now±interval boundary in the pool (months: >= 8 days), so the two engines' clocks cannot disagree on membership; day files are written with DuckDB COPY into the day directory, the layout arc's daily compaction uses")
	if c.Replay != "" {
		replayC18(c)
		return
	}
	workers := 4
	n := c.N(200, 12000)
	var wg sync.WaitGroup
	for w := 0; w < workers; w++ {
		wg.Add(1)
		go func(w int) {
			defer wg.Done()
			c18Worker(c, w, workers, n, c.N(40, 2000), c.N(30, 1500))
		}(w)
	}
	wg.Wait()
	c.Floor(c.N(120, 8000))
}

func c18Worker(c *vlib.Ctx, w, workers, n, mxExtra, remoteN int) {
	e, d, ok := c18Setup(c, w)
	if !ok {
		return
	}
	defer e.close()
	rng := c.Rand(fmt.Sprintf("c18-q-%d", w))
	shrunk := map[string]int{}
	nShrunk, nShrunkMulti, nShrunkMx := 0, 0, 0
	var queries []c18Q
	queries = append(queries, genMxQueries(d, c.Rand(fmt.Sprintf("c18-mx-%d", w)), w, workers, mxExtra)...)
	c.Count("mx_range_queries", int64(len(queries)))
	for i := 0; i < n; i++ {
		queries = append(queries, genC18Q(d, rng))
	}
	for _, q := range queries {
		o := e.run(q.SQL, q.Hdr, q.ordered(), false)
		c.Eval()
		c.Count("queries_generated", 1)
		c.Count("arc_ms_total", o.ArcMS)
		c.Count("ref_ms_total", o.RefMS)
		switch o.Kind {
		case "rejected":
			c.Count("queries_rejected_by_validation", 1)
			continue
		case "inconclusive":
			c.Inconclusive(o.Why)
			continue
		case "both_fail":
			c.Count("queries_both_fail", 1)
			continue
		}
		c.Count("queries_compared", 1)
		if os.Getenv("VERIF_DEBUG") != "" && q.Shape != "single" && q.Shape != "agg" {
			fmt.Printf("DBG %s kind=%s pruned=%d arc=%d ref=%d :: %s\n", q.Shape, o.Kind, o.Log.PrunedRefs, o.Arc.NRows, o.Ref.NRows, q.SQL)
		}
		if o.Log.PrunedRefs > 0 {
			c.Count("queries_pruned", 1)
			c.Count("pruned_shape_"+q.Shape, 1)
			c.Count("pruned_partition_paths", int64(o.Log.Partitions))
			c.Nontrivial(q.SQL + "|" + q.Hdr)
			if q.Table == "mx" {
				c.Count("mx_range_queries_pruned", 1)
			}
			if w == 0 {
				c.Sample(map[string]any{"sql": q.SQL, "hdr": q.Hdr, "pruned_table_refs": o.Log.PrunedRefs, "partition_paths": o.Log.Partitions, "rows": o.Ref.NRows})
			}
		} else {
			c.Count("queries_not_pruned", 1)
		}
		if o.Kind == "equal" {
			if o.Log.PrunedRefs > 0 && o.Ref.NRows > 0 {
				c.Count("pruned_equal_with_rows", 1)
			}
			continue
		}
		c.Count("mismatches", 1)
		c.Count("mismatch_shape_"+q.Shape, 1)
		key := c18ProvKey(q)
		multi := q.Shape != "single" && q.Shape != "agg" && q.Shape != "derived"
		mx := q.Table == "mx"
		if mx {
			c.Count("mx_range_mismatches", 1)
		}
		if shrunk[key] >= 2 || (mx && nShrunkMx >= 10) || (!mx && !multi && nShrunk >= 18) || (multi && nShrunkMulti >= 12) {
			c.Count("mismatches_not_shrunk_same_provisional_class", 1)
			continue
		}
		shrunk[key]++
		switch {
		case mx:
			nShrunkMx++
		case multi:
			nShrunkMulti++
		default:
			nShrunk++
		}
		mq, mo := c18Shrink(c, e, q, o)
		for _, sig := range c18Signatures(d, mq, mo) {
			c.Violation(sig, map[string]any{"worker": w, "t0": d.T0.Format(time.RFC3339), "original": q, "original_outcome": o, "minimal": mq, "minimal_outcome": mo,
				"minimal_where_shape": mq.Where.shape(0), "missing_rows": c18RowInfo(d, mo.Ref.Rows), "extra_rows": c18RowInfo(d, mo.Arc.Rows)})
		}
	}
	c18RemoteFamily(c, e, d, w, remoteN)
}

// c18ProvKey is a coarse class of the unshrunk query, used only to spread the shrinking
// budget over different kinds of failures.
func c18ProvKey(q c18Q) string {
	k := q.Shape
	if q.Table == "mx" {
		k = "mx"
	}
	if q.Where.hasOp("OR") {
		k += "|OR"
	}
	if q.Where.hasOp("NOT") {
		k += "|NOT"
	}
	kinds := map[string]bool{}
	for _, l := range q.Where.leaves() {
		kinds[l.Kind] = true
	}
	if kinds["XL"] || kinds["XU"] {
		k += "|X"
	}
	if kinds["TC"] {
		k += "|TC"
	}
	if !q.Where.hasOp("OR") && !q.Where.hasOp("NOT") {
		if kinds["TL"] || kinds["NL"] {
			k += "|lower"
		}
		if kinds["TU"] || kinds["NU"] {
			k += "|upper"
		}
		if kinds["TB"] {
			k += "|between"
		}
	}
	return k
}

func c18Shrink(c *vlib.Ctx, e *env, q c18Q, o outcome) (c18Q, outcome) {
	cur, curO := q, o
	budget := 30
	try := func(cand c18Q) bool {
		cand.render()
		budget--
		co := e.run(cand.SQL, cand.Hdr, cand.ordered(), false)
		c.Count("shrink_queries", 1)
		if co.Kind == "mismatch" {
			if os.Getenv("VERIF_DEBUG") != "" {
				fmt.Printf("SHRINK %s -> %s :: %s\n", cur.Shape, cand.Shape, cand.SQL)
			}
			cur, curO = cand, co
			return true
		}
		return false
	}
	// A multi-table shape whose WHERE is harmless on each table alone is kept as it is
	// (its WHERE is frozen): shrinking the WHERE could slide into a different, single-table
	// defect and hide the cross-table one.
	essential := false
	if cur.Shape != "single" {
		found := false
		for _, t := range []string{cur.Table, cur.Table2} {
			if t == "" || found {
				continue
			}
			for _, wh := range []*wnode{cur.Where, cur.Where2} {
				if wh == nil || found {
					continue
				}
				s := cur
				s.Shape, s.Table, s.Table2, s.Where, s.Where2, s.Tail, s.Alias = "single", t, "", wh, nil, "", ""
				if try(s) {
					found = true
				}
			}
		}
		essential = !found
	}
	for improved := true; improved && budget > 0; {
		improved = false
		var cands []c18Q
		if cur.Tail != "" {
			s := cur
			s.Tail = ""
			cands = append(cands, s)
		}
		if cur.Alias != "" && cur.Shape == "single" {
			s := cur
			s.Alias = ""
			cands = append(cands, s)
		}
		if cur.Hdr == "default" {
			s := cur
			s.Hdr = ""
			cands = append(cands, s)
		}
		if cur.Ref == "qdefault" {
			s := cur
			s.Ref = ""
			cands = append(cands, s)
		}
		if !essential {
			for _, t := range cur.Where.shrinkCandidates() {
				s := cur
				s.Where = t
				cands = append(cands, s)
			}
		}
		if cur.Where2 != nil && !essential {
			for _, t := range cur.Where2.shrinkCandidates() {
				s := cur
				s.Where2 = t
				cands = append(cands, s)
			}
		}
		for _, cand := range cands {
			if budget <= 0 {
				break
			}
			if try(cand) {
				improved = true
				break
			}
		}
	}
	return cur, curO
}

// c18RowInfo decodes rid cells of sample rows into the generated rows (time, table).
func c18RowInfo(d *c18Data, rows [][]string) []map[string]any {
	var out []map[string]any
	for _, r := range rows {
		if len(r) == 0 || len(out) >= 12 {
			break
		}
		id, err := strconv.ParseInt(r[0], 10, 64)
		if err != nil {
			continue
		}
		if g, ok := d.ByID[id]; ok {
			out = append(out, map[string]any{"rid": id, "table": g.DB + "." + g.M, "time": time.UnixMicro(g.US).UTC().Format(time.RFC3339Nano), "event_time": time.UnixMicro(g.Event).UTC().Format("2006-01-02 15:04:05")})
		}
	}
	return out
}

// c18Signatures classifies the minimal failing query by root-cause class (one signature
// per class seen among the lost rows); the concrete shape is in the detail.
func c18Signatures(d *c18Data, q c18Q, o outcome) []string {
	if o.arcAll == nil {
		return []string{fmt.Sprintf("pruned query: %s; shape=%s WHERE `%s`", o.Why, q.Shape, q.Where.shape(0))}
	}
	switch q.Shape {
	case "single":
	case "comment":
		return []string{"pruning changes the result: a time comparison that only occurs inside a SQL comment is used as the pruning range"}
	case "union":
		return []string{"pruning changes the result: UNION - one range is extracted from the text of both arms and applied to both tables"}
	case "join", "leftjoin", "subq_inner_pruned", "subq_outer_pruned":
		return []string{"pruning changes the result: the time range written for one table reference also restricts the files of the other table of a join / IN-subquery"}
	default:
		return []string{"pruning changes the result: the time range taken from one WHERE clause also restricts the files of another table reference (shape=" + q.Shape + ")"}
	}
	kinds := map[string]bool{}
	for _, l := range q.Where.leaves() {
		kinds[l.Kind] = true
	}
	if q.Where.hasOp("OR") {
		return []string{"pruning changes the result: WHERE with OR - the range extracted from one disjunct restricts the files for the whole query"}
	}
	if q.Where.hasOp("NOT") {
		return []string{"pruning changes the result: WHERE with NOT around a time range - files are restricted to the negated range"}
	}
	if kinds["TC"] {
		return []string{"pruning changes the result: offset literal cast with ::TIMESTAMP - DuckDB drops the UTC offset of the literal, the pruner shifts the range by it"}
	}
	if kinds["XL"] || kinds["XU"] {
		return []string{"pruning changes the result: a comparison on event_time (column name ending in 'time') is taken as a range on the partition time"}
	}
	var ks []string
	for k := range kinds {
		ks = append(ks, k)
	}
	sort.Strings(ks)
	// last calendar day touched by the literal upper bound (for the mx classification)
	lastDay := -1
	for _, l := range q.Where.leaves() {
		end := int64(-1)
		if l.Kind == "TU" {
			end = l.US
		} else if l.Kind == "TB" {
			end = l.US2
		}
		if end >= 0 {
			lastDay = max(lastDay, d.mxDayIndex(end-1))
		}
	}
	hasLower := kinds["TL"] || kinds["NL"] || kinds["TB"]
	hasUpper := kinds["TU"] || kinds["NU"] || kinds["TB"]
	regions := map[string]bool{}
	now := time.Now().UTC()
	for _, r := range o.Ref.Rows { // rows only the reference returned
		id, err := strconv.ParseInt(r[0], 10, 64)
		g, ok := d.ByID[id]
		if err != nil || !ok {
			continue
		}
		t := time.UnixMicro(g.US).UTC()
		reg := fmt.Sprintf("conjunction of {%s}: rows inside the pruned range's neighbourhood are lost", strings.Join(ks, ","))
		switch {
		case t.Before(time.Date(2020, 1, 1, 0, 0, 0, 0, time.UTC)) && !hasLower:
			reg = "no lower time bound: the pruner assumes data starts at 2020-01-01, older rows are lost"
		case t.After(now.Add(23*time.Hour)) && !hasUpper:
			reg = "no upper time bound: the pruner assumes data ends at now+24h, later rows are lost"
		}
		if k := d.mxDayIndex(g.US); g.M == "mx" && k >= 0 && hasLower && hasUpper {
			layout := map[byte]string{'0': "an hour-partitioned", '1': "a compacted (day-file)"}[mxLayout[k]]
			switch {
			case k == lastDay && mxLayout[k] == '1':
				reg = "pruning drops the rows of a compacted day file on the last day of a range that crosses midnight"
			case k == lastDay:
				reg = "two-sided range crossing midnight: rows of " + layout + " last day are lost"
			default:
				reg = "two-sided range crossing midnight: rows of " + layout + " first/middle day are lost"
			}
		}
		for _, l := range q.Where.leaves() {
			if (l.Kind == "TU" && l.Op == "<=" && l.US == g.US) || (l.Kind == "TB" && l.US2 == g.US) {
				if g.US%hourUS == 0 {
					reg = "inclusive upper bound (<= or BETWEEN) exactly on an hour boundary: the hour partition starting at the bound is not read"
				}
			}
		}
		regions[reg] = true
	}
	if len(o.Arc.Rows) > 0 {
		regions[fmt.Sprintf("conjunction of {%s}: arc returns extra rows", strings.Join(ks, ","))] = true
	}
	var rs []string
	for r := range regions {
		if strings.HasPrefix(r, "pruning drops") {
			rs = append(rs, r)
			continue
		}
		rs = append(rs, "pruning changes the result: "+r)
	}
	sort.Strings(rs)
	if len(rs) == 0 {
		rs = []string{fmt.Sprintf("pruning changes the result: conjunction of {%s}", strings.Join(ks, ","))}
	}
	return rs
}

func replayC18(c *vlib.Ctx) {
	var d struct {
		Worker  int         `json:"worker"`
		Minimal c18Q        `json:"minimal"`
		Remote  *remoteCase `json:"remote_case"`
	}
	if err := vlib.LoadReplay(c.Replay, &d); err != nil {
		c.Inconclusive("replay: " + err.Error())
		return
	}
	e, data, ok := c18Setup(c, d.Worker)
	if !ok {
		return
	}
	defer e.close()
	if d.Remote != nil {
		replayC18Remote(c, e, data, *d.Remote)
		c.Nontrivial("replay-a")
		c.Nontrivial("replay-b")
		return
	}
	q := d.Minimal
	q.render() // literals relative to the wall clock are re-rendered for the new T0 only if they were generated from it; stored instants are absolute
	o := e.run(q.SQL, q.Hdr, q.ordered(), false)
	c.Eval()
	fmt.Printf("REPLAY sql=%s\n hdr=%q kind=%s why=%s pruned_refs=%d\n converted=%s\n arc-only=%v\n ref-only=%v\n", q.SQL, q.Hdr, o.Kind, o.Why, o.Log.PrunedRefs, o.Log.Converted, c18RowInfo(data, o.Arc.Rows), c18RowInfo(data, o.Ref.Rows))
	if o.Kind == "mismatch" {
		c.Violation("replayed query still differs: "+strings.Join(c18Signatures(data, q, o), " / "), map[string]any{"sql": q.SQL, "hdr": q.Hdr, "outcome": o})
	}
	c.Nontrivial("replay-a")
	c.Nontrivial("replay-b")
}
