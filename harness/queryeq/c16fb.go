package main

import (
	"regexp"
	"strings"

	"github.com/basekick-labs/arc/internal/zzverif/vlib"
)

// ===================== C16 family "FROM-carrying builtins" =====================
//
// EXTRACT(f FROM x), SUBSTRING(s FROM a [FOR b]), TRIM([BOTH|LEADING|TRAILING] [c] FROM s) and
// OVERLAY(s PLACING r FROM a [FOR b]) carry a FROM keyword that is NOT a table clause. arc's
// table rewriter is driven by `FROM <identifier>`, so every such body FROM has to be recognised
// as belonging to the function whatever else stands in the body. This family ENUMERATES
// (nothing is sampled; the same cases run at every seed, dealt round-robin to the workers)
//
//	body         fbBodies: plain bodies; nested function calls / CAST / parenthesised arithmetic /
//	             another FROM-carrying builtin / a literal containing a parenthesis BEFORE the
//	             body's FROM; column | literal | call | CAST | parenthesised expression |
//	             column-led expression AFTER it (and after FOR); bodies wrapped in a call, two
//	             bodies in one expression, a parenthesis in front of the builtin
//	column refs  unqualified (FROM m) | alias-qualified (FROM m t, every column written t.col)
//	header       none | x-arc-database (db2 / default alternating by body)
//	position     select list | WHERE | select list of a derived table
//
// over the stored measurements cpu / mem, in plain style (single spaces, NO comments - comments
// inside such bodies are separate known findings of the random family; keyword case varies).
// Same oracle as the random family: the same text on arc and on the reference DuckDB; a text the
// reference DuckDB rejects is discarded (counted), never held against arc.

type fbBodyTmpl struct {
	T   string // whitespace-separated tokens; {c} = column c (qualified by the alias when there is one); ALL-CAPS = keyword
	Num bool   // numeric result (picks the comparison used in WHERE position)
}

var fbBodies = []fbBodyTmpl{
	// ---- EXTRACT (nothing but the field name can precede its FROM)
	{"EXTRACT ( hour FROM {time} )", true},
	{"EXTRACT( EPOCH FROM {time} )", true},
	{"extract( dow FROM CAST( {time} AS TIMESTAMP ) )", true},
	{"EXTRACT ( minute FROM ( {time} + INTERVAL 90 MINUTE ) )", true},
	{"EXTRACT ( day FROM {time} ) + abs( {vi} )", true},
	{"abs( {vi} ) + EXTRACT ( hour FROM {time} )", true},
	{"( {vi} % 5 ) * EXTRACT ( hour FROM {time} )", true},
	{"EXTRACT ( year FROM {time} - INTERVAL ( {vi} ) DAY )", true},
	{"EXTRACT ( hour FROM CAST( CAST( {time} AS VARCHAR ) AS TIMESTAMP ) )", true},
	// ---- SUBSTRING
	{"SUBSTRING ( {host} FROM 2 )", false},
	{"SUBSTRING ( {s} FROM 2 FOR 3 )", false},
	{"substring( {host} FROM {vi} )", false},
	{"SUBSTRING ( {host} FROM {vi} % 2 + 1 FOR {vi} % 3 )", false},
	{"SUBSTRING ( upper( {host} ) FROM 2 )", false},
	{"SUBSTRING ( CAST( {vi} AS VARCHAR ) FROM 1 FOR 1 )", false},
	{"SUBSTRING ( CAST( {rid} AS VARCHAR ) FROM {vi} % 3 + 1 )", false},
	{"SUBSTRING ( ( {host} || {s} ) FROM {vi} % 4 FOR 3 )", false},
	{"SUBSTRING( upper( {host} ) FROM {vi} % 2 + 1 FOR {vi} % 3 )", false},
	{"SUBSTRING ( {host} FROM ( {vi} % 2 ) + 1 FOR ( 1 + 1 ) )", false},
	{"SUBSTRING ( {host} FROM length( {host} ) - 1 )", false},
	{"SUBSTRING ( coalesce( {s} , 'none' ) FROM length( {host} ) FOR abs( {vi} ) % 3 )", false},
	{"SUBSTRING ( 'abcdefgh' FROM {vi} % 5 + 1 FOR 2 )", false},
	{"SUBSTRING ( {host} FROM CAST( 2 AS BIGINT ) FOR 1 )", false},
	{"SUBSTRING ( TRIM ( BOTH 'h' FROM {host} ) FROM 1 )", false},
	{"SUBSTRING ( TRIM ( BOTH 'h' FROM {host} ) || 'zz' FROM {vi} % 2 + 1 )", false},
	{"upper( SUBSTRING ( lower( {host} ) FROM {vi} % 2 + 1 ) )", false},
	{"SUBSTRING ( {host} , 2 , 1 ) || SUBSTRING ( lower( {s} ) FROM {rid} % 3 + 1 FOR 2 )", false},
	{"SUBSTRING ( ( {host} ) FROM {rid} % 2 + 1 FOR ( {vi} % 2 ) + 1 )", false},
	// ---- TRIM
	{"TRIM ( BOTH 'h' FROM {host} )", false},
	{"trim( LEADING 'h' FROM {host} )", false},
	{"TRIM ( TRAILING 'e' FROM {s} )", false},
	{"TRIM ( 'x' FROM {s} )", false},
	{"TRIM ( BOTH FROM {s} )", false},
	{"TRIM ( BOTH {host} FROM {s} )", false},
	{"TRIM ( BOTH lower('H') FROM {host} )", false},
	{"TRIM ( LEADING substr( {region} , 1 , 0 ) || 'h' FROM {host} )", false},
	{"TRIM ( TRAILING CAST( {vi} % 5 AS VARCHAR ) FROM {host} )", false},
	{"TRIM( BOTH ( 'h' || '' ) FROM {host} )", false},
	{"TRIM ( BOTH left( {host} , 1 ) FROM {host} || {s} )", false},
	{"TRIM ( BOTH 'h' FROM upper( {host} ) )", false},
	{"TRIM ( BOTH 'x' FROM ( {s} || 'x' ) )", false},
	{"TRIM ( BOTH 'x' FROM 'xxabxx' )", false},
	{"TRIM ( BOTH lower('X') FROM 'xxabxx' )", false},
	{"TRIM ( LEADING chr(104) FROM lower( {host} ) )", false},
	{"TRIM ( BOTH '(' FROM {host} )", false},
	{"TRIM ( BOTH ')' FROM {s} )", false},
	{"length( TRIM ( BOTH lower('H') FROM {host} ) )", true},
	{"TRIM ( BOTH SUBSTRING ( {host} FROM 1 FOR 1 ) FROM {host} )", false},
	{"TRIM ( BOTH lower( SUBSTRING ( {host} FROM 1 FOR 1 ) ) FROM {host} )", false},
	{"TRIM ( LEADING 'h' FROM {host} ) || TRIM ( TRAILING upper('e') FROM {s} )", false},
	{"TRIM ( LEADING lower('H') FROM {host} ) || TRIM ( TRAILING 'e' FROM {s} )", false},
	// ---- OVERLAY (in arc's list of FROM-carrying builtins; the reference DuckDB may not provide it: discarded then)
	{"OVERLAY ( {host} PLACING 'X' FROM 1 )", false},
	{"OVERLAY ( {host} PLACING upper('x') FROM {vi} % 2 + 1 FOR 1 )", false},
	{"OVERLAY ( lower( {s} ) PLACING 'X' FROM {rid} % 3 + 1 )", false},
}

var fbFns = map[string]bool{"EXTRACT": true, "SUBSTRING": true, "TRIM": true, "OVERLAY": true}

// fbBody describes one FROM-carrying builtin call inside a template, from the generator's own
// scan of the template (independent of arc): what precedes and what follows the body's FROM.
type fbBody struct {
	Fn        string `json:"fn"`
	PreParen  bool   `json:"nested_parenthesis_before_from"` // a nested ( ... ) closed between the builtin's '(' and its FROM
	Post      string `json:"after_from"`                     // column | literal | call | cast | parenthesised | nested-builtin
	PostParen bool   `json:"nested_parenthesis_after_from"`
}

var reFBCol = regexp.MustCompile(`\{(\w+)\}`)

func fbAnalyse(tmpl string) []fbBody {
	type frame struct {
		fn      string
		depth   int
		nested  bool
		from    bool
		bodyIdx int
	}
	var frames []frame
	var out []fbBody
	depth, pending := 0, ""
	fields := strings.Fields(tmpl)
	for i, w := range fields {
		if strings.HasPrefix(w, "'") {
			continue
		}
		up := strings.ToUpper(w)
		if name := strings.TrimSuffix(up, "("); fbFns[name] {
			pending = name
		}
		if up == "FROM" && len(frames) > 0 && depth == frames[len(frames)-1].depth && !frames[len(frames)-1].from {
			f := &frames[len(frames)-1]
			f.from = true
			b := fbBody{Fn: f.fn, PreParen: f.nested, Post: "literal"}
			if i+1 < len(fields) {
				nx := fields[i+1]
				nxUp := strings.ToUpper(nx)
				switch {
				case strings.HasPrefix(nx, "{"):
					b.Post = "column"
				case nx == "(":
					b.Post = "parenthesised"
				case fbFns[strings.TrimSuffix(nxUp, "(")]:
					b.Post = "nested-builtin"
				case nxUp == "CAST(":
					b.Post = "cast"
				case strings.HasSuffix(nx, "(") || strings.Contains(nx, "("):
					b.Post = "call"
				}
			}
			f.bodyIdx = len(out)
			out = append(out, b)
			continue
		}
		for _, ch := range w {
			switch ch {
			case '(':
				depth++
				if pending != "" {
					frames = append(frames, frame{fn: pending, depth: depth, bodyIdx: -1})
					pending = ""
				} else {
					for k := range frames {
						if !frames[k].from {
							frames[k].nested = true
						} else if frames[k].bodyIdx >= 0 {
							out[frames[k].bodyIdx].PostParen = true
						}
					}
				}
			case ')':
				depth--
				for len(frames) > 0 && frames[len(frames)-1].depth > depth {
					frames = frames[:len(frames)-1]
				}
			}
		}
	}
	return out
}

// fbItem renders a template for column prefix p into tokens.
func fbItem(tmpl, p string) item {
	return words(reFBCol.ReplaceAllStringFunc(tmpl, func(m string) string { return col(p, m[1:len(m)-1]) }))
}

type fbCase struct {
	Q         qspec
	Pos       string
	Tmpl      string
	Bodies    []fbBody
	Qualified bool
}

func genFBCases() []fbCase {
	var out []fbCase
	idx := 0
	for bi, b := range fbBodies {
		bodies := fbAnalyse(b.T)
		m := []string{"cpu", "mem"}[(bi/2)%2]
		for _, p := range []string{"", "t"} {
			body := fbItem(b.T, p)
			for hm := 0; hm < 2; hm++ {
				hdr := ""
				if hm == 1 {
					hdr = []string{"db2", "default"}[bi%2]
				}
				cmp := "<> 'h1'"
				if b.Num {
					cmp = ">= 1"
				}
				inner := func() *selSpec {
					return &selSpec{Proj: []item{{pl(col(p, "rid"))}, append(append(item{}, body...), kw("AS"), pl("x"))}, From: srcSpec{Tab: ptr(tb("", m)), Alias: p}}
				}
				sels := []struct {
					pos string
					sel *selSpec
				}{
					{"select-list", inner()},
					{"where", &selSpec{Proj: []item{{pl(col(p, "rid"))}, {pl(col(p, "host"))}}, From: srcSpec{Tab: ptr(tb("", m)), Alias: p},
						Where: []item{append(append(item{}, body...), pl(cmp))}}},
					{"derived-table", &selSpec{Proj: []item{{pl("d.rid")}, {pl("d.x")}}, From: srcSpec{Sub: inner(), Alias: "d"}, Where: []item{{pl("d.rid % 2 = 0")}}}},
				}
				for _, s := range sels {
					idx++
					out = append(out, fbCase{Q: qspec{Sel: s.sel, Hdr: hdr, Style: styleSpec{KwCase: idx % 3, Seed: uint64(idx)}}, Pos: s.pos, Tmpl: b.T, Bodies: bodies, Qualified: p != ""})
				}
			}
		}
	}
	return out
}

const fbSigPreParen = "FROM-carrying builtin (EXTRACT/SUBSTRING/TRIM/OVERLAY) with a nested parenthesis before its FROM: the body's FROM is not masked and the following column is rewritten to a storage path"
const fbSigPlain = "FROM-carrying builtin (EXTRACT/SUBSTRING/TRIM/OVERLAY) without a nested parenthesis before its FROM: the body's FROM is not masked and what follows it is rewritten to a storage path"

// fbClassify names the class of a mismatch of this family from the generator's description of
// the body and arc's logged converted SQL (naming only; the verdict was made on the answers).
func fbClassify(e *env, fc fbCase, q qspec, o outcome) string {
	bogus := strings.Contains(o.Arc.Err, "read_parquet")
	for _, m := range rePath.FindAllStringSubmatch(o.Log.Converted, -1) {
		parts := strings.Split(strings.TrimPrefix(m[1], e.n.Root+"/"), "/")
		if !(len(parts) >= 2 && (parts[0] == "default" || parts[0] == "db2") && c16Stored(parts[1]) == parts[1]) {
			bogus = true
		}
	}
	if bogus {
		for _, b := range fc.Bodies {
			if b.PreParen {
				return fbSigPreParen
			}
		}
		return fbSigPlain
	}
	var fns []string
	for _, b := range fc.Bodies {
		d := b.Fn + " body, " + b.Post + " after FROM"
		if b.PreParen {
			d += ", nested parenthesis before FROM"
		}
		fns = append(fns, d)
	}
	return "FROM-carrying builtin (" + strings.Join(fns, "; ") + ") in " + fc.Pos + " position: " + c16Classify(e, q, o)
}

// c16FromBodyFamily runs the worker's share of the enumerated cases, with its own small
// shrinking budget.
func c16FromBodyFamily(c *vlib.Ctx, e *env, w, workers int) {
	seen := map[string]int{}
	shrunk := 0
	for i, fc := range genFBCases() {
		if i%workers != w {
			continue
		}
		q := fc.Q
		text := q.render()
		o := e.run(text, q.Hdr, false, false)
		c.Eval()
		c.Count("queries_sent", 1)
		c.Count("fb_queries_sent", 1)
		c.Count("arc_ms_total", o.ArcMS)
		c.Count("ref_ms_total", o.RefMS)
		switch {
		case o.Kind == "rejected":
			c.Count("queries_rejected_by_validation", 1)
			c.Count("fb_rejected_by_validation", 1)
			for _, b := range fc.Bodies {
				c.Count("fb_rejected_by_validation_after_from_"+b.Post, 1)
			}
			continue
		case o.Kind == "inconclusive":
			c.Inconclusive(o.Why)
			continue
		case o.Kind == "both_fail":
			c.Count("queries_both_fail", 1)
			c.Count("fb_discarded_reference_rejects_the_text", 1)
			continue
		case o.Kind == "mismatch" && !o.Ref.OK:
			// the reference DuckDB rejects the generated text: discarded, never held against arc
			c.Count("fb_discarded_reference_rejects_the_text", 1)
			c.Count("fb_discarded_reference_rejects_arc_answers", 1)
			continue
		}
		c.Count("queries_compared", 1)
		c.Count("fb_compared", 1)
		c.Count("fb_position_"+fc.Pos, 1)
		if fc.Qualified {
			c.Count("fb_columns_alias_qualified", 1)
		} else {
			c.Count("fb_columns_unqualified", 1)
		}
		if q.Hdr == "" {
			c.Count("fb_header_none", 1)
		} else {
			c.Count("fb_header_"+q.Hdr, 1)
		}
		sensitive := false
		for _, b := range fc.Bodies {
			c.Count("fb_fn_"+b.Fn, 1)
			c.Count("fb_after_from_"+b.Post, 1)
			if b.PreParen {
				c.Count("fb_nested_parenthesis_before_from", 1)
			}
			if b.PostParen {
				c.Count("fb_nested_parenthesis_after_from", 1)
			}
			if b.PreParen && b.Post == "column" {
				sensitive = true
			}
		}
		if len(fc.Bodies) > 1 {
			c.Count("fb_two_builtins_in_one_expression", 1)
		}
		if sensitive {
			c.Count("fb_nested_parenthesis_before_from_and_column_after", 1)
		}
		if o.Ref.NRows > 0 {
			c.Count("compared_with_rows", 1)
			c.Count("fb_compared_with_rows", 1)
		}
		c.Nontrivial(text + "|" + q.Hdr)
		if o.Kind == "equal" {
			continue
		}
		c.Count("mismatches", 1)
		c.Count("fb_mismatches", 1)
		prov := fbClassify(e, fc, q, o)
		if seen[prov] >= 1 || shrunk >= 3 {
			c.Count("mismatches_not_shrunk_same_provisional_class", 1)
			continue
		}
		seen[prov]++
		shrunk++
		mq, mhdr, mo := c16Shrink(c, e, q, q.Hdr, o)
		kind := "arc fails where DuckDB answers"
		switch mo.Why {
		case "arc succeeds, reference fails":
			kind = "arc answers where DuckDB fails"
		case "arc fails, reference succeeds":
		default:
			kind = "silently different result"
		}
		sig := fbClassify(e, fc, mq, mo) + ": " + kind
		c.Violation(sig, map[string]any{"worker": w, "family": "FROM-carrying builtins", "position": fc.Pos, "body_template": fc.Tmpl, "bodies": fc.Bodies, "alias_qualified_columns": fc.Qualified,
			"original_sql": text, "original_hdr": q.Hdr, "original_outcome": o,
			"minimal_sql": mq.render(), "minimal_hdr": mhdr, "minimal_spec": mq, "minimal_features": mq.features(), "minimal_outcome": mo})
	}
}
