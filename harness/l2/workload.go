package main

import (
	"fmt"
	"math/rand/v2"
	"sort"
	"strconv"
	"strings"
	"time"

	"github.com/Basekick-Labs/msgpack/v6"

	"github.com/basekick-labs/arc/internal/zzverif/vpq"
)

// One write request of a history. Every request targets ONE measurement, so that it
// produces exactly one WAL entry and entry k belongs to accepted request k.
type Req struct {
	Kind   string            `json:"kind"` // lp | mp_col | mp_row
	DB     string            `json:"db"`
	M      string            `json:"m"`
	Path   string            `json:"path"`
	Hdr    map[string]string `json:"hdr"`
	Body   []byte            `json:"body"`
	Text   string            `json:"text,omitempty"`
	Rids   []int64           `json:"rids"`
	Epoch  string            `json:"epoch"`
	Extras []string          `json:"extras,omitempty"`
}

var routingNames = []string{"database", "measurement", "m", "_database", "_measurement"}

// epoch classes (microseconds)
func pickTime(r *rand.Rand, class string) int64 {
	switch class {
	case "pre1970":
		return -(1 + r.Int64N(400*86400)) * 1_000_000
	case "epoch0":
		return r.Int64N(3600) * 1_000_000 // 1970-01-01 00:00..01:00
	case "early1970":
		return (20*86400 + r.Int64N(90*86400)) * 1_000_000 // 1970-01-21 .. 1970-04-21 (< 1e13 us)
	default:
		return (1_700_000_000 + r.Int64N(86400*30)) * 1_000_000
	}
}

var epochClasses = []string{"now", "now", "pre1970", "epoch0", "early1970"}

func genHistory(r *rand.Rand, nReq int, ridBase int64, withExtras bool) []Req {
	dbs := []string{"db1", "db2", "default"}
	ms := []string{"m_a", "m_b"}
	var out []Req
	rid := ridBase
	for i := 0; i < nReq; i++ {
		q := Req{DB: dbs[r.IntN(len(dbs))], M: ms[r.IntN(len(ms))], Epoch: epochClasses[r.IntN(len(epochClasses))]}
		n := 1 + r.IntN(4)
		var extras []string
		if withExtras && r.IntN(2) == 0 {
			extras = append(extras, routingNames[r.IntN(len(routingNames))])
			if r.IntN(3) == 0 {
				extras = append(extras, routingNames[r.IntN(len(routingNames))])
			}
		}
		q.Extras = extras
		extraVal := func(name string) string {
			if strings.Contains(name, "database") {
				return "db2"
			}
			return "m_other"
		}
		switch r.IntN(3) {
		case 0: // line protocol
			q.Kind = "lp"
			prec := []string{"ns", "us", "ms", "s"}[r.IntN(4)]
			var sb strings.Builder
			for k := 0; k < n; k++ {
				rid++
				us := pickTime(r, q.Epoch)
				var raw int64
				switch prec {
				case "ns":
					raw = us * 1000
				case "us":
					raw = us
				case "ms":
					raw = us / 1000
				default:
					raw = us / 1_000_000
				}
				sb.WriteString(q.M)
				sb.WriteString(",host=h" + strconv.Itoa(r.IntN(3)))
				seen := map[string]bool{}
				var fieldExtras []string
				for _, e := range extras {
					if seen[e] {
						continue
					}
					seen[e] = true
					if r.IntN(2) == 0 {
						sb.WriteString("," + e + "=" + extraVal(e)) // as tag
					} else {
						fieldExtras = append(fieldExtras, e)
					}
				}
				fmt.Fprintf(&sb, " rid=%di,v=%g", rid, float64(r.IntN(1000))/8)
				for _, e := range fieldExtras {
					fmt.Fprintf(&sb, ",%s=%q", e, extraVal(e))
				}
				fmt.Fprintf(&sb, " %d\n", raw)
				q.Rids = append(q.Rids, rid)
			}
			q.Text = sb.String()
			q.Body = []byte(q.Text)
			switch r.IntN(3) {
			case 0:
				q.Path = "/write?db=" + q.DB + "&precision=" + prec
			case 1:
				q.Path = "/api/v2/write?bucket=" + q.DB + "&precision=" + prec
			default:
				q.Path = "/api/v1/write/line-protocol?precision=" + prec
				q.Hdr = map[string]string{"x-arc-database": q.DB}
			}
		case 1: // msgpack columnar (raw envelope WAL path)
			q.Kind = "mp_col"
			cols := map[string]interface{}{}
			times, rids, vs, hosts := []interface{}{}, []interface{}{}, []interface{}{}, []interface{}{}
			for k := 0; k < n; k++ {
				rid++
				times = append(times, pickTime(r, q.Epoch))
				rids = append(rids, rid)
				vs = append(vs, float64(r.IntN(1000))/8)
				hosts = append(hosts, "h"+strconv.Itoa(r.IntN(3)))
				q.Rids = append(q.Rids, rid)
			}
			cols["time"], cols["rid"], cols["v"], cols["host"] = times, rids, vs, hosts
			for _, e := range extras {
				col := make([]interface{}, n)
				for k := range col {
					col[k] = extraVal(e)
				}
				cols[e] = col
			}
			b, err := msgpack.Marshal(map[string]interface{}{"m": q.M, "columns": cols})
			if err != nil {
				panic(err)
			}
			q.Body = b
			q.Path = "/api/v1/write/msgpack"
			q.Hdr = map[string]string{"x-arc-database": q.DB, "Content-Type": "application/msgpack"}
			q.Text = fmt.Sprintf("msgpack columnar m=%s rows=%d times=%v extras=%v", q.M, n, times, extras)
		default: // msgpack row
			q.Kind = "mp_row"
			rid++
			fields := map[string]interface{}{"rid": rid, "v": float64(r.IntN(1000)) / 8}
			tags := map[string]interface{}{"host": "h" + strconv.Itoa(r.IntN(3))}
			for _, e := range extras {
				if r.IntN(2) == 0 {
					tags[e] = extraVal(e)
				} else {
					fields[e] = extraVal(e)
				}
			}
			t := pickTime(r, q.Epoch)
			b, err := msgpack.Marshal(map[string]interface{}{"m": q.M, "t": t, "fields": fields, "tags": tags})
			if err != nil {
				panic(err)
			}
			q.Rids = []int64{rid}
			q.Body = b
			q.Path = "/api/v1/write/msgpack"
			q.Hdr = map[string]string{"x-arc-database": q.DB, "Content-Type": "application/msgpack"}
			q.Text = fmt.Sprintf("msgpack row m=%s t=%d fields=%v tags=%v", q.M, t, fields, tags)
		}
		out = append(out, q)
	}
	return out
}

// StoredRow is the canonical form of one stored row: where it lives and every
// non-null column with a type-tagged value.
type StoredRow struct {
	Dir  string            `json:"dir"` // db/measurement
	Cols map[string]string `json:"cols"`
}

func (s StoredRow) String() string {
	ks := make([]string, 0, len(s.Cols))
	for k := range s.Cols {
		ks = append(ks, k)
	}
	sort.Strings(ks)
	var sb strings.Builder
	sb.WriteString(s.Dir + " {")
	for _, k := range ks {
		sb.WriteString(k + "=" + s.Cols[k] + " ")
	}
	sb.WriteString("}")
	return sb.String()
}

// readStore reads every Parquet file under root with the independent reader and
// returns rid -> rows (a rid stored twice has two entries). Files that are still
// being written (temp names) are not *.parquet and are ignored by ReadTree.
func readStore(root string) (map[int64][]StoredRow, int, error) {
	files, err := vpq.ReadTree(root)
	if err != nil {
		return nil, 0, err
	}
	out := map[int64][]StoredRow{}
	for _, f := range files {
		parts := strings.Split(f.Rel, "/")
		dir := f.Rel
		if len(parts) >= 2 {
			dir = parts[0] + "/" + parts[1]
		}
		for _, row := range f.Rows {
			sr := StoredRow{Dir: dir, Cols: map[string]string{}}
			var rid int64 = -1
			for k, v := range row {
				if v == nil {
					continue
				}
				sr.Cols[k] = fmt.Sprintf("%T:%v", v, v)
				if k == "rid" {
					switch t := v.(type) {
					case int64:
						rid = t
					case float64:
						rid = int64(t)
					}
				}
			}
			out[rid] = append(out[rid], sr)
		}
	}
	return out, len(files), nil
}

// waitRows polls the store until every wanted rid is present (or the watchdog fires).
func waitRows(root string, want []int64, maxWait time.Duration) (map[int64][]StoredRow, bool) {
	deadline := time.Now().Add(maxWait)
	var last map[int64][]StoredRow
	for {
		st, _, err := readStore(root)
		if err == nil {
			last = st
			ok := true
			for _, r := range want {
				if len(st[r]) == 0 {
					ok = false
					break
				}
			}
			if ok {
				return st, true
			}
		}
		if time.Now().After(deadline) {
			return last, false
		}
		time.Sleep(250 * time.Millisecond)
	}
}

// vpqTree returns rid -> raw row (column -> value, nulls as nil) for content checks.
func vpqTree(root string) (map[int64]map[string]any, error) {
	files, err := vpq.ReadTree(root)
	if err != nil {
		return nil, err
	}
	out := map[int64]map[string]any{}
	for _, f := range files {
		for _, row := range f.Rows {
			if r, ok := row["rid"].(int64); ok {
				out[r] = row
			}
		}
	}
	return out, nil
}
