package main

import (
	"bytes"
	"compress/gzip"
	"fmt"
	"math"
	"math/rand/v2"
	"mime/multipart"
	"sort"
	"strings"
	"sync"
	"time"

	"github.com/Basekick-Labs/msgpack/v6"
	"github.com/klauspost/compress/zstd"

	"github.com/basekick-labs/arc/internal/zzverif/vlib"
)

// hostile request with what the harness knows about it
type hReq struct {
	Desc   string
	Class  string // classification for signatures
	Path   string
	Hdr    map[string]string
	Body   []byte
	Rids   []int64          // rids embedded in the payload (absent from storage if rejected)
	Expect map[string][]any // column -> values per row (only for well-formed structure-aware payloads); nil = no content expectation
	M      string
}

var c04Measurements = []string{"c04a", "c04b"}

type c04gen struct {
	r   *rand.Rand
	rid int64
	// column types used so far per measurement, to force type changes between requests
}

func (g *c04gen) nextRids(n int) []int64 {
	out := make([]int64, n)
	for i := range out {
		g.rid++
		// self-checking ids: counter<<20 | 20-bit hash. A bit-flipped copy of another
		// request cannot alias a valid id of a different request.
		h := uint64(g.rid) * 0x9E3779B97F4A7C15
		out[i] = g.rid<<20 | int64(h>>44)
	}
	return out
}

var oddNames = []string{"", "_x", "_", "time", "measurement", "_measurement", "_database", "ünï", "a b", "a,b", "a\"b", "a\\b", "A", "a", strings.Repeat("n", 300), "rid2"}

// value generators per "type"
func (g *c04gen) val(kind int, i int) any {
	switch kind {
	case 0:
		return int64(i*7 - 3)
	case 1:
		return float64(i) + 0.25
	case 2:
		return fmt.Sprintf("s%d", i)
	case 3:
		return i%2 == 0
	case 4:
		return nil
	case 5:
		return uint64(math.MaxUint64 - uint64(i))
	case 6:
		return math.NaN()
	case 7:
		return []any{int64(1), "x"}
	case 8:
		return map[string]any{"k": int64(i)}
	case 9:
		return []byte{0xff, 0xfe, byte(i)}
	default:
		return math.Inf(1)
	}
}

// structure-aware msgpack columnar payload with odd column names / type changes
func (g *c04gen) msgpackColumnar() hReq {
	r := g.r
	n := 1 + r.IntN(5)
	m := c04Measurements[r.IntN(2)]
	rids := g.nextRids(n)
	cols := map[string]any{}
	exp := map[string][]any{}
	ridCol := make([]any, n)
	tcol := make([]any, n)
	for i := range ridCol {
		ridCol[i] = rids[i]
		tcol[i] = int64(1_700_000_000_000_000) + int64(r.IntN(7200))*1_000_000
	}
	cols["rid"] = ridCol
	if r.IntN(10) != 0 {
		cols["time"] = tcol
	}
	var classes []string
	for k, nc := 0, 1+r.IntN(3); k < nc; k++ {
		name := oddNames[r.IntN(len(oddNames))]
		if r.IntN(3) == 0 {
			name = "v" // ordinary name whose type changes between requests
		}
		if name == "time" && r.IntN(2) == 0 {
			continue
		}
		kind := r.IntN(5)
		if r.IntN(6) == 0 {
			kind = 5 + r.IntN(6)
		}
		col := make([]any, n)
		for i := range col {
			col[i] = g.val(kind, i)
			if r.IntN(8) == 0 {
				col[i] = nil
			}
		}
		cols[name] = col
		delete(exp, name) // a later column of the same name replaces the earlier one
		if kind <= 3 && name != "time" {
			exp[name] = col
		}
		switch {
		case name == "":
			classes = append(classes, "empty column name")
		case strings.HasPrefix(name, "_"):
			classes = append(classes, "underscore-prefixed column")
		case name == "time" || name == "measurement":
			classes = append(classes, "reserved column name")
		case name == "v":
			classes = append(classes, "type-changing column")
		case kind > 4:
			classes = append(classes, "exotic value type")
		}
	}
	sort.Strings(classes)
	classes = uniq(classes)
	var mval any = m
	if r.IntN(25) == 0 {
		mval = []any{int64(5), nil, 1.5, uint64(math.MaxUint64)}[r.IntN(4)]
		exp = nil
	}
	payload := map[string]any{"m": mval, "columns": cols}
	b, err := msgpack.Marshal(payload)
	if err != nil {
		panic(err)
	}
	if r.IntN(12) == 0 {
		// length mismatch
		cols["short"] = []any{int64(1)}
		b, _ = msgpack.Marshal(payload)
		exp = nil
		classes = append(classes, "column length mismatch")
	}
	return hReq{Desc: fmt.Sprintf("msgpack columnar m=%v cols=%v", mval, keysOf(cols)), Class: "msgpack columnar: " + strings.Join(classes, "+"),
		Path: "/api/v1/write/msgpack", Hdr: map[string]string{"x-arc-database": "c04db", "Content-Type": "application/msgpack"}, Body: b, Rids: rids, Expect: exp, M: m}
}

func uniq(s []string) []string {
	var out []string
	for i, x := range s {
		if i == 0 || s[i-1] != x {
			out = append(out, x)
		}
	}
	return out
}

func keysOf(m map[string]any) []string {
	ks := make([]string, 0, len(m))
	for k := range m {
		ks = append(ks, k)
	}
	sort.Strings(ks)
	return ks
}

func (g *c04gen) msgpackRow() hReq {
	r := g.r
	m := c04Measurements[r.IntN(2)]
	rids := g.nextRids(1)
	fields := map[string]any{"rid": rids[0]}
	tags := map[string]any{}
	for k, nc := 0, 1+r.IntN(3); k < nc; k++ {
		name := oddNames[r.IntN(len(oddNames))]
		kind := r.IntN(11)
		if r.IntN(2) == 0 {
			fields[name] = g.val(kind, k)
		} else {
			tags[name] = g.val(kind, k)
		}
	}
	var t any = int64(1_700_000_000_000_000)
	switch r.IntN(8) {
	case 0:
		t = nil
	case 1:
		t = "now"
	case 2:
		t = 1.7e9
	case 3:
		t = uint64(math.MaxUint64)
	}
	payload := map[string]any{"m": m, "t": t, "fields": fields, "tags": tags}
	if r.IntN(6) == 0 {
		payload = map[string]any{"batch": []any{payload, payload, "junk", nil}}
	}
	b, _ := msgpack.Marshal(payload)
	return hReq{Desc: "msgpack row", Class: "msgpack row: odd names/types", Path: "/api/v1/write/msgpack",
		Hdr: map[string]string{"x-arc-database": "c04db"}, Body: b, Rids: rids, M: m}
}

// msgpackRowBatch: several DIFFERENT rows of one measurement in one row-format request.
// Names are shared between tags and fields across rows (a tag in one row, a field in
// another, absent in a third), timestamps are not in order, and - per variant - a
// field is literally named "time", or a field "<x>_value" exists next to a tag/field
// clash on "<x>" (the name arc gives a field that collides with a tag).
func (g *c04gen) msgpackRowBatch() hReq {
	r := g.r
	m := c04Measurements[r.IntN(2)]
	variant := r.IntN(3)
	names := []string{"dc", "host", "zone"}
	class := "msgpack row batch: names shared between tags and fields"
	switch variant {
	case 1:
		names = append(names, "time")
		class = "msgpack row batch: field named time"
	case 2:
		names = append(names, "dc_value")
		class = "msgpack row batch: <name>_value next to a tag/field clash on <name>"
	}
	n := 2 + r.IntN(5)
	rids := g.nextRids(n)
	offs := r.Perm(n)
	var rows []any
	for i := 0; i < n; i++ {
		fields := map[string]any{"rid": rids[i], "v": float64(i) + 0.5}
		tags := map[string]any{}
		for _, name := range names {
			val := any(fmt.Sprintf("s%d", r.IntN(3)))
			if name == "time" {
				val = int64(1_700_000_000_000_000) + int64(r.IntN(3000))*1_000_000
			}
			switch r.IntN(3) {
			case 0:
				if name != "time" {
					tags[name] = val
				} else {
					fields[name] = val
				}
			case 1:
				fields[name] = val
			}
		}
		rows = append(rows, map[string]any{"m": m, "t": int64(1_700_000_000_000_000) + int64(offs[i])*7_000_000, "fields": fields, "tags": tags})
	}
	var payload any = rows
	if r.IntN(2) == 0 {
		payload = map[string]any{"batch": rows}
	}
	b, _ := msgpack.Marshal(payload)
	return hReq{Desc: fmt.Sprintf("msgpack row batch of %d rows", n), Class: class, Path: "/api/v1/write/msgpack",
		Hdr: map[string]string{"x-arc-database": "c04db"}, Body: b, Rids: rids, M: m}
}

func (g *c04gen) lineProtocol() hReq {
	r := g.r
	m := c04Measurements[r.IntN(2)]
	n := 1 + r.IntN(4)
	rids := g.nextRids(n)
	var sb strings.Builder
	for i := 0; i < n; i++ {
		name := oddNames[1+r.IntN(len(oddNames)-1)]
		name = strings.NewReplacer(" ", "\\ ", ",", "\\,", "=", "\\=").Replace(name)
		vals := []string{"1i", "1.5", "\"s\"", "t", "18446744073709551615u", "9223372036854775808i", "1e400", "\"unterminated", "", "nan"}
		fmt.Fprintf(&sb, "%s,host=h rid=%di,%s=%s %d\n", m, rids[i], name, vals[r.IntN(len(vals))], 1_700_000_000+r.IntN(7200))
	}
	path := []string{"/write?db=c04db&precision=s", "/api/v2/write?bucket=c04db&precision=s", "/api/v1/write/line-protocol?precision=s"}[r.IntN(3)]
	return hReq{Desc: "line protocol odd fields", Class: "line protocol: odd names/values", Path: path, Hdr: map[string]string{"x-arc-database": "c04db"}, Body: []byte(sb.String()), Rids: rids, M: m}
}

// several measurements in one request, one of which cannot be converted (mixed
// types in one column): the request is answered with an error; none of its
// measurements may be stored. Which measurements arc writes before it reaches the
// failing one depends on Go map iteration order, hence four good ones.
func (g *c04gen) multiMeasurementLP() hReq {
	r := g.r
	n := 6
	rids := g.nextRids(n)
	var sb strings.Builder
	ms := []string{"c04a", "c04b", "c04c", "c04d"}
	for i := 0; i < 4; i++ {
		fmt.Fprintf(&sb, "%s,host=h rid=%di,w=1i %d\n", ms[i], rids[i], 1_700_000_000+r.IntN(7200))
	}
	fmt.Fprintf(&sb, "c04bad,host=h rid=%di,w=1i %d\n", rids[4], 1_700_000_000)
	fmt.Fprintf(&sb, "c04bad,host=h rid=%di,w=\"s\" %d\n", rids[5], 1_700_000_001)
	return hReq{Desc: "line protocol, 5 measurements, one with a mixed-type column", Class: "multi-measurement line protocol with one unconvertible measurement",
		Path: "/write?db=c04db&precision=s", Body: []byte(sb.String()), Rids: rids, M: "c04a"}
}

func (g *c04gen) csvImport() hReq {
	r := g.r
	m := c04Measurements[r.IntN(2)]
	n := 1 + r.IntN(5)
	rids := g.nextRids(n)
	hdrs := [][]string{{"time", "rid", "v"}, {"time", "rid", ""}, {"time", "rid", "rid"}, {"time", "rid", "_x"}, {"rid", "v"}, {"time", "rid", "v", "w"}}
	h := hdrs[r.IntN(len(hdrs))]
	var sb strings.Builder
	sb.WriteString(strings.Join(h, ",") + "\n")
	for i := 0; i < n; i++ {
		var cells []string
		for _, c := range h {
			switch c {
			case "time":
				cells = append(cells, fmt.Sprint(1_700_000_000+r.IntN(7200)))
			case "rid":
				cells = append(cells, fmt.Sprint(rids[i]))
			default:
				cells = append(cells, []string{"1", "1.5", "x", "", "\"q,q\"", "\"unterminated"}[r.IntN(6)])
			}
		}
		if r.IntN(10) == 0 {
			cells = cells[:len(cells)-1]
		}
		sb.WriteString(strings.Join(cells, ",") + "\n")
	}
	var body bytes.Buffer
	w := multipart.NewWriter(&body)
	fw, _ := w.CreateFormFile("file", "x.csv")
	fw.Write([]byte(sb.String()))
	w.Close()
	return hReq{Desc: "csv import hdr=" + strings.Join(h, "|"), Class: "csv import", Path: "/api/v1/import/csv?measurement=" + m + "&time_format=epoch_s",
		Hdr: map[string]string{"x-arc-database": "c04db", "Content-Type": w.FormDataContentType()}, Body: body.Bytes(), Rids: rids, M: m}
}

// byte-level mutations and wrappers of another request
func (g *c04gen) mutate(q hReq) hReq {
	r := g.r
	b := append([]byte(nil), q.Body...)
	q.Expect = nil
	switch r.IntN(6) {
	case 0:
		if len(b) > 1 {
			b = b[:r.IntN(len(b))]
		}
		q.Class = "truncated " + strings.SplitN(q.Class, ":", 2)[0]
	case 1:
		for k := 0; k < 1+r.IntN(4) && len(b) > 0; k++ {
			b[r.IntN(len(b))] ^= byte(1 << r.IntN(8))
		}
		q.Class = "bit-flipped " + strings.SplitN(q.Class, ":", 2)[0]
	case 2:
		var z bytes.Buffer
		gw := gzip.NewWriter(&z)
		gw.Write(b)
		gw.Close()
		b = z.Bytes()
		if r.IntN(2) == 0 && len(b) > 4 {
			b = b[:len(b)-1-r.IntN(len(b)/2)]
			q.Class = "truncated gzip of " + strings.SplitN(q.Class, ":", 2)[0]
		} else {
			q.Class = "gzip of " + q.Class
		}
		q.Hdr = copyHdr(q.Hdr)
		q.Hdr["Content-Encoding"] = "gzip"
	case 3:
		enc, _ := zstd.NewWriter(nil)
		b = enc.EncodeAll(b, nil)
		enc.Close()
		if r.IntN(2) == 0 && len(b) > 4 {
			b = b[:len(b)-1-r.IntN(len(b)/2)]
			q.Class = "truncated zstd of " + strings.SplitN(q.Class, ":", 2)[0]
		} else {
			q.Class = "zstd of " + q.Class
		}
		q.Hdr = copyHdr(q.Hdr)
		q.Hdr["Content-Encoding"] = "zstd"
	case 4:
		b = append(b, b...)
		q.Class = "doubled body " + strings.SplitN(q.Class, ":", 2)[0]
	default:
		// high-ratio bomb: 24 MB of zeros
		var z bytes.Buffer
		gw := gzip.NewWriter(&z)
		gw.Write(make([]byte, 24<<20))
		gw.Close()
		b = z.Bytes()
		q.Hdr = copyHdr(q.Hdr)
		q.Hdr["Content-Encoding"] = "gzip"
		q.Class = "gzip bomb"
		q.Rids = nil
	}
	q.Body = b
	q.Desc = "mutated: " + q.Desc
	return q
}

func copyHdr(h map[string]string) map[string]string {
	o := map[string]string{}
	for k, v := range h {
		o[k] = v
	}
	return o
}

func (g *c04gen) randomBytes() hReq {
	r := g.r
	n := r.IntN(300)
	b := make([]byte, n)
	for i := range b {
		b[i] = byte(r.IntN(256))
	}
	paths := []string{"/api/v1/write/msgpack", "/write?db=c04db", "/api/v1/write/line-protocol", "/api/v1/import/csv?measurement=c04a", "/api/v1/import/parquet?measurement=c04a",
		"/api/v1/import/lp?measurement=c04a", "/api/v1/import/tle?measurement=c04a", "/api/v1/write/tle"}
	return hReq{Desc: "random bytes", Class: "random bytes", Path: paths[r.IntN(len(paths))], Hdr: map[string]string{"x-arc-database": "c04db"}, Body: b}
}

func (g *c04gen) next() hReq {
	var q hReq
	if g.r.IntN(25) == 0 {
		return g.multiMeasurementLP()
	}
	switch g.r.IntN(10) {
	case 0, 1, 2, 3:
		q = g.msgpackColumnar()
	case 4:
		if g.r.IntN(2) == 0 {
			return g.msgpackRowBatch()
		}
		q = g.msgpackRow()
	case 5, 6:
		q = g.lineProtocol()
	case 7:
		q = g.csvImport()
	default:
		return g.randomBytes()
	}
	if g.r.IntN(4) == 0 {
		return g.mutate(q)
	}
	return q
}

func looseEqual(sent any, stored any) bool {
	if sent == nil {
		return stored == nil
	}
	if stored == nil {
		return false
	}
	switch s := sent.(type) {
	case int64:
		switch t := stored.(type) {
		case int64:
			return t == s
		case float64:
			return t == float64(s)
		case string:
			return t == fmt.Sprint(s)
		}
	case float64:
		switch t := stored.(type) {
		case float64:
			return t == s
		case int64:
			return float64(t) == s
		case string:
			return t == fmt.Sprint(s)
		}
	case string:
		if t, ok := stored.(string); ok {
			return t == s
		}
	case bool:
		switch t := stored.(type) {
		case bool:
			return t == s
		case string:
			return t == fmt.Sprint(s)
		}
	}
	return false
}

type sentRec struct {
	q      hReq
	status int
	noResp bool
}

func runC04Sequence(c *vlib.Ctx, a *Arc, g *c04gen, seqLen int, seqID int) (alive bool) {
	var sent []sentRec
	for i := 0; i < seqLen; i++ {
		q := g.next()
		code, _, err := a.Post(q.Path, q.Hdr, q.Body)
		sent = append(sent, sentRec{q: q, status: code, noResp: err != nil})
		c.Eval()
		c.Count("requests", 1)
		c.Nontrivial(q.Class + "/" + fmt.Sprint(code/100))
		if err != nil {
			// a dying process keeps its pid for a moment: give it time to exit before
			// attributing the missing response to this request
			if a.WaitExit(3*time.Second) || !a.Running() {
				break
			}
			if strings.Contains(err.Error(), "Client.Timeout") || strings.Contains(err.Error(), "deadline exceeded") {
				// the 60 s client watchdog fired while the server process kept running: a
				// wall-clock limit on a loaded machine, not an observation about the payload
				c.Count("requests_timed_out_server_still_running", 1)
				c.Inconclusive("request timed out after the client watchdog while the server kept running: " + q.Class)
				continue
			}
			c.Violation("request got no HTTP response: "+q.Class, map[string]any{"desc": q.Desc, "err": err.Error(), "seq": seqID})
		} else if code >= 200 && code < 300 {
			c.Count("accepted", 1)
		} else {
			c.Count("rejected", 1)
		}
	}
	describe := func() []string {
		var out []string
		for _, s := range sent {
			out = append(out, fmt.Sprintf("%d %s | %s | %x", s.status, s.q.Class, s.q.Desc, s.q.Body[:min(len(s.q.Body), 160)]))
		}
		return out
	}
	// flush, settle, health
	if a.Running() {
		// no fixed settling time: wait (bounded) until the rows of every accepted
		// structure-aware request are in a Parquet file, flushing again half-way
		var want []int64
		for _, s := range sent {
			if !s.noResp && s.status >= 200 && s.status < 300 && s.q.Expect != nil {
				want = append(want, s.q.Rids...)
			}
		}
		a.Post("/api/v1/write/line-protocol/flush", nil, nil)
		time.Sleep(400 * time.Millisecond) // age-based flush (300 ms): also lets rows of rejected requests surface
		if _, ok := waitRows(a.DataRoot(), want, 20*time.Second); !ok && a.Running() {
			a.Post("/api/v1/write/line-protocol/flush", nil, nil)
			waitRows(a.DataRoot(), want, 40*time.Second)
		}
	}
	code, _, err := a.Get("/health")
	if !a.Running() || err != nil || code != 200 {
		signs := a.CrashSigns()
		cls := "process died"
		last := ""
		for _, s := range sent {
			last = s.q.Class
		}
		sig := "server crashed during hostile request sequence"
		for _, s := range signs {
			if strings.Contains(s, "panic:") || strings.Contains(s, "fatal error:") {
				// stable part of the panic message
				msg := s[strings.Index(s, ":")+1:]
				msg = strings.TrimSpace(msg)
				if i := strings.Index(msg, "panic:"); i >= 0 {
					msg = msg[i:]
				}
				if len(msg) > 90 {
					msg = msg[:90]
				}
				sig = "server crashed: " + stripNumbers(msg)
				break
			}
		}
		c.Violation(sig, map[string]any{"seq": seqID, "what": cls, "signs": signs, "last_request_class": last, "requests": describe(), "log_tail": a.LogTail(a.runs, 60)})
		return false
	}
	// storage accounting
	st, _, rerr := readStore(a.DataRoot())
	if rerr != nil {
		c.Violation("stored Parquet file unreadable after hostile sequence", map[string]any{"err": rerr.Error(), "requests": describe()})
		return true
	}
	files, _ := vpqTree(a.DataRoot())
	for _, s := range sent {
		ok := !s.noResp && s.status >= 200 && s.status < 300
		for ri, rid := range s.q.Rids {
			rows := st[rid]
			if !ok {
				if len(rows) > 0 {
					cls := s.q.Class
					if strings.Contains(cls, "line protocol") && s.status >= 500 {
						// every mutation family of a line-protocol body can end up as a request with
						// several measurements of which one fails conversion (500): one root cause
						cls = "line-protocol request answered 5xx was partially applied (measurements written before the failing one stay stored)"
					}
					c.Violation("rejected request stored rows: "+cls, map[string]any{"status": s.status, "desc": s.q.Desc, "rid": rid, "stored": rows[0].String(), "body": fmt.Sprintf("%x", s.q.Body[:min(len(s.q.Body), 400)])})
				}
				continue
			}
			if s.q.Expect == nil {
				continue
			}
			c.Count("accepted_rows_checked", 1)
			if len(rows) == 0 {
				c.Violation("accepted request's row not stored: "+s.q.Class, map[string]any{"status": s.status, "desc": s.q.Desc, "rid": rid, "body": fmt.Sprintf("%x", s.q.Body[:min(len(s.q.Body), 400)])})
				continue
			}
			raw := files[rid]
			for col, vals := range s.q.Expect {
				sentV := vals[ri]
				if f, isF := sentV.(float64); isF && math.IsNaN(f) {
					continue
				}
				var stored any
				if raw != nil {
					stored = raw[col]
				}
				if !looseEqual(sentV, stored) {
					kind := "ordinary"
					switch {
					case col == "":
						kind = "empty-named"
					case strings.HasPrefix(col, "_"):
						kind = "underscore-prefixed"
					case col == "measurement" || col == "time":
						kind = "reserved-named"
					case col == "v":
						kind = "type-changing"
					}
					c.Violation("accepted request: "+kind+" column neither stored correctly nor rejected", map[string]any{"status": s.status, "desc": s.q.Desc, "column": col, "sent": fmt.Sprint(sentV), "stored": fmt.Sprint(stored), "rid": rid, "row": rows[0].String(), "body": fmt.Sprintf("%x", s.q.Body), "all_requests": describe()})
				}
			}
		}
	}
	if seqID < 3 {
		c.Sample(map[string]any{"sequence": seqID, "requests": describe()[:min(6, len(sent))]})
	}
	return true
}

func stripNumbers(s string) string {
	var sb strings.Builder
	for _, ch := range s {
		if ch >= '0' && ch <= '9' {
			sb.WriteByte('N')
		} else {
			sb.WriteRune(ch)
		}
	}
	return sb.String()
}

// c04TypeChurn: several clients change the type of one column of ONE measurement at
// the same time while flushes are slowed down, so that schema-change flushes overlap
// with writes of a third schema. Every acknowledged row must be stored, the process
// and its flush goroutines must survive.
func c04TypeChurn(c *vlib.Ctx, a *Arc, g *c04gen, id int) bool {
	a.SetCtl("ingest.flush.before_write sleep 25\n")
	type sentRow struct {
		rid int64
		v   any
	}
	var mu sync.Mutex
	var acked []sentRow
	var wg sync.WaitGroup
	ridBase := g.nextRids(1)[0] >> 20
	for cl := 0; cl < 6; cl++ {
		wg.Add(1)
		go func(cl int) {
			defer wg.Done()
			for i := 0; i < 30; i++ {
				n := ridBase*1000 + int64(cl)*100 + int64(i) + 500000000
				h := uint64(n) * 0x9E3779B97F4A7C15
				rid := n<<20 | int64(h>>44)
				var v any
				switch (cl + i/3) % 4 {
				case 0:
					v = int64(i)
				case 1:
					v = float64(i) + 0.5
				case 2:
					v = fmt.Sprintf("s%d", i)
				default:
					v = i%2 == 0
				}
				b, _ := msgpack.Marshal(map[string]any{"m": "c04churn", "columns": map[string]any{
					"time": []any{int64(1_700_000_000_000_000) + int64(i)*1_000_000}, "rid": []any{rid}, "v": []any{v}}})
				code, _, err := a.Post("/api/v1/write/msgpack", map[string]string{"x-arc-database": "c04db"}, b)
				c.Count("requests", 1)
				if err == nil && code >= 200 && code < 300 {
					mu.Lock()
					acked = append(acked, sentRow{rid, v})
					mu.Unlock()
				}
			}
		}(cl)
	}
	wg.Wait()
	a.SetCtl("")
	if a.Running() {
		// no fixed settling time: wait (bounded) until every acknowledged row is in a
		// Parquet file, flushing again half-way; rows still missing after that are lost
		want := make([]int64, 0, len(acked))
		for _, r := range acked {
			want = append(want, r.rid)
		}
		a.Post("/api/v1/write/line-protocol/flush", nil, nil)
		if _, ok := waitRows(a.DataRoot(), want, 30*time.Second); !ok && a.Running() {
			a.Post("/api/v1/write/line-protocol/flush", nil, nil)
			waitRows(a.DataRoot(), want, 45*time.Second)
		}
	}
	c.Eval()
	c.Count("type_churn_rounds", 1)
	c.Count("type_churn_rows_acked", int64(len(acked)))
	c.Nontrivial(fmt.Sprintf("type-churn/%d/%d", id, len(acked)))
	code, _, err := a.Get("/health")
	signs := a.CrashSigns()
	if !a.Running() || err != nil || code != 200 || len(signs) > 0 {
		sig := "server crashed or panicked while concurrent clients changed a column's type"
		for _, s := range signs {
			if strings.Contains(s, "panic:") || strings.Contains(s, "fatal error:") {
				msg := strings.TrimSpace(s[strings.Index(s, ":")+1:])
				if len(msg) > 90 {
					msg = msg[:90]
				}
				sig = "concurrent type change: " + stripNumbers(msg)
				break
			}
		}
		c.Violation(sig, map[string]any{"signs": signs, "acked_rows": len(acked), "log_tail": a.LogTail(a.runs, 40)})
		return a.Running() && err == nil && code == 200
	}
	files, rerr := vpqTree(a.DataRoot())
	if rerr != nil {
		c.Violation("stored Parquet file unreadable after concurrent type changes", map[string]any{"err": rerr.Error()})
		return true
	}
	lost, wrong := 0, 0
	for _, r := range acked {
		row := files[r.rid]
		c.Count("accepted_rows_checked", 1)
		if row == nil {
			lost++
		} else if !looseEqual(r.v, row["v"]) {
			wrong++
		}
	}
	if lost > 0 {
		c.Violation("accepted request's row not stored: concurrent type changes of one column", map[string]any{"lost": lost, "acked": len(acked)})
	}
	if wrong > 0 {
		c.Violation("accepted request: type-changing column neither stored correctly nor rejected (concurrent clients)", map[string]any{"wrong": wrong, "acked": len(acked)})
	}
	return true
}

func checkC04(c *vlib.Ctx) {
	c.Rule("sequences of 5-40 hostile requests against ONE real arc process with small buffers (so that flushes merge batches of different requests): structure-aware MessagePack columnar/row/batch payloads with column names \"\", _x, time, measurement, unicode, 300-byte names, the same column sent with different types in consecutive requests, exotic value types (uint64 max, NaN, nested arrays/maps, bin), nil/non-string measurement, length mismatches; line protocol with odd field names/values; CSV imports with empty/duplicate/underscore headers and ragged rows; random bytes to every write/import/TLE endpoint; truncation, bit flips, doubled bodies, gzip/zstd wrappers incl. truncated streams and a 24 MB gzip bomb; plus, once per server, 6 concurrent clients changing the type of one column of one measurement while flushes are slowed by a failpoint. After each sequence: flush, health probe, log scan for panic/fatal, Parquet read-back. non-trivial = distinct (request class, response class) pairs")
	c.Assume("every payload carries unique rid values so that 'rejected => nothing stored' and 'accepted => stored' are set comparisons")
	c.Assume("'stored correctly' is judged per sent column value with loose numeric/string equality (int 5 = float 5.0 = \"5\"): a column that arc accepts but silently drops or alters is a violation")
	nSeq := c.N(200, 4000)
	perServer := 10
	var wg sync.WaitGroup
	sem := make(chan struct{}, 6)
	for s0 := 0; s0 < nSeq; s0 += perServer {
		wg.Add(1)
		sem <- struct{}{}
		go func(s0 int) {
			defer wg.Done()
			defer func() { <-sem }()
			rng := c.Rand(fmt.Sprintf("c04-%d", s0))
			g := &c04gen{r: rng, rid: int64(s0) * 100000}
			var a *Arc
			for s := s0; s < s0+perServer && s < nSeq; s++ {
				if a == nil {
					a = NewArc(ArcCfg{MaxBufferSize: 40, MaxBufferAgeMS: 300, WAL: false, FlushWorkers: 2})
					if ready, _ := a.Start(); !ready {
						c.Inconclusive("arc did not become ready")
						a.Remove()
						a = nil
						return
					}
					c.Count("server_starts", 1)
					if !c04TypeChurn(c, a, g, s0) {
						a.Remove()
						a = nil
						continue
					}
				}
				alive := runC04Sequence(c, a, g, 5+rng.IntN(36), s)
				c.Count("sequences", 1)
				if !alive {
					a.Remove()
					a = nil
				}
			}
			if a != nil {
				if signs := a.CrashSigns(); len(signs) > 0 {
					// A panic inside a request handler is recovered by the HTTP framework and
					// answered with a 500: the process and its flush goroutines keep running and
					// the request got a response, which is all the property asks. (Rows lost
					// because of such a panic are caught by the storage accounting above.)
					c.Count("recovered_handler_panics_logged", int64(len(signs)))
					c.Extra("recovered_handler_panic_example", signs[0])
				}
				a.Remove()
			}
		}(s0)
	}
	wg.Wait()
	c.Floor(15)
}
