package main

import (
	"fmt"

	"github.com/Basekick-Labs/msgpack/v6"
	"os"
	"sort"
	"strings"
	"sync"
	"time"

	"github.com/basekick-labs/arc/internal/zzverif/vlib"
)

// CrashPlan describes where the process is killed.
type CrashPlan struct {
	Point    string `json:"point"`    // hook name of the first crash ("" = SIGKILL after the last acknowledgement)
	Nth      int    `json:"nth"`      // n-th hit of that point
	Recovery string `json:"recovery"` // hook name of a second crash during the next startup ("" = none)
	FlushAge int    `json:"flush_age_ms"`
}

func (p CrashPlan) String() string {
	s := "kill-after-acks"
	if p.Point != "" {
		s = fmt.Sprintf("%s#%d", p.Point, p.Nth)
	}
	if p.Recovery != "" {
		s += " then " + p.Recovery
	}
	return fmt.Sprintf("%s (buffer age %dms)", s, p.FlushAge)
}

type c05Case struct {
	ID      int
	History []Req
	Plan    CrashPlan
}

func sendHistory(a *Arc, h []Req) (acked []bool, firstErr int) {
	acked = make([]bool, len(h))
	firstErr = -1
	for i, q := range h {
		if !a.Running() {
			if firstErr < 0 {
				firstErr = i
			}
			break
		}
		code, _, err := a.Post(q.Path, q.Hdr, q.Body)
		if err == nil && code >= 200 && code < 300 {
			acked[i] = true
		} else if firstErr < 0 {
			firstErr = i
		}
		// one request at a time, in order: WAL entry k belongs to accepted request k.
		// The WAL writer is asynchronous; give it a moment so that entries of
		// acknowledged requests normally reach the file (whether they did is read
		// from the trace, not assumed).
		time.Sleep(15 * time.Millisecond)
	}
	return
}

// reference runs the history crash-free on a fresh instance and returns the rows.
func reference(c *vlib.Ctx, h []Req) (map[int64][]StoredRow, bool) {
	a := NewArc(ArcCfg{MaxBufferSize: 100000, MaxBufferAgeMS: 300, WAL: true})
	defer a.Remove()
	if ready, _ := a.Start(); !ready {
		c.Inconclusive("reference instance did not become ready")
		return nil, false
	}
	acked, _ := sendHistory(a, h)
	var want []int64
	for i, q := range h {
		if acked[i] {
			want = append(want, q.Rids...)
		}
	}
	a.Post("/api/v1/write/line-protocol/flush", nil, nil)
	st, ok := waitRows(a.DataRoot(), want, 40*time.Second)
	a.Kill()
	if !ok {
		c.Inconclusive("reference run: acknowledged rows did not all reach storage within the watchdog")
		return nil, false
	}
	for i := range h {
		if !acked[i] {
			// a request that the crash-free server rejects is not part of the property
			h[i].Rids = nil
		}
	}
	return st, true
}

func runC05Case(c *vlib.Ctx, cs c05Case, ref map[int64][]StoredRow) {
	age := cs.Plan.FlushAge
	a := NewArc(ArcCfg{MaxBufferSize: 100000, MaxBufferAgeMS: age, WAL: true})
	defer a.Remove()
	if cs.Plan.Point != "" {
		a.SetCtl(fmt.Sprintf("%s crash 0 %d\n", cs.Plan.Point, cs.Plan.Nth))
	}
	if ready, _ := a.Start(); !ready {
		c.Inconclusive("instance did not become ready")
		return
	}
	acked, _ := sendHistory(a, cs.History)
	if cs.Plan.Point != "" {
		// flush-related crash points need the age timer to fire
		if strings.HasPrefix(cs.Plan.Point, "ingest.flush") {
			a.WaitExit(time.Duration(age)*time.Millisecond + 5*time.Second)
		} else {
			a.WaitExit(2 * time.Second)
		}
	} else {
		time.Sleep(300 * time.Millisecond)
	}
	crashedAtPoint := !a.Running()
	a.Kill()
	c.Count("kills", 1)
	if crashedAtPoint {
		c.Count("crash_point_reached", 1)
	}
	// what reached the WAL file / storage before the kill
	walWritten := 0
	for _, e := range a.Events() {
		if e["ev"] == "wal.entry.written" {
			walWritten++
		}
	}
	preKill, _, _ := readStore(a.DataRoot())
	c.Count("wal_entries_in_file_at_kill", int64(walWritten))
	// acknowledged requests in order; the k-th accepted request owns the k-th entry
	var must []int // indices of requests whose rows must survive
	k := 0
	for i := range cs.History {
		if len(cs.History[i].Rids) == 0 {
			continue // rejected by the crash-free reference too
		}
		if !acked[i] {
			// not acknowledged: outside the property. A request that was being served
			// when the process died may still have enqueued its entry.
			if i < len(cs.History) && k < walWritten {
				k++
			}
			continue
		}
		k++
		if k <= walWritten {
			must = append(must, i)
		}
	}
	// restart(s)
	a.SetCtl("")
	if cs.Plan.Recovery != "" {
		a.SetCtl(cs.Plan.Recovery + " crash 0 1\n")
		ready, exited := a.Start()
		if ready {
			// point not reached during this startup (nothing to recover): plain kill
			a.Kill()
		} else if !exited {
			a.Kill()
			c.Inconclusive("restart with recovery crash point neither became ready nor exited")
			return
		} else {
			c.Count("recovery_crash_point_reached", 1)
		}
		c.Count("kills", 1)
		a.SetCtl("")
	}
	if ready, _ := a.Start(); !ready {
		c.Violation("server does not start after crash: "+cs.Plan.Point, map[string]any{"plan": cs.Plan, "log": a.LogTail(a.runs, 30)})
		return
	}
	a.Post("/api/v1/write/line-protocol/flush", nil, nil)
	var want []int64
	for _, i := range must {
		want = append(want, cs.History[i].Rids...)
	}
	st, complete := waitRows(a.DataRoot(), want, 25*time.Second)
	// let late flushes land, then take the final reading
	time.Sleep(500 * time.Millisecond)
	a.Post("/api/v1/write/line-protocol/flush", nil, nil)
	time.Sleep(300 * time.Millisecond)
	if st2, _, err := readStore(a.DataRoot()); err == nil {
		st = st2
	}
	crashSigns := a.CrashSigns()
	a.Kill()
	c.Eval()
	c.Nontrivial(fmt.Sprintf("%d/%s/%d/%d", cs.ID, cs.Plan.String(), walWritten, len(must)))
	detail := func(extra map[string]any) map[string]any {
		var reqs []string
		for i, q := range cs.History {
			reqs = append(reqs, fmt.Sprintf("%d[%s ack=%v db=%s] %s", i, q.Kind, acked[i], q.DB, strings.TrimSpace(q.Text)))
		}
		d := map[string]any{"plan": cs.Plan.String(), "requests": reqs, "wal_entries_in_file_at_kill": walWritten, "rows_complete_before_watchdog": complete}
		for k, v := range extra {
			d[k] = v
		}
		return d
	}
	if len(crashSigns) > 0 {
		c.Violation("server panicked during crash-recovery scenario", detail(map[string]any{"signs": crashSigns}))
	}
	phase := "first crash"
	if cs.Plan.Recovery != "" {
		phase = "crash during recovery at " + cs.Plan.Recovery
	}
	for _, i := range must {
		q := cs.History[i]
		for _, rid := range q.Rids {
			refRows := ref[rid]
			if len(refRows) != 1 {
				continue // reference itself did not store it exactly once: not comparable
			}
			got := st[rid]
			c.Count("rows_checked", 1)
			if len(got) == 0 {
				sig := fmt.Sprintf("acknowledged row with WAL entry on disk lost after %s [%s]", phase, q.Kind)
				if cs.Plan.Recovery != "" && len(preKill[rid]) == 0 {
					// recovery had re-buffered the row and deleted the WAL file; the second
					// kill came before the buffer was flushed
					sig = fmt.Sprintf("re-buffered row lost: killed at %s after recovery deleted the WAL file but before the recovered rows were flushed", cs.Plan.Recovery)
				}
				c.Violation(sig,
					detail(map[string]any{"rid": rid, "request": i, "reference": refRows[0].String()}))
				continue
			}
			if len(got) > 1 {
				if len(preKill[rid]) == 0 {
					c.Violation(fmt.Sprintf("row stored %d times although it had not been flushed before the kill [%s]", len(got), q.Kind),
						detail(map[string]any{"rid": rid, "request": i}))
				} else {
					c.Count("duplicates_of_rows_flushed_before_kill", 1)
				}
			}
			for _, g := range got {
				if g.String() == refRows[0].String() {
					continue
				}
				c.Violation("recovered row differs from crash-free run: "+diffKind(refRows[0], g)+" ["+q.Kind+" epoch="+q.Epoch+extrasTag(q)+"]",
					detail(map[string]any{"rid": rid, "request": i, "reference": refRows[0].String(), "recovered": g.String()}))
			}
		}
	}
	if cs.ID < 3 {
		c.Sample(detail(nil))
	}
}

func extrasTag(q Req) string {
	if len(q.Extras) == 0 {
		return ""
	}
	e := append([]string(nil), q.Extras...)
	sort.Strings(e)
	return " cols=" + strings.Join(e, "+")
}

func diffKind(ref, got StoredRow) string {
	if ref.Dir != got.Dir {
		rp, gp := strings.Split(ref.Dir, "/"), strings.Split(got.Dir, "/")
		if rp[0] != gp[0] {
			return "routed to another database"
		}
		return "routed to another measurement"
	}
	var miss, extra, diff []string
	for k, v := range ref.Cols {
		g, ok := got.Cols[k]
		if !ok {
			miss = append(miss, k)
		} else if g != v {
			diff = append(diff, k)
		}
	}
	for k := range got.Cols {
		if _, ok := ref.Cols[k]; !ok {
			extra = append(extra, k)
		}
	}
	sort.Strings(miss)
	sort.Strings(extra)
	sort.Strings(diff)
	var parts []string
	if len(miss) > 0 {
		parts = append(parts, "columns dropped: "+strings.Join(miss, ","))
	}
	if len(extra) > 0 {
		parts = append(parts, "columns added: "+strings.Join(extra, ","))
	}
	for _, d := range diff {
		if d == "time" {
			parts = append(parts, "timestamp changed")
		} else if d == "rid" || d == "v" || d == "host" {
			parts = append(parts, "value of "+d+" changed")
		} else {
			parts = append(parts, "value of routing-like column changed")
		}
	}
	return strings.Join(parts, "; ")
}

func checkC05(c *vlib.Ctx) {
	c.Rule("(A) histories of 3-8 single-measurement write requests (line protocol over the three endpoints = row-format WAL entries; MessagePack columnar = raw-envelope entries; MessagePack row) over 3 databases, timestamps now / before 1970 / 1970-01-01 / before 1970-04-27, columns named database, measurement, m, _database, _measurement; each history is run crash-free on a real arc process (reference) and again with a SIGKILL at an enumerated point: after the last acknowledgement, at the n-th wal.entry.before_write / after_write, at ingest.flush.before_write / after_write, and optionally a second kill during the next startup at wal.recover.after_replay / wal.recover.after_delete / main.recovery.done; then restart, flush, read the Parquet files with an independent reader. Oracle: every row of a request that was acknowledged AND whose WAL entry was observed in the file before the kill (hook trace) is stored, in the same database/measurement, with the same columns, values and timestamp as in the crash-free run. (B) concurrent family: 8 clients write 60 requests each to 8 DIFFERENT databases at the same time (MessagePack columnar, optionally mixed with line protocol), nothing is flushed, the process is killed once every acknowledged request's WAL entry was observed in the file, restarted, and every acknowledged row must be stored exactly once under the database it was written to. (C) one line-protocol request of 65535 / 65536 / 70001 rows of one measurement (a single row-format WAL entry on either side of the msgpack array16/array32 boundary), killed before any flush: every row must come back. (D) a WAL write that fails part-way without a crash: the WAL file cannot grow beyond a byte limit placed inside entry k (RLIMIT_FSIZE in a child process running the real wal.Writer; 8 cut positions x k in {1,3}, thorough: every 13th byte of an entry), the writer rotates and retries, space returns, more entries are acknowledged, the writer is closed without purge and wal.Recovery runs: every acknowledged entry comes back exactly once. non-trivial = distinct (history, crash plan) pairs, concurrent runs, large-entry runs and short-write cases in which the failed write was observed")
	c.Assume("crash = process death (SIGKILL); data written to the WAL file is considered to have reached it (no power-loss model)")
	c.Assume("the k-th accepted request owns the k-th WAL entry: requests are sent one at a time and each carries one measurement")
	c.Assume("duplicates of rows that had already been flushed before the kill are counted, not reported: the property requires the rows to be present and unchanged")
	if _, err := os.Stat(arcBinary()); err != nil {
		panic("arc binary missing: " + arcBinary())
	}
	if os.Getenv("VERIF_C05_MODE") == "short" { // debugging aid: only family (D)
		runC05ShortWrites(c)
		c.Floor(1)
		return
	}
	rng := c.Rand("c05")
	nHist := c.N(6, 60)
	var cases []c05Case
	var hists [][]Req
	id := 0
	for h := 0; h < nHist; h++ {
		n := 3 + rng.IntN(6)
		hist := genHistory(rng, n, int64(h)*1000, h%2 == 0)
		hists = append(hists, hist)
	}
	// reference runs in parallel
	refs := make([]map[int64][]StoredRow, nHist)
	var wg sync.WaitGroup
	sem := make(chan struct{}, 6)
	for h := range hists {
		wg.Add(1)
		sem <- struct{}{}
		go func(h int) {
			defer wg.Done()
			defer func() { <-sem }()
			r, ok := reference(c, hists[h])
			if ok {
				refs[h] = r
				c.Count("reference_runs", 1)
			}
		}(h)
	}
	wg.Wait()
	for h, hist := range hists {
		if refs[h] == nil {
			continue
		}
		n := len(hist)
		var plans []CrashPlan
		// buffered (no flush before the kill): everything must come back from the WAL
		plans = append(plans, CrashPlan{FlushAge: 600000})
		for _, rec := range []string{"wal.recover.after_replay", "wal.recover.after_delete", "main.recovery.done"} {
			plans = append(plans, CrashPlan{FlushAge: 600000, Recovery: rec})
		}
		if c.Quick() {
			k := 1 + rng.IntN(n)
			plans = append(plans, CrashPlan{Point: "wal.entry.before_write", Nth: k, FlushAge: 600000},
				CrashPlan{Point: "wal.entry.after_write", Nth: 1 + rng.IntN(n), FlushAge: 600000},
				CrashPlan{Point: "ingest.flush.after_write", Nth: 1, FlushAge: 250},
				CrashPlan{Point: "ingest.flush.before_write", Nth: 1 + rng.IntN(2), FlushAge: 250})
		} else {
			for k := 1; k <= n; k++ {
				plans = append(plans, CrashPlan{Point: "wal.entry.before_write", Nth: k, FlushAge: 600000},
					CrashPlan{Point: "wal.entry.after_write", Nth: k, FlushAge: 600000})
			}
			for k := 1; k <= 3; k++ {
				plans = append(plans, CrashPlan{Point: "ingest.flush.after_write", Nth: k, FlushAge: 250},
					CrashPlan{Point: "ingest.flush.before_write", Nth: k, FlushAge: 250},
					CrashPlan{Point: "ingest.flush.after_write", Nth: k, FlushAge: 250, Recovery: "wal.recover.after_delete"})
			}
		}
		for _, p := range plans {
			cases = append(cases, c05Case{ID: id, History: hist, Plan: p})
			id++
		}
	}
	refOf := func(cs c05Case) map[int64][]StoredRow {
		for h := range hists {
			if &hists[h][0] == &cs.History[0] {
				return refs[h]
			}
		}
		return nil
	}
	for _, cs := range cases {
		wg.Add(1)
		sem <- struct{}{}
		go func(cs c05Case) {
			defer wg.Done()
			defer func() { <-sem }()
			runC05Case(c, cs, refOf(cs))
		}(cs)
	}
	for v := 0; v < c.N(2, 10); v++ {
		wg.Add(1)
		sem <- struct{}{}
		go func(v int) {
			defer wg.Done()
			defer func() { <-sem }()
			runC05Concurrent(c, v)
		}(v)
	}
	for _, n := range []int{65535, 65536, 70001} {
		wg.Add(1)
		sem <- struct{}{}
		go func(n int) {
			defer wg.Done()
			defer func() { <-sem }()
			runC05LargeEntry(c, n)
		}(n)
	}
	wg.Wait()
	runC05ShortWrites(c)
	c.Extra("crash_plans", len(cases))
	c.Floor(10)
}

// ---- concurrent multi-database family ----
//
// Several clients write to DIFFERENT databases at the same time (MessagePack columnar
// = raw-envelope WAL entries, optionally line protocol), nothing is flushed before
// the kill, so every acknowledged row has to come back from the WAL, into the
// database it was written to.
func runC05Concurrent(c *vlib.Ctx, variant int) {
	a := NewArc(ArcCfg{MaxBufferSize: 1000000, MaxBufferAgeMS: 600000, WAL: true})
	defer a.Remove()
	if ready, _ := a.Start(); !ready {
		c.Inconclusive("instance did not become ready")
		return
	}
	const clients = 8
	perClient := 60
	type truth struct {
		dir string
		v   float64
	}
	var mu sync.Mutex
	want := map[int64]truth{}
	ackedReqs := 0
	var wg sync.WaitGroup
	for cl := 0; cl < clients; cl++ {
		wg.Add(1)
		go func(cl int) {
			defer wg.Done()
			db := fmt.Sprintf("tenant%d", cl)
			for i := 0; i < perClient; i++ {
				rid := int64(variant+1)*10_000_000 + int64(cl)*100_000 + int64(i)
				v := float64(cl*1000 + i)
				var q Req
				if variant%2 == 1 && i%3 == 0 {
					q = Req{Path: "/write?db=" + db + "&precision=s", Body: []byte(fmt.Sprintf("cc,host=h rid=%di,v=%g %d\n", rid, v, 1_700_000_000+i))}
				} else {
					b, _ := msgpack.Marshal(map[string]interface{}{"m": "cc", "columns": map[string]interface{}{
						"time": []interface{}{int64(1_700_000_000+i) * 1_000_000}, "rid": []interface{}{rid}, "v": []interface{}{v}, "host": []interface{}{"h"}}})
					q = Req{Path: "/api/v1/write/msgpack", Hdr: map[string]string{"x-arc-database": db}, Body: b}
				}
				code, _, err := a.Post(q.Path, q.Hdr, q.Body)
				if err == nil && code >= 200 && code < 300 {
					mu.Lock()
					want[rid] = truth{dir: db + "/cc", v: v}
					ackedReqs++
					mu.Unlock()
				}
			}
		}(cl)
	}
	wg.Wait()
	// let the asynchronous WAL writer catch up, then read how many entries reached the file
	walWritten := 0
	for w := 0; w < 100; w++ {
		walWritten = 0
		for _, e := range a.Events() {
			if e["ev"] == "wal.entry.written" {
				walWritten++
			}
		}
		if walWritten >= ackedReqs {
			break
		}
		time.Sleep(50 * time.Millisecond)
	}
	a.Kill()
	c.Count("kills", 1)
	c.Count("concurrent_requests_acked", int64(ackedReqs))
	c.Count("wal_entries_in_file_at_kill", int64(walWritten))
	if walWritten < ackedReqs {
		c.Inconclusive(fmt.Sprintf("concurrent family: only %d of %d acknowledged requests had reached the WAL file at the kill; skipped", walWritten, ackedReqs))
		return
	}
	if ready, _ := a.Start(); !ready {
		c.Violation("server does not start after crash: concurrent writers", map[string]any{"log": a.LogTail(a.runs, 30)})
		return
	}
	a.Post("/api/v1/write/line-protocol/flush", nil, nil)
	var ids []int64
	for id := range want {
		ids = append(ids, id)
	}
	st, _ := waitRows(a.DataRoot(), ids, 25*time.Second)
	time.Sleep(400 * time.Millisecond)
	if st2, _, err := readStore(a.DataRoot()); err == nil {
		st = st2
	}
	a.Kill()
	c.Eval()
	c.Nontrivial(fmt.Sprintf("concurrent/%d/%d", variant, ackedReqs))
	lost, misrouted, dup := 0, 0, 0
	var example string
	for id, t := range want {
		rows := st[id]
		c.Count("rows_checked", 1)
		switch {
		case len(rows) == 0:
			lost++
			if example == "" {
				example = fmt.Sprintf("rid %d (written to %s) is missing", id, t.dir)
			}
		case len(rows) > 1:
			dup++
		}
		for _, r := range rows {
			if r.Dir != t.dir {
				misrouted++
				example = fmt.Sprintf("rid %d written to %s recovered under %s", id, t.dir, r.Dir)
			}
		}
	}
	d := map[string]any{"variant": variant, "clients": clients, "requests_acked": ackedReqs, "wal_entries_in_file": walWritten, "lost": lost, "misrouted": misrouted, "duplicated": dup, "example": example}
	if misrouted > 0 {
		c.Violation("concurrent writers to different databases: recovered rows routed to another database", d)
	}
	if lost > 0 {
		c.Violation("concurrent writers to different databases: acknowledged rows with WAL entries on disk lost after crash", d)
	}
	if dup > 0 {
		c.Violation("concurrent writers to different databases: row stored more than once although nothing had been flushed before the kill", d)
	}
	c.Sample(d)
}

// ---- large row-format entry family ----
//
// One line-protocol request with n rows of ONE measurement becomes one row-format WAL
// entry (a msgpack array of n maps); n straddles the array16/array32 boundary.
func runC05LargeEntry(c *vlib.Ctx, n int) {
	a := NewArc(ArcCfg{MaxBufferSize: 10000000, MaxBufferAgeMS: 600000, WAL: true})
	defer a.Remove()
	if ready, _ := a.Start(); !ready {
		c.Inconclusive("instance did not become ready")
		return
	}
	var sb strings.Builder
	base := int64(n) * 1_000_000
	for i := 0; i < n; i++ {
		fmt.Fprintf(&sb, "big,host=h rid=%di,v=%d %d\n", base+int64(i), i%97, 1_700_000_000+i%3000)
	}
	code, _, err := a.Post("/write?db=bigdb&precision=s", nil, []byte(sb.String()))
	if err != nil || code < 200 || code >= 300 {
		c.Inconclusive(fmt.Sprintf("large request (%d rows) not acknowledged: code=%d err=%v", n, code, err))
		return
	}
	walWritten := 0
	for w := 0; w < 100 && walWritten == 0; w++ {
		for _, e := range a.Events() {
			if e["ev"] == "wal.entry.written" {
				walWritten++
			}
		}
		time.Sleep(50 * time.Millisecond)
	}
	a.Kill()
	c.Count("kills", 1)
	if walWritten == 0 {
		c.Inconclusive("large entry had not reached the WAL file at the kill")
		return
	}
	if ready, _ := a.Start(); !ready {
		c.Violation("server does not start after crash: large row-format entry", map[string]any{"rows": n, "log": a.LogTail(a.runs, 30)})
		return
	}
	a.Post("/api/v1/write/line-protocol/flush", nil, nil)
	want := []int64{base, base + int64(n)/2, base + int64(n) - 1}
	st, _ := waitRows(a.DataRoot(), want, 30*time.Second)
	time.Sleep(500 * time.Millisecond)
	if st2, _, err := readStore(a.DataRoot()); err == nil {
		st = st2
	}
	a.Kill()
	c.Eval()
	c.Nontrivial(fmt.Sprintf("large-entry/%d", n))
	lost, dup := 0, 0
	for i := 0; i < n; i++ {
		k := len(st[base+int64(i)])
		if k == 0 {
			lost++
		} else if k > 1 {
			dup++
		}
	}
	c.Count("rows_checked", int64(n))
	d := map[string]any{"rows_in_request": n, "lost": lost, "duplicated": dup}
	if lost > 0 {
		enc := "array16 (<65536 rows)"
		if n >= 65536 {
			enc = "array32 (>=65536 rows)"
		}
		c.Violation("large row-format WAL entry: acknowledged rows lost after crash ["+enc+"]", d)
	}
	if dup > 0 {
		c.Violation("large row-format WAL entry: rows stored more than once although nothing had been flushed before the kill", d)
	}
	c.Sample(d)
}
