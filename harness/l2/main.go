// Harness for the properties that need the REAL arc process (L2): C05 (WAL crash
// recovery), C04 (no payload crashes the server), C07 (backpressure / outages).
package main

import (
	"flag"
	"fmt"
	"os"

	"github.com/basekick-labs/arc/internal/zzverif/vlib"
)

func main() {
	if len(os.Args) > 1 && os.Args[1] == "walshort" {
		walShortChild(os.Args[2:])
		return
	}
	prop := flag.String("prop", "", "property id")
	flag.String("replay", "", "replay file")
	flag.Parse()
	switch *prop {
	case "C05":
		vlib.Main("C05", "fault_enumeration", checkC05)
	case "C07":
		vlib.Main("C07", "fault_enumeration", checkC07)
	case "C04":
		vlib.Main("C04", "exploration", checkC04)
	default:
		fmt.Println("unknown property", *prop)
		os.Exit(2)
	}
}
