package main

// C05 family (D): a WAL write that fails part-way WITHOUT a crash. The WAL file cannot
// grow beyond a byte limit (RLIMIT_FSIZE, SIGXFSZ ignored: write(2) then writes what
// fits and the next one returns EFBIG - what a full disk or a quota does), placed
// inside entry k: the writer sees a short write, rotates to a new file and retries.
// Space then comes back, more acknowledged entries follow, the writer is closed without
// purge (the process "dies") and startup recovery runs. Every acknowledged entry has
// to come back exactly once. The limit is process-wide, so each case runs in a child
// process of this binary (`<exe> walshort ...`) whose only file writes are the WAL's.

import (
	"bytes"
	"context"
	"encoding/json"
	"fmt"
	"os"
	"os/exec"
	"os/signal"
	"sort"
	"strconv"
	"strings"
	"sync"
	"sync/atomic"
	"syscall"
	"time"

	"github.com/Basekick-Labs/msgpack/v6"
	"github.com/basekick-labs/arc/internal/wal"
	"github.com/basekick-labs/arc/internal/zzverif/vlib"
	"github.com/rs/zerolog"
)

type shortOut struct {
	Err          string  `json:"err,omitempty"`
	Inconclusive string  `json:"inconclusive,omitempty"`
	Acked        []int64 `json:"acknowledged_seq"`
	Persisted    []int64 `json:"acknowledged_and_counted_as_written_by_the_writer"`
	Recovered    []int64 `json:"recovered_seq"`
	WrongRoute   int     `json:"entries_replayed_to_another_database_or_measurement"`
	FailedWrites int64   `json:"failed_writes"`
	Rotations    int64   `json:"rotations"`
	Corrupted    int     `json:"corrupted_entries_reported_by_recovery"`
	Files        int     `json:"wal_files_recovered"`
}

func shortPayload(seq int64, pad int) []byte {
	var buf bytes.Buffer
	enc := msgpack.NewEncoder(&buf)
	_ = enc.EncodeMapLen(2)
	_ = enc.EncodeString("m")
	_ = enc.EncodeString("cpu")
	_ = enc.EncodeString("columns")
	_ = enc.EncodeMapLen(3)
	_ = enc.EncodeString("time")
	_ = enc.EncodeArrayLen(1)
	_ = enc.EncodeInt64(1700000000000000 + seq)
	_ = enc.EncodeString("seq")
	_ = enc.EncodeArrayLen(1)
	_ = enc.EncodeInt64(seq)
	_ = enc.EncodeString("pad")
	_ = enc.EncodeArrayLen(1)
	_ = enc.EncodeString(strings.Repeat("a", pad))
	return buf.Bytes()
}

// walShortChild: <dir> <k> <fragment> <n> <pad>
func walShortChild(a []string) {
	out := shortOut{}
	emit := func() {
		_ = json.NewEncoder(os.Stdout).Encode(out)
		os.Exit(0)
	}
	if len(a) != 5 {
		out.Err = "bad args"
		emit()
	}
	dir := a[0]
	k, _ := strconv.Atoi(a[1])
	frag, _ := strconv.Atoi(a[2])
	n, _ := strconv.Atoi(a[3])
	pad, _ := strconv.Atoi(a[4])
	const db = "prod"
	entrySize := wal.WALEntryHeaderSize + 1 + 2 + len(db) + len(shortPayload(1, pad))
	limit := uint64(wal.WALFileHeaderSize + k*entrySize - frag)

	signal.Ignore(syscall.SIGXFSZ)
	var old syscall.Rlimit
	if err := syscall.Getrlimit(syscall.RLIMIT_FSIZE, &old); err != nil {
		out.Inconclusive = "getrlimit: " + err.Error()
		emit()
	}
	if err := syscall.Setrlimit(syscall.RLIMIT_FSIZE, &syscall.Rlimit{Cur: limit, Max: old.Max}); err != nil {
		out.Inconclusive = "setrlimit: " + err.Error()
		emit()
	}
	w, err := wal.NewWriter(&wal.WriterConfig{WALDir: dir, SyncMode: wal.SyncModeAsync, MaxSizeBytes: 100 << 20, MaxAge: time.Hour, Logger: zerolog.Nop()})
	if err != nil {
		out.Err = "NewWriter: " + err.Error()
		emit()
	}
	waitFor := func(cond func() bool) bool {
		for i := 0; i < 5000; i++ {
			if cond() {
				return true
			}
			time.Sleep(2 * time.Millisecond)
		}
		return false
	}
	appendSeq := func(seq int64) {
		if err := w.AppendRawWithMeta(db, shortPayload(seq, pad)); err == nil {
			out.Acked = append(out.Acked, seq)
		}
	}
	for seq := int64(1); seq <= int64(k); seq++ {
		appendSeq(seq)
	}
	if !waitFor(func() bool {
		return atomic.LoadInt64(&w.TotalEntries)+atomic.LoadInt64(&w.FailedWrites) >= int64(k) && atomic.LoadInt64(&w.FailedWrites) >= 1
	}) {
		out.Inconclusive = fmt.Sprintf("the size limit never produced a failed write (entries=%d failed=%d)", atomic.LoadInt64(&w.TotalEntries), atomic.LoadInt64(&w.FailedWrites))
	}
	time.Sleep(20 * time.Millisecond) // let the retry on the new file finish
	// entries 1..k-1 fit under the limit; entry k reached a file completely only if the
	// writer counted it (first attempt cut short, retry on the new file succeeded). When
	// the retry failed as well the entry never reached any file: not C05's subject.
	kWritten := atomic.LoadInt64(&w.TotalEntries) >= int64(k)
	_ = syscall.Setrlimit(syscall.RLIMIT_FSIZE, &old)
	for seq := int64(k + 1); seq <= int64(n); seq++ {
		appendSeq(seq)
	}
	waitFor(func() bool { return atomic.LoadInt64(&w.TotalEntries) >= int64(n) })
	out.FailedWrites, out.Rotations = atomic.LoadInt64(&w.FailedWrites), atomic.LoadInt64(&w.TotalRotations)
	for _, s := range out.Acked {
		if s != int64(k) || kWritten {
			out.Persisted = append(out.Persisted, s)
		}
	}
	_ = w.Close() // no purge: the files stay, as after a crash

	var mu sync.Mutex
	columnar := func(ctx context.Context, database, measurement string, columns map[string][]interface{}) error {
		mu.Lock()
		defer mu.Unlock()
		if database != db || measurement != "cpu" {
			out.WrongRoute++
		}
		for _, v := range columns["seq"] {
			switch x := v.(type) {
			case int64:
				out.Recovered = append(out.Recovered, x)
			case int8:
				out.Recovered = append(out.Recovered, int64(x))
			case uint8:
				out.Recovered = append(out.Recovered, int64(x))
			case int16:
				out.Recovered = append(out.Recovered, int64(x))
			case int32:
				out.Recovered = append(out.Recovered, int64(x))
			case uint64:
				out.Recovered = append(out.Recovered, int64(x))
			}
		}
		return nil
	}
	rows := func(ctx context.Context, records []map[string]interface{}) error { return nil }
	st, err := wal.NewRecovery(dir, zerolog.Nop()).RecoverWithOptions(context.Background(), rows, &wal.RecoveryOptions{ColumnarCallback: columnar})
	if err != nil {
		out.Err = "recover: " + err.Error()
		emit()
	}
	out.Corrupted, out.Files = int(st.CorruptedEntries), int(st.RecoveredFiles)
	sort.Slice(out.Recovered, func(i, j int) bool { return out.Recovered[i] < out.Recovered[j] })
	emit()
}

func runC05ShortWrites(c *vlib.Ctx) {
	self, err := os.Executable()
	if err != nil {
		c.Inconclusive("os.Executable: " + err.Error())
		return
	}
	type cs struct{ k, frag, n, pad int }
	var cases []cs
	pad := 600
	entrySize := wal.WALEntryHeaderSize + 1 + 2 + 4 + len(shortPayload(1, pad))
	// cut positions inside entry k: in the entry header, in the envelope, in the payload, one byte short
	frags := []int{1, 2, 7, entrySize / 2, entrySize - wal.WALEntryHeaderSize - 3, entrySize - wal.WALEntryHeaderSize, entrySize - 5, entrySize - 1}
	for _, k := range []int{1, 3} {
		for _, f := range frags {
			cases = append(cases, cs{k: k, frag: f, n: k + 3, pad: pad})
		}
	}
	if !c.Quick() {
		for f := 1; f < entrySize; f += 13 {
			cases = append(cases, cs{k: 2, frag: f, n: 6, pad: pad})
		}
	}
	var wg sync.WaitGroup
	sem := make(chan struct{}, 8)
	for _, x := range cases {
		wg.Add(1)
		sem <- struct{}{}
		go func(x cs) {
			defer wg.Done()
			defer func() { <-sem }()
			dir := vlib.DiskTempDir("c05short")
			defer os.RemoveAll(dir)
			ctx, cancel := context.WithTimeout(context.Background(), 90*time.Second)
			defer cancel()
			cmd := exec.CommandContext(ctx, self, "walshort", dir, strconv.Itoa(x.k), strconv.Itoa(x.frag), strconv.Itoa(x.n), strconv.Itoa(x.pad))
			b, err := cmd.Output()
			var o shortOut
			if err != nil || json.Unmarshal(b, &o) != nil {
				c.Inconclusive(fmt.Sprintf("short-write child (k=%d frag=%d): %v %.200s", x.k, x.frag, err, b))
				return
			}
			if o.Inconclusive != "" || o.Err != "" {
				c.Inconclusive(fmt.Sprintf("short-write child (k=%d frag=%d): %s %s", x.k, x.frag, o.Inconclusive, o.Err))
				return
			}
			c.Eval()
			c.Count("short_write_cases", 1)
			c.Count("short_write_entries_acknowledged", int64(len(o.Acked)))
			c.Count("short_write_failed_writes_observed", o.FailedWrites)
			if o.FailedWrites >= 1 {
				c.Nontrivial(fmt.Sprintf("short-write/%d/%d", x.k, x.frag))
			}
			got := map[int64]int{}
			for _, s := range o.Recovered {
				got[s]++
			}
			lost, dup := []int64{}, []int64{}
			if len(o.Persisted) < len(o.Acked) {
				c.Count("short_write_entries_lost_by_a_failed_retry_not_judged", int64(len(o.Acked)-len(o.Persisted)))
			}
			for _, s := range o.Persisted {
				if got[s] == 0 {
					lost = append(lost, s)
				} else if got[s] > 1 {
					dup = append(dup, s)
				}
			}
			d := map[string]any{"cut_entry": x.k, "bytes_of_it_that_did_not_fit": x.frag, "entry_size": entrySize, "entries": x.n, "child": o, "lost": lost, "recovered_more_than_once": dup}
			if len(lost) > 0 {
				c.Violation("WAL write failed part-way without a crash (size limit), writer rotated and retried: acknowledged entries missing after recovery", d)
			}
			if len(dup) > 0 {
				c.Violation("WAL write failed part-way without a crash (size limit), writer rotated and retried: entries recovered more than once", d)
			}
			if o.WrongRoute > 0 {
				c.Violation("WAL write failed part-way without a crash: entry replayed to another database or measurement", d)
			}
		}(x)
	}
	wg.Wait()
}
