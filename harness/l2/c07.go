package main

import (
	"fmt"
	"sort"
	"strings"
	"sync"
	"time"

	"github.com/basekick-labs/arc/internal/zzverif/vlib"
)

// one fault-sequence scenario against a real arc process
type c07Scenario struct {
	Kind string // transient-outage | outage-through-shutdown | queue-saturation | queue-saturation-nowal
	Var  int
}

type c07Run struct {
	a      *Arc
	rid    int64
	acked  map[int64]string // rid -> phase in which its request was acknowledged
	nacked map[int64]string
	steps  []string
}

func (r *c07Run) log(f string, a ...any) { r.steps = append(r.steps, fmt.Sprintf(f, a...)) }

// send one line-protocol request of n rows (one measurement => one WAL entry)
func (r *c07Run) send(phase string, n int) bool {
	var sb strings.Builder
	var rids []int64
	for i := 0; i < n; i++ {
		r.rid++
		rids = append(rids, r.rid)
		fmt.Fprintf(&sb, "c07m,host=h%d rid=%di,v=%d %d\n", i%3, r.rid, i, 1_700_000_000+int(r.rid%3000))
	}
	code, _, err := r.a.Post("/write?db=c07db&precision=s", nil, []byte(sb.String()))
	ok := err == nil && code >= 200 && code < 300
	for _, id := range rids {
		if ok {
			r.acked[id] = phase
		} else {
			r.nacked[id] = phase
		}
	}
	return ok
}

func countEvents(evs []Event) map[string]int {
	m := map[string]int{}
	for _, e := range evs {
		if s, ok := e["ev"].(string); ok {
			m[s]++
		}
	}
	return m
}

func runC07(c *vlib.Ctx, sc c07Scenario) {
	wal := sc.Kind != "queue-saturation-nowal"
	cfg := ArcCfg{MaxBufferSize: 20, MaxBufferAgeMS: 300, FlushWorkers: 1, FlushQueueSize: 100, WAL: wal, WALMaxAgeSec: 2, RecoveryIntSec: 1}
	if strings.HasPrefix(sc.Kind, "queue-saturation") {
		cfg.MaxBufferSize = 3
		cfg.FlushQueueSize = 2
	}
	a := NewArc(cfg)
	defer a.Remove()
	r := &c07Run{a: a, rid: int64(sc.Var+1) * 1_000_000, acked: map[int64]string{}, nacked: map[int64]string{}}
	if ready, _ := a.Start(); !ready {
		c.Inconclusive("arc did not become ready")
		return
	}
	healthy := func(phase string, n int, gap time.Duration) {
		for i := 0; i < n; i++ {
			r.send(phase, 3)
			time.Sleep(gap)
		}
	}
	faultSeen := false
	switch sc.Kind {
	case "transient-outage":
		healthy("before-outage", 4+sc.Var, 50*time.Millisecond)
		time.Sleep(900 * time.Millisecond)
		a.SetCtl("storage.local.write fail outage\n")
		r.log("storage writes fail")
		healthy("during-outage", 5, 100*time.Millisecond)
		time.Sleep(1200 * time.Millisecond) // age flush fires and fails
		a.SetCtl("")
		r.log("storage healed")
		// keep writing so that the WAL rotates by age and maintenance ticks run
		for i := 0; i < 12; i++ {
			r.send("after-heal", 3)
			time.Sleep(time.Second)
		}
	case "long-outage":
		// the outage outlasts a WAL rotation (2 s): the rows of failed flushes sit in two
		// or more rotated files of different ages when the maintenance ticks run
		healthy("before-outage", 3, 50*time.Millisecond)
		time.Sleep(900 * time.Millisecond)
		a.SetCtl("storage.local.write fail outage\n")
		r.log("storage writes fail (long outage)")
		for i := 0; i < 22+sc.Var; i++ {
			r.send("during-outage", 3)
			time.Sleep(250 * time.Millisecond)
		}
		a.SetCtl("")
		r.log("storage healed")
		for i := 0; i < 14; i++ {
			r.send("after-heal", 3)
			time.Sleep(time.Second)
		}
	case "outage-through-shutdown":
		healthy("before-outage", 4+sc.Var, 50*time.Millisecond)
		time.Sleep(900 * time.Millisecond)
		a.SetCtl("storage.local.write fail outage\n")
		r.log("storage writes fail")
		healthy("during-outage", 5, 100*time.Millisecond)
		if sc.Var%2 == 1 {
			time.Sleep(1200 * time.Millisecond) // let the age flush fail first
		}
		r.log("SIGTERM while storage is failing")
		if !a.Term(60 * time.Second) {
			c.Inconclusive("graceful shutdown did not finish within the watchdog")
			return
		}
		a.SetCtl("")
		r.log("storage healed, restart")
		if ready, _ := a.Start(); !ready {
			c.Violation("server does not start after shutdown during storage outage", map[string]any{"steps": r.steps, "log": a.LogTail(a.runs, 30)})
			return
		}
	default: // queue saturation
		a.SetCtl("ingest.flush.before_write sleep 1500\n")
		r.log("flush worker slowed (1 worker, queue of 2, buffer of 3 rows)")
		for i := 0; i < 30; i++ {
			r.send("saturated", 3)
		}
		time.Sleep(500 * time.Millisecond)
		a.SetCtl("")
		r.log("flush worker back to normal")
		healthy("after-saturation", 3, 200*time.Millisecond)
	}
	ev := countEvents(a.Events())
	switch sc.Kind {
	case "transient-outage", "outage-through-shutdown", "long-outage":
		faultSeen = ev["ingest.flush.write_failed"] > 0 || sc.Kind == "outage-through-shutdown"
	default:
		faultSeen = ev["ingest.enqueue.queue_full"] > 0
	}
	// bounded progress: maintenance ticks (1 s), WAL safe age (30 s), then one graceful restart
	var want []int64
	for id := range r.acked {
		want = append(want, id)
	}
	sort.Slice(want, func(i, j int) bool { return want[i] < want[j] })
	if wal && sc.Kind != "outage-through-shutdown" {
		a.Post("/api/v1/write/line-protocol/flush", nil, nil)
		if _, ok := waitRows(a.DataRoot(), want, 40*time.Second); !ok {
			r.log("rows still missing after 40 s of maintenance ticks; restarting gracefully")
		}
	}
	if !a.Term(60 * time.Second) {
		c.Inconclusive("graceful shutdown did not finish within the watchdog")
		return
	}
	if ready, _ := a.Start(); !ready {
		c.Violation("server does not start after the fault sequence: "+sc.Kind, map[string]any{"steps": r.steps, "log": a.LogTail(a.runs, 30)})
		return
	}
	a.Post("/api/v1/write/line-protocol/flush", nil, nil)
	st, _ := waitRows(a.DataRoot(), want, 20*time.Second)
	time.Sleep(500 * time.Millisecond)
	if st2, _, err := readStore(a.DataRoot()); err == nil {
		st = st2
	}
	ev = countEvents(a.Events())
	signs := a.CrashSigns()
	a.Kill()
	c.Eval()
	for k, v := range ev {
		if strings.HasPrefix(k, "ingest.enqueue.") || strings.HasPrefix(k, "ingest.flush.write_failed") || strings.HasPrefix(k, "main.walmaint") || k == "wal.purged" || k == "wal.recover.replayed" {
			c.Count("event "+k, int64(v))
		}
	}
	if faultSeen {
		c.Nontrivial(fmt.Sprintf("%s/%d", sc.Kind, sc.Var))
		c.Count("scenarios_with_fault_observed", 1)
	} else {
		c.Count("scenarios_fault_not_reached", 1)
	}
	detail := func(extra map[string]any) map[string]any {
		d := map[string]any{"scenario": sc.Kind, "variant": sc.Var, "steps": r.steps, "events": ev, "acked_rows": len(r.acked), "unacked_rows": len(r.nacked)}
		for k, v := range extra {
			d[k] = v
		}
		return d
	}
	if len(signs) > 0 {
		c.Violation("server panicked during fault sequence: "+sc.Kind, detail(map[string]any{"signs": signs}))
	}
	lostBy := map[string]int{}
	dupBy := map[string]int{}
	for _, id := range want {
		n := len(st[id])
		c.Count("acked_rows_checked", 1)
		if n == 0 {
			lostBy[r.acked[id]]++
		} else if n > 1 {
			dupBy[r.acked[id]]++
		}
	}
	walTag := "WAL enabled"
	if !wal {
		walTag = "WAL disabled"
	}
	// the phase in which the affected rows were written is timing dependent (which
	// WAL file they share with the failed flush), so it is detail, not signature
	if len(lostBy) > 0 {
		if wal {
			c.Violation(fmt.Sprintf("acknowledged rows lost after storage works again (%s, %s)", sc.Kind, walTag), detail(map[string]any{"lost_rows_by_phase": lostBy}))
		} else {
			c.Violation(fmt.Sprintf("write acknowledged although its rows were dropped (%s, %s)", sc.Kind, walTag), detail(map[string]any{"lost_rows_by_phase": lostBy}))
		}
	}
	if len(dupBy) > 0 {
		c.Violation(fmt.Sprintf("acknowledged rows stored more than once (%s, %s)", sc.Kind, walTag), detail(map[string]any{"duplicated_rows_by_phase": dupBy}))
	}
	c.Sample(detail(map[string]any{"lost": lostBy, "duplicated": dupBy}))
}

func checkC07(c *vlib.Ctx) {
	c.Rule("fault sequences against the real arc process (1 flush worker, 300 ms buffer age, WAL rotated every 2 s, WAL maintenance tick every second): transient storage-write outage (failpoint in LocalBackend.Write) with writes before/during/after; a long outage (~6 s) that outlasts a WAL rotation so the rows of failed flushes sit in several rotated files of different ages; outage that lasts through a graceful SIGTERM shutdown then heals before restart; flush-queue saturation (queue of 2, slowed worker) with the WAL enabled and disabled. After faults stop: maintenance ticks for up to 40 s, one graceful restart, flush; then every acknowledged row id must be stored exactly once (WAL enabled) and no acknowledged row may be missing (WAL disabled). non-trivial = scenarios in which the fault was actually observed in the hook trace (flush write failed / queue_full)")
	c.Assume("'eventually' is restated as bounded progress: 40 s of maintenance ticks (safe age 30 s) plus one graceful restart with startup recovery")
	c.Assume("line-protocol requests of one measurement; rows carry unique ids; storage is read with an independent Parquet reader")
	variants := c.N(2, 12)
	var scs []c07Scenario
	for v := 0; v < variants; v++ {
		for _, k := range []string{"transient-outage", "long-outage", "outage-through-shutdown", "queue-saturation", "queue-saturation-nowal"} {
			scs = append(scs, c07Scenario{k, v})
		}
	}
	var wg sync.WaitGroup
	sem := make(chan struct{}, 8)
	for _, sc := range scs {
		wg.Add(1)
		sem <- struct{}{}
		go func(sc c07Scenario) {
			defer wg.Done()
			defer func() { <-sem }()
			runC07(c, sc)
		}(sc)
	}
	wg.Wait()
	c.Floor(4)
}
