package main

import (
	"bufio"
	"bytes"
	"encoding/json"
	"fmt"
	"io"
	"net"
	"net/http"
	"os"
	"os/exec"
	"path/filepath"
	"strings"
	"syscall"
	"time"

	"github.com/basekick-labs/arc/internal/zzverif/vlib"
)

// ArcCfg are the knobs of one real arc child process.
type ArcCfg struct {
	MaxBufferSize  int
	MaxBufferAgeMS int
	FlushWorkers   int
	FlushQueueSize int
	WAL            bool
	WALMaxSizeMB   int
	WALMaxAgeSec   int
	RecoveryIntSec int
	ExtraEnv       []string
}

// Arc is a handle on one arc instance directory (state survives restarts) and its
// currently running process, if any.
type Arc struct {
	Dir       string
	Port      int
	Cfg       ArcCfg
	cmd       *exec.Cmd
	runs      int
	exited    chan struct{}
	exitErr   error
	CtlPath   string
	TracePath string
	ReqLog    string
	client    *http.Client
}

func freePort() int {
	l, err := net.Listen("tcp", "127.0.0.1:0")
	if err != nil {
		panic(err)
	}
	defer l.Close()
	return l.Addr().(*net.TCPAddr).Port
}

func arcBinary() string {
	return filepath.Join(os.Getenv("VERIF_BUILD"), "arcbin")
}

// NewArc creates the instance directory and its arc.toml.
func NewArc(cfg ArcCfg) *Arc {
	dir := vlib.DiskTempDir("arc")
	a := &Arc{Dir: dir, Port: freePort(), Cfg: cfg, CtlPath: filepath.Join(dir, "verif.ctl"),
		TracePath: filepath.Join(dir, "verif.trace"), ReqLog: filepath.Join(dir, "requests.log"),
		client: &http.Client{Timeout: 60 * time.Second}}
	if cfg.FlushWorkers == 0 {
		cfg.FlushWorkers = 2
	}
	if cfg.FlushQueueSize == 0 {
		cfg.FlushQueueSize = 100
	}
	if cfg.WALMaxSizeMB == 0 {
		cfg.WALMaxSizeMB = 64
	}
	if cfg.WALMaxAgeSec == 0 {
		cfg.WALMaxAgeSec = 3600
	}
	if cfg.RecoveryIntSec == 0 {
		cfg.RecoveryIntSec = 3600
	}
	a.Cfg = cfg
	toml := fmt.Sprintf(`[server]
port = %d
host = "127.0.0.1"
[log]
level = "info"
format = "json"
[database]
memory_limit = "512MB"
max_connections = 4
thread_count = 2
temp_directory = %q
[storage]
backend = "local"
local_path = %q
[ingest]
max_buffer_size = %d
max_buffer_age_ms = %d
flush_workers = %d
flush_queue_size = %d
shard_count = 2
[compaction]
enabled = false
[auth]
enabled = false
db_path = %q
[retention]
enabled = false
[continuous_query]
enabled = false
[telemetry]
enabled = false
[backup]
enabled = false
[wal]
enabled = %v
directory = %q
sync_mode = "fsync"
max_size_mb = %d
max_age_seconds = %d
recovery_interval_seconds = %d
buffer_size = 10000
`, a.Port, filepath.Join(dir, "duckdb-tmp"), filepath.Join(dir, "data"), cfg.MaxBufferSize, cfg.MaxBufferAgeMS,
		cfg.FlushWorkers, cfg.FlushQueueSize, filepath.Join(dir, "arc.db"), cfg.WAL, filepath.Join(dir, "wal"),
		cfg.WALMaxSizeMB, cfg.WALMaxAgeSec, cfg.RecoveryIntSec)
	if err := os.WriteFile(filepath.Join(dir, "arc.toml"), []byte(toml), 0o644); err != nil {
		panic(err)
	}
	os.WriteFile(a.CtlPath, nil, 0o644)
	return a
}

// DataRoot is the storage root of the instance.
func (a *Arc) DataRoot() string { return filepath.Join(a.Dir, "data") }

// WALDir is the WAL directory.
func (a *Arc) WALDir() string { return filepath.Join(a.Dir, "wal") }

// LogPath returns the stdout/stderr file of run k (1-based).
func (a *Arc) LogPath(k int) string { return filepath.Join(a.Dir, fmt.Sprintf("arc-run%d.log", k)) }

// SetCtl replaces the failpoint rules (see internal/verifhook).
func (a *Arc) SetCtl(rules string) {
	tmp := a.CtlPath + ".tmp"
	os.WriteFile(tmp, []byte(rules), 0o644)
	os.Rename(tmp, a.CtlPath)
}

// Start launches the child and waits (bounded) for readiness. Returns false if the
// process exited before becoming ready (e.g. killed by a startup failpoint) or the
// watchdog fired (ready=false, exited=false).
func (a *Arc) Start() (ready bool, exitedEarly bool) {
	a.runs++
	logf, err := os.Create(a.LogPath(a.runs))
	if err != nil {
		panic(err)
	}
	cmd := exec.Command(arcBinary())
	cmd.Dir = a.Dir
	cmd.Stdout, cmd.Stderr = logf, logf
	cmd.Env = append(os.Environ(), "VERIF_CTL="+a.CtlPath, "VERIF_TRACE="+a.TracePath, "GOMAXPROCS=4", "GOTRACEBACK=all")
	cmd.Env = append(cmd.Env, a.Cfg.ExtraEnv...)
	cmd.SysProcAttr = &syscall.SysProcAttr{Pdeathsig: syscall.SIGKILL}
	if err := cmd.Start(); err != nil {
		panic(err)
	}
	a.cmd = cmd
	a.exited = make(chan struct{})
	go func(c *exec.Cmd, ch chan struct{}) {
		a.exitErr = c.Wait()
		logf.Close()
		close(ch)
	}(cmd, a.exited)
	for i := 0; i < 1200; i++ {
		select {
		case <-a.exited:
			return false, true
		default:
		}
		resp, err := a.client.Get(fmt.Sprintf("http://127.0.0.1:%d/health", a.Port))
		if err == nil {
			io.Copy(io.Discard, resp.Body)
			resp.Body.Close()
			if resp.StatusCode == 200 {
				return true, false
			}
		}
		time.Sleep(50 * time.Millisecond)
	}
	return false, false
}

// Running reports whether the child is still alive.
func (a *Arc) Running() bool {
	if a.cmd == nil {
		return false
	}
	select {
	case <-a.exited:
		return false
	default:
		return true
	}
}

// Kill sends SIGKILL and waits for the exit.
func (a *Arc) Kill() {
	if a.cmd == nil {
		return
	}
	a.cmd.Process.Signal(syscall.SIGKILL)
	<-a.exited
}

// Term sends SIGTERM (graceful shutdown) and waits up to d; returns false if it had
// to be killed.
func (a *Arc) Term(d time.Duration) bool {
	if a.cmd == nil {
		return true
	}
	a.cmd.Process.Signal(syscall.SIGTERM)
	select {
	case <-a.exited:
		return true
	case <-time.After(d):
		a.Kill()
		return false
	}
}

// WaitExit waits up to d for the child to exit by itself (e.g. crash failpoint).
func (a *Arc) WaitExit(d time.Duration) bool {
	select {
	case <-a.exited:
		return true
	case <-time.After(d):
		return false
	}
}

// Post sends a request; every request is appended to the on-disk request log BEFORE
// it is sent. err != nil means no HTTP response was received.
func (a *Arc) Post(path string, hdr map[string]string, body []byte) (int, []byte, error) {
	f, _ := os.OpenFile(a.ReqLog, os.O_APPEND|os.O_CREATE|os.O_WRONLY, 0o644)
	if f != nil {
		fmt.Fprintf(f, "POST %s %v %dB %x\n", path, hdr, len(body), body[:min(len(body), 4096)])
		f.Close()
	}
	req, _ := http.NewRequest("POST", fmt.Sprintf("http://127.0.0.1:%d%s", a.Port, path), bytes.NewReader(body))
	for k, v := range hdr {
		req.Header.Set(k, v)
	}
	resp, err := a.client.Do(req)
	if err != nil {
		return 0, nil, err
	}
	defer resp.Body.Close()
	b, _ := io.ReadAll(resp.Body)
	return resp.StatusCode, b, nil
}

// Get sends a GET.
func (a *Arc) Get(path string) (int, []byte, error) {
	resp, err := a.client.Get(fmt.Sprintf("http://127.0.0.1:%d%s", a.Port, path))
	if err != nil {
		return 0, nil, err
	}
	defer resp.Body.Close()
	b, _ := io.ReadAll(resp.Body)
	return resp.StatusCode, b, nil
}

// Event is one line of the hook trace.
type Event map[string]any

// Events parses the trace file (all runs so far, in order).
func (a *Arc) Events() []Event {
	f, err := os.Open(a.TracePath)
	if err != nil {
		return nil
	}
	defer f.Close()
	var out []Event
	sc := bufio.NewScanner(f)
	sc.Buffer(make([]byte, 1<<20), 1<<26)
	for sc.Scan() {
		var e Event
		if json.Unmarshal(sc.Bytes(), &e) == nil {
			out = append(out, e)
		}
	}
	return out
}

// CrashSigns scans every run's log for signs that the process died by itself:
// Go panics, runtime fatal errors, checkptr, data races.
func (a *Arc) CrashSigns() []string {
	var out []string
	for k := 1; k <= a.runs; k++ {
		b, err := os.ReadFile(a.LogPath(k))
		if err != nil {
			continue
		}
		for _, line := range strings.Split(string(b), "\n") {
			if strings.HasPrefix(line, "panic:") || strings.HasPrefix(line, "fatal error:") || strings.Contains(line, "WARNING: DATA RACE") ||
				strings.HasPrefix(line, "unexpected fault address") || strings.Contains(line, "[signal SIG") {
				out = append(out, fmt.Sprintf("run%d: %s", k, line))
			}
		}
	}
	return out
}

// LogTail returns the last n lines of run k's log.
func (a *Arc) LogTail(k, n int) []string {
	b, _ := os.ReadFile(a.LogPath(k))
	lines := strings.Split(string(b), "\n")
	if len(lines) > n {
		lines = lines[len(lines)-n:]
	}
	return lines
}

// Remove deletes the instance directory (after making sure the child is dead).
func (a *Arc) Remove() {
	if a.Running() {
		a.Kill()
	}
	os.RemoveAll(a.Dir)
}
