package main

import (
	"fmt"
	"os"
	"sort"
	"strings"
	"sync"
	"time"

	"github.com/basekick-labs/arc/internal/zzverif/vlib"
)

const parallelCases = 8

// runCases runs the specs with bounded parallelism; done is called as each case ends.
func runCases(specs []*caseSpec, seed uint64, par int, done func(*caseResult)) {
	sem := make(chan struct{}, par)
	var wg sync.WaitGroup
	var mu sync.Mutex
	for _, s := range specs {
		wg.Add(1)
		sem <- struct{}{}
		go func(s *caseSpec) {
			defer wg.Done()
			defer func() { <-sem }()
			r := runCase(s, seed)
			mu.Lock()
			done(r)
			mu.Unlock()
		}(s)
	}
	wg.Wait()
}

// account books one batch of case results (as reported by a child process).
func account(c *vlib.Ctx, results []caseOut, comps map[string]bool) {
	sort.Slice(results, func(i, j int) bool { return results[i].Index < results[j].Index })
	for _, r := range results {
		c.Eval()
		keys := make([]string, 0, len(r.Stats))
		for k := range r.Stats {
			keys = append(keys, k)
		}
		sort.Strings(keys)
		for _, k := range keys {
			c.Count(k, r.Stats[k])
		}
		if os.Getenv("VERIF_DEBUG") != "" {
			fmt.Printf("DEBUG case %s/%d class=%s final=%s wall_ms=%d files=%d\n", r.Variant, r.Index, r.Class, r.Final, r.WallMS, r.Stats["parquet_files_read"])
		}
		c.Count("cases_"+r.Variant, 1)
		c.Count("cases_final_"+r.Final, 1)
		if r.Inconclusive != "" {
			c.Inconclusive(fmt.Sprintf("%s case %d: %s", r.Variant, r.Index, r.Inconclusive))
			continue
		}
		if r.Stats["rows_compared"] > 0 {
			c.Nontrivial(r.Key)
		}
		for _, k := range r.Compositions {
			comps[k] = true
		}
		for _, f := range r.Findings {
			if f.Detail == nil {
				f.Detail = map[string]any{}
			}
			f.Detail["seed"] = c.Seed
			c.Violation(f.Sig, f.Detail)
		}
	}
}

// runPhase executes cases [from, from+n) of a kind in a child process of bin and books
// the results. A child that dies (a panic in one of arc's flush goroutines cannot be
// recovered in-process) is a refuting observation, classified by panic kind and the
// first internal/ingest frame.
func runPhase(c *vlib.Ctx, bin, kind string, from, n int, reduced bool, par int, extraEnv []string, comps map[string]bool) {
	if n <= 0 {
		return
	}
	res := runChild(bin, childSpec{Kind: kind, From: from, N: n, Reduced: reduced, Par: par}, extraEnv, 25*time.Minute)
	account(c, res.Cases, comps)
	switch {
	case res.TimedOut:
		c.Inconclusive(fmt.Sprintf("%s cases %d..%d: child process exceeded its watchdog", kind, from, from+n-1))
	case res.Crash != "":
		c.Count("cases_not_run_after_child_crash", int64(n-len(res.Cases)))
		c.Violation("arc crashed while ingesting/flushing: "+res.Crash, map[string]any{"kind": kind, "from": from, "n": n, "seed": c.Seed, "cases_finished_before_crash": len(res.Cases), "output_tail": res.Tail})
	case !res.Done:
		c.Inconclusive(fmt.Sprintf("%s cases %d..%d: child ended without a completion marker: %s", kind, from, from+n-1, res.Tail))
	}
}

func checkC03(c *vlib.Ctx) {
	c.Rule("a case = one real ArrowBuffer over a real local storage backend with randomized MaxBufferSize (1..100000), MaxBufferAgeMS (10 ms..60 s), FlushWorkers 1-8, ShardCount 1-32, compression/dictionary/page-version, optional decimal(18,4) column, optional pause inside the storage write (where arc has released the shard lock); 1-8 writer goroutines issue WriteColumnarRecord / WriteColumnarDirect / Write (columnar, typed, row-format and mixed multi-record, msgpack-decoded typed and generic records) / WriteTypedColumnarDirect over 1-2 databases x 1-3 measurements; batch schemas are subsets of a 6-column pool (recurring variants plus per-batch type changes), 10%/50% nulls and all-null columns, every TypedColumnBatch validity representation; timestamps single-hour / pre-sorted / multi-hour (2-12 h) / +-1 us around hour boundaries / straddling the epoch / far pre-1970 / one instant; in ~60% of the cases 1-2 extra writers send to one database/measurement (own or shared with the regular workload) batches whose 2-3 value columns keep their names while their pairwise distinct types are exchanged/rotated among them from phase to phase (both directions, 8-12 phases of 1-3 batches per writer, optional fixed-type columns, all single-batch entry points): every phase change is a schema-change flush between two schemas with equal column names and equal type multisets; concurrent mid-run FlushAll calls; in the churn class extra writes with foreign schemas are issued from inside the storage write of a flush (the window in which arc has released the shard lock) to drive the schema-change loop to its cap. Triggers exercised: size, age timer, schema change, FlushAll, Close. After writers stop the case quiesces (final mode explicit: FlushAll; age: wait for the timer alone; close: drain, write a below-threshold tail, Close immediately), then every Parquet file is read back with arrow-go. non-trivial = distinct case whose stored rows were compared; interleavings are counted as distinct file compositions (sets of writer:batch per stored file)")
	c.Assume("a write is accepted iff the exported call returned nil; rows of a multi-record Write() that returned an error are indeterminate (stored at most once) because records before the failing one were buffered individually")
	c.Assume("documented coercions only: any Go integer kind -> int64, float32 -> float64 (exact values), decimal inputs (string / integer / float64 multiple of 0.25 / decimal128) -> decimal(18,4); a column is homogeneous within one batch; an all-null column is stored as an all-null column of any type; in the row format a null cell is an omitted field and a zero Timestamp means unset (not generated)")
	c.Assume("column names are plain (no empty or '_'-prefixed names: C04); no WAL attached; flush queue capacity 131072 is never reached (overflow: C07); GetStats counters are used only to wait, never to decide; a case whose wait expires is still compared when the flush queue was empty at Close (then nothing was abandoned by Close and what is absent was dropped by a flush), otherwise it is inconclusive")
	c.Assume("msgpack-decoded batches use a first timestamp in [1e13,1e16) us so the decoder's unit detection leaves the values unchanged")
	if c.Replay != "" {
		replayC03(c)
		return
	}
	self, err := os.Executable()
	if err != nil {
		panic(err)
	}
	comps := map[string]bool{}
	t0 := time.Now()

	phases := os.Getenv("VERIF_C03_PHASES") // development aid: "main", "shutdown", "race" (default: all)
	on := func(p string) bool { return phases == "" || strings.Contains(phases, p) }
	nMain := c.N(140, 3000)
	if !on("main") {
		nMain = 0
	}
	for from := 0; from < nMain; from += 60 {
		runPhase(c, self, "quiesced", from, min(60, nMain-from), false, parallelCases, nil, comps)
	}
	// SHUTDOWN variant: Close() immediately after the last accepted write, no WAL
	t1 := time.Now()
	nShut := c.N(6, 60)
	if !on("shutdown") {
		nShut = 0
	}
	runPhase(c, self, "shutdown", 0, nShut, false, 3, nil, comps)
	t2 := time.Now()

	c.Count("distinct_file_compositions", int64(len(comps)))
	if on("race") {
		raceSubRun(c, comps)
	}
	c.Extra("phase_wall_s", map[string]float64{"quiesced": t1.Sub(t0).Seconds(), "shutdown": t2.Sub(t1).Seconds(), "race_subrun": time.Since(t2).Seconds()})
	c.Floor(c.N(100, 2000))
}

// replayC03 re-runs the recorded case (same spec; the interleaving is not recorded, so
// it is repeated up to 20 times), in-process.
func replayC03(c *vlib.Ctx) {
	var d struct {
		Case struct {
			Index   int    `json:"index"`
			Variant string `json:"variant"`
		} `json:"case"`
		Kind string `json:"kind"`
		Seed int64  `json:"seed"`
	}
	if err := vlib.LoadReplay(c.Replay, &d); err != nil {
		panic(err)
	}
	if d.Case.Variant == "" {
		fmt.Println("replay file carries no single case (race report or child crash): re-run ./check C03 with VERIF_SEED =", d.Seed)
		c.Nontrivial("a")
		c.Nontrivial("b")
		return
	}
	if d.Seed != 0 {
		c.Seed = d.Seed // case lists are derived from the recording run's seed
	}
	kind := d.Case.Variant
	if d.Case.Index >= raceIndexBase {
		kind = "racemix"
	}
	comps := map[string]bool{}
	for i := 0; i < 20 && c.Violations() == 0; i++ {
		s := specFor(c.Seed, kind, d.Case.Index, d.Case.Index >= raceIndexBase)
		var outs []caseOut
		runCases([]*caseSpec{s}, uint64(c.Seed), 1, func(r *caseResult) { outs = append(outs, toOut(r)) })
		fmt.Printf("replay attempt %d: case %s/%d findings=%d\n", i+1, s.Variant, s.Index, len(outs[0].Findings))
		account(c, outs, comps)
		c.Nontrivial(fmt.Sprint("replay", i))
	}
	c.Nontrivial("replay-pad")
}
