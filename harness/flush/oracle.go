package main

// Oracle: what is in the storage tree (read with the independent arrow-go reader in vpq)
// against the generator's rows, keyed by rid.

import (
	"fmt"
	"math"
	"sort"
	"strings"

	"github.com/basekick-labs/arc/internal/ingest"
	"github.com/basekick-labs/arc/internal/zzverif/vpq"
)

const (
	stAccepted = iota
	stRejected
	stIndeterminate // part of a multi-record Write() that returned an error: some records may have been buffered before the failing one
)

type rowRef struct {
	b      *batch
	i      int
	status int
	api    string
	errMsg string
}

type truth struct {
	rows         map[int64]rowRef
	acceptedRows int64
}

func newTruth() *truth { return &truth{rows: map[int64]rowRef{}} }

func (g *truth) record(o *op, err error, res *caseResult) {
	status := stAccepted
	msg := ""
	if err != nil {
		msg = err.Error()
		status = stRejected
		if len(o.Batches) > 1 {
			status = stIndeterminate
		}
		if strings.Contains(msg, ingest.ErrSchemaChurnExceeded.Error()) {
			res.Stats["writes_rejected_schema_churn"]++
		}
	}
	for _, b := range o.Batches {
		if b.Invalid != "" && err == nil {
			res.Findings = append(res.Findings, finding{"malformed time column accepted: " + b.Invalid, map[string]any{"api": o.API, "batch": b}})
		}
		if b.Invalid == "" && err != nil && !strings.Contains(msg, ingest.ErrSchemaChurnExceeded.Error()) {
			res.Findings = append(res.Findings, finding{"well-formed batch rejected: " + classifyErr(msg), map[string]any{"api": o.API, "batch": b, "err": msg}})
		}
		for i := 0; i < b.N; i++ {
			g.rows[b.rid(i)] = rowRef{b, i, status, o.API, msg}
		}
		switch status {
		case stAccepted:
			g.acceptedRows += int64(b.N)
			res.Stats["rows_accepted"] += int64(b.N)
			res.Stats["writes_accepted_"+o.API]++
			if b.Swap {
				res.Stats["typeswap_batches_accepted"]++
				res.Stats["typeswap_rows_accepted"] += int64(b.N)
			}
		case stRejected:
			res.Stats["rows_in_rejected_writes"] += int64(b.N)
			if b.Swap {
				res.Stats["typeswap_batches_rejected"]++
			}
		default:
			res.Stats["rows_in_partially_failed_multi_record_writes"] += int64(b.N)
		}
	}
}

func classifyErr(msg string) string {
	// stable prefix of the error text (no data)
	if i := strings.IndexAny(msg, ":'"); i > 0 {
		msg = msg[:i]
	}
	if len(msg) > 60 {
		msg = msg[:60]
	}
	return msg
}

func era(t int64) string {
	if t < 0 {
		return "pre-1970 timestamp"
	}
	return "timestamp >= 1970"
}

// wantCell returns the ground-truth cell in the representation vpq yields.
func sameCell(want, got any) (bool, string) {
	switch w := want.(type) {
	case nil:
		if got == nil {
			return true, ""
		}
		return false, "null stored as a value"
	case int64:
		g, ok := got.(int64)
		if got == nil {
			return false, "value stored as null"
		}
		if !ok {
			return false, "stored type differs"
		}
		return g == w, "value changed"
	case float64:
		if got == nil {
			return false, "value stored as null"
		}
		g, ok := got.(float64)
		if !ok {
			return false, "stored type differs"
		}
		if math.IsNaN(w) {
			return math.IsNaN(g), "value changed"
		}
		return math.Float64bits(g) == math.Float64bits(w), "value changed"
	case string:
		if got == nil {
			return false, "value stored as null"
		}
		g, ok := got.(string)
		if !ok {
			return false, "stored type differs"
		}
		return g == w, "value changed"
	case bool:
		if got == nil {
			return false, "value stored as null"
		}
		g, ok := got.(bool)
		if !ok {
			return false, "stored type differs"
		}
		return g == w, "value changed"
	case decVal:
		if got == nil {
			return false, "value stored as null"
		}
		g, ok := got.(string)
		if !ok {
			return false, "stored type differs"
		}
		u, ok := parseDec(g)
		if !ok {
			return false, "stored decimal unparsable"
		}
		return u == int64(w), "value changed"
	}
	return false, "harness: unknown ground-truth type"
}

// parseDec parses a decimal rendering into the unscaled integer at scale 4.
func parseDec(s string) (int64, bool) {
	neg := strings.HasPrefix(s, "-")
	s = strings.TrimPrefix(s, "-")
	ip, fp, _ := strings.Cut(s, ".")
	if len(fp) > decScale {
		if strings.Trim(fp[decScale:], "0") != "" {
			return 0, false
		}
		fp = fp[:decScale]
	}
	for len(fp) < decScale {
		fp += "0"
	}
	var u int64
	for _, ch := range ip + fp {
		if ch < '0' || ch > '9' {
			return 0, false
		}
		u = u*10 + int64(ch-'0')
	}
	if neg {
		u = -u
	}
	return u, true
}

func wantStoredType(t colType) string {
	switch t {
	case tInt:
		return "int64"
	case tFloat:
		return "float64"
	case tStr:
		return "utf8"
	case tBool:
		return "bool"
	}
	return fmt.Sprintf("decimal(%d, %d)", decPrecision, decScale)
}

func compare(s *caseSpec, gt *truth, root string, res *caseResult) {
	add := func(sig string, d map[string]any) {
		d["case"] = s
		res.Findings = append(res.Findings, finding{sig, d})
	}
	files, err := vpq.ReadTree(root)
	if err != nil {
		add("stored Parquet file unreadable", map[string]any{"err": err.Error()})
	}
	seen := map[int64]int{}
	where := map[int64][]string{}
	for _, f := range files {
		res.Stats["parquet_files_read"]++
		parts := strings.Split(f.Rel, "/")
		if len(parts) != 7 {
			add("stored file outside database/measurement/YYYY/MM/DD/HH layout", map[string]any{"file": f.Rel})
			continue
		}
		if tt := f.Types["time"]; !strings.HasPrefix(tt, "timestamp[us") {
			add("time column not stored as microsecond timestamp", map[string]any{"file": f.Rel, "type": tt})
		}
		dir := strings.Join(parts[2:6], "/")
		var prev int64
		batchesInFile := map[string]bool{}
		writersInFile := map[int]bool{}
		hours := map[string]bool{}
		swapInFile := false
		for ri, row := range f.Rows {
			tv, tok := row["time"].(int64)
			if !tok {
				add("stored row has null or non-timestamp time", map[string]any{"file": f.Rel, "row": ri})
			} else {
				if ri > 0 && tv < prev {
					add("stored file not in non-decreasing time order (default sort configuration)", map[string]any{"file": f.Rel, "row": ri, "prev_us": prev, "time_us": tv, "rows_in_file": f.NumRow})
				}
				prev = tv
			}
			rid, ok := row["rid"].(int64)
			if !ok {
				add("stored row without rid", map[string]any{"file": f.Rel, "row": fmt.Sprint(row)})
				continue
			}
			ref, ok := gt.rows[rid]
			if !ok {
				add("stored row that no write produced", map[string]any{"file": f.Rel, "rid": rid})
				continue
			}
			seen[rid]++
			where[rid] = append(where[rid], f.Rel)
			if ref.status == stRejected {
				add("row of a rejected write is in storage", map[string]any{"file": f.Rel, "rid": rid, "api": ref.api, "write_error": ref.errMsg, "batch": ref.b})
				continue
			}
			res.Stats["rows_compared"]++
			b := ref.b
			if b.Swap {
				res.Stats["typeswap_rows_compared"]++
				swapInFile = true
			}
			want := b.Times[ref.i]
			batchesInFile[fmt.Sprintf("%d:%d", b.Writer, b.Seq)] = true
			writersInFile[b.Writer] = true
			hours[vpq.HourPath(want)] = true
			if parts[0] != b.DB || parts[1] != b.M {
				add("row stored under another database/measurement", map[string]any{"file": f.Rel, "want_db": b.DB, "want_m": b.M, "rid": rid})
			}
			if hp := vpq.HourPath(want); hp != dir {
				add("row stored outside the hour partition containing its timestamp ["+era(want)+"]", map[string]any{"file": f.Rel, "time_us": want, "want_dir": hp, "got_dir": dir, "rid": rid, "api": ref.api, "batch": b, "rows_in_file": f.NumRow})
			}
			if tok && tv != want {
				add("stored timestamp differs from the written one", map[string]any{"file": f.Rel, "rid": rid, "want_us": want, "got_us": tv, "api": ref.api})
			}
			inBatch := map[string]bool{"time": true, "rid": true}
			for _, c := range b.Cols {
				inBatch[c.Name] = true
				wantV := b.Cells[c.Name][ref.i]
				got, present := row[c.Name]
				if !present {
					if b.Rendered == "rows" && wantV == nil {
						// row format: a null cell is an omitted field; the column may not exist
						continue
					}
					kind := "column missing from the stored file"
					if c.AllNull {
						kind = "all-null column missing from the stored file"
					}
					add("stored cell differs: "+kind, map[string]any{"file": f.Rel, "rid": rid, "column": c, "api": ref.api, "batch": b})
					continue
				}
				if okc, kind := sameCell(wantV, got); !okc {
					sig := "stored cell differs: " + kind
					if kind == "value changed" || kind == "stored type differs" {
						sig += fmt.Sprintf(" (%s column)", c.Type)
					}
					add(sig, map[string]any{"file": f.Rel, "rid": rid, "column": c, "want": fmt.Sprint(wantV), "got": fmt.Sprint(got), "stored_type": f.Types[c.Name], "api": ref.api, "batch": b, "rows_in_file": f.NumRow, "batches_in_file": len(batchesInFile)})
					continue
				}
				if wantV != nil && f.Types[c.Name] != wantStoredType(c.Type) {
					add(fmt.Sprintf("stored column type differs (%s column)", c.Type), map[string]any{"file": f.Rel, "column": c, "stored_type": f.Types[c.Name], "api": ref.api})
				}
			}
			for name, got := range row {
				if !inBatch[name] && got != nil {
					add("non-null value in a column the written row does not have", map[string]any{"file": f.Rel, "rid": rid, "column": name, "got": fmt.Sprint(got), "api": ref.api, "batch": b})
				}
			}
		}
		if len(batchesInFile) > 1 {
			res.Stats["files_merging_several_batches"]++
		}
		if len(writersInFile) > 1 {
			res.Stats["files_with_rows_from_several_writers"]++
		}
		if swapInFile {
			res.Stats["typeswap_files_read"]++
		}
		if f.NumRow >= 4096 {
			res.Stats["files_with_4096_or_more_rows"]++
		}
		ks := make([]string, 0, len(batchesInFile))
		for k := range batchesInFile {
			ks = append(ks, k)
		}
		sort.Strings(ks)
		res.Compositions = append(res.Compositions, fmt.Sprintf("%d|%s|%s", s.Index, dir, strings.Join(ks, ",")))
	}
	lost := 0
	var lostSample []int64
	for rid, ref := range gt.rows {
		n := seen[rid]
		switch {
		case ref.status == stAccepted && n == 0:
			lost++
			if len(lostSample) < 5 {
				lostSample = append(lostSample, rid)
			}
		case ref.status != stRejected && n > 1:
			add("accepted row stored more than once", map[string]any{"rid": rid, "times": n, "files": where[rid], "api": ref.api, "batch": ref.b})
		}
		if ref.status == stIndeterminate {
			res.Stats["indeterminate_rows_found_stored"] += int64(n)
		}
	}
	if lost > 0 {
		sort.Slice(lostSample, func(i, j int) bool { return lostSample[i] < lostSample[j] })
		ref := gt.rows[lostSample[0]]
		d := map[string]any{"rows_lost": lost, "rows_accepted": gt.acceptedRows, "sample_rids": lostSample, "sample_api": ref.api, "sample_batch": ref.b, "files": len(files)}
		if s.Variant == "shutdown" {
			d["flush_queue_depth_when_close_was_called"] = res.Stats["shutdown_queue_depth_at_close"]
			res.Stats["shutdown_rows_lost"] += int64(lost)
			add("shutdown flush lost accepted rows: Close abandoned queued/in-flight flush tasks (no WAL)", d)
		} else {
			add("accepted row missing from storage after quiesced flush and close", d)
		}
	}
}
