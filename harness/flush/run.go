package main

// Executor: renders the generated batches into the argument shapes of the exported
// ArrowBuffer entry points, drives a real ArrowBuffer over a real LocalBackend from
// 1-8 goroutines, quiesces, closes, and hands the storage tree to the oracle.

import (
	"context"
	"fmt"
	"math/rand/v2"
	"os"
	"runtime"
	"sort"
	"strconv"
	"strings"
	"sync"
	"sync/atomic"
	"time"

	"github.com/Basekick-Labs/msgpack/v6"
	"github.com/apache/arrow-go/v18/arrow/decimal128"
	"github.com/rs/zerolog"

	"github.com/basekick-labs/arc/internal/config"
	"github.com/basekick-labs/arc/internal/ingest"
	"github.com/basekick-labs/arc/internal/storage"
	"github.com/basekick-labs/arc/internal/zzverif/vlib"
	"github.com/basekick-labs/arc/pkg/models"
)

// monBackend is the real local backend with a monitor on Write: it records every
// storage path (a path written twice means one flush overwrote another's file) and can
// pause inside the write, which is where arc has released the shard lock.
type monBackend struct {
	*storage.LocalBackend
	nest   func(path string) // optional: runs inside the write, before the bytes are stored
	delay  time.Duration
	mu     sync.Mutex
	paths  map[string]int
	dups   []string
	writes atomic.Int64
}

func (m *monBackend) Write(ctx context.Context, path string, data []byte) error {
	m.writes.Add(1)
	m.mu.Lock()
	m.paths[path]++
	if m.paths[path] == 2 {
		m.dups = append(m.dups, path)
	}
	m.mu.Unlock()
	if m.nest != nil {
		m.nest(path)
	}
	if m.delay > 0 {
		time.Sleep(m.delay)
	}
	return m.LocalBackend.Write(ctx, path, data)
}

func decString(v decVal) string {
	u := int64(v)
	neg := u < 0
	if neg {
		u = -u
	}
	s := fmt.Sprintf("%d.%04d", u/10000, u%10000)
	if neg {
		s = "-" + s
	}
	return s
}

// generic renders a batch as map[string][]interface{} (the msgpack/line-protocol shape).
// Integer cells are boxed in varying Go integer kinds and float cells sometimes as
// float32 where that is exact: arc widens all of them to int64 / float64.
func (b *batch) generic(r *rand.Rand, plain bool) map[string][]interface{} {
	cols := map[string][]interface{}{}
	tc := make([]interface{}, b.N)
	for i, t := range b.Times {
		tc[i] = t
	}
	switch b.Invalid {
	case "null_in_time":
		tc[r.IntN(b.N)] = nil
	case "string_time":
		for i, t := range b.Times {
			tc[i] = strconv.FormatInt(t, 10)
		}
	case "all_null_time":
		for i := range tc {
			tc[i] = nil
		}
	}
	cols["time"] = tc
	rc := make([]interface{}, b.N)
	for i := range rc {
		rc[i] = b.rid(i)
	}
	cols["rid"] = rc
	for _, c := range b.Cols {
		src := b.Cells[c.Name]
		col := make([]interface{}, b.N)
		for i, v := range src {
			switch x := v.(type) {
			case nil:
			case int64:
				col[i] = x
				if !plain {
					switch {
					case x >= 0 && x < 200 && r.IntN(4) == 0:
						col[i] = uint8(x)
					case x > -30000 && x < 30000 && r.IntN(4) == 0:
						col[i] = int(x)
					case x >= 0 && r.IntN(6) == 0:
						col[i] = uint64(x)
					case x > -2_000_000_000 && x < 2_000_000_000 && r.IntN(6) == 0:
						col[i] = int32(x)
					}
				}
			case float64:
				col[i] = x
				if !plain && float64(float32(x)) == x && r.IntN(4) == 0 {
					col[i] = float32(x)
				}
			case decVal:
				u := int64(x)
				switch k := r.IntN(3); {
				case plain || k == 0:
					col[i] = decString(x)
				case k == 1 && u%10000 == 0:
					col[i] = u / 10000
				default:
					col[i] = float64(u) / 10000 // multiple of 0.25: exact
				}
			default:
				col[i] = v
			}
		}
		cols[c.Name] = col
	}
	return shuffledMap(r, cols)
}

// shuffledMap returns a copy of m filled in a random key order. A Go map's iteration
// order depends on the order in which its keys were inserted (small maps iterate a
// rotation of it); a client payload or decoder fills the map in any order, so the order
// is drawn per batch instead of always being time, rid, columns-in-schema-order.
func shuffledMap[V any](r *rand.Rand, m map[string]V) map[string]V {
	keys := make([]string, 0, len(m))
	for k := range m {
		keys = append(keys, k)
	}
	sort.Strings(keys)
	r.Shuffle(len(keys), func(i, j int) { keys[i], keys[j] = keys[j], keys[i] })
	out := make(map[string]V, len(m))
	for _, k := range keys {
		out[k] = m[k]
	}
	return out
}

// typed renders a batch as *ingest.TypedColumnBatch. shape picks one of the validity
// representations the type's contract allows.
func (b *batch) typed(r *rand.Rand, shape int) *ingest.TypedColumnBatch {
	data := map[string]interface{}{}
	var validity map[string][]bool
	if shape != 0 {
		validity = map[string][]bool{}
	}
	data["time"] = append([]int64(nil), b.Times...)
	rc := make([]int64, b.N)
	for i := range rc {
		rc[i] = b.rid(i)
	}
	data["rid"] = rc
	if shape == 2 {
		validity["rid"] = nil // nil entry = all valid
	}
	for _, c := range b.Cols {
		src := b.Cells[c.Name]
		valid := make([]bool, b.N)
		nulls := false
		for i, v := range src {
			valid[i] = v != nil
			if v == nil {
				nulls = true
			}
		}
		switch c.Type {
		case tInt:
			a := make([]int64, b.N)
			for i, v := range src {
				if v != nil {
					a[i] = v.(int64)
				} else if shape == 3 {
					a[i] = 0x5a5a5a5a // garbage under a null must not surface
				}
			}
			data[c.Name] = a
		case tFloat:
			a := make([]float64, b.N)
			for i, v := range src {
				if v != nil {
					a[i] = v.(float64)
				} else if shape == 3 {
					a[i] = 12345.678
				}
			}
			data[c.Name] = a
		case tStr:
			a := make([]string, b.N)
			for i, v := range src {
				if v != nil {
					a[i] = v.(string)
				} else if shape == 3 {
					a[i] = "GARBAGE-UNDER-NULL"
				}
			}
			data[c.Name] = a
		case tBool:
			a := make([]bool, b.N)
			for i, v := range src {
				if v != nil {
					a[i] = v.(bool)
				} else if shape == 3 {
					a[i] = true
				}
			}
			data[c.Name] = a
		case tDec:
			a := make([]decimal128.Num, b.N)
			for i, v := range src {
				if v != nil {
					a[i] = decimal128.FromI64(int64(v.(decVal)))
				}
			}
			data[c.Name] = a
		}
		if nulls {
			if validity == nil {
				validity = map[string][]bool{}
			}
			validity[c.Name] = valid
		} else if shape == 1 {
			validity[c.Name] = valid // explicit all-true
		} else if shape == 2 {
			validity[c.Name] = nil
		}
	}
	return &ingest.TypedColumnBatch{Data: shuffledMap(r, data), Validity: validity}
}

// rows renders a batch as row-format records; null cells are omitted fields/tags.
func (b *batch) rows(r *rand.Rand) []interface{} {
	isTag := map[string]bool{}
	for _, t := range b.RowTags {
		isTag[t] = true
	}
	out := make([]interface{}, b.N)
	for i := 0; i < b.N; i++ {
		rec := &models.Record{Measurement: b.M, Timestamp: b.Times[i], Fields: map[string]interface{}{"rid": b.rid(i)}, Tags: map[string]string{}}
		for _, c := range b.Cols {
			v := b.Cells[c.Name][i]
			if v == nil {
				continue
			}
			if isTag[c.Name] {
				rec.Tags[c.Name] = v.(string)
				continue
			}
			if d, ok := v.(decVal); ok {
				rec.Fields[c.Name] = decString(d)
				continue
			}
			rec.Fields[c.Name] = v
		}
		rec.Fields = shuffledMap(r, rec.Fields)
		out[i] = rec
	}
	return out
}

type outcome struct {
	op  *op
	err error
}

// call performs one operation against the buffer.
func call(buf *ingest.ArrowBuffer, dec, decTyped *ingest.MessagePackDecoder, r *rand.Rand, o *op) error {
	ctx := context.Background()
	b := o.Batches[0]
	b.Rendered = o.API
	switch o.API {
	case "columnar":
		return buf.WriteColumnarRecord(ctx, b.DB, &models.ColumnarRecord{Measurement: b.M, Columnar: true, Columns: b.generic(r, false)})
	case "direct":
		return buf.WriteColumnarDirect(ctx, b.DB, b.M, b.generic(r, false))
	case "write1":
		return buf.Write(ctx, b.DB, []interface{}{&models.ColumnarRecord{Measurement: b.M, Columnar: true, Columns: b.generic(r, false)}})
	case "typed":
		return buf.WriteTypedColumnarDirect(ctx, b.DB, b.M, b.typed(r, o.ValShape), b.N)
	case "msgpack":
		cols := map[string]interface{}{}
		for k, v := range b.generic(r, true) {
			cols[k] = v
		}
		raw, err := msgpack.Marshal(map[string]interface{}{"m": b.M, "columns": cols})
		if err != nil {
			panic(err)
		}
		d := dec
		if o.Typed {
			d = decTyped
		}
		recs, err := d.Decode(raw)
		if err != nil {
			return fmt.Errorf("decode: %w", err)
		}
		return buf.Write(ctx, b.DB, recs)
	case "rows":
		return buf.Write(ctx, b.DB, b.rows(r))
	case "writeN":
		// one database per call (the first batch's); at most one row-format batch so that
		// no measurement gets two differently typed row groups in one call
		var recs []interface{}
		for i, bb := range o.Batches {
			bb.DB = b.DB
			switch {
			case i == len(o.Batches)-1 && o.ValShape%2 == 0:
				prepRowsTimes(bb)
				bb.Rendered = "rows"
				recs = append(recs, bb.rows(r)...)
			case (i+o.ValShape)%2 == 0:
				bb.Rendered = "columnar"
				recs = append(recs, &models.ColumnarRecord{Measurement: bb.M, Columnar: true, Columns: bb.generic(r, false)})
			default:
				bb.Rendered = "typed"
				recs = append(recs, &ingest.TypedColumnarRecord{Measurement: bb.M, Batch: bb.typed(r, o.ValShape), NumRecords: bb.N})
			}
		}
		return buf.Write(ctx, b.DB, recs)
	}
	panic("unknown api " + o.API)
}

func prepRowsTimes(b *batch) {
	for i, t := range b.Times {
		if t == 0 {
			b.Times[i] = 1
		}
	}
}

type caseResult struct {
	Spec         *caseSpec
	Inconclusive string
	Findings     []finding
	Stats        map[string]int64
	Compositions []string
	WallMS       int64
}

type finding struct {
	Sig    string
	Detail map[string]any
}

func statI(st map[string]interface{}, k string) int64 {
	switch v := st[k].(type) {
	case int64:
		return v
	case int:
		return int64(v)
	}
	return 0
}

// waitStats polls GetStats until cond holds (bounded; expiry is reported to the caller,
// who turns it into an inconclusive case, never a verdict).
func waitStats(buf *ingest.ArrowBuffer, limit time.Duration, cond func(st map[string]interface{}) bool) bool {
	deadline := time.Now().Add(limit)
	for {
		if cond(buf.GetStats()) {
			return true
		}
		if time.Now().After(deadline) {
			if os.Getenv("VERIF_DEBUG") != "" {
				b := make([]byte, 1<<22)
				b = b[:runtime.Stack(b, true)]
				fmt.Fprintf(os.Stderr, "WATCHDOG stats=%v\n%s\n", buf.GetStats(), b)
			}
			return false
		}
		time.Sleep(2 * time.Millisecond)
	}
}

const watchdog = 60 * time.Second

func runCase(s *caseSpec, seed uint64) *caseResult {
	res := &caseResult{Spec: s, Stats: map[string]int64{}}
	t0 := time.Now()
	defer func() { res.WallMS = time.Since(t0).Milliseconds() }()
	root := vlib.TempDir("c03")
	defer os.RemoveAll(root)
	lg := zerolog.Nop()
	if os.Getenv("VERIF_DEBUG") != "" {
		lg = zerolog.New(os.Stderr).Level(zerolog.WarnLevel)
	}
	be, err := storage.NewLocalBackend(root, lg)
	if err != nil {
		panic(err)
	}
	mon := &monBackend{LocalBackend: be, delay: time.Duration(s.Cfg.WriteDelayUS) * time.Microsecond, paths: map[string]int{}}
	cfg := &config.IngestConfig{
		MaxBufferSize: s.Cfg.MaxBufferSize, MaxBufferAgeMS: s.Cfg.MaxBufferAgeMS, Compression: s.Cfg.Compression,
		UseDictionary: s.Cfg.UseDictionary, NumericDictionary: s.Cfg.NumericDict, WriteStatistics: s.Cfg.WriteStatistics,
		DataPageVersion: s.Cfg.DataPageVersion, FlushWorkers: s.Cfg.FlushWorkers, FlushQueueSize: 1 << 17, ShardCount: s.Cfg.ShardCount,
	}
	if s.Cfg.DecimalM == "*" {
		cfg.DefaultDecimalColumns = fmt.Sprintf("price=%d,%d", decPrecision, decScale)
	} else if s.Cfg.DecimalM != "" {
		cfg.DecimalColumns = []string{fmt.Sprintf("%s:price=%d,%d", s.Cfg.DecimalM, decPrecision, decScale)}
	}
	buf := ingest.NewArrowBuffer(cfg, mon, lg)
	dec := ingest.NewMessagePackDecoder(lg)
	decTyped := ingest.NewMessagePackDecoder(lg)
	decTyped.SetTypedDecodeEnabled(true)

	// Ops[:Writers] are the regular writers, Ops[Writers:] those of the type-permutation family
	outs := make([][]outcome, len(s.Ops))
	var wg sync.WaitGroup
	start := make(chan struct{})
	for w := 0; w < len(s.Ops); w++ {
		wg.Add(1)
		go func(w int) {
			defer wg.Done()
			r := rand.New(rand.NewPCG(seed, uint64(s.Index)*131+uint64(w)))
			<-start
			for _, o := range s.Ops[w] {
				if o.SleepUS > 0 {
					time.Sleep(time.Duration(o.SleepUS) * time.Microsecond)
				}
				outs[w] = append(outs[w], outcome{o, call(buf, dec, decTyped, r, o)})
			}
		}(w)
	}
	// intruder: one write per storage write of its database/measurement while the writers
	// run, performed inside that storage write (a writer that gets the shard lock in the
	// window where the flushing goroutine has released it)
	var intrMu sync.Mutex
	intrOff := false
	var intrOuts []outcome
	if len(s.Intruder) > 0 {
		next := 0
		ir := rand.New(rand.NewPCG(seed, uint64(s.Index)*131+77))
		mon.nest = func(path string) {
			if !intrMu.TryLock() {
				return // an intruding write is already in progress (possibly further up this stack)
			}
			defer intrMu.Unlock()
			if intrOff || next >= len(s.Intruder) {
				return
			}
			o := s.Intruder[next]
			if !strings.HasPrefix(path, o.Batches[0].DB+"/"+o.Batches[0].M+"/") {
				return
			}
			next++
			intrOuts = append(intrOuts, outcome{o, call(buf, dec, decTyped, ir, o)})
		}
	}
	stopMid := make(chan struct{})
	var midWG sync.WaitGroup
	if s.MidFlush > 0 {
		midWG.Add(1)
		go func() {
			defer midWG.Done()
			for i := 0; i < s.MidFlush; i++ {
				select {
				case <-stopMid:
					return
				case <-time.After(time.Duration(1+i) * time.Millisecond):
				}
				if err := buf.FlushAll(context.Background()); err != nil {
					res.Findings = append(res.Findings, finding{"FlushAll returned an error on a healthy local backend", map[string]any{"err": err.Error()}})
				}
				res.Stats["mid_run_flushall_calls"]++
			}
		}()
	}
	close(start)
	wg.Wait()
	close(stopMid)
	midWG.Wait()
	intrMu.Lock() // waits for an intruding write still in progress
	intrOff = true
	intrMu.Unlock()

	gt := newTruth()
	for _, oc := range intrOuts {
		gt.record(oc.op, oc.err, res)
		res.Stats["intruder_writes_inside_flush_window"]++
	}
	for _, wo := range outs {
		for _, oc := range wo {
			gt.record(oc.op, oc.err, res)
		}
	}

	if s.Swap != nil {
		res.Stats["cases_with_typeswap_family"]++
		res.Stats["typeswap_type_switches_issued"] += int64(s.Swap.Switches)
		res.Stats["typeswap_distinct_type_assignments"] += int64(s.Swap.Distinct)
		res.Stats[fmt.Sprintf("typeswap_cases_%d_permuted_columns", len(s.Swap.Cols))]++
		if !s.Swap.Own {
			res.Stats["typeswap_cases_on_a_measurement_of_the_regular_workload"]++
		}
	}

	allWritten := func(st map[string]interface{}) bool {
		return statI(st, "total_records_written") >= gt.acceptedRows && statI(st, "flush_queue_depth") == 0
	}
	// Waiting ends early once arc itself has flagged a failed flush (sticky, exported) and
	// the queue is empty: the rows of that flush were discarded, so the written counter
	// cannot reach the accepted count any more. The case then takes the same path as an
	// expired wait: Close, and compare because the queue was empty at Close.
	flushFailed := func(st map[string]interface{}) bool {
		return buf.HasFlushFailure() && statI(st, "flush_queue_depth") == 0 && statI(st, "active_buffers") == 0
	}
	closed := false
	switch s.Final {
	case "close_immediately":
		// SHUTDOWN variant: no waiting at all
		st := buf.GetStats()
		res.Stats["shutdown_queue_depth_at_close"] += statI(st, "flush_queue_depth")
		buf.Close()
		closed = true
	case "age":
		// let the timer do it: no explicit flush until every buffer has been flushed by age
		ok := waitStats(buf, watchdog, func(st map[string]interface{}) bool {
			return (statI(st, "active_buffers") == 0 && allWritten(st)) || flushFailed(st)
		})
		if !ok {
			res.Inconclusive = "age-triggered flush did not drain the buffers within the watchdog"
		} else if st := buf.GetStats(); !allWritten(st) {
			res.Inconclusive = "arc flagged a failed flush; written counter below the accepted rows with no buffer and no queued task left"
		} else {
			res.Stats["cases_drained_by_age_timer_alone"]++
		}
	}
	if !closed && res.Inconclusive == "" {
		if err := buf.FlushAll(context.Background()); err != nil {
			res.Findings = append(res.Findings, finding{"FlushAll returned an error on a healthy local backend", map[string]any{"err": err.Error()}})
		}
		if !waitStats(buf, watchdog, func(st map[string]interface{}) bool { return allWritten(st) || flushFailed(st) }) {
			res.Inconclusive = "flush queue did not drain within the watchdog"
		} else if st := buf.GetStats(); !allWritten(st) {
			res.Inconclusive = "arc flagged a failed flush; written counter below the accepted rows with no buffer and no queued task left"
		}
	}
	if !closed && res.Inconclusive == "" && s.Final == "close" && len(s.Tail) > 0 {
		// everything so far is on disk and the queue is empty; the tail stays below the
		// size threshold, so the only flush that can store it is the one inside Close()
		r := rand.New(rand.NewPCG(seed, uint64(s.Index)*131+99))
		before := statI(buf.GetStats(), "total_records_written")
		for _, o := range s.Tail {
			gt.record(o, call(buf, dec, decTyped, r, o), res)
		}
		buf.Close()
		closed = true
		res.Stats["rows_stored_by_close_flush"] += statI(buf.GetStats(), "total_records_written") - before
		res.Stats["cases_with_close_triggered_flush"]++
	}
	st := buf.GetStats()
	if !closed {
		buf.Close()
	}
	res.Stats["schema_churn_rejections_stat"] += statI(st, "total_schema_churn_exceeded")
	res.Stats["arc_total_flushes_stat"] += statI(st, "total_flushes")
	res.Stats["arc_total_errors_stat"] += statI(st, "total_errors")
	res.Stats["storage_writes"] += mon.writes.Load()
	if res.Inconclusive != "" {
		res.Inconclusive += fmt.Sprintf(" [accepted=%d written=%d queue_depth=%d active_buffers=%d total_errors=%d flush_failure=%v]", gt.acceptedRows,
			statI(st, "total_records_written"), statI(st, "flush_queue_depth"), statI(st, "active_buffers"), statI(st, "total_errors"), buf.HasFlushFailure())
		// The watchdog only ends the waiting. If no task was left in the queue when Close()
		// was called, nothing was abandoned by it: Close() waits for the workers, and tasks
		// already picked up run to completion on the local backend. Rows still absent now
		// were dropped by a flush, which is a state-based verdict, not a timing one.
		if statI(st, "flush_queue_depth") != 0 {
			return res
		}
		res.Stats["cases_compared_after_watchdog_with_empty_queue"]++
		why := res.Inconclusive
		n := len(res.Findings)
		compare(s, gt, root, res)
		if len(res.Findings) > n {
			for i := n; i < len(res.Findings); i++ {
				res.Findings[i].Detail["watchdog"] = why
			}
			res.Inconclusive = ""
		}
		return res
	}
	for _, p := range mon.dups {
		res.Findings = append(res.Findings, finding{"two flushes wrote the same storage path (earlier file overwritten)", map[string]any{"path": p}})
	}
	compare(s, gt, root, res)
	return res
}
