package main

// Workload generator for C03: a case is a buffer configuration plus, per writer
// goroutine, a fixed list of write operations with generator ground truth for every row.

import (
	"fmt"
	"math"
	"math/rand/v2"
	"strings"
)

const hourUS = int64(3600) * 1_000_000

type colType int

const (
	tInt colType = iota
	tFloat
	tStr
	tBool
	tDec // decimal128 (only for the column "price" in decimal-configured measurements)
)

func (t colType) String() string {
	return [...]string{"int64", "float64", "string", "bool", "decimal"}[t]
}

type colSpec struct {
	Name    string  `json:"name"`
	Type    colType `json:"type"`
	AllNull bool    `json:"all_null,omitempty"`
	NullP   float64 `json:"null_p,omitempty"`
}

// decVal is the ground truth of a decimal cell: the unscaled integer at decScale.
type decVal int64

const (
	decPrecision = 18
	decScale     = 4
)

// batch is one table of rows for one database/measurement. Cells hold canonical
// ground-truth values: nil (null), int64, float64, string, bool, decVal.
type batch struct {
	Writer   int              `json:"writer"`
	Seq      int              `json:"seq"`
	DB       string           `json:"db"`
	M        string           `json:"m"`
	Cols     []colSpec        `json:"cols"`
	N        int              `json:"n"`
	TimeMode string           `json:"time_mode"`
	Times    []int64          `json:"-"`
	Cells    map[string][]any `json:"-"`
	RidBase  int64            `json:"rid_base"`
	Invalid  string           `json:"invalid,omitempty"` // non-empty: deliberately malformed (must be rejected)
	RowTags  []string         `json:"row_tags,omitempty"`
	Rendered string           `json:"rendered,omitempty"`  // argument shape actually used (set by the executor)
	Swap     bool             `json:"type_swap,omitempty"` // batch of the type-permutation family
}

func (b *batch) rid(i int) int64 { return b.RidBase + int64(i) }

// op is one call of an exported ArrowBuffer entry point.
type op struct {
	API      string   `json:"api"` // columnar | direct | write1 | writeN | typed | msgpack | rows
	Batches  []*batch `json:"batches"`
	SleepUS  int      `json:"sleep_us,omitempty"` // pause before the call (waiting only; never decides)
	Typed    bool     `json:"typed_decode,omitempty"`
	ValShape int      `json:"validity_shape,omitempty"`
}

type caseCfg struct {
	MaxBufferSize   int    `json:"max_buffer_size"`
	MaxBufferAgeMS  int    `json:"max_buffer_age_ms"`
	FlushWorkers    int    `json:"flush_workers"`
	ShardCount      int    `json:"shard_count"`
	Compression     string `json:"compression"`
	UseDictionary   bool   `json:"use_dictionary"`
	NumericDict     bool   `json:"numeric_dictionary"`
	WriteStatistics bool   `json:"write_statistics"`
	DataPageVersion string `json:"data_page_version"`
	DecimalM        string `json:"decimal_measurement,omitempty"` // measurement with price=decimal(18,4); "*" = default for all
	WriteDelayUS    int    `json:"storage_write_delay_us"`        // pause inside the storage write (lock released by arc): widens the flush window
}

type caseSpec struct {
	Index    int      `json:"index"`
	Variant  string   `json:"variant"` // quiesced | shutdown
	Class    string   `json:"class"`
	Cfg      caseCfg  `json:"cfg"`
	Writers  int      `json:"writers"`
	Final    string   `json:"final"` // explicit | age | close
	MidFlush int      `json:"mid_flush_calls"`
	DBs      []string `json:"dbs"`
	Ms       []string `json:"ms"`
	Anchors  []int64  `json:"anchor_hours"`
	Churn    float64  `json:"type_churn"`
	Ops      [][]*op  `json:"-"`
	Tail     []*op    `json:"-"` // close mode: written after the drain, right before Close
	// Intruder: writes issued from inside the storage write of a flush of the same
	// database/measurement, i.e. in the window in which arc has released the shard lock;
	// each carries a schema no regular writer uses, so a schema-change flush loop keeps
	// finding a foreign schema (drives the loop to its iteration cap)
	Intruder  []*op  `json:"-"`
	TimeBias  string `json:"time_bias,omitempty"`
	TotalRows int    `json:"total_rows"`
	// Swap: type-permutation family (nil = not in this case). Its writers are the
	// goroutines Ops[Writers:], with writer ids Writers+1.. (Writers is the intruder's).
	Swap *swapPlan `json:"type_swap,omitempty"`
}

// swapPlan describes the type-permutation family of a case: extra writers that send,
// to ONE database/measurement, batches whose value columns keep their names while the
// column types are permuted among them from one phase to the next (two-column swaps,
// transpositions and 3-cycles in both directions of three columns), several batches
// per phase, many phases. Every type change is a legitimate schema change: arc flushes
// the old-schema buffer and starts a new one, so every acknowledged row must be stored.
type swapPlan struct {
	DB       string      `json:"db"`
	M        string      `json:"m"`
	Own      bool        `json:"own_measurement"` // false: the key also receives the regular workload
	Cols     []string    `json:"cols"`            // permuted columns
	Base     []colType   `json:"base_types"`      // pairwise distinct
	Fixed    []colSpec   `json:"fixed_cols,omitempty"`
	Writers  int         `json:"writers"`
	Phases   [][]colType `json:"-"`
	Switches int         `json:"type_switches"` // consecutive batches of one writer with permuted types
	Distinct int         `json:"distinct_type_assignments"`
	Batches  int         `json:"batches"`
}

func (s *caseSpec) decimalFor(m string) bool {
	return s.Cfg.DecimalM == "*" || (s.Cfg.DecimalM != "" && s.Cfg.DecimalM == m)
}

// anchor hours (hour index since the epoch, floor): present day, the epoch hour, the
// hour before the epoch, 1969, 1901, 2038, a leap day, a year boundary, and the hour
// holding the 1e13 us unit-detection threshold.
var anchorHours = []int64{
	491_000, 0, -1, -3940, -600_000, 596_523, 264_383, 262_967, 2777, -1_000, 350_000, -219_150,
}

var pool = []string{"ca", "cb", "cc", "cd", "ce", "price"}

var strAlphabet = []string{"", "a", "b", "host-01", "ünï", "日本", "x y", "comma,eq=", "\"q\"", "null", "0", strings.Repeat("L", 300)}

func genFloat(r *rand.Rand) float64 {
	switch r.IntN(14) {
	case 0:
		return 0
	case 1:
		return math.Copysign(0, -1)
	case 2:
		return math.Inf(1)
	case 3:
		return math.Inf(-1)
	case 4:
		return math.NaN()
	case 5:
		return math.MaxFloat64
	case 6:
		return math.SmallestNonzeroFloat64
	case 7:
		return float64(r.IntN(100))
	default:
		return (r.Float64() - 0.5) * math.Pow(10, float64(r.IntN(12)-3))
	}
}

func genInt(r *rand.Rand) int64 {
	switch r.IntN(10) {
	case 0:
		return 0
	case 1:
		return math.MaxInt64
	case 2:
		return math.MinInt64
	case 3:
		return -1
	default:
		return r.Int64N(2_000_000) - 1_000_000
	}
}

func genCell(r *rand.Rand, t colType) any {
	switch t {
	case tInt:
		return genInt(r)
	case tFloat:
		return genFloat(r)
	case tStr:
		return strAlphabet[r.IntN(len(strAlphabet))]
	case tBool:
		return r.IntN(2) == 0
	default:
		// decimal(18,4): multiples of 0.25 so that every accepted input form (string,
		// integer, float64, decimal128) denotes the value exactly
		return decVal((r.Int64N(2_000_000) - 1_000_000) * 2500)
	}
}

func genTimes(r *rand.Rand, s *caseSpec, n int) (string, []int64) {
	a := s.Anchors[r.IntN(len(s.Anchors))]
	ts := make([]int64, n)
	mode := r.IntN(10)
	if s.TimeBias == "single_hour" && mode > 3 && r.IntN(6) != 0 {
		mode = r.IntN(3)
	}
	name := ""
	switch {
	case mode <= 2:
		name = "single_hour"
		for i := range ts {
			ts[i] = a*hourUS + r.Int64N(hourUS)
		}
	case mode == 3:
		name = "single_hour_ascending"
		t := a*hourUS + r.Int64N(hourUS/2)
		for i := range ts {
			ts[i] = t
			t += r.Int64N(1 + hourUS/int64(2*n+2))
		}
	case mode <= 5:
		name = "multi_hour"
		span := int64(2 + r.IntN(11))
		for i := range ts {
			ts[i] = a*hourUS + r.Int64N(span*hourUS)
		}
	case mode == 6:
		name = "hour_boundaries"
		for i := range ts {
			h := a + int64(r.IntN(4))
			ts[i] = h*hourUS + int64(r.IntN(3)-1)
			if r.IntN(6) == 0 {
				ts[i] = h*hourUS + hourUS - 1
			}
		}
	case mode == 7:
		name = "epoch_straddle"
		for i := range ts {
			switch r.IntN(4) {
			case 0:
				ts[i] = int64(r.IntN(5) - 2)
			case 1:
				ts[i] = -hourUS + int64(r.IntN(3)-1)
			case 2:
				ts[i] = hourUS + int64(r.IntN(3)-1)
			default:
				ts[i] = r.Int64N(2*hourUS) - hourUS
			}
		}
	case mode == 8:
		name = "anchors_mixed"
		for i := range ts {
			ts[i] = s.Anchors[r.IntN(len(s.Anchors))]*hourUS + r.Int64N(hourUS)
		}
	default:
		name = "same_instant"
		t := a*hourUS + r.Int64N(hourUS)
		for i := range ts {
			ts[i] = t
		}
	}
	return name, ts
}

// schemaVariant is a recurring batch schema of a measurement (column subset + types).
type schemaVariant []colSpec

func genVariant(r *rand.Rand, s *caseSpec, m string, home map[string]colType, churn float64) schemaVariant {
	var v schemaVariant
	dec := s.decimalFor(m)
	for _, name := range pool {
		if r.IntN(10) < 3 {
			continue
		}
		t := home[name]
		if r.Float64() < churn {
			t = colType(r.IntN(4))
		}
		if name == "price" && dec {
			t = tDec
		}
		v = append(v, colSpec{Name: name, Type: t})
	}
	return v
}

type schemaPlan struct {
	home     map[string]map[string]colType
	variants map[string][]schemaVariant
	perW     map[string][]schemaVariant // churn class: one private schema per writer
}

// genBatch draws schema, row count, timestamps and cells. Most batches reuse one of the
// measurement's recurring schema variants (so that a flush merges several batches);
// with probability Churn the batch gets a fresh column subset with re-drawn types.
func genBatch(r *rand.Rand, s *caseSpec, sp *schemaPlan, w, seq, nMax int) *batch {
	b := &batch{Writer: w, Seq: seq, DB: s.DBs[r.IntN(len(s.DBs))], M: s.Ms[r.IntN(len(s.Ms))]}
	b.RidBase = (int64(w+1)*10_000 + int64(seq)) * 100_000
	b.N = 1 + r.IntN(nMax)
	if r.IntN(8) == 0 {
		b.N = 1 + r.IntN(3)
	}
	b.TimeMode, b.Times = genTimes(r, s, b.N)
	b.Cells = map[string][]any{}
	var v schemaVariant
	switch {
	case sp.perW != nil && w < len(sp.perW[b.M]) && r.IntN(10) < 8:
		v = sp.perW[b.M][w]
	case r.Float64() < s.Churn:
		v = genVariant(r, s, b.M, sp.home[b.M], 0.5)
	default:
		vs := sp.variants[b.M]
		v = vs[r.IntN(len(vs))]
	}
	fillCols(r, b, v)
	return b
}

// fillCols draws null pattern and cells of batch b for the schema v.
func fillCols(r *rand.Rand, b *batch, v schemaVariant) {
	nullMode := r.IntN(4) // 0,1: dense batch; 2,3: nulls
	for _, cs := range v {
		t := cs.Type
		if nullMode >= 2 {
			switch r.IntN(12) {
			case 0:
				cs.AllNull = true
			case 1, 2, 3:
				cs.NullP = 0.5
			case 4, 5, 6:
				cs.NullP = 0.1
			}
		}
		col := make([]any, b.N)
		for i := range col {
			if cs.AllNull || (cs.NullP > 0 && r.Float64() < cs.NullP) {
				continue
			}
			col[i] = genCell(r, t)
		}
		if !cs.AllNull {
			// keep the declared type observable: at least one non-null unless all-null
			any := false
			for _, x := range col {
				if x != nil {
					any = true
					break
				}
			}
			if !any {
				col[r.IntN(b.N)] = genCell(r, t)
			}
		}
		b.Cols = append(b.Cols, cs)
		b.Cells[cs.Name] = col
	}
}

func (b *batch) eligibleMsgpack() bool {
	if b.Times[0] < 1e13 || b.Times[0] >= 1e16 {
		return false // the decoder would re-scale the time column (unit detection on element 0)
	}
	for _, c := range b.Cols {
		if c.Type == tDec {
			return false
		}
	}
	return true
}

// genCase draws one case. The result depends only on (seed stream, index).
func genCase(r *rand.Rand, index int, variant string, reduced bool) *caseSpec {
	s := &caseSpec{Index: index, Variant: variant}
	classes := []string{"mixed", "mixed", "mixed", "churn", "hours", "big", "tiny_buffer", "age"}
	s.Class = classes[index%len(classes)]
	if variant == "shutdown" {
		s.Class = "shutdown"
	}
	s.Writers = 1 + r.IntN(8)
	cfg := &s.Cfg
	cfg.MaxBufferSize = []int{1, 7, 50, 300, 1000, 5000, 100000}[r.IntN(7)]
	cfg.MaxBufferAgeMS = []int{15, 40, 120, 60000, 60000}[r.IntN(5)]
	cfg.FlushWorkers = 1 + r.IntN(8)
	cfg.ShardCount = []int{1, 2, 3, 4, 8, 32}[r.IntN(6)]
	// zstd/gzip re-initialise a large encoder state per page: expensive with thousands of
	// small files (and pathologically slow under the race detector), so they are rare
	cfg.Compression = []string{"snappy", "snappy", "snappy", "snappy", "snappy", "none", "none", "none", "gzip", "zstd"}[r.IntN(10)]
	if reduced && (cfg.Compression == "zstd" || cfg.Compression == "gzip") {
		cfg.Compression = "snappy"
	}
	cfg.UseDictionary = r.IntN(2) == 0
	cfg.NumericDict = cfg.UseDictionary && r.IntN(2) == 0
	cfg.WriteStatistics = r.IntN(2) == 0
	cfg.DataPageVersion = []string{"1.0", "2.0"}[r.IntN(2)]
	cfg.WriteDelayUS = []int{0, 0, 200, 1500}[r.IntN(4)]
	nDB, nM := 1+r.IntN(2), 1+r.IntN(3)
	s.Churn = []float64{0, 0.05, 0.3}[r.IntN(3)]
	nMax, nBatchesTotal := 40, 100
	s.Final = []string{"explicit", "explicit", "age", "close"}[r.IntN(4)]
	s.MidFlush = []int{0, 0, 2, 6}[r.IntN(4)]
	switch s.Class {
	case "churn":
		nDB, nM = 1, 1
		s.Churn = 0.7
		s.Writers = 2 + r.IntN(7)
		cfg.WriteDelayUS = []int{200, 1500, 3000}[r.IntN(3)]
		cfg.MaxBufferSize = []int{50, 300, 5000}[r.IntN(3)]
		nMax, nBatchesTotal = 6, 150
	case "hours":
		nMax, nBatchesTotal = 150, 40
	case "big":
		cfg.MaxBufferSize = []int{5000, 20000}[r.IntN(2)]
		nMax, nBatchesTotal = 2500, 12
		cfg.WriteDelayUS = 0
		s.TimeBias = "single_hour"
		s.Churn = 0
		nDB, nM = 1, 1
	case "tiny_buffer":
		cfg.MaxBufferSize = []int{1, 2, 7}[r.IntN(3)]
		nMax, nBatchesTotal = 12, 80
	case "age":
		cfg.MaxBufferAgeMS = []int{10, 15, 40}[r.IntN(3)]
		cfg.MaxBufferSize = []int{300, 5000, 100000}[r.IntN(3)]
		s.Final = "age"
	case "shutdown":
		// Close() right after the last write, many size-triggered tasks in the queue
		cfg.MaxBufferSize = []int{20, 50, 100}[r.IntN(3)]
		cfg.FlushWorkers = 1 + r.IntN(2)
		cfg.WriteDelayUS = []int{1500, 3000}[r.IntN(2)]
		cfg.MaxBufferAgeMS = 60000
		s.Writers = 4 + r.IntN(5)
		s.Churn = 0
		s.Final = "close_immediately"
		s.MidFlush = 0
		nMax, nBatchesTotal = 60, 120
	}
	if s.Final == "age" && cfg.MaxBufferAgeMS > 1000 {
		cfg.MaxBufferAgeMS = 40
	}
	if reduced {
		nBatchesTotal = nBatchesTotal / 2
		if nMax > 600 {
			nMax = 600
		}
	}
	for i := 0; i < nDB; i++ {
		s.DBs = append(s.DBs, []string{"dba", "dbb"}[i])
	}
	for i := 0; i < nM; i++ {
		s.Ms = append(s.Ms, []string{"m0", "m1", "m2"}[i])
	}
	switch r.IntN(4) {
	case 0:
		cfg.DecimalM = s.Ms[r.IntN(len(s.Ms))]
	case 1:
		cfg.DecimalM = "*"
	}
	nA := 1 + r.IntN(4)
	for i := 0; i < nA; i++ {
		s.Anchors = append(s.Anchors, anchorHours[r.IntN(len(anchorHours))])
	}
	if s.Class == "hours" {
		s.Anchors = append(s.Anchors, -1, 0)
	}
	if s.Class == "big" {
		s.Anchors = s.Anchors[:1] // one hour receives most rows: flushes of >= 4096 unsorted rows (radix sort path)
	}
	home := &schemaPlan{home: map[string]map[string]colType{}, variants: map[string][]schemaVariant{}}
	for _, m := range s.Ms {
		home.home[m] = map[string]colType{}
		for _, name := range pool {
			home.home[m][name] = colType(r.IntN(4))
		}
		nVar := 1 + r.IntN(3)
		if s.Class == "big" {
			nVar = 1
		}
		for k := nVar; k > 0; k-- {
			home.variants[m] = append(home.variants[m], genVariant(r, s, m, home.home[m], 0.15))
		}
	}
	if s.Class == "churn" {
		// every writer keeps rotating its own schema against the same buffer key
		home.perW = map[string][]schemaVariant{}
		for _, m := range s.Ms {
			for w := 0; w < s.Writers; w++ {
				home.perW[m] = append(home.perW[m], genVariant(r, s, m, home.home[m], 0.6))
			}
		}
	}
	s.Ops = make([][]*op, s.Writers)
	seqs := make([]int, s.Writers)
	for k := 0; k < nBatchesTotal; k++ {
		w := r.IntN(s.Writers)
		o := genOp(r, s, home, w, &seqs[w], nMax)
		if s.Class == "age" || r.IntN(6) == 0 {
			o.SleepUS = []int{50, 500, 3000, 12000}[r.IntN(4)]
		}
		s.Ops[w] = append(s.Ops[w], o)
	}
	if s.Class == "churn" {
		iw := s.Writers // rid space of the intruder
		for k := 0; k < 48; k++ {
			b := genBatch(r, s, home, iw, k, 4)
			// a column no regular writer has, with a rotating type: always a foreign schema
			t := colType(k % 4)
			col := make([]any, b.N)
			for i := range col {
				col[i] = genCell(r, t)
			}
			b.Cols = append(b.Cols, colSpec{Name: "intr", Type: t})
			b.Cells["intr"] = col
			api := "columnar"
			if k%3 == 0 {
				api = "typed"
			}
			s.Intruder = append(s.Intruder, &op{API: api, Batches: []*batch{b}, ValShape: k % 4})
		}
	}
	if s.Final == "close" {
		// tail: per buffer key fewer rows than MaxBufferSize, one schema per key, so that
		// nothing but Close() itself (or the age timer / schema flush, both synchronous)
		// can flush them
		left := map[string]int{}
		schema := map[string]*batch{}
		nTail := 1 + r.IntN(6)
		for k := 0; k < nTail; k++ {
			w := r.IntN(s.Writers)
			b := genBatch(r, s, home, w, seqs[w], 40)
			key := b.DB + "/" + b.M
			if first, ok := schema[key]; ok {
				// same schema as the first tail batch of this key
				nb := *first
				nb.Seq, nb.RidBase, nb.N = b.Seq, b.RidBase, b.N
				nb.TimeMode, nb.Times = b.TimeMode, b.Times
				nb.Cells = map[string][]any{}
				for _, c := range nb.Cols {
					col := make([]any, nb.N)
					for i := range col {
						if !c.AllNull {
							col[i] = genCell(r, c.Type)
						}
					}
					nb.Cells[c.Name] = col
				}
				b = &nb
			} else {
				schema[key] = b
				left[key] = s.Cfg.MaxBufferSize - 1
				// all-null / sparse columns would be typed by content; keep cells dense here
				for ci, c := range b.Cols {
					b.Cols[ci].AllNull, b.Cols[ci].NullP = false, 0
					for i := range b.Cells[c.Name] {
						b.Cells[c.Name][i] = genCell(r, c.Type)
					}
				}
			}
			if b.N > left[key] {
				continue
			}
			left[key] -= b.N
			seqs[w]++
			api := "columnar"
			if r.IntN(2) == 0 {
				api = "typed"
			}
			s.Tail = append(s.Tail, &op{API: api, Batches: []*batch{b}, ValShape: r.IntN(4)})
		}
	}
	// drawn last, so that the rest of the case is the same with and without the family
	if variant == "quiesced" && r.IntN(5) < 3 {
		genSwap(r, s, reduced)
	}
	for _, ops := range s.Ops {
		for _, o := range ops {
			for _, b := range o.Batches {
				s.TotalRows += b.N
			}
		}
	}
	for _, o := range s.Tail {
		s.TotalRows += o.Batches[0].N
	}
	for _, o := range s.Intruder {
		s.TotalRows += o.Batches[0].N
	}
	return s
}

func genOp(r *rand.Rand, s *caseSpec, home *schemaPlan, w int, seq *int, nMax int) *op {
	next := func() *batch {
		b := genBatch(r, s, home, w, *seq, nMax)
		*seq++
		return b
	}
	o := &op{ValShape: r.IntN(4), Typed: r.IntN(2) == 0}
	switch k := r.IntN(20); {
	case k < 5:
		o.API = "columnar"
	case k < 7:
		o.API = "direct"
	case k < 9:
		o.API = "write1"
	case k < 14:
		o.API = "typed"
	case k < 16:
		o.API = "msgpack"
	case k < 18:
		o.API = "rows"
	default:
		o.API = "writeN"
	}
	if s.Variant == "shutdown" && (o.API == "writeN") {
		o.API = "columnar"
	}
	if o.API == "writeN" {
		n := 2 + r.IntN(2)
		for i := 0; i < n; i++ {
			o.Batches = append(o.Batches, next())
		}
		return o
	}
	b := next()
	o.Batches = []*batch{b}
	if o.API == "msgpack" && !b.eligibleMsgpack() {
		o.API = "columnar"
	}
	if o.API == "rows" {
		prepRows(r, b)
	}
	if (o.API == "columnar" || o.API == "direct" || o.API == "write1") && s.Variant != "shutdown" && r.IntN(30) == 0 {
		b.Invalid = []string{"null_in_time", "string_time", "all_null_time"}[r.IntN(3)]
	}
	return o
}

// permutations of 0..n-1 (n = 2 or 3), identity first.
func perms(n int) [][]int {
	if n == 2 {
		return [][]int{{0, 1}, {1, 0}}
	}
	return [][]int{{0, 1, 2}, {1, 0, 2}, {0, 2, 1}, {2, 1, 0}, {1, 2, 0}, {2, 0, 1}}
}

// genSwap adds the type-permutation family to a case (see swapPlan). Nothing in it is
// tied to a particular pair of types, column count or entry point: the permuted types
// are any 2-3 pairwise distinct ones of int64/float64/string/bool, optionally next to
// columns whose type stays fixed, over every single-batch entry point of the workload.
func genSwap(r *rand.Rand, s *caseSpec, reduced bool) {
	sp := &swapPlan{DB: s.DBs[r.IntN(len(s.DBs))], M: "msw", Own: true, Writers: 1 + r.IntN(2)}
	if s.Class != "big" && r.IntN(3) == 0 {
		sp.M, sp.Own = s.Ms[r.IntN(len(s.Ms))], false
	}
	nc := 2 + r.IntN(2)
	sp.Cols = []string{"sa", "sb", "sc"}[:nc]
	ts := r.Perm(4)
	for _, t := range ts[:nc] {
		sp.Base = append(sp.Base, colType(t))
	}
	for i, nf := 0, r.IntN(3); i < nf; i++ {
		sp.Fixed = append(sp.Fixed, colSpec{Name: []string{"sk", "sl"}[i], Type: colType(r.IntN(4))})
	}
	ps := perms(nc)
	nPhases := 8 + r.IntN(5)
	if reduced {
		nPhases = 5 + r.IntN(3)
	}
	nMax := 20
	if s.Class == "tiny_buffer" {
		nMax = 6
	}
	seen := map[string]bool{}
	for k := 0; k < sp.Writers; k++ {
		w := s.Writers + 1 + k
		var ops []*op
		cur := r.IntN(len(ps))
		seq := 0
		for ph := 0; ph < nPhases; ph++ {
			if ph > 0 {
				// another assignment than the previous phase's: with two columns the plain
				// exchange back and forth, with three a transposition or a 3-cycle
				cur = (cur + 1 + r.IntN(len(ps)-1)) % len(ps)
			}
			v := schemaVariant{}
			asg := make([]colType, nc)
			for ci, name := range sp.Cols {
				asg[ci] = sp.Base[ps[cur][ci]]
				v = append(v, colSpec{Name: name, Type: asg[ci]})
			}
			v = append(v, sp.Fixed...)
			sp.Phases = append(sp.Phases, asg)
			seen[fmt.Sprint(asg)] = true
			for nb := 1 + r.IntN(3); nb > 0; nb-- {
				b := &batch{Writer: w, Seq: seq, DB: sp.DB, M: sp.M, Swap: true}
				b.RidBase = (int64(w+1)*10_000 + int64(seq)) * 100_000
				seq++
				b.N = 1 + r.IntN(nMax)
				b.TimeMode, b.Times = genTimes(r, s, b.N)
				b.Cells = map[string][]any{}
				fillCols(r, b, v)
				o := &op{Batches: []*batch{b}, ValShape: r.IntN(4), Typed: r.IntN(2) == 0}
				switch x := r.IntN(18); {
				case x < 4:
					o.API = "columnar"
				case x < 8:
					o.API = "typed"
				case x < 12:
					o.API = "msgpack"
				case x < 14:
					o.API = "direct"
				case x < 16:
					o.API = "write1"
				default:
					o.API = "rows"
				}
				if o.API == "msgpack" && !b.eligibleMsgpack() {
					o.API = "columnar"
				}
				if o.API == "rows" {
					prepRows(r, b)
				}
				if s.Class == "age" || r.IntN(5) == 0 {
					o.SleepUS = []int{50, 500, 3000, 12000}[r.IntN(4)]
				}
				ops = append(ops, o)
				sp.Batches++
			}
			if ph > 0 {
				sp.Switches++
			}
		}
		s.Ops = append(s.Ops, ops)
	}
	sp.Distinct = len(seen)
	s.Swap = sp
}

// prepRows adapts a batch to the row format (models.Record): a zero Timestamp means
// "unset" there, decimal cells are given as strings, string columns may travel as tags.
func prepRows(r *rand.Rand, b *batch) {
	for i, t := range b.Times {
		if t == 0 {
			b.Times[i] = 1
		}
	}
	for _, c := range b.Cols {
		if c.Type == tStr && !c.AllNull && r.IntN(2) == 0 {
			b.RowTags = append(b.RowTags, c.Name)
		}
	}
}

func (s *caseSpec) key() string {
	return fmt.Sprintf("%s/%d/%+v/w%d/%s/%d/%v/%v/%v/%v/%d", s.Variant, s.Index, s.Cfg, s.Writers, s.Final, s.MidFlush, s.DBs, s.Ms, s.Anchors, s.Churn, s.TotalRows)
}
