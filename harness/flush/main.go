// Harness for the flush area: C03 (accepted rows are flushed exactly once into their
// hour partition).
package main

import (
	"flag"
	"fmt"
	"os"

	"github.com/basekick-labs/arc/internal/zzverif/vlib"
)

func main() {
	prop := flag.String("prop", "", "property id")
	flag.String("replay", "", "replay file")
	child := flag.String("child", "", "internal: run a slice of cases and print their results (JSON)")
	flag.Parse()
	switch *prop {
	case "C03":
		if *child != "" {
			childMain(*child)
			return
		}
		vlib.Main("C03", "exploration", checkC03)
	default:
		fmt.Println("unknown property", *prop)
		os.Exit(2)
	}
}
