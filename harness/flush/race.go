package main

// Race-detector sub-run: the plain binary executes the -race build of this same harness
// on a reduced concurrent workload (same generator, same oracle) and classifies the
// detector's reports by their de-duplicated top frames.

import (
	"os"
	"path/filepath"
	"regexp"
	"sort"
	"strings"

	"github.com/basekick-labs/arc/internal/zzverif/vlib"
)

var raceFrame = regexp.MustCompile(`^\s{2}(\S+)\(`)

func isAccessHeader(ln string) bool {
	if !strings.Contains(ln, " by goroutine ") && !strings.Contains(ln, " by main goroutine") {
		return false
	}
	for _, p := range []string{"Write at", "Read at", "Previous write at", "Previous read at", "Atomic write at", "Atomic read at", "Previous atomic"} {
		if strings.HasPrefix(ln, p) {
			return true
		}
	}
	return false
}

func raceSubRun(c *vlib.Ctx, comps map[string]bool) {
	bin := os.Getenv("VERIF_BIN_RACE")
	if bin == "" {
		c.Count("race_subrun_skipped", 1)
		return
	}
	if _, err := os.Stat(bin); err != nil {
		c.Count("race_subrun_skipped", 1)
		return
	}
	dir := vlib.TempDir("c03race")
	defer os.RemoveAll(dir)
	n := c.N(16, 120)
	before := c.Counter("rows_compared")
	runPhase(c, bin, "racemix", raceIndexBase, n, true, 3, []string{"GORACE=halt_on_error=0 log_path=" + filepath.Join(dir, "race")}, comps)
	c.Count("race_subrun_cases", int64(n))
	c.Count("race_subrun_rows_compared", c.Counter("rows_compared")-before)

	files, _ := filepath.Glob(filepath.Join(dir, "race*"))
	type rep struct {
		text   string
		ingest bool
	}
	seen := map[string]rep{}
	total := 0
	for _, f := range files {
		b, _ := os.ReadFile(f)
		for _, blk := range strings.Split(string(b), "==================") {
			if !strings.Contains(blk, "WARNING: DATA RACE") {
				continue
			}
			total++
			var tops []string
			inIngest := false
			lines := strings.Split(blk, "\n")
			for i, ln := range lines {
				if !isAccessHeader(ln) {
					continue
				}
				// the first arc frame of this access stack (skipping runtime/stdlib frames)
				top := ""
				for j := i + 1; j < len(lines) && strings.TrimSpace(lines[j]) != ""; j += 2 {
					m := raceFrame.FindStringSubmatch(lines[j])
					if m == nil {
						continue
					}
					if top == "" {
						top = m[1]
					}
					if strings.Contains(m[1], "basekick-labs/arc/") && !strings.Contains(m[1], "/zzverif/") {
						top = m[1]
						break
					}
				}
				if strings.Contains(top, "/internal/ingest.") {
					inIngest = true
				}
				tops = append(tops, strings.ReplaceAll(top, "github.com/basekick-labs/arc/internal/", ""))
			}
			sort.Strings(tops)
			key := strings.Join(tops, " <-> ")
			if _, ok := seen[key]; !ok {
				seen[key] = rep{text: blk, ingest: inIngest}
			}
		}
	}
	c.Count("race_reports_total", int64(total))
	c.Count("race_reports_distinct", int64(len(seen)))
	keys := make([]string, 0, len(seen))
	for k := range seen {
		keys = append(keys, k)
	}
	sort.Strings(keys)
	c.Extra("race_reports", keys)
	for _, k := range keys {
		r := seen[k]
		if !r.ingest {
			c.Count("race_reports_outside_internal_ingest", 1)
			continue
		}
		txt := r.text
		if len(txt) > 8000 {
			txt = txt[:8000]
		}
		c.Violation("data race in internal/ingest: "+k, map[string]any{"report": txt, "seed": c.Seed})
	}
}
