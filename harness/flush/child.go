package main

// Case execution happens in child processes of this same binary (plain build for the
// main and shutdown phases, -race build for the race sub-run): arc's flush workers are
// goroutines of the process under test, so a panic there kills the process; the parent
// survives, classifies the crash and reports it.

import (
	"bufio"
	"bytes"
	"crypto/sha256"
	"encoding/json"
	"fmt"
	"math/rand/v2"
	"os"
	"os/exec"
	"regexp"
	"strconv"
	"strings"
	"sync"
	"time"
)

const raceIndexBase = 500000

type childSpec struct {
	Kind    string `json:"kind"` // quiesced | shutdown | racemix
	From    int    `json:"from"`
	N       int    `json:"n"`
	Reduced bool   `json:"reduced"`
	Par     int    `json:"par"`
}

type findingOut struct {
	Sig    string         `json:"sig"`
	Detail map[string]any `json:"detail"`
}

type caseOut struct {
	Variant      string           `json:"variant"`
	Index        int              `json:"index"`
	Class        string           `json:"class"`
	Final        string           `json:"final"`
	Key          string           `json:"key"`
	Inconclusive string           `json:"inconclusive,omitempty"`
	Findings     []findingOut     `json:"findings,omitempty"`
	Stats        map[string]int64 `json:"stats"`
	Compositions []string         `json:"compositions,omitempty"`
	WallMS       int64            `json:"wall_ms"`
}

func toOut(r *caseResult) caseOut {
	o := caseOut{Variant: r.Spec.Variant, Index: r.Spec.Index, Class: r.Spec.Class, Final: r.Spec.Final, Key: r.Spec.key(),
		Inconclusive: r.Inconclusive, Stats: r.Stats, Compositions: r.Compositions, WallMS: r.WallMS}
	seen := map[string]bool{}
	for _, f := range r.Findings {
		if seen[f.Sig] {
			continue // one witness per signature and case is enough
		}
		seen[f.Sig] = true
		d := f.Detail
		if d == nil {
			d = map[string]any{}
		}
		d["case"] = r.Spec
		o.Findings = append(o.Findings, findingOut{f.Sig, d})
	}
	return o
}

// streamRand is the same derivation as vlib's Ctx.Rand for property C03.
func streamRand(seed int64, stream string) *rand.Rand {
	h := sha256.Sum256([]byte(fmt.Sprintf("C03/%d/%s", seed, stream)))
	var a, b uint64
	for i := 0; i < 8; i++ {
		a = a<<8 | uint64(h[i])
		b = b<<8 | uint64(h[8+i])
	}
	return rand.New(rand.NewPCG(a, b))
}

// specFor returns case i of a kind; it depends only on (seed, kind, i, reduced).
func specFor(seed int64, kind string, i int, reduced bool) *caseSpec {
	if kind != "racemix" {
		return genCase(streamRand(seed, fmt.Sprintf("%s-case-%d", kind, i)), i, kind, reduced)
	}
	// race sub-run: reduced cases with at least two writers, every 8th a shutdown case
	variant := "quiesced"
	if i%8 == 7 {
		variant = "shutdown"
	}
	for try := 0; ; try++ {
		s := genCase(streamRand(seed, fmt.Sprintf("race-case-%d-%d", i, try)), i, variant, reduced)
		if s.Writers >= 2 || try == 5 {
			return s
		}
	}
}

func childMain(arg string) {
	var cs childSpec
	if err := json.Unmarshal([]byte(arg), &cs); err != nil {
		fmt.Println("bad -child argument:", err)
		os.Exit(2)
	}
	seed, _ := strconv.ParseInt(os.Getenv("VERIF_SEED"), 10, 64)
	if seed == 0 {
		seed = 1
	}
	var specs []*caseSpec
	for i := cs.From; i < cs.From+cs.N; i++ {
		specs = append(specs, specFor(seed, cs.Kind, i, cs.Reduced))
	}
	w := bufio.NewWriter(os.Stdout)
	runCases(specs, uint64(seed), max(1, cs.Par), func(r *caseResult) {
		o := toOut(r)
		b, err := json.Marshal(o)
		if err != nil {
			// a detail that JSON cannot carry must not hide the finding
			for i := range o.Findings {
				o.Findings[i].Detail = map[string]any{"case": r.Spec, "detail_dropped": err.Error()}
			}
			b, _ = json.Marshal(o)
		}
		fmt.Fprintf(w, "CASE %s\n", b)
		w.Flush()
	})
	fmt.Fprintln(w, "CHILD-DONE")
	w.Flush()
}

type childResult struct {
	Cases    []caseOut
	Done     bool
	TimedOut bool
	Crash    string // classification of a crash, "" if none
	Tail     string
}

var (
	reFrameFunc = regexp.MustCompile(`^(\S+)\(`)
)

// classifyCrash reduces a Go crash report to "<kind> @ <first arc frame>" (no addresses,
// no data): the same defect gives the same text at every seed.
func classifyCrash(out string) string {
	lines := strings.Split(out, "\n")
	kind, at := "", -1
	for i, ln := range lines {
		if strings.HasPrefix(ln, "panic: ") || strings.HasPrefix(ln, "fatal error: ") {
			kind = ln
			at = i
			break
		}
	}
	if at < 0 {
		return ""
	}
	// strip data from the message: keep the text up to the first ':' after the prefix
	pfx, msg, _ := strings.Cut(kind, ": ")
	if j := strings.IndexAny(msg, ":["); j > 0 {
		msg = msg[:j]
	}
	kind = pfx + ": " + strings.TrimSpace(msg)
	frame := ""
	for _, ln := range lines[at:] {
		if m := reFrameFunc.FindStringSubmatch(ln); m != nil && strings.Contains(m[1], "basekick-labs/arc/internal/") && !strings.Contains(m[1], "/zzverif/") {
			frame = strings.TrimPrefix(m[1], "github.com/basekick-labs/arc/internal/")
			break
		}
	}
	if frame == "" {
		frame = "no arc frame on the crashing stack"
	}
	return kind + " @ " + frame
}

func runChild(bin string, cs childSpec, extraEnv []string, limit time.Duration) childResult {
	arg, _ := json.Marshal(cs)
	cmd := exec.Command(bin, "-prop", "C03", "-child", string(arg))
	env := []string{}
	for _, e := range os.Environ() {
		if len(extraEnv) > 0 && strings.HasPrefix(e, "GORACE=") {
			continue
		}
		env = append(env, e)
	}
	cmd.Env = append(env, extraEnv...)
	var stdout, stderr bytes.Buffer
	cmd.Stdout = &stdout
	cmd.Stderr = &stderr
	var res childResult
	if err := cmd.Start(); err != nil {
		res.Tail = "cannot start child: " + err.Error()
		return res
	}
	done := make(chan error, 1)
	var once sync.Once
	go func() { done <- cmd.Wait() }()
	var werr error
	select {
	case werr = <-done:
	case <-time.After(limit):
		once.Do(func() { _ = cmd.Process.Kill() })
		<-done
		res.TimedOut = true
	}
	sc := bufio.NewScanner(&stdout)
	sc.Buffer(make([]byte, 1<<20), 1<<28)
	for sc.Scan() {
		ln := sc.Text()
		switch {
		case strings.HasPrefix(ln, "CASE "):
			var co caseOut
			if json.Unmarshal([]byte(ln[5:]), &co) == nil {
				res.Cases = append(res.Cases, co)
			}
		case ln == "CHILD-DONE":
			res.Done = true
		}
	}
	errText := stderr.String()
	if !res.Done && !res.TimedOut {
		res.Crash = classifyCrash(errText)
		if res.Crash == "" && werr != nil {
			res.Tail = "child failed: " + werr.Error()
		}
	}
	if res.Tail != "" {
		return res
	}
	tail := errText
	if i := strings.Index(tail, "panic: "); i >= 0 {
		tail = tail[i:]
	} else if i := strings.Index(tail, "fatal error: "); i >= 0 {
		tail = tail[i:]
	}
	if len(tail) > 6000 {
		tail = tail[:6000]
	}
	res.Tail = tail
	return res
}
