package main

// The "world": real governance.Manager instances (and a real api.QueryHandler in
// front of one of them) under a virtual clock, plus the executor that plays a
// scenario against them and records what was observed.

import (
	"context"
	"database/sql"
	"encoding/json"
	"fmt"
	"io"
	"net/http"
	"net/http/httptest"
	"os"
	"path/filepath"
	"strconv"
	"strings"
	"sync"
	"sync/atomic"
	"time"

	"github.com/basekick-labs/arc/internal/api"
	"github.com/basekick-labs/arc/internal/auth"
	"github.com/basekick-labs/arc/internal/config"
	"github.com/basekick-labs/arc/internal/database"
	"github.com/basekick-labs/arc/internal/governance"
	"github.com/basekick-labs/arc/internal/license"
	"github.com/basekick-labs/arc/internal/storage"
	"github.com/basekick-labs/arc/internal/verifhook"
	"github.com/basekick-labs/arc/internal/zzverif/vlib"
	"github.com/gofiber/fiber/v2"
	_ "github.com/mattn/go-sqlite3"
	"github.com/rs/zerolog"
)

const (
	second = int64(time.Second)
	minute = int64(time.Minute)
	hour   = int64(time.Hour)
	day    = 24 * int64(time.Hour)
)

var vnow atomic.Int64

func installClock() {
	verifhook.SetNow(func() time.Time { return time.Unix(0, vnow.Load()).UTC() })
}

// pol is the harness's view of a policy: per-minute and per-hour rate limits,
// hourly and daily quotas (0 = unlimited).
type pol struct {
	Lm int `json:"rate_per_min"`
	Lh int `json:"rate_per_hour"`
	Qh int `json:"quota_per_hour"`
	Qd int `json:"quota_per_day"`
}

// defaults of the manager configurations the scenarios choose from
var managerDefaults = []pol{{0, 0, 0, 0}, {3, 0, 4, 0}, {2, 10, 5, 8}}

type world struct {
	tmp      string
	dbs      []*sql.DB
	managers []*governance.Manager
	// handler rig (in front of managers[handlerMgr])
	duck    *database.DuckDB
	backend storage.Backend
	app     *fiber.App
	nextTok atomic.Int64
}

const handlerMgr = 1

func newWorld() (*world, error) {
	w := &world{tmp: vlib.TempDir("c28")}
	w.nextTok.Store(1000)
	for i, d := range managerDefaults {
		db, err := sql.Open("sqlite3", filepath.Join(w.tmp, fmt.Sprintf("gov%d.db", i)))
		if err != nil {
			return nil, err
		}
		db.SetMaxOpenConns(1)
		w.dbs = append(w.dbs, db)
		m, err := governance.NewManager(&governance.ManagerConfig{DB: db, Logger: zerolog.Nop(), Config: &config.GovernanceConfig{
			Enabled: true, DefaultRateLimitPerMin: d.Lm, DefaultRateLimitPerHour: d.Lh,
			DefaultMaxQueriesPerHour: d.Qh, DefaultMaxQueriesPerDay: d.Qd,
		}})
		if err != nil {
			return nil, err
		}
		w.managers = append(w.managers, m)
	}
	// the real query handler; governance enforcement runs before the body is
	// parsed, so an admitted request with a malformed body answers 400 without
	// touching DuckDB and a refused one answers 429 with the manager's reason
	store := filepath.Join(w.tmp, "store")
	if err := os.MkdirAll(store, 0o755); err != nil {
		return nil, err
	}
	duck, err := database.New(&database.Config{MemoryLimit: "256MB", ThreadCount: 1, MaxConnections: 2, LocalStorageRoot: store}, zerolog.Nop())
	if err != nil {
		return nil, fmt.Errorf("duckdb: %w", err)
	}
	w.duck = duck
	backend, err := storage.NewLocalBackend(store, zerolog.Nop())
	if err != nil {
		return nil, err
	}
	w.backend = backend
	qh := api.NewQueryHandler(duck, backend, zerolog.Nop(), 0, 0)
	lic := license.NewClientForVerif(&license.License{
		LicenseKey: "verif", CustomerID: "verif", Tier: "enterprise", Status: "active",
		Features:  []string{license.FeatureQueryGovernance},
		ExpiresAt: time.Date(2099, 1, 1, 0, 0, 0, 0, time.UTC),
	})
	qh.SetGovernance(w.managers[handlerMgr], lic)
	w.app = fiber.New(fiber.Config{DisableStartupMessage: true})
	// stands in for the auth middleware: it resolves the caller to a token
	w.app.Use(func(c *fiber.Ctx) error {
		id, err := strconv.ParseInt(c.Get("X-Verif-Token"), 10, 64)
		if err != nil {
			return c.SendStatus(fiber.StatusUnauthorized)
		}
		c.Locals("token_info", &auth.TokenInfo{ID: id, Name: "verif-" + c.Get("X-Verif-Token"), Enabled: true, Permissions: []string{"read"}})
		return c.Next()
	})
	qh.RegisterRoutes(w.app)
	return w, nil
}

func (w *world) close() {
	if w.app != nil {
		_ = w.app.Shutdown()
	}
	if w.duck != nil {
		w.duck.Close()
	}
	if w.backend != nil {
		w.backend.Close()
	}
	for _, db := range w.dbs {
		db.Close()
	}
	os.RemoveAll(w.tmp)
}

// ---------------------------------------------------------------------------
// scenario representation

type op struct {
	K   string `json:"k"` // req | set | delete | conc
	Tok int    `json:"tok"`
	At  int64  `json:"at_unix_nanos"`
	P   *pol   `json:"policy,omitempty"` // set
	N   int    `json:"n,omitempty"`      // conc: number of concurrent requests
}

type scenario struct {
	Family string `json:"family"`
	Mode   string `json:"mode"` // manager | handler
	Mgr    int    `json:"manager"`
	// Observe: read the manager's usage report before and after each request
	Observe bool `json:"observe_usage"`
	NTok    int  `json:"tokens"`
	Ops     []op `json:"ops"`
}

// outcome classes
const (
	oAdmit  = "admit"
	oRLMin  = "rate_min"
	oRLHour = "rate_hour"
	oQHour  = "quota_hour"
	oQDay   = "quota_day"
)

type rec struct {
	Seq    int    `json:"seq"`
	Tok    int    `json:"tok"`
	T      int64  `json:"t_unix_nanos"`
	Out    string `json:"outcome"`
	Reason string `json:"reason,omitempty"`
	P      pol    `json:"policy_in_force"`
	// first request of this token after a policy change (set/delete)
	AfterSet bool    `json:"after_set,omitempty"`
	Prev     *pol    `json:"previous_policy,omitempty"`
	Phase    int     `json:"conc_phase,omitempty"` // >0: part of a concurrent burst
	UB       *[2]int `json:"usage_before,omitempty"`
	UA       *[2]int `json:"usage_after,omitempty"`
	// epoch of in-memory state: incremented by a policy delete of this token
	Epoch int `json:"epoch,omitempty"`
}

type tokState struct {
	id      int64
	hasPol  bool
	p       pol // policy in force (defaults when !hasPol)
	pendSet bool
	prev    pol
	epoch   int
	created bool
}

func classify(reason string) string {
	switch {
	case strings.Contains(reason, "per minute"):
		return oRLMin
	case strings.Contains(reason, "per hour"):
		return oRLHour
	case strings.Contains(reason, "Hourly"):
		return oQHour
	case strings.Contains(reason, "Daily"):
		return oQDay
	}
	return "unknown:" + reason
}

func toPolicy(id int64, p pol) *governance.Policy {
	return &governance.Policy{TokenID: id, RateLimitPerMinute: p.Lm, RateLimitPerHour: p.Lh, MaxQueriesPerHour: p.Qh, MaxQueriesPerDay: p.Qd}
}

// request performs one query admission for a token, in the query handler's order.
func (w *world) request(sc *scenario, m *governance.Manager, id int64) (out, reason string, err error) {
	if sc.Mode == "handler" {
		req := httptest.NewRequest(http.MethodPost, "/api/v1/query", strings.NewReader("{"))
		req.Header.Set("Content-Type", "application/json")
		req.Header.Set("X-Verif-Token", strconv.FormatInt(id, 10))
		resp, err := w.app.Test(req, -1)
		if err != nil {
			return "", "", err
		}
		body, _ := io.ReadAll(resp.Body)
		resp.Body.Close()
		switch resp.StatusCode {
		case fiber.StatusBadRequest:
			return oAdmit, "", nil // passed governance, stopped at the malformed body
		case fiber.StatusTooManyRequests:
			var qr struct {
				Error string `json:"error"`
			}
			_ = json.Unmarshal(body, &qr)
			return classify(qr.Error), qr.Error, nil
		}
		return "", "", fmt.Errorf("unexpected status %d: %s", resp.StatusCode, string(body))
	}
	// internal/api/query.go executeQuery: CheckRateLimit, then CheckQuota
	if r := m.CheckRateLimit(id); !r.Allowed {
		return classify(r.Reason), r.Reason, nil
	}
	if r := m.CheckQuota(id); !r.Allowed {
		return classify(r.Reason), r.Reason, nil
	}
	return oAdmit, "", nil
}

// play executes a scenario and returns the observation log.
func (w *world) play(sc *scenario) ([]rec, error) {
	mgrIdx := sc.Mgr
	if sc.Mode == "handler" {
		mgrIdx = handlerMgr
	}
	m := w.managers[mgrIdx]
	def := managerDefaults[mgrIdx]
	toks := make([]*tokState, sc.NTok)
	for i := range toks {
		toks[i] = &tokState{id: w.nextTok.Add(1), p: def}
	}
	var log []rec
	seq, phase := 0, 0
	last := int64(-1 << 62)
	ctx := context.Background()
	for _, o := range sc.Ops {
		if o.At < last {
			return nil, fmt.Errorf("scenario time goes backwards")
		}
		last = o.At
		vnow.Store(o.At)
		ts := toks[o.Tok]
		switch o.K {
		case "set":
			var err error
			if !ts.created {
				_, err = m.CreatePolicy(ctx, toPolicy(ts.id, *o.P))
				ts.created = true
			} else {
				_, err = m.UpdatePolicy(ctx, toPolicy(ts.id, *o.P))
			}
			if err != nil {
				return nil, err
			}
			if !ts.pendSet {
				ts.prev = ts.p
			}
			ts.p, ts.hasPol, ts.pendSet = *o.P, true, true
		case "delete":
			if err := m.DeletePolicy(ctx, ts.id); err != nil {
				return nil, err
			}
			if !ts.pendSet {
				ts.prev = ts.p
			}
			ts.p, ts.hasPol, ts.pendSet, ts.created = def, false, true, false
			ts.epoch++
		case "req":
			r := rec{Seq: seq, Tok: o.Tok, T: o.At, P: ts.p, Epoch: ts.epoch}
			seq++
			if ts.pendSet {
				pv := ts.prev
				r.AfterSet, r.Prev, ts.pendSet = true, &pv, false
			}
			if sc.Observe {
				u := m.GetTokenUsage(ts.id)
				r.UB = &[2]int{u.QueriesThisHour, u.QueriesThisDay}
			}
			out, reason, err := w.request(sc, m, ts.id)
			if err != nil {
				return nil, err
			}
			r.Out, r.Reason = out, reason
			if sc.Observe {
				u := m.GetTokenUsage(ts.id)
				r.UA = &[2]int{u.QueriesThisHour, u.QueriesThisDay}
			}
			log = append(log, r)
		case "conc":
			// N goroutines issue a request for the same token at the same
			// frozen virtual instant
			phase++
			ts.pendSet = false
			outs := make([]rec, o.N)
			var wg sync.WaitGroup
			var firstErr atomic.Value
			start := make(chan struct{})
			for g := 0; g < o.N; g++ {
				wg.Add(1)
				go func(g int) {
					defer wg.Done()
					<-start
					out, reason, err := w.request(sc, m, ts.id)
					if err != nil {
						firstErr.Store(err)
						return
					}
					outs[g] = rec{Tok: o.Tok, T: o.At, P: ts.p, Out: out, Reason: reason, Phase: phase, Epoch: ts.epoch}
				}(g)
			}
			close(start)
			wg.Wait()
			if e := firstErr.Load(); e != nil {
				return nil, e.(error)
			}
			for g := range outs {
				outs[g].Seq = seq
				seq++
				log = append(log, outs[g])
			}
		default:
			return nil, fmt.Errorf("unknown op %q", o.K)
		}
	}
	return log, nil
}
