package main

// Scenario generation: arrival sequences under the virtual clock. Times are
// absolute virtual Unix nanoseconds and never decrease inside a scenario.

import (
	"math/rand/v2"
)

var (
	lmChoices = []int{0, 1, 2, 3, 5, 8}
	lhChoices = []int{0, 0, 3, 6, 12, 30}
	qhChoices = []int{0, 0, 2, 4, 7, 20}
	qdChoices = []int{0, 0, 3, 6, 11, 40}
)

func pick(rng *rand.Rand, xs []int) int { return xs[rng.IntN(len(xs))] }

func randPol(rng *rand.Rand) pol {
	return pol{pick(rng, lmChoices), pick(rng, lhChoices), pick(rng, qhChoices), pick(rng, qdChoices)}
}

type builder struct {
	rng *rand.Rand
	sc  *scenario
	now int64
}

func (b *builder) req(tok int) { b.sc.Ops = append(b.sc.Ops, op{K: "req", Tok: tok, At: b.now}) }
func (b *builder) burst(tok, n int) {
	for i := 0; i < n; i++ {
		b.req(tok)
	}
}
func (b *builder) conc(tok, n int) {
	b.sc.Ops = append(b.sc.Ops, op{K: "conc", Tok: tok, At: b.now, N: n})
}
func (b *builder) del(tok int) { b.sc.Ops = append(b.sc.Ops, op{K: "delete", Tok: tok, At: b.now}) }
func (b *builder) set(tok int, p pol) {
	q := p
	b.sc.Ops = append(b.sc.Ops, op{K: "set", Tok: tok, At: b.now, P: &q})
}
func (b *builder) adv(d int64) { b.now += d }

// to moves the clock to t unless that would be a step backwards.
func (b *builder) to(t int64) {
	if t > b.now {
		b.now = t
	}
}

// next aligned instant strictly after now
func (b *builder) nextAligned(unit int64) int64 { return (b.now/unit + 1) * unit }

// alignTo moves to just before / exactly at / just after the next multiple of unit.
func (b *builder) alignTo(unit int64, where int) {
	t := b.nextAligned(unit)
	switch where {
	case 0:
		b.now = t - 1
	case 1:
		b.now = t
	default:
		b.now = t + 1
	}
}

// step advances the clock by one of the generator's gap styles.
func (b *builder) step() {
	r := b.rng
	switch r.IntN(24) {
	case 0, 1, 2, 3, 4:
		// same instant (burst)
	case 5:
		b.adv(1)
	case 6:
		b.adv(1 + r.Int64N(999)*int64(1e6))
	case 7, 8:
		b.alignTo(second, r.IntN(3))
	case 9:
		b.adv(second * (1 + r.Int64N(5)))
	case 10:
		b.adv([]int64{58 * second, 59 * second, 60*second - 1, 60 * second, 61 * second}[r.IntN(5)])
	case 11, 12:
		b.alignTo(minute, r.IntN(3))
	case 13:
		// first instant of the slot that lies exactly one per-minute window later
		b.now = (b.now/second + 60) * second
	case 14:
		b.adv([]int64{59 * minute, 60*minute - 1, 60 * minute, 61 * minute}[r.IntN(4)])
	case 15:
		// first instant of the per-hour slot one window later
		b.now = (b.now/minute + 60) * minute
	case 16, 17:
		b.alignTo(hour, r.IntN(3))
	case 18:
		b.alignTo(day, r.IntN(3))
	case 19:
		b.adv(hour*(2+r.Int64N(48)) + r.Int64N(hour)) // forward clock jump
	case 20:
		b.adv(r.Int64N(10 * second))
	case 21:
		b.adv(r.Int64N(3 * minute))
	case 22:
		b.to(b.nextAligned(second) - 1 - r.Int64N(int64(2e8))) // late in the current slot
	case 23:
		b.to(b.nextAligned(minute) - 1 - r.Int64N(5*second))
	}
}

func startTime(rng *rand.Rand, epoch int64) int64 {
	t := epoch + rng.Int64N(3*day)
	switch rng.IntN(4) {
	case 0:
		t = t / second * second
	case 1:
		t = t/hour*hour + 59*minute + 50*second
	}
	return t
}

func genScenario(rng *rand.Rand, epoch int64, family string) *scenario {
	sc := &scenario{Family: family, Mode: "manager", Mgr: rng.IntN(len(managerDefaults)), Observe: rng.IntN(2) == 0, NTok: 1}
	b := &builder{rng: rng, sc: sc, now: startTime(rng, epoch)}
	switch family {
	case "random", "random-handler", "concurrent":
		if family == "random-handler" {
			sc.Mode, sc.Observe = "handler", true
		}
		sc.NTok = 1 + rng.IntN(3)
		for t := 0; t < sc.NTok; t++ {
			if rng.IntN(4) > 0 { // otherwise the token starts on the manager's defaults
				b.set(t, randPol(rng))
			}
		}
		n := 40 + rng.IntN(140)
		for i := 0; i < n; i++ {
			b.step()
			t := rng.IntN(sc.NTok)
			switch x := rng.IntN(40); {
			case x == 0:
				b.set(t, randPol(rng))
			case x < 6 && family == "concurrent":
				b.conc(t, 2+rng.IntN(14))
			case x < 10:
				b.burst(t, 1+rng.IntN(10))
			default:
				b.req(t)
			}
		}
	case "straddle-minute":
		// a burst late in one slot and another one at the first instant that the
		// per-minute limiter regards as a new window
		l := 1 + rng.IntN(8)
		b.set(0, pol{Lm: l, Lh: pick(rng, []int{0, 0, 100}), Qh: 0, Qd: 0})
		for rep := 0; rep < 3; rep++ {
			b.to(b.nextAligned(second) - 1 - rng.Int64N(int64(9e8)))
			b.burst(0, l+2)
			b.now = (b.now/second + 60) * second
			b.now += rng.Int64N(int64(3e8))
			b.burst(0, l+2)
			b.adv(rng.Int64N(3 * minute))
		}
	case "straddle-hour":
		l := 1 + rng.IntN(8)
		b.set(0, pol{Lm: 0, Lh: l})
		for rep := 0; rep < 2; rep++ {
			b.to(b.nextAligned(minute) - 1 - rng.Int64N(50*second))
			b.burst(0, l+2)
			b.now = (b.now/minute+60)*minute + rng.Int64N(20*second)
			b.burst(0, l+2)
			b.adv(rng.Int64N(3 * hour))
		}
	case "boundary-quota":
		q := 1 + rng.IntN(6)
		unit := hour
		p := pol{Qh: q}
		if rng.IntN(2) == 0 {
			unit, p = day, pol{Qd: q}
		}
		if rng.IntN(3) == 0 {
			p.Qh, p.Qd = q, q+rng.IntN(3)
		}
		b.set(0, p)
		for rep := 0; rep < 3; rep++ {
			bt := b.nextAligned(unit)
			if early := bt - 1 - rng.Int64N(5*minute); early > b.now {
				b.now = early
			}
			b.burst(0, rng.IntN(q+3))
			for _, at := range []int64{bt - 1, bt, bt + 1} {
				if rng.IntN(3) > 0 && at >= b.now {
					b.now = at
					b.burst(0, rng.IntN(q+3))
				}
			}
			if b.now < bt+1 {
				b.now = bt + 1
			}
			b.adv(rng.Int64N(unit / 2))
			b.burst(0, q+2)
		}
	case "update-probe":
		sc.Observe = rng.IntN(2) == 0
		p := pol{Lm: 2 + rng.IntN(6), Lh: pick(rng, []int{0, 0, 20}), Qh: pick(rng, []int{0, 6, 15}), Qd: pick(rng, []int{0, 9, 30})}
		b.set(0, p)
		for rep := 0; rep < 8; rep++ {
			b.now += 1 + rng.Int64N(40*second)
			if b.now%hour == 0 {
				b.now++
			}
			b.burst(0, rng.IntN(p.Lm+3))
			b.adv(rng.Int64N(2 * second))
			np := p
			switch rng.IntN(5) {
			case 0:
				np.Lm = maxInt(1, p.Lm-1-rng.IntN(3))
			case 1:
				np.Lm = p.Lm + 1 + rng.IntN(4)
			case 2:
				np.Qh = pick(rng, []int{1, 2, 3, 6, 15, 40})
			case 3:
				np.Qd = pick(rng, []int{1, 2, 4, 9, 30, 60})
			case 4:
				np.Lh = pick(rng, []int{1, 2, 5, 20, 50})
			}
			b.set(0, np)
			p = np
			b.adv(rng.Int64N(3))
			if b.now%hour == 0 {
				b.now++
			}
			b.burst(0, 1+rng.IntN(3))
			if rng.IntN(3) == 0 {
				b.adv(61*second + rng.Int64N(2*hour))
			}
		}
	case "reject-vs-quota", "reject-vs-quota-handler":
		// many rate-limited refusals; the quota must only be consumed by admits
		if family == "reject-vs-quota-handler" {
			sc.Mode = "handler"
		}
		sc.Observe = true
		l := 1 + rng.IntN(3)
		q := l*3 + rng.IntN(4)
		b.now = b.now/hour*hour + 1 + rng.Int64N(5*minute)
		b.set(0, pol{Lm: l, Lh: pick(rng, []int{0, 0, l * 2}), Qh: q, Qd: pick(rng, []int{0, q + 3})})
		for rep := 0; rep < 6; rep++ {
			b.burst(0, l+2+rng.IntN(4))
			b.adv(61*second + rng.Int64N(60*second))
		}
	case "delete":
		// the policy is deleted (the token falls back to the manager's defaults) and
		// possibly re-created while its window / period is still running
		sc.Mgr = 1 + rng.IntN(2)
		def := managerDefaults[sc.Mgr]
		p := def
		if rng.IntN(2) == 0 {
			p = pol{Lm: def.Lm + rng.IntN(2), Lh: def.Lh, Qh: def.Qh + rng.IntN(2), Qd: def.Qd}
		}
		b.now = b.now/hour*hour + 1 + rng.Int64N(20*minute)
		b.set(0, p)
		b.burst(0, 2+rng.IntN(6))
		b.adv(rng.Int64N(5 * second))
		b.del(0)
		b.burst(0, 2+rng.IntN(6))
		if rng.IntN(2) == 0 {
			b.adv(rng.Int64N(5 * second))
			b.set(0, p)
			b.burst(0, 2+rng.IntN(6))
		}
	}
	return sc
}
