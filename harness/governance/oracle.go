package main

// Offline oracle over the observation log of one scenario. It never looks at
// the limiter's internals: it counts admitted queries per token in sliding
// windows and clock periods, with the limit "in force" taken from the
// harness's own record of the policy changes it made.

import (
	"fmt"
)

type finding struct {
	Sig    string `json:"signature"`
	Tok    int    `json:"tok"`
	Detail any    `json:"observation"`
}

type oracleStats struct {
	windowsJudged, periodsJudged, probesJudged, probesUndetermined int
	rlRejectsWithUsage, quotaRejectsJudged, overRejections         int
}

func maxInt(a, b int) int {
	if a > b {
		return a
	}
	return b
}

// slidingExcess looks for a window [t, t+w) that contains more admits than the
// largest limit in force at any admit inside it (windows in which the dimension
// was unlimited at some admit are not judged). limitOf selects the dimension.
func slidingExcess(adm []rec, w int64, limitOf func(pol) int, st *oracleStats) (plain, afterDelete map[string]any) {
	j := 0
	for i := range adm {
		if j < i {
			j = i
		}
		for j < len(adm) && adm[j].T < adm[i].T+w {
			j++
		}
		lmax, unlimited, epoch0, sameEpoch := 0, false, adm[i].Epoch, true
		for k := i; k < j; k++ {
			l := limitOf(adm[k].P)
			if l == 0 {
				unlimited = true
				break
			}
			lmax = maxInt(lmax, l)
			if adm[k].Epoch != epoch0 {
				sameEpoch = false
			}
		}
		if unlimited {
			continue
		}
		st.windowsJudged++
		if n := j - i; n > lmax {
			times := make([]int64, 0, n)
			for k := i; k < j; k++ {
				times = append(times, adm[k].T-adm[i].T)
			}
			det := map[string]any{
				"window_start_unix_nanos": adm[i].T, "window_length_ns": w, "admitted_in_window": n,
				"largest_limit_in_force": lmax, "admit_offsets_ns": times, "policy_delete_inside_window": !sameEpoch,
			}
			// keep the first excess of each kind (with / without a policy delete inside)
			if sameEpoch && plain == nil {
				plain = det
			} else if !sameEpoch && afterDelete == nil {
				afterDelete = det
			}
		}
	}
	return plain, afterDelete
}

// periodExcess looks for a clock period (aligned, length p) with more admits
// than the largest quota in force at any admit inside it.
func periodExcess(adm []rec, p int64, quotaOf func(pol) int, st *oracleStats) (plain, boundaryOnly, afterDelete map[string]any) {
	i := 0
	for i < len(adm) {
		b := adm[i].T / p
		j := i
		qmax, unlimited, atBoundary, epoch0, sameEpoch := 0, false, 0, adm[i].Epoch, true
		for j < len(adm) && adm[j].T/p == b {
			q := quotaOf(adm[j].P)
			if q == 0 {
				unlimited = true
			}
			qmax = maxInt(qmax, q)
			if adm[j].T%p == 0 {
				atBoundary++
			}
			if adm[j].Epoch != epoch0 {
				sameEpoch = false
			}
			j++
		}
		n := j - i
		if !unlimited {
			st.periodsJudged++
			if n > qmax {
				det := map[string]any{
					"period_start_unix_nanos": b * p, "period_length_ns": p, "admitted_in_period": n,
					"largest_quota_in_force": qmax, "admitted_at_the_exact_period_start": atBoundary,
					"policy_delete_inside_period": !sameEpoch,
				}
				switch {
				case !sameEpoch:
					if afterDelete == nil {
						afterDelete = det
					}
				case n-atBoundary <= qmax:
					if boundaryOnly == nil {
						boundaryOnly = det
					}
				default:
					if plain == nil {
						plain = det
					}
				}
			}
		}
		i = j
	}
	return plain, boundaryOnly, afterDelete
}

func judgeScenario(sc *scenario, log []rec) ([]finding, oracleStats) {
	var out []finding
	var st oracleStats
	add := func(sig string, tok int, d any) { out = append(out, finding{sig, tok, d}) }
	byTok := map[int][]rec{}
	for _, r := range log {
		byTok[r.Tok] = append(byTok[r.Tok], r)
	}
	for tok := 0; tok < sc.NTok; tok++ {
		rs := byTok[tok]
		var adm []rec
		for _, r := range rs {
			if r.Out == oAdmit {
				adm = append(adm, r)
			}
		}
		// --- rate limits: any window of the configured length
		type dim struct {
			name    string
			w, slot int64
			lim     func(pol) int
		}
		for _, d := range []dim{
			{"per-minute limit", minute, second, func(p pol) int { return p.Lm }},
			{"per-hour limit", hour, minute, func(p pol) int { return p.Lh }},
		} {
			// a window one slot shorter than the configured length: an excess here
			// cannot be explained by slot granularity
			shortPlain, shortDel := slidingExcess(adm, d.w-d.slot, d.lim, &st)
			fullPlain, fullDel := slidingExcess(adm, d.w, d.lim, &st)
			if shortPlain != nil {
				add("rate limit exceeded within (window length - one slot): "+d.name, tok, shortPlain)
			} else if fullPlain != nil {
				add("rate limit exceeded within one window length (slot-granular window): "+d.name, tok, fullPlain)
			}
			if shortDel != nil {
				add("rate limit exceeded after a policy delete (in-memory counters discarded): "+d.name, tok, shortDel)
			} else if fullDel != nil {
				add("rate limit exceeded after a policy delete (in-memory counters discarded): "+d.name, tok, fullDel)
			}
		}
		// --- quotas: clock hour, UTC day
		for _, d := range []struct {
			name string
			p    int64
			q    func(pol) int
		}{
			{"hourly quota exceeded within a clock hour", hour, func(p pol) int { return p.Qh }},
			{"daily quota exceeded within a UTC day", day, func(p pol) int { return p.Qd }},
		} {
			plain, boundaryOnly, afterDelete := periodExcess(adm, d.p, d.q, &st)
			if plain != nil {
				add(d.name, tok, plain)
			}
			if boundaryOnly != nil {
				add(d.name+": queries admitted at the exact period start are charged to the previous period", tok, boundaryOnly)
			}
			if afterDelete != nil {
				add(d.name+" after a policy delete (in-memory counters discarded)", tok, afterDelete)
			}
		}
		// --- per-request checks
		for i, r := range rs {
			// a query rejected by the rate limit consumes no quota (as reported by the manager)
			if (r.Out == oRLMin || r.Out == oRLHour) && r.UB != nil && r.UA != nil {
				st.rlRejectsWithUsage++
				if *r.UB != *r.UA {
					add("rate-limited rejection changed the quota usage reported by the manager", tok, r)
				}
			}
			// independent of the usage report: a quota refusal needs that many admits in the period
			if r.Out == oQHour || r.Out == oQDay {
				p, q := hour, r.P.Qh
				if r.Out == oQDay {
					p, q = day, r.P.Qd
				}
				if r.T%p != 0 && q > 0 {
					st.quotaRejectsJudged++
					n := 0
					for _, a := range rs {
						if a.Out == oAdmit && a.T/p == r.T/p && (a.Seq < r.Seq || (r.Phase > 0 && a.Phase == r.Phase)) {
							n++
						}
					}
					if n < q {
						add(fmt.Sprintf("query refused for %s although fewer queries than the quota were admitted in the period (quota consumed by refused queries)", r.Out), tok,
							map[string]any{"request": r, "admitted_in_period_before": n, "quota_in_force": q})
					}
				}
			}
			// limit changes apply to the next request
			if r.AfterSet && r.Phase == 0 {
				verdict := judgeProbe(rs, i)
				switch verdict {
				case "undetermined":
					st.probesUndetermined++
				case "must-reject":
					st.probesJudged++
					if r.Out == oAdmit {
						add("limit change not applied to the next request: admitted although the new limit was already reached", tok,
							map[string]any{"request": r})
					}
				case "must-admit":
					st.probesJudged++
					if r.Out != oAdmit {
						add("limit change not applied to the next request: refused although below every new limit", tok,
							map[string]any{"request": r})
					}
				}
			} else if r.Out == oRLMin || r.Out == oRLHour {
				if judgeProbe(rs, i) == "must-admit" {
					st.overRejections++ // not part of the property; reported as an observation only
				}
			}
		}
	}
	return out, st
}

// judgeProbe decides, from independent counts, whether request rs[i] had to be
// refused or had to be admitted under the policy in force (rs[i].P).
//
//   - must-reject: some limited dimension has already reached its limit even when
//     counting only what every implementation of that limit must count (charges
//     in the last window minus one slot; admits in the current clock period
//     that are not at its exact start);
//   - must-admit: every limited dimension is below its limit even when counting
//     everything a sound implementation could count (window length plus one slot;
//     whole period).
//
// Counts are restricted to the current in-memory epoch (a policy delete discards
// the counters) and to requests made while the dimension was limited (a limiter
// or tracker exists only from the first request under a non-zero limit).
func judgeProbe(rs []rec, i int) string {
	r := rs[i]
	if r.T%hour == 0 {
		return "undetermined" // exact period start: the code charges the previous period
	}
	// everything observed before this request; inside a concurrent burst the
	// order of the other requests of the burst is unknown, so they all count
	var before []rec
	for k, a := range rs {
		if k < i || (k > i && r.Phase > 0 && a.Phase == r.Phase) {
			before = append(before, a)
		}
	}
	mustReject, canAdmit := false, true
	type rdim struct {
		limit   int
		w, slot int64
		lim     func(pol) int
		passed  func(rec) bool
	}
	for _, d := range []rdim{
		{r.P.Lm, minute, second, func(p pol) int { return p.Lm }, func(a rec) bool { return a.Out != oRLMin }},
		{r.P.Lh, hour, minute, func(p pol) int { return p.Lh }, func(a rec) bool { return a.Out != oRLMin && a.Out != oRLHour }},
	} {
		if d.limit == 0 {
			continue
		}
		lower, upper := 0, 0
		for _, a := range before {
			if !d.passed(a) {
				continue
			}
			// the per-hour limiter is only consulted when the per-minute one passed;
			// both only when their own limit was non-zero at that time
			// upper bound: one slot more than the window, so that a limiter that is
			// conservative by its own granularity is not called wrong
			if a.T > r.T-(d.w+d.slot) {
				upper++
			}
			if a.T >= r.T-(d.w-d.slot) && a.Epoch == r.Epoch && d.lim(a.P) > 0 {
				lower++
			}
		}
		if lower >= d.limit {
			mustReject = true
		}
		if upper >= d.limit {
			canAdmit = false
		}
	}
	for _, d := range []struct {
		quota int
		p     int64
	}{{r.P.Qh, hour}, {r.P.Qd, day}} {
		if d.quota == 0 {
			continue
		}
		lower, upper := 0, 0
		for _, a := range before {
			if a.Out != oAdmit || a.T/d.p != r.T/d.p {
				continue
			}
			upper++
			if a.T%d.p != 0 && a.Epoch == r.Epoch && (a.P.Qh > 0 || a.P.Qd > 0) {
				lower++
			}
		}
		if lower >= d.quota {
			mustReject = true
		}
		if upper >= d.quota {
			canAdmit = false
		}
	}
	switch {
	case mustReject:
		return "must-reject"
	case canAdmit:
		return "must-admit"
	}
	return "undetermined"
}
