// Harness for the query-governance area: C28 (query rate limits and quotas are
// never exceeded).
package main

import (
	"flag"
	"fmt"
	"os"

	"github.com/basekick-labs/arc/internal/zzverif/vlib"
)

func main() {
	prop := flag.String("prop", "", "property id")
	flag.String("replay", "", "replay file")
	flag.Parse()
	switch *prop {
	case "C28":
		vlib.Main("C28", "exploration", checkC28)
	default:
		fmt.Println("unknown property", *prop)
		os.Exit(2)
	}
}
