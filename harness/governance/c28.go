package main

// C28: for every token, the number of queries admitted in any window of the
// configured rate-limit length never exceeds the limit, and hourly and daily
// quotas are never exceeded within a clock hour or UTC day; a query rejected by
// the rate limit consumes no quota, and limit changes apply to the next request.

import (
	"fmt"
	"time"

	"github.com/basekick-labs/arc/internal/zzverif/vlib"
)

type replayDetail struct {
	Scenario *scenario `json:"scenario"`
	Finding  finding   `json:"finding"`
	Log      []rec     `json:"log,omitempty"`
}

func runScenario(c *vlib.Ctx, w *world, sc *scenario) []finding {
	log, err := w.play(sc)
	if err != nil {
		c.Inconclusive(fmt.Sprintf("%s scenario could not be played: %v", sc.Family, err))
		return nil
	}
	c.Eval()
	fs, st := judgeScenario(sc, log)
	admits, rejects := 0, 0
	for _, r := range log {
		c.Count("requests", 1)
		c.Count("outcome_"+r.Out, 1)
		if r.Out == oAdmit {
			admits++
		} else {
			rejects++
		}
		if r.Phase > 0 {
			c.Count("concurrent_requests", 1)
		}
	}
	for _, o := range sc.Ops {
		switch o.K {
		case "set":
			c.Count("policy_sets", 1)
		case "delete":
			c.Count("policy_deletes", 1)
		case "conc":
			c.Count("concurrent_bursts", 1)
		}
	}
	c.Count("windows_judged", int64(st.windowsJudged))
	c.Count("clock_periods_judged", int64(st.periodsJudged))
	c.Count("next_request_probes_judged", int64(st.probesJudged))
	c.Count("next_request_probes_undetermined", int64(st.probesUndetermined))
	c.Count("rate_rejections_with_usage_compared", int64(st.rlRejectsWithUsage))
	c.Count("quota_refusals_judged", int64(st.quotaRejectsJudged))
	c.Count("over_rejections_observed", int64(st.overRejections))
	c.Count("scenarios_"+sc.Family, 1)
	if admits > 0 && rejects > 0 {
		// the limits were actually reached in this scenario
		c.Nontrivial(vlib.JSON(sc.Ops))
	}
	for _, f := range fs {
		small := log
		if len(small) > 400 {
			small = nil
		}
		c.Violation(f.Sig, replayDetail{Scenario: sc, Finding: f, Log: small})
	}
	return fs
}

func checkC28(c *vlib.Ctx) {
	installClock()
	c.Rule("arrival sequences of up to ~200 queries for 1-3 tokens under a virtual clock: bursts at one instant, gaps aligned just before / at / after second, minute, hour and UTC-day boundaries, gaps of one window length +-1 slot, forward clock jumps, policy updates (and deletes) between requests, concurrent bursts from goroutines at a frozen instant; driven through governance.Manager in the handler's order and through the real query handler; a scenario is non-trivial when it contains both admitted and refused queries")
	c.Assume("the limit in force is the harness's own record of the policies it set; a window / period is judged against the largest limit in force at any admit inside it and skipped if the dimension was unlimited there")
	c.Assume("admission in handler mode = HTTP 400 (malformed body, after governance) vs 429 with the manager's reason")
	c.Assume("backward clock jumps are not generated (timestamps would not order the admit log)")
	vnow.Store(time.Date(2031, 3, 5, 0, 0, 0, 0, time.UTC).UnixNano())
	w, err := newWorld()
	if err != nil {
		panic(err)
	}
	defer w.close()

	if c.Replay != "" {
		var d replayDetail
		if err := vlib.LoadReplay(c.Replay, &d); err != nil {
			panic(err)
		}
		fs := runScenario(c, w, d.Scenario)
		fmt.Printf("REPLAY family=%s mode=%s findings=%d\n", d.Scenario.Family, d.Scenario.Mode, len(fs))
		for _, f := range fs {
			fmt.Printf("  %s: %s\n", f.Sig, vlib.JSON(f.Detail))
		}
		c.Floor(0)
		return
	}

	rng := c.Rand("scenarios")
	epoch := time.Date(2031, 3, 5, 0, 0, 0, 0, time.UTC).UnixNano() + rng.Int64N(30)*day
	type fam struct {
		name string
		q, t int
	}
	// template families first, so that the replay kept for a signature is a short scenario
	fams := []fam{
		{"straddle-minute", 100, 3000},
		{"straddle-hour", 100, 3000},
		{"boundary-quota", 200, 6000},
		{"update-probe", 300, 10000},
		{"reject-vs-quota", 100, 3000},
		{"reject-vs-quota-handler", 50, 1000},
		{"delete", 100, 3000},
		{"random", 1500, 100000},
		{"random-handler", 300, 10000},
		{"concurrent", 300, 10000},
	}
	for _, f := range fams {
		n := c.N(f.q, f.t)
		for i := 0; i < n; i++ {
			sc := genScenario(rng, epoch, f.name)
			runScenario(c, w, sc)
			if i < 1 {
				c.Sample(map[string]any{"family": sc.Family, "mode": sc.Mode, "ops": len(sc.Ops), "first_ops": sc.Ops[:min(4, len(sc.Ops))]})
			}
		}
	}
	c.Floor(c.N(1500, 50000))
}
