// Harness for the ingest area: C01 (line protocol round trip).
package main

import (
	"flag"
	"fmt"
	"os"

	"github.com/basekick-labs/arc/internal/zzverif/vlib"
)

func main() {
	prop := flag.String("prop", "", "property id")
	flag.String("replay", "", "replay file")
	flag.Parse()
	switch *prop {
	case "C01":
		vlib.Main("C01", "exploration", checkC01)
	default:
		fmt.Println("unknown property", *prop)
		os.Exit(2)
	}
}
