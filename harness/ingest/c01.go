package main

import (
	"bytes"
	"context"
	"fmt"
	"io"
	"math"
	"math/rand/v2"
	"net/http/httptest"
	"os"
	"reflect"
	"strings"
	"time"

	"github.com/gofiber/fiber/v2"
	"github.com/rs/zerolog"

	"github.com/basekick-labs/arc/internal/api"
	"github.com/basekick-labs/arc/internal/config"
	"github.com/basekick-labs/arc/internal/ingest"
	"github.com/basekick-labs/arc/internal/storage"
	"github.com/basekick-labs/arc/internal/zzverif/vlib"
	"github.com/basekick-labs/arc/internal/zzverif/vpq"
	"github.com/basekick-labs/arc/pkg/models"
)

func wantFields(p lpPoint) map[string]interface{} {
	m := map[string]interface{}{}
	for _, f := range p.Fields {
		switch f.Kind {
		case "float":
			m[f.Key] = f.F
		case "int":
			m[f.Key] = f.I
		case "uint":
			m[f.Key] = f.U
		case "string":
			m[f.Key] = f.S
		case "bool":
			m[f.Key] = f.B
		}
	}
	return m
}

func wantTags(p lpPoint) map[string]string {
	m := map[string]string{}
	for _, t := range p.Tags {
		m[t[0]] = t[1]
	}
	return m
}

func sameValue(a, b interface{}) bool {
	fa, ok1 := a.(float64)
	fb, ok2 := b.(float64)
	if ok1 && ok2 {
		return math.Float64bits(fa) == math.Float64bits(fb)
	}
	return reflect.DeepEqual(a, b)
}

// comparePoint returns "" or the kind of mismatch between ground truth and the record.
func comparePoint(p lpPoint, rec *models.Record) string {
	if rec == nil {
		return "point dropped"
	}
	if rec.Measurement != p.M {
		return "measurement differs"
	}
	wt := wantTags(p)
	if len(wt) != len(rec.Tags) {
		return "tag set differs"
	}
	for k, v := range wt {
		if got, ok := rec.Tags[k]; !ok || got != v {
			return "tag set differs"
		}
	}
	wf := wantFields(p)
	if len(wf) != len(rec.Fields) {
		return "field set differs"
	}
	for k, v := range wf {
		got, ok := rec.Fields[k]
		if !ok {
			return "field set differs"
		}
		if !sameValue(got, v) {
			return "field value/type differs"
		}
	}
	if p.HasTS && rec.Timestamp != p.WantUS {
		return "timestamp differs"
	}
	return ""
}

func reencode(p *lpPoint) {
	var sb strings.Builder
	mset, kset := ", ", ",= "
	if p.EscBS {
		mset, kset = mset+"\\", kset+"\\"
	}
	sb.WriteString(escName(p.M, mset))
	for _, t := range p.Tags {
		sb.WriteByte(',')
		sb.WriteString(escName(t[0], kset))
		sb.WriteByte('=')
		sb.WriteString(escName(t[1], kset))
	}
	sb.WriteByte(' ')
	for i, f := range p.Fields {
		if i > 0 {
			sb.WriteByte(',')
		}
		sb.WriteString(escName(f.Key, kset))
		sb.WriteByte('=')
		if f.Kind == "string" {
			sb.WriteString(`"` + escString(f.S) + `"`)
		} else {
			sb.WriteString(f.Enc)
		}
	}
	if p.HasTS {
		fmt.Fprintf(&sb, " %d", p.RawTS)
	}
	p.Line = sb.String()
}

func parseOne(p lpPoint, precision string) string {
	recs := ingest.NewLineProtocolParser().ParseBatchWithPrecision([]byte(p.Line), precision)
	if len(recs) > 1 {
		return "point split into several"
	}
	var rec *models.Record
	if len(recs) == 1 {
		rec = recs[0]
	}
	return comparePoint(p, rec)
}

func validName(s string, escBS bool) bool {
	if s == "" || (!escBS && s != fixName(s)) || strings.HasPrefix(s, "_") || strings.HasPrefix(s, "#") || s == "time" {
		return false
	}
	return true
}

// shrink minimises a failing point (same mismatch kind) by dropping tags/fields and
// deleting characters, staying inside the generator's own validity rules.
func shrink(p lpPoint, precision, kind string) lpPoint {
	try := func(q lpPoint) bool {
		if q.M == "" || (!q.EscBS && q.M != fixName(q.M)) || strings.HasPrefix(q.M, "#") || len(q.Fields) == 0 {
			return false
		}
		seen := map[string]bool{}
		for _, t := range q.Tags {
			if !validName(t[0], q.EscBS) || t[1] == "" || (!q.EscBS && t[1] != fixName(t[1])) || seen[t[0]] {
				return false
			}
			seen[t[0]] = true
		}
		for _, f := range q.Fields {
			if !validName(f.Key, q.EscBS) || seen[f.Key] {
				return false
			}
			seen[f.Key] = true
		}
		reencode(&q)
		cur := p
		reencode(&cur)
		if q.Line == cur.Line {
			return false
		}
		return parseOne(q, precision) == kind
	}
	clone := func(q lpPoint) lpPoint {
		c := q
		c.Tags = append([][2]string(nil), q.Tags...)
		c.Fields = append([]lpField(nil), q.Fields...)
		return c
	}
	delRuneOnly := func(s string, i int) string {
		rs := []rune(s)
		return string(append(append([]rune{}, rs[:i]...), rs[i+1:]...))
	}
	pass := 0
	// first fixpoint deletes characters, second replaces special ones by a plain letter
	delRune := func(s string, i int) string {
		if pass == 0 {
			return delRuneOnly(s, i)
		}
		rs := []rune(s)
		if rs[i] == 'a' || rs[i] == 'b' {
			return s // unchanged: rejected by the caller
		}
		out := append([]rune{}, rs...)
		out[i] = 'a'
		if i > 0 {
			out[i] = 'b'
		}
		return string(out)
	}
	for changed := true; changed || pass == 0; {
		if !changed {
			pass = 1
		}
		changed = false
		for i := 0; i < len(p.Tags); i++ {
			q := clone(p)
			q.Tags = append(q.Tags[:i], q.Tags[i+1:]...)
			if try(q) {
				p, changed = q, true
				i--
			}
		}
		for i := 0; i < len(p.Fields) && len(p.Fields) > 1; i++ {
			q := clone(p)
			q.Fields = append(q.Fields[:i], q.Fields[i+1:]...)
			if try(q) {
				p, changed = q, true
				i--
			}
		}
		// characters
		for i := 0; i < len([]rune(p.M)); i++ {
			q := clone(p)
			q.M = delRune(p.M, i)
			if try(q) {
				p, changed = q, true
				i--
			}
		}
		for ti := range p.Tags {
			for side := 0; side < 2; side++ {
				for i := 0; i < len([]rune(p.Tags[ti][side])); i++ {
					q := clone(p)
					q.Tags[ti][side] = delRune(p.Tags[ti][side], i)
					if try(q) {
						p, changed = q, true
						i--
					}
				}
			}
		}
		for fi := range p.Fields {
			for i := 0; i < len([]rune(p.Fields[fi].Key)); i++ {
				q := clone(p)
				q.Fields[fi].Key = delRune(p.Fields[fi].Key, i)
				if try(q) {
					p, changed = q, true
					i--
				}
			}
			if p.Fields[fi].Kind == "string" {
				for i := 0; i < len([]rune(p.Fields[fi].S)); i++ {
					q := clone(p)
					q.Fields[fi].S = delRune(p.Fields[fi].S, i)
					if try(q) {
						p, changed = q, true
						i--
					}
				}
			}
		}
		if p.HasTS {
			q := clone(p)
			q.HasTS = false
			if try(q) {
				p, changed = q, true
			}
		}
	}
	reencode(&p)
	return p
}

func checkC01(c *vlib.Ctx) {
	c.Rule("structure-first generator: measurement, 0-4 tags, 1-5 typed fields (float incl. -0/extremes/exponent forms, int and uint extremes, strings, every boolean spelling), names and values over alphabets rich in comma/space/equals/quote/backslash and UTF-8, timestamps over the int64 range in ns/us/ms/s or absent; encoded with the canonical InfluxDB escaping (only encodings whose meaning the rules fix: a literal backslash is never followed by a special character and never ends a token; reserved names time/_*/ *_value and tag/field name clashes excluded). (1) parser level: ParseBatchWithPrecision output vs ground truth, per point and per batch (with comment and blank lines); (2) end-to-end: POST to the three line-protocol endpoints of the real handler (measurement names the handler admits), flush, read Parquet back with arrow-go, compare every row by its rid. non-trivial = distinct points containing at least one escapable character or an extreme value")
	c.Assume("InfluxDB line-protocol rules as reference: measurement escapes comma/space; tag keys, tag values and field keys escape comma/equals/space; string field values escape double quote and backslash; double quotes and lone backslashes elsewhere are literal")
	c.Assume("end to end, unsigned fields are compared as arc's signed 64-bit integer column type; unsigned values above MaxInt64 (which arc rejects with an error response) are generated at parser level only")
	c.Assume("negative ns timestamps are generated on whole microseconds only (truncation vs floor is not fixed by the property); timestamps whose microsecond value does not fit int64 are not generated")
	if c.Replay != "" {
		replayC01(c)
		return
	}
	c01Parser(c)
	c01EndToEnd(c)
	c.Floor(500)
}

func replayC01(c *vlib.Ctx) {
	var d struct {
		Precision string  `json:"precision"`
		Minimal   lpPoint `json:"minimal"`
	}
	if err := vlib.LoadReplay(c.Replay, &d); err != nil {
		panic(err)
	}
	c.EvalN(2)
	c.Nontrivial("a")
	c.Nontrivial("b")
	k := parseOne(d.Minimal, d.Precision)
	fmt.Printf("line: %q precision=%s -> %q\n", d.Minimal.Line, d.Precision, k)
	recs := ingest.NewLineProtocolParser().ParseBatchWithPrecision([]byte(d.Minimal.Line), d.Precision)
	for _, r := range recs {
		fmt.Printf("parsed: m=%q tags=%q fields=%v ts=%d\n", r.Measurement, r.Tags, r.Fields, r.Timestamp)
	}
	if k != "" {
		c.Violation("replay: "+k+" ["+classify(d.Minimal)+"]", d)
	}
}

func c01Parser(c *vlib.Ctx) {
	rng := c.Rand("parser")
	nBatches := c.N(6000, 150000)
	parser := ingest.NewLineProtocolParser()
	for b := 0; b < nBatches; b++ {
		rich := rng.IntN(4) != 0
		precision := precisions[rng.IntN(4)]
		nSchemas := 1 + rng.IntN(3)
		schemas := make([]*mSchema, nSchemas)
		names := map[string]bool{}
		for i := range schemas {
			for {
				schemas[i] = genSchema(rng, rich, false, i)
				if !names[schemas[i].Name] {
					names[schemas[i].Name] = true
					break
				}
			}
		}
		n := 1 + rng.IntN(30)
		pts := make([]lpPoint, n)
		var body bytes.Buffer
		for i := range pts {
			pts[i] = genPoint(rng, schemas[rng.IntN(nSchemas)], precision, rich, -1, false)
			switch rng.IntN(12) {
			case 0:
				body.WriteString("# a comment, with=stuff \"x\n")
			case 1:
				body.WriteString("\n")
			case 2:
				body.WriteString("   \n")
			}
			body.WriteString(pts[i].Line)
			if rng.IntN(10) == 0 {
				body.WriteString("\r\n")
			} else {
				body.WriteString("\n")
			}
		}
		t0 := time.Now().UnixMicro()
		recs := parser.ParseBatchWithPrecision(body.Bytes(), precision)
		t1 := time.Now().UnixMicro()
		c.EvalN(n)
		c.Count("points_parsed", int64(len(recs)))
		batchOK := len(recs) == n
		if batchOK {
			for i := range pts {
				if comparePoint(pts[i], recs[i]) != "" {
					batchOK = false
					break
				}
				if !pts[i].HasTS && (recs[i].Timestamp < t0 || recs[i].Timestamp > t1) {
					c.Violation("generated timestamp outside the call interval", map[string]any{"line": pts[i].Line, "got": recs[i].Timestamp, "t0": t0, "t1": t1})
				}
			}
		}
		for i := range pts {
			cl := classify(pts[i])
			if cl != "plain" {
				c.Nontrivial(pts[i].Line)
				c.Count("points_with_escapables", 1)
			}
		}
		if batchOK {
			continue
		}
		// locate the offending point(s) individually, shrink, report
		reported := 0
		for i := range pts {
			kind := parseOne(pts[i], precision)
			if kind == "" {
				continue
			}
			minp := shrink(pts[i], precision, kind)
			c.Violation(kind+" ["+classify(minp)+"]", map[string]any{"precision": precision, "minimal": minp, "original_line": pts[i].Line})
			reported++
		}
		if reported == 0 {
			// every point parses correctly alone but the batch does not
			c.Violation("batch parses differently from its points", map[string]any{"precision": precision, "body": body.String(), "got": len(recs), "want": n})
		}
		if b < 3 {
			c.Sample(map[string]any{"precision": precision, "lines": strings.Split(body.String(), "\n")[:min(4, n)]})
		}
	}
	// always include a few samples
	r2 := c.Rand("samples")
	s := genSchema(r2, true, false, 0)
	for i := 0; i < 4; i++ {
		p := genPoint(r2, s, "ns", true, -1, false)
		c.Sample(map[string]any{"line": p.Line, "measurement": p.M, "tags": p.Tags, "classification": classify(p)})
	}
}

// ---------- end-to-end through the real handler, buffer, storage ----------

type e2eEnv struct {
	root    string
	backend *storage.LocalBackend
	buf     *ingest.ArrowBuffer
	app     *fiber.App
}

func newE2E(rng *rand.Rand) *e2eEnv {
	root := vlib.TempDir("c01")
	be, err := storage.NewLocalBackend(root, zerolog.Nop())
	if err != nil {
		panic(err)
	}
	cfg := &config.IngestConfig{
		MaxBufferSize: 50 + rng.IntN(500), MaxBufferAgeMS: 200 + rng.IntN(2000), Compression: "snappy",
		WriteStatistics: true, DataPageVersion: "2.0", FlushWorkers: 2 + rng.IntN(4), FlushQueueSize: 1000, ShardCount: 1 + rng.IntN(8),
	}
	lg := zerolog.Nop()
	if os.Getenv("VERIF_DEBUG") != "" {
		lg = zerolog.New(os.Stderr).Level(zerolog.WarnLevel)
	}
	buf := ingest.NewArrowBuffer(cfg, be, lg)
	app := fiber.New(fiber.Config{BodyLimit: 64 << 20, DisableStartupMessage: true})
	api.NewLineProtocolHandler(buf, zerolog.Nop()).RegisterRoutes(app)
	return &e2eEnv{root: root, backend: be, buf: buf, app: app}
}

func (e *e2eEnv) post(url string, hdr map[string]string, body []byte) (int, string) {
	req := httptest.NewRequest("POST", url, bytes.NewReader(body))
	for k, v := range hdr {
		req.Header.Set(k, v)
	}
	resp, err := e.app.Test(req, 30000)
	if err != nil {
		return -1, err.Error()
	}
	b, _ := io.ReadAll(resp.Body)
	return resp.StatusCode, string(b)
}

func c01EndToEnd(c *vlib.Ctx) {
	rng := c.Rand("e2e")
	nEnv := c.N(24, 300)
	rid := int64(0)
	for ei := 0; ei < nEnv; ei++ {
		env := newE2E(rng)
		type sent struct {
			p  lpPoint
			db string
		}
		all := map[int64]sent{}
		rich := ei%4 != 3
		// every other environment keeps all its points inside a 3-hour window (one of them
		// before 1970), so that flushes hold many unordered rows of one hour partition
		e2eWindowLoUS, e2eWindowSpanUS = 0, 0
		if ei%2 == 1 {
			e2eWindowLoUS = []int64{1_700_000_000_000_000, -86_400_000_000 * 400, 3_600_000_000 * 5}[(ei/2)%3]
			e2eWindowSpanUS = 3 * 3_600_000_000
		}
		schemas := make([]*mSchema, 3)
		for i := range schemas {
			schemas[i] = genSchema(rng, rich, true, i)
		}
		nBatches := 20 + rng.IntN(30)
		for b := 0; b < nBatches; b++ {
			precision := precisions[rng.IntN(4)]
			db := []string{"db1", "db2"}[rng.IntN(2)]
			n := 1 + rng.IntN(40)
			var body bytes.Buffer
			var pts []lpPoint
			for i := 0; i < n; i++ {
				rid++
				p := genPoint(rng, schemas[rng.IntN(len(schemas))], precision, rich, rid, true)
				for fi := range p.Fields {
					// arc has one 64-bit integer column type (signed); unsigned values above
					// MaxInt64 make arc reject the request, which C01 does not cover
					if p.Fields[fi].Kind == "uint" && p.Fields[fi].U > math.MaxInt64 {
						p.Fields[fi].U >>= 1
						p.Fields[fi].Enc = fmt.Sprintf("%du", p.Fields[fi].U)
					}
				}
				reencode(&p)
				pts = append(pts, p)
				body.WriteString(p.Line + "\n")
			}
			var url string
			hdr := map[string]string{}
			switch rng.IntN(3) {
			case 0:
				url = "/write?db=" + db + "&precision=" + precision
			case 1:
				url = "/api/v2/write?bucket=" + db + "&org=o&precision=" + precision
			default:
				url = "/api/v1/write/line-protocol?precision=" + precision
				hdr["x-arc-database"] = db
			}
			code, msg := env.post(url, hdr, body.Bytes())
			c.Count("requests", 1)
			if code != 204 {
				c.Violation(fmt.Sprintf("valid batch rejected with HTTP %d", code), map[string]any{"url": url, "body": body.String(), "response": msg})
				continue
			}
			for _, p := range pts {
				all[p.Fields[indexOfRid(p)].I] = sent{p, db}
			}
			c.EvalN(n)
		}
		if err := env.buf.FlushAll(context.Background()); err != nil {
			c.Inconclusive("FlushAll: " + err.Error())
		}
		// Close() abandons flush tasks that are still queued or in flight (by design, in
		// favour of WAL replay; that behaviour is C03/C07's subject). C01 is about what
		// a flush stores, so wait (bounded) until every accepted row has been written.
		quiesced := false
		for w := 0; w < 3000; w++ {
			st := env.buf.GetStats()
			if st["total_records_written"].(int64) >= int64(len(all)) && st["flush_queue_depth"].(int64) == 0 {
				quiesced = true
				break
			}
			time.Sleep(10 * time.Millisecond)
		}
		env.buf.Close()
		if !quiesced {
			c.Inconclusive(fmt.Sprintf("env %d: flush queue did not drain within the watchdog; storage comparison skipped", ei))
			os.RemoveAll(env.root)
			continue
		}
		files, err := vpq.ReadTree(env.root)
		if err != nil {
			c.Violation("stored Parquet file unreadable", map[string]any{"err": err.Error()})
		}
		seen := map[int64]int{}
		for _, f := range files {
			parts := strings.Split(f.Rel, "/")
			c.Count("parquet_files_read", 1)
			for _, row := range f.Rows {
				r, ok := row["rid"].(int64)
				if !ok {
					c.Violation("stored row without rid", map[string]any{"file": f.Rel, "row": fmt.Sprint(row)})
					continue
				}
				seen[r]++
				s, ok := all[r]
				if !ok {
					c.Violation("stored row that was never sent", map[string]any{"file": f.Rel, "rid": r})
					continue
				}
				c.Count("rows_compared", 1)
				if len(parts) < 3 || parts[0] != s.db || parts[1] != s.p.M {
					c.Violation("row stored under another database/measurement", map[string]any{"file": f.Rel, "want_db": s.db, "want_m": s.p.M})
				}
				if diff := compareStoredRow(s.p, row, f); diff != "" {
					minp := s.p
					_ = minp
					c.Violation("stored row differs: "+diff, map[string]any{"line": s.p.Line, "file": f.Rel, "row": fmt.Sprint(row), "types": f.Types})
				}
			}
		}
		missing := 0
		for r := range all {
			if seen[r] != 1 {
				missing++
				if os.Getenv("VERIF_DEBUG") != "" {
					fmt.Printf("DEBUG env=%d missing rid=%d db=%s hour=%s line=%q\n", ei, r, all[r].db, vpq.HourPath(all[r].p.WantUS), all[r].p.Line)
				}
			}
		}
		for r, s := range all {
			if seen[r] != 1 {
				c.Violation(fmt.Sprintf("accepted point stored %d times", seen[r]), map[string]any{"line": s.p.Line, "db": s.db, "env": ei, "points_sent": len(all), "points_not_stored_once": missing, "files": len(files)})
			}
		}
		os.RemoveAll(env.root)
	}
	e2eWindowLoUS, e2eWindowSpanUS = 0, 0
}

func indexOfRid(p lpPoint) int {
	for i, f := range p.Fields {
		if f.Key == "rid" {
			return i
		}
	}
	return -1
}

// compareStoredRow checks every column of the stored row against the point: tags as
// strings, fields in their type, time in microseconds, all other columns null.
func compareStoredRow(p lpPoint, row map[string]any, f *vpq.File) string {
	want := map[string]any{"time": p.WantUS}
	for _, t := range p.Tags {
		want[t[0]] = t[1]
	}
	for k, v := range wantFields(p) {
		if u, ok := v.(uint64); ok {
			v = int64(u) // stored in arc's signed 64-bit integer column type
		}
		want[k] = v
	}
	for k, v := range want {
		got, ok := row[k]
		if !ok {
			return "column missing: " + kindOfKey(p, k)
		}
		if !sameValue(got, v) {
			return fmt.Sprintf("value/type differs in %s column (%T vs %T)", kindOfKey(p, k), got, v)
		}
	}
	for k, got := range row {
		if _, ok := want[k]; !ok && got != nil {
			return "unexpected non-null value in a column the point does not have"
		}
	}
	return ""
}

func kindOfKey(p lpPoint, k string) string {
	if k == "time" {
		return "time"
	}
	for _, t := range p.Tags {
		if t[0] == k {
			return "tag"
		}
	}
	for _, f := range p.Fields {
		if f.Key == k {
			return f.Kind + " field"
		}
	}
	return "?"
}
