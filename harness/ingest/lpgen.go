package main

import (
	"fmt"
	"math"
	"math/rand/v2"
	"strconv"
	"strings"
)

// Ground-truth structure of one line-protocol point.
type lpField struct {
	Key  string  `json:"key"`
	Kind string  `json:"kind"` // float | int | uint | string | bool
	F    float64 `json:"f,omitempty"`
	I    int64   `json:"i,omitempty"`
	U    uint64  `json:"u,omitempty"`
	S    string  `json:"s,omitempty"`
	B    bool    `json:"b,omitempty"`
	Enc  string  `json:"enc"` // the encoding chosen for the value
}

type lpPoint struct {
	M      string      `json:"m"`
	Tags   [][2]string `json:"tags"`
	Fields []lpField   `json:"fields"`
	HasTS  bool        `json:"has_ts"`
	RawTS  int64       `json:"raw_ts"`
	WantUS int64       `json:"want_us"`
	Line   string      `json:"line"`
	EscBS  bool        `json:"escaped_backslashes,omitempty"` // see mSchema.EscBS
}

const special = ", =\"\\"

var alphabets = []string{
	"abcdefghijklmnopqrstuvwxyzABCDEFGHIJKLMNOPQRSTUVWXYZ0123456789_-",
	"ab01_", // short, collision-prone
	"abc, =\"\\xyz",
	", =\"\\",
	"aé世界🙂ß-.:/%#@!$&*()[]{}<>?;'~`^|+",
}

// name draws a non-empty string; rich selects alphabets full of escapable characters.
func genName(r *rand.Rand, rich bool, maxLen int) string {
	al := alphabets[0]
	if rich {
		al = alphabets[1+r.IntN(len(alphabets)-1)]
		if r.IntN(3) == 0 {
			al += alphabets[r.IntN(len(alphabets))]
		}
	}
	rs := []rune(al)
	n := 1 + r.IntN(maxLen)
	var sb strings.Builder
	for i := 0; i < n; i++ {
		sb.WriteRune(rs[r.IntN(len(rs))])
	}
	return sb.String()
}

// fixName makes a generated name one whose canonical encoding has a meaning the
// InfluxDB rules fix: a backslash is always followed by a non-special character and
// never ends the token (a literal backslash is then unambiguous without escaping).
func fixName(s string) string {
	rs := []rune(s)
	var out []rune
	for i, c := range rs {
		out = append(out, c)
		if c == '\\' {
			if i+1 >= len(rs) || strings.ContainsRune(special, rs[i+1]) {
				out = append(out, 'x')
			}
		}
	}
	return string(out)
}

// escName escapes a measurement (comma, space) or a tag key / tag value / field key
// (comma, equals, space). Double quotes and lone backslashes are literal.
func escName(s string, set string) string {
	var sb strings.Builder
	for _, c := range s {
		if strings.ContainsRune(set, c) {
			sb.WriteByte('\\')
		}
		sb.WriteRune(c)
	}
	return sb.String()
}

// escString escapes a string field value: only '"' and '\\'.
func escString(s string) string {
	var sb strings.Builder
	for _, c := range s {
		if c == '"' || c == '\\' {
			sb.WriteByte('\\')
		}
		sb.WriteRune(c)
	}
	return sb.String()
}

var boolTrue = []string{"t", "T", "true", "True", "TRUE"}
var boolFalse = []string{"f", "F", "false", "False", "FALSE"}

func genFieldValue(r *rand.Rand, f *lpField, rich bool) {
	switch f.Kind {
	case "float":
		var v float64
		switch r.IntN(8) {
		case 0:
			v = 0
		case 1:
			v = math.Copysign(0, -1)
		case 2:
			v = float64(r.Int64N(2000) - 1000)
		case 3:
			v = math.Float64frombits(r.Uint64())
			if math.IsNaN(v) || math.IsInf(v, 0) {
				v = 1.5
			}
		case 4:
			v = math.MaxFloat64
		case 5:
			v = math.SmallestNonzeroFloat64
		default:
			v = (r.Float64() - 0.5) * math.Pow(10, float64(r.IntN(30)-15))
		}
		f.F = v
		switch r.IntN(4) {
		case 0:
			f.Enc = strconv.FormatFloat(v, 'g', -1, 64)
		case 1:
			f.Enc = strconv.FormatFloat(v, 'e', -1, 64)
		case 2:
			f.Enc = strings.ToUpper(strconv.FormatFloat(v, 'e', -1, 64))
		default:
			f.Enc = strconv.FormatFloat(v, 'f', -1, 64)
		}
	case "int":
		switch r.IntN(5) {
		case 0:
			f.I = math.MinInt64
		case 1:
			f.I = math.MaxInt64
		case 2:
			f.I = 0
		default:
			f.I = r.Int64() >> uint(r.IntN(63))
			if r.IntN(2) == 0 {
				f.I = -f.I
			}
		}
		f.Enc = strconv.FormatInt(f.I, 10) + "i"
	case "uint":
		switch r.IntN(4) {
		case 0:
			f.U = math.MaxUint64
		case 1:
			f.U = 0
		case 2:
			f.U = uint64(math.MaxInt64) + 1 + uint64(r.IntN(1000))
		default:
			f.U = r.Uint64() >> uint(r.IntN(64))
		}
		f.Enc = strconv.FormatUint(f.U, 10) + "u"
	case "string":
		if r.IntN(6) == 0 {
			f.S = ""
		} else {
			f.S = genName(r, rich || r.IntN(2) == 0, 12)
		}
		f.Enc = `"` + escString(f.S) + `"`
	case "bool":
		f.B = r.IntN(2) == 0
		if f.B {
			f.Enc = boolTrue[r.IntN(len(boolTrue))]
		} else {
			f.Enc = boolFalse[r.IntN(len(boolFalse))]
		}
	}
}

var kinds = []string{"float", "int", "uint", "string", "bool"}

// schema of one measurement within a run: a key is a tag or a field of one kind, never both.
type mSchema struct {
	// EscBS: names of this schema may hold a backslash anywhere (before a special
	// character, at the end) and every literal backslash is written as "\\\\" - the
	// pairwise reading arc's own unescape gives ("\\\\" -> one backslash). Without it names
	// are restricted to the subset that is unambiguous without escaping backslashes.
	EscBS  bool
	Name   string
	TagKs  []string
	Fields []lpField // Key+Kind only
}

func genSchema(r *rand.Rand, rich bool, restrictM bool, idx int) *mSchema {
	s := &mSchema{EscBS: rich && r.IntN(3) == 0}
	fixName := fixName
	if s.EscBS {
		fixName = func(n string) string { return n }
	}
	if restrictM {
		s.Name = fmt.Sprintf("m%d_%s", idx, genName(r, false, 6))
	} else {
		s.Name = fixName(genName(r, rich, 8))
		for strings.HasPrefix(s.Name, "#") {
			s.Name = "x" + s.Name
		}
	}
	used := map[string]bool{"time": true, "measurement": true, "rid": true}
	fresh := func() string {
		for {
			k := fixName(genName(r, rich, 6))
			// reserved / out-of-scope names (C04 covers those): empty, leading underscore,
			// "time", names colliding with another key, "<tag>_value"
			if used[k] || strings.HasPrefix(k, "_") || strings.HasSuffix(k, "_value") {
				continue
			}
			used[k] = true
			return k
		}
	}
	for i, n := 0, r.IntN(5); i < n; i++ {
		s.TagKs = append(s.TagKs, fresh())
	}
	for i, n := 0, 1+r.IntN(5); i < n; i++ {
		s.Fields = append(s.Fields, lpField{Key: fresh(), Kind: kinds[r.IntN(len(kinds))]})
	}
	return s
}

var precisions = []string{"ns", "us", "ms", "s"}

// set by the end-to-end family per environment (the family is sequential)
var e2eWindowLoUS, e2eWindowSpanUS int64

func mulFits(raw int64, k int64) bool {
	return raw <= math.MaxInt64/k && raw >= math.MinInt64/k
}

// genPoint draws a point of schema s; rid (if >=0) is added as integer field "rid".
func genPoint(r *rand.Rand, s *mSchema, precision string, rich bool, rid int64, e2e bool) lpPoint {
	p := lpPoint{M: s.Name, EscBS: s.EscBS}
	fixName, mset, kset := fixName, ", ", ",= "
	if s.EscBS {
		fixName = func(n string) string { return n }
		mset, kset = mset+"\\", kset+"\\"
	}
	for _, k := range s.TagKs {
		if r.IntN(4) == 0 {
			continue // tags are optional per point
		}
		p.Tags = append(p.Tags, [2]string{k, fixName(genName(r, rich, 8))})
	}
	for _, fs := range s.Fields {
		if r.IntN(4) == 0 && (rid >= 0 || len(p.Fields) > 0) {
			continue
		}
		f := lpField{Key: fs.Key, Kind: fs.Kind}
		genFieldValue(r, &f, rich)
		p.Fields = append(p.Fields, f)
	}
	if rid >= 0 {
		p.Fields = append(p.Fields, lpField{Key: "rid", Kind: "int", I: rid, Enc: strconv.FormatInt(rid, 10) + "i"})
	}
	if len(p.Fields) == 0 {
		f := lpField{Key: s.Fields[0].Key, Kind: s.Fields[0].Kind}
		genFieldValue(r, &f, rich)
		p.Fields = append(p.Fields, f)
	}
	r.Shuffle(len(p.Fields), func(i, j int) { p.Fields[i], p.Fields[j] = p.Fields[j], p.Fields[i] })
	// timestamp
	if e2e || r.IntN(8) != 0 {
		p.HasTS = true
		var us int64
		if e2e {
			// storage-level: realistic range 1960..2100 so that hour directories are sane;
			// in "narrow" environments all points of a run fall into a window of a few hours,
			// so that one flush holds many rows of the same hour partition in arrival order
			us = -315619200_000000 + r.Int64N(4417977600_000000)
			if e2eWindowSpanUS > 0 {
				us = e2eWindowLoUS + r.Int64N(e2eWindowSpanUS)
			}
		} else {
			switch r.IntN(6) {
			case 0:
				us = 0
			case 1:
				us = math.MaxInt64 / 1000
			case 2:
				us = math.MinInt64 / 1000
			case 3:
				us = -r.Int64N(1 << 50)
			default:
				us = r.Int64N(1 << 52)
			}
		}
		switch precision {
		case "ns":
			// keep negative values on whole microseconds: truncation vs floor is not fixed
			if us > math.MaxInt64/1000 || us < math.MinInt64/1000 {
				us /= 1000
			}
			p.RawTS = us * 1000
			if us >= 0 && p.RawTS <= math.MaxInt64-999 {
				p.RawTS += r.Int64N(1000) // sub-microsecond part is dropped
			}
			p.WantUS = us
		case "us":
			p.RawTS, p.WantUS = us, us
		case "ms":
			p.RawTS = us / 1000
			p.WantUS = p.RawTS * 1000
		case "s":
			p.RawTS = us / 1_000_000
			p.WantUS = p.RawTS * 1_000_000
		}
	}
	// encode
	var sb strings.Builder
	sb.WriteString(escName(p.M, mset))
	for _, t := range p.Tags {
		sb.WriteByte(',')
		sb.WriteString(escName(t[0], kset))
		sb.WriteByte('=')
		sb.WriteString(escName(t[1], kset))
	}
	sb.WriteByte(' ')
	for i, f := range p.Fields {
		if i > 0 {
			sb.WriteByte(',')
		}
		sb.WriteString(escName(f.Key, kset))
		sb.WriteByte('=')
		sb.WriteString(f.Enc)
	}
	if p.HasTS {
		sb.WriteByte(' ')
		sb.WriteString(strconv.FormatInt(p.RawTS, 10))
	}
	p.Line = sb.String()
	return p
}

// classify names the structural element of p that contains "hard" characters, for
// violation signatures: which element kinds hold which escapable characters.
func classify(p lpPoint) string {
	var parts []string
	add := func(elem, s string) {
		for _, c := range []struct {
			ch   string
			name string
		}{{",", "comma"}, {" ", "space"}, {"=", "equals"}, {"\"", "quote"}, {"\\", "backslash"}} {
			if strings.Contains(s, c.ch) {
				k := elem + ":" + c.name
				for _, e := range parts {
					if e == k {
						k = ""
					}
				}
				if k != "" {
					parts = append(parts, k)
				}
			}
		}
	}
	add("measurement", p.M)
	for _, t := range p.Tags {
		add("tagkey", t[0])
		add("tagvalue", t[1])
	}
	for _, f := range p.Fields {
		add("fieldkey", f.Key)
		if f.Kind == "string" {
			add("stringvalue", f.S)
		}
	}
	if len(parts) == 0 {
		return "plain"
	}
	if p.EscBS {
		parts = append(parts, "backslashes written as \\\\")
	}
	return strings.Join(parts, "+")
}
