// Harness for peer file replication: C25 (the puller never exposes a bad file at a
// manifest path, never counts a missing file as present, and converges once the
// faults stop).
package main

import (
	"flag"
	"fmt"
	"os"

	"github.com/basekick-labs/arc/internal/zzverif/vlib"
)

func main() {
	prop := flag.String("prop", "", "property id")
	flag.String("replay", "", "replay file")
	flag.Parse()
	switch *prop {
	case "C25":
		vlib.Main("C25", "fault_enumeration", checkC25)
	default:
		fmt.Println("unknown property", *prop)
		os.Exit(2)
	}
}
