package main

import (
	"context"
	"fmt"
	"math/rand/v2"
	"os"
	"path/filepath"
	"runtime"
	"runtime/debug"
	"runtime/pprof"
	"sort"
	"strings"
	"sync"
	"sync/atomic"
	"time"

	"github.com/basekick-labs/arc/internal/cluster/filereplication"
	"github.com/basekick-labs/arc/internal/cluster/raft"
	"github.com/basekick-labs/arc/internal/storage"
	"github.com/basekick-labs/arc/internal/zzverif/vlib"
	"github.com/rs/zerolog"
)

// ---- case space ----------------------------------------------------------------------

// pullMode is how fetch attempts map onto the puller's own structure.
//
//	R = RetryMaxAttempts of one processEntry (attempts > 1 may resume from the .part)
//	P = candidate peers returned per attempt (a failed candidate falls through to the next)
//
// When a processEntry gives up the harness re-enqueues the entry, which is what the
// next FSM callback / catch-up scan does in production.
type pullMode struct {
	Name string
	R, P int
}

var pullModes = []pullMode{
	{"R1P1", 1, 1}, // every attempt is a fresh enqueue: never resumes
	{"R3P1", 3, 1}, // arc's default retry count
	{"R8P1", 8, 1}, // the whole script inside one retry loop: resumes whenever a partial exists
	{"R2P2", 2, 2}, // two candidates per attempt (fall-through between candidates)
}

var preStates = []string{"none", "empty", "prefix_ok", "prefix_bad", "full_bad"}

type caseSpec struct {
	Idx    int64     `json:"idx"`
	Size   int64     `json:"size"`
	Pre    string    `json:"pre_existing_part"` // none | empty | prefix_ok | prefix_bad | full_bad
	Mode   string    `json:"mode"`
	R      int       `json:"retry_max_attempts"`
	P      int       `json:"peers_per_attempt"`
	Script []outcome `json:"script"`
}

// preFullSize: the staging file that exists before the first attempt already has the
// manifest size (zero-size files are classified separately: any .part is full-size).
func (s caseSpec) preFullSize() bool {
	return s.Pre == "full_bad"
}

func (s caseSpec) scriptString() string {
	parts := make([]string, len(s.Script))
	for i, o := range s.Script {
		parts[i] = o.String()
	}
	return "[" + strings.Join(parts, " ") + "]"
}

func (s caseSpec) key() string {
	return fmt.Sprintf("size=%d pre=%s mode=%s %s", s.Size, s.Pre, s.Mode, s.scriptString())
}

// group = all scripts up to a length over one alphabet (+ explicit sampled longer
// scripts) for one (size, pre-state, mode).
type group struct {
	size     int64
	pre      string
	mode     pullMode
	alpha    []outcome
	maxLen   int
	explicit [][]outcome
	enumN    int64
	base     int64
}

func (g *group) count() int64 { return g.enumN + int64(len(g.explicit)) }

func (g *group) spec(n int64) caseSpec {
	s := caseSpec{Idx: g.base + n, Size: g.size, Pre: g.pre, Mode: g.mode.Name, R: g.mode.R, P: g.mode.P}
	if n >= g.enumN {
		s.Script = g.explicit[n-g.enumN]
		return s
	}
	a := int64(len(g.alpha))
	pow := int64(1)
	for l := 0; l <= g.maxLen; l++ {
		if n < pow {
			s.Script = make([]outcome, l)
			for i := l - 1; i >= 0; i-- {
				s.Script[i] = g.alpha[n%a]
				n /= a
			}
			return s
		}
		n -= pow
		pow *= a
	}
	panic("script number out of range")
}

func enumCount(a, maxLen int) int64 {
	n, pow := int64(0), int64(1)
	for l := 0; l <= maxLen; l++ {
		n += pow
		pow *= int64(a)
	}
	return n
}

// alphabet of fault outcomes for a file size ("ok" is not a letter: past the end of a
// script every attempt succeeds, and a case ends at convergence).
func alphabet(size int64, rng *rand.Rand) []outcome {
	a := []outcome{{Kind: "dial"}, {Kind: "reset"}, {Kind: "errack"}, {Kind: "notfound"},
		{Kind: "badoffset"}, {Kind: "wrongsize"}, {Kind: "wrongsha"}}
	if size == 0 {
		return a
	}
	set := map[int64]bool{0: true, 1: true, size / 2: true, size - 1: true}
	if size > 4 {
		set[2+rng.Int64N(size-3)] = true // seeded sample in [2, size-2]
	}
	if size > 65536 {
		set[32768] = true // io.Copy buffer boundary
	}
	var ks []int64
	for k := range set {
		if k >= 0 && k < size {
			ks = append(ks, k)
		}
	}
	sort.Slice(ks, func(i, j int) bool { return ks[i] < ks[j] })
	for _, k := range ks {
		a = append(a, outcome{Kind: "trunc", K: k})
	}
	for _, k := range ks {
		a = append(a, outcome{Kind: "corrupt", K: k})
	}
	if size >= 2 {
		k := size / 2
		a = append(a, outcome{Kind: "corrupttrunc", J: 0, K: k})
		if k >= 2 {
			a = append(a, outcome{Kind: "corrupttrunc", J: k - 1, K: k})
		}
	}
	return a
}

func presFor(size int64) []string {
	switch {
	case size == 0:
		return []string{"none", "empty"}
	case size == 1:
		return []string{"none", "empty", "full_bad"}
	}
	return preStates
}

// ---- concurrent reader of the final path --------------------------------------------

// poller keeps opening the current case's final path while transfers run; whatever it
// manages to read there must be the manifest bytes.
type poller struct {
	mu     sync.Mutex
	cr     *caseRun
	stop   atomic.Bool
	done   chan struct{}
	polls  int64
	sawFil int64
	cmp    *fileCmp
}

func (p *poller) set(cr *caseRun) { p.mu.Lock(); p.cr = cr; p.mu.Unlock() }

func (p *poller) run() {
	defer close(p.done)
	for !p.stop.Load() {
		p.mu.Lock()
		if cr := p.cr; cr != nil {
			p.polls++
			ex, size, prefix, _ := p.cmp.compare(cr.final, cr.content)
			if ex {
				p.sawFil++
				if size != int64(len(cr.content)) || prefix != size {
					sha := ""
					if b, err := os.ReadFile(cr.final); err == nil {
						sha = shaHex(b)
					}
					cr.mu.Lock()
					if !cr.exposed {
						cr.exposed = true
						cr.addViol(caseViol{
							Sig:  cr.exposureSigLocked(size),
							At:   "concurrent reader during transfer",
							What: fmt.Sprintf("a reader opened the final path and read %d bytes of which the first %d equal the manifest content (sha256 of a re-read: %s); manifest says %d bytes sha256=%s", size, prefix, sha, len(cr.content), cr.sha),
							FS:   fsObs{FinalExists: true, FinalSize: size, FinalSHA: sha},
						})
					}
					cr.mu.Unlock()
				}
			}
		}
		p.mu.Unlock()
		time.Sleep(300 * time.Microsecond)
	}
}

// ---- worker: one backend dir, one peer, one poller ----------------------------------

type worker struct {
	id       int
	base     string
	backend  *storage.LocalBackend
	fc       *filereplication.FetchClient
	cases    sync.Map
	peer     *peer
	dead     string
	onPeer   int
	poll     *poller
	resolver filereplication.PeerResolver
	counts   map[string]int64
	dirMade  bool
	cmp      *fileCmp
}

func newWorker(id int, dead string) (*worker, error) {
	w := &worker{id: id, dead: dead, counts: map[string]int64{}, cmp: newFileCmp()}
	w.base = vlib.TempDir(fmt.Sprintf("filerepl-w%02d", id))
	be, err := storage.NewLocalBackend(w.base, zerolog.Nop())
	if err != nil {
		return nil, err
	}
	w.backend = be
	fc, err := filereplication.NewFetchClient(filereplication.FetchClient{
		SelfNodeID: "replica-1", ClusterName: "verif-cluster", SharedSecret: "verif-shared-secret",
		DialTimeout: 5 * time.Second, ResponseHeaderTimeout: 10 * time.Second,
	})
	if err != nil {
		return nil, err
	}
	w.fc = fc
	if w.peer, err = startPeer(&w.cases); err != nil {
		return nil, err
	}
	w.poll = &poller{done: make(chan struct{}), cmp: newFileCmp()}
	go w.poll.run()
	w.resolver = filereplication.NewRegistryResolver(func(origin, path string) []string {
		v, ok := w.cases.Load(path)
		if !ok {
			return nil
		}
		cr := v.(*caseRun)
		cr.mu.Lock()
		defer cr.mu.Unlock()
		cr.syncPointLocked("peer resolution (previous attempt over)")
		cr.connsSinceResolve = 0
		first, note := w.peer.addr, "peer"
		if cr.peekLocked().Kind == "dial" {
			_, pos := cr.popLocked()
			cr.lastKind, cr.lastResume = "dial", false
			cr.served["dial"]++
			first, note = w.dead, "refusing address"
			cr.trace = append(cr.trace, traceEv{Ev: "serve", Pos: pos, Outcome: "dial", Note: "first candidate is an address that refuses connections"})
		}
		peers := []string{first}
		for i := 1; i < cr.spec.P; i++ {
			peers = append(peers, w.peer.addr)
		}
		cr.trace = append(cr.trace, traceEv{Ev: "resolve", Note: fmt.Sprintf("%d candidate(s), first=%s", len(peers), note)})
		return peers
	})
	return w, nil
}

func (w *worker) close() {
	w.poll.stop.Store(true)
	<-w.poll.done
	w.peer.stop()
	_ = os.RemoveAll(w.base)
}

// a fresh listener every so often keeps the (client port, server port) pairs left in
// TIME_WAIT from piling up on one destination
func (w *worker) maybeRenewPeer() error {
	w.onPeer++
	if w.onPeer < 1500 {
		return nil
	}
	w.onPeer = 0
	w.counts["peer_conns"] += w.peer.conns.Load()
	w.counts["peer_unknown_path"] += w.peer.unknownPath.Load()
	w.peer.stop()
	p, err := startPeer(&w.cases)
	if err != nil {
		return err
	}
	w.peer = p
	return nil
}

type caseResult struct {
	Spec      caseSpec         `json:"case"`
	Script    string           `json:"script"`
	Viols     []caseViol       `json:"violations"`
	Converged bool             `json:"converged_after_faults_stopped"`
	Rounds    int              `json:"enqueue_rounds"`
	Trace     []traceEv        `json:"trace"`
	Stats     map[string]int64 `json:"final_puller_stats"`
	Inconcl   string           `json:"inconclusive,omitempty"`
	nontriv   bool
}

// waitQuiet blocks until the puller has nothing queued or in flight. Enqueue takes the
// in-flight slot before it returns, so a drained reading after Enqueue means the
// entry's processing is over. Polling is coarse on purpose (fewer timer wake-ups).
func waitQuiet(p *filereplication.Puller) bool {
	start := time.Now()
	for i := 1; ; i++ {
		st := p.Stats()
		if st["inflight_count"] == 0 && st["queue_depth"] == 0 {
			return true
		}
		time.Sleep(100 * time.Microsecond)
		if i%512 == 0 && time.Since(start) > 120*time.Second {
			return false // watchdog only: reported as inconclusive, never as a violation
		}
	}
}

func flipped(b []byte, i int) []byte {
	c := append([]byte(nil), b...)
	c[i] ^= 0xFF
	return c
}

func (w *worker) runCase(spec caseSpec, content []byte, sha string) *caseResult {
	rel := fmt.Sprintf("db/cpu/2026/01/02/03/w%02d-c%010d.parquet", w.id, spec.Idx)
	final := filepath.Join(w.base, rel)
	cr := &caseRun{spec: spec, path: rel, final: final, content: content, sha: sha, served: map[string]int{}, cmp: w.cmp}
	res := &caseResult{Spec: spec, Script: spec.scriptString()}
	size := int64(len(content))

	if !w.dirMade {
		if err := os.MkdirAll(filepath.Dir(final), 0o700); err != nil {
			panic(err)
		}
		w.dirMade = true
	}
	var pre []byte
	switch spec.Pre {
	case "empty":
		pre = []byte{}
	case "prefix_ok":
		pre = content[:size/2]
	case "prefix_bad":
		pre = flipped(content[:size/2], int(size/4))
	case "full_bad":
		pre = flipped(content, int(size/2))
	}
	if pre != nil {
		if err := os.WriteFile(final+".part", pre, 0o600); err != nil {
			panic(err)
		}
	}
	o0 := w.cmp.observe(final, content)
	cr.trace = append(cr.trace, traceEv{Ev: "pre", Note: "state before the puller starts", FS: &o0})

	p, err := filereplication.New(filereplication.Config{
		SelfNodeID: "replica-1", Backend: w.backend, Fetcher: w.fc, PeerResolver: w.resolver,
		Workers: 1, QueueSize: 16, RetryMaxAttempts: spec.R,
		RetryInitialBackoff: time.Nanosecond, // smallest value the config accepts: backoff is 1ns<<attempt
		FetchTimeout:        30 * time.Second, Logger: zerolog.Nop(),
	})
	if err != nil {
		panic(err)
	}
	cr.puller = p
	w.cases.Store(rel, cr)
	ctx, cancel := context.WithCancel(context.Background())
	p.Start(ctx)
	w.poll.set(cr)

	entry := &raft.FileEntry{Path: rel, SHA256: sha, SizeBytes: size, Database: "db", Measurement: "cpu",
		OriginNodeID: "origin-1", Tier: "hot", LSN: uint64(spec.Idx + 1)}
	manifest := func(cursor string, limit int) ([]*raft.FileEntry, string, error) {
		if cursor != "" {
			return nil, "", nil
		}
		e := *entry
		return []*raft.FileEntry{&e}, "", nil
	}

	round := func(n int, via string) (fsObs, bool) {
		before := p.Stats()
		if via == "catch-up walk" {
			p.RunCatchUp(ctx, manifest)
		} else {
			p.Enqueue(entry)
		}
		if !waitQuiet(p) {
			res.Inconcl = fmt.Sprintf("round %d did not drain within the watchdog", n)
			return fsObs{}, false
		}
		after := p.Stats()
		caught := p.FullyCaughtUp()
		cr.mu.Lock()
		o := cr.cmp.observe(final, content)
		cr.syncObs++
		cr.judgeLocked(fmt.Sprintf("end of round %d (%s), queue drained", n, via), o, compactStats(after), caught)
		oc := o
		cr.trace = append(cr.trace, traceEv{Ev: "round", Pos: n, FS: &oc,
			Note: fmt.Sprintf("%s: pulled+%d skipped_local+%d failed+%d checksum_mismatch+%d bad_offset_server+%d fully_caught_up=%v",
				via, after["pulled"]-before["pulled"], after["skipped_local"]-before["skipped_local"],
				after["failed"]-before["failed"], after["checksum_mismatch"]-before["checksum_mismatch"],
				after["bad_offset_server"]-before["bad_offset_server"], caught)})
		cr.mu.Unlock()
		return o, true
	}

	maxRounds := len(spec.Script) + 4
	for r := 1; r <= maxRounds; r++ {
		via := "reactive enqueue"
		if r == 1 {
			via = "catch-up walk"
		}
		o, ok := round(r, via)
		res.Rounds = r
		if !ok {
			break
		}
		if o.FinalExists && o.FinalOK {
			res.Converged = true
			break
		}
	}
	if res.Converged {
		// the manifest entry announced once more: must stay present and correct
		round(res.Rounds+1, "reactive enqueue after convergence")
	}
	p.Stop()
	cancel()
	w.poll.set(nil)
	w.cases.Delete(rel)

	cr.mu.Lock()
	if !res.Converged && res.Inconcl == "" {
		o := cr.cmp.observe(final, content)
		st := compactStats(p.Stats())
		counted := false
		for i := range cr.viols {
			if strings.HasPrefix(cr.viols[i].Sig, "counted ") || strings.HasPrefix(cr.viols[i].Sig, "FullyCaughtUp") ||
				strings.Contains(cr.viols[i].Sig, "exposed at final path") {
				counted = true
				cr.viols[i].What += fmt.Sprintf("; and a correct file never appeared: %d enqueue rounds, %d of them after the last scripted fault, all drained", res.Rounds, res.Rounds-minInt(res.Rounds, len(spec.Script)))
			}
		}
		if !counted {
			fin := "missing"
			if o.FinalExists {
				fin = "wrong"
			}
			cr.addViol(caseViol{
				Sig:  fmt.Sprintf("no convergence after faults stop (final path %s, .part %s)", fin, o.partClass(size)),
				At:   "after the all-success suffix",
				What: fmt.Sprintf("script exhausted after %d attempts; %d enqueue rounds drained, every attempt past the script was served correctly, yet the manifest file is not present and correct", len(spec.Script), res.Rounds),
				FS:   o, Stats: st,
			})
		}
	}
	res.Viols = cr.viols
	res.Trace = cr.trace
	res.Stats = p.Stats()
	faults := 0
	for k, n := range cr.served {
		w.counts["attempts_"+k] += int64(n)
		if k != "ok" {
			faults += n
		}
	}
	res.nontriv = faults > 0 || spec.Pre != "none"
	w.counts["attempts_total"] += int64(cr.attempts)
	w.counts["resumed_requests"] += int64(cr.resumes)
	w.counts["fs_observations_at_sync_points"] += int64(cr.syncObs)
	w.counts["enqueue_rounds"] += int64(res.Rounds)
	if res.Converged {
		w.counts["cases_converged"]++
	}
	if res.Stats["skipped_local"] > 0 && len(cr.viols) == 0 {
		w.counts["cases_with_legit_already_present_skip"]++
	}
	if res.Stats["checksum_mismatch"] > 0 {
		w.counts["cases_with_checksum_mismatch_counted"]++
	}
	cr.mu.Unlock()

	_ = os.Remove(final)
	_ = os.Remove(final + ".part")
	return res
}

func minInt(a, b int) int {
	if a < b {
		return a
	}
	return b
}

// ---- the check ------------------------------------------------------------------------

func makeContent(c *vlib.Ctx, size int64) []byte {
	r := c.Rand(fmt.Sprintf("content/%d", size))
	b := make([]byte, size)
	for i := range b {
		b[i] = byte(r.Uint32())
	}
	return b
}

func checkC25(c *vlib.Ctx) {
	c.Rule("case = (file size, pre-existing .part state, retry/peer mode, script of per-attempt fault outcomes); every script up to the tier's length over the size's alphabet is run, then every further attempt succeeds; non-trivial = at least one fault outcome was realised against the real puller or a staging file pre-existed; distinct by the full case key")
	c.Assume("the manifest SHA-256 is sha256(generated content) computed with Go's crypto/sha256; the oracle compares the bytes at the final path with the generated content (equivalent to comparing SHA-256 and size)")
	c.Assume("one path is processed strictly sequentially by the puller, so a new peer-resolution call or a new connection for the path means the previous attempt (including its cleanup) is over; the end of a round is when inflight_count and queue_depth read 0")
	c.Assume("re-announcing the manifest entry (RunCatchUp for the first round, Enqueue afterwards) stands for the next FSM callback / catch-up scan; the peer is the harness's scripted TCP server, not arc's serving side")

	if c.Replay != "" {
		replayC25(c)
		return
	}
	// the live heap is tiny and the allocation rate high: without this the collector
	// would run every few MB
	debug.SetGCPercent(-1)
	debug.SetMemoryLimit(3 << 30)
	if pf := os.Getenv("VERIF_C25_PROF"); pf != "" {
		f, _ := os.Create(pf)
		pprof.StartCPUProfile(f)
		defer pprof.StopCPUProfile()
	}

	sizes := []int64{0, 1, 4096, 1<<20 + 1}
	if f := os.Getenv("VERIF_C25_SIZES"); f != "" { // debugging aid only: restrict the size set
		sizes = nil
		for _, x := range strings.Split(f, ",") {
			var v int64
			fmt.Sscan(x, &v)
			sizes = append(sizes, v)
		}
		c.Extra("restricted_sizes", sizes)
	}
	contents := map[int64][]byte{}
	shas := map[int64]string{}
	var groups []*group
	var total int64
	arng := c.Rand("alphabet")
	srng := c.Rand("sampled-scripts")
	alphaDesc := map[string][]string{}
	// big files first: they cost most, spread them while all workers are busy
	for si := len(sizes) - 1; si >= 0; si-- {
		size := sizes[si]
		contents[size] = makeContent(c, size)
		shas[size] = shaHex(contents[size])
		alpha := alphabet(size, arng)
		var names []string
		for _, o := range alpha {
			names = append(names, o.String())
		}
		alphaDesc[fmt.Sprint(size)] = names
		maxLen := c.N(3, 4)
		if f := os.Getenv("VERIF_C25_MAXLEN"); f != "" { // debugging aid only: shorter scripts
			fmt.Sscan(f, &maxLen)
			c.Extra("restricted_maxlen", maxLen)
		}
		sampled, sampledLen := 0, 0
		if size > 65536 {
			maxLen = c.N(2, 3)
			sampled, sampledLen = c.N(60, 400), maxLen+1
		}
		for _, pre := range presFor(size) {
			maxLen, sampled, sampledLen := maxLen, sampled, sampledLen
			if !c.Quick() && size > 1 && size <= 65536 && pre != "none" && os.Getenv("VERIF_C25_MAXLEN") == "" {
				// thorough: the full length-4 enumeration (130 321 scripts per group for
				// 19 letters) only without a pre-existing .part; with one, length <= 3
				// exhaustively plus a seeded sample of length-4 scripts
				maxLen, sampled, sampledLen = 3, 20000, 4
			}
			for _, m := range pullModes {
				g := &group{size: size, pre: pre, mode: m, alpha: alpha, maxLen: maxLen, base: total}
				g.enumN = enumCount(len(alpha), maxLen)
				for i := 0; i < sampled; i++ {
					s := make([]outcome, sampledLen)
					for j := range s {
						s[j] = alpha[srng.IntN(len(alpha))]
					}
					g.explicit = append(g.explicit, s)
				}
				total += g.count()
				groups = append(groups, g)
			}
		}
	}
	c.Extra("alphabets", alphaDesc)
	c.Extra("cases_total", total)

	dead, closeDead, err := reserveDeadPort()
	if err != nil {
		panic(err)
	}
	defer closeDead()

	nw := runtime.GOMAXPROCS(0)
	if nw > 16 {
		nw = 16
	}
	var next atomic.Int64
	var mu sync.Mutex
	// per signature only the smallest violating case is kept (shortest script, then
	// smallest file, then case index): bounded memory, and the replay written for a
	// signature does not depend on goroutine scheduling
	type worst struct {
		res *caseResult
		v   caseViol
	}
	smaller := func(a, b caseSpec) bool {
		if len(a.Script) != len(b.Script) {
			return len(a.Script) < len(b.Script)
		}
		if a.Size != b.Size {
			return a.Size < b.Size
		}
		return a.Idx < b.Idx
	}
	best := map[string]*worst{}
	bySig := map[string]int64{}
	var nbad int64
	samples := map[int64]*caseResult{}
	var wg sync.WaitGroup
	workers := make([]*worker, nw)
	for i := range workers {
		w, err := newWorker(i, dead)
		if err != nil {
			panic(err)
		}
		workers[i] = w
	}
	locate := func(idx int64) caseSpec {
		gi := sort.Search(len(groups), func(i int) bool { return groups[i].base+groups[i].count() > idx })
		return groups[gi].spec(idx - groups[gi].base)
	}
	const chunk = 8
	for _, w := range workers {
		wg.Add(1)
		go func(w *worker) {
			defer wg.Done()
			for {
				lo := next.Add(chunk) - chunk
				if lo >= total {
					return
				}
				for idx := lo; idx < lo+chunk && idx < total; idx++ {
					spec := locate(idx)
					res := w.runCase(spec, contents[spec.Size], shas[spec.Size])
					c.Eval()
					if res.nontriv {
						c.Nontrivial(spec.key())
					}
					if res.Inconcl != "" {
						c.Inconclusive(spec.key() + ": " + res.Inconcl)
					}
					if len(res.Viols) > 0 || idx%(total/8+1) == 0 {
						mu.Lock()
						if len(res.Viols) > 0 {
							nbad++
							for _, v := range res.Viols {
								bySig[v.Sig]++
								if b := best[v.Sig]; b == nil || smaller(res.Spec, b.res.Spec) {
									best[v.Sig] = &worst{res, v}
								}
							}
						} else {
							samples[idx] = res
						}
						mu.Unlock()
					}
					if err := w.maybeRenewPeer(); err != nil {
						panic(err)
					}
				}
			}
		}(w)
	}
	wg.Wait()
	var polls, saw int64
	for _, w := range workers {
		w.counts["peer_conns"] += w.peer.conns.Load()
		w.counts["peer_unknown_path"] += w.peer.unknownPath.Load()
		polls += w.poll.polls
		saw += w.poll.sawFil
		w.close()
		for k, v := range w.counts {
			c.Count(k, v)
		}
	}
	c.Count("concurrent_reader_polls", polls)
	c.Count("concurrent_reader_polls_file_present_and_verified", saw)

	var sidx []int64
	for i := range samples {
		sidx = append(sidx, i)
	}
	sort.Slice(sidx, func(i, j int) bool { return sidx[i] < sidx[j] })
	for _, i := range sidx {
		r := samples[i]
		c.Sample(map[string]any{"case": r.Spec.key(), "rounds": r.Rounds, "converged": r.Converged, "stats": compactStats(r.Stats)})
	}

	var order []string
	for s := range best {
		order = append(order, s)
	}
	sort.Slice(order, func(i, j int) bool { return smaller(best[order[i]].res.Spec, best[order[j]].res.Spec) })
	for _, s := range order {
		r, v := best[s].res, best[s].v
		c.Violation(v.Sig, map[string]any{
			"case": r.Spec, "script": r.Script, "violation": v, "all_violations_in_case": sigs(r.Viols),
			"converged_after_faults_stopped": r.Converged, "enqueue_rounds": r.Rounds,
			"trace": r.Trace, "final_puller_stats": compactStats(r.Stats),
			"cases_with_this_signature_in_this_run": bySig[s],
		})
	}
	c.Count("cases_violating", nbad)
	c.Extra("violating_cases_by_signature", bySig)
	if unknown := c.Counter("peer_unknown_path"); unknown > 0 {
		c.Inconclusive(fmt.Sprintf("%d fetch requests named a path no case owns", unknown))
	}
	c.Floor(int(total * 9 / 10))
}

func sigs(v []caseViol) []string {
	out := make([]string, len(v))
	for i := range v {
		out[i] = v[i].Sig
	}
	return out
}

func compactStats(st map[string]int64) map[string]int64 {
	out := map[string]int64{}
	for k, v := range st {
		if v != 0 && !strings.HasSuffix(k, "_at") {
			out[k] = v
		}
	}
	return out
}

// replayC25 re-runs the single case stored in a replay file and prints its history.
func replayC25(c *vlib.Ctx) {
	var d struct {
		Case caseSpec `json:"case"`
	}
	if err := vlib.LoadReplay(c.Replay, &d); err != nil {
		panic(err)
	}
	spec := d.Case
	dead, closeDead, err := reserveDeadPort()
	if err != nil {
		panic(err)
	}
	defer closeDead()
	w, err := newWorker(0, dead)
	if err != nil {
		panic(err)
	}
	defer w.close()
	content := makeContent(c, spec.Size)
	res := w.runCase(spec, content, shaHex(content))
	c.Eval()
	c.Nontrivial(spec.key())
	c.Floor(1)
	fmt.Printf("REPLAY case %s\n", spec.key())
	for _, e := range res.Trace {
		fmt.Printf("  %s\n", vlib.JSON(e))
	}
	fmt.Printf("  converged=%v rounds=%d stats=%s\n", res.Converged, res.Rounds, vlib.JSON(compactStats(res.Stats)))
	for _, v := range res.Viols {
		fmt.Printf("  VIOLATING: %s -- %s (%s)\n", v.Sig, v.What, v.At)
		c.Violation(v.Sig, map[string]any{"case": spec, "script": res.Script, "violation": v, "trace": res.Trace,
			"converged_after_faults_stopped": res.Converged, "final_puller_stats": compactStats(res.Stats)})
	}
}
