package main

import (
	"crypto/sha256"
	"encoding/hex"
	"fmt"
	"net"
	"os"
	"sync"
	"sync/atomic"
	"syscall"
	"time"

	"github.com/basekick-labs/arc/internal/cluster/filereplication"
	"github.com/basekick-labs/arc/internal/cluster/protocol"
)

// ---- scripted per-attempt outcomes -------------------------------------------------

// outcome is what the peer side does to ONE fetch attempt (one dial by the real
// FetchClient). K/J are file-size-relative positions; at serve time they are reduced
// modulo the length of the body actually requested (the tail on a resumed fetch), so
// every trunc is a real truncation and every corrupt flips a byte that is really sent.
type outcome struct {
	Kind string `json:"kind"` // dial reset errack notfound badoffset wrongsize wrongsha trunc corrupt corrupttrunc ok
	K    int64  `json:"k,omitempty"`
	J    int64  `json:"j,omitempty"`
}

func (o outcome) String() string {
	switch o.Kind {
	case "trunc", "corrupt":
		return fmt.Sprintf("%s@%d", o.Kind, o.K)
	case "corrupttrunc":
		return fmt.Sprintf("corrupt@%d+trunc@%d", o.J, o.K)
	}
	return o.Kind
}

// traceEv is one line of the per-case history kept for the replay file.
type traceEv struct {
	Ev      string `json:"ev"` // resolve | serve | round | pre
	Pos     int    `json:"pos,omitempty"`
	Outcome string `json:"outcome,omitempty"`
	Offset  int64  `json:"req_offset,omitempty"`
	Sent    int64  `json:"body_bytes_sent,omitempty"`
	Flipped *int64 `json:"flipped_file_byte,omitempty"`
	Note    string `json:"note,omitempty"`
	FS      *fsObs `json:"fs,omitempty"`
}

// fsObs is file-system truth for one manifest file.
type fsObs struct {
	FinalExists bool   `json:"final_exists"`
	FinalSize   int64  `json:"final_size,omitempty"`
	FinalOK     bool   `json:"final_ok"`
	FinalSHA    string `json:"final_sha256,omitempty"` // only when wrong
	PartExists  bool   `json:"part_exists"`
	PartSize    int64  `json:"part_size,omitempty"`
	PartPrefix  int64  `json:"part_correct_prefix,omitempty"` // leading bytes equal to the manifest content
	Err         string `json:"err,omitempty"`
}

func (o fsObs) partClass(size int64) string {
	switch {
	case !o.PartExists:
		return "none"
	case o.PartSize == size && o.PartPrefix == size:
		return "full-size correct"
	case o.PartSize == size:
		return "full-size corrupt"
	case o.PartSize == 0:
		return "empty"
	case o.PartSize > size:
		return "oversize"
	case o.PartPrefix == o.PartSize:
		return "partial correct"
	default:
		return "partial corrupt"
	}
}

func commonPrefix(a, b []byte) int64 {
	n := len(a)
	if len(b) < n {
		n = len(b)
	}
	if string(a[:n]) == string(b[:n]) { // fast path
		return int64(n)
	}
	for i := 0; i < n; i++ {
		if a[i] != b[i] {
			return int64(i)
		}
	}
	return int64(n)
}

func ptr(v int64) *int64 { return &v }

func shaHex(b []byte) string {
	s := sha256.Sum256(b)
	return hex.EncodeToString(s[:])
}

// fileCmp compares a file on disk with the expected content through a reusable
// chunk buffer (no per-observation allocation of file-sized slices).
type fileCmp struct{ buf []byte }

func newFileCmp() *fileCmp { return &fileCmp{buf: make([]byte, 128<<10)} }

// compare returns whether path exists, its size, and how many leading bytes equal want.
func (fc *fileCmp) compare(path string, want []byte) (exists bool, size, prefix int64, err error) {
	f, err := os.Open(path)
	if err != nil {
		if os.IsNotExist(err) {
			return false, 0, 0, nil
		}
		return false, 0, 0, err
	}
	defer f.Close()
	var off int64
	for {
		n, rerr := f.Read(fc.buf)
		if n > 0 {
			chunk := fc.buf[:n]
			if prefix == off { // still equal so far
				var w []byte
				if off < int64(len(want)) {
					w = want[off:]
				}
				prefix += commonPrefix(chunk, w)
			}
			off += int64(n)
		}
		if rerr != nil {
			break
		}
	}
	return true, off, prefix, nil
}

func (fc *fileCmp) observe(final string, want []byte) fsObs {
	var o fsObs
	ex, size, prefix, err := fc.compare(final, want)
	if err != nil {
		o.Err = err.Error()
	}
	if ex {
		o.FinalExists, o.FinalSize = true, size
		o.FinalOK = size == int64(len(want)) && prefix == size
		if !o.FinalOK {
			if b, err := os.ReadFile(final); err == nil {
				o.FinalSHA = shaHex(b)
			}
		}
	}
	ex, size, prefix, err = fc.compare(final+".part", want)
	if err != nil {
		o.Err += " " + err.Error()
	}
	if ex {
		o.PartExists, o.PartSize, o.PartPrefix = true, size, prefix
	}
	return o
}

// caseViol is a refuting observation inside one case.
type caseViol struct {
	Sig  string `json:"signature"`
	At   string `json:"observed_at"`
	What string `json:"what"`
	FS   fsObs  `json:"fs"`
	// Stats is the puller's own view at that moment.
	Stats map[string]int64 `json:"puller_stats,omitempty"`
}

// caseRun is the live state of one case (one manifest file, one puller). The peer,
// the resolver, the poller and the round driver all reach it through the path.
type caseRun struct {
	spec    caseSpec
	path    string // storage-relative manifest path
	final   string // absolute final path
	content []byte
	sha     string

	puller *filereplication.Puller
	cmp    *fileCmp // guarded by mu

	mu                sync.Mutex
	pos               int // next script position
	trace             []traceEv
	viols             []caseViol
	served            map[string]int // outcome kind -> times realised
	resumes           int            // requests with byte_offset > 0
	attempts          int            // outcomes consumed (dials refused + connections served)
	lastKind          string
	lastResume        bool
	exposed           bool
	connsSinceResolve int
	syncObs           int
}

// exposureSigLocked classifies a bad final file by the kind of attempt that preceded
// its first sighting.
func (cr *caseRun) exposureSigLocked(gotSize int64) string {
	kind := "wrong bytes"
	if gotSize < int64(len(cr.content)) {
		kind = "incomplete file"
	}
	how := "fresh fetch"
	if cr.lastResume {
		how = "resumed fetch"
	}
	var class string
	switch cr.lastKind {
	case "":
		class = "no attempt"
	case "ok":
		class = "a correct transfer"
	case "trunc":
		class = "a truncated transfer"
	case "corrupt":
		class = "a corrupted transfer"
	case "corrupttrunc":
		class = "a corrupted and truncated transfer"
	default:
		class = "an attempt without body (" + cr.lastKind + ")"
	}
	return fmt.Sprintf("%s exposed at final path after %s (%s)", kind, class, how)
}

func (cr *caseRun) addViol(v caseViol) {
	for _, e := range cr.viols {
		if e.Sig == v.Sig {
			return
		}
	}
	cr.viols = append(cr.viols, v)
}

// peek/pop the script; past its end every attempt succeeds ("faults stop").
func (cr *caseRun) peekLocked() outcome {
	if cr.pos < len(cr.spec.Script) {
		return cr.spec.Script[cr.pos]
	}
	return outcome{Kind: "ok"}
}

func (cr *caseRun) popLocked() (outcome, int) {
	o := cr.peekLocked()
	p := cr.pos
	cr.pos++
	cr.attempts++
	return o, p
}

// syncPoint is called where the previous attempt is known to be completely over
// (the puller asks for peers again, a new connection for the same path arrives, a
// round has drained): the puller handles one path strictly sequentially, so at these
// moments nothing is in flight for this file and file-system truth can be compared
// with what the puller has counted so far.
func (cr *caseRun) syncPointLocked(at string) fsObs {
	o := cr.cmp.observe(cr.final, cr.content)
	cr.syncObs++
	var st map[string]int64
	if cr.puller != nil {
		st = compactStats(cr.puller.Stats())
	}
	cr.judgeLocked(at, o, st, false)
	return o
}

// judgeLocked applies the two state oracles of C25 to one observation.
//
//	(A) bytes at the final path are exactly the manifest bytes whenever the path exists
//	(B) the puller has counted the file as present/pulled only if (A) holds and it exists
func (cr *caseRun) judgeLocked(at string, o fsObs, st map[string]int64, caughtUp bool) {
	size := int64(len(cr.content))
	if o.FinalExists && !o.FinalOK && !cr.exposed {
		cr.exposed = true // first exposure in the case classifies it; the bad file usually stays
		cr.addViol(caseViol{
			Sig:  cr.exposureSigLocked(o.FinalSize),
			At:   at,
			What: fmt.Sprintf("final path holds %d bytes sha256=%s, manifest says %d bytes sha256=%s", o.FinalSize, o.FinalSHA, size, cr.sha),
			FS:   o, Stats: st,
		})
	}
	if st == nil {
		return
	}
	counted := st["pulled"] + st["skipped_local"]
	if (counted > 0 || caughtUp) && !o.FinalExists {
		var sig string
		pre := cr.spec.preFullSize()
		switch {
		case st["pulled"] > 0:
			sig = "counted pulled while final path missing after " + cr.lastKind
		case counted == 0 && caughtUp:
			sig = "FullyCaughtUp reported while catch-up file missing at final path"
		case cr.attempts == 0 && pre:
			sig = "counted present while final path missing: pre-existing full-size .part"
		case size == 0:
			sig = "counted present while final path missing: zero-size file with empty .part"
		case o.PartExists && o.PartSize == size && o.PartPrefix < size:
			sig = "counted present while final path missing after corrupt transfer"
		default:
			sig = "counted present while final path missing (.part " + o.partClass(size) + ")"
		}
		cr.addViol(caseViol{
			Sig: sig, At: at,
			What: fmt.Sprintf("puller counters pulled=%d skipped_local=%d fully_caught_up=%v but nothing exists at the final path (.part: %s, %d bytes, %d leading bytes correct)",
				st["pulled"], st["skipped_local"], caughtUp, o.partClass(size), o.PartSize, o.PartPrefix),
			FS: o, Stats: st,
		})
	}
}

// ---- the scripted peer -------------------------------------------------------------

// peer is a loopback TCP server speaking internal/cluster/protocol's fetch exchange;
// what it does to a connection is the next scripted outcome of the requested path.
type peer struct {
	ln    net.Listener
	addr  string
	cases *sync.Map // path -> *caseRun (shared with the worker)
	wg    sync.WaitGroup

	unknownPath atomic.Int64
	conns       atomic.Int64
}

func startPeer(cases *sync.Map) (*peer, error) {
	ln, err := net.Listen("tcp", "127.0.0.1:0")
	if err != nil {
		return nil, err
	}
	p := &peer{ln: ln, addr: ln.Addr().String(), cases: cases}
	p.wg.Add(1)
	go func() {
		defer p.wg.Done()
		for {
			c, err := ln.Accept()
			if err != nil {
				return
			}
			p.wg.Add(1)
			go func() {
				defer p.wg.Done()
				p.handle(c)
			}()
		}
	}()
	return p, nil
}

func (p *peer) stop() {
	_ = p.ln.Close()
	p.wg.Wait()
}

func sendAck(conn net.Conn, ack *protocol.FetchFileAckHeader) error {
	return protocol.SendMessage(conn, &protocol.Message{Type: protocol.MsgFetchFileAck, Payload: ack}, 10*time.Second)
}

func (p *peer) handle(conn net.Conn) {
	defer conn.Close()
	p.conns.Add(1)
	_ = conn.SetDeadline(time.Now().Add(30 * time.Second))
	msg, err := protocol.ReceiveMessage(conn, 10*time.Second)
	if err != nil || msg.Type != protocol.MsgFetchFile {
		return
	}
	req, ok := msg.Payload.(*protocol.FetchFileRequest)
	if !ok {
		return
	}
	v, ok := p.cases.Load(req.Path)
	if !ok {
		p.unknownPath.Add(1)
		_ = sendAck(conn, &protocol.FetchFileAckHeader{Status: "error", Code: protocol.AckCodeManifest, Error: protocol.ErrMsgFileNotInManifest})
		return
	}
	cr := v.(*caseRun)

	cr.mu.Lock()
	// a second connection after one peer resolution is the only sign that the first
	// candidate's attempt is over (the first connection follows a resolution directly)
	if cr.connsSinceResolve > 0 {
		cr.syncPointLocked("new connection (previous candidate's attempt over)")
	}
	cr.connsSinceResolve++
	o, pos := cr.popLocked()
	ev := traceEv{Ev: "serve", Pos: pos, Outcome: o.String(), Offset: req.ByteOffset}
	size := int64(len(cr.content))
	off := req.ByteOffset
	if off > 0 {
		cr.resumes++
	}
	cr.lastResume = off > 0
	kind := o.Kind
	if kind == "dial" {
		// a dial failure scripted for a second candidate of one attempt cannot be
		// realised by address; the connection is dropped before any reply instead
		kind = "reset"
		ev.Note = "dial outcome realised as drop-before-reply (second candidate)"
	}
	// like the real serving side: a resume offset at or past the end is rejected
	// (an ideal peer still serves a zero-size file at offset 0)
	if off < 0 || off > size || (off == size && size > 0) {
		if kind != "reset" && kind != "errack" && kind != "notfound" {
			kind = "badoffset"
			ev.Note = "offset outside file: answered bad_offset"
		}
	}
	var tail []byte
	if off >= 0 && off <= size {
		tail = cr.content[off:]
	}
	tl := int64(len(tail))
	if tl == 0 && (kind == "trunc" || kind == "corrupt" || kind == "corrupttrunc") {
		kind = "ok" // nothing to damage in an empty body
		ev.Note = "empty body: served as ok"
	}
	cr.lastKind = kind
	cr.served[kind]++
	okAck := &protocol.FetchFileAckHeader{Status: "ok", SizeBytes: tl, SHA256: cr.sha, ByteOffset: off}
	var pre, flip, post []byte // body = pre + flip + post
	sendBody := false
	var ack *protocol.FetchFileAckHeader
	switch kind {
	case "reset":
	case "errack":
		ack = &protocol.FetchFileAckHeader{Status: "error", Code: protocol.AckCodeBackend, Error: "backend error"}
	case "notfound":
		ack = &protocol.FetchFileAckHeader{Status: "error", Code: protocol.AckCodeNotFound, Error: protocol.ErrMsgFileNotFound}
	case "badoffset":
		ack = &protocol.FetchFileAckHeader{Status: "error", Code: protocol.AckCodeBadOffset, Error: fmt.Sprintf("invalid byte offset %d for file size %d", off, size)}
	case "wrongsize":
		a := *okAck
		a.SizeBytes = tl + 1
		ack = &a
	case "wrongsha":
		a := *okAck
		a.SHA256 = shaHex(append([]byte("not the manifest content "), cr.sha...))
		ack = &a
	case "trunc":
		ack, sendBody = okAck, true
		pre = tail[:o.K%tl]
	case "corrupt":
		ack, sendBody = okAck, true
		k := o.K % tl
		pre, flip, post = tail[:k], []byte{tail[k] ^ 0xFF}, tail[k+1:]
		ev.Flipped = ptr(off + k)
	case "corrupttrunc":
		ack, sendBody = okAck, true
		k := o.K % tl
		if k > 0 {
			j := o.J % k
			pre, flip, post = tail[:j], []byte{tail[j] ^ 0xFF}, tail[j+1:k]
			ev.Flipped = ptr(off + j)
		}
	case "ok":
		ack, sendBody = okAck, true
		pre = tail
	}
	ev.Sent = int64(len(pre) + len(flip) + len(post))
	cr.trace = append(cr.trace, ev)
	cr.mu.Unlock()

	if ack == nil {
		return
	}
	if err := sendAck(conn, ack); err != nil || !sendBody {
		return
	}
	for _, b := range [][]byte{pre, flip, post} {
		if len(b) > 0 {
			if _, err := conn.Write(b); err != nil {
				return
			}
		}
	}
	// the deferred Close sends FIN after all written bytes: the client reads exactly
	// what was sent and then EOF
}

// reserveDeadPort binds a loopback TCP socket without ever listening on it: dials to
// it are refused, and no other listener in this process can be given the port.
func reserveDeadPort() (string, func(), error) {
	fd, err := syscall.Socket(syscall.AF_INET, syscall.SOCK_STREAM, 0)
	if err != nil {
		return "", nil, err
	}
	if err := syscall.Bind(fd, &syscall.SockaddrInet4{Port: 0, Addr: [4]byte{127, 0, 0, 1}}); err != nil {
		syscall.Close(fd)
		return "", nil, err
	}
	sa, err := syscall.Getsockname(fd)
	if err != nil {
		syscall.Close(fd)
		return "", nil, err
	}
	port := sa.(*syscall.SockaddrInet4).Port
	return fmt.Sprintf("127.0.0.1:%d", port), func() { syscall.Close(fd) }, nil
}
