// Harness for the cluster state machine: C22 (replay determinism, snapshot
// fidelity, batch atomicity, index agreement) and C23 (role-assignment invariants).
package main

import (
	"flag"
	"fmt"
	"os"

	"github.com/basekick-labs/arc/internal/zzverif/vlib"
)

func main() {
	prop := flag.String("prop", "", "property id")
	flag.String("replay", "", "replay file")
	flag.Parse()
	switch *prop {
	case "C22":
		vlib.Main("C22", "exploration", checkC22)
	case "C23":
		vlib.Main("C23", "exploration", checkC23)
	default:
		fmt.Println("unknown property", *prop)
		os.Exit(2)
	}
}
