package main

import (
	"encoding/json"
	"fmt"
	hraft "github.com/hashicorp/raft"
	"sort"
	"strings"

	araft "github.com/basekick-labs/arc/internal/cluster/raft"
	"github.com/basekick-labs/arc/internal/zzverif/vlib"
)

func asMap(v any) map[string]any {
	m, _ := v.(map[string]any)
	return m
}

func str(v any) string {
	switch t := v.(type) {
	case string:
		return t
	case float64:
		return fmt.Sprintf("%d", int64(t))
	case nil:
		return ""
	}
	return fmt.Sprint(v)
}

// canonical rendering of an index: nested maps with empty inner containers dropped.
func canonIndex(v any) string {
	var strip func(v any) any
	strip = func(v any) any {
		switch t := v.(type) {
		case map[string]any:
			out := map[string]any{}
			for k, x := range t {
				sx := strip(x)
				if sx == nil {
					continue
				}
				out[k] = sx
			}
			if len(out) == 0 {
				return nil
			}
			return out
		case []any:
			if len(t) == 0 {
				return nil
			}
			return t
		}
		return v
	}
	s := strip(v)
	if s == nil {
		return "{}"
	}
	b, _ := json.Marshal(s)
	return string(b)
}

// leaf marker for set-like indexes
var member = map[string]any{"_": 1}

func setIndexCanon(v any) string {
	// map[k]map[id]struct{} dumps as {"k":{"id":{}}}: turn leaves {} into a marker so
	// that canonIndex does not drop them as empty
	m := asMap(v)
	out := map[string]any{}
	for k, inner := range m {
		im := map[string]any{}
		for id := range asMap(inner) {
			im[id] = 1
		}
		out[k] = im
	}
	return canonIndex(out)
}

// indexErrors recomputes every secondary index from the primary records and
// reports disagreements; it also checks parent existence (C23) when parents is set.
func indexErrors(d map[string]any) []string {
	var errs []string
	add := func(name, want, got string) {
		if want != got {
			errs = append(errs, fmt.Sprintf("%s: index=%s derived-from-primary=%s", name, got, want))
		}
	}
	// files_by_db
	want := map[string]any{}
	for p, f := range asMap(d["files"]) {
		db := str(asMap(f)["database"])
		if want[db] == nil {
			want[db] = map[string]any{}
		}
		want[db].(map[string]any)[p] = 1
		if str(asMap(f)["path"]) != p {
			errs = append(errs, fmt.Sprintf("files: key %q holds entry with path %q", p, str(asMap(f)["path"])))
		}
	}
	add("files_by_db", canonIndex(want), setIndexCanon(d["files_by_db"]))
	// keys cache: nil or exactly the sorted keys
	if kc, ok := d["keys_cache"].([]any); ok && kc != nil {
		keys := []string{}
		for p := range asMap(d["files"]) {
			keys = append(keys, p)
		}
		sort.Strings(keys)
		got := []string{}
		for _, k := range kc {
			got = append(got, str(k))
		}
		if strings.Join(keys, "\x00") != strings.Join(got, "\x00") {
			errs = append(errs, fmt.Sprintf("keys_cache stale: %v vs %v", got, keys))
		}
	}
	// tokens
	byPrefix := map[string][]float64{}
	byName := map[string]any{}
	nameCount := map[string]int{}
	for id, t := range asMap(d["tokens"]) {
		tm := asMap(t)
		var idf float64
		fmt.Sscanf(id, "%g", &idf)
		if str(tm["id"]) != id {
			errs = append(errs, fmt.Sprintf("tokens: key %s holds id %s", id, str(tm["id"])))
		}
		byPrefix[str(tm["token_prefix"])] = append(byPrefix[str(tm["token_prefix"])], idf)
		byName[str(tm["name"])] = idf
		nameCount[str(tm["name"])]++
	}
	wp := map[string]any{}
	for k, v := range byPrefix {
		sort.Float64s(v)
		arr := make([]any, len(v))
		for i := range v {
			arr[i] = v[i]
		}
		wp[k] = arr
	}
	add("tokens_by_prefix", canonIndex(wp), canonIndex(d["tokens_by_prefix"]))
	for n, c := range nameCount {
		if c > 1 {
			errs = append(errs, fmt.Sprintf("tokens: name %q used by %d tokens (UNIQUE)", n, c))
			delete(byName, n)
			if m := asMap(d["tokens_by_name"]); m != nil {
				delete(m, n)
			}
		}
	}
	add("tokens_by_name", canonIndex(byName), canonIndex(d["tokens_by_name"]))
	// organizations_by_name
	wo := map[string]any{}
	for id, o := range asMap(d["organizations"]) {
		var idf float64
		fmt.Sscanf(id, "%g", &idf)
		wo[str(asMap(o)["name"])] = idf
	}
	add("organizations_by_name", canonIndex(wo), canonIndex(d["organizations_by_name"]))
	// teams_by_org
	wt := map[string]any{}
	for id, t := range asMap(d["teams"]) {
		var idf float64
		fmt.Sscanf(id, "%g", &idf)
		org := str(asMap(t)["organization_id"])
		if wt[org] == nil {
			wt[org] = map[string]any{}
		}
		wt[org].(map[string]any)[str(asMap(t)["name"])] = idf
		if _, ok := asMap(d["organizations"])[org]; !ok {
			errs = append(errs, fmt.Sprintf("orphan: team %s refers to missing organization %s", id, org))
		}
	}
	add("teams_by_org", canonIndex(wt), canonIndex(d["teams_by_org"]))
	// roles_by_team, mperms_by_role, memberships
	setOf := func(primary, field, parent, what string) string {
		w := map[string]any{}
		for id, e := range asMap(d[primary]) {
			p := str(asMap(e)[field])
			if w[p] == nil {
				w[p] = map[string]any{}
			}
			w[p].(map[string]any)[id] = 1
			if _, ok := asMap(d[parent])[p]; !ok {
				errs = append(errs, fmt.Sprintf("orphan: %s %s refers to missing %s %s", what, id, parent, p))
			}
		}
		return canonIndex(w)
	}
	add("roles_by_team", setOf("roles", "team_id", "teams", "role"), setIndexCanon(d["roles_by_team"]))
	add("measurement_perms_by_role", setOf("measurement_permissions", "role_id", "roles", "measurement_permission"), setIndexCanon(d["measurement_perms_by_role"]))
	add("token_memberships_by_token", setOf("token_memberships", "token_id", "tokens", "membership"), setIndexCanon(d["token_memberships_by_token"]))
	add("token_memberships_by_team", setOf("token_memberships", "team_id", "teams", "membership"), setIndexCanon(d["token_memberships_by_team"]))
	wpair := map[string]any{}
	for id, e := range asMap(d["token_memberships"]) {
		var idf float64
		fmt.Sscanf(id, "%g", &idf)
		tk, tm := str(asMap(e)["token_id"]), str(asMap(e)["team_id"])
		if wpair[tk] == nil {
			wpair[tk] = map[string]any{}
		}
		wpair[tk].(map[string]any)[tm] = idf
	}
	add("token_memberships_by_pair", canonIndex(wpair), canonIndex(d["token_memberships_by_pair"]))
	return errs
}

// shortSig makes a stable signature from an index error (drops concrete ids).
func shortSig(e string) string {
	if i := strings.Index(e, ":"); i > 0 {
		return e[:i]
	}
	return e
}

type seqResult struct {
	dumps   []string // canonical dump after each step (index 0 = empty)
	results []string
}

func descs(cmds []Cmd) []string {
	out := make([]string, len(cmds))
	for i, c := range cmds {
		out[i] = fmt.Sprintf("%d:%s %s", i+1, c.Desc, string(c.Payload))
	}
	return out
}

func checkC22(c *vlib.Ctx) {
	c.Rule("random committed command sequences (length<=40 quick / <=70 thorough) over 4 nodes, 6+8 file paths in 3 databases, colliding token names/prefixes, the 13 RBAC commands, invalid/duplicate/out-of-order/malformed commands; each applied (a) twice from empty, (b) from a snapshot taken+restored at EVERY prefix then fed the suffix; oracle: equal canonical VerifDump (primaries + indexes) and equal apply results, restore(snapshot(S)) dumps as S, a failing batch leaves the dump unchanged, every index equals the one recomputed from the primaries. non-trivial = distinct sequences with >=3 state-changing commands")
	c.Assume("state is observed through ClusterFSM.VerifDump (verif-tagged shim, JSON under the FSM lock); callbacks are not installed")
	c.Assume("index entries holding an empty inner map are treated as equal to absent entries (every lookup answers the same)")
	rng := c.Rand("seqs")
	nSeq := c.N(3000, 20000)
	maxLen := c.N(40, 70)
	classes := []string{"any", "any", "any", "file", "rbac", "token", "node"}
	for s := 0; s < nSeq; s++ {
		g := newGen(rng)
		n := 3 + rng.IntN(maxLen-2)
		class := classes[rng.IntN(len(classes))]
		cmds := make([]Cmd, n)
		for i := range cmds {
			if class == "rbac" && rng.IntN(4) == 0 {
				cmds[i] = g.next("token")
			} else {
				cmds[i] = g.next(class)
			}
		}
		runC22Seq(c, cmds, s)
	}
	c.Floor(50)
}

func runC22Seq(c *vlib.Ctx, cmds []Cmd, s int) {
	A, B := newFSM(), newFSM()
	_, d0 := dump(A)
	res := seqResult{dumps: []string{d0}}
	snaps := make([][]byte, 0, len(cmds)+1)
	sb, err := snapshotBytes(A)
	if err != nil {
		c.Violation("snapshot error", map[string]any{"err": err.Error()})
		return
	}
	snaps = append(snaps, sb)
	// "late" snapshots: Snapshot() is taken at the prefix (as raft does on the apply
	// goroutine) but persisted only after all later commands were applied (as raft's
	// snapshot goroutine may): the persisted bytes must still describe the prefix
	var late []hraft.FSMSnapshot
	takeLate := func() {
		ls, err := A.Snapshot()
		if err != nil {
			ls = nil
		}
		late = append(late, ls)
	}
	takeLate()
	changes := 0
	report := func(sig string, step int, extra map[string]any) {
		d := map[string]any{"step": step, "commands": descs(cmds[:min(step+1, len(cmds))])}
		for k, v := range extra {
			d[k] = v
		}
		c.Violation(sig, d)
	}
	for i, cmd := range cmds {
		idx := uint64(i + 1)
		rA := apply(A, idx, cmd)
		rB := apply(B, idx, cmd)
		c.Eval()
		c.Count("applies", 2)
		if strings.HasPrefix(rA, "PANIC") {
			report("apply panics: "+cmd.Desc, i, map[string]any{"result": rA})
			return
		}
		if i%7 == 3 {
			A.GetFilesPaginated("", 2) // builds the sorted-key cache so that staleness is observable
		}
		raw, dA := dump(A)
		_, dB := dump(B)
		if rA != rB || dA != dB {
			report("non-deterministic apply: "+cmd.Desc, i, map[string]any{"resA": rA, "resB": rB})
			return
		}
		prev := res.dumps[len(res.dumps)-1]
		if dA != prev {
			changes++
		}
		if rA != "" {
			c.Count("rejected_commands", 1)
			if cmd.Type == araft.CommandBatchFileOps && dA != prev {
				report("batch applied partially", i, map[string]any{"result": rA})
			}
		} else if cmd.Type == araft.CommandBatchFileOps {
			c.Count("batches_applied", 1)
		}
		for _, e := range indexErrors(raw) {
			if strings.HasPrefix(e, "orphan") {
				continue // parent existence belongs to C23
			}
			report("index disagrees with primary: "+shortSig(e)+" first after "+strings.SplitN(cmd.Desc, " ", 2)[0], i, map[string]any{"error": e})
			return
		}
		res.dumps = append(res.dumps, dA)
		res.results = append(res.results, rA)
		sb, err := snapshotBytes(A)
		if err != nil {
			report("snapshot error", i, map[string]any{"err": err.Error()})
			return
		}
		snaps = append(snaps, sb)
		takeLate()
	}
	final := res.dumps[len(res.dumps)-1]
	for k, ls := range late {
		if ls == nil || k >= len(res.dumps) {
			continue
		}
		var sink memSink
		if err := ls.Persist(&sink); err != nil {
			report("snapshot error (persisted late)", k-1, map[string]any{"err": err.Error()})
			continue
		}
		ls.Release()
		R, err := restoreFrom(sink.Bytes())
		if err != nil {
			report("restore error (snapshot persisted late)", k-1, map[string]any{"err": err.Error()})
			continue
		}
		c.Count("late_persisted_snapshots_restored", 1)
		if _, dR := dump(R); dR != res.dumps[k] {
			report("snapshot persisted after later commands were applied differs from the state it was taken from: "+diffKeys(dR, res.dumps[k]), k-1,
				map[string]any{"snapshot_prefix": k, "commands_applied_before_persist": len(cmds), "restored": dR, "source": res.dumps[k]})
			break
		}
	}
	// snapshot at every prefix: fidelity + replay of the suffix
	for k := 0; k <= len(cmds); k++ {
		R, err := restoreFrom(snaps[k])
		if err != nil {
			report("restore error", k-1, map[string]any{"err": err.Error()})
			continue
		}
		c.Count("snapshot_restores", 1)
		rawR, dR := dump(R)
		if dR != res.dumps[k] {
			report("restored snapshot differs from its source state: "+diffKeys(dR, res.dumps[k]), k-1, map[string]any{"restored": dR, "source": res.dumps[k]})
			continue
		}
		for _, e := range indexErrors(rawR) {
			if !strings.HasPrefix(e, "orphan") {
				report("index disagrees with primary after restore: "+shortSig(e), k-1, map[string]any{"error": e})
			}
		}
		ok := true
		for i := k; i < len(cmds); i++ {
			r := apply(R, uint64(i+1), cmds[i])
			c.Count("applies", 1)
			if r != res.results[i] {
				report("replay from snapshot answers differently: "+cmds[i].Desc, i, map[string]any{"snapshot_prefix": k, "live": res.results[i], "replayed": r})
				ok = false
				break
			}
		}
		if !ok {
			continue
		}
		if _, dF := dump(R); dF != final {
			report("replay from snapshot ends in a different state: "+diffKeys(dF, final), len(cmds)-1, map[string]any{"snapshot_prefix": k, "replayed": dF, "live": final})
		}
	}
	if changes >= 3 {
		c.Nontrivial(strings.Join(descs(cmds), "|"))
	}
	if s < 2 {
		c.Sample(map[string]any{"commands": descs(cmds), "results": res.results})
	}
}

// diffKeys names the top-level dump sections that differ.
func diffKeys(a, b string) string {
	var ma, mb map[string]json.RawMessage
	json.Unmarshal([]byte(a), &ma)
	json.Unmarshal([]byte(b), &mb)
	var ks []string
	for k := range ma {
		if string(ma[k]) != string(mb[k]) {
			ks = append(ks, k)
		}
	}
	for k := range mb {
		if _, ok := ma[k]; !ok {
			ks = append(ks, k)
		}
	}
	sort.Strings(ks)
	return strings.Join(ks, ",")
}

// ---------------- C23 ----------------

type roleView struct {
	primaryID string
	compactor string
	ws        map[string]string // node id -> writer state
	roles     map[string]string
}

func view(d map[string]any) roleView {
	v := roleView{primaryID: str(d["primary_writer_id"]), compactor: str(d["active_compactor_id"]), ws: map[string]string{}, roles: map[string]string{}}
	for id, n := range asMap(d["nodes"]) {
		v.ws[id] = str(asMap(n)["writer_state"])
		v.roles[id] = str(asMap(n)["role"])
	}
	return v
}

// roleInvariants returns the violated invariants of C23 in state v.
func roleInvariants(v roleView) []string {
	var out []string
	np := 0
	for _, ws := range v.ws {
		if ws == "primary" {
			np++
		}
	}
	if np > 1 {
		out = append(out, "more than one node marked primary")
	}
	if v.primaryID != "" {
		ws, ok := v.ws[v.primaryID]
		if !ok {
			out = append(out, "recorded primary writer is not a registered node")
		} else if ws != "primary" {
			out = append(out, "recorded primary writer is not marked primary")
		}
	}
	return out
}

// cmdDetail classifies a node command relative to the pre-state (for signatures).
func cmdDetail(cmd Cmd, pre roleView) string {
	var p struct {
		Node   araft.NodeInfo `json:"node"`
		NodeID string         `json:"node_id"`
	}
	json.Unmarshal(cmd.Payload, &p)
	id := p.NodeID
	if id == "" {
		id = p.Node.ID
	}
	_, exists := pre.ws[id]
	who := "unregistered"
	if exists {
		who = "registered"
		if pre.primaryID == id {
			who = "recorded-primary"
		}
	}
	kind := map[araft.CommandType]string{araft.CommandAddNode: "add", araft.CommandRemoveNode: "remove", araft.CommandUpdateNode: "update",
		araft.CommandUpdateNodeState: "state", araft.CommandPromoteWriter: "promote", araft.CommandDemoteWriter: "demote", araft.CommandAssignCompactor: "compactor"}[cmd.Type]
	s := kind + "(" + who
	if cmd.Type == araft.CommandAddNode || cmd.Type == araft.CommandUpdateNode {
		s += ",payload_ws=" + p.Node.WriterState
	}
	return s + ")"
}

func stepC23(c *vlib.Ctx, f *araft.ClusterFSM, idx uint64, cmd Cmd, hist []Cmd) bool {
	rawPre, _ := dump(f)
	pre := view(rawPre)
	r := apply(f, idx, cmd)
	c.Eval()
	raw, _ := dump(f)
	post := view(raw)
	det := cmdDetail(cmd, pre)
	ok := true
	rep := func(sig string) {
		ok = false
		c.Violation(sig, map[string]any{"commands": descs(hist), "result": r, "primary_writer_id": post.primaryID, "writer_states": post.ws})
	}
	if strings.HasPrefix(r, "PANIC") {
		rep("apply panics: " + det)
		return false
	}
	for _, inv := range roleInvariants(post) {
		// report only where the invariant breaks (pre-state was fine)
		if len(roleInvariants(pre)) == 0 {
			rep(inv + " after " + det)
		} else {
			ok = false
		}
	}
	if cmd.Type == araft.CommandAddNode {
		var p araft.AddNodePayload
		json.Unmarshal(cmd.Payload, &p)
		if oldWS, existed := pre.ws[p.Node.ID]; existed && r == "" {
			if post.ws[p.Node.ID] != oldWS || post.primaryID != pre.primaryID || post.compactor != pre.compactor {
				rep("re-registering a node changed its recorded role assignment: " + det)
			}
			c.Count("reregistrations", 1)
		}
	}
	for _, e := range indexErrors(raw) {
		if strings.HasPrefix(e, "orphan") {
			rep("dangling parent reference: " + strings.SplitN(e, " ", 3)[1] + " after " + cmd.Desc)
		}
	}
	return ok
}

func checkC23(c *vlib.Ctx) {
	c.Rule("(1) EXHAUSTIVE: every sequence of length<=4 (quick) / <=5 (thorough) over the node-command alphabet {add writer (honest payload), add writer claiming primary, add reader, update, remove, promote, demote, node-state, assign-compactor} x nodes {n1,n2}; (2) random sequences (<=60) over 4 nodes mixing all command families incl. RBAC create/delete in every order. After every applied command: <=1 node marked primary; a recorded primary writer exists and is marked primary; re-AddNode of an existing id leaves its writer state / the recorded primary / the compactor assignment unchanged; every team/role/measurement permission/membership has existing parents. non-trivial = distinct sequences in which a promotion succeeded or an RBAC child was created")
	c.Assume("state observed through ClusterFSM.VerifDump; a violated invariant is attributed to the command after which it first fails")
	// (1) bounded exhaustive
	type mkf func(id string) Cmd
	writer := func(id, ws string) araft.NodeInfo {
		return araft.NodeInfo{ID: id, Name: id, Role: "writer", ClusterName: "c", Address: id + ":1", APIAddress: id + ":2", State: "healthy", Version: "v", WriterState: ws, CoreCount: 2}
	}
	alphabet := []mkf{
		func(id string) Cmd {
			return mk(araft.CommandAddNode, "add "+id, araft.AddNodePayload{Node: writer(id, "")})
		},
		func(id string) Cmd {
			return mk(araft.CommandAddNode, "add(primary-claim) "+id, araft.AddNodePayload{Node: writer(id, "primary")})
		},
		func(id string) Cmd {
			n := writer(id, "")
			n.Role = "reader"
			return mk(araft.CommandAddNode, "add(reader) "+id, araft.AddNodePayload{Node: n})
		},
		func(id string) Cmd {
			return mk(araft.CommandUpdateNode, "update "+id, araft.UpdateNodePayload{Node: writer(id, "")})
		},
		func(id string) Cmd {
			return mk(araft.CommandRemoveNode, "remove "+id, araft.RemoveNodePayload{NodeID: id})
		},
		func(id string) Cmd {
			return mk(araft.CommandPromoteWriter, "promote "+id, araft.PromoteWriterPayload{NodeID: id})
		},
		func(id string) Cmd {
			return mk(araft.CommandDemoteWriter, "demote "+id, araft.DemoteWriterPayload{NodeID: id})
		},
		func(id string) Cmd {
			return mk(araft.CommandUpdateNodeState, "state "+id, araft.UpdateNodeStatePayload{NodeID: id, NewState: "unhealthy"})
		},
		func(id string) Cmd {
			return mk(araft.CommandAssignCompactor, "compactor "+id, araft.AssignCompactorPayload{NodeID: id})
		},
	}
	var letters []Cmd
	for _, id := range []string{"n1", "n2"} {
		for _, a := range alphabet {
			letters = append(letters, a(id))
		}
	}
	maxLen := c.N(4, 5)
	seq := make([]int, 0, maxLen)
	var rec func()
	total := 0
	rec = func() {
		if len(seq) > 0 {
			total++
			f := newFSM()
			hist := make([]Cmd, 0, len(seq))
			promoted := false
			for i, li := range seq {
				hist = append(hist, letters[li])
				// only the last step is new relative to the already-checked prefix, but
				// the FSM must be rebuilt, so all steps run; invariants checked on each
				if !stepC23(c, f, uint64(i+1), letters[li], hist) {
					break
				}
				if letters[li].Type == araft.CommandPromoteWriter {
					promoted = true
				}
			}
			if promoted {
				c.Nontrivial(fmt.Sprint(seq))
			}
		}
		if len(seq) == maxLen {
			return
		}
		for li := range letters {
			seq = append(seq, li)
			rec()
			seq = seq[:len(seq)-1]
		}
	}
	rec()
	c.Count("exhaustive_sequences", int64(total))
	c.Extra("exhaustive_node_alphabet", len(letters))
	c.Extra("exhaustive_max_len", maxLen)
	// (2) random, all families
	rng := c.Rand("c23")
	nSeq := c.N(600, 30000)
	for s := 0; s < nSeq; s++ {
		g := newGen(rng)
		n := 5 + rng.IntN(56)
		f := newFSM()
		var hist []Cmd
		class := pick(rng, []string{"node", "node", "rbac", "any"})
		children := 0
		for i := 0; i < n; i++ {
			var cmd Cmd
			if class == "rbac" && rng.IntN(4) == 0 {
				cmd = g.next("token")
			} else {
				cmd = g.next(class)
			}
			hist = append(hist, cmd)
			if !stepC23(c, f, uint64(i+1), cmd, hist) {
				break
			}
		}
		raw, _ := dump(f)
		children = len(asMap(raw["teams"])) + len(asMap(raw["roles"])) + len(asMap(raw["token_memberships"]))
		if children > 0 || str(raw["primary_writer_id"]) != "" {
			c.Nontrivial(strings.Join(descs(hist), "|"))
		}
		c.Count("random_sequences", 1)
		if s < 2 {
			c.Sample(map[string]any{"commands": descs(hist)})
		}
	}
	// (3) directed RBAC cascades: a team with 2-4 roles (one measurement permission and
	// optionally one more role each), some of the roles deleted one by one, optionally
	// another role created afterwards, then the team or its organization deleted. The
	// random family reaches "prune siblings, then delete the parent" only rarely.
	now := t0.UnixNano()
	cascades := 0
	for nRoles := 2; nRoles <= 4; nRoles++ {
		for mask := 1; mask < (1<<nRoles)-1; mask++ { // non-empty proper subsets of the roles
			for _, extra := range []bool{false, true} {
				for _, parent := range []string{"team", "org"} {
					f := newFSM()
					var hist []Cmd
					idx := uint64(0)
					step := func(cmd Cmd) bool {
						idx++
						hist = append(hist, cmd)
						return stepC23(c, f, idx, cmd, hist)
					}
					ok := step(mk(araft.CommandCreateOrganization, "create-org", araft.CreateOrganizationPayload{Organization: araft.OrganizationEntry{Name: "o", CreatedAtUnixNano: now}}))
					orgID := int64(idx)
					ok = ok && step(mk(araft.CommandCreateTeam, "create-team", araft.CreateTeamPayload{Team: araft.TeamEntry{OrganizationID: orgID, Name: "t", CreatedAtUnixNano: now}}))
					teamID := int64(idx)
					var roleIDs []int64
					for r := 0; ok && r < nRoles; r++ {
						ok = step(mk(araft.CommandCreateRole, "create-role", araft.CreateRolePayload{Role: araft.RoleEntry{TeamID: teamID, DatabasePattern: fmt.Sprintf("db%d", r), Permissions: "read", CreatedAtUnixNano: now}}))
						roleIDs = append(roleIDs, int64(idx))
						ok = ok && step(mk(araft.CommandCreateMeasurementPermission, "create-mperm", araft.CreateMeasurementPermissionPayload{MeasurementPermission: araft.MeasurementPermissionEntry{RoleID: int64(idx), MeasurementPattern: "cpu", Permissions: "read", CreatedAtUnixNano: now}}))
					}
					for r := 0; ok && r < nRoles; r++ {
						if mask&(1<<r) != 0 {
							ok = step(mk(araft.CommandDeleteRole, "delete-role", araft.DeleteRolePayload{ID: roleIDs[r]}))
						}
					}
					if ok && extra {
						ok = step(mk(araft.CommandCreateRole, "create-role", araft.CreateRolePayload{Role: araft.RoleEntry{TeamID: teamID, DatabasePattern: "late", Permissions: "write", CreatedAtUnixNano: now}}))
					}
					if ok && parent == "team" {
						step(mk(araft.CommandDeleteTeam, "delete-team", araft.DeleteTeamPayload{ID: teamID}))
					} else if ok {
						step(mk(araft.CommandDeleteOrganization, "delete-org", araft.DeleteOrganizationPayload{ID: orgID}))
					}
					cascades++
					c.Nontrivial(fmt.Sprintf("cascade|%d|%d|%v|%s", nRoles, mask, extra, parent))
				}
			}
		}
	}
	c.Count("directed_rbac_cascades", int64(cascades))
	c.Floor(100)
}
