package main

import (
	"bytes"
	"encoding/json"
	"fmt"
	"io"
	"math/rand/v2"
	"sort"
	"time"

	hraft "github.com/hashicorp/raft"
	"github.com/rs/zerolog"

	araft "github.com/basekick-labs/arc/internal/cluster/raft"
)

// Cmd is one committed command as the generator produced it.
type Cmd struct {
	Type    araft.CommandType `json:"type"`
	Desc    string            `json:"desc"`
	Payload json.RawMessage   `json:"payload"`
	Raw     []byte            `json:"raw,omitempty"` // if set, used verbatim as log data (malformed commands)
}

func (c Cmd) logData() []byte {
	if c.Raw != nil {
		return c.Raw
	}
	b, _ := json.Marshal(araft.Command{Type: c.Type, Payload: []byte(c.Payload)})
	return b
}

func mk(t araft.CommandType, desc string, payload any) Cmd {
	b, err := json.Marshal(payload)
	if err != nil {
		panic(err)
	}
	return Cmd{Type: t, Desc: desc, Payload: b}
}

// memSink is an in-memory raft.SnapshotSink.
type memSink struct{ bytes.Buffer }

func (m *memSink) ID() string    { return "verif" }
func (m *memSink) Cancel() error { return nil }
func (m *memSink) Close() error  { return nil }

func newFSM() *araft.ClusterFSM { return araft.NewClusterFSM(zerolog.Nop()) }

func apply(f *araft.ClusterFSM, idx uint64, c Cmd) (res string) {
	defer func() {
		if r := recover(); r != nil {
			res = fmt.Sprintf("PANIC: %v", r)
		}
	}()
	r := f.Apply(&hraft.Log{Index: idx, Term: 1, Type: hraft.LogCommand, Data: c.logData()})
	if r == nil {
		return ""
	}
	if e, ok := r.(error); ok {
		return "ERR: " + e.Error()
	}
	return fmt.Sprintf("RES: %v", r)
}

func snapshotBytes(f *araft.ClusterFSM) ([]byte, error) {
	s, err := f.Snapshot()
	if err != nil {
		return nil, err
	}
	var sink memSink
	if err := s.Persist(&sink); err != nil {
		return nil, err
	}
	s.Release()
	return sink.Bytes(), nil
}

func restoreFrom(b []byte) (*araft.ClusterFSM, error) {
	f := newFSM()
	if err := f.Restore(io.NopCloser(bytes.NewReader(b))); err != nil {
		return nil, err
	}
	return f, nil
}

// canonical dump: JSON with sorted map keys (encoding/json does that), sorted id
// slices in tokens_by_prefix, index sections canonicalised (entries with an empty
// inner container dropped: they answer every lookup like an absent entry);
// keys_cache is a lazily built cache, checked against the file keys only.
func dump(f *araft.ClusterFSM) (map[string]any, string) {
	var m map[string]any
	if err := json.Unmarshal(f.VerifDump(), &m); err != nil {
		panic(err)
	}
	if tp, ok := m["tokens_by_prefix"].(map[string]any); ok {
		for k, v := range tp {
			if arr, ok := v.([]any); ok {
				sort.Slice(arr, func(i, j int) bool { return arr[i].(float64) < arr[j].(float64) })
				tp[k] = arr
			}
		}
	}
	cmp := map[string]any{}
	for k, v := range m {
		switch k {
		case "keys_cache":
		case "files_by_db", "roles_by_team", "measurement_perms_by_role", "token_memberships_by_token", "token_memberships_by_team":
			cmp[k] = setIndexCanon(v)
		case "tokens_by_prefix", "tokens_by_name", "organizations_by_name", "teams_by_org", "token_memberships_by_pair":
			cmp[k] = canonIndex(v)
		default:
			if v == nil {
				v = map[string]any{}
			}
			cmp[k] = v
		}
	}
	b, _ := json.Marshal(cmp)
	return m, string(b)
}

// ---------- random command generator over a small universe ----------

type gen struct {
	rng      *rand.Rand
	idx      uint64 // next log index
	tokens   []int64
	orgs     []int64
	teams    []int64
	roles    []int64
	mperms   []int64
	nodeIDs  []string
	paths    []string
	dbs      []string
	badPaths []string
}

func newGen(rng *rand.Rand) *gen {
	return &gen{rng: rng, idx: 1,
		nodeIDs: []string{"n1", "n2", "n3", "n4"},
		paths: []string{"db1/cpu/2026/04/11/14/a.parquet", "db1/cpu/2026/04/11/15/b.parquet", "db1/mem/2026/04/11/14/c.parquet",
			"db2/cpu/2026/04/11/14/d.parquet", "db2/cpu/2026/04/11/14/e.parquet", "db2/disk/2026/01/01/00/f.parquet"},
		dbs:      []string{"db1", "db2", ""},
		badPaths: []string{"", "/etc/passwd", "../x.parquet", "db1/../../x", "s3://bucket/x", "a\x00b", "C:\\x", "db1/..\\x"},
	}
}

func pick[T any](r *rand.Rand, xs []T) T { return xs[r.IntN(len(xs))] }

func (g *gen) id(pool []int64) int64 {
	if len(pool) == 0 || g.rng.IntN(6) == 0 {
		return int64(g.rng.IntN(int(g.idx) + 3)) // possibly non-existent / wrong kind / 0
	}
	return pick(g.rng, pool)
}

var t0 = time.Date(2026, 4, 11, 14, 0, 0, 0, time.UTC)

func (g *gen) file(path string) araft.FileEntry {
	db := pick(g.rng, g.dbs)
	if g.rng.IntN(3) > 0 && len(path) > 3 {
		db = path[:3]
	}
	created := t0.Add(time.Duration(g.rng.IntN(1000)) * time.Second)
	if g.rng.IntN(12) == 0 {
		created = time.Time{}
	}
	return araft.FileEntry{Path: path, SHA256: fmt.Sprintf("%064x", g.rng.Uint64()), SizeBytes: int64(g.rng.IntN(1 << 20)),
		Database: db, Measurement: "cpu", PartitionTime: t0, OriginNodeID: pick(g.rng, g.nodeIDs), Tier: "hot", CreatedAt: created}
}

func (g *gen) path() string {
	if g.rng.IntN(8) == 0 {
		return pick(g.rng, g.badPaths)
	}
	return pick(g.rng, g.paths)
}

func (g *gen) node(id string) araft.NodeInfo {
	roles := []string{"writer", "writer", "reader", "compactor"}
	ws := ""
	if g.rng.IntN(5) == 0 {
		ws = pick(g.rng, []string{"primary", "standby"})
	}
	return araft.NodeInfo{ID: id, Name: "node-" + id, Role: pick(g.rng, roles), ClusterName: "c", Address: id + ":9100",
		APIAddress: id + ":8000", State: "healthy", Version: "v", WriterState: ws, CoreCount: 1 + g.rng.IntN(8)}
}

func (g *gen) fileOp() Cmd {
	switch g.rng.IntN(3) {
	case 0:
		return mk(araft.CommandRegisterFile, "register", araft.RegisterFilePayload{File: g.file(g.path())})
	case 1:
		return mk(araft.CommandUpdateFile, "update", araft.UpdateFilePayload{File: g.file(g.path())})
	default:
		return mk(araft.CommandDeleteFile, "delete", araft.DeleteFilePayload{Path: g.path(), Reason: "compaction"})
	}
}

var names = []string{"alpha", "beta", "alpha", "gamma", ""}
var perms = []string{"read", "read,write", "admin", "", "read, write", "bogus", "delete"}
var pats = []string{"*", "db1", "prod_*", "cpu", ""}

// next returns the next command; class selects the family: "node", "file", "token", "rbac", "any".
func (g *gen) next(class string) Cmd {
	r := g.rng
	if class == "any" {
		class = pick(r, []string{"node", "file", "file", "token", "rbac", "rbac", "junk"})
		if r.IntN(25) != 0 && class == "junk" {
			class = "rbac"
		}
	}
	idx := g.idx
	g.idx++
	now := int64(1700000000000000000) + int64(idx)
	maybe0 := func(v int64) int64 {
		if r.IntN(15) == 0 {
			return 0
		}
		return v
	}
	switch class {
	case "junk":
		switch r.IntN(4) {
		case 0:
			return Cmd{Desc: "not-json", Raw: []byte("{nope")}
		case 1:
			return Cmd{Type: 200, Desc: "unknown-type", Payload: json.RawMessage(`{}`)}
		case 2:
			return Cmd{Type: araft.CommandType(1 + r.IntN(29)), Desc: "bad-payload", Payload: json.RawMessage(`"x"`)}
		default:
			return Cmd{Type: araft.CommandType(1 + r.IntN(29)), Desc: "empty-object-payload", Payload: json.RawMessage(`{}`)}
		}
	case "node":
		id := pick(r, g.nodeIDs)
		switch r.IntN(8) {
		case 0, 1:
			return mk(araft.CommandAddNode, "add "+id, araft.AddNodePayload{Node: g.node(id)})
		case 2:
			return mk(araft.CommandRemoveNode, "remove "+id, araft.RemoveNodePayload{NodeID: id})
		case 3:
			return mk(araft.CommandUpdateNode, "update "+id, araft.UpdateNodePayload{Node: g.node(id)})
		case 4:
			return mk(araft.CommandUpdateNodeState, "state "+id, araft.UpdateNodeStatePayload{NodeID: id, NewState: pick(r, []string{"healthy", "unhealthy", "dead"})})
		case 5:
			return mk(araft.CommandPromoteWriter, "promote "+id, araft.PromoteWriterPayload{NodeID: id, OldPrimaryID: pick(r, append([]string{""}, g.nodeIDs...))})
		case 6:
			return mk(araft.CommandDemoteWriter, "demote "+id, araft.DemoteWriterPayload{NodeID: id})
		default:
			return mk(araft.CommandAssignCompactor, "compactor "+id, araft.AssignCompactorPayload{NodeID: id})
		}
	case "file":
		if r.IntN(3) == 0 {
			n := 1 + r.IntN(4)
			ops := make([]araft.BatchFileOp, n)
			desc := "batch["
			for i := range ops {
				c := g.fileOp()
				t := c.Type
				if r.IntN(20) == 0 {
					t = araft.CommandAddNode
				}
				pl := []byte(c.Payload)
				if r.IntN(25) == 0 {
					pl = []byte(`"zzz"`)
				}
				ops[i] = araft.BatchFileOp{Type: t, Payload: pl}
				desc += c.Desc + " "
			}
			return mk(araft.CommandBatchFileOps, desc+"]", araft.BatchFileOpsPayload{Ops: ops})
		}
		return g.fileOp()
	case "token":
		switch r.IntN(7) {
		case 0, 1, 2:
			g.tokens = append(g.tokens, int64(idx))
			return mk(araft.CommandCreateToken, "create-token", araft.CreateTokenPayload{Token: araft.TokenEntry{
				Name: pick(r, []string{"tokA", "tokB", "tokA", "tokC", ""}), Permissions: pick(r, perms), TokenHash: fmt.Sprintf("hash%d", idx),
				TokenPrefix: pick(r, []string{"pfx1", "pfx2", "pfx1", ""}), CreatedAtUnixNano: maybe0(now), Enabled: true}})
		case 3:
			return mk(araft.CommandUpdateToken, "update-token", araft.UpdateTokenPayload{ID: g.id(g.tokens), Name: pick(r, []string{"tokA", "tokB", "tokD", ""}),
				Permissions: pick(r, perms), ExpiresAtUnixNano: now, ChangedFields: pick(r, [][]string{{"name"}, {"permissions"}, {"name", "permissions"}, {"expires_at"}, {"description"}, {}, {"bogus"}})})
		case 4:
			return mk(araft.CommandRevokeToken, "revoke-token", araft.RevokeTokenPayload{ID: g.id(g.tokens)})
		case 5:
			return mk(araft.CommandDeleteToken, "delete-token", araft.DeleteTokenPayload{ID: g.id(g.tokens)})
		default:
			return mk(araft.CommandRotateToken, "rotate-token", araft.RotateTokenPayload{ID: g.id(g.tokens), NewHash: fmt.Sprintf("rot%d", idx), NewPrefix: pick(r, []string{"pfx1", "pfx3", ""})})
		}
	default: // rbac
		switch r.IntN(15) {
		case 0, 1:
			g.orgs = append(g.orgs, int64(idx))
			return mk(araft.CommandCreateOrganization, "create-org", araft.CreateOrganizationPayload{Organization: araft.OrganizationEntry{Name: pick(r, names), CreatedAtUnixNano: maybe0(now)}})
		case 2:
			return mk(araft.CommandUpdateOrganization, "update-org", araft.UpdateOrganizationPayload{ID: g.id(g.orgs), Name: pick(r, names), Enabled: r.IntN(2) == 0, UpdatedAtUnixNano: now,
				ChangedFields: pick(r, [][]string{{"name"}, {"enabled"}, {"name", "enabled"}, {"description"}, {}})})
		case 3:
			return mk(araft.CommandDeleteOrganization, "delete-org", araft.DeleteOrganizationPayload{ID: g.id(g.orgs)})
		case 4, 5:
			g.teams = append(g.teams, int64(idx))
			return mk(araft.CommandCreateTeam, "create-team", araft.CreateTeamPayload{Team: araft.TeamEntry{OrganizationID: g.id(g.orgs), Name: pick(r, names), CreatedAtUnixNano: maybe0(now)}})
		case 6:
			return mk(araft.CommandUpdateTeam, "update-team", araft.UpdateTeamPayload{ID: g.id(g.teams), Name: pick(r, names), Enabled: r.IntN(2) == 0, UpdatedAtUnixNano: now,
				ChangedFields: pick(r, [][]string{{"name"}, {"enabled"}, {"name", "enabled"}, {}})})
		case 7:
			return mk(araft.CommandDeleteTeam, "delete-team", araft.DeleteTeamPayload{ID: g.id(g.teams)})
		case 8, 9:
			g.roles = append(g.roles, int64(idx))
			return mk(araft.CommandCreateRole, "create-role", araft.CreateRolePayload{Role: araft.RoleEntry{TeamID: g.id(g.teams), DatabasePattern: pick(r, pats), Permissions: pick(r, perms), CreatedAtUnixNano: maybe0(now)}})
		case 10:
			return mk(araft.CommandUpdateRole, "update-role", araft.UpdateRolePayload{ID: g.id(g.roles), DatabasePattern: pick(r, pats), Permissions: pick(r, perms),
				ChangedFields: pick(r, [][]string{{"database_pattern"}, {"permissions"}, {"database_pattern", "permissions"}, {}})})
		case 11:
			return mk(araft.CommandDeleteRole, "delete-role", araft.DeleteRolePayload{ID: g.id(g.roles)})
		case 12:
			g.mperms = append(g.mperms, int64(idx))
			return mk(araft.CommandCreateMeasurementPermission, "create-mperm", araft.CreateMeasurementPermissionPayload{MeasurementPermission: araft.MeasurementPermissionEntry{RoleID: g.id(g.roles), MeasurementPattern: pick(r, pats), Permissions: pick(r, perms), CreatedAtUnixNano: maybe0(now)}})
		case 13:
			if r.IntN(2) == 0 {
				return mk(araft.CommandDeleteMeasurementPermission, "delete-mperm", araft.DeleteMeasurementPermissionPayload{ID: g.id(g.mperms)})
			}
			return mk(araft.CommandRemoveTokenFromTeam, "remove-member", araft.RemoveTokenFromTeamPayload{TokenID: g.id(g.tokens), TeamID: g.id(g.teams)})
		default:
			return mk(araft.CommandAddTokenToTeam, "add-member", araft.AddTokenToTeamPayload{Membership: araft.TokenMembershipEntry{TokenID: g.id(g.tokens), TeamID: g.id(g.teams), CreatedAtUnixNano: maybe0(now)}})
		}
	}
}
