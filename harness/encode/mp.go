package main

// A small, strict MessagePack decoder written for this harness (independent of the
// Basekick-Labs/msgpack library whose Encoder primitives arc's response encoder
// uses). It decodes exactly one value and reports trailing bytes, truncated
// input, reserved bytes (0xc1), invalid UTF-8 in str, and duplicate map keys.

import (
	"encoding/binary"
	"fmt"
	"math"
	"unicode/utf8"
)

type mpExt struct {
	Type int8
	Data []byte
}

// mpTime is the decoded timestamp extension (type -1).
type mpTime struct {
	Sec  int64
	Nsec int64
}

type mpKV struct {
	K any
	V any
}

type mpMap []mpKV

func (m mpMap) get(k string) (any, bool) {
	for _, e := range m {
		if s, ok := e.K.(string); ok && s == k {
			return e.V, true
		}
	}
	return nil, false
}

type mpDecoder struct {
	b   []byte
	pos int
	// cells decoded (for evidence)
	values int64
}

func (d *mpDecoder) need(n int) error {
	if n < 0 || d.pos+n > len(d.b) {
		return fmt.Errorf("truncated msgpack at offset %d (need %d bytes, have %d)", d.pos, n, len(d.b)-d.pos)
	}
	return nil
}

func (d *mpDecoder) take(n int) ([]byte, error) {
	if err := d.need(n); err != nil {
		return nil, err
	}
	s := d.b[d.pos : d.pos+n]
	d.pos += n
	return s, nil
}

func (d *mpDecoder) uintN(n int) (uint64, error) {
	s, err := d.take(n)
	if err != nil {
		return 0, err
	}
	switch n {
	case 1:
		return uint64(s[0]), nil
	case 2:
		return uint64(binary.BigEndian.Uint16(s)), nil
	case 4:
		return uint64(binary.BigEndian.Uint32(s)), nil
	}
	return binary.BigEndian.Uint64(s), nil
}

func (d *mpDecoder) str(n int) (any, error) {
	s, err := d.take(n)
	if err != nil {
		return nil, err
	}
	if !utf8.Valid(s) {
		return nil, fmt.Errorf("msgpack str at offset %d is not valid UTF-8", d.pos-n)
	}
	return string(s), nil
}

func (d *mpDecoder) array(n int) (any, error) {
	if n > len(d.b)-d.pos {
		return nil, fmt.Errorf("msgpack array length %d exceeds remaining input", n)
	}
	out := make([]any, n)
	for i := 0; i < n; i++ {
		v, err := d.decode()
		if err != nil {
			return nil, err
		}
		out[i] = v
	}
	return out, nil
}

func (d *mpDecoder) mapN(n int) (any, error) {
	if n > len(d.b)-d.pos {
		return nil, fmt.Errorf("msgpack map length %d exceeds remaining input", n)
	}
	out := make(mpMap, 0, n)
	seen := map[string]bool{}
	for i := 0; i < n; i++ {
		k, err := d.decode()
		if err != nil {
			return nil, err
		}
		if ks, ok := k.(string); ok {
			if seen[ks] {
				return nil, fmt.Errorf("duplicate msgpack map key %q", ks)
			}
			seen[ks] = true
		}
		v, err := d.decode()
		if err != nil {
			return nil, err
		}
		out = append(out, mpKV{k, v})
	}
	return out, nil
}

func (d *mpDecoder) ext(n int) (any, error) {
	t, err := d.take(1)
	if err != nil {
		return nil, err
	}
	data, err := d.take(n)
	if err != nil {
		return nil, err
	}
	typ := int8(t[0])
	if typ != -1 {
		return mpExt{Type: typ, Data: append([]byte(nil), data...)}, nil
	}
	switch n {
	case 4:
		return mpTime{Sec: int64(binary.BigEndian.Uint32(data))}, nil
	case 8:
		v := binary.BigEndian.Uint64(data)
		ns := int64(v >> 34)
		if ns > 999999999 {
			return nil, fmt.Errorf("msgpack timestamp64 nanoseconds %d out of range", ns)
		}
		return mpTime{Sec: int64(v & 0x3ffffffff), Nsec: ns}, nil
	case 12:
		ns := int64(binary.BigEndian.Uint32(data[:4]))
		if ns > 999999999 {
			return nil, fmt.Errorf("msgpack timestamp96 nanoseconds %d out of range", ns)
		}
		return mpTime{Sec: int64(binary.BigEndian.Uint64(data[4:])), Nsec: ns}, nil
	}
	return nil, fmt.Errorf("msgpack timestamp ext with invalid length %d", n)
}

func (d *mpDecoder) decode() (any, error) {
	if err := d.need(1); err != nil {
		return nil, err
	}
	c := d.b[d.pos]
	d.pos++
	d.values++
	switch {
	case c <= 0x7f:
		return int64(c), nil
	case c >= 0xe0:
		return int64(int8(c)), nil
	case c >= 0xa0 && c <= 0xbf:
		return d.str(int(c & 0x1f))
	case c >= 0x90 && c <= 0x9f:
		return d.array(int(c & 0x0f))
	case c >= 0x80 && c <= 0x8f:
		return d.mapN(int(c & 0x0f))
	}
	switch c {
	case 0xc0:
		return nil, nil
	case 0xc2:
		return false, nil
	case 0xc3:
		return true, nil
	case 0xc4, 0xc5, 0xc6:
		n, err := d.uintN(1 << (c - 0xc4))
		if err != nil {
			return nil, err
		}
		s, err := d.take(int(n))
		if err != nil {
			return nil, err
		}
		return append([]byte{}, s...), nil
	case 0xc7, 0xc8, 0xc9:
		n, err := d.uintN(1 << (c - 0xc7))
		if err != nil {
			return nil, err
		}
		return d.ext(int(n))
	case 0xca:
		v, err := d.uintN(4)
		if err != nil {
			return nil, err
		}
		return math.Float32frombits(uint32(v)), nil
	case 0xcb:
		v, err := d.uintN(8)
		if err != nil {
			return nil, err
		}
		return math.Float64frombits(v), nil
	case 0xcc, 0xcd, 0xce, 0xcf:
		v, err := d.uintN(1 << (c - 0xcc))
		if err != nil {
			return nil, err
		}
		return v, nil
	case 0xd0:
		v, err := d.uintN(1)
		return int64(int8(v)), err
	case 0xd1:
		v, err := d.uintN(2)
		return int64(int16(v)), err
	case 0xd2:
		v, err := d.uintN(4)
		return int64(int32(v)), err
	case 0xd3:
		v, err := d.uintN(8)
		return int64(v), err
	case 0xd4, 0xd5, 0xd6, 0xd7, 0xd8:
		return d.ext(1 << (c - 0xd4))
	case 0xd9, 0xda, 0xdb:
		n, err := d.uintN(1 << (c - 0xd9))
		if err != nil {
			return nil, err
		}
		return d.str(int(n))
	case 0xdc, 0xdd:
		n, err := d.uintN(2 << (c - 0xdc))
		if err != nil {
			return nil, err
		}
		return d.array(int(n))
	case 0xde, 0xdf:
		n, err := d.uintN(2 << (c - 0xde))
		if err != nil {
			return nil, err
		}
		return d.mapN(int(n))
	}
	return nil, fmt.Errorf("reserved msgpack byte 0x%02x at offset %d", c, d.pos-1)
}

// mpDecodeDocument decodes b as exactly one msgpack value.
func mpDecodeDocument(b []byte) (any, int64, error) {
	d := &mpDecoder{b: b}
	v, err := d.decode()
	if err != nil {
		return nil, d.values, err
	}
	if d.pos != len(b) {
		return nil, d.values, fmt.Errorf("%d trailing bytes after the msgpack document", len(b)-d.pos)
	}
	return v, d.values, nil
}
