package main

// Result-set generator: table-free SELECTs whose columns are built from value pools
// (see types.go), in two shapes:
//   range : SELECT <expr(i)> AS <name>, ... FROM range(lo, hi) r(i) ORDER BY i
//   values: SELECT * FROM (VALUES (k, cell, ...), ...) t(names) ORDER BY 1
// The same column expressions are used to build the reference query, which also
// projects DuckDB's own text form of every column.

import (
	"fmt"
	"math/big"
	"math/rand/v2"
	"strings"
)

type column struct {
	Name  string   `json:"name"`
	T     *typ     `json:"-"`
	Class string   `json:"type"`
	Role  string   `json:"role"`
	Expr  string   `json:"expr,omitempty"`  // range shape, in terms of i
	Cells []string `json:"cells,omitempty"` // values shape, one expression per row
}

type qcase struct {
	ID    int      `json:"id"`
	Shape string   `json:"shape"`
	Lo    int      `json:"lo"`
	Hi    int      `json:"hi"` // rows = Hi-Lo (range) or len(Cells) (values)
	Cols  []column `json:"columns"`
	// ArrowHdr: extra request headers for the second Arrow request (dictionary /
	// compression variants); nil = no variant request.
	ArrowHdr map[string]string `json:"arrow_variant_headers,omitempty"`
	// Limit > 0: additionally run through the governed handler with this row cap.
	Limit int `json:"governance_row_limit,omitempty"`
}

func (q *qcase) rows() int {
	if q.Shape == "values" {
		if len(q.Cols) == 0 {
			return 0
		}
		return len(q.Cols[0].Cells)
	}
	return q.Hi - q.Lo
}

// sql returns the statement sent to arc.
func (q *qcase) sql() string {
	var b strings.Builder
	if q.Shape == "values" {
		b.WriteString("SELECT * FROM (VALUES ")
		for r := 0; r < q.rows(); r++ {
			if r > 0 {
				b.WriteString(", ")
			}
			b.WriteString("(")
			for c := range q.Cols {
				if c > 0 {
					b.WriteString(", ")
				}
				b.WriteString(q.Cols[c].Cells[r])
			}
			b.WriteString(")")
		}
		b.WriteString(") t(")
		for c := range q.Cols {
			if c > 0 {
				b.WriteString(", ")
			}
			b.WriteString(quoteIdent(q.Cols[c].Name))
		}
		b.WriteString(") ORDER BY 1")
		return b.String()
	}
	b.WriteString("SELECT ")
	for c := range q.Cols {
		if c > 0 {
			b.WriteString(", ")
		}
		b.WriteString(q.Cols[c].Expr + " AS " + quoteIdent(q.Cols[c].Name))
	}
	fmt.Fprintf(&b, " FROM range(%d, %d) r(i) ORDER BY i", q.Lo, q.Hi)
	return b.String()
}

// refSQL returns the reference statement: every column typed and as DuckDB text.
func (q *qcase) refSQL() string {
	var b strings.Builder
	if q.Shape == "values" {
		b.WriteString("SELECT ")
		for c := range q.Cols {
			if c > 0 {
				b.WriteString(", ")
			}
			fmt.Fprintf(&b, "#%d, CAST(#%d AS VARCHAR)", c+1, c+1)
		}
		s := q.sql()
		b.WriteString(" FROM (" + strings.TrimSuffix(s, " ORDER BY 1") + ") zz ORDER BY 1")
		return b.String()
	}
	b.WriteString("SELECT ")
	for c := range q.Cols {
		if c > 0 {
			b.WriteString(", ")
		}
		b.WriteString(q.Cols[c].Expr + ", CAST(" + q.Cols[c].Expr + " AS VARCHAR)")
	}
	fmt.Fprintf(&b, " FROM range(%d, %d) r(i) ORDER BY i", q.Lo, q.Hi)
	return b.String()
}

// sub returns the case restricted to the given columns and row window [lo,hi)
// (row indexes relative to the case), used for shrinking.
func (q *qcase) sub(cols []int, lo, hi int) *qcase {
	n := &qcase{ID: q.ID, Shape: q.Shape, ArrowHdr: q.ArrowHdr}
	for _, c := range cols {
		col := q.Cols[c]
		if q.Shape == "values" {
			col.Cells = append([]string(nil), col.Cells[lo:hi]...)
		}
		n.Cols = append(n.Cols, col)
	}
	if q.Shape == "range" {
		n.Lo, n.Hi = q.Lo+lo, q.Lo+hi
	}
	return n
}

var oddNames = []string{"a", "a", "A", `we"ird`, "a b", "Ünï", `back\slash`, "tab\tname", "😀", "select", "from", `quo'te`,
	"nl\nname", "x.y", "[b]", "{c}", "日本", "null", "1", "-", " lead", "trail ", strings.Repeat("long_", 30), "ct\x01l", " "}

func pickType(r *rand.Rand, cat []typeChoice, total int) *typ {
	x := r.IntN(total)
	for _, c := range cat {
		if x < c.W {
			return c.T
		}
		x -= c.W
	}
	return cat[0].T
}

func coprimeStep(r *rand.Rand, m int) int {
	for {
		a := 1 + r.IntN(m+3)
		g, b := a, m
		for b != 0 {
			g, b = b, g%b
		}
		if g == 1 {
			return a
		}
	}
}

// poolColumn builds a range-shape column cycling through a pool of m elements.
func poolColumn(r *rand.Rand, t *typ, m int, wide bool) string {
	// positional NULL placement: NULLs confined to a row range whose ends sit around the
	// Arrow batch boundaries (2048 rows), so that whole batches are NULL-free while
	// others are not (the first batch without a NULL, a later one with, and vice versa)
	positional := r.IntN(4) == 0
	denseElems := positional && r.IntN(2) == 0
	el := make([]string, m)
	nonNull := false
	for k := range el {
		if !denseElems && r.IntN(6) == 0 {
			el[k] = "CAST(NULL AS " + poolElemType(t) + ")"
		} else {
			el[k] = elemSQL(r, t, wide, 0)
			nonNull = true
		}
	}
	if !nonNull && m > 0 {
		el[0] = elemSQL(r, t, wide, 0)
	}
	a := coprimeStep(r, m)
	e := fmt.Sprintf("([%s])[1 + ((i * %d + %d) %% %d)]", strings.Join(el, ", "), a, r.IntN(m), m)
	if t.FromText {
		e = "CAST(" + e + " AS " + t.SQL + ")"
	}
	if !denseElems && r.IntN(3) == 0 {
		p := []int{2, 3, 5, 7, 11, 13}[r.IntN(6)]
		e = fmt.Sprintf("CASE WHEN i %% %d = %d THEN NULL ELSE %s END", p, r.IntN(p), e)
	}
	if positional {
		at := []int{1, 1000, 2047, 2048, 2049, 4096, 6000}[r.IntN(7)]
		var cond string
		switch r.IntN(3) {
		case 0:
			cond = fmt.Sprintf("i >= %d", at)
		case 1:
			cond = fmt.Sprintf("i < %d", at)
		default:
			cond = fmt.Sprintf("i >= %d AND i < %d", at, at+1+r.IntN(3000))
		}
		if r.IntN(2) == 0 {
			cond += fmt.Sprintf(" AND i %% %d = 0", 2+r.IntN(5))
		}
		e = "CASE WHEN " + cond + " THEN NULL ELSE " + e + " END"
	}
	return e
}

var rangeSizesSmall = []int{0, 0, 1, 1, 2, 3, 5, 17, 100, 255, 256, 257, 999, 1000, 1001}
var rangeSizesBoundary = []int{2047, 2048, 2049, 2047, 2048, 2049, 4095, 4096, 4097, 6143, 6144, 6145}
var rangeSizesLarge = []int{10000, 10001, 12288, 12289, 9999}

func pickRows(r *rand.Rand) int {
	switch x := r.IntN(100); {
	case x < 46:
		return rangeSizesSmall[r.IntN(len(rangeSizesSmall))]
	case x < 78:
		return rangeSizesBoundary[r.IntN(len(rangeSizesBoundary))]
	case x < 92:
		return 2050 + r.IntN(7950)
	default:
		return rangeSizesLarge[r.IntN(len(rangeSizesLarge))]
	}
}

func isHazard(t *typ) bool {
	return (t.K == kInt && t.Bits == 128) || (t.K == kDecimal && t.Scale == 0 && t.Prec > 18)
}

func genCase(r *rand.Rand, id int, cat []typeChoice, total int) *qcase {
	q := &qcase{ID: id}
	ncols := 1 + r.IntN(6)
	names := map[int]string{}
	if r.IntN(3) == 0 { // odd / duplicate column names
		for c := 0; c <= ncols; c++ {
			if r.IntN(2) == 0 {
				names[c] = oddNames[r.IntN(len(oddNames))]
			}
		}
	}
	name := func(c int, def string) string {
		if n, ok := names[c]; ok {
			return n
		}
		return def
	}
	if r.IntN(6) == 0 {
		// VALUES shape, few rows, every cell an explicit typed literal
		q.Shape = "values"
		rows := 1 + r.IntN(10)
		id := column{Name: name(0, "k"), T: tInt32, Class: tInt32.Class, Role: "id"}
		for k := 0; k < rows; k++ {
			id.Cells = append(id.Cells, fmt.Sprintf("CAST(%d AS INTEGER)", k))
		}
		q.Cols = append(q.Cols, id)
		for c := 1; c <= ncols; c++ {
			t := pickType(r, cat, total)
			wide := isHazard(t) && r.IntN(4) == 0
			col := column{Name: name(c, fmt.Sprintf("c%d", c)), T: t, Class: t.Class, Role: "literal"}
			for k := 0; k < rows; k++ {
				if r.IntN(6) == 0 {
					col.Cells = append(col.Cells, "CAST(NULL AS "+t.SQL+")")
					continue
				}
				e := elemSQL(r, t, wide, 0)
				if t.FromText {
					e = "CAST(" + e + " AS " + t.SQL + ")"
				}
				col.Cells = append(col.Cells, e)
			}
			q.Cols = append(q.Cols, col)
		}
		for len(q.sql()) > 9500 && len(q.Cols) > 2 {
			q.Cols = q.Cols[:len(q.Cols)-1]
		}
		return q
	}
	q.Shape = "range"
	q.Lo, q.Hi = 0, pickRows(r)
	if q.Hi > 2500 && ncols > 3 { // keep the cell count per result set bounded
		ncols = 1 + r.IntN(3)
	}
	q.Cols = append(q.Cols, column{Name: name(0, "id"), T: tInt64, Class: "BIGINT", Role: "id", Expr: "i"})
	for c := 1; c <= ncols; c++ {
		var col column
		switch x := r.IntN(100); {
		case x < 6:
			col = column{T: tVarchar, Role: "unique-string", Expr: "('r' || i || " + sqlString(randString(r)) + ")"}
		case x < 10:
			col = column{T: intType(64, true), Role: "hash", Expr: fmt.Sprintf("hash(i + %d)", r.IntN(1000))}
		case x < 13:
			col = column{T: tInt64, Role: "hash", Expr: fmt.Sprintf("CAST(hash(i + %d) >> 1 AS BIGINT) - 4611686018427387904", r.IntN(1000))}
		case x < 16:
			col = column{T: tDouble, Role: "hash", Expr: fmt.Sprintf("CAST(hash(i + %d) %% 2000003 AS DOUBLE) / 7.0", r.IntN(1000))}
		case x < 19:
			t := pickType(r, cat, total)
			if r.IntN(3) == 0 {
				col = column{T: tInt32, Role: "null-only", Expr: "NULL"}
			} else {
				col = column{T: t, Role: "null-only", Expr: "CAST(NULL AS " + t.SQL + ")"}
			}
		default:
			t := pickType(r, cat, total)
			m := 3 + r.IntN(18)
			wide := isHazard(t) && r.IntN(4) == 0
			col = column{T: t, Role: "pool", Expr: poolColumn(r, t, m, wide)}
			for len(col.Expr) > 3000 && m > 2 {
				m = m / 2
				col.Expr = poolColumn(r, t, m, wide)
			}
		}
		col.Name = name(c, fmt.Sprintf("c%d", c))
		col.Class = col.T.Class
		q.Cols = append(q.Cols, col)
	}
	for len(q.sql()) > 9500 && len(q.Cols) > 2 {
		q.Cols = q.Cols[:len(q.Cols)-1]
	}
	// second Arrow request with opt-in stream encodings
	switch r.IntN(6) {
	case 0:
		q.ArrowHdr = map[string]string{"x-arc-arrow-dictionary": "true"}
	case 1:
		q.ArrowHdr = map[string]string{"x-arc-arrow-dictionary": "true", "x-arc-arrow-compression": "zstd"}
	case 2:
		q.ArrowHdr = map[string]string{"x-arc-arrow-compression": "lz4"}
	}
	// governance row limit on a subset
	if r.IntN(5) == 0 {
		n := q.rows()
		opts := []int{1, 2, 999, 1000, 1001, 2047, 2048, 2049, 4096, n - 1, n, n + 1}
		if n > 2 {
			opts = append(opts, 1+r.IntN(n), 1+r.IntN(n))
		}
		k := opts[r.IntN(len(opts))]
		if k < 1 {
			k = 1
		}
		q.Limit = k
	}
	return q
}

// ---------- deterministic sweep ----------

// specialGroups returns, per type, groups of non-NULL pool element expressions that
// do not depend on VERIF_SEED: every type's extreme and awkward values are visited
// at every seed (so a defect on such a value has the same signature at every seed).
// Values that make arc fail a whole MessagePack/Arrow response are kept in groups of
// their own so that they do not hide the others.
func specialGroups(t *typ, fixed *rand.Rand) [][]string {
	lit := func(vals ...string) []string {
		out := make([]string, len(vals))
		for i, v := range vals {
			out[i] = textLit(v)
		}
		return out
	}
	switch t.K {
	case kInt:
		lo, hi := intRange(t)
		one := big.NewInt(1)
		if t.Bits < 128 {
			g := []string{lo.String(), new(big.Int).Add(lo, one).String(), "0", "1", new(big.Int).Sub(hi, one).String(), hi.String()}
			if !t.Unsigned {
				g = append(g, "-1")
			}
			return [][]string{lit(g...)}
		}
		if t.Unsigned {
			return [][]string{
				lit("0", "1", "4611686018427387904", "123456789012345678"),
				lit("9223372036854775807", "9223372036854775296"),
				lit("9223372036854775808", "18446744073709551616", "99999999999999999999999999999999999999"),
				lit("100000000000000000000000000000000000000", "170141183460469231731687303715884105727", "170141183460469231731687303715884105728"),
				lit("340282366920938463463374607431768211455", "340282366920938463463374607431768211454", "340282366920938463458763061396953104384"),
			}
		}
		return [][]string{
			lit("-4611686018427387904", "-1", "0", "1", "4611686018427387904", "123456789012345678"),
			lit("9223372036854775807", "-9223372036854775808", "9223372036854775296"),
			lit("9223372036854775808", "-9223372036854775809", "18446744073709551616", "99999999999999999999999999999999999999", "-99999999999999999999999999999999999999"),
			lit("100000000000000000000000000000000000000", "-100000000000000000000000000000000000000", hi.String(), lo.String()),
		}
	case kDecimal:
		nines := func(n int) string { return strings.Repeat("9", n) }
		place := func(u string) string { // unscaled digits -> decimal text
			neg := strings.HasPrefix(u, "-")
			u = strings.TrimPrefix(u, "-")
			for len(u) <= t.Scale {
				u = "0" + u
			}
			s := u
			if t.Scale > 0 {
				s = u[:len(u)-t.Scale] + "." + u[len(u)-t.Scale:]
			}
			if neg {
				s = "-" + s
			}
			return s
		}
		if t.Scale == 0 {
			small := nines(min(t.Prec, 18))
			g := [][]string{lit("0", "1", "-1", small, "-"+small, "42")}
			if t.Prec > 18 {
				g = append(g, lit("9223372036854775807", "-9223372036854775808"),
					lit("9223372036854775808", "-9223372036854775809", nines(t.Prec), "-"+nines(t.Prec)))
			}
			return g
		}
		g := []string{place("0"), place("1"), place("-1"), place(nines(t.Prec)), place("-" + nines(t.Prec)),
			place("15" + strings.Repeat("0", max(t.Scale-1, 0))), place("828"), place("123456789012345"[:min(15, t.Prec)])}
		if t.Prec > 17 {
			g = append(g, place("12345678901234567"), place("-"+nines(17)))
		}
		return [][]string{lit(g...)}
	case kFloat:
		if t.F32 {
			return [][]string{lit(floatSpecials...)}
		}
		return [][]string{lit(doubleSpecials...)}
	case kString:
		var g []string
		for _, s := range stringSpecials {
			g = append(g, sqlString(s))
		}
		return [][]string{g}
	case kBlob:
		var g []string
		for _, h := range blobSpecials {
			g = append(g, "from_hex('"+h+"')")
		}
		return [][]string{g}
	case kDate:
		return [][]string{lit(dateSpecials...)}
	case kBool:
		return [][]string{lit("true", "false")}
	case kEnum:
		return [][]string{lit(t.Enum...)}
	case kUUID:
		return [][]string{lit("00000000-0000-0000-0000-000000000000", "ffffffff-ffff-ffff-ffff-ffffffffffff",
			"7fffffff-ffff-ffff-ffff-ffffffffffff", "80000000-0000-0000-0000-000000000000", "123e4567-e89b-12d3-a456-426614174000")}
	case kTime:
		return [][]string{lit("00:00:00", "23:59:59.999999", "12:34:56.789012", "00:00:00.000001", "01:02:03")}
	case kTimeTZ:
		return [][]string{lit("00:00:00+00", "12:34:56.789012+00", "23:59:59.999999+00"), lit("12:34:56+02", "00:00:00-08:30", "23:59:59.999999+05:45")}
	case kInterval:
		return [][]string{lit("0 microseconds", "1 microsecond", "-1 microsecond", "1 year 2 months 3 days 04:05:06.789",
			"-14 months 3 days -5000000 microseconds", "200000 months", "-2000000 days", "4000000000000000 microseconds", "1 month -1 day")}
	case kTimestamp:
		frac := map[string]string{"s": "", "ms": ".999", "us": ".999999", "ns": ".999999999"}[t.Unit]
		g := []string{"1970-01-01 00:00:00", "1969-12-31 23:59:59" + frac, "2038-01-19 03:14:08" + frac, "2024-02-29 12:34:56" + frac, "2000-01-01 00:00:00"}
		if t.Unit == "ns" {
			g = append(g, "1677-09-22 00:00:00", "2262-04-11 23:47:16.854775806", "1677-09-22 00:00:00.000000001")
		} else {
			g = append(g, "0001-01-01 00:00:00", "9999-12-31 23:59:59"+frac, "10000-01-01 00:00:00", "290000-06-15 12:00:00",
				"0044-03-15 (BC) 12:00:00", "1582-10-15 00:00:00", "1677-09-21 00:12:43")
		}
		if t.TZ {
			for i := range g {
				g[i] += []string{"+00", "+05:30", "-08"}[i%3]
			}
		}
		return [][]string{lit(g...)}
	}
	// nested types: fixed-seed random elements
	g := make([]string, 14)
	for i := range g {
		g[i] = elemSQL(fixed, t, false, 0)
	}
	return [][]string{g}
}

func sweepCases(cat []typeChoice, firstID int) []*qcase {
	fixed := rand.New(rand.NewPCG(0xC19, 0x5eed))
	var out []*qcase
	for _, tc := range cat {
		t := tc.T
		for gi, g := range specialGroups(t, fixed) {
			pool := append(append([]string(nil), g...), "CAST(NULL AS "+poolElemType(t)+")")
			for len(strings.Join(pool, ", ")) > 8500 && len(pool) > 2 {
				pool = pool[:len(pool)-1]
			}
			m := len(pool)
			e := fmt.Sprintf("([%s])[1 + (i %% %d)]", strings.Join(pool, ", "), m)
			if t.FromText {
				e = "CAST(" + e + " AS " + t.SQL + ")"
			}
			q := &qcase{ID: firstID + len(out), Shape: "range", Lo: 0, Hi: 2*m + 1}
			q.Cols = []column{{Name: "id", T: tInt64, Class: "BIGINT", Role: "id", Expr: "i"},
				{Name: fmt.Sprintf("s%d", gi), T: t, Class: t.Class, Role: "specials", Expr: e}}
			if gi == 0 {
				q.Limit = m // governance: cap inside the result
			}
			out = append(out, q)
		}
	}
	return out
}
