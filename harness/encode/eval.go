package main

// Evaluation of one result set: reference run, the three (four) arc responses,
// type-directed comparison. No verdict is taken here; findings are returned.

import (
	"bytes"
	"encoding/json"
	"fmt"
	"math"
	"math/big"
	"regexp"
	"sort"
	"strconv"
	"strings"
	"unicode/utf8"

	"github.com/apache/arrow-go/v18/arrow/ipc"

	"github.com/basekick-labs/arc/internal/zzverif/vfix"
)

type refResult struct {
	Names   []string
	DBTypes []string
	Canon   [][]string
	Text    [][]*string
}

func (r *refResult) rows() int { return len(r.Canon) }

func textOf(p *string) string {
	if p == nil {
		return "NULL"
	}
	return *p
}

// runRef executes the exact statement (column names, types) and the reference
// statement (typed + text projection of every column) on the reference engine.
func runRef(ref *vfix.Ref, q *qcase) (*refResult, error) {
	rr := &refResult{}
	rows, err := ref.DB.Query(q.sql())
	if err != nil {
		return nil, err
	}
	rr.Names, _ = rows.Columns()
	cts, _ := rows.ColumnTypes()
	for _, ct := range cts {
		rr.DBTypes = append(rr.DBTypes, ct.DatabaseTypeName())
	}
	plain := 0
	for rows.Next() {
		plain++
	}
	if err := rows.Err(); err != nil {
		rows.Close()
		return nil, err
	}
	rows.Close()
	if len(rr.Names) != len(q.Cols) {
		return nil, fmt.Errorf("harness: reference returns %d columns, generator has %d", len(rr.Names), len(q.Cols))
	}
	rows, err = ref.DB.Query(q.refSQL())
	if err != nil {
		return nil, fmt.Errorf("reference projection: %w", err)
	}
	defer rows.Close()
	nc := len(q.Cols)
	for rows.Next() {
		vals := make([]any, 2*nc)
		ptrs := make([]any, 2*nc)
		for i := range vals {
			ptrs[i] = &vals[i]
		}
		if err := rows.Scan(ptrs...); err != nil {
			return nil, fmt.Errorf("reference scan: %w", err)
		}
		cr := make([]string, nc)
		tr := make([]*string, nc)
		for c := 0; c < nc; c++ {
			switch tv := vals[2*c+1].(type) {
			case nil:
			case string:
				s := tv
				tr[c] = &s
			case []byte:
				s := string(tv)
				tr[c] = &s
			default:
				return nil, fmt.Errorf("reference text projection scanned as %T", tv)
			}
			s, err := canonRef(q.Cols[c].T, vals[2*c], tr[c])
			if err != nil {
				return nil, fmt.Errorf("column %d (%s) row %d: %w", c, q.Cols[c].Class, len(rr.Canon), err)
			}
			cr[c] = s
		}
		rr.Canon = append(rr.Canon, cr)
		rr.Text = append(rr.Text, tr)
	}
	if err := rows.Err(); err != nil {
		return nil, err
	}
	if plain != len(rr.Canon) {
		return nil, fmt.Errorf("harness: reference row counts differ between the exact and the projected statement (%d vs %d)", plain, len(rr.Canon))
	}
	return rr, nil
}

type finding struct {
	Format string `json:"format"`
	Scope  string `json:"scope"` // cell | request | types
	Col    int    `json:"column"`
	Row    int    `json:"row"`
	Kind   string `json:"kind"`
	Got    string `json:"got_canonical,omitempty"`
	Want   string `json:"expected_canonical,omitempty"`
	Raw    string `json:"got_raw,omitempty"`
	Msg    string `json:"message,omitempty"`
}

type formatStats struct {
	Cells     int64
	NullCells int64
	BadCells  int64
	Batches   int
	Trailer   bool // Arrow: Arc-Execution-Time-Ms trailer present and numeric
}

type evalResult struct {
	Ref       *refResult
	RefErr    error
	Rejected  bool // arc's validator refused the statement on every endpoint
	Findings  []finding
	Stats     map[string]*formatStats
	RawCell   map[string]string // format -> raw rendering of the probe cell
	ProbeRow  int
	ProbeCol  int
	Status    map[string]int
	Decoded   map[string]bool
	LimitRows map[string][]string // governance: rendered rows per format
}

type requester func(path, sqlText string, hdr map[string]string) (int, []byte, map[string][]string)

var digitsRe = regexp.MustCompile(`\d+`)

func normErr(s string) string {
	if i := strings.Index(s, "\n"); i >= 0 {
		s = s[:i]
	}
	s = digitsRe.ReplaceAllString(s, "N")
	if len(s) > 140 {
		s = s[:140]
	}
	return s
}

func hdrGet(h map[string][]string, k string) string {
	for kk, v := range h {
		if strings.EqualFold(kk, k) && len(v) > 0 {
			return v[0]
		}
	}
	return ""
}

func rawStr(v any) string {
	var s string
	switch x := v.(type) {
	case nil:
		s = "null"
	case string:
		s = fmt.Sprintf("string %q", x)
	case []byte:
		s = fmt.Sprintf("bin %x", x)
	case json.Number:
		s = "number " + x.String()
	case float64:
		s = fmt.Sprintf("float64 %v (bits %016x)", x, math.Float64bits(x))
	case float32:
		s = fmt.Sprintf("float32 %v (bits %08x)", x, math.Float32bits(x))
	case mpTime:
		s = fmt.Sprintf("timestamp-ext sec=%d nsec=%d", x.Sec, x.Nsec)
	default:
		s = fmt.Sprintf("%T %v", v, v)
	}
	if len(s) > 400 {
		s = s[:400] + "..."
	}
	return s
}

// compareCells applies the oracle to one column.
func compareCells(format string, q *qcase, rr *refResult, c int, n int, cell func(r int) (string, string, error), st *formatStats, out *[]finding) {
	t := q.Cols[c].T
	reported := false
	for r := 0; r < n; r++ {
		ref := rr.Canon[r][c]
		var wants []string
		if format == "json" {
			wants = []string{expectJSON(t, ref)}
		} else {
			wants = expectBinary(t, ref)
		}
		got, raw, err := cell(r)
		st.Cells++
		if ref == cNull {
			st.NullCells++
		}
		ok := err == nil
		if ok {
			ok = false
			for _, w := range wants {
				if got == w {
					ok = true
				}
			}
			if !ok && t.K == kTimeTZ && strings.HasPrefix(ref, "z:") {
				// local time with offset zero is fully described by the time alone
				var us, off int64
				fmt.Sscanf(ref, "z:%d@%d", &us, &off)
				ok = off == 0 && got == fmt.Sprintf("t:%d", us)
			}
		}
		if ok {
			continue
		}
		st.BadCells++
		if reported {
			continue
		}
		reported = true
		f := finding{Format: format, Scope: "cell", Col: c, Row: r, Got: got, Want: wants[0], Raw: raw}
		switch {
		case err == nil && t.K == kDecimal && t.Scale > 0 && ulpDistance(got, wants[0]) <= 2:
			f.Kind = kindDecimalUlp
		case err != nil:
			f.Kind = "cell is not in a representation the value can be recovered from"
			f.Msg = err.Error()
		case got == cNull:
			f.Kind = "null where DuckDB has a value"
		case wants[0] == cNull:
			f.Kind = "value where DuckDB has NULL"
		default:
			f.Kind = "value differs"
		}
		*out = append(*out, f)
	}
}

const kindDecimalUlp = "float64 is not the double nearest to the decimal value (off by 1-2 ulp)"

// ulpDistance between two canonical finite floats; a large number otherwise.
func ulpDistance(a, b string) uint64 {
	var x, y uint64
	if n, _ := fmt.Sscanf(a, "F:%016x", &x); n != 1 {
		return math.MaxUint64
	}
	if n, _ := fmt.Sscanf(b, "F:%016x", &y); n != 1 {
		return math.MaxUint64
	}
	if x>>63 != y>>63 {
		return math.MaxUint64
	}
	if x > y {
		return x - y
	}
	return y - x
}

func reqFinding(format, kind, msg string) finding {
	return finding{Format: format, Scope: "request", Col: -1, Row: -1, Kind: kind, Msg: msg}
}

func sameNames(a, b []string) bool {
	if len(a) != len(b) {
		return false
	}
	for i := range a {
		if a[i] != b[i] {
			return false
		}
	}
	return true
}

// evalJSON checks the /api/v1/query response. rows returns rendered rows (for the
// governance comparison).
func evalJSON(do requester, q *qcase, rr *refResult, hdr map[string]string, limit int, res *evalResult) {
	const format = "json"
	st := &formatStats{}
	res.Stats[format] = st
	code, body, h := do("/api/v1/query", q.sql(), hdr)
	res.Status[format] = code
	add := func(f finding) { res.Findings = append(res.Findings, f) }
	if code != 200 {
		var e struct {
			Error string `json:"error"`
		}
		_ = json.Unmarshal(body, &e)
		add(reqFinding(format, fmt.Sprintf("request fails with HTTP %d (%s)", code, normErr(e.Error)), e.Error))
		return
	}
	if ct := hdrGet(h, "Content-Type"); !strings.HasPrefix(ct, "application/json") {
		add(reqFinding(format, "Content-Type is not application/json", ct))
	}
	if !utf8.Valid(body) {
		add(reqFinding(format, "document is not valid UTF-8 (RFC 8259 section 8.1)", ""))
	}
	d, err := decodeJSONDoc(body)
	if err != nil {
		add(reqFinding(format, "document is not well-formed JSON", err.Error()))
		return
	}
	if d.Success == nil || !*d.Success {
		add(reqFinding(format, "success flag missing or false on HTTP 200", d.Error))
		return
	}
	res.Decoded[format] = true
	want := rr.rows()
	if limit > 0 && limit < want {
		want = limit
	}
	if !sameNames(d.Columns, rr.Names) {
		add(reqFinding(format, "column names differ", fmt.Sprintf("got %q want %q", d.Columns, rr.Names)))
		if len(d.Columns) != len(rr.Names) {
			return
		}
	}
	if d.RowCount == nil || int(*d.RowCount) != len(d.Data) {
		add(reqFinding(format, "row_count field disagrees with the data array", fmt.Sprintf("row_count=%v rows=%d", d.RowCount, len(d.Data))))
	}
	if len(d.Data) != want {
		add(reqFinding(format, rowCountKind(len(d.Data), want), fmt.Sprintf("got %d rows, DuckDB %d", len(d.Data), want)))
	}
	n := len(d.Data)
	if n > want {
		n = want
	}
	for r := 0; r < len(d.Data); r++ {
		if len(d.Data[r]) != len(rr.Names) {
			add(reqFinding(format, "row with wrong number of cells", fmt.Sprintf("row %d has %d cells", r, len(d.Data[r]))))
			return
		}
	}
	for c := range q.Cols {
		t := q.Cols[c].T
		compareCells(format, q, rr, c, n, func(r int) (string, string, error) {
			v := d.Data[r][c]
			s, err := canonJSONCell(t, v)
			return s, rawStr(v), err
		}, st, &res.Findings)
	}
	if res.ProbeRow < len(d.Data) && res.ProbeCol < len(rr.Names) {
		res.RawCell[format] = rawStr(d.Data[res.ProbeRow][res.ProbeCol])
	}
	if limit > 0 {
		for _, row := range d.Data {
			parts := make([]string, len(row))
			for i, v := range row {
				parts[i] = rawStr(v)
			}
			res.LimitRows[format] = append(res.LimitRows[format], strings.Join(parts, " | "))
		}
	}
}

func rowCountKind(got, want int) string {
	if got < want {
		return "fewer rows than DuckDB produced"
	}
	return "more rows than DuckDB produced"
}

func evalMsgpack(do requester, q *qcase, rr *refResult, hdr map[string]string, limit int, res *evalResult) {
	const format = "msgpack"
	st := &formatStats{}
	res.Stats[format] = st
	code, body, h := do("/api/v1/query/msgpack", q.sql(), hdr)
	res.Status[format] = code
	add := func(f finding) { res.Findings = append(res.Findings, f) }
	doc, _, err := mpDecodeDocument(body)
	if code != 200 {
		msg := ""
		if m, ok := doc.(mpMap); ok {
			if e, ok := m.get("error"); ok {
				msg, _ = e.(string)
			}
		}
		add(reqFinding(format, fmt.Sprintf("request fails with HTTP %d (%s)", code, normErr(msg)), msg))
		return
	}
	if ct := hdrGet(h, "Content-Type"); !strings.HasPrefix(ct, "application/msgpack") {
		add(reqFinding(format, "Content-Type is not application/msgpack", ct))
	}
	if err != nil {
		add(reqFinding(format, "document is not well-formed MessagePack", err.Error()))
		return
	}
	m, ok := doc.(mpMap)
	if !ok {
		add(reqFinding(format, "document is not a MessagePack map", fmt.Sprintf("%T", doc)))
		return
	}
	if s, _ := m.get("success"); s != true {
		add(reqFinding(format, "success flag missing or false on HTTP 200", ""))
		return
	}
	strs := func(key string) ([]string, bool) {
		v, ok := m.get(key)
		l, ok2 := v.([]any)
		if !ok || !ok2 {
			return nil, false
		}
		out := make([]string, len(l))
		for i, e := range l {
			s, ok := e.(string)
			if !ok {
				return nil, false
			}
			out[i] = s
		}
		return out, true
	}
	cols, ok1 := strs("columns")
	types, ok2 := strs("types")
	dv, _ := m.get("data")
	data, ok3 := dv.([]any)
	var rowCount int64 = -1
	switch x := func() any { v, _ := m.get("row_count"); return v }().(type) {
	case int64:
		rowCount = x
	case uint64:
		rowCount = int64(x)
	}
	if !ok1 || !ok2 || !ok3 || rowCount < 0 {
		add(reqFinding(format, "envelope lacks columns/types/data/row_count in the documented shape", ""))
		return
	}
	res.Decoded[format] = true
	want := rr.rows()
	if limit > 0 && limit < want {
		want = limit
	}
	if !sameNames(cols, rr.Names) {
		add(reqFinding(format, "column names differ", fmt.Sprintf("got %q want %q", cols, rr.Names)))
	}
	if len(cols) != len(rr.Names) || len(types) != len(cols) || len(data) != len(cols) {
		add(reqFinding(format, "columns/types/data arrays have inconsistent lengths", fmt.Sprintf("%d/%d/%d, DuckDB %d", len(cols), len(types), len(data), len(rr.Names))))
		return
	}
	colv := make([][]any, len(data))
	for c := range data {
		l, ok := data[c].([]any)
		if !ok {
			add(reqFinding(format, "data entry is not an array", ""))
			return
		}
		if int64(len(l)) != rowCount {
			add(reqFinding(format, "row_count field disagrees with a column array length", fmt.Sprintf("column %d has %d values, row_count %d", c, len(l), rowCount)))
			return
		}
		colv[c] = l
	}
	if int(rowCount) != want {
		add(reqFinding(format, rowCountKind(int(rowCount), want), fmt.Sprintf("got %d rows, DuckDB %d", rowCount, want)))
	}
	n := int(rowCount)
	if n > want {
		n = want
	}
	for c := range q.Cols {
		t := q.Cols[c].T
		// documented "types" contract
		wn, prefix := wireTypeName(t)
		if (prefix && !strings.HasPrefix(types[c], wn)) || (!prefix && types[c] != wn) {
			res.Findings = append(res.Findings, finding{Format: format, Scope: "types", Col: c, Row: -1,
				Kind: fmt.Sprintf("types[] entry is %q, documented wire type %q", clip(types[c], 80), wn)})
		}
		for r := 0; r < n; r++ {
			if v := colv[c][r]; v != nil && !mpKindOK(types[c], v) {
				res.Findings = append(res.Findings, finding{Format: format, Scope: "types", Col: c, Row: r,
					Kind: fmt.Sprintf("types[] entry %q disagrees with the value kind on the wire", clip(types[c], 80)), Raw: rawStr(v)})
				break
			}
		}
		compareCells(format, q, rr, c, n, func(r int) (string, string, error) {
			v := colv[c][r]
			s, err := canonMPCell(t, v)
			return s, rawStr(v), err
		}, st, &res.Findings)
	}
	if res.ProbeCol < len(colv) && res.ProbeRow < len(colv[res.ProbeCol]) {
		res.RawCell[format] = rawStr(colv[res.ProbeCol][res.ProbeRow])
	}
	if limit > 0 {
		for r := 0; r < int(rowCount); r++ {
			parts := make([]string, len(colv))
			for c := range colv {
				parts[c] = rawStr(colv[c][r])
			}
			res.LimitRows[format] = append(res.LimitRows[format], strings.Join(parts, " | "))
		}
	}
}

func arrowFormatName(hdr map[string]string) string {
	if len(hdr) == 0 {
		return "arrow"
	}
	var p []string
	if hdr["x-arc-arrow-dictionary"] != "" {
		p = append(p, "dictionary")
	}
	if c := hdr["x-arc-arrow-compression"]; c != "" {
		p = append(p, c)
	}
	sort.Strings(p)
	return "arrow(" + strings.Join(p, ",") + ")"
}

func evalArrow(do requester, q *qcase, rr *refResult, hdr map[string]string, res *evalResult) {
	format := arrowFormatName(hdr)
	st := &formatStats{}
	res.Stats[format] = st
	code, body, h := do("/api/v1/query/arrow", q.sql(), hdr)
	res.Status[format] = code
	add := func(f finding) { res.Findings = append(res.Findings, f) }
	if code != 200 {
		var e struct {
			Error string `json:"error"`
		}
		_ = json.Unmarshal(body, &e)
		if code < 0 {
			e.Error = "transport: " + string(body)
		}
		add(reqFinding(format, fmt.Sprintf("request fails with HTTP %d (%s)", code, normErr(e.Error)), e.Error))
		return
	}
	if ct := hdrGet(h, "Content-Type"); ct != "application/vnd.apache.arrow.stream" {
		add(reqFinding(format, "Content-Type is not application/vnd.apache.arrow.stream", ct))
	}
	if v := hdrGet(h, "Trailer-Arc-Execution-Time-Ms"); v != "" {
		if _, err := strconv.Atoi(v); err == nil {
			st.Trailer = true
		}
	}
	rd, err := ipc.NewReader(bytes.NewReader(body))
	if err != nil {
		add(reqFinding(format, "body is not a well-formed Arrow IPC stream", err.Error()))
		return
	}
	defer rd.Release()
	sch := rd.Schema()
	names := make([]string, sch.NumFields())
	for i := range names {
		names[i] = sch.Field(i).Name
	}
	res.Decoded[format] = true
	if !sameNames(names, rr.Names) {
		add(reqFinding(format, "column names differ", fmt.Sprintf("got %q want %q", names, rr.Names)))
		if len(names) != len(rr.Names) {
			return
		}
	}
	want := rr.rows()
	base := 0
	perCol := make([][]finding, len(q.Cols))
	for rd.Next() {
		rec := rd.Record()
		st.Batches++
		nr := int(rec.NumRows())
		n := nr
		if base+n > want {
			n = want - base
			if n < 0 {
				n = 0
			}
		}
		for c := range q.Cols {
			t := q.Cols[c].T
			arr := rec.Column(c)
			b := base
			var fs []finding
			sub := &refResult{Canon: rr.Canon[min(b, len(rr.Canon)):], Text: nil}
			compareCells(format, q, sub, c, n, func(r int) (string, string, error) {
				s, err := canonArrowCell(t, arr, r)
				raw := arr.DataType().String() + " " + clip(arr.ValueStr(r), 300)
				return s, raw, err
			}, st, &fs)
			for i := range fs {
				fs[i].Row += b
			}
			if len(perCol[c]) == 0 {
				perCol[c] = fs
			}
			if c == res.ProbeCol && res.ProbeRow >= b && res.ProbeRow < b+nr {
				res.RawCell[format] = arr.DataType().String() + " " + clip(arr.ValueStr(res.ProbeRow-b), 300)
			}
		}
		base += nr
	}
	for c := range perCol {
		res.Findings = append(res.Findings, perCol[c]...)
	}
	if err := rd.Err(); err != nil {
		add(reqFinding(format, "Arrow IPC stream breaks off / is malformed after the schema", err.Error()))
	}
	if base != want {
		add(reqFinding(format, rowCountKind(base, want), fmt.Sprintf("got %d rows in %d batches, DuckDB %d", base, st.Batches, want)))
	}
}

// evaluate runs the reference and the requested formats ("json","msgpack","arrow","variant").
func newEvalResult() *evalResult {
	return &evalResult{Stats: map[string]*formatStats{}, RawCell: map[string]string{}, Status: map[string]int{},
		Decoded: map[string]bool{}, LimitRows: map[string][]string{}}
}

func evaluate(do requester, ref *vfix.Ref, q *qcase, formats map[string]bool, probeRow, probeCol int) *evalResult {
	res := newEvalResult()
	res.ProbeRow, res.ProbeCol = probeRow, probeCol
	rr, err := runRef(ref, q)
	if err != nil {
		res.RefErr = err
		return res
	}
	res.Ref = rr
	if formats["json"] {
		evalJSON(do, q, rr, nil, 0, res)
	}
	if formats["msgpack"] {
		evalMsgpack(do, q, rr, nil, 0, res)
	}
	if formats["arrow"] {
		evalArrow(do, q, rr, nil, res)
	}
	if formats["variant"] && q.ArrowHdr != nil {
		n0 := len(res.Findings)
		evalArrow(do, q, rr, q.ArrowHdr, res)
		// a variant finding identical to one of the plain Arrow request is the same defect
		kept := res.Findings[:n0]
		for _, f := range res.Findings[n0:] {
			dup := false
			for _, g := range res.Findings[:n0] {
				if g.Format == "arrow" && g.Scope == f.Scope && g.Col == f.Col && g.Kind == f.Kind && g.Got == f.Got {
					dup = true
				}
			}
			if !dup {
				kept = append(kept, f)
			}
		}
		res.Findings = kept
	}
	// a statement refused by arc's request validator never reaches an encoder
	all4xx := len(res.Status) > 0
	for _, code := range res.Status {
		if code != 400 {
			all4xx = false
		}
	}
	if all4xx {
		res.Rejected = true
		res.Findings = nil
	}
	return res
}

// ---------- value classes (signature qualifiers) ----------

func valueClass(t *typ, canon string, text *string) string {
	if canon == cNull {
		return ""
	}
	switch t.K {
	case kInt:
		if t.Bits < 128 {
			return ""
		}
		z, _ := new(big.Int).SetString(strings.TrimPrefix(canon, "I:"), 10)
		if z == nil {
			return ""
		}
		abs := new(big.Int).Abs(z)
		e38 := new(big.Int).Exp(big.NewInt(10), big.NewInt(38), nil)
		switch {
		case z.IsInt64():
			return " within the int64 range"
		case t.Unsigned && z.BitLen() > 127:
			return " above 2^127"
		case abs.Cmp(e38) >= 0:
			return " with magnitude >= 1e38"
		default:
			return " beyond the int64 range"
		}
	case kDecimal:
		r, ok := new(big.Rat).SetString(strings.TrimPrefix(canon, "D:"))
		if !ok {
			return ""
		}
		if t.Scale == 0 {
			if r.Num().IsInt64() {
				return " within the int64 range"
			}
			return " beyond the int64 range"
		}
		digits := len(strings.TrimLeft(strings.NewReplacer("-", "", ".", "").Replace(textOf(text)), "0"))
		if digits <= 15 {
			return " with at most 15 significant digits"
		}
		return " with more than 15 significant digits"
	case kFloat:
		switch {
		case canon == "F:NaN":
			return " NaN"
		case canon == cFloat(math.Inf(1)) || canon == cFloat(math.Inf(-1)):
			return " infinity"
		case canon == cFloat(math.Copysign(0, -1)):
			return " negative zero"
		}
		return " finite"
	case kBlob:
		if validUTF8Hex(strings.TrimPrefix(canon, "X:")) {
			return " whose bytes are valid UTF-8"
		}
		return " with bytes that are not valid UTF-8"
	case kString:
		s := textOf(text)
		hasCtl, hasQ, nonASCII := false, false, false
		for _, r := range s {
			switch {
			case r < 0x20 || r == 0x7f:
				hasCtl = true
			case r == '"' || r == '\\':
				hasQ = true
			case r > 0x7f:
				nonASCII = true
			}
		}
		switch {
		case hasCtl:
			return " with control characters"
		case hasQ:
			return " with quotes or backslashes"
		case nonASCII:
			return " with non-ASCII text"
		}
		return ""
	case kTimeTZ:
		if strings.HasSuffix(canon, "@0") {
			return " with UTC offset zero"
		}
		return " with a non-zero UTC offset"
	case kDate, kTimestamp:
		s := textOf(text)
		if strings.Contains(s, "(BC)") {
			return " before year 1"
		}
		if i := strings.Index(s, "-"); i > 4 {
			return " after year 9999"
		}
		if strings.HasPrefix(canon, "T:-") || strings.HasPrefix(canon, "d:-") {
			return " before 1970"
		}
		return ""
	}
	return ""
}

func signature(q *qcase, rr *refResult, f finding) string {
	if f.Scope == "request" || f.Col < 0 {
		return f.Format + ": " + f.Kind
	}
	t := q.Cols[f.Col].T
	if f.Kind == kindDecimalUlp {
		return f.Format + ": DECIMAL with scale > 0: " + f.Kind
	}
	qual := ""
	if f.Row >= 0 && f.Row < rr.rows() {
		qual = valueClass(t, rr.Canon[f.Row][f.Col], rr.Text[f.Row][f.Col])
	}
	return f.Format + ": " + t.Class + qual + ": " + f.Kind
}
