package main

// Race-detector / checkptr sub-run: the plain binary executes the -race build of
// this harness on a reduced concurrent workload and classifies what it reports.

import (
	"encoding/json"
	"fmt"
	"os"
	"os/exec"
	"path/filepath"
	"regexp"
	"sort"
	"strings"
	"time"

	"github.com/basekick-labs/arc/internal/zzverif/vlib"
)

type raceChildOut struct {
	Cases    int   `json:"cases"`
	Sets     int   `json:"result_sets"`
	Cells    int64 `json:"cells"`
	Findings int   `json:"findings"`
	RefErrs  int   `json:"reference_errors"`
}

func raceChildMain() {
	var seed uint64 = 1
	fmt.Sscanf(os.Getenv("VERIF_SEED"), "%d", &seed)
	n := 48
	if os.Getenv("VERIF_TIER") == "thorough" {
		n = 160
	}
	e, err := newEnv(6)
	if err != nil {
		fmt.Println("RACECHILD-ERROR", err)
		os.Exit(3)
	}
	cases := buildCases(randFor(seed), n)
	outs := runCases(e, cases, 6, true)
	o := raceChildOut{Cases: n}
	for _, x := range outs {
		if x.skipped {
			continue
		}
		if x.res.RefErr != nil {
			o.RefErrs++
			continue
		}
		o.Sets++
		o.Findings += len(x.res.Findings)
		for _, st := range x.res.Stats {
			o.Cells += st.Cells
		}
	}
	e.close()
	b, _ := json.Marshal(o)
	fmt.Println("RACECHILD " + string(b))
}

var closureSuffix = regexp.MustCompile(`(\.func\d+|\.\d+|\.gowrap\d+)+$`)

var raceFrame = regexp.MustCompile(`^\s{2}(\S+)\(`)

// raceOnPath: frames of the query response path (handlers, encoders, DuckDB Arrow glue).
var raceOnPath = regexp.MustCompile(`arc/internal/api\.|arc/internal/database\.`)

func raceSubRun(c *vlib.Ctx) {
	bin := os.Getenv("VERIF_BIN_RACE")
	if bin == "" {
		c.Count("race_subrun_skipped", 1)
		return
	}
	if _, err := os.Stat(bin); err != nil {
		c.Count("race_subrun_skipped", 1)
		return
	}
	dir := vlib.TempDir("encrace")
	defer os.RemoveAll(dir)
	cmd := exec.Command(bin, "-prop", "C19", "-racechild")
	cmd.Env = append(os.Environ(), "GORACE=halt_on_error=0 log_path="+filepath.Join(dir, "race"))
	done := make(chan struct{})
	var outB []byte
	var err error
	go func() { outB, err = cmd.CombinedOutput(); close(done) }()
	select {
	case <-done:
	case <-time.After(25 * time.Minute):
		_ = cmd.Process.Kill()
		<-done
		c.Inconclusive("race sub-run exceeded 25 minutes")
		return
	}
	out := string(outB)
	if i := strings.Index(out, "fatal error: checkptr"); i >= 0 {
		txt := out[i:]
		if len(txt) > 5000 {
			txt = txt[:5000]
		}
		site := "unknown frame"
		for _, ln := range strings.Split(txt, "\n") {
			if strings.Contains(ln, "basekick-labs/arc/internal/") && !strings.Contains(ln, "zzverif") {
				site = strings.TrimSpace(strings.SplitN(ln, "(", 2)[0])
				break
			}
		}
		c.Violation("checkptr: invalid unsafe pointer conversion reached from "+site, map[string]any{"report": txt})
		return
	}
	var child raceChildOut
	got := false
	for _, line := range strings.Split(out, "\n") {
		if strings.HasPrefix(line, "RACECHILD ") {
			got = json.Unmarshal([]byte(strings.TrimPrefix(line, "RACECHILD ")), &child) == nil
		}
	}
	if !got {
		tail := out
		if len(tail) > 3000 {
			tail = tail[len(tail)-3000:]
		}
		if strings.Contains(out, "panic:") || strings.Contains(out, "fatal error:") {
			c.Violation("race build: process dies while serving query responses", map[string]any{"output_tail": tail, "err": fmt.Sprint(err)})
			return
		}
		c.Inconclusive(fmt.Sprintf("race sub-run produced no summary (err=%v) tail=%s", err, clip(tail, 400)))
		return
	}
	c.Count("race_subrun_result_sets", int64(child.Sets))
	c.Count("race_subrun_cells_compared", child.Cells)
	files, _ := filepath.Glob(filepath.Join(dir, "race*"))
	seen := map[string]string{}
	total := 0
	for _, f := range files {
		b, _ := os.ReadFile(f)
		for _, blk := range strings.Split(string(b), "==================") {
			if !strings.Contains(blk, "WARNING: DATA RACE") {
				continue
			}
			total++
			// one signature per racing arc call site: the first arc frame (function
			// and file:line) of the reporting access stack
			site := ""
			lines := strings.Split(blk, "\n")
			for i, ln := range lines {
				if !strings.Contains(ln, "basekick-labs/arc/internal/") || strings.Contains(ln, "zzverif/") {
					continue
				}
				fn := strings.TrimSpace(strings.SplitN(ln, "(", 2)[0])
				if m := raceFrame.FindStringSubmatch(ln); m != nil {
					fn = m[1]
				}
				fn = strings.ReplaceAll(fn, "github.com/basekick-labs/arc/internal/", "")
				fn = closureSuffix.ReplaceAllString(fn, "") // closures count as their enclosing function
				loc := ""
				if i+1 < len(lines) {
					loc = strings.TrimSpace(lines[i+1])
					if j := strings.Index(loc, " +0x"); j >= 0 {
						loc = loc[:j]
					}
					loc = strings.TrimPrefix(loc, os.Getenv("VERIF_REPO"))
					if k := strings.Index(loc, "/internal/"); k >= 0 {
						loc = loc[k+1:]
					}
				}
				if j := strings.LastIndex(loc, ":"); j >= 0 {
					loc = loc[:j] // file only: line numbers move with unrelated edits
				}
				site = fn + " (" + loc + ")"
				break
			}
			if site == "" {
				site = "no arc frame"
			}
			if _, ok := seen[site]; !ok {
				seen[site] = blk
			}
		}
	}
	c.Count("race_reports_total", int64(total))
	c.Count("race_reports_distinct", int64(len(seen)))
	keys := make([]string, 0, len(seen))
	for k := range seen {
		keys = append(keys, k)
	}
	sort.Strings(keys)
	c.Extra("race_reports", keys)
	for _, k := range keys {
		blk := seen[k]
		if !raceOnPath.MatchString(blk) {
			c.Count("race_reports_off_path", 1)
			continue
		}
		if strings.Contains(k, "zzverif/") && !raceOnPath.MatchString(k) {
			c.Count("race_reports_harness_only", 1)
			continue
		}
		if len(blk) > 6000 {
			blk = blk[:6000]
		}
		c.Violation("data race in the query response path: "+k, map[string]any{"report": blk})
	}
}
