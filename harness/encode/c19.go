package main

// C19: query responses faithfully encode DuckDB's results.

import (
	"bytes"
	"context"
	"database/sql"
	"encoding/json"
	"fmt"
	"io"
	"math/rand/v2"
	"net/http/httptest"
	"os"
	"path/filepath"
	"reflect"
	"runtime/debug"
	"sort"
	"strconv"
	"strings"
	"sync"
	"sync/atomic"
	"time"
	"unsafe"

	"github.com/gofiber/fiber/v2"
	_ "github.com/mattn/go-sqlite3"
	"github.com/rs/zerolog"

	"github.com/basekick-labs/arc/internal/api"
	"github.com/basekick-labs/arc/internal/auth"
	"github.com/basekick-labs/arc/internal/config"
	"github.com/basekick-labs/arc/internal/governance"
	"github.com/basekick-labs/arc/internal/license"
	"github.com/basekick-labs/arc/internal/zzverif/vfix"
	"github.com/basekick-labs/arc/internal/zzverif/vlib"
)

type env struct {
	node *vfix.Node
	refs chan *vfix.Ref
	all  []*vfix.Ref
	// governed handler (nil when it could not be built)
	govApp  *fiber.App
	govMgr  *governance.Manager
	govDB   *sql.DB
	govDir  string
	govMu   sync.Mutex
	govPols map[int]bool
	govErr  string

	transportRetries atomic.Int64
	timeouts         atomic.Int64
	wedged           atomic.Bool // two requests timed out: stop sending, the run is inconclusive
	transportMsgs    []string
	malformed        map[string]int
	malformedSamples map[string][]map[string]string
}

func newEnv(workers int) (*env, error) {
	n, err := vfix.NewNode(vfix.Options{WithQuery: true})
	if err != nil {
		return nil, err
	}
	e := &env{node: n, refs: make(chan *vfix.Ref, workers), govPols: map[int]bool{},
		malformed: map[string]int{}, malformedSamples: map[string][]map[string]string{}}
	for i := 0; i < workers; i++ {
		r, err := vfix.NewRef()
		if err != nil {
			return nil, err
		}
		if _, err := r.DB.Exec("SET TimeZone='UTC'"); err != nil {
			return nil, err
		}
		e.all = append(e.all, r)
		e.refs <- r
	}
	e.setupGovernance()
	// first request sequentially: fiber finishes its route tree on first use
	e.do("/api/v1/query", "SELECT 1", nil)
	if e.govApp != nil {
		e.doGov("/api/v1/query", "SELECT 1", map[string]string{"X-Verif-Token": "0"})
	}
	return e, nil
}

func (e *env) close() {
	for _, r := range e.all {
		r.Close()
	}
	if e.govApp != nil {
		_ = e.govApp.Shutdown()
	}
	if e.govDB != nil {
		e.govDB.Close()
	}
	if e.govDir != "" {
		os.RemoveAll(e.govDir)
	}
	e.node.Close()
}

// openLicenseGate returns a license client that allows query governance. The
// repository has no verif-tagged constructor for a network-free client yet, so the
// client's private license field is set through reflection (fixture setup only;
// the code under observation is the row cap in the response encoders).
func openLicenseGate() (lc *license.Client, err error) {
	defer func() {
		if r := recover(); r != nil {
			err = fmt.Errorf("license gate: %v", r)
		}
	}()
	lc = &license.Client{}
	f := reflect.ValueOf(lc).Elem().FieldByName("license")
	if !f.IsValid() {
		return nil, fmt.Errorf("license.Client has no field named license")
	}
	lic := &license.License{LicenseKey: "verif", CustomerID: "verif", Tier: "enterprise", Status: "active",
		Features: []string{license.FeatureQueryGovernance}, ExpiresAt: time.Date(2099, 1, 1, 0, 0, 0, 0, time.UTC)}
	reflect.NewAt(f.Type(), unsafe.Pointer(f.UnsafeAddr())).Elem().Set(reflect.ValueOf(lic))
	if !lc.CanUseQueryGovernance() {
		return nil, fmt.Errorf("license gate did not open")
	}
	return lc, nil
}

func (e *env) setupGovernance() {
	lc, err := openLicenseGate()
	if err != nil {
		e.govErr = err.Error()
		return
	}
	e.govDir = vlib.TempDir("encgov")
	db, err := sql.Open("sqlite3", filepath.Join(e.govDir, "gov.db"))
	if err != nil {
		e.govErr = err.Error()
		return
	}
	db.SetMaxOpenConns(1)
	e.govDB = db
	m, err := governance.NewManager(&governance.ManagerConfig{DB: db, Logger: zerolog.Nop(), Config: &config.GovernanceConfig{Enabled: true}})
	if err != nil {
		e.govErr = err.Error()
		return
	}
	e.govMgr = m
	qh := api.NewQueryHandler(e.node.DB, e.node.Backend, zerolog.Nop(), 0, 0)
	qh.SetGovernance(m, lc)
	app := fiber.New(fiber.Config{BodyLimit: 64 << 20, DisableStartupMessage: true})
	// stands in for the auth middleware: resolves the caller to a token
	app.Use(func(c *fiber.Ctx) error {
		id, err := strconv.ParseInt(c.Get("X-Verif-Token"), 10, 64)
		if err != nil {
			return c.SendStatus(fiber.StatusUnauthorized)
		}
		c.Locals("token_info", &auth.TokenInfo{ID: id, Name: "verif-" + c.Get("X-Verif-Token"), Enabled: true, Permissions: []string{"read"}})
		return c.Next()
	})
	qh.RegisterRoutes(app)
	e.govApp = app
}

func (e *env) ensurePolicy(limit int) error {
	e.govMu.Lock()
	defer e.govMu.Unlock()
	if e.govPols[limit] {
		return nil
	}
	_, err := e.govMgr.CreatePolicy(context.Background(), &governance.Policy{TokenID: int64(limit), TokenName: "limit", MaxRowsPerQuery: limit})
	if err == nil {
		e.govPols[limit] = true
	}
	return err
}

// do posts to the node. A response that cannot be read at all (status -1) is
// retried twice unless it was a timeout; see noteTransport for what is an
// observation and what is only counted.
func (e *env) do(path, sqlText string, hdr map[string]string) (code int, body []byte, h map[string][]string) {
	for try := 0; try < 3; try++ {
		code, body, h = e.post(e.node.App, path, sqlText, hdr)
		if code >= 0 || e.wedged.Load() {
			return
		}
	}
	return
}

const requestTimeoutMs = 60000

func (e *env) post(app *fiber.App, path, sqlText string, hdr map[string]string) (int, []byte, map[string][]string) {
	if e.wedged.Load() {
		return -1, []byte("skipped: arc stopped answering earlier in this run"), nil
	}
	body, _ := json.Marshal(map[string]string{"sql": sqlText})
	req := httptest.NewRequest("POST", path, bytes.NewReader(body))
	req.Header.Set("Content-Type", "application/json")
	for k, v := range hdr {
		req.Header.Set(k, v)
	}
	resp, err := app.Test(req, requestTimeoutMs)
	if err != nil {
		e.transportRetries.Add(1)
		e.noteTransport(path, sqlText, err.Error())
		if strings.Contains(err.Error(), "timeout") && e.timeouts.Add(1) >= 2 {
			e.wedged.Store(true)
		}
		return -1, []byte(err.Error()), nil
	}
	b, _ := io.ReadAll(resp.Body)
	for k, v := range resp.Trailer { // trailers are known only after the body was read
		resp.Header["Trailer-"+k] = v
	}
	return resp.StatusCode, b, resp.Header
}

func (e *env) doGov(path, sqlText string, hdr map[string]string) (code int, body []byte, h map[string][]string) {
	for try := 0; try < 3; try++ {
		code, body, h = e.post(e.govApp, path, sqlText, hdr)
		if code >= 0 || e.wedged.Load() {
			return
		}
	}
	return
}

var allFormats = map[string]bool{"json": true, "msgpack": true, "arrow": true, "variant": true}

func formatsFor(format string) map[string]bool {
	switch {
	case format == "json" || format == "msgpack" || format == "arrow":
		return map[string]bool{format: true}
	case strings.HasPrefix(format, "arrow("):
		return map[string]bool{"variant": true, "arrow": true}
	}
	return allFormats
}

func (e *env) eval(q *qcase, formats map[string]bool, pr, pc int) *evalResult {
	ref := <-e.refs
	defer func() { e.refs <- ref }()
	return evaluate(e.do, ref, q, formats, pr, pc)
}

// govFinding is a violation of the row-limit clause.
type govFinding struct {
	Format string   `json:"format"`
	Kind   string   `json:"kind"`
	Limit  int      `json:"limit"`
	Rows   int      `json:"rows_without_limit"`
	Got    int      `json:"rows_with_limit"`
	Row    int      `json:"first_differing_row"`
	A      string   `json:"row_with_limit,omitempty"`
	B      string   `json:"row_without_limit,omitempty"`
	Msg    string   `json:"message,omitempty"`
	Stat   [2]int   `json:"http_status_unlimited_limited"`
	Sample []string `json:"-"`
}

// evalGovernance sends the statement through the governed handler twice per
// format: with a token that has no policy (no cap) and with a token whose policy
// caps rows at q.Limit. The capped rows must be the first min(limit, rows) rows of
// the uncapped response, unaltered.
func (e *env) evalGovernance(q *qcase, rr *refResult) (out []govFinding, requests int) {
	if e.govApp == nil || q.Limit <= 0 {
		return nil, 0
	}
	if err := e.ensurePolicy(q.Limit); err != nil {
		return []govFinding{{Format: "harness", Kind: "policy creation failed", Msg: err.Error()}}, 0
	}
	type ev func(do requester, q *qcase, rr *refResult, hdr map[string]string, limit int, res *evalResult)
	for _, f := range []struct {
		name string
		fn   ev
	}{{"json", evalJSON}, {"msgpack", evalMsgpack}} {
		full, lim := newEvalResult(), newEvalResult()
		f.fn(e.doGov, q, rr, map[string]string{"X-Verif-Token": "0"}, 1<<30, full)
		f.fn(e.doGov, q, rr, map[string]string{"X-Verif-Token": strconv.Itoa(q.Limit)}, q.Limit, lim)
		requests += 2
		g := govFinding{Format: f.name, Limit: q.Limit, Rows: len(full.LimitRows[f.name]), Got: len(lim.LimitRows[f.name]), Row: -1,
			Stat: [2]int{full.Status[f.name], lim.Status[f.name]}}
		if !full.Decoded[f.name] {
			continue // the uncapped response itself fails: reported by the main evaluation
		}
		if !lim.Decoded[f.name] {
			g.Kind = "request fails only when a row limit applies"
			for _, x := range lim.Findings {
				if x.Scope == "request" {
					g.Msg = x.Kind + " " + x.Msg
					break
				}
			}
			out = append(out, g)
			continue
		}
		a, b := lim.LimitRows[f.name], full.LimitRows[f.name]
		want := len(b)
		if q.Limit < want {
			want = q.Limit
		}
		switch {
		case len(a) < want:
			g.Kind = "fewer rows than min(limit, rows)"
			out = append(out, g)
			continue
		case len(a) > want:
			g.Kind = "more rows than the limit allows"
			out = append(out, g)
			continue
		}
		for i := range a {
			if a[i] != b[i] {
				g.Kind, g.Row, g.A, g.B = "remaining rows differ from the unlimited response", i, clip(a[i], 600), clip(b[i], 600)
				out = append(out, g)
				break
			}
		}
	}
	return out, requests
}

// ---------- shrinking ----------

func matches(a, b finding) bool {
	return a.Format == b.Format && a.Scope == b.Scope && a.Kind == b.Kind
}

func findMatch(res *evalResult, f finding) (finding, bool) {
	if res == nil || res.RefErr != nil {
		return finding{}, false
	}
	for _, g := range res.Findings {
		if matches(g, f) {
			return g, true
		}
	}
	return finding{}, false
}

type shrunk struct {
	Case       *qcase
	Finding    finding
	Res        *evalResult
	Reproduced bool
	Evals      int
}

func (e *env) shrink(q *qcase, f finding) shrunk {
	fm := formatsFor(f.Format)
	out := shrunk{Case: q, Finding: f}
	try := func(m *qcase) (finding, *evalResult, bool) {
		out.Evals++
		r := e.eval(m, fm, 0, 0)
		g, ok := findMatch(r, f)
		return g, r, ok
	}
	rows := q.rows()
	if f.Col >= 0 {
		var cands []*qcase
		if f.Row >= 0 && f.Row < rows {
			cands = append(cands, q.sub([]int{f.Col}, f.Row, f.Row+1), q.sub([]int{f.Col}, 0, f.Row+1))
		} else if rows > 0 {
			cands = append(cands, q.sub([]int{f.Col}, 0, 1))
		}
		cands = append(cands, q.sub([]int{f.Col}, 0, rows))
		for _, m := range cands {
			if g, r, ok := try(m); ok {
				out.Case, out.Finding, out.Res, out.Reproduced = m, g, r, true
				return out
			}
		}
		return out
	}
	// request level: culprit column, then culprit row
	col := -1
	for c := range q.Cols {
		if _, _, ok := try(q.sub([]int{c}, 0, rows)); ok {
			col = c
			break
		}
	}
	if col < 0 {
		return out
	}
	lo, hi := 0, rows
	for hi-lo > 1 {
		mid := (lo + hi) / 2
		if _, _, ok := try(q.sub([]int{col}, lo, mid)); ok {
			hi = mid
		} else if _, _, ok := try(q.sub([]int{col}, mid, hi)); ok {
			lo = mid
		} else {
			break
		}
	}
	m := q.sub([]int{col}, lo, hi)
	if g, r, ok := try(m); ok {
		out.Case, out.Finding, out.Res, out.Reproduced = m, g, r, true
	}
	return out
}

// ---------- reporting ----------

type caseOutcome struct {
	skipped bool
	q       *qcase
	res     *evalResult
	gov     []govFinding
	gn      int
}

type reporter struct {
	c        *vlib.Ctx
	e        *env
	alias    map[string]string          // provisional signature -> reported signature
	known    map[string]map[string]bool // format|kind -> type classes known to cause it
	attrib   int
	shrinks  int
	maxShrnk int
}

func caseJSON(q *qcase) map[string]any {
	return map[string]any{"id": q.ID, "shape": q.Shape, "lo": q.Lo, "hi": q.Hi, "columns": q.Cols,
		"arrow_variant_headers": q.ArrowHdr, "governance_row_limit": q.Limit}
}

func (rp *reporter) report(q *qcase, res *evalResult, f finding) {
	c := rp.c
	prov := signature(q, res.Ref, f)
	if f.Scope != "request" {
		if sig, ok := rp.alias[prov]; ok {
			c.Violation(sig, nil)
			return
		}
	} else {
		// request-level failures (non-200, malformed document, wrong row count) are
		// attributed to a column by re-running single-column statements. Columns
		// of a type already known to cause this failure are tried first.
		fk := f.Format + "|" + f.Kind
		rows := q.rows()
		for ci, col := range q.Cols {
			if rp.known[fk][col.Class] {
				r := rp.e.eval(q.sub([]int{ci}, 0, rows), formatsFor(f.Format), 0, 0)
				c.Count("shrink_evaluations", 1)
				if _, ok := findMatch(r, f); ok {
					c.Violation(f.Format+": "+col.Class+": "+f.Kind, nil)
					return
				}
			}
		}
		if rp.attrib >= 60 {
			c.Count("request_level_findings_not_attributed", 1)
			c.Violation(prov, map[string]any{"case": caseJSON(q), "sql": clip(q.sql(), 6000), "finding": f, "note": "not attributed to a column (budget exhausted)"})
			return
		}
		rp.attrib++
	}
	if rp.shrinks >= rp.maxShrnk {
		rp.alias[prov] = prov
		c.Violation(prov, map[string]any{"case": caseJSON(q), "sql": clip(q.sql(), 6000), "finding": f, "note": "not minimised (shrink budget exhausted)"})
		return
	}
	rp.shrinks++
	sh := rp.e.shrink(q, f)
	c.Count("shrink_evaluations", int64(sh.Evals))
	m, mf := sh.Case, sh.Finding
	sig := prov
	detail := map[string]any{
		"case":               caseJSON(q),
		"sql":                clip(q.sql(), 6000),
		"rows":               q.rows(),
		"finding":            f,
		"minimal_reproduces": sh.Reproduced,
	}
	if sh.Reproduced {
		// all formats on the minimal statement, probing the offending cell
		pr, pc := mf.Row, mf.Col
		if pr < 0 {
			pr = 0
		}
		if pc < 0 {
			pc = 0
		}
		full := rp.e.eval(m, allFormats, pr, pc)
		sig = signature(m, sh.Res.Ref, mf)
		if mf.Scope == "request" {
			cl := m.Cols[0].T.Class
			sig = mf.Format + ": " + cl + ": " + mf.Kind
			fk := f.Format + "|" + f.Kind
			if rp.known[fk] == nil {
				rp.known[fk] = map[string]bool{}
			}
			rp.known[fk][cl] = true
			if m.rows() == 1 && sh.Res.Ref.rows() == 1 {
				detail["value_class"] = strings.TrimSpace(valueClass(m.Cols[0].T, sh.Res.Ref.Canon[0][0], sh.Res.Ref.Text[0][0]))
			}
		}
		detail["minimal_sql"] = m.sql()
		detail["minimal_case"] = caseJSON(m)
		detail["minimal_finding"] = mf
		if full.RefErr == nil && full.Ref != nil && pr < full.Ref.rows() && pc < len(m.Cols) {
			detail["reference"] = map[string]any{
				"duckdb_type": full.Ref.DBTypes[pc], "duckdb_text": textOf(full.Ref.Text[pr][pc]), "canonical": full.Ref.Canon[pr][pc],
				"expected_json": expectJSON(m.Cols[pc].T, full.Ref.Canon[pr][pc]), "expected_msgpack_arrow": expectBinary(m.Cols[pc].T, full.Ref.Canon[pr][pc]),
			}
			per := map[string]any{}
			for fmtName, code := range full.Status {
				per[fmtName] = map[string]any{"http_status": code, "cell": full.RawCell[fmtName]}
			}
			detail["responses"] = per
			var others []string
			for _, g := range full.Findings {
				others = append(others, signature(m, full.Ref, g))
			}
			detail["all_findings_on_minimal_sql"] = others
		}
	}
	if f.Scope != "request" {
		rp.alias[prov] = sig
	}
	c.Violation(sig, detail)
}

func classesKey(q *qcase) string {
	var s []string
	for _, c := range q.Cols {
		s = append(s, c.Class)
	}
	sort.Strings(s)
	return strings.Join(s, ",")
}

// ---------- check body ----------

func buildCases(seedRng *rand.Rand, n int) []*qcase {
	cat := typeCatalogue()
	total := 0
	for _, c := range cat {
		total += c.W
	}
	// deterministic sweep over every type's special values first, random cases after
	cases := sweepCases(cat, 0)
	if len(cases) > n/2 {
		cases = cases[:n/2]
	}
	for i := len(cases); i < n; i++ {
		r := rand.New(rand.NewPCG(seedRng.Uint64(), seedRng.Uint64()))
		cases = append(cases, genCase(r, i, cat, total))
	}
	return cases
}

func runCases(e *env, cases []*qcase, workers int, withGov bool) []caseOutcome {
	out := make([]caseOutcome, len(cases))
	var wg sync.WaitGroup
	ch := make(chan int)
	for w := 0; w < workers; w++ {
		wg.Add(1)
		go func() {
			defer wg.Done()
			for i := range ch {
				q := cases[i]
				if e.wedged.Load() {
					out[i] = caseOutcome{q: q, skipped: true}
					continue
				}
				res := e.eval(q, allFormats, 0, 0)
				if e.wedged.Load() {
					out[i] = caseOutcome{q: q, skipped: true}
					continue
				}
				o := caseOutcome{q: q, res: res}
				if withGov && res.RefErr == nil && !res.Rejected && q.Limit > 0 {
					o.gov, o.gn = e.evalGovernance(q, res.Ref)
				}
				out[i] = o
			}
		}()
	}
	for i := range cases {
		ch <- i
	}
	close(ch)
	wg.Wait()
	return out
}

func checkC19(c *vlib.Ctx) {
	c.Rule("each case is one result set of a random table-free SELECT (range(lo,hi) with per-row pool expressions, or VALUES with typed literals) over a random subset of 45 DuckDB type variants incl. extremes, NULL patterns and odd column names; it is non-trivial when it has at least one row and the JSON, MessagePack and Arrow IPC responses were all decoded and compared cell by cell with the reference; distinct = distinct (types, row count) combination")
	c.Assume("the reference is a private DuckDB instance of the same engine version reached through database/sql (duckdb-go typed scan + CAST(col AS VARCHAR)); a disagreement between the typed scan and the text form is a broken run, not a verdict")
	c.Assume("documented conversions accepted: JSON NaN/Inf -> null; decimal(p,0) -> int64 and decimal(p,s) -> nearest float64 in MessagePack/Arrow (normalizeDecimalSchema); dates/timestamps as RFC3339Nano UTC strings in JSON and timestamp ext (-1) in MessagePack; TIME, INTERVAL, LIST, STRUCT, MAP, DECIMAL(JSON) as arrow-go ValueStr text (accepted when the value is recoverable without loss); ENUM/UUID as their text")
	c.Assume("decoders: encoding/json with UseNumber + utf8.Valid + json.Valid, a MessagePack decoder written for this harness, arrow-go ipc.Reader")
	if c.Replay != "" {
		replayC19(c)
		return
	}
	workers := 8
	debug.SetGCPercent(300)
	e, err := newEnv(workers)
	if err != nil {
		c.Inconclusive("fixture: " + err.Error())
		return
	}
	defer e.close()
	if e.govApp == nil {
		c.Count("governance_unavailable", 1)
		c.Extra("governance_unavailable_reason", e.govErr)
	}
	raceDone := make(chan struct{})
	go func() { raceSubRun(c); close(raceDone) }()
	n := c.N(600, 8000)
	if v, err := strconv.Atoi(os.Getenv("C19_DEV_CASES")); err == nil && v > 0 {
		n = v // development aid only; the driver never sets it
		c.Extra("dev_case_override", v)
	}
	cases := buildCases(c.Rand("cases"), n)
	outs := runCases(e, cases, workers, true)
	aggregate(c, e, outs, true)
	if c.Quick() {
		c.Floor(300)
	} else {
		c.Floor(4000)
	}
	<-raceDone
	vlibExitHook()
}

func aggregate(c *vlib.Ctx, e *env, outs []caseOutcome, report bool) {
	rp := &reporter{c: c, e: e, alias: map[string]string{}, known: map[string]map[string]bool{}, maxShrnk: 60}
	byType := map[string]int64{}
	maxBatches := 0
	refErrs := 0
	for _, o := range outs {
		q, res := o.q, o.res
		if o.skipped {
			c.Count("result_sets_skipped_after_arc_stopped_answering", 1)
			continue
		}
		c.Eval()
		if res.RefErr != nil {
			refErrs++
			c.Count("reference_errors", 1)
			if refErrs <= 5 {
				c.Extra(fmt.Sprintf("reference_error_%d", refErrs), map[string]any{"error": clip(res.RefErr.Error(), 500), "sql": clip(q.sql(), 1500)})
			}
			continue
		}
		if res.Rejected {
			c.Count("statements_refused_by_arc_validator", 1)
			c.Extra("refused_statement_sample", clip(q.sql(), 800))
			continue
		}
		rows := res.Ref.rows()
		c.Count("result_sets", 1)
		c.Count("rows_total", int64(rows))
		c.Count("result_sets_"+q.Shape+"_shape", 1)
		allDecoded := res.Decoded["json"] && res.Decoded["msgpack"] && res.Decoded["arrow"]
		for f, st := range res.Stats {
			name := f
			if strings.HasPrefix(f, "arrow(") {
				name = "arrow_variants"
			}
			c.Count("cells_compared_"+name, st.Cells)
			c.Count("cells_mismatching_"+name, st.BadCells)
			if f == "json" {
				c.Count("null_cells_in_reference", st.NullCells)
			}
			if f == "arrow" {
				if st.Trailer {
					c.Count("arrow_responses_carrying_execution_time_trailer", 1)
				}
				c.Count("arrow_batches_total", int64(st.Batches))
				if st.Batches > 1 {
					c.Count("result_sets_spanning_several_arrow_batches", 1)
				}
				if st.Batches > maxBatches {
					maxBatches = st.Batches
				}
			}
		}
		if res.Stats[arrowFormatName(q.ArrowHdr)] != nil && q.ArrowHdr != nil {
			c.Count("arrow_variant_requests", 1)
		}
		for _, col := range q.Cols {
			byType[col.Class] += int64(rows)
		}
		if rows > 0 && allDecoded {
			c.Nontrivial(fmt.Sprintf("%s/%d", classesKey(q), rows))
		}
		c.Sample(map[string]any{"id": q.ID, "rows": rows, "types": classesKey(q), "sql": clip(q.sql(), 400), "arrow_batches": res.Stats["arrow"].Batches})
		c.Count("governance_limited_requests", int64(o.gn))
		if !report {
			continue
		}
		for _, f := range res.Findings {
			rp.report(q, res, f)
		}
		for _, g := range o.gov {
			if g.Format == "harness" {
				c.Inconclusive("governance fixture: " + g.Msg)
				continue
			}
			c.Violation(g.Format+": governance row limit: "+g.Kind, map[string]any{"case": caseJSON(q), "sql": clip(q.sql(), 6000), "finding": g})
		}
	}
	if e.wedged.Load() {
		c.Inconclusive(fmt.Sprintf("arc stopped answering: %d requests exceeded %d s; the remaining result sets were skipped (findings collected before are still reported)", e.timeouts.Load(), requestTimeoutMs/1000))
	}
	reportMalformed(c, e)
	c.Count("transport_retries", e.transportRetries.Load())
	if len(e.transportMsgs) > 0 {
		c.Extra("transport_retry_reasons", e.transportMsgs)
	}
	c.Extra("rows_per_type_class", byType)
	c.Extra("max_arrow_batches_in_one_result_set", maxBatches)
	if refErrs*20 > len(outs) {
		c.Inconclusive(fmt.Sprintf("%d of %d reference statements failed: generator defect", refErrs, len(outs)))
		c.Floor(len(outs) + 1)
	}
}

// ---------- replay ----------

var typeRegistry = func() map[string]*typ {
	m := map[string]*typ{}
	for _, c := range typeCatalogue() {
		m[c.T.Class] = c.T
	}
	for _, t := range []*typ{tInt32, tInt64, tVarchar, tDouble, intType(64, true)} {
		m[t.Class] = t
	}
	return m
}()

func restoreTypes(q *qcase) error {
	for i := range q.Cols {
		t, ok := typeRegistry[q.Cols[i].Class]
		if !ok {
			return fmt.Errorf("unknown type class %q in replay", q.Cols[i].Class)
		}
		q.Cols[i].T = t
	}
	return nil
}

func replayC19(c *vlib.Ctx) {
	var d struct {
		Case    *qcase `json:"case"`
		Minimal *qcase `json:"minimal_case"`
	}
	if err := vlib.LoadReplay(c.Replay, &d); err != nil {
		c.Inconclusive("replay: " + err.Error())
		return
	}
	e, err := newEnv(1)
	if err != nil {
		c.Inconclusive("fixture: " + err.Error())
		return
	}
	defer e.close()
	c.Floor(0)
	todo := []*qcase{d.Minimal}
	if d.Minimal == nil { // not minimised: replay the original statement
		todo = []*qcase{d.Case}
	}
	for _, q := range todo {
		if q == nil {
			continue
		}
		if err := restoreTypes(q); err != nil {
			c.Inconclusive(err.Error())
			return
		}
		c.Eval()
		res := e.eval(q, allFormats, 0, 0)
		fmt.Println("REPLAY SQL:", clip(q.sql(), 2000))
		if res.RefErr != nil {
			fmt.Println("  reference error:", res.RefErr)
			continue
		}
		for f, code := range res.Status {
			fmt.Printf("  %s: HTTP %d, cell(0,0) = %s\n", f, code, res.RawCell[f])
		}
		if res.Ref.rows() > 0 {
			fmt.Printf("  reference: %s text=%s canonical=%s\n", res.Ref.DBTypes[0], textOf(res.Ref.Text[0][0]), res.Ref.Canon[0][0])
		}
		for _, f := range res.Findings {
			sig := signature(q, res.Ref, f)
			if f.Scope == "request" && len(q.Cols) == 1 {
				sig = f.Format + ": " + q.Cols[0].T.Class + ": " + f.Kind
			}
			fmt.Println("  finding:", sig, f.Msg)
			c.Violation(sig, map[string]any{"case": caseJSON(q), "sql": clip(q.sql(), 6000), "finding": f})
		}
		for _, g := range func() []govFinding { g, _ := e.evalGovernance(q, res.Ref); return g }() {
			c.Violation(g.Format+": governance row limit: "+g.Kind, map[string]any{"case": caseJSON(q), "finding": g})
		}
	}
}

func randFor(seed uint64) *rand.Rand {
	return rand.New(rand.NewPCG(seed, 0x9e3779b97f4a7c15))
}

// reportMalformed turns malformed HTTP messages (see noteTransport) into violations.
func reportMalformed(c *vlib.Ctx, e *env) {
	paths := make([]string, 0, len(e.malformed))
	for p := range e.malformed {
		paths = append(paths, p)
	}
	sort.Strings(paths)
	for _, p := range paths {
		format := map[string]string{"/api/v1/query": "json", "/api/v1/query/msgpack": "msgpack", "/api/v1/query/arrow": "arrow"}[p]
		c.Count("malformed_http_messages_"+format, int64(e.malformed[p]))
		c.Violation(format+": the HTTP response message itself is malformed (status line / header bytes corrupted)",
			map[string]any{"endpoint": p, "occurrences": e.malformed[p], "samples": e.malformedSamples[p],
				"note": "timing dependent: observed through fiber's in-memory test connection, which fails to parse what the server wrote; the request is retried so that the result set is still compared"})
	}
}

// noteTransport records a request that produced no readable HTTP response. The test
// connection is in memory, so "failed to read response: malformed HTTP ..." means
// arc wrote a malformed HTTP message: that is an observation for the oracle
// (well-formedness), not a harness problem. Anything else (timeouts) is counted.
func (e *env) noteTransport(path, sqlText, msg string) {
	e.govMu.Lock()
	defer e.govMu.Unlock()
	if strings.Contains(msg, "failed to read response") {
		e.malformed[path]++
		if len(e.malformedSamples[path]) < 5 {
			e.malformedSamples[path] = append(e.malformedSamples[path], map[string]string{"error": clip(msg, 300), "sql": clip(sqlText, 600)})
		}
		return
	}
	if len(e.transportMsgs) < 5 {
		e.transportMsgs = append(e.transportMsgs, clip(msg, 300))
	}
}
