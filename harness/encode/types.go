package main

// Type descriptors and value pools for the C19 workload. Every column of a generated
// result set has a typ; values are SQL element expressions (most of them VARCHAR
// texts that the query CASTs to the column type, so extremes are written exactly).

import (
	"encoding/hex"
	"fmt"
	"math"
	"math/big"
	"math/rand/v2"
	"strconv"
	"strings"
	"unicode/utf8"
)

type kind int

const (
	kBool kind = iota
	kInt
	kFloat
	kDecimal
	kString
	kBlob
	kDate
	kTime
	kTimeTZ
	kTimestamp
	kInterval
	kUUID
	kEnum
	kList
	kStruct
	kMap
)

type field struct {
	Name string
	T    *typ
}

type typ struct {
	K        kind
	SQL      string // DuckDB type text usable in CAST(... AS <SQL>)
	Class    string // stable class name used in signatures and coverage keys
	Bits     int    // kInt: 8..128
	Unsigned bool
	F32      bool
	Prec     int
	Scale    int
	Unit     string // kTimestamp: s, ms, us, ns
	TZ       bool
	Elem     *typ
	Fields   []field
	Key, Val *typ
	Enum     []string
	// FromText: pool elements are VARCHAR texts and the column expression casts
	// them to SQL; otherwise the elements are already typed expressions.
	FromText bool
}

func intType(bits int, unsigned bool) *typ {
	names := map[int]string{8: "TINYINT", 16: "SMALLINT", 32: "INTEGER", 64: "BIGINT", 128: "HUGEINT"}
	n := names[bits]
	if unsigned {
		n = "U" + n
	}
	return &typ{K: kInt, SQL: n, Class: n, Bits: bits, Unsigned: unsigned, FromText: true}
}

func decType(p, s int) *typ {
	n := fmt.Sprintf("DECIMAL(%d,%d)", p, s)
	return &typ{K: kDecimal, SQL: n, Class: n, Prec: p, Scale: s, FromText: true}
}

func tsType(unit string, tz bool) *typ {
	n := map[string]string{"s": "TIMESTAMP_S", "ms": "TIMESTAMP_MS", "us": "TIMESTAMP", "ns": "TIMESTAMP_NS"}[unit]
	if tz {
		n = "TIMESTAMPTZ"
	}
	return &typ{K: kTimestamp, SQL: n, Class: n, Unit: unit, TZ: tz, FromText: true}
}

var (
	tBool     = &typ{K: kBool, SQL: "BOOLEAN", Class: "BOOLEAN", FromText: true}
	tFloat    = &typ{K: kFloat, SQL: "FLOAT", Class: "FLOAT", F32: true, FromText: true}
	tDouble   = &typ{K: kFloat, SQL: "DOUBLE", Class: "DOUBLE", FromText: true}
	tVarchar  = &typ{K: kString, SQL: "VARCHAR", Class: "VARCHAR"}
	tBlob     = &typ{K: kBlob, SQL: "BLOB", Class: "BLOB"}
	tDate     = &typ{K: kDate, SQL: "DATE", Class: "DATE", FromText: true}
	tTime     = &typ{K: kTime, SQL: "TIME", Class: "TIME", FromText: true}
	tTimeTZ   = &typ{K: kTimeTZ, SQL: "TIMETZ", Class: "TIMETZ", FromText: true}
	tInterval = &typ{K: kInterval, SQL: "INTERVAL", Class: "INTERVAL", FromText: true}
	tUUID     = &typ{K: kUUID, SQL: "UUID", Class: "UUID", FromText: true}
	tInt32    = intType(32, false)
	tInt64    = intType(64, false)
)

var enumVals = []string{"a", "b c", "ünï", "it's", "q\"uote", "Z"}

func enumType() *typ {
	q := make([]string, len(enumVals))
	for i, v := range enumVals {
		q[i] = "'" + strings.ReplaceAll(v, "'", "''") + "'"
	}
	return &typ{K: kEnum, SQL: "ENUM(" + strings.Join(q, ", ") + ")", Class: "ENUM", Enum: enumVals, FromText: true}
}

func listOf(e *typ) *typ {
	return &typ{K: kList, SQL: e.SQL + "[]", Class: "LIST<" + e.Class + ">", Elem: e}
}

func structOf(fs ...field) *typ {
	var sq, cl []string
	for _, f := range fs {
		sq = append(sq, quoteIdent(f.Name)+" "+f.T.SQL)
		cl = append(cl, f.T.Class)
	}
	return &typ{K: kStruct, SQL: "STRUCT(" + strings.Join(sq, ", ") + ")", Class: "STRUCT<" + strings.Join(cl, ",") + ">", Fields: fs}
}

func mapOf(k, v *typ) *typ {
	return &typ{K: kMap, SQL: "MAP(" + k.SQL + ", " + v.SQL + ")", Class: "MAP<" + k.Class + "," + v.Class + ">", Key: k, Val: v}
}

func quoteIdent(s string) string { return `"` + strings.ReplaceAll(s, `"`, `""`) + `"` }

// allTypes is the catalogue the generator draws from. weight = relative frequency.
type typeChoice struct {
	T *typ
	W int
}

func typeCatalogue() []typeChoice {
	stAB := structOf(field{"a", tInt32}, field{"b", tVarchar})
	return []typeChoice{
		{tBool, 3},
		{intType(8, false), 3}, {intType(16, false), 3}, {intType(32, false), 3}, {intType(64, false), 4},
		{intType(8, true), 3}, {intType(16, true), 3}, {intType(32, true), 3}, {intType(64, true), 4},
		{intType(128, false), 3}, {intType(128, true), 1},
		{decType(4, 1), 2}, {decType(9, 4), 2}, {decType(15, 3), 2}, {decType(18, 0), 2}, {decType(18, 6), 2},
		{decType(19, 0), 1}, {decType(28, 10), 2}, {decType(38, 0), 2}, {decType(38, 10), 2}, {decType(38, 37), 1},
		{tFloat, 4}, {tDouble, 6},
		{tVarchar, 10}, {tBlob, 4},
		{tDate, 4}, {tTime, 3}, {tTimeTZ, 1},
		{tsType("s", false), 3}, {tsType("ms", false), 3}, {tsType("us", false), 4}, {tsType("ns", false), 3}, {tsType("us", true), 3},
		{tInterval, 3}, {tUUID, 3}, {enumType(), 2},
		{listOf(tInt32), 2}, {listOf(tVarchar), 2}, {listOf(tDouble), 2}, {listOf(listOf(tInt64)), 1},
		{stAB, 2}, {structOf(field{"n", tDouble}, field{"l", listOf(tVarchar)}, field{"ü k", tBool}), 1},
		{listOf(stAB), 1},
		{mapOf(tVarchar, tInt32), 2}, {mapOf(tInt32, tVarchar), 1},
	}
}

// ---------- SQL literal helpers ----------

// sqlString renders s as a DuckDB VARCHAR expression. Quotes are doubled; control
// characters, DEL and the backslash are produced with chr() so that the SQL text
// itself stays free of bytes that arc's SQL validator/rewriter might treat
// specially (the property is about encoding results, not about parsing requests).
func sqlString(s string) string {
	var parts []string
	var cur strings.Builder
	flush := func() {
		if cur.Len() > 0 {
			parts = append(parts, "'"+cur.String()+"'")
			cur.Reset()
		}
	}
	for _, r := range s {
		switch {
		case r == '\'':
			cur.WriteString("''")
		case r < 0x20 || r == 0x7f || r == '\\' || r == ';' || (r >= 0x80 && r < 0xa0):
			flush()
			parts = append(parts, "chr("+strconv.Itoa(int(r))+")")
		default:
			cur.WriteRune(r)
		}
	}
	flush()
	if len(parts) == 0 {
		return "''"
	}
	if len(parts) == 1 && strings.HasPrefix(parts[0], "'") {
		return parts[0]
	}
	return "(" + strings.Join(parts, " || ") + ")"
}

func textLit(s string) string { return "'" + strings.ReplaceAll(s, "'", "''") + "'" }

// ---------- value pools ----------

var stringSpecials = []string{
	"", " ", "plain", `he said "hi"`, "it's", `back\slash`, `\"`, `\\`, `"`, `""""`, `A`, `\n`,
	"tab\there", "nl\nnl", "cr\rcr", "\b\f", "\x00", "a\x00b", "\x7f",
	"\x01\x02\x03\x04\x05\x06\x07\x08\x09\x0a\x0b\x0c\x0d\x0e\x0f\x10\x11\x12\x13\x14\x15\x16\x17\x18\x19\x1a\x1b\x1c\x1d\x1e\x1f",
	"  ", "\u0080\u009f", "é", "日本語", "😀", "𝄞𝄞", "é", "שלום", "�", "￿", "\U0010ffff",
	"</script>", "null", "true", "NaN", "123", "-0", "1e400", "{\"a\":1}", "[1,2]",
	strings.Repeat("long-é-", 60),
}

var stringAlphabet = []rune("abcxyzABZ019 _-.,:!?/()[]{}<>%&*+=~^|@#$\"'\\\t\n\r\x00\x01\x1f\x7féß日本😀𝄞 ")

func randString(r *rand.Rand) string {
	if r.IntN(3) == 0 {
		return stringSpecials[r.IntN(len(stringSpecials))]
	}
	n := r.IntN(12)
	if r.IntN(10) == 0 {
		n = 40 + r.IntN(200)
	}
	var b strings.Builder
	for i := 0; i < n; i++ {
		b.WriteRune(stringAlphabet[r.IntN(len(stringAlphabet))])
	}
	return b.String()
}

func pow2(n uint) *big.Int { return new(big.Int).Lsh(big.NewInt(1), n) }

func intRange(t *typ) (lo, hi *big.Int) {
	if t.Unsigned {
		return big.NewInt(0), new(big.Int).Sub(pow2(uint(t.Bits)), big.NewInt(1))
	}
	return new(big.Int).Neg(pow2(uint(t.Bits - 1))), new(big.Int).Sub(pow2(uint(t.Bits-1)), big.NewInt(1))
}

func randBig(r *rand.Rand, bits int) *big.Int {
	v := new(big.Int)
	for i := 0; i < (bits+63)/64; i++ {
		v.Lsh(v, 64)
		v.Or(v, new(big.Int).SetUint64(r.Uint64()))
	}
	return v.Rsh(v, uint(((bits+63)/64)*64-bits))
}

// randInt returns an integer text within the range of t. wide=false keeps
// 128-bit values inside the int64 range (see the generator: values beyond int64
// make arc fail the whole msgpack / Arrow response, which would hide every other
// column of the result set).
func randInt(r *rand.Rand, t *typ, wide bool) string {
	lo, hi := intRange(t)
	if t.Bits == 128 && !wide {
		lo = new(big.Int).Neg(pow2(62))
		if t.Unsigned {
			lo = big.NewInt(0)
		}
		hi = pow2(62)
	}
	one := big.NewInt(1)
	switch r.IntN(8) {
	case 0:
		return lo.String()
	case 1:
		return hi.String()
	case 2:
		return "0"
	case 3:
		if t.Unsigned {
			return "1"
		}
		return "-1"
	case 4:
		return new(big.Int).Sub(hi, one).String()
	case 5:
		if t.Bits == 128 && wide {
			sp := []string{"9223372036854775807", "-9223372036854775808", "9223372036854775296", "9223372036854775808", "-9223372036854775809", "18446744073709551616",
				"99999999999999999999999999999999999999", "100000000000000000000000000000000000000",
				"-100000000000000000000000000000000000000", "170141183460469231731687303715884105727"}
			if t.Unsigned {
				sp = []string{"9223372036854775807", "9223372036854775808", "18446744073709551616", "170141183460469231731687303715884105727",
					"170141183460469231731687303715884105728", "340282366920938463463374607431768211455"}
			}
			return sp[r.IntN(len(sp))]
		}
		return new(big.Int).Add(lo, one).String()
	}
	// uniform magnitude class, then uniform value
	span := new(big.Int).Sub(hi, lo)
	bits := 1 + r.IntN(span.BitLen())
	v := randBig(r, bits)
	v.Mod(v, new(big.Int).Add(span, one))
	return v.Add(v, lo).String()
}

func randDecimal(r *rand.Rand, t *typ, wide bool) string {
	p, s := t.Prec, t.Scale
	digits := 1 + r.IntN(p)
	if !wide && s == 0 && digits > 18 {
		digits = 18
	}
	var b []byte
	switch r.IntN(7) {
	case 0:
		b = []byte(strings.Repeat("9", digits))
	case 1:
		b = []byte("0")
	case 2:
		b = []byte("1") // smallest positive step 10^-s
	case 3:
		b = []byte("1" + strings.Repeat("0", digits-1))
	default:
		b = make([]byte, digits)
		for i := range b {
			b[i] = byte('0' + r.IntN(10))
		}
	}
	u := strings.TrimLeft(string(b), "0")
	if u == "" {
		u = "0"
	}
	for len(u) <= s {
		u = "0" + u
	}
	out := u
	if s > 0 {
		out = u[:len(u)-s] + "." + u[len(u)-s:]
	}
	if r.IntN(3) == 0 && strings.Trim(out, "0.") != "" {
		out = "-" + out
	}
	return out
}

var doubleSpecials = []string{"NaN", "Infinity", "-Infinity", "-0.0", "0.0", "4.9e-324", "-4.9e-324", "2.225073858507201e-308",
	"2.2250738585072014e-308", "1.7976931348623157e308", "-1.7976931348623157e308", "0.1", "0.2", "0.30000000000000004",
	"1e21", "1e20", "1e22", "1e23", "9007199254740993", "9007199254740992", "123456789012345680000", "1e-7", "0.000001",
	"1e-6", "5e-7", "1.5", "-2.5", "3.141592653589793", "1e300", "1e-300", "4503599627370496.5", "0.1e-5", "2.5e-10"}

var floatSpecials = []string{"NaN", "Infinity", "-Infinity", "-0.0", "0.0", "3.4028235e38", "-3.4028235e38", "1.4e-45",
	"1.1754944e-38", "1.1754942e-38", "16777217", "16777216", "0.1", "0.2", "1e-7", "1e10", "1.5", "-2.5", "3.1415927", "1e21", "8388608.5"}

func randFloat(r *rand.Rand, t *typ) string {
	if t.F32 {
		if r.IntN(2) == 0 {
			return floatSpecials[r.IntN(len(floatSpecials))]
		}
		f := math.Float32frombits(r.Uint32())
		if f != f {
			return "NaN"
		}
		if math.IsInf(float64(f), 0) {
			return "Infinity"
		}
		return strconv.FormatFloat(float64(f), 'g', -1, 32)
	}
	if r.IntN(2) == 0 {
		return doubleSpecials[r.IntN(len(doubleSpecials))]
	}
	if r.IntN(3) == 0 { // human-scale numbers
		return strconv.FormatFloat(float64(r.Int64N(2000000000)-1000000000)/float64([]int{1, 10, 1000, 7, 3}[r.IntN(5)]), 'g', -1, 64)
	}
	f := math.Float64frombits(r.Uint64())
	if f != f {
		return "NaN"
	}
	if math.IsInf(f, 0) {
		return "-Infinity"
	}
	return strconv.FormatFloat(f, 'g', -1, 64)
}

var blobSpecials = []string{"", "00", "ff", "80", "616263", "c3a9", "c328", "eda080", "f0288cbc", "0a0d", "225c", "5c22", "7f",
	"000102030405060708090a0b0c0d0e0f101112131415161718191a1b1c1d1e1f", "e697a5e69cac", "f09f9880", "fffe", "c0af", "00ff00ff"}

func randBlobHex(r *rand.Rand) string {
	if r.IntN(2) == 0 {
		return blobSpecials[r.IntN(len(blobSpecials))]
	}
	n := r.IntN(20)
	b := make([]byte, n)
	if r.IntN(2) == 0 { // printable ASCII / valid UTF-8 blob
		for i := range b {
			b[i] = byte(0x20 + r.IntN(0x5f))
		}
	} else {
		for i := range b {
			b[i] = byte(r.IntN(256))
		}
	}
	return hex.EncodeToString(b)
}

func civil(r *rand.Rand, ylo, yhi int) (int, int, int) {
	y := ylo + r.IntN(yhi-ylo+1)
	m := 1 + r.IntN(12)
	dim := []int{31, 28, 31, 30, 31, 30, 31, 31, 30, 31, 30, 31}[m-1]
	if m == 2 && (y%4 == 0 && (y%100 != 0 || y%400 == 0)) {
		dim = 29
	}
	return y, m, 1 + r.IntN(dim)
}

var dateSpecials = []string{"1970-01-01", "1969-12-31", "2024-02-29", "0001-01-01", "9999-12-31", "1582-10-15", "2038-01-19",
	"1900-03-01", "2000-02-29", "1600-01-01", "10000-01-01", "290000-12-31", "0044-03-15 (BC)", "0001-12-31 (BC)"}

func randDate(r *rand.Rand) string {
	if r.IntN(3) == 0 {
		return dateSpecials[r.IntN(len(dateSpecials))]
	}
	y, m, d := civil(r, 1, 9999)
	return fmt.Sprintf("%04d-%02d-%02d", y, m, d)
}

func fracText(r *rand.Rand, maxDigits int) string {
	if maxDigits == 0 || r.IntN(4) == 0 {
		return ""
	}
	n := 1 + r.IntN(maxDigits)
	b := make([]byte, n)
	for i := range b {
		b[i] = byte('0' + r.IntN(10))
	}
	if r.IntN(4) == 0 {
		b = []byte(strings.Repeat("9", maxDigits))
	}
	return "." + string(b)
}

func randTimeOfDay(r *rand.Rand, fracDigits int) string {
	switch r.IntN(6) {
	case 0:
		return "00:00:00"
	case 1:
		return "23:59:59" + fracText(r, fracDigits)
	}
	return fmt.Sprintf("%02d:%02d:%02d", r.IntN(24), r.IntN(60), r.IntN(60)) + fracText(r, fracDigits)
}

func randTimestamp(r *rand.Rand, t *typ) string {
	fd := map[string]int{"s": 0, "ms": 3, "us": 6, "ns": 9}[t.Unit]
	ylo, yhi := 1, 9999
	if t.Unit == "ns" {
		ylo, yhi = 1678, 2261
	}
	var s string
	switch r.IntN(10) {
	case 0:
		s = "1970-01-01 00:00:00"
	case 1:
		s = "1969-12-31 23:59:59" + fracText(r, fd)
	case 2:
		if t.Unit == "ns" {
			s = []string{"1677-09-22 00:00:00", "2262-04-11 23:47:16.854775806", "1677-09-22 00:00:00.000000001"}[r.IntN(3)]
		} else {
			s = []string{"0001-01-01 00:00:00", "9999-12-31 23:59:59" + strings.Repeat("9", 0), "10000-01-01 00:00:00",
				"290000-06-15 12:00:00", "0044-03-15 (BC) 12:00:00", "1582-10-15 00:00:00"}[r.IntN(6)]
		}
	case 3:
		s = "2038-01-19 03:14:08" + fracText(r, fd)
	default:
		y, m, d := civil(r, ylo, yhi)
		s = fmt.Sprintf("%04d-%02d-%02d ", y, m, d) + randTimeOfDay(r, fd)
	}
	if t.TZ {
		s += []string{"+00", "+05:30", "-08", "+14", "-12", "+02"}[r.IntN(6)]
	}
	return s
}

func randInterval(r *rand.Rand) string {
	switch r.IntN(8) {
	case 0:
		return "0 microseconds"
	case 1:
		return "1 microsecond"
	case 2:
		return "-1 microsecond"
	case 3:
		return "1 year 2 months 3 days 04:05:06.789"
	}
	sgn := func() int64 {
		if r.IntN(3) == 0 {
			return -1
		}
		return 1
	}
	mo := sgn() * r.Int64N([]int64{3, 30, 3000, 200000}[r.IntN(4)])
	d := sgn() * r.Int64N([]int64{3, 40, 40000, 2000000}[r.IntN(4)])
	us := sgn() * r.Int64N([]int64{1000, 86400000000, 4000000000000000}[r.IntN(3)])
	return fmt.Sprintf("%d months %d days %d microseconds", mo, d, us)
}

func randUUID(r *rand.Rand) string {
	switch r.IntN(8) {
	case 0:
		return "00000000-0000-0000-0000-000000000000"
	case 1:
		return "ffffffff-ffff-ffff-ffff-ffffffffffff"
	case 2:
		return "7fffffff-ffff-ffff-ffff-ffffffffffff"
	case 3:
		return "80000000-0000-0000-0000-000000000000"
	}
	var b [16]byte
	for i := range b {
		b[i] = byte(r.IntN(256))
	}
	h := hex.EncodeToString(b[:])
	return h[0:8] + "-" + h[8:12] + "-" + h[12:16] + "-" + h[16:20] + "-" + h[20:]
}

// elemSQL returns one non-NULL pool element expression for t. For FromText types
// it is a VARCHAR expression (cast later); otherwise it is already of type t.
func elemSQL(r *rand.Rand, t *typ, wide bool, depth int) string {
	switch t.K {
	case kBool:
		return textLit([]string{"true", "false"}[r.IntN(2)])
	case kInt:
		return textLit(randInt(r, t, wide))
	case kFloat:
		return textLit(randFloat(r, t))
	case kDecimal:
		return textLit(randDecimal(r, t, wide))
	case kString:
		return sqlString(randString(r))
	case kBlob:
		return "from_hex('" + randBlobHex(r) + "')"
	case kDate:
		return textLit(randDate(r))
	case kTime:
		return textLit(randTimeOfDay(r, 6))
	case kTimeTZ:
		return textLit(randTimeOfDay(r, 6) + []string{"+00", "+02", "-08:30", "+05:45"}[r.IntN(4)])
	case kTimestamp:
		return textLit(randTimestamp(r, t))
	case kInterval:
		return textLit(randInterval(r))
	case kUUID:
		return textLit(randUUID(r))
	case kEnum:
		return textLit(t.Enum[r.IntN(len(t.Enum))])
	case kList:
		n := r.IntN(4)
		if r.IntN(6) == 0 {
			n = 0
		}
		el := make([]string, n)
		for i := range el {
			el[i] = typedElem(r, t.Elem, depth+1)
		}
		return "CAST([" + strings.Join(el, ", ") + "] AS " + t.SQL + ")"
	case kStruct:
		fs := make([]string, len(t.Fields))
		for i, f := range t.Fields {
			fs[i] = textLit(f.Name) + ": " + typedElem(r, f.T, depth+1)
		}
		return "CAST({" + strings.Join(fs, ", ") + "} AS " + t.SQL + ")"
	case kMap:
		n := r.IntN(4)
		seen := map[string]bool{}
		var kv []string
		for i := 0; i < n; i++ {
			var k string
			if t.Key.K == kString {
				k = sqlString([]string{"k1", "k 2", "ü", "q\"k", "", "x\ty", "😀"}[r.IntN(7)])
			} else {
				k = strconv.Itoa(r.IntN(7) - 3)
			}
			if seen[k] {
				continue
			}
			seen[k] = true
			kv = append(kv, k+": "+typedElem(r, t.Val, depth+1))
		}
		return "CAST(MAP {" + strings.Join(kv, ", ") + "} AS " + t.SQL + ")"
	}
	panic("elemSQL: unknown kind")
}

// typedElem returns an expression of type t (possibly NULL) for nested positions.
func typedElem(r *rand.Rand, t *typ, depth int) string {
	if r.IntN(5) == 0 {
		return "CAST(NULL AS " + t.SQL + ")"
	}
	e := elemSQL(r, t, false, depth)
	if t.FromText {
		return "CAST(" + e + " AS " + t.SQL + ")"
	}
	return e
}

// poolElemType is the SQL type of the pool list elements.
func poolElemType(t *typ) string {
	if t.FromText {
		return "VARCHAR"
	}
	return t.SQL
}

func validUTF8Hex(h string) bool {
	b, err := hex.DecodeString(h)
	return err == nil && utf8.Valid(b)
}
