package main

// Canonical cell values. Every source (reference typed scan, JSON, MessagePack,
// Arrow IPC) is converted, directed by the column's DuckDB type, into one canonical
// string; the oracle compares canonical strings after applying the conversions the
// encoder source documents per format (expect*).
//
//	NULL            SQL NULL
//	B:true          boolean
//	I:<decimal>     integer of any width
//	F:<hex bits>    float (FLOAT widened exactly to float64); F:NaN for any NaN
//	D:<a/b>         decimal as reduced fraction
//	S:"..."         string (strconv.Quote)
//	X:<hex>         bytes
//	d:<days>        date, days since 1970-01-01
//	t:<micros>      time of day
//	z:<micros>@<offset seconds>  time of day with UTC offset
//	T:<sec>.<nsec>  instant
//	V:<months>:<days>:<micros>  interval
//	[a,b] {n=a,m=b} M[k=>v,...] nested

import (
	"fmt"
	"math"
	"math/big"
	"strconv"
	"strings"
	"time"

	duckdb "github.com/duckdb/duckdb-go/v2"
)

const cNull = "NULL"

func cFloat(f float64) string {
	if f != f {
		return "F:NaN"
	}
	return fmt.Sprintf("F:%016x", math.Float64bits(f))
}

func cString(s string) string { return "S:" + strconv.Quote(s) }

func cInstant(sec, nsec int64) string { return fmt.Sprintf("T:%d.%09d", sec, nsec) }

func floorDiv(a, b int64) (q, r int64) {
	q, r = a/b, a%b
	if r < 0 {
		q--
		r += b
	}
	return
}

// ---------- reference (database/sql typed scan + DuckDB text) ----------

func ratFromDecimalText(s string) (*big.Rat, bool) {
	r, ok := new(big.Rat).SetString(s)
	return r, ok
}

// canonRef converts a value scanned from the reference engine. text is DuckDB's
// own VARCHAR rendering of the same cell (nil when NULL); it is the source of
// truth for integers, decimals and UUIDs and a cross-check elsewhere.
func canonRef(t *typ, v any, text *string) (string, error) {
	if v == nil {
		if text != nil {
			return "", fmt.Errorf("reference disagrees with itself: typed NULL, text %q", *text)
		}
		return cNull, nil
	}
	if text == nil {
		return "", fmt.Errorf("reference disagrees with itself: typed %T, text NULL", v)
	}
	switch t.K {
	case kBool:
		b, ok := v.(bool)
		if !ok {
			return "", fmt.Errorf("reference BOOLEAN scanned as %T", v)
		}
		return "B:" + strconv.FormatBool(b), nil
	case kInt:
		z, ok := new(big.Int).SetString(*text, 10)
		if !ok {
			return "", fmt.Errorf("reference integer text %q", *text)
		}
		var w *big.Int
		switch x := v.(type) {
		case int8:
			w = big.NewInt(int64(x))
		case int16:
			w = big.NewInt(int64(x))
		case int32:
			w = big.NewInt(int64(x))
		case int64:
			w = big.NewInt(x)
		case uint8:
			w = new(big.Int).SetUint64(uint64(x))
		case uint16:
			w = new(big.Int).SetUint64(uint64(x))
		case uint32:
			w = new(big.Int).SetUint64(uint64(x))
		case uint64:
			w = new(big.Int).SetUint64(x)
		case *big.Int:
			w = x
		default:
			return "", fmt.Errorf("reference integer scanned as %T", v)
		}
		if w.Cmp(z) != 0 {
			return "", fmt.Errorf("reference disagrees with itself: typed %s text %s", w, z)
		}
		return "I:" + z.String(), nil
	case kFloat:
		switch x := v.(type) {
		case float32:
			return cFloat(float64(x)), nil
		case float64:
			return cFloat(x), nil
		}
		return "", fmt.Errorf("reference float scanned as %T", v)
	case kDecimal:
		r, ok := ratFromDecimalText(*text)
		if !ok {
			return "", fmt.Errorf("reference decimal text %q", *text)
		}
		if d, ok := v.(duckdb.Decimal); ok && d.Value != nil {
			den := new(big.Int).Exp(big.NewInt(10), big.NewInt(int64(d.Scale)), nil)
			if new(big.Rat).SetFrac(d.Value, den).Cmp(r) != 0 {
				return "", fmt.Errorf("reference disagrees with itself: decimal typed %v/%d text %s", d.Value, d.Scale, *text)
			}
		} else {
			return "", fmt.Errorf("reference decimal scanned as %T", v)
		}
		return "D:" + r.RatString(), nil
	case kString, kEnum:
		s, ok := v.(string)
		if !ok {
			return "", fmt.Errorf("reference string scanned as %T", v)
		}
		return cString(s), nil
	case kUUID:
		return cString(strings.ToLower(*text)), nil
	case kBlob:
		b, ok := v.([]byte)
		if !ok {
			return "", fmt.Errorf("reference blob scanned as %T", v)
		}
		return fmt.Sprintf("X:%x", b), nil
	case kDate:
		tm, ok := v.(time.Time)
		if !ok {
			return "", fmt.Errorf("reference date scanned as %T", v)
		}
		d, rem := floorDiv(tm.Unix(), 86400)
		if rem != 0 || tm.Nanosecond() != 0 {
			return "", fmt.Errorf("reference date with time of day %v", tm)
		}
		return fmt.Sprintf("d:%d", d), nil
	case kTime:
		tm, ok := v.(time.Time)
		if !ok {
			return "", fmt.Errorf("reference time scanned as %T", v)
		}
		us := int64(tm.Hour())*3600000000 + int64(tm.Minute())*60000000 + int64(tm.Second())*1000000 + int64(tm.Nanosecond()/1000)
		return fmt.Sprintf("t:%d", us), nil
	case kTimeTZ:
		tm, ok := v.(time.Time)
		if !ok {
			return "", fmt.Errorf("reference timetz scanned as %T", v)
		}
		// duckdb-go returns TIMETZ normalised to UTC; DuckDB's text keeps the
		// local time and the offset: parse the text.
		us, off, err := parseTimeTZText(*text)
		if err != nil {
			return "", err
		}
		_ = tm
		return fmt.Sprintf("z:%d@%d", us, off), nil
	case kTimestamp:
		tm, ok := v.(time.Time)
		if !ok {
			return "", fmt.Errorf("reference timestamp scanned as %T", v)
		}
		return cInstant(tm.Unix(), int64(tm.Nanosecond())), nil
	case kInterval:
		iv, ok := v.(duckdb.Interval)
		if !ok {
			return "", fmt.Errorf("reference interval scanned as %T", v)
		}
		return fmt.Sprintf("V:%d:%d:%d", iv.Months, iv.Days, iv.Micros), nil
	case kList, kStruct, kMap:
		return canonRefNested(t, v)
	}
	return "", fmt.Errorf("canonRef: unhandled kind")
}

func parseTimeTZText(s string) (us int64, off int64, err error) {
	// HH:MM:SS[.ffffff](+|-)HH[:MM[:SS]]
	p := strings.LastIndexAny(s, "+-")
	if p < 8 {
		return 0, 0, fmt.Errorf("timetz text %q", s)
	}
	us, err = parseClock(s[:p])
	if err != nil {
		return
	}
	parts := strings.Split(s[p+1:], ":")
	mult := []int64{3600, 60, 1}
	for i, x := range parts {
		n, e := strconv.ParseInt(x, 10, 64)
		if e != nil || i > 2 {
			return 0, 0, fmt.Errorf("timetz offset %q", s)
		}
		off += n * mult[i]
	}
	if s[p] == '-' {
		off = -off
	}
	return
}

// parseClock parses HH:MM:SS[.f{1,9}] into microseconds (fraction beyond 6
// digits must be zero).
func parseClock(s string) (int64, error) {
	if len(s) < 8 || s[2] != ':' || s[5] != ':' {
		return 0, fmt.Errorf("clock text %q", s)
	}
	h, e1 := strconv.Atoi(s[0:2])
	m, e2 := strconv.Atoi(s[3:5])
	sec, e3 := strconv.Atoi(s[6:8])
	if e1 != nil || e2 != nil || e3 != nil || h > 24 || m > 59 || sec > 60 {
		return 0, fmt.Errorf("clock text %q", s)
	}
	us := int64(h)*3600000000 + int64(m)*60000000 + int64(sec)*1000000
	if len(s) > 8 {
		if s[8] != '.' || len(s) == 9 || len(s) > 18 {
			return 0, fmt.Errorf("clock text %q", s)
		}
		f := s[9:]
		for len(f) < 9 {
			f += "0"
		}
		ns, err := strconv.ParseInt(f, 10, 64)
		if err != nil || ns%1000 != 0 {
			return 0, fmt.Errorf("clock fraction %q", s)
		}
		us += ns / 1000
	}
	return us, nil
}

func canonRefNested(t *typ, v any) (string, error) {
	if v == nil {
		return cNull, nil
	}
	switch t.K {
	case kList:
		l, ok := v.([]any)
		if !ok {
			return "", fmt.Errorf("reference list scanned as %T", v)
		}
		parts := make([]string, len(l))
		for i, e := range l {
			s, err := canonRefNested(t.Elem, e)
			if err != nil {
				return "", err
			}
			parts[i] = s
		}
		return "[" + strings.Join(parts, ",") + "]", nil
	case kStruct:
		m, ok := v.(map[string]any)
		if !ok {
			return "", fmt.Errorf("reference struct scanned as %T", v)
		}
		parts := make([]string, len(t.Fields))
		for i, f := range t.Fields {
			e, present := m[f.Name]
			if !present {
				return "", fmt.Errorf("reference struct lacks field %q", f.Name)
			}
			s, err := canonRefNested(f.T, e)
			if err != nil {
				return "", err
			}
			parts[i] = strconv.Quote(f.Name) + "=" + s
		}
		return "{" + strings.Join(parts, ",") + "}", nil
	case kMap:
		om, ok := v.(duckdb.OrderedMap)
		if !ok {
			return "", fmt.Errorf("reference map scanned as %T", v)
		}
		ks, vs := (&om).Keys(), (&om).Values()
		parts := make([]string, len(ks))
		for i := range ks {
			a, err := canonRefNested(t.Key, ks[i])
			if err != nil {
				return "", err
			}
			b, err := canonRefNested(t.Val, vs[i])
			if err != nil {
				return "", err
			}
			parts[i] = a + "=>" + b
		}
		return "M[" + strings.Join(parts, ",") + "]", nil
	case kBool:
		if b, ok := v.(bool); ok {
			return "B:" + strconv.FormatBool(b), nil
		}
	case kInt:
		switch x := v.(type) {
		case int32:
			return "I:" + strconv.FormatInt(int64(x), 10), nil
		case int64:
			return "I:" + strconv.FormatInt(x, 10), nil
		}
	case kFloat:
		switch x := v.(type) {
		case float64:
			return cFloat(x), nil
		case float32:
			return cFloat(float64(x)), nil
		}
	case kString:
		if s, ok := v.(string); ok {
			return cString(s), nil
		}
	}
	return "", fmt.Errorf("reference nested %s scanned as %T", t.Class, v)
}

// ---------- documented conversions ----------

// expectJSON: "NaN/Inf are written as null" (writeArrowValue, writeFloat64).
func expectJSON(t *typ, ref string) string {
	if t.K == kFloat && (ref == "F:NaN" || ref == cFloat(math.Inf(1)) || ref == cFloat(math.Inf(-1))) {
		return cNull
	}
	return ref
}

// expectBinary (MessagePack and Arrow IPC): normalizeDecimalSchema documents
// decimal(x,0) -> int64 and decimal(x,y) -> float64.
func expectBinary(t *typ, ref string) []string {
	if t.K != kDecimal || ref == cNull {
		return []string{ref}
	}
	r, _ := new(big.Rat).SetString(strings.TrimPrefix(ref, "D:"))
	if t.Scale == 0 {
		return []string{"I:" + r.Num().String(), ref}
	}
	f, _ := r.Float64() // nearest float64
	return []string{cFloat(f), ref}
}
