package main

// Development aid (not part of the check): prints what the three endpoints and the
// reference engine return for hand-written SQL.

import (
	"bytes"
	"encoding/json"
	"fmt"
	"os"
	"strings"

	"github.com/apache/arrow-go/v18/arrow/ipc"

	"github.com/basekick-labs/arc/internal/zzverif/vfix"
)

func postSQL(n *vfix.Node, path, sqlText string, hdr map[string]string) (int, []byte, map[string][]string) {
	body, _ := json.Marshal(map[string]string{"sql": sqlText})
	h := map[string]string{"Content-Type": "application/json"}
	for k, v := range hdr {
		h[k] = v
	}
	return n.Do("POST", path, h, body)
}

func clip(s string, n int) string {
	if len(s) > n {
		return s[:n] + fmt.Sprintf("...(+%d)", len(s)-n)
	}
	return s
}

func runProbe(file string) {
	b, err := os.ReadFile(file)
	if err != nil {
		fmt.Println(err)
		os.Exit(2)
	}
	n, err := vfix.NewNode(vfix.Options{WithQuery: true})
	if err != nil {
		fmt.Println("node:", err)
		os.Exit(2)
	}
	defer n.Close()
	ref, err := vfix.NewRef()
	if err != nil {
		fmt.Println("ref:", err)
		os.Exit(2)
	}
	defer ref.Close()
	for _, q := range strings.Split(string(b), "\n\n") {
		q = strings.TrimSpace(q)
		if q == "" {
			continue
		}
		fmt.Println("==== SQL:", q)
		code, body, _ := postSQL(n, "/api/v1/query", q, nil)
		fmt.Printf("JSON %d valid=%v: %s\n", code, json.Valid(body), clip(string(body), 1500))
		code, body, _ = postSQL(n, "/api/v1/query/msgpack", q, nil)
		v, _, derr := mpDecodeDocument(body)
		fmt.Printf("MSGPACK %d err=%v: %s\n", code, derr, clip(fmt.Sprintf("%#v", v), 1500))
		code, body, _ = postSQL(n, "/api/v1/query/arrow", q, nil)
		fmt.Printf("ARROW %d len=%d\n", code, len(body))
		if code == 200 {
			rd, err := ipc.NewReader(bytes.NewReader(body))
			if err != nil {
				fmt.Println("  ipc reader:", err, clip(string(body), 300))
			} else {
				fmt.Println("  schema:", rd.Schema())
				for rd.Next() {
					rec := rd.Record()
					for ci := 0; ci < int(rec.NumCols()); ci++ {
						col := rec.Column(ci)
						var cells []string
						for i := 0; i < col.Len() && i < 12; i++ {
							cells = append(cells, col.ValueStr(i))
						}
						fmt.Printf("  col %d %T rows=%d: %s\n", ci, col, col.Len(), clip(strings.Join(cells, " | "), 800))
					}
				}
				if rd.Err() != nil {
					fmt.Println("  reader err:", rd.Err())
				}
				rd.Release()
			}
		} else {
			fmt.Println("  ", clip(string(body), 300))
		}
		rows, err := ref.DB.Query(q)
		if err != nil {
			fmt.Println("REF error:", err)
			continue
		}
		cols, _ := rows.Columns()
		cts, _ := rows.ColumnTypes()
		for i, ct := range cts {
			fmt.Printf("REF col %d %q %s\n", i, cols[i], ct.DatabaseTypeName())
		}
		k := 0
		for rows.Next() && k < 12 {
			vals := make([]any, len(cols))
			ptrs := make([]any, len(cols))
			for i := range vals {
				ptrs[i] = &vals[i]
			}
			if err := rows.Scan(ptrs...); err != nil {
				fmt.Println("REF scan:", err)
				break
			}
			for i, v := range vals {
				fmt.Printf("  REF r%d c%d %T %v\n", k, i, v, clip(fmt.Sprintf("%#v", v), 200))
			}
			k++
		}
		rows.Close()
	}
}
