package main

// Type-directed decoders for the three response formats. Each returns the
// canonical string (see canon.go) of one cell, or an error when the cell is not in
// a representation from which the value can be recovered.

import (
	"bytes"
	"encoding/json"
	"fmt"
	"math/big"
	"regexp"
	"strconv"
	"strings"
	"unicode/utf8"

	"github.com/apache/arrow-go/v18/arrow"
	"github.com/apache/arrow-go/v18/arrow/array"
)

// ---------- shared text parsers ----------

var rfc3339Re = regexp.MustCompile(`^(-?\d{4,})-(\d{2})-(\d{2})T(\d{2}):(\d{2}):(\d{2})(\.\d{1,9})?Z$`)

// daysFromCivil: proleptic Gregorian, astronomical year numbering.
func daysFromCivil(y, m, d int64) int64 {
	if m <= 2 {
		y--
	}
	era, _ := floorDiv(y, 400)
	yoe := y - era*400
	mp := (m + 9) % 12
	doy := (153*mp+2)/5 + d - 1
	doe := yoe*365 + yoe/4 - yoe/100 + doy
	return era*146097 + doe - 719468
}

// parseRFC3339UTC parses the representation documented for timestamps and dates in
// JSON (time.RFC3339Nano in UTC), including years outside 0..9999 as Go prints them.
func parseRFC3339UTC(s string) (sec, nsec int64, err error) {
	m := rfc3339Re.FindStringSubmatch(s)
	if m == nil {
		return 0, 0, fmt.Errorf("not an RFC3339 UTC timestamp: %q", s)
	}
	n := make([]int64, 7)
	for i := 1; i <= 6; i++ {
		n[i], _ = strconv.ParseInt(m[i], 10, 64)
	}
	if n[2] < 1 || n[2] > 12 || n[3] < 1 || n[3] > 31 || n[4] > 23 || n[5] > 59 || n[6] > 59 {
		return 0, 0, fmt.Errorf("out-of-range field in %q", s)
	}
	sec = daysFromCivil(n[1], n[2], n[3])*86400 + n[4]*3600 + n[5]*60 + n[6]
	if m[7] != "" {
		f := m[7][1:]
		for len(f) < 9 {
			f += "0"
		}
		nsec, _ = strconv.ParseInt(f, 10, 64)
	}
	return sec, nsec, nil
}

func canonDateFromInstant(sec, nsec int64) (string, error) {
	d, rem := floorDiv(sec, 86400)
	if rem != 0 || nsec != 0 {
		return "", fmt.Errorf("date carries a time of day (%d s, %d ns)", rem, nsec)
	}
	return fmt.Sprintf("d:%d", d), nil
}

// arrow-go renders month_day_nano intervals as {"months":..,"days":..,"nanoseconds":..}
func canonIntervalJSON(s string) (string, error) {
	var iv struct {
		Months *int64 `json:"months"`
		Days   *int64 `json:"days"`
		Nanos  *int64 `json:"nanoseconds"`
	}
	dec := json.NewDecoder(strings.NewReader(s))
	dec.DisallowUnknownFields()
	if err := dec.Decode(&iv); err != nil || iv.Months == nil || iv.Days == nil || iv.Nanos == nil {
		return "", fmt.Errorf("interval text %q is not {months,days,nanoseconds}", s)
	}
	if *iv.Nanos%1000 != 0 {
		return "", fmt.Errorf("interval nanoseconds %d not a whole microsecond", *iv.Nanos)
	}
	return fmt.Sprintf("V:%d:%d:%d", *iv.Months, *iv.Days, *iv.Nanos/1000), nil
}

func canonIntText(s string) (string, error) {
	z, ok := new(big.Int).SetString(s, 10)
	if !ok {
		// decimal(38,0) text may come in exponent/fraction form
		r, ok2 := new(big.Rat).SetString(s)
		if !ok2 || !r.IsInt() {
			return "", fmt.Errorf("not an integer: %q", s)
		}
		z = r.Num()
	}
	return "I:" + z.String(), nil
}

// canonStringEncoded handles the kinds that JSON and MessagePack both carry as a
// string (Arrow ValueStr fallback): TIME, INTERVAL, nested types.
func canonStringEncoded(t *typ, s string) (string, error) {
	switch t.K {
	case kTime, kTimeTZ:
		us, err := parseClock(s)
		if err != nil {
			return "", err
		}
		return fmt.Sprintf("t:%d", us), nil
	case kInterval:
		return canonIntervalJSON(s)
	case kList, kStruct, kMap:
		dec := json.NewDecoder(strings.NewReader(s))
		dec.UseNumber()
		var v any
		if err := dec.Decode(&v); err != nil {
			return "", fmt.Errorf("nested value text is not JSON: %v", err)
		}
		if dec.More() {
			return "", fmt.Errorf("trailing data after nested JSON value")
		}
		return canonNestedJSON(t, v)
	}
	return "", fmt.Errorf("canonStringEncoded: kind")
}

// canonNestedJSON converts arrow-go's JSON rendering of nested values.
func canonNestedJSON(t *typ, v any) (string, error) {
	if v == nil {
		return cNull, nil
	}
	switch t.K {
	case kList:
		l, ok := v.([]any)
		if !ok {
			return "", fmt.Errorf("nested list rendered as %T", v)
		}
		parts := make([]string, len(l))
		for i, e := range l {
			s, err := canonNestedJSON(t.Elem, e)
			if err != nil {
				return "", err
			}
			parts[i] = s
		}
		return "[" + strings.Join(parts, ",") + "]", nil
	case kStruct:
		m, ok := v.(map[string]any)
		if !ok || len(m) != len(t.Fields) {
			return "", fmt.Errorf("nested struct rendered as %T with %d members", v, len(m))
		}
		parts := make([]string, len(t.Fields))
		for i, f := range t.Fields {
			e, present := m[f.Name]
			if !present {
				return "", fmt.Errorf("nested struct lacks field %q", f.Name)
			}
			s, err := canonNestedJSON(f.T, e)
			if err != nil {
				return "", err
			}
			parts[i] = strconv.Quote(f.Name) + "=" + s
		}
		return "{" + strings.Join(parts, ",") + "}", nil
	case kMap:
		l, ok := v.([]any)
		if !ok {
			return "", fmt.Errorf("nested map rendered as %T", v)
		}
		parts := make([]string, len(l))
		for i, e := range l {
			kv, ok := e.(map[string]any)
			if !ok || len(kv) != 2 {
				return "", fmt.Errorf("map entry rendered as %T", e)
			}
			k, okk := kv["key"]
			val, okv := kv["value"]
			if !okk || !okv {
				return "", fmt.Errorf("map entry without key/value")
			}
			a, err := canonNestedJSON(t.Key, k)
			if err != nil {
				return "", err
			}
			b, err := canonNestedJSON(t.Val, val)
			if err != nil {
				return "", err
			}
			parts[i] = a + "=>" + b
		}
		return "M[" + strings.Join(parts, ",") + "]", nil
	case kBool:
		if b, ok := v.(bool); ok {
			return "B:" + strconv.FormatBool(b), nil
		}
	case kInt:
		if n, ok := v.(json.Number); ok {
			return canonIntText(n.String())
		}
	case kFloat:
		switch x := v.(type) {
		case json.Number:
			f, err := strconv.ParseFloat(x.String(), 64)
			if err != nil {
				return "", err
			}
			return cFloat(f), nil
		case string: // arrow-go: "NaN", "+Inf", "-Inf"
			f, err := strconv.ParseFloat(x, 64)
			if err != nil {
				return "", err
			}
			return cFloat(f), nil
		}
	case kString:
		if s, ok := v.(string); ok {
			return cString(s), nil
		}
	}
	return "", fmt.Errorf("nested %s rendered as %T", t.Class, v)
}

// ---------- JSON ----------

type jsonDoc struct {
	Success  *bool    `json:"success"`
	Columns  []string `json:"columns"`
	Data     [][]any  `json:"data"`
	RowCount *int64   `json:"row_count"`
	Error    string   `json:"error"`
}

// decodeJSONDoc checks well-formedness strictly (RFC 8259: valid UTF-8, valid
// JSON text, one document) and decodes with number literals preserved.
func decodeJSONDoc(body []byte) (*jsonDoc, error) {
	if !json.Valid(body) {
		return nil, fmt.Errorf("not valid JSON")
	}
	dec := json.NewDecoder(bytes.NewReader(body))
	dec.UseNumber()
	var d jsonDoc
	if err := dec.Decode(&d); err != nil {
		return nil, fmt.Errorf("JSON envelope: %v", err)
	}
	if dec.More() {
		return nil, fmt.Errorf("trailing data after the JSON document")
	}
	return &d, nil
}

func canonJSONCell(t *typ, v any) (string, error) {
	if v == nil {
		return cNull, nil
	}
	num, isNum := v.(json.Number)
	str, isStr := v.(string)
	switch t.K {
	case kBool:
		if b, ok := v.(bool); ok {
			return "B:" + strconv.FormatBool(b), nil
		}
	case kInt:
		if isNum {
			if strings.ContainsAny(num.String(), ".eE") {
				return "", fmt.Errorf("integer rendered as non-integer number %s", num)
			}
			return canonIntText(num.String())
		}
		if isStr && t.Bits == 128 { // 128-bit integers have no JSON-safe number form: text
			return canonIntText(str)
		}
	case kFloat:
		if isNum {
			f, err := strconv.ParseFloat(num.String(), 64)
			if err != nil {
				return "", fmt.Errorf("number %s: %v", num, err)
			}
			return cFloat(f), nil
		}
	case kDecimal:
		s := str
		if isNum {
			s = num.String()
		}
		if isNum || isStr {
			r, ok := new(big.Rat).SetString(s)
			if !ok {
				return "", fmt.Errorf("decimal text %q", s)
			}
			return "D:" + r.RatString(), nil
		}
	case kString, kEnum:
		if isStr {
			return cString(str), nil
		}
	case kUUID:
		if isStr {
			return cString(strings.ToLower(str)), nil
		}
	case kBlob:
		if isStr {
			return fmt.Sprintf("X:%x", []byte(str)), nil
		}
	case kDate:
		if isStr {
			sec, nsec, err := parseRFC3339UTC(str)
			if err != nil {
				return "", err
			}
			return canonDateFromInstant(sec, nsec)
		}
	case kTimestamp:
		if isStr {
			sec, nsec, err := parseRFC3339UTC(str)
			if err != nil {
				return "", err
			}
			return cInstant(sec, nsec), nil
		}
	case kTime, kTimeTZ, kInterval, kList, kStruct, kMap:
		if isStr {
			return canonStringEncoded(t, str)
		}
	}
	return "", fmt.Errorf("%s rendered as JSON %T", t.Class, v)
}

// ---------- MessagePack ----------

func canonMPCell(t *typ, v any) (string, error) {
	if v == nil {
		return cNull, nil
	}
	switch t.K {
	case kBool:
		if b, ok := v.(bool); ok {
			return "B:" + strconv.FormatBool(b), nil
		}
	case kInt, kDecimal:
		switch x := v.(type) {
		case int64:
			return "I:" + strconv.FormatInt(x, 10), nil
		case uint64:
			return "I:" + strconv.FormatUint(x, 10), nil
		case float64:
			if t.K == kDecimal {
				return cFloat(x), nil
			}
		case string:
			if t.K == kDecimal {
				r, ok := new(big.Rat).SetString(x)
				if ok {
					return "D:" + r.RatString(), nil
				}
			} else if t.Bits == 128 {
				return canonIntText(x)
			}
		}
	case kFloat:
		switch x := v.(type) {
		case float32:
			if !t.F32 {
				return "", fmt.Errorf("DOUBLE sent as msgpack float32")
			}
			return cFloat(float64(x)), nil
		case float64:
			return cFloat(x), nil
		}
	case kString, kEnum:
		if s, ok := v.(string); ok {
			return cString(s), nil
		}
	case kUUID:
		if s, ok := v.(string); ok {
			return cString(strings.ToLower(s)), nil
		}
	case kBlob:
		if b, ok := v.([]byte); ok {
			return fmt.Sprintf("X:%x", b), nil
		}
	case kDate:
		if tm, ok := v.(mpTime); ok {
			return canonDateFromInstant(tm.Sec, tm.Nsec)
		}
	case kTimestamp:
		if tm, ok := v.(mpTime); ok {
			return cInstant(tm.Sec, tm.Nsec), nil
		}
	case kTime, kTimeTZ, kInterval, kList, kStruct, kMap:
		if s, ok := v.(string); ok {
			return canonStringEncoded(t, s)
		}
	}
	return "", fmt.Errorf("%s sent as msgpack %T", t.Class, v)
}

// mpKindOK checks the documented meaning of a "types" entry against the wire kind
// of a non-nil value.
func mpKindOK(typeName string, v any) bool {
	switch {
	case typeName == "bool":
		_, ok := v.(bool)
		return ok
	case strings.HasPrefix(typeName, "int") || strings.HasPrefix(typeName, "uint"):
		switch v.(type) {
		case int64, uint64:
			return true
		}
		return false
	case typeName == "float32":
		_, ok := v.(float32)
		return ok
	case typeName == "float64":
		_, ok := v.(float64)
		return ok
	case typeName == "utf8", typeName == "large_utf8", typeName == "string_encoded", typeName == "list",
		typeName == "struct", typeName == "map", strings.HasPrefix(typeName, "unknown:"):
		_, ok := v.(string)
		return ok
	case typeName == "binary", typeName == "large_binary":
		_, ok := v.([]byte)
		return ok
	case typeName == "date32", strings.HasPrefix(typeName, "timestamp["):
		_, ok := v.(mpTime)
		return ok
	}
	return false
}

// wireTypeName is the documented "types" entry for a DuckDB type
// (query_msgpack_types.go + normalizeDecimalSchema + DuckDB's Arrow export).
func wireTypeName(t *typ) (name string, prefix bool) {
	switch t.K {
	case kBool:
		return "bool", false
	case kInt:
		if t.Bits == 128 {
			return "int64", false
		}
		n := "int" + strconv.Itoa(t.Bits)
		if t.Unsigned {
			n = "u" + n
		}
		return n, false
	case kFloat:
		if t.F32 {
			return "float32", false
		}
		return "float64", false
	case kDecimal:
		if t.Scale == 0 {
			return "int64", false
		}
		return "float64", false
	case kString, kUUID:
		return "utf8", false
	case kBlob:
		return "binary", false
	case kDate:
		return "date32", false
	case kTime, kTimeTZ, kInterval:
		return "string_encoded", false
	case kTimestamp:
		return "timestamp[" + t.Unit + "]", false
	case kEnum:
		return "unknown:dictionary<", true
	case kList:
		return "list", false
	case kStruct:
		return "struct", false
	case kMap:
		return "map", false
	}
	return "?", false
}

// ---------- Arrow IPC ----------

func canonArrowCell(t *typ, a arrow.Array, i int) (string, error) {
	if d, ok := a.(*array.Dictionary); ok {
		if d.IsNull(i) {
			return cNull, nil
		}
		return canonArrowCell(t, d.Dictionary(), d.GetValueIndex(i))
	}
	if a.IsNull(i) {
		return cNull, nil
	}
	switch t.K {
	case kBool:
		if c, ok := a.(*array.Boolean); ok {
			return "B:" + strconv.FormatBool(c.Value(i)), nil
		}
	case kInt, kDecimal:
		switch c := a.(type) {
		case *array.Int8:
			return "I:" + strconv.FormatInt(int64(c.Value(i)), 10), nil
		case *array.Int16:
			return "I:" + strconv.FormatInt(int64(c.Value(i)), 10), nil
		case *array.Int32:
			return "I:" + strconv.FormatInt(int64(c.Value(i)), 10), nil
		case *array.Int64:
			return "I:" + strconv.FormatInt(c.Value(i), 10), nil
		case *array.Uint8:
			return "I:" + strconv.FormatUint(uint64(c.Value(i)), 10), nil
		case *array.Uint16:
			return "I:" + strconv.FormatUint(uint64(c.Value(i)), 10), nil
		case *array.Uint32:
			return "I:" + strconv.FormatUint(uint64(c.Value(i)), 10), nil
		case *array.Uint64:
			return "I:" + strconv.FormatUint(c.Value(i), 10), nil
		case *array.Float64:
			if t.K == kDecimal {
				return cFloat(c.Value(i)), nil
			}
		case *array.Decimal128:
			dt := c.DataType().(*arrow.Decimal128Type)
			den := new(big.Int).Exp(big.NewInt(10), big.NewInt(int64(dt.Scale)), nil)
			r := new(big.Rat).SetFrac(c.Value(i).BigInt(), den)
			if t.K == kInt {
				if !r.IsInt() {
					return "", fmt.Errorf("integer sent as fractional decimal")
				}
				return "I:" + r.Num().String(), nil
			}
			return "D:" + r.RatString(), nil
		}
	case kFloat:
		switch c := a.(type) {
		case *array.Float32:
			if !t.F32 {
				return "", fmt.Errorf("DOUBLE sent as float32")
			}
			return cFloat(float64(c.Value(i))), nil
		case *array.Float64:
			return cFloat(c.Value(i)), nil
		}
	case kString, kEnum, kUUID:
		var s string
		switch c := a.(type) {
		case *array.String:
			s = c.Value(i)
		case *array.LargeString:
			s = c.Value(i)
		default:
			return "", fmt.Errorf("%s sent as %s", t.Class, a.DataType())
		}
		if !utf8.ValidString(s) {
			return "", fmt.Errorf("utf8 column holds invalid UTF-8")
		}
		if t.K == kUUID {
			s = strings.ToLower(s)
		}
		return cString(s), nil
	case kBlob:
		switch c := a.(type) {
		case *array.Binary:
			return fmt.Sprintf("X:%x", c.Value(i)), nil
		case *array.LargeBinary:
			return fmt.Sprintf("X:%x", c.Value(i)), nil
		}
	case kDate:
		if c, ok := a.(*array.Date32); ok {
			return fmt.Sprintf("d:%d", int64(c.Value(i))), nil
		}
	case kTime, kTimeTZ:
		switch c := a.(type) {
		case *array.Time64:
			v := int64(c.Value(i))
			if c.DataType().(*arrow.Time64Type).Unit == arrow.Nanosecond {
				if v%1000 != 0 {
					return "", fmt.Errorf("time64[ns] %d not a whole microsecond", v)
				}
				v /= 1000
			}
			return fmt.Sprintf("t:%d", v), nil
		case *array.Time32:
			v := int64(c.Value(i))
			if c.DataType().(*arrow.Time32Type).Unit == arrow.Second {
				v *= 1000
			}
			return fmt.Sprintf("t:%d", v*1000), nil
		}
	case kTimestamp:
		if c, ok := a.(*array.Timestamp); ok {
			v := int64(c.Value(i))
			var per int64
			switch c.DataType().(*arrow.TimestampType).Unit {
			case arrow.Second:
				per = 1
			case arrow.Millisecond:
				per = 1000
			case arrow.Microsecond:
				per = 1000000
			default:
				per = 1000000000
			}
			sec, rem := floorDiv(v, per)
			return cInstant(sec, rem*(1000000000/per)), nil
		}
	case kInterval:
		if c, ok := a.(*array.MonthDayNanoInterval); ok {
			v := c.Value(i)
			if v.Nanoseconds%1000 != 0 {
				return "", fmt.Errorf("interval nanoseconds %d not a whole microsecond", v.Nanoseconds)
			}
			return fmt.Sprintf("V:%d:%d:%d", v.Months, v.Days, v.Nanoseconds/1000), nil
		}
	case kMap: // before kList: *array.Map embeds *array.List
		if c, ok := a.(*array.Map); ok {
			lo, hi := c.ValueOffsets(i)
			parts := make([]string, 0, hi-lo)
			for j := int(lo); j < int(hi); j++ {
				k, err := canonArrowCell(t.Key, c.Keys(), j)
				if err != nil {
					return "", err
				}
				v, err := canonArrowCell(t.Val, c.Items(), j)
				if err != nil {
					return "", err
				}
				parts = append(parts, k+"=>"+v)
			}
			return "M[" + strings.Join(parts, ",") + "]", nil
		}
	case kList:
		var vals arrow.Array
		var lo, hi int64
		switch c := a.(type) {
		case *array.List:
			vals = c.ListValues()
			lo, hi = c.ValueOffsets(i)
		case *array.LargeList:
			vals = c.ListValues()
			lo, hi = c.ValueOffsets(i)
		default:
			return "", fmt.Errorf("%s sent as %s", t.Class, a.DataType())
		}
		parts := make([]string, 0, hi-lo)
		for j := int(lo); j < int(hi); j++ {
			s, err := canonArrowCell(t.Elem, vals, j)
			if err != nil {
				return "", err
			}
			parts = append(parts, s)
		}
		return "[" + strings.Join(parts, ",") + "]", nil
	case kStruct:
		if c, ok := a.(*array.Struct); ok {
			st := c.DataType().(*arrow.StructType)
			if st.NumFields() != len(t.Fields) {
				return "", fmt.Errorf("struct with %d fields", st.NumFields())
			}
			parts := make([]string, len(t.Fields))
			for k, f := range t.Fields {
				if st.Field(k).Name != f.Name {
					return "", fmt.Errorf("struct field %d named %q, DuckDB %q", k, st.Field(k).Name, f.Name)
				}
				s, err := canonArrowCell(f.T, c.Field(k), i)
				if err != nil {
					return "", err
				}
				parts[k] = strconv.Quote(f.Name) + "=" + s
			}
			return "{" + strings.Join(parts, ",") + "}", nil
		}
	}
	return "", fmt.Errorf("%s sent as Arrow %s", t.Class, a.DataType())
}
