// Harness for the encode area: C19 (query responses faithfully encode DuckDB's results).
package main

import (
	"flag"
	"fmt"
	"os"
	"runtime/pprof"

	"github.com/basekick-labs/arc/internal/zzverif/vlib"
)

var vlibExitHook = func() {}

func main() {
	prop := flag.String("prop", "", "property id")
	flag.String("replay", "", "replay file")
	probe := flag.String("probe", "", "development aid: file with SQL statements (blank-line separated); prints the three responses and the reference")
	raceChild := flag.Bool("racechild", false, "internal: reduced workload executed by the -race build")
	flag.Parse()
	if pf := os.Getenv("C19_DEV_CPUPROFILE"); pf != "" { // development aid
		f, _ := os.Create(pf)
		_ = pprof.StartCPUProfile(f)
		defer pprof.StopCPUProfile()
		vlibExitHook = pprof.StopCPUProfile
	}
	if *probe != "" {
		runProbe(*probe)
		return
	}
	switch *prop {
	case "C19":
		if *raceChild {
			raceChildMain()
			return
		}
		vlib.Main("C19", "exploration", checkC19)
	default:
		fmt.Println("unknown property", *prop)
		os.Exit(2)
	}
}
