// Harness for row-level delete (C10) and retention (C11).
package main

import (
	"encoding/json"
	"flag"
	"fmt"
	"io"
	"os"

	"github.com/basekick-labs/arc/internal/compaction"
	"github.com/basekick-labs/arc/internal/zzverif/vlib"
)

func main() {
	// The real compaction manager re-executes the running binary as
	// `<exe> compact --job-stdin` (cmd/arc/main.go:runCompactSubcommand). C11 drives
	// real compaction cycles, so this binary answers that sub-command the same way.
	if len(os.Args) > 1 && os.Args[1] == "compact" {
		runCompactChild()
		return
	}
	if len(os.Args) > 1 && os.Args[1] == "c11round" {
		runC11RoundChild(os.Args[2:])
		return
	}
	prop := flag.String("prop", "", "property id")
	flag.String("replay", "", "replay file")
	flag.Parse()
	switch *prop {
	case "C10":
		vlib.Main("C10", "exploration", checkC10)
	case "C11":
		vlib.Main("C11", "exploration", checkC11)
	default:
		fmt.Println("unknown property", *prop)
		os.Exit(2)
	}
}

// runCompactChild mirrors cmd/arc/main.go:runCompactSubcommand (job config on stdin,
// result JSON on stdout).
func runCompactChild() {
	data, err := io.ReadAll(os.Stdin)
	if err != nil {
		fmt.Fprintf(os.Stderr, "error: failed to read config from stdin: %v\n", err)
		os.Exit(1)
	}
	var cfg compaction.SubprocessJobConfig
	if err := json.Unmarshal(data, &cfg); err != nil {
		fmt.Fprintf(os.Stderr, "error: invalid job config: %v\n", err)
		os.Exit(1)
	}
	res, err := compaction.RunSubprocessJob(&cfg)
	if err != nil {
		fmt.Fprintf(os.Stderr, "error: %v\n", err)
		os.Exit(1)
	}
	if err := json.NewEncoder(os.Stdout).Encode(res); err != nil {
		fmt.Fprintf(os.Stderr, "error: failed to encode result: %v\n", err)
		os.Exit(1)
	}
}
