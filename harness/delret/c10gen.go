package main

import (
	"fmt"
	"math/rand/v2"
	"strconv"
	"strings"
	"time"
)

// c10Row is one generated point. Nil pointer = the point does not carry that
// tag/field (stored as NULL when other points of the same flush carry it).
type c10Row struct {
	Rid  int64    `json:"rid"`
	T    int64    `json:"t_us"`
	Host *string  `json:"host,omitempty"` // tag
	Iv   *int64   `json:"iv,omitempty"`
	Fv   *float64 `json:"fv,omitempty"`
	Sv   *string  `json:"sv,omitempty"`
	Bv   *bool    `json:"bv,omitempty"`
}

// c10Case is one dataset x predicate pair (also the replay format).
type c10Case struct {
	Idx    int        `json:"case"`
	Gens   [][]c10Row `json:"generations"` // one write request + flush per generation
	Where  string     `json:"where"`
	Shapes []string   `json:"predicate_shapes"`
	Evolve string     `json:"column_absent_in_one_generation,omitempty"`
	// ExtNames: before the delete the stored files are renamed, per hour directory, to
	// part-0000.parquet, part-0001.parquet, ... (the layout of restored, bulk-copied or
	// externally written files): files of different partitions share base names.
	ExtNames bool `json:"per_directory_file_names,omitempty"`
}

var (
	c10Hosts = []string{"a", "b", "ab", "A", "a%", "o'k", "x_y", "web-1"}
	c10Strs  = []string{"a", "b", "ab", "abc", "B", "a%b", "o'k", "x_y", "", "zz top"}
	c10Ints  = []int64{-3, -1, 0, 1, 2, 3, 5, 7, 10, 1 << 40}
	c10Flts  = []float64{-2.5, -1, 0, 0.5, 1, 1.5, 2, 3.25, 10, 1e10}
)

func pick[T any](r *rand.Rand, xs []T) T { return xs[r.IntN(len(xs))] }

// genC10Dataset builds 2..6+ files worth of rows: generations x hours.
func genC10Dataset(r *rand.Rand) (gens [][]c10Row, evolve string, hours []int64) {
	const hourUS = int64(3600) * 1_000_000
	base := (int64(1704067200) + int64(r.IntN(2000))*3600) * 1_000_000
	nH, nG := 1+r.IntN(3), 1+r.IntN(3)
	if nH*nG < 2 {
		if r.IntN(2) == 0 {
			nH = 2
		} else {
			nG = 2
		}
	}
	off := int64(0)
	for h := 0; h < nH; h++ {
		hours = append(hours, base+off*hourUS)
		off += int64(pick(r, []int{1, 1, 1, 2, 25}))
	}
	nullP := map[string]float64{}
	for _, col := range []string{"host", "iv", "fv", "sv", "bv"} {
		nullP[col] = pick(r, []float64{0, 0.15, 0.15, 0.4, 0.4, 0.8})
	}
	evolveGen := -1
	if nG >= 2 && r.IntN(100) < 15 {
		evolve = pick(r, []string{"host", "iv", "fv", "sv", "bv"})
		evolveGen = r.IntN(nG)
	}
	rid := int64(0)
	gens = make([][]c10Row, nG)
	for g := 0; g < nG; g++ {
		used := 0
		for hi, h := range hours {
			if used > 0 && r.IntN(4) == 0 && !(hi == len(hours)-1 && used == 0) {
				continue
			}
			used++
			k := 1 + r.IntN(12)
			for i := 0; i < k; i++ {
				rid++
				row := c10Row{Rid: rid, T: h + int64(r.IntN(3600))*1_000_000 + int64(r.IntN(4))*250_000}
				has := func(col string) bool { return !(g == evolveGen && col == evolve) && r.Float64() >= nullP[col] }
				if has("host") {
					v := pick(r, c10Hosts)
					row.Host = &v
				}
				if has("iv") {
					v := pick(r, c10Ints)
					row.Iv = &v
				}
				if has("fv") {
					v := pick(r, c10Flts)
					row.Fv = &v
				}
				if has("sv") {
					v := pick(r, c10Strs)
					row.Sv = &v
				}
				if has("bv") {
					v := r.IntN(2) == 0
					row.Bv = &v
				}
				gens[g] = append(gens[g], row)
			}
		}
	}
	// every column exists in at least one file (a predicate over a column that no file has
	// is a binder error in any engine, not a subject of C10)
	fg := 0
	if evolveGen == 0 {
		fg = 1
	}
	first := &gens[fg][0]
	if first.Host == nil {
		v := "a"
		first.Host = &v
	}
	if first.Iv == nil {
		v := int64(1)
		first.Iv = &v
	}
	if first.Fv == nil {
		v := 1.5
		first.Fv = &v
	}
	if first.Sv == nil {
		v := "ab"
		first.Sv = &v
	}
	if first.Bv == nil {
		v := true
		first.Bv = &v
	}
	return gens, evolve, hours
}

// lpLine encodes one row as InfluxDB line protocol (precision us).
func (row c10Row) lpLine(m string) string {
	var b strings.Builder
	b.WriteString(m)
	if row.Host != nil {
		b.WriteString(",host=")
		b.WriteString(strings.NewReplacer(",", `\,`, " ", `\ `, "=", `\=`).Replace(*row.Host))
	}
	b.WriteString(" rid=" + strconv.FormatInt(row.Rid, 10) + "i")
	if row.Iv != nil {
		b.WriteString(",iv=" + strconv.FormatInt(*row.Iv, 10) + "i")
	}
	if row.Fv != nil {
		b.WriteString(",fv=" + strconv.FormatFloat(*row.Fv, 'f', -1, 64))
	}
	if row.Sv != nil {
		b.WriteString(`,sv="` + strings.NewReplacer(`\`, `\\`, `"`, `\"`).Replace(*row.Sv) + `"`)
	}
	if row.Bv != nil {
		if *row.Bv {
			b.WriteString(",bv=true")
		} else {
			b.WriteString(",bv=false")
		}
	}
	b.WriteString(" " + strconv.FormatInt(row.T, 10))
	return b.String()
}

// ---------- predicate grammar ----------

type predGen struct {
	r      *rand.Rand
	hours  []int64
	maxRid int64
	shapes map[string]bool
}

func sqlStr(s string) string { return "'" + strings.ReplaceAll(s, "'", "''") + "'" }

func (g *predGen) mark(s string) { g.shapes[s] = true }

func (g *predGen) cmpOp() string { return pick(g.r, []string{"=", "!=", "<>", "<", "<=", ">", ">="}) }

func (g *predGen) timeLit() string {
	const hourUS = int64(3600) * 1_000_000
	h := pick(g.r, g.hours)
	us := h + int64(g.r.IntN(5))*hourUS/4
	if g.r.IntN(3) == 0 {
		us += 250_000
	}
	return "'" + time.UnixMicro(us).UTC().Format("2006-01-02 15:04:05.000000") + "'"
}

func (g *predGen) numLit(col string) string {
	switch col {
	case "fv":
		return strconv.FormatFloat(pick(g.r, c10Flts), 'f', -1, 64)
	case "rid":
		return strconv.FormatInt(1+g.r.Int64N(g.maxRid+1), 10)
	}
	return strconv.FormatInt(pick(g.r, c10Ints), 10)
}

func (g *predGen) strLit(col string) string {
	if col == "host" {
		return sqlStr(pick(g.r, c10Hosts))
	}
	return sqlStr(pick(g.r, c10Strs))
}

func (g *predGen) atom() string {
	r := g.r
	numCol := func() string { return pick(r, []string{"iv", "iv", "fv", "fv", "rid"}) }
	strCol := func() string { return pick(r, []string{"sv", "sv", "host"}) }
	switch r.IntN(16) {
	case 0, 1:
		g.mark("cmp-num")
		c := numCol()
		return c + " " + g.cmpOp() + " " + g.numLit(c)
	case 2:
		g.mark("cmp-str")
		c := strCol()
		return c + " " + g.cmpOp() + " " + g.strLit(c)
	case 3:
		g.mark("bool")
		return pick(r, []string{"bv", "NOT bv", "bv = true", "bv = false", "bv != true", "bv IS NOT DISTINCT FROM true"})
	case 4:
		g.mark("in-num")
		c := numCol()
		n := 1 + r.IntN(4)
		var xs []string
		for i := 0; i < n; i++ {
			xs = append(xs, g.numLit(c))
		}
		if r.IntN(4) == 0 {
			g.mark("in-with-null-element")
			xs = append(xs, "NULL")
		}
		not := ""
		if r.IntN(3) == 0 {
			not = "NOT "
		}
		return c + " " + not + "IN (" + strings.Join(xs, ", ") + ")"
	case 5:
		g.mark("in-str")
		c := strCol()
		n := 1 + r.IntN(3)
		var xs []string
		for i := 0; i < n; i++ {
			xs = append(xs, g.strLit(c))
		}
		if r.IntN(5) == 0 {
			g.mark("in-with-null-element")
			xs = append(xs, "NULL")
		}
		not := ""
		if r.IntN(3) == 0 {
			not = "NOT "
		}
		return c + " " + not + "IN (" + strings.Join(xs, ", ") + ")"
	case 6, 7:
		g.mark("like")
		c := strCol()
		op := pick(r, []string{"LIKE", "LIKE", "NOT LIKE", "ILIKE"})
		pat := pick(r, []string{"a%", "%b", "%", "_", "a_", "%''%", "%\\_%", "A%", "%b%", "ab", ""})
		return c + " " + op + " '" + pat + "'"
	case 8, 9:
		g.mark("null-test")
		c := pick(r, []string{"iv", "fv", "sv", "bv", "host", "time", "rid"})
		return c + pick(r, []string{" IS NULL", " IS NOT NULL"})
	case 10:
		g.mark("between")
		c := numCol()
		not := ""
		if r.IntN(3) == 0 {
			not = "NOT "
		}
		return c + " " + not + "BETWEEN " + g.numLit(c) + " AND " + g.numLit(c)
	case 11:
		g.mark("time")
		if r.IntN(3) == 0 {
			return "time BETWEEN " + g.timeLit() + " AND " + g.timeLit()
		}
		return "time " + pick(r, []string{"<", "<=", ">", ">=", "=", "!="}) + " " + g.timeLit()
	case 12:
		g.mark("rid-mod")
		k := 2 + r.IntN(3)
		return fmt.Sprintf("rid %% %d = %d", k, r.IntN(k))
	case 13:
		g.mark("col-col")
		return pick(r, []string{"iv < rid", "fv >= iv", "sv = host", "iv <> fv", "fv < rid", "sv > host"})
	case 14:
		g.mark("distinct-from")
		if r.IntN(2) == 0 {
			c := numCol()
			return c + pick(r, []string{" IS DISTINCT FROM ", " IS NOT DISTINCT FROM "}) + g.numLit(c)
		}
		c := strCol()
		return c + pick(r, []string{" IS DISTINCT FROM ", " IS NOT DISTINCT FROM "}) + g.strLit(c)
	default:
		g.mark("function")
		return pick(r, []string{"coalesce(iv, 0) > 1", "length(sv) > 1", "coalesce(sv, host) = 'a'", "abs(fv) >= 1.5", "lower(sv) = 'b'", "coalesce(bv, false)"})
	}
}

func (g *predGen) expr(depth int) (string, bool) {
	r := g.r
	if depth <= 0 || r.IntN(100) < 30 {
		return g.atom(), true
	}
	wrap := func(s string, isAtom bool) string {
		if isAtom && r.IntN(2) == 0 {
			return s
		}
		return "(" + s + ")"
	}
	switch r.IntN(7) {
	case 0, 1, 2:
		g.mark("and")
		a, aa := g.expr(depth - 1)
		b, ba := g.expr(depth - 1)
		return wrap(a, aa) + " AND " + wrap(b, ba), false
	case 3, 4, 5:
		g.mark("or")
		a, aa := g.expr(depth - 1)
		b, ba := g.expr(depth - 1)
		return wrap(a, aa) + " OR " + wrap(b, ba), false
	default:
		g.mark("not")
		a, _ := g.expr(depth - 1)
		return "NOT (" + a + ")", false
	}
}

func genC10Case(r *rand.Rand, idx int) c10Case {
	gens, evolve, hours := genC10Dataset(r)
	var maxRid int64
	for _, g := range gens {
		maxRid += int64(len(g))
	}
	pg := &predGen{r: r, hours: hours, maxRid: maxRid, shapes: map[string]bool{}}
	var where string
	switch x := r.IntN(100); {
	case x < 3:
		where = "1=1"
		pg.mark("full-table")
	case x < 5:
		where = "1=0"
		pg.mark("constant-false")
	default:
		where, _ = pg.expr(1 + r.IntN(3))
	}
	var shapes []string
	for _, s := range []string{"and", "or", "not", "cmp-num", "cmp-str", "bool", "in-num", "in-str", "in-with-null-element", "like", "null-test", "between", "time", "rid-mod", "col-col", "distinct-from", "function", "full-table", "constant-false"} {
		if pg.shapes[s] {
			shapes = append(shapes, s)
		}
	}
	return c10Case{Idx: idx, Gens: gens, Where: where, Shapes: shapes, Evolve: evolve, ExtNames: idx%4 == 3}
}
