package main

import (
	"bytes"
	"context"
	"crypto/sha256"
	"encoding/hex"
	"encoding/json"
	"fmt"
	"os"
	"os/exec"
	"path/filepath"
	"sort"
	"strings"
	"sync"
	"sync/atomic"
	"time"

	"github.com/rs/zerolog"

	"github.com/basekick-labs/arc/internal/api"
	"github.com/basekick-labs/arc/internal/compaction"
	"github.com/basekick-labs/arc/internal/config"
	"github.com/basekick-labs/arc/internal/verifhook"
	"github.com/basekick-labs/arc/internal/zzverif/vfix"
	"github.com/basekick-labs/arc/internal/zzverif/vlib"
	"github.com/basekick-labs/arc/internal/zzverif/vpq"
)

// c11VNow is the process-global virtual clock read by the rewritten retention.go.
var c11VNow atomic.Int64

// ---------- observed storage state ----------

type c11File struct {
	Rel   string `json:"file"`
	DB    string `json:"db"`
	M     string `json:"m"`
	SHA   string `json:"-"`
	MinUS int64  `json:"min_time_us"`
	MaxUS int64  `json:"max_time_us"`
	Rows  int    `json:"rows"`
	Kind  string `json:"kind"` // hour file | compacted hour file | day file
	rids  []int64
	times []int64
}

type c11State struct {
	files map[string]*c11File
	rowAt map[int64]*c11File // rid -> file
	rowT  map[int64]int64
	dup   []int64
	all   map[string]string // every regular file under the storage root -> sha256
}

func fileKind(rel string) string {
	base := filepath.Base(rel)
	switch {
	case strings.HasSuffix(base, "_daily.parquet"):
		return "day file"
	case strings.Contains(base, "compacted"):
		return "compacted hour file"
	}
	if len(strings.Split(rel, "/")) == 6 {
		return "day-level file"
	}
	return "hour file"
}

func captureC11(root string) (*c11State, error) {
	fs, err := vpq.ReadTree(root)
	if err != nil {
		return nil, err
	}
	st := &c11State{files: map[string]*c11File{}, rowAt: map[int64]*c11File{}, rowT: map[int64]int64{}}
	for _, f := range fs {
		parts := strings.Split(f.Rel, "/")
		if len(parts) < 3 {
			continue
		}
		b, err := os.ReadFile(f.Abs)
		if err != nil {
			return nil, err
		}
		h := sha256.Sum256(b)
		cf := &c11File{Rel: f.Rel, DB: parts[0], M: parts[1], SHA: hex.EncodeToString(h[:]), Rows: f.NumRow, Kind: fileKind(f.Rel)}
		for i, r := range f.Rows {
			rid, ok1 := r["rid"].(int64)
			t, ok2 := r["time"].(int64)
			if !ok1 || !ok2 {
				return nil, fmt.Errorf("row without rid/time in %s", f.Rel)
			}
			if i == 0 || t < cf.MinUS {
				cf.MinUS = t
			}
			if i == 0 || t > cf.MaxUS {
				cf.MaxUS = t
			}
			cf.rids = append(cf.rids, rid)
			cf.times = append(cf.times, t)
			if _, seen := st.rowAt[rid]; seen {
				st.dup = append(st.dup, rid)
			}
			st.rowAt[rid] = cf
			st.rowT[rid] = t
		}
		st.files[f.Rel] = cf
	}
	st.all = snapshotTree(root)
	return st, nil
}

// classOf places a file relative to the cutoff (ns).
func classOf(f *c11File, cutNS int64) string {
	justBelow := floorDiv(cutNS-1, 1000) // largest microsecond timestamp strictly below the cutoff
	switch {
	case f.MaxUS*1000 == cutNS:
		return "with its maximum exactly at the cutoff"
	case f.MaxUS*1000 < cutNS && f.MaxUS == justBelow:
		return "whose maximum is the last microsecond before the cutoff"
	case f.MaxUS*1000 < cutNS:
		return "wholly older than the cutoff"
	case f.MinUS*1000 >= cutNS:
		return "wholly at or after the cutoff"
	}
	return "straddling the cutoff"
}

// ---------- runner ----------

type execResp struct {
	PolicyID             int64    `json:"policy_id"`
	DeletedCount         int64    `json:"deleted_count"`
	FilesDeleted         int      `json:"files_deleted"`
	DryRun               bool     `json:"dry_run"`
	CutoffDate           string   `json:"cutoff_date"`
	AffectedMeasurements []string `json:"affected_measurements"`
	Error                string   `json:"error"`
}

type c11Finding struct {
	sig    string
	detail map[string]any
}

type c11Runner struct {
	cs       c11Case
	n        *vfix.Node
	ret      *api.RetentionHandler
	policyID int64
	accepted int64
	findings []c11Finding
	inconcl  string
	counters map[string]int64
	nontriv  []string
	evals    int
	sample   any
	dead     bool
}

func newC11Runner(cs c11Case) *c11Runner {
	r := &c11Runner{cs: cs, counters: map[string]int64{}}
	n, err := vfix.NewNode(vfix.Options{WithQuery: true})
	if err != nil {
		r.fail("cannot build node: " + err.Error())
		return r
	}
	r.n = n
	ret, err := api.NewRetentionHandler(n.Backend, n.DB, &config.RetentionConfig{Enabled: true, DBPath: filepath.Join(n.Dir, "retention", "retention.db")}, nil, nil, zerolog.Nop())
	if err != nil {
		r.fail("cannot build retention handler: " + err.Error())
		return r
	}
	r.ret = ret
	ret.RegisterRoutes(n.App)
	return r
}

func (r *c11Runner) timed(name string, t0 time.Time) {
	if os.Getenv("VERIF_DEBUG") != "" { // wall-clock accounting is not part of the evidence
		r.counters["wall_ms_"+name] += time.Since(t0).Milliseconds()
	}
}

func (r *c11Runner) fail(why string) {
	if r.inconcl == "" {
		r.inconcl = fmt.Sprintf("case %d: %s", r.cs.Idx, why)
	}
	r.dead = true
}

func (r *c11Runner) close() {
	if r.ret != nil {
		r.ret.Close()
	}
	if r.n != nil {
		r.n.Close()
	}
}

func (r *c11Runner) add(sig string, detail map[string]any) {
	detail["case"] = r.cs
	r.findings = append(r.findings, c11Finding{sig, detail})
}

// prepare ingests the step's generations through arc and runs the requested real
// compaction cycles. It does not depend on the virtual clock.
func (r *c11Runner) prepare(step int) {
	if r.dead {
		return
	}
	st := r.cs.Steps[step]
	if step == 0 {
		body, _ := json.Marshal(map[string]any{"name": "p", "database": r.cs.PolicyDB, "measurement": r.cs.PolicyM,
			"retention_days": r.cs.RetentionDays, "buffer_days": r.cs.BufferDays, "is_active": true})
		code, b, _ := r.n.Do("POST", "/api/v1/retention", map[string]string{"Content-Type": "application/json"}, body)
		var p struct {
			ID int64 `json:"id"`
		}
		if code != 201 || json.Unmarshal(b, &p) != nil || p.ID == 0 {
			r.fail(fmt.Sprintf("policy creation failed: HTTP %d %s", code, b))
			return
		}
		r.policyID = p.ID
	}
	defer r.timed("ingest_and_compaction", time.Now())
	for _, g := range st.Gens {
		bodies := map[string]*bytes.Buffer{}
		var dbs []string
		for _, p := range g {
			bb := bodies[p.DB]
			if bb == nil {
				bb = &bytes.Buffer{}
				bodies[p.DB] = bb
				dbs = append(dbs, p.DB)
			}
			fmt.Fprintf(bb, "%s,host=h%d rid=%di,v=%d.5 %d\n", p.M, p.Rid%3, p.Rid, p.Rid%7, p.T)
		}
		for _, db := range dbs {
			code, b, _ := r.n.Do("POST", "/write?db="+db+"&precision=us", nil, bodies[db].Bytes())
			if code != 204 {
				r.fail(fmt.Sprintf("write rejected: HTTP %d %s", code, b))
				return
			}
		}
		r.accepted += int64(len(g))
		if !r.n.Quiesce(r.accepted) {
			r.fail("flush did not quiesce within the watchdog")
			return
		}
	}
	if st.Compact != "" {
		r.compact(st.Compact)
	}
}

func (r *c11Runner) compact(kind string) {
	defer r.timed("compaction", time.Now())
	lg := zerolog.Nop()
	hourly := compaction.NewHourlyTier(&compaction.HourlyTierConfig{StorageBackend: r.n.Backend, MinAgeHours: 1, MinFiles: 2, Enabled: true, Logger: lg})
	daily := compaction.NewDailyTier(&compaction.DailyTierConfig{StorageBackend: r.n.Backend, MinAgeHours: 24, MinFiles: 2, Enabled: true, Logger: lg})
	tmp := filepath.Join(r.n.Dir, "compaction-tmp")
	_ = os.MkdirAll(tmp, 0o700)
	mgr := compaction.NewManager(&compaction.ManagerConfig{
		StorageBackend: r.n.Backend, LockManager: compaction.NewLockManager(), MinAgeHours: 1, MinFiles: 2,
		MaxConcurrent: 2, TempDirectory: tmp, MemoryLimit: "512MB", Threads: 1,
		Tiers: []compaction.Tier{hourly, daily}, Logger: lg,
	})
	ctx, cancel := context.WithTimeout(context.Background(), 5*time.Minute)
	defer cancel()
	tiers := [][]string{{"hourly"}}
	if strings.HasPrefix(kind, "hourly+daily") {
		tiers = append(tiers, []string{"daily"})
	}
	for _, t := range tiers {
		var err error
		if strings.HasSuffix(kind, "@policydb") {
			_, err = mgr.RunCompactionCycleForDatabase(ctx, r.cs.PolicyDB, t)
		} else {
			_, err = mgr.RunCompactionCycleForTiers(ctx, t)
		}
		if err != nil {
			r.fail("compaction cycle failed: " + err.Error())
			return
		}
		r.counters["compaction_cycles"]++
	}
}

func (r *c11Runner) execute(dry bool, via, reqBody string) (execResp, int, string) {
	if !dry && via == "scheduler" {
		// the scheduler's entry point (internal/scheduler calls exactly this)
		resp, err := r.ret.ExecutePolicy(context.Background(), r.policyID)
		if err != nil {
			return execResp{Error: err.Error()}, 500, err.Error()
		}
		b, _ := json.Marshal(resp)
		var out execResp
		_ = json.Unmarshal(b, &out)
		return out, 200, string(b)
	}
	body := []byte(reqBody)
	code, b, _ := r.n.Do("POST", fmt.Sprintf("/api/v1/retention/%d/execute", r.policyID), map[string]string{"Content-Type": "application/json"}, body)
	var out execResp
	_ = json.Unmarshal(b, &out)
	return out, code, string(b)
}

// run performs dry run + real run of one step under the (already installed) virtual
// clock and applies the oracle.
func (r *c11Runner) run(step int) {
	if r.dead {
		return
	}
	cs := &r.cs
	st := cs.Steps[step]
	cutNS := cs.cutoffNS(step)
	cutoff := time.Unix(0, cutNS).UTC()
	defer r.timed("run_and_oracle", time.Now())
	t0 := time.Now()
	s0, err := captureC11(r.n.Root)
	r.timed("capture", t0)
	if err != nil {
		r.fail("cannot read stored files: " + err.Error())
		return
	}
	if len(s0.dup) > 0 {
		r.fail("duplicate rid in storage before the run (ingest/compaction territory)")
		return
	}
	base := func(extra map[string]any) map[string]any {
		d := map[string]any{"step": step, "cutoff": cutoff.Format(time.RFC3339Nano), "cutoff_ns": cutNS,
			"virtual_now": time.Unix(0, st.NowNS).UTC().Format(time.RFC3339Nano), "real_run_via": st.Exec}
		for k, v := range extra {
			d[k] = v
		}
		return d
	}

	// layout accounting
	var layout []string
	expectGone, coveredFiles := 0, 0
	for _, f := range s0.files {
		cl := classOf(f, cutNS)
		cov := cs.covered(f.DB, f.M)
		if cov {
			coveredFiles++
			r.counters["covered_files_"+strings.ReplaceAll(cl, " ", "_")]++
			if f.MaxUS*1000 < cutNS {
				expectGone++
			}
			if f.Kind != "hour file" {
				r.counters["covered_"+strings.ReplaceAll(f.Kind, " ", "_")+"s"]++
			}
		} else {
			r.counters["uncovered_files"]++
			if f.MaxUS*1000 < cutNS {
				r.counters["uncovered_files_wholly_older_than_cutoff"]++
			}
		}
		layout = append(layout, fmt.Sprintf("%s/%s|%s|%s|%v", f.DB, f.M, f.Kind, cl, cov))
	}
	sort.Strings(layout)

	// dry run
	t0 = time.Now()
	dryBody, realBody := st.DryBody, st.RealBody
	if dryBody == "" {
		dryBody = `{"dry_run":true}`
	}
	if realBody == "" {
		realBody = `{"confirm":true}`
	}
	if strings.Contains(dryBody, `"confirm":true`) {
		r.counters["dry_runs_with_confirm_true"]++
	} else {
		r.counters["dry_runs_without_confirm"]++
	}
	dry, dcode, draw := r.execute(true, "http", dryBody)
	r.timed("dry_run", t0)
	if d := diffSnapshots(s0.all, snapshotTree(r.n.Root)); len(d) > 0 {
		r.add("retention dry run deleted or modified files", base(map[string]any{"diff": d, "response": draw, "request_body": dryBody}))
	}
	if dcode != 200 {
		r.fail(fmt.Sprintf("dry run refused: HTTP %d %s", dcode, draw))
		return
	}
	wantCut := cutoff.Format(time.RFC3339)
	if dry.CutoffDate != wantCut {
		r.add("reported cutoff differs from now - (retention_days + buffer_days) days", base(map[string]any{"reported": dry.CutoffDate, "expected": wantCut}))
	}

	// real run
	t0 = time.Now()
	real, code, raw := r.execute(false, st.Exec, realBody)
	r.timed("real_run", t0)
	s2, err := captureC11(r.n.Root)
	if err != nil {
		r.add("stored file unreadable after retention", base(map[string]any{"err": err.Error()}))
		return
	}
	r.evals++
	r.counters["retention_runs_"+st.Exec]++
	success := code == 200
	if !success {
		r.counters["real_run_reported_failure"]++
	}

	// (1) no row at or after the cutoff is removed; nothing outside the policy is removed
	removedRows, removedFiles := 0, 0
	type badRow struct {
		Rid  int64  `json:"rid"`
		T    int64  `json:"t_us"`
		File string `json:"file"`
	}
	sigRows := map[string][]badRow{}
	var rids []int64
	for rid := range s0.rowAt {
		rids = append(rids, rid)
	}
	sort.Slice(rids, func(i, j int) bool { return rids[i] < rids[j] })
	for _, rid := range rids {
		if _, ok := s2.rowAt[rid]; ok {
			continue
		}
		removedRows++
		f := s0.rowAt[rid]
		t := s0.rowT[rid]
		if !cs.covered(f.DB, f.M) {
			rel := "unrelated name"
			switch {
			case f.DB == cs.PolicyDB && cs.PolicyM != nil && strings.HasPrefix(f.M, *cs.PolicyM):
				rel = "measurement name has the policy's measurement as a prefix"
			case f.DB == cs.PolicyDB && cs.PolicyM != nil && strings.HasPrefix(*cs.PolicyM, f.M):
				rel = "measurement name is a prefix of the policy's measurement"
			case f.DB != cs.PolicyDB && strings.HasPrefix(f.DB, cs.PolicyDB):
				rel = "database name has the policy's database as a prefix"
			case f.DB != cs.PolicyDB && strings.HasPrefix(cs.PolicyDB, f.DB):
				rel = "database name is a prefix of the policy's database"
			}
			sig := "retention removed rows of a measurement/database the policy does not cover [" + rel + "]"
			sigRows[sig] = append(sigRows[sig], badRow{rid, t, f.Rel})
			continue
		}
		if t*1000 >= cutNS {
			where := "after the cutoff"
			if t*1000 == cutNS {
				where = "exactly at the cutoff"
			}
			sig := fmt.Sprintf("retention removed a row %s [file %s]", where, classOf(f, cutNS))
			sigRows[sig] = append(sigRows[sig], badRow{rid, t, f.Rel})
		}
	}
	for rel := range s0.files {
		if _, ok := s2.files[rel]; !ok {
			removedFiles++
		}
	}
	var sigs []string
	for s := range sigRows {
		sigs = append(sigs, s)
	}
	sort.Strings(sigs)
	for _, s := range sigs {
		rows := sigRows[s]
		r.add(s, base(map[string]any{"rows": rows[:min(len(rows), 10)], "rows_total": len(rows), "file": s0.files[rows[0].File], "response": raw}))
	}
	var invented []int64
	for rid := range s2.rowAt {
		if _, ok := s0.rowAt[rid]; !ok {
			invented = append(invented, rid)
		}
	}
	if len(invented) > 0 || len(s2.dup) > 0 {
		r.add("rows appeared or were duplicated during a retention run", base(map[string]any{"rids": invented, "dup": s2.dup}))
	}
	// files outside the policy are byte-identical
	var touched []string
	for rel, f := range s0.files {
		if cs.covered(f.DB, f.M) {
			continue
		}
		g, ok := s2.files[rel]
		if !ok || g.SHA != f.SHA {
			touched = append(touched, rel)
		}
	}
	sort.Strings(touched)
	if len(touched) > 0 && len(sigRows) == 0 {
		r.add("retention modified a file of a measurement/database the policy does not cover", base(map[string]any{"files": touched}))
	}

	// (2) after a successful run no remaining covered file is wholly older than the cutoff
	if success {
		var rels []string
		for rel := range s2.files {
			rels = append(rels, rel)
		}
		sort.Strings(rels)
		left := map[string][]*c11File{}
		for _, rel := range rels {
			f := s2.files[rel]
			if cs.covered(f.DB, f.M) && f.MaxUS*1000 < cutNS {
				sig := fmt.Sprintf("a file %s remains after a successful retention run", classOf(f, cutNS))
				left[sig] = append(left[sig], f)
			}
		}
		var ls []string
		for s := range left {
			ls = append(ls, s)
		}
		sort.Strings(ls)
		for _, s := range ls {
			r.add(s, base(map[string]any{"files": left[s][:min(len(left[s]), 5)], "files_total": len(left[s]), "response": raw}))
		}
		// (3) the dry run reported what the real run deleted
		if dry.DeletedCount != int64(removedRows) || dry.FilesDeleted != removedFiles {
			what := "rows"
			if dry.DeletedCount == int64(removedRows) {
				what = "files"
			}
			r.add("dry-run report differs from what the following real run deleted ["+what+"]", base(map[string]any{
				"dry_run": draw, "real_run": raw, "rows_removed_observed": removedRows, "files_removed_observed": removedFiles}))
		}
		if real.DeletedCount != int64(removedRows) || real.FilesDeleted != removedFiles {
			r.counters["real_run_report_differs_from_observed"]++
		}
	}
	r.counters["files_before"] += int64(len(s0.files))
	r.counters["files_removed"] += int64(removedFiles)
	r.counters["rows_before"] += int64(len(s0.rowAt))
	r.counters["rows_removed"] += int64(removedRows)
	r.counters["covered_files_expected_to_go"] += int64(expectGone)
	if expectGone > 0 && expectGone < coveredFiles {
		r.nontriv = append(r.nontriv, strings.Join(layout, ";")+fmt.Sprintf("|%d|%s", cutNS%int64(usPerHour*1000), st.Exec))
	}
	if r.sample == nil {
		pm := "<none>"
		if cs.PolicyM != nil {
			pm = *cs.PolicyM
		}
		r.sample = map[string]any{"policy": fmt.Sprintf("%s/%s %d+%dd", cs.PolicyDB, pm, cs.RetentionDays, cs.BufferDays), "cutoff": cutoff.Format(time.RFC3339Nano),
			"files_before": len(s0.files), "covered_files": coveredFiles, "files_removed": removedFiles, "rows_removed": removedRows,
			"dry_run": map[string]any{"deleted_count": dry.DeletedCount, "files_deleted": dry.FilesDeleted}, "via": st.Exec, "compaction": st.Compact}
	}
}

// ---------- driver ----------

func installC11Clock() {
	verifhook.SetNow(func() time.Time { return time.Unix(0, c11VNow.Load()).UTC() })
}

func parallel(n, workers int, f func(i int)) {
	var wg sync.WaitGroup
	ch := make(chan int)
	for w := 0; w < workers; w++ {
		wg.Add(1)
		go func() {
			defer wg.Done()
			for i := range ch {
				f(i)
			}
		}()
	}
	for i := 0; i < n; i++ {
		ch <- i
	}
	close(ch)
	wg.Wait()
}

// c11Report is what one case contributes to the evidence; it crosses a process
// boundary as JSON (details stay raw so that int64 nanoseconds survive).
type c11Report struct {
	Idx      int `json:"idx"`
	Findings []struct {
		Sig    string          `json:"sig"`
		Detail json.RawMessage `json:"detail"`
	} `json:"findings"`
	Inconcl  string           `json:"inconclusive,omitempty"`
	Counters map[string]int64 `json:"counters"`
	Nontriv  []string         `json:"nontrivial"`
	Evals    int              `json:"evals"`
	Sample   json.RawMessage  `json:"sample,omitempty"`
}

type c11RoundSpec struct {
	Now1NS  int64     `json:"now1_ns"`
	Now2NS  int64     `json:"now2_ns"`
	Workers int       `json:"workers"`
	Cases   []c11Case `json:"cases"`
}

func (r *c11Runner) report() c11Report {
	rep := c11Report{Idx: r.cs.Idx, Inconcl: r.inconcl, Counters: r.counters, Nontriv: r.nontriv, Evals: r.evals}
	for _, f := range r.findings {
		b, _ := json.Marshal(f.detail)
		rep.Findings = append(rep.Findings, struct {
			Sig    string          `json:"sig"`
			Detail json.RawMessage `json:"detail"`
		}{f.sig, b})
	}
	if r.sample != nil {
		rep.Sample, _ = json.Marshal(r.sample)
	}
	return rep
}

// runC11Round runs the cases of one round in this process. The virtual clock is
// process-global, so the cases advance in lock step: prepare / run step 0 under now1 /
// prepare step 1 / run step 1 under now2.
func runC11Round(spec c11RoundSpec) []c11Report {
	installC11Clock()
	defer verifhook.SetNow(nil)
	n := len(spec.Cases)
	w := spec.Workers
	if w <= 0 {
		w = 4
	}
	runners := make([]*c11Runner, n)
	parallel(n, w, func(i int) {
		runners[i] = newC11Runner(spec.Cases[i])
		runners[i].prepare(0)
	})
	c11VNow.Store(spec.Now1NS)
	parallel(n, w, func(i int) { runners[i].run(0) })
	parallel(n, w, func(i int) {
		if len(runners[i].cs.Steps) > 1 {
			runners[i].prepare(1)
		}
	})
	c11VNow.Store(spec.Now2NS)
	parallel(n, w, func(i int) {
		if len(runners[i].cs.Steps) > 1 {
			runners[i].run(1)
		}
		runners[i].close()
	})
	out := make([]c11Report, n)
	for i, r := range runners {
		out[i] = r.report()
	}
	return out
}

// runC11RoundChild: `<exe> c11round <spec.json> <out.json>`; one OS process per round so
// that rounds with different virtual clocks run side by side.
func runC11RoundChild(args []string) {
	if len(args) != 2 {
		fmt.Fprintln(os.Stderr, "usage: c11round <spec.json> <out.json>")
		os.Exit(2)
	}
	b, err := os.ReadFile(args[0])
	if err != nil {
		fmt.Fprintln(os.Stderr, err)
		os.Exit(2)
	}
	var spec c11RoundSpec
	if err := json.Unmarshal(b, &spec); err != nil {
		fmt.Fprintln(os.Stderr, err)
		os.Exit(2)
	}
	out, _ := json.Marshal(runC11Round(spec))
	if err := os.WriteFile(args[1], out, 0o644); err != nil {
		fmt.Fprintln(os.Stderr, err)
		os.Exit(2)
	}
}

func checkC11(c *vlib.Ctx) {
	c.Rule("case = storage layout x policy. Layout: 3..9 database/measurement pairs with shared name prefixes (db/db2/d/db_, cpu/cpu_total/cp/cpu-1), " +
		"each filled through arc's ingest in 1-3 flush generations with hour files placed days below, hours around and days above the cutoff, and inside the cutoff hour " +
		"files whose maximum is the last microsecond before the cutoff, exactly the cutoff, straddling it, or starting at it; in a third of the steps real hourly / hourly+daily compaction cycles " +
		"(compacted hour files and day files). Policy: database x (no filter | cpu | cpu_total | cp | empty string | unknown), retention 1..365 d, buffer 0..7 d. " +
		"The virtual clock fixes now so that the cutoff is mid-hour, has a nanosecond remainder, or sits exactly on / next to an hour or day boundary (one alignment per round of 25 cases). " +
		"40% of the cases run a second step (more ingest and/or compaction, clock advanced by 1ns..3d). Every step = dry run, then real run via HTTP or via ExecutePolicy (scheduler entry point, no flags); the HTTP bodies range over every accepted flag combination (dry_run alone, dry_run with confirm false/true in either key order; confirm alone, confirm with dry_run=false). " +
		"Non-trivial = some but not all covered files are wholly older than the cutoff; distinct by the multiset of (pair, file kind, class relative to cutoff, covered).")
	c.Assume("The policy's cutoff is now - (retention_days + buffer_days) x 24h in UTC, now being the (virtual) clock read by internal/api/retention.go; all time.Now calls of that file are redirected by the build-time rewrite.")
	c.Assume("State before/after is read with the arrow-go Parquet reader (vpq); rows are identified by rid, files by path + sha256. Compaction effects happen before the 'before' snapshot and are not judged here (C09).")
	c.Assume("Retention runs are not concurrent with compaction or ingest in this check (sequential interleavings only); local storage backend; no cluster coordinator; license client nil (HTTP execute is not license-gated, ExecutePolicy gates only on a non-nil client).")

	if c.Replay != "" {
		var d struct {
			Case c11Case `json:"case"`
		}
		if err := vlib.LoadReplay(c.Replay, &d); err != nil {
			panic(err)
		}
		spec := c11RoundSpec{Now1NS: d.Case.Steps[0].NowNS, Workers: 1, Cases: []c11Case{d.Case}}
		if len(d.Case.Steps) > 1 {
			spec.Now2NS = d.Case.Steps[1].NowNS
		}
		for _, rep := range runC11Round(spec) {
			reportC11(c, rep)
		}
		c.Floor(0)
		return
	}

	rounds := c.N(6, 120)
	perRound := c.N(25, 50)
	rr := c.Rand("rounds")
	exe, err := os.Executable()
	if err != nil {
		panic(err)
	}
	dir := vlib.TempDir("c11rounds")
	defer os.RemoveAll(dir)
	specs := make([]c11RoundSpec, rounds)
	idx := 0
	for ri := range specs {
		rd := genC11Round(rr, ri)
		c.Count("rounds_cutoff_"+strings.ReplaceAll(rd.Kind, " ", "_"), 1)
		specs[ri] = c11RoundSpec{Now1NS: rd.Now1NS, Now2NS: rd.Now2NS, Workers: 4}
		for i := 0; i < perRound; i++ {
			specs[ri].Cases = append(specs[ri].Cases, genC11Case(c.Rand(fmt.Sprintf("case/%d", idx)), idx, ri, rd))
			idx++
		}
	}
	results := make([][]c11Report, rounds)
	errs := make([]string, rounds)
	parallel(rounds, 6, func(ri int) {
		in := filepath.Join(dir, fmt.Sprintf("round-%d.json", ri))
		out := filepath.Join(dir, fmt.Sprintf("round-%d.out.json", ri))
		b, _ := json.Marshal(specs[ri])
		if err := os.WriteFile(in, b, 0o644); err != nil {
			errs[ri] = err.Error()
			return
		}
		ctx, cancel := context.WithTimeout(context.Background(), 45*time.Minute)
		defer cancel()
		cmd := exec.CommandContext(ctx, exe, "c11round", in, out)
		var stderr bytes.Buffer
		cmd.Stderr = &stderr
		if err := cmd.Run(); err != nil {
			errs[ri] = fmt.Sprintf("round %d child: %v: %s", ri, err, tail(stderr.String(), 2000))
			return
		}
		ob, err := os.ReadFile(out)
		if err == nil {
			err = json.Unmarshal(ob, &results[ri])
		}
		if err != nil {
			errs[ri] = fmt.Sprintf("round %d result: %v", ri, err)
		}
		os.Remove(in)
		os.Remove(out)
	})
	for ri := range results {
		if errs[ri] != "" {
			c.Inconclusive(errs[ri])
		}
		for _, rep := range results[ri] {
			reportC11(c, rep)
		}
	}
	c.Floor(c.N(60, 2000))
}

func tail(s string, n int) string {
	if len(s) > n {
		return s[len(s)-n:]
	}
	return s
}

func reportC11(c *vlib.Ctx, r c11Report) {
	if r.Inconcl != "" {
		c.Inconclusive(r.Inconcl)
	}
	c.EvalN(r.Evals)
	for _, k := range r.Nontriv {
		c.Nontrivial(k)
	}
	for k, v := range r.Counters {
		c.Count(k, v)
	}
	if r.Sample != nil {
		c.Sample(r.Sample)
	}
	for _, f := range r.Findings {
		c.Violation(f.Sig, f.Detail)
	}
}
