package main

import (
	"math/rand/v2"
	"sort"
)

const (
	usPerSec  = int64(1_000_000)
	usPerHour = 3600 * usPerSec
	usPerDay  = 24 * usPerHour
	nsPerDay  = usPerDay * 1000
)

// c11Point is one ingested row.
type c11Point struct {
	DB  string `json:"db"`
	M   string `json:"m"`
	Rid int64  `json:"rid"`
	T   int64  `json:"t_us"`
}

// c11Step is one retention run (dry run, then real run) preceded by ingest / compaction.
type c11Step struct {
	NowNS   int64        `json:"virtual_now_ns"`
	Gens    [][]c11Point `json:"generations"`  // one flush generation each, ingested before the run
	Compact string       `json:"compaction"`   // "", "hourly", "hourly+daily" (+"@policydb" = only the policy's database): real compaction cycles after the ingest
	Exec    string       `json:"real_run_via"` // "http" (POST .../execute) | "scheduler" (ExecutePolicy, the scheduler's entry point)
	// Request bodies of the HTTP execute calls: every flag combination handleExecute
	// accepts (ExecuteRetentionRequest has exactly dry_run and confirm; ExecutePolicy
	// takes no flags). Empty = {"dry_run":true} / {"confirm":true} (older replays).
	DryBody  string `json:"dry_run_request_body,omitempty"`
	RealBody string `json:"real_run_request_body,omitempty"`
}

// c11Case is one layout + policy (also the replay format).
type c11Case struct {
	Idx           int       `json:"case"`
	Round         int       `json:"round"`
	RetentionDays int       `json:"retention_days"`
	BufferDays    int       `json:"buffer_days"`
	PolicyDB      string    `json:"policy_database"`
	PolicyM       *string   `json:"policy_measurement"` // nil = no filter
	Steps         []c11Step `json:"steps"`
}

func (cs *c11Case) cutoffNS(step int) int64 {
	return cs.Steps[step].NowNS - int64(cs.RetentionDays+cs.BufferDays)*nsPerDay
}

func (cs *c11Case) covered(db, m string) bool {
	if db != cs.PolicyDB {
		return false
	}
	return cs.PolicyM == nil || *cs.PolicyM == "" || *cs.PolicyM == m
}

// c11Round fixes the virtual clock of all cases of one round (the clock is
// process-global, the cases of a round run in parallel).
type c11Round struct {
	Now1NS, Now2NS int64
	Kind           string
}

// genC11Round picks "now" so that the cutoff (now - whole days) has a chosen alignment.
func genC11Round(r *rand.Rand, i int) c11Round {
	day := int64(1748736000) + int64(r.IntN(60))*86400 // 2025-06-01 + 0..59 days, seconds
	var ns int64
	kind := []string{"mid-hour microsecond", "mid-hour with nanosecond remainder", "exact hour boundary", "exact day boundary", "one microsecond after an hour boundary", "last microsecond of an hour"}[i%6]
	switch i % 6 {
	case 0:
		ns = (int64(r.IntN(24))*3600+int64(1+r.IntN(3598)))*1e9 + int64(r.IntN(1_000_000))*1000
	case 1:
		ns = (int64(r.IntN(24))*3600+int64(1+r.IntN(3598)))*1e9 + int64(r.IntN(1_000_000))*1000 + int64(1+r.IntN(999))
	case 2:
		ns = int64(1+r.IntN(23)) * 3600 * 1e9
	case 3:
		ns = 0
	case 4:
		ns = int64(r.IntN(24))*3600*1e9 + 1000
	default:
		ns = int64(1+r.IntN(24))*3600*1e9 - 1000
	}
	now1 := day*1e9 + ns
	delta := []int64{1000, 1e9, 3600 * 1e9, 24 * 3600 * 1e9, 3 * 24 * 3600 * 1e9, 1}[r.IntN(6)]
	return c11Round{Now1NS: now1, Now2NS: now1 + delta, Kind: kind}
}

func floorDiv(a, b int64) int64 {
	q := a / b
	if a%b != 0 && (a < 0) != (b < 0) {
		q--
	}
	return q
}

// slotTimes returns row times (us) for one file-to-be: all in one hour partition.
// cutNS is the cutoff the slot is positioned against.
func slotTimes(r *rand.Rand, cutNS int64) []int64 {
	cUS := floorDiv(cutNS, 1000)
	aligned := cutNS%1000 == 0
	hc := cUS - cUS%usPerHour
	he := hc + usPerHour
	below := func(t int64) bool { return t*1000 < cutNS }
	inHour := func(t int64) bool { return t >= hc && t < he }
	var B, E, A []int64
	for _, t := range []int64{hc, cUS - 17*usPerSec, cUS - usPerSec, cUS - 1, cUS} {
		if inHour(t) && below(t) {
			B = append(B, t)
		}
	}
	if aligned {
		E = []int64{cUS}
	}
	for _, t := range []int64{cUS + 1, cUS + usPerSec, cUS + 29*usPerSec, he - 1} {
		if inHour(t) && !below(t) && t*1000 != cutNS {
			A = append(A, t)
		}
	}
	subset := func(xs []int64, must int) []int64 {
		var out []int64
		for i, x := range xs {
			if i == must || r.IntN(2) == 0 {
				out = append(out, x)
			}
		}
		return out
	}
	otherHour := func(h int64) []int64 {
		k := 1 + r.IntN(3)
		var out []int64
		for i := 0; i < k; i++ {
			switch r.IntN(6) {
			case 0:
				out = append(out, h)
			case 1:
				out = append(out, h+usPerHour-1)
			default:
				out = append(out, h+r.Int64N(usPerHour))
			}
		}
		return out
	}
	switch r.IntN(14) {
	case 0: // file whose maximum is the largest timestamp below the cutoff
		if len(B) > 0 {
			return subset(B, len(B)-1)
		}
		return append(otherHour(hc-usPerHour), hc-1) // cutoff on an hour boundary: previous hour ends at cutoff-1us
	case 1, 2: // maximum exactly equal to the cutoff
		if len(E) > 0 {
			return append(subset(B, -1), E[0])
		}
		return subset(B, len(B)-1)
	case 3, 4: // straddles the cutoff inside one hour file
		out := subset(B, -1)
		if len(E) > 0 && r.IntN(2) == 0 {
			out = append(out, E[0])
		}
		if len(A) > 0 {
			out = append(out, subset(A, r.IntN(len(A)))...)
		}
		if len(out) == 0 {
			out = otherHour(hc)
		}
		return out
	case 5: // minimum exactly equal to / just above the cutoff
		var out []int64
		if len(E) > 0 {
			out = append(out, E[0])
		}
		if len(A) > 0 {
			out = append(out, subset(A, 0)...)
		}
		if len(out) == 0 {
			out = otherHour(he)
		}
		return out
	case 6: // previous hour
		return otherHour(hc - usPerHour)
	case 7: // next hour
		return otherHour(he)
	case 8: // same day, earlier hours
		return otherHour(hc - int64(1+r.IntN(23))*usPerHour)
	case 9: // later hours
		return otherHour(hc + int64(1+r.IntN(23))*usPerHour)
	case 10, 11: // days below
		return otherHour(hc - int64(1+r.IntN(40))*usPerDay + int64(r.IntN(24)-12)*usPerHour)
	default: // days above
		return otherHour(hc + int64(1+r.IntN(40))*usPerDay + int64(r.IntN(24)-12)*usPerHour)
	}
}

type c11Pair struct{ db, m string }

func genC11Case(r *rand.Rand, idx, round int, rd c11Round) c11Case {
	cs := c11Case{Idx: idx, Round: round}
	for {
		cs.RetentionDays = pick(r, []int{1, 2, 7, 30, 90, 365})
		cs.BufferDays = pick(r, []int{0, 0, 1, 7})
		if cs.RetentionDays > cs.BufferDays {
			break
		}
	}
	cs.PolicyDB = pick(r, []string{"db", "db", "db", "db", "db2", "d"})
	switch x := r.IntN(100); {
	case x < 38:
	case x < 72:
		s := "cpu"
		cs.PolicyM = &s
	case x < 82:
		s := "cpu_total"
		cs.PolicyM = &s
	case x < 88:
		s := "cp"
		cs.PolicyM = &s
	case x < 94:
		s := ""
		cs.PolicyM = &s
	default:
		s := "nosuch"
		cs.PolicyM = &s
	}
	// databases / measurements with shared name prefixes
	pairs := []c11Pair{{"db", "cpu"}, {"db", "cpu_total"}, {"db2", "cpu"}}
	for _, p := range []c11Pair{{"db", "cp"}, {"db", "mem"}, {"db2", "cpu_total"}, {"d", "cpu"}, {"db_", "cpu"}, {"db", "cpu-1"}} {
		if r.IntN(3) == 0 {
			pairs = append(pairs, p)
		}
	}
	twoSteps := r.IntN(100) < 40
	cs.Steps = []c11Step{{NowNS: rd.Now1NS}}
	if twoSteps {
		cs.Steps = append(cs.Steps, c11Step{NowNS: rd.Now2NS})
	}
	rid := int64(0)
	genGens := func(step int) [][]c11Point {
		nG := 1 + r.IntN(3)
		if step > 0 {
			nG = r.IntN(3)
		}
		gens := make([][]c11Point, 0, nG)
		for g := 0; g < nG; g++ {
			var pts []c11Point
			for _, p := range pairs {
				if step > 0 && r.IntN(2) == 0 {
					continue
				}
				nSlots := 1 + r.IntN(3)
				for s := 0; s < nSlots; s++ {
					cut := cs.cutoffNS(step)
					if len(cs.Steps) > 1 && r.IntN(100) < 30 {
						cut = cs.cutoffNS(1)
					}
					for _, t := range slotTimes(r, cut) {
						rid++
						pts = append(pts, c11Point{DB: p.db, M: p.m, Rid: rid, T: t})
					}
				}
			}
			if len(pts) > 0 {
				sort.SliceStable(pts, func(i, j int) bool { return pts[i].DB < pts[j].DB })
				gens = append(gens, pts)
			}
		}
		return gens
	}
	for si := range cs.Steps {
		st := &cs.Steps[si]
		st.Gens = genGens(si)
		// real compaction cycles are expensive (one child process per partition job): a third of the steps
		switch x := r.IntN(100); {
		case x < 68:
			st.Compact = ""
		case x < 76:
			st.Compact = "hourly@policydb"
		case x < 80:
			st.Compact = "hourly"
		case x < 94:
			st.Compact = "hourly+daily@policydb"
		default:
			st.Compact = "hourly+daily"
		}
		st.Exec = pick(r, []string{"http", "scheduler"})
		st.DryBody = pick(r, []string{`{"dry_run":true}`, `{"dry_run":true,"confirm":false}`, `{"dry_run":true,"confirm":true}`, `{"confirm":true,"dry_run":true}`})
		st.RealBody = pick(r, []string{`{"confirm":true}`, `{"dry_run":false,"confirm":true}`})
	}
	return cs
}
