package main

import (
	"bytes"
	"crypto/sha256"
	"encoding/hex"
	"encoding/json"
	"fmt"
	"io/fs"
	"os"
	"path/filepath"
	"sort"
	"strings"
	"sync"

	"github.com/basekick-labs/arc/internal/zzverif/vfix"
	"github.com/basekick-labs/arc/internal/zzverif/vlib"
	"github.com/basekick-labs/arc/internal/zzverif/vpq"
)

const c10DB = "c10"

// ---------- observation helpers ----------

// snapshotTree returns rel path -> sha256 for every regular file under dir.
func snapshotTree(dir string) map[string]string {
	out := map[string]string{}
	filepath.WalkDir(dir, func(p string, d fs.DirEntry, err error) error {
		if err != nil || d.IsDir() {
			return nil
		}
		b, err := os.ReadFile(p)
		if err != nil {
			return nil
		}
		h := sha256.Sum256(b)
		rel, _ := filepath.Rel(dir, p)
		out[filepath.ToSlash(rel)] = hex.EncodeToString(h[:])
		return nil
	})
	return out
}

func diffSnapshots(a, b map[string]string) []string {
	var d []string
	for k, v := range a {
		w, ok := b[k]
		if !ok {
			d = append(d, "removed:"+k)
		} else if v != w {
			d = append(d, "changed:"+k)
		}
	}
	for k := range b {
		if _, ok := a[k]; !ok {
			d = append(d, "added:"+k)
		}
	}
	sort.Strings(d)
	return d
}

// storedRow is a row as read back by the independent Parquet reader.
type storedRow struct {
	file string
	vals map[string]any
}

// canonRow renders all non-null cells (an absent column and a null cell are the same
// thing for a row: the union schema gives NULL).
func canonRow(vals map[string]any) string {
	keys := make([]string, 0, len(vals))
	for k, v := range vals {
		if v != nil {
			keys = append(keys, k)
		}
	}
	sort.Strings(keys)
	var b strings.Builder
	for _, k := range keys {
		fmt.Fprintf(&b, "%s=%T:%v;", k, vals[k], vals[k])
	}
	return b.String()
}

// whereMentions reports whether the predicate text references the column as a whole word.
func whereMentions(where, col string) bool {
	isWord := func(b byte) bool {
		return b == '_' || b >= '0' && b <= '9' || b >= 'a' && b <= 'z' || b >= 'A' && b <= 'Z'
	}
	for i := 0; i+len(col) <= len(where); i++ {
		if where[i:i+len(col)] == col && (i == 0 || !isWord(where[i-1])) && (i+len(col) == len(where) || !isWord(where[i+len(col)])) {
			return true
		}
	}
	return false
}

// readMeasurement reads every Parquet file of root/db/m: rid -> row, plus per-file rid lists.
func readMeasurement(root, db, m string) (rows map[int64]storedRow, perFile map[string][]int64, dup []int64, err error) {
	rows = map[int64]storedRow{}
	perFile = map[string][]int64{}
	for _, abs := range vfix.ParquetFiles(root, db, m) {
		rel, _ := filepath.Rel(root, abs)
		rel = filepath.ToSlash(rel)
		f, e := vpq.ReadFile(abs, rel)
		if e != nil {
			return nil, nil, nil, e
		}
		perFile[rel] = []int64{}
		for _, r := range f.Rows {
			rid, ok := r["rid"].(int64)
			if !ok {
				return nil, nil, nil, fmt.Errorf("row without int64 rid in %s", rel)
			}
			if _, seen := rows[rid]; seen {
				dup = append(dup, rid)
			}
			rows[rid] = storedRow{file: rel, vals: r}
			perFile[rel] = append(perFile[rel], rid)
		}
	}
	return rows, perFile, dup, nil
}

type deleteResp struct {
	Success        bool     `json:"success"`
	DeletedCount   int64    `json:"deleted_count"`
	AffectedFiles  int      `json:"affected_files"`
	RewrittenFiles int      `json:"rewritten_files"`
	DryRun         bool     `json:"dry_run"`
	FilesProcessed []string `json:"files_processed"`
	FailedFiles    []string `json:"failed_files"`
	Error          string   `json:"error"`
}

func postDelete(n *vfix.Node, db, m, where string, dry bool) (int, deleteResp, string) {
	body, _ := json.Marshal(map[string]any{"database": db, "measurement": m, "where": where, "dry_run": dry, "confirm": true})
	code, b, _ := n.Do("POST", "/api/v1/delete", map[string]string{"Content-Type": "application/json"}, body)
	var r deleteResp
	_ = json.Unmarshal(b, &r)
	return code, r, string(b)
}

// ---------- one case ----------

type c10Finding struct {
	sig    string
	detail map[string]any
}

type c10Result struct {
	idx        int
	findings   []c10Finding
	inconcl    string
	counters   map[string]int64
	nontrivial string
	sample     any
	evaluated  bool
}

// c10Worker owns one in-process arc node and one reference engine.
type c10Worker struct {
	n        *vfix.Node
	ref      *vfix.Ref
	accepted int64
}

func newC10Worker() (*c10Worker, error) {
	n, err := vfix.NewNode(vfix.Options{WithQuery: true})
	if err != nil {
		return nil, err
	}
	ref, err := vfix.NewRef()
	if err != nil {
		n.Close()
		return nil, err
	}
	return &c10Worker{n: n, ref: ref}, nil
}

func (w *c10Worker) close() {
	w.ref.Close()
	w.n.Close()
}

func rowExample(r storedRow) map[string]any {
	out := map[string]any{"file": r.file}
	for k, v := range r.vals {
		out[k] = v
	}
	return out
}

func (w *c10Worker) run(cs c10Case, mname string) (res c10Result) {
	res = c10Result{idx: cs.Idx, counters: map[string]int64{}}
	cnt := func(k string, v int64) { res.counters[k] += v }
	n := w.n
	add := func(sig string, detail map[string]any) {
		detail["case"] = cs
		detail["measurement"] = mname
		res.findings = append(res.findings, c10Finding{sig, detail})
	}

	// 1. ingest through arc's real write path: one request + flush per generation
	for _, g := range cs.Gens {
		var body bytes.Buffer
		for _, r := range g {
			body.WriteString(r.lpLine(mname))
			body.WriteByte('\n')
		}
		code, b, _ := n.Do("POST", "/write?db="+c10DB+"&precision=us", nil, body.Bytes())
		if code != 204 {
			res.inconcl = fmt.Sprintf("case %d: write rejected with HTTP %d: %s", cs.Idx, code, b)
			return
		}
		w.accepted += int64(len(g))
		if !n.Quiesce(w.accepted) {
			res.inconcl = fmt.Sprintf("case %d: flush did not quiesce within the watchdog", cs.Idx)
			return
		}
	}
	mdir := filepath.Join(n.Root, c10DB, mname)
	if cs.ExtNames {
		byDir := map[string][]string{}
		for _, f := range vfix.ParquetFiles(n.Root, c10DB, mname) {
			byDir[filepath.Dir(f)] = append(byDir[filepath.Dir(f)], f)
		}
		for d, fs := range byDir {
			sort.Strings(fs)
			for i, f := range fs {
				if err := os.Rename(f, filepath.Join(d, fmt.Sprintf("part-%04d.parquet", i))); err != nil {
					res.inconcl = fmt.Sprintf("case %d: rename: %v", cs.Idx, err)
					return
				}
			}
		}
		if len(byDir) > 1 {
			cnt("cases_with_shared_base_names_across_partitions", 1)
		}
	}

	// 2. state before + reference evaluation (DuckDB three-valued logic, private engine)
	before, perFile, dup, err := readMeasurement(n.Root, c10DB, mname)
	if err != nil {
		res.inconcl = fmt.Sprintf("case %d: cannot read stored files: %v", cs.Idx, err)
		return
	}
	total := 0
	for _, g := range cs.Gens {
		total += len(g)
	}
	if len(dup) > 0 || len(before) != total {
		res.inconcl = fmt.Sprintf("case %d: ingest stored %d distinct rows of %d sent (C01/C03 territory, not C10)", cs.Idx, len(before), total)
		return
	}
	cnt("files_before", int64(len(perFile)))
	cnt("rows_before", int64(len(before)))
	var qf []string
	for _, f := range vfix.ParquetFiles(n.Root, c10DB, mname) {
		qf = append(qf, "'"+strings.ReplaceAll(f, "'", "''")+"'")
	}
	_, rrows, err := w.ref.Rows("SELECT rid, (" + cs.Where + ") AS p FROM read_parquet([" + strings.Join(qf, ",") + "], union_by_name=true)")
	if err != nil {
		res.inconcl = fmt.Sprintf("case %d: reference engine rejects generated predicate %q: %v", cs.Idx, cs.Where, err)
		return
	}
	setT, setF, setN := map[int64]bool{}, map[int64]bool{}, map[int64]bool{}
	for _, r := range rrows {
		var rid int64
		fmt.Sscan(r[0], &rid)
		switch r[1] {
		case "true":
			setT[rid] = true
		case "false":
			setF[rid] = true
		case "NULL":
			setN[rid] = true
		default:
			res.inconcl = fmt.Sprintf("case %d: predicate %q is not boolean in the reference engine (%s)", cs.Idx, cs.Where, r[1])
			return
		}
	}
	if len(setT)+len(setF)+len(setN) != len(before) {
		res.inconcl = fmt.Sprintf("case %d: reference engine saw %d rows, reader %d", cs.Idx, len(rrows), len(before))
		return
	}
	res.evaluated = true
	cnt("rows_pred_true", int64(len(setT)))
	cnt("rows_pred_false", int64(len(setF)))
	cnt("rows_pred_null", int64(len(setN)))
	// files with at least one true row are the ones a correct delete must rewrite
	affected := map[string]bool{}
	nullInAffected := 0
	for f, rids := range perFile {
		for _, rid := range rids {
			if setT[rid] {
				affected[f] = true
				break
			}
		}
	}
	for f, rids := range perFile {
		if affected[f] {
			for _, rid := range rids {
				if setN[rid] {
					nullInAffected++
				}
			}
		}
	}
	if len(setN) > 0 {
		cnt("cases_with_null_rows", 1)
	}
	if nullInAffected > 0 {
		cnt("cases_with_null_rows_in_files_that_have_true_rows", 1)
	}
	if len(setT) > 0 && len(setT) < len(before) {
		res.nontrivial = fmt.Sprintf("%s|%d|%d|%d|%d", cs.Where, len(setT), len(setF), len(setN), len(perFile))
	}
	for _, s := range cs.Shapes {
		cnt("shape_"+s, 1)
	}
	base := map[string]any{"true_rows": len(setT), "false_rows": len(setF), "null_rows": len(setN), "files": len(perFile), "files_with_true_rows": len(affected)}
	mk := func(extra map[string]any) map[string]any {
		d := map[string]any{}
		for k, v := range base {
			d[k] = v
		}
		for k, v := range extra {
			d[k] = v
		}
		return d
	}

	// 3. dry run: must change nothing and report |true|
	snap0 := snapshotTree(mdir)
	dcode, dresp, draw := postDelete(n, c10DB, mname, cs.Where, true)
	snap1 := snapshotTree(mdir)
	if d := diffSnapshots(snap0, snap1); len(d) > 0 {
		add("dry run modified the stored files", mk(map[string]any{"diff": d, "response": draw}))
	}
	if dcode != 200 || !dresp.Success {
		// The grammar only produces predicates the reference engine accepts; arc refusing
		// one is recorded (nothing may have changed) but is not a C10 refutation.
		cnt("dry_run_refused_by_arc", 1)
		res.sample = map[string]any{"where": cs.Where, "dry_run_refused": draw}
		res.evaluated = false
		res.nontrivial = ""
		return
	}
	cnt("dry_runs", 1)

	// 4. confirmed delete
	code, resp, raw := postDelete(n, c10DB, mname, cs.Where, false)
	after, perFileAfter, dupAfter, err := readMeasurement(n.Root, c10DB, mname)
	if err != nil {
		add("stored file unreadable after delete", mk(map[string]any{"err": err.Error(), "response": raw}))
		return
	}
	cnt("confirmed_deletes", 1)
	if len(dupAfter) > 0 {
		add("rows duplicated by the rewrite", mk(map[string]any{"rids": dupAfter}))
	}
	var lostT, lostF, lostN, keptT, invented []int64
	for rid := range before {
		if _, ok := after[rid]; !ok {
			switch {
			case setT[rid]:
				lostT = append(lostT, rid)
			case setF[rid]:
				lostF = append(lostF, rid)
			default:
				lostN = append(lostN, rid)
			}
		} else if setT[rid] {
			keptT = append(keptT, rid)
		}
	}
	for rid := range after {
		if _, ok := before[rid]; !ok {
			invented = append(invented, rid)
		}
	}
	for _, s := range [][]int64{lostT, lostF, lostN, keptT, invented} {
		sort.Slice(s, func(i, j int) bool { return s[i] < s[j] })
	}
	disappeared := int64(len(lostT) + len(lostF) + len(lostN))
	cnt("rows_disappeared", disappeared)
	cnt("rows_compared_after", int64(len(after)))
	for f := range perFile {
		if _, ok := perFileAfter[f]; !ok {
			cnt("files_removed_entirely", 1)
		}
	}
	snap2 := snapshotTree(mdir)
	for _, d := range diffSnapshots(snap1, snap2) {
		if strings.HasPrefix(d, "changed:") {
			cnt("files_rewritten", 1)
		}
	}
	counts := map[string]any{"dry_run_deleted_count": dresp.DeletedCount, "confirmed_deleted_count": resp.DeletedCount,
		"rows_disappeared": disappeared, "lost_true": len(lostT), "lost_false": len(lostF), "lost_null": len(lostN), "http": code, "response": raw}

	partial := code == 207 || (code == 200 && !resp.Success) || len(resp.FailedFiles) > 0
	if code != 200 && code != 207 {
		// the request as a whole failed: nothing may have been removed that is not selected
		cnt("confirmed_delete_refused_by_arc", 1)
		partial = true
	}
	if partial {
		cnt("partial_failure_reported", 1)
	}

	// rows that must never go away
	if len(lostF) > 0 {
		add("rows for which the predicate is false were deleted", mk(map[string]any{"counts": counts, "example": rowExample(before[lostF[0]]), "rids": lostF}))
	}
	if len(lostN) > 0 && len(lostF) > 0 {
		// not-selected rows of both kinds went away: one finding (the one above), not two
		cnt("null_rows_lost_together_with_false_rows", int64(len(lostN)))
	} else if len(lostN) > 0 {
		// classify: were all of them in files that also hold a true row (the rewrite of an
		// affected file), or also in files the delete had no reason to touch?
		allInAffected := true
		for _, rid := range lostN {
			if !affected[before[rid].file] {
				allInAffected = false
			}
		}
		sig := "rows for which the predicate is NULL were deleted together with the true rows of their file (rewrite keeps only rows where NOT (p) is true)"
		if !allInAffected {
			sig = "rows for which the predicate is NULL were deleted from a file that has no row selected by the predicate"
		}
		add(sig, mk(map[string]any{"counts": counts, "example_null_row": rowExample(before[lostN[0]]), "null_rows_deleted": lostN,
			"note": "dry run reports |true|; the confirmed delete reports and removes |true|+|NULL rows of rewritten files|"}))
	}
	if len(invented) > 0 {
		add("rows appeared that the measurement did not contain", mk(map[string]any{"rids": invented}))
	}
	// survivors keep every value
	changed := 0
	for rid, a := range after {
		b, ok := before[rid]
		if !ok {
			continue
		}
		if canonRow(a.vals) != canonRow(b.vals) {
			changed++
			if changed == 1 {
				add("a surviving row was changed by the rewrite", mk(map[string]any{"before": rowExample(b), "after": rowExample(a)}))
			}
		} else if a.file != b.file {
			add("a surviving row moved to another file", mk(map[string]any{"before": b.file, "after": a.file}))
		}
	}

	if !partial {
		// complete delete claimed: no selected row may remain
		if len(keptT) > 0 {
			// classify by where the surviving selected rows live: all of them in files whose
			// schema lacks a column the predicate tests (schema evolution) is its own class
			sig := "rows for which the predicate is true remain after a delete that reported success"
			if cs.Evolve != "" && whereMentions(cs.Where, cs.Evolve) {
				onlyEvolved := true
				for _, rid := range keptT {
					if _, has := before[rid].vals[cs.Evolve]; has {
						onlyEvolved = false
					}
				}
				if onlyEvolved {
					sig += " [every such row is in a file that lacks a column the predicate tests]"
				}
			}
			add(sig, mk(map[string]any{"counts": counts, "example": rowExample(before[keptT[0]]), "rids": keptT}))
		}
		// counts. Statement: reported count == rows that disappeared; dry run reports the same count.
		nullExplained := len(lostN) > 0 && len(lostF) == 0 && len(keptT) == 0
		if resp.DeletedCount != disappeared {
			add("deleted_count of the confirmed delete differs from the number of rows that disappeared", mk(map[string]any{"counts": counts}))
		}
		if dresp.DeletedCount != resp.DeletedCount {
			if nullExplained && resp.DeletedCount-dresp.DeletedCount == int64(len(lostN)) && dresp.DeletedCount == int64(len(setT)) {
				// same root cause as the NULL-row deletion above (the dry run counts WHERE p,
				// the rewrite removes NOT (p) IS NOT TRUE): recorded in that finding's detail
				cnt("dry_vs_confirmed_count_gap_explained_by_null_rows", 1)
			} else {
				add("dry run reports a different deleted_count than the confirmed delete", mk(map[string]any{"counts": counts}))
			}
		} else if dresp.DeletedCount != int64(len(setT)) && len(keptT) == 0 && len(lostF) == 0 && len(lostN) == 0 {
			add("deleted_count differs from the number of rows the predicate selects", mk(map[string]any{"counts": counts}))
		}
	} else {
		// honest partial failure: whatever was removed must be selected rows, and the
		// reported count must still be the number of rows that disappeared
		if resp.DeletedCount != disappeared && len(lostN) == 0 {
			add("deleted_count of a partially failed delete differs from the number of rows that disappeared", mk(map[string]any{"counts": counts}))
		}
		if len(keptT) > 0 {
			cnt("partial_failure_left_selected_rows", 1)
		}
		res.sample = map[string]any{"where": cs.Where, "partial_failure": raw, "column_absent_in_one_generation": cs.Evolve}
	}
	if res.sample == nil {
		res.sample = map[string]any{"where": cs.Where, "files": len(perFile), "true": len(setT), "false": len(setF), "null": len(setN),
			"dry_count": dresp.DeletedCount, "deleted_count": resp.DeletedCount, "disappeared": disappeared}
	}
	return
}

// ---------- driver ----------

func checkC10(c *vlib.Ctx) {
	c.Rule("case = dataset x predicate. Dataset: 2..9 Parquet files written by arc's own ingest (1-3 write+flush generations x 1-3 hour partitions) " +
		"with nullable tag/int/float/string/bool columns (null rates 0..0.8, 15% with a column absent from one generation) and a unique rid. " +
		"Predicate: random tree (depth<=3) over comparisons, AND/OR/NOT, IN (also with a NULL element), LIKE/ILIKE, IS [NOT] NULL, BETWEEN, " +
		"IS [NOT] DISTINCT FROM, time comparisons, rid modulo, a few scalar functions; all admitted by validateWhereClause. " +
		"Non-trivial = the predicate selects some but not all rows; distinct by predicate text and (true,false,null,files) counts.")
	c.Assume("Reference semantics of the predicate = DuckDB's own three-valued evaluation of `SELECT rid, (p)` over the same files in a private in-memory engine (no arc code involved), taken before the delete.")
	c.Assume("State before/after is read with the arrow-go Parquet reader (vpq), rows identified by rid; ingest correctness is C01's subject (a case whose ingest lost rows is inconclusive).")
	c.Assume("Local storage backend; requests go through the real Fiber route /api/v1/delete with deletes enabled and thresholds out of the way.")

	if c.Replay != "" {
		var d struct {
			Case c10Case `json:"case"`
		}
		if err := vlib.LoadReplay(c.Replay, &d); err != nil {
			panic(err)
		}
		w, err := newC10Worker()
		if err != nil {
			panic(err)
		}
		defer w.close()
		res := w.run(d.Case, "m_replay")
		reportC10(c, res)
		c.Floor(0)
		return
	}

	nCases := c.N(240, 30000)
	const workers = 8
	results := make([]c10Result, nCases)
	var wg sync.WaitGroup
	var fatal sync.Map
	for wi := 0; wi < workers; wi++ {
		wg.Add(1)
		go func(wi int) {
			defer wg.Done()
			var w *c10Worker
			done := 0
			for i := wi; i < nCases; i += workers {
				// a fresh node every 200 cases keeps the scratch dir and DuckDB caches small
				if w == nil || done%200 == 0 {
					if w != nil {
						w.close()
					}
					var err error
					if w, err = newC10Worker(); err != nil {
						fatal.Store(wi, err.Error())
						return
					}
				}
				done++
				cs := genC10Case(c.Rand(fmt.Sprintf("case/%d", i)), i)
				results[i] = w.run(cs, fmt.Sprintf("m%d", i))
				os.RemoveAll(filepath.Join(w.n.Root, c10DB, fmt.Sprintf("m%d", i)))
			}
			if w != nil {
				w.close()
			}
		}(wi)
	}
	wg.Wait()
	fatal.Range(func(k, v any) bool {
		c.Inconclusive(fmt.Sprintf("worker %v could not build a node: %v", k, v))
		return true
	})
	for i := range results {
		reportC10(c, results[i])
	}
	c.Floor(c.N(100, 10000))
}

func reportC10(c *vlib.Ctx, res c10Result) {
	if res.inconcl != "" {
		c.Inconclusive(res.inconcl)
	}
	if res.evaluated {
		c.Eval()
	}
	if res.nontrivial != "" {
		c.Nontrivial(res.nontrivial)
	}
	for k, v := range res.counters {
		c.Count(k, v)
	}
	if res.sample != nil {
		c.Sample(res.sample)
	}
	for _, f := range res.findings {
		c.Violation(f.sig, f.detail)
	}
}
