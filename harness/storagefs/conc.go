package main

import (
	"bytes"
	"context"
	"errors"
	"fmt"
	"io"
	"os"
	"path/filepath"
	"strings"
	"sync"
	"sync/atomic"

	"github.com/basekick-labs/arc/internal/storage"
	"github.com/basekick-labs/arc/internal/zzverif/vlib"
	"github.com/rs/zerolog"
)

// In-process concurrent readers: while writers publish successive complete
// versions of self-describing content through Write / WriteReader /
// WriteReader-interrupted-then-AppendReader, readers poll the final path (raw
// os.ReadFile and LocalBackend.Read). Every observation must be "absent" or a
// complete version written for that key. WriteReader/AppendReader use a fixed
// "<key>.part" staging name, so they get one writer per key (the puller's
// discipline); Write uses unique temp names and also gets writers sharing a key.

type concDetail struct {
	Kind   string `json:"kind"` // "concurrent-reader"
	Op     string `json:"op"`
	Key    string `json:"key"`
	Via    string `json:"read_via"`
	Seen   string `json:"seen"`
	Len    int    `json:"len"`
	Header string `json:"header"`
}

func runConcurrentReaders(c *vlib.Ctx, base string) {
	top, err := os.MkdirTemp(base, "cc-")
	if err != nil {
		panic(err)
	}
	defer os.RemoveAll(top)
	root := filepath.Join(top, "root")
	be, err := storage.NewLocalBackend(root, zerolog.Nop())
	if err != nil {
		panic(err)
	}
	ctx := context.Background()
	versions := c.N(40, 400)
	size := 192 * 1024

	type target struct{ op, key string }
	var targets []target
	var wg sync.WaitGroup
	var done atomic.Bool
	writer := func(op, key string, wid int) {
		defer wg.Done()
		for v := 0; v < versions; v++ {
			sz := size + 4099*((v+wid)%5)
			tag := fmt.Sprintf("%s|w%d|v%d", strings.ReplaceAll(key, "/", "_"), wid, v)
			content := detContent(tag, sz)
			var err error
			switch op {
			case "Write":
				err = be.Write(ctx, key, content)
			case "WriteReader":
				err = be.WriteReader(ctx, key, struct{ io.Reader }{bytes.NewReader(content)}, int64(sz))
			case "AppendReader":
				cut := sz / 3
				err = be.WriteReader(ctx, key, &errReader{data: content, n: cut}, int64(sz))
				if !errors.Is(err, errTransport) {
					c.Inconclusive(fmt.Sprintf("interrupted WriteReader returned %v", err))
					return
				}
				// the failing reader delivered exactly cut bytes, which are now staged; the
				// interrupted transfer must not have touched the final name (this writer
				// is the only one for the key, so the check is race-free)
				if v > 0 {
					prevTag := fmt.Sprintf("%s|w%d|v%d", strings.ReplaceAll(key, "/", "_"), wid, v-1)
					prev := detContent(prevTag, size+4099*((v-1+wid)%5))
					if st, n := finalState(filepath.Join(root, key), content, prev); st != "old-complete" {
						c.Violation("WriteReader: an interrupted transfer (reader error) changes what is under the final name",
							concDetail{Kind: "concurrent-reader", Op: "WriteReader", Key: key, Via: "writer self-check", Seen: st, Len: n})
					}
				} else if st, n := finalState(filepath.Join(root, key), content, nil); st != "absent" {
					c.Violation("WriteReader: an interrupted transfer (reader error) changes what is under the final name",
						concDetail{Kind: "concurrent-reader", Op: "WriteReader", Key: key, Via: "writer self-check", Seen: st, Len: n})
				}
				c.Count("interrupted_transfers_checked", 1)
				rest := content[cut:]
				err = be.AppendReader(ctx, key, struct{ io.Reader }{bytes.NewReader(rest)}, int64(len(rest)))
			}
			if err != nil {
				c.Inconclusive(fmt.Sprintf("concurrent writer %s %s: %v", op, key, err))
				return
			}
			c.Count("concurrent_versions_published_"+op, 1)
			c.Nontrivial("conc:" + tag) // per published version: independent of reader scheduling
		}
	}
	for _, op := range []string{"Write", "WriteReader", "AppendReader"} {
		for k := 0; k < 3; k++ {
			key := fmt.Sprintf("cc/%s/k%d/file.parquet", op, k)
			targets = append(targets, target{op, key})
			wg.Add(1)
			go writer(op, key, 0)
		}
	}
	shared := "cc/Write/shared/file.parquet"
	targets = append(targets, target{"Write", shared})
	for w := 1; w <= 3; w++ {
		wg.Add(1)
		go writer("Write", shared, w)
	}

	var rwg sync.WaitGroup
	for rd := 0; rd < 8; rd++ {
		rd := rd
		rwg.Add(1)
		go func() {
			defer rwg.Done()
			for i := rd; !done.Load(); i++ {
				t := targets[i%len(targets)]
				var b []byte
				var err error
				via := "os.ReadFile"
				if i%2 == 0 {
					b, err = os.ReadFile(filepath.Join(root, t.key))
					if err != nil && !os.IsNotExist(err) {
						c.Count("concurrent_reader_other_errors", 1)
						continue
					}
				} else {
					via = "LocalBackend.Read"
					b, err = be.Read(ctx, t.key)
					if err != nil && !strings.Contains(err.Error(), "file not found") {
						c.Count("concurrent_reader_other_errors", 1)
						continue
					}
				}
				if err != nil {
					c.Count("concurrent_reads_saw_absent", 1)
					continue
				}
				seen := ""
				tag, sz, ok := parseDet(b)
				wantTag := strings.ReplaceAll(t.key, "/", "_") + "|"
				switch {
				case len(b) == 0:
					seen = "an empty file"
				case !ok || !strings.HasPrefix(tag, wantTag):
					seen = "content that is no version written for this key"
				case len(b) < sz && bytes.Equal(b, detContent(tag, sz)[:len(b)]):
					seen = "a strict prefix of a version"
				case !bytes.Equal(b, detContent(tag, sz)):
					seen = "a mixture / corrupted version"
				}
				if seen == "" {
					c.Count("concurrent_reads_saw_complete", 1)
					continue
				}
				hdr := b
				if len(hdr) > 80 {
					hdr = hdr[:80]
				}
				c.Violation(fmt.Sprintf("%s: a concurrent reader sees %s under the final name", t.op, seen),
					concDetail{Kind: "concurrent-reader", Op: t.op, Key: t.key, Via: via, Seen: seen, Len: len(b), Header: fmt.Sprintf("%q", hdr)})
			}
		}()
	}
	wg.Wait()
	done.Store(true)
	rwg.Wait()
	// final state: every key holds a complete version
	for _, t := range targets {
		b, err := os.ReadFile(filepath.Join(root, t.key))
		tag, sz, ok := parseDet(b)
		if err != nil || !ok || !bytes.Equal(b, detContent(tag, sz)) {
			c.Violation(fmt.Sprintf("%s: after all writers finished the final name does not hold a complete version", t.op),
				concDetail{Kind: "concurrent-reader", Op: t.op, Key: t.key, Via: "final check", Len: len(b)})
		}
	}
}

// probeSharedWriteReader is INFORMATIONAL (VERIF_C08_PROBE=1): two writers stream
// different versions to the SAME key through WriteReader, which stages in the
// fixed "<key>.part". It only counts what readers see; concurrent same-key
// streamed writers are outside C08's quantifier (crash points of one operation).
func probeSharedWriteReader(c *vlib.Ctx, base string) {
	top, err := os.MkdirTemp(base, "pr-")
	if err != nil {
		panic(err)
	}
	defer os.RemoveAll(top)
	root := filepath.Join(top, "root")
	be, _ := storage.NewLocalBackend(root, zerolog.Nop())
	ctx := context.Background()
	key := "probe/shared.parquet"
	var wg sync.WaitGroup
	var done atomic.Bool
	for w := 0; w < 2; w++ {
		w := w
		wg.Add(1)
		go func() {
			defer wg.Done()
			for v := 0; v < 200; v++ {
				content := detContent(fmt.Sprintf("probe|w%d|v%d", w, v), 256*1024+w*8192)
				if err := be.WriteReader(ctx, key, struct{ io.Reader }{bytes.NewReader(content)}, int64(len(content))); err != nil {
					c.Count("probe_shared_writereader_errors", 1)
				}
			}
		}()
	}
	var rwg sync.WaitGroup
	for rd := 0; rd < 4; rd++ {
		rwg.Add(1)
		go func() {
			defer rwg.Done()
			for !done.Load() {
				b, err := os.ReadFile(filepath.Join(root, key))
				if err != nil {
					continue
				}
				tag, sz, ok := parseDet(b)
				if ok && bytes.Equal(b, detContent(tag, sz)) {
					c.Count("probe_shared_writereader_reads_complete", 1)
				} else {
					c.Count("probe_shared_writereader_reads_INCOMPLETE_OR_MIXED", 1)
				}
			}
		}()
	}
	wg.Wait()
	done.Store(true)
	rwg.Wait()
}
