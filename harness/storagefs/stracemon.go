package main

import (
	"bufio"
	"bytes"
	"context"
	"encoding/base64"
	"encoding/hex"
	"encoding/json"
	"errors"
	"fmt"
	"io"
	"os"
	"os/exec"
	"path/filepath"
	"regexp"
	"strconv"
	"strings"
	"sync"
	"time"

	"github.com/basekick-labs/arc/internal/cluster/raft"
	"github.com/basekick-labs/arc/internal/storage"
	"github.com/basekick-labs/arc/internal/zzverif/vlib"
	"github.com/rs/zerolog"
)

// Syscall-level confinement monitor. A child re-exec of the harness applies every
// LocalBackend method to a batch of keys under `strace -f -xx -e trace=file`.
// Before each call the child makes a marker syscall
// (lstat("/VERIF-MARK/<job>/<method>")), so the parent can attribute every
// path-taking syscall in the trace to one backend call. Oracle: every absolute path
// passed to the kernel during a backend call is the root or below it.

const markRoot = "/VERIF-MARK"

type childConfInput struct {
	Top  string   `json:"top"`
	Dir  string   `json:"dir"`
	Root string   `json:"root"`
	Keys []string `json:"keys_b64"` // expanded keys
	Idx  []int    `json:"idx"`
}

func mark(idx int, method string) {
	os.Lstat(fmt.Sprintf("%s/%d/%s", markRoot, idx, method))
}

// childConf: -child-conf <input.json>
func childConf(a []string) {
	if len(a) != 1 {
		os.Exit(9)
	}
	raw, err := os.ReadFile(a[0])
	if err != nil {
		os.Exit(9)
	}
	var in childConfInput
	if json.Unmarshal(raw, &in) != nil {
		os.Exit(9)
	}
	sb := &sandbox{top: in.Top, dir: in.Dir, root: in.Root}
	ctx := context.Background()
	for i, k64 := range in.Keys {
		kb, _ := base64.StdEncoding.DecodeString(k64)
		key := string(kb)
		idx := in.Idx[i]
		mark(idx, "-harness")
		if err := sb.resetRoot(); err != nil {
			fmt.Fprintln(os.Stderr, "child-conf: reset:", err)
			os.Exit(9)
		}
		be, err := storage.NewLocalBackend(rootSpelling(sb, idx), zerolog.Nop())
		if err != nil {
			os.Exit(9)
		}
		d1 := payload(idx, "w", 120+idx%50)
		d3 := payload(idx, "ap", 300+idx%90)
		half := len(d3) / 2
		var w bytes.Buffer
		call := func(m string, f func()) { mark(idx, m); f(); mark(idx, "-harness") }
		call("GetFullPath", func() { be.GetFullPath(key) })
		call("Exists", func() { be.Exists(ctx, key) })
		call("StatFile", func() { be.StatFile(ctx, key) })
		call("Read", func() { be.Read(ctx, key) })
		call("Write", func() { be.Write(ctx, key, d1) })
		call("Exists", func() { be.Exists(ctx, key) })
		call("Read", func() { be.Read(ctx, key) })
		call("ReadTo", func() { be.ReadTo(ctx, key, &w) })
		call("ReadToAt", func() { be.ReadToAt(ctx, key, &w, 2) })
		call("StatFile", func() { be.StatFile(ctx, key) })
		call("List", func() { be.List(ctx, key) })
		call("ListObjects", func() { be.ListObjects(ctx, key) })
		call("ListDirectories", func() { be.ListDirectories(ctx, key) })
		call("WriteReader", func() { be.WriteReader(ctx, key, bytes.NewReader(d1), int64(len(d1))) })
		call("Delete", func() { be.Delete(ctx, key) })
		call("WriteReader", func() { be.WriteReader(ctx, key, &errReader{data: d3, n: half}, int64(len(d3))) })
		call("StatFile", func() { be.StatFile(ctx, key) })
		call("ReadToAt", func() { be.ReadToAt(ctx, key, &w, 0) })
		call("AppendReader", func() {
			be.AppendReader(ctx, key, struct{ io.Reader }{bytes.NewReader(d3[half:])}, int64(len(d3)-half))
		})
		call("List", func() { be.List(ctx, key) })
		call("DeleteBatch", func() { be.DeleteBatch(ctx, []string{key, key + "/x", key + ".part"}) })
		call("RemoveDirectory", func() { be.RemoveDirectory(ctx, key) })
		call("Write", func() { be.Write(ctx, key+"/leaf", d1) })
		call("ListDirectories", func() { be.ListDirectories(ctx, key) })
		call("Delete", func() { be.Delete(ctx, key+"/leaf") })
		call("RemoveDirectory", func() { be.RemoveDirectory(ctx, key) })
		w.Reset()
	}
	mark(-1, "-end")
	os.Exit(0)
}

var quotedHex = regexp.MustCompile(`"((?:\\x[0-9a-f]{2})*)"`)

func decodeXX(s string) string {
	s = strings.ReplaceAll(s, `\x`, "")
	b, err := hex.DecodeString(s)
	if err != nil {
		return ""
	}
	return string(b)
}

// foreignOK lists absolute paths outside the scratch tree that the Go runtime or
// libc may legitimately touch at any time; they cannot be produced from a key.
var foreignOK = []string{"/proc/", "/sys/", "/etc/localtime", "/usr/share/zoneinfo", "/etc/nsswitch.conf", "/dev/null", "/dev/urandom"}

type straceCall struct {
	idx    int
	method string
	effs   []effect
	nsys   int
}

// parseConfTrace attributes path syscalls to calls and returns the offending ones.
func parseConfTrace(logPath string, sb *sandbox) (calls []*straceCall, syscalls int, ended bool, err error) {
	f, err := os.Open(logPath)
	if err != nil {
		return nil, 0, false, err
	}
	defer f.Close()
	sc := bufio.NewScanner(f)
	sc.Buffer(make([]byte, 1<<20), 1<<26)
	var cur *straceCall
	for sc.Scan() {
		line := sc.Text()
		m := straceLine.FindStringSubmatch(line)
		if m == nil {
			continue
		}
		for _, q := range quotedHex.FindAllStringSubmatch(line, -1) {
			p := decodeXX(q[1])
			if !strings.HasPrefix(p, "/") {
				continue
			}
			if strings.HasPrefix(p, markRoot+"/") {
				parts := strings.Split(p[len(markRoot)+1:], "/")
				if len(parts) == 2 {
					if parts[1] == "-end" {
						ended = true
						cur = nil
					} else if parts[1] == "-harness" {
						cur = nil
					} else {
						i, _ := strconv.Atoi(parts[0])
						cur = &straceCall{idx: i, method: parts[1]}
						calls = append(calls, cur)
					}
				}
				continue
			}
			if cur == nil {
				continue
			}
			cur.nsys++
			syscalls++
			if sb.inside(p) {
				continue
			}
			ok := false
			if !strings.HasPrefix(filepath.Clean(p)+"/", sb.top+"/") {
				for _, a := range foreignOK {
					if strings.HasPrefix(p, a) {
						ok = true
					}
				}
			}
			if ok {
				continue
			}
			ret := ""
			if i := strings.LastIndex(line, " = "); i >= 0 {
				ret = line[i:]
			}
			cur.effs = append(cur.effs, effect{"strace", m[2] + ret, filepath.Clean(p)})
		}
	}
	return calls, syscalls, ended, sc.Err()
}

// runStraceBatch runs one child over the jobs (all of one variant) and reports.
func runStraceBatch(c *vlib.Ctx, base string, jobs []keyJob, variant int) {
	if len(jobs) == 0 {
		return
	}
	sb, err := newSandbox(base, variant)
	if err != nil {
		panic(err)
	}
	defer sb.close()
	before := sb.snapshot()
	in := childConfInput{Top: sb.top, Dir: sb.dir, Root: sb.root}
	byIdx := map[int]keyJob{}
	for _, j := range jobs {
		in.Keys = append(in.Keys, base64.StdEncoding.EncodeToString([]byte(sb.expand(j.Key))))
		in.Idx = append(in.Idx, j.Idx)
		byIdx[j.Idx] = j
	}
	work, err := os.MkdirTemp(base, "st-")
	if err != nil {
		panic(err)
	}
	defer os.RemoveAll(work)
	raw, _ := json.Marshal(in)
	inPath := filepath.Join(work, "in.json")
	logPath := filepath.Join(work, "trace")
	if err := os.WriteFile(inPath, raw, 0o600); err != nil {
		panic(err)
	}
	self, _ := os.Executable()
	ctx, cancel := context.WithTimeout(context.Background(), 10*time.Minute)
	defer cancel()
	cmd := exec.CommandContext(ctx, "strace", "-f", "-xx", "-o", logPath, "-e", "trace=file", self, "-child-conf", inPath)
	cmd.Env = append(os.Environ(), "GOMAXPROCS=1")
	var stderr bytes.Buffer
	cmd.Stderr = &stderr
	if err := cmd.Run(); err != nil {
		var ee *exec.ExitError
		if ctx.Err() != nil || !errors.As(err, &ee) {
			c.Inconclusive("strace confinement child: " + err.Error())
			return
		}
		c.Inconclusive("strace confinement child failed: " + err.Error() + ": " + clip(stderr.String(), 300))
		return
	}
	calls, nsys, ended, err := parseConfTrace(logPath, sb)
	if err != nil || !ended {
		c.Inconclusive(fmt.Sprintf("strace confinement trace incomplete (err=%v ended=%v)", err, ended))
		return
	}
	c.Count("strace_sample_keys", int64(len(jobs)))
	c.Count("strace_sample_backend_calls", int64(len(calls)))
	c.Count("strace_sample_path_syscalls_observed", int64(nsys))
	for _, sc := range calls {
		if len(sc.effs) == 0 {
			continue
		}
		j := byIdx[sc.idx]
		key := sb.expand(j.Key)
		loc := sb.worstLoc(sc.effs)
		manifestOK := raft.ValidateManifestPath(key) == nil
		det := confDetail{
			Kind: "confinement", Method: sc.method, KeyB64: base64.StdEncoding.EncodeToString([]byte(j.Key)),
			KeyQuoted: strconv.QuoteToASCII(j.Key), Variant: variant, RootSpelling: j.Idx % 4,
			ManifestAccepted: manifestOK, Location: loc, Effects: capEffects(sc.effs), Root: sb.root,
		}
		countEffects(c, sc.effs)
		c.Violation(fmt.Sprintf("%s reaches outside the root: %s", sc.method, loc), det)
		if manifestOK {
			c.Violation("key accepted by raft.ValidateManifestPath is resolved outside the root by the backend: "+loc, det)
		}
	}
	// the required snapshot oracle over the whole batch as well
	if d := diffSnap(before, sb.snapshot()); len(d) > 0 {
		c.Count("strace_sample_batches_with_outside_snapshot_diff", 1)
	}
}

func runStraceSample(c *vlib.Ctx, base string, jobs []keyJob, batches int) {
	var wg sync.WaitGroup
	for v := 0; v < 2; v++ {
		var vj []keyJob
		for _, j := range jobs {
			if j.Variant == v {
				vj = append(vj, j)
			}
		}
		per := (len(vj) + batches - 1) / batches
		for i := 0; i < len(vj); i += per {
			end := i + per
			if end > len(vj) {
				end = len(vj)
			}
			part := vj[i:end]
			v := v
			wg.Add(1)
			go func() {
				defer wg.Done()
				runStraceBatch(c, base, part, v)
			}()
		}
	}
	wg.Wait()
}
