package main

import (
	"bytes"
	"context"
	"crypto/sha256"
	"encoding/base64"
	"encoding/hex"
	"fmt"
	"math/rand/v2"
	"strconv"
	"strings"
	"sync"

	"github.com/basekick-labs/arc/internal/edgesync"
	"github.com/basekick-labs/arc/internal/storage"
	"github.com/basekick-labs/arc/internal/zzverif/vlib"
	"github.com/rs/zerolog"
)

// Composition: edge-sync uploads. validateSpokeID / validateSyncPath are not
// exported; they are exercised through the exported Receiver.Receive, which is
// also where they meet the backend (Exists, StatFile, WriteReader, AppendReader,
// ReadTo, Delete on namespaced and staging paths).

type edgeJob struct {
	Idx   int
	Spoke string
	Path  string
}

type edgeDetail struct {
	Kind     string   `json:"kind"` // "edgesync"
	SpokeB64 string   `json:"spoke_b64"`
	PathB64  string   `json:"path_b64"`
	Spoke    string   `json:"spoke_quoted"`
	Path     string   `json:"path_quoted"`
	Step     string   `json:"step"`
	Accepted bool     `json:"accepted"`
	Result   string   `json:"result"`
	Location string   `json:"location_class"`
	Effects  []effect `json:"effects"`
}

var spokeIDs = []string{
	"sp1", "edge-7", "sp1", "edge-7", "..", ".", "a/b", "a\\b", "sp\x00x", ".hidden", "sp..x", "sp.", "s..",
	"．．", "%2e%2e", "sp%2f..%2f", " ", "sp 1", "über", strings.Repeat("s", 300), "root2", "sibling",
	"", "..sp", "...", "sp\x00", "\x00", "sp/", "/sp", ".sync-staging", "sync-staging", "{ROOT}", "~",
}

func buildEdgeJobs(c *vlib.Ctx, n int) []edgeJob {
	r := c.Rand("edgesync")
	var jobs []edgeJob
	fixed := [][2]string{
		{"sp1", "db/cpu/2026/01/01/00/f.parquet"}, {"sp1", "../sibling/secret.txt"}, {"sp1", "../x.parquet"},
		{"..", "x.parquet"}, {".", "x.parquet"}, {"sp1", ".parquet"}, {"sp1", "a/./b.parquet"}, {"sp1", "a//b.parquet"},
		{"sp1", "/abs.parquet"}, {"sp1", "a\\..\\b.parquet"}, {"sp1", ".\x00./x.parquet"}, {"s..", "x.parquet"},
		{"sp1", "．．/sibling/x.parquet"}, {"sp1", "%2e%2e/x.parquet"}, {"sp1", "a/.parquet"},
		{"sp1", "x.parquet/"}, {"sp1", ""}, {"", "x.parquet"}, {"sp1", "..parquet"}, {"sp1", "a/..parquet"},
	}
	for _, f := range fixed {
		jobs = append(jobs, edgeJob{Idx: len(jobs), Spoke: f[0], Path: f[1]})
	}
	for len(jobs) < n {
		p := genKey(r)
		if strings.Contains(p, "{") {
			continue
		}
		if r.IntN(10) < 7 && !strings.HasSuffix(p, ".parquet") {
			p = strings.TrimRight(p, "/") + ".parquet"
		}
		if r.IntN(3) == 0 {
			p = benignPath(r)
		}
		jobs = append(jobs, edgeJob{Idx: len(jobs), Spoke: pick(r, spokeIDs), Path: capDots(p)})
	}
	return jobs
}

func benignPath(r *rand.Rand) string {
	segs := []string{pick(r, benign[:6]), pick(r, benign[:6]), "2026", "01", "02", "03"}
	n := 1 + r.IntN(len(segs))
	return strings.Join(segs[:n], "/") + "/" + pick(r, []string{"f", "日本", "a b", "x%2f..%2fy", "．．", "f.part"}) + ".parquet"
}

func shaHex(b []byte) string {
	h := sha256.Sum256(b)
	return hex.EncodeToString(h[:])
}

func runEdgeSync(c *vlib.Ctx, base string, jobs []edgeJob, workers int) {
	ch := make(chan edgeJob, 64)
	var wg sync.WaitGroup
	for w := 0; w < workers; w++ {
		wg.Add(1)
		go func() {
			defer wg.Done()
			r := newConfRunner(c, base, nil)
			defer r.close()
			for j := range ch {
				r.runEdge(j)
			}
		}()
	}
	for _, j := range jobs {
		ch <- j
	}
	close(ch)
	wg.Wait()
	c.Count("edgesync_cases", int64(len(jobs)))
}

func (r *confRunner) runEdge(j edgeJob) {
	c := r.c
	sb := r.sandbox(0)
	if err := sb.resetRoot(); err != nil {
		panic(err)
	}
	sb.ino.drain()
	sb.snap = sb.snapshot()
	sb.ino.drain()
	spoke := sb.expand(j.Spoke)
	ctx := context.Background()
	var rc *edgesync.Receiver
	mk := func() {
		be, err := storage.NewLocalBackend(sb.root, zerolog.Nop())
		if err == nil {
			rc, err = edgesync.NewReceiver(edgesync.ReceiverConfig{Backend: be, Logger: zerolog.Nop()})
		}
		if err != nil {
			panic(err)
		}
	}
	mk()
	data := payload(j.Idx, "edge", 150+j.Idx%100)
	other := payload(j.Idx, "edge-other", 150+j.Idx%100)
	step := func(name string, body []byte, sha string, size, off int64) (accepted bool) {
		res, err := rc.Receive(ctx, spoke, j.Path, sha, size, off, bytes.NewReader(body))
		accepted = err == nil
		c.Count("edgesync_receive_calls", 1)
		out := ""
		if accepted {
			c.Count("edgesync_receive_accepted", 1)
			out = string(res.Outcome) + "/" + strconv.FormatInt(res.BytesAccepted, 10)
			c.Count("edgesync_outcome_"+string(res.Outcome), 1)
		} else {
			c.Count("edgesync_receive_rejected", 1)
			out = "error: " + clip(strconv.QuoteToASCII(err.Error()), 200)
		}
		effs, overflow := sb.observe()
		if overflow {
			c.Inconclusive("inotify queue overflow")
		}
		if len(effs) > 0 {
			loc := sb.worstLoc(effs)
			countEffects(c, effs)
			c.Violation("edgesync Receiver.Receive reaches outside the root: "+loc, edgeDetail{
				Kind: "edgesync", SpokeB64: base64.StdEncoding.EncodeToString([]byte(j.Spoke)),
				PathB64: base64.StdEncoding.EncodeToString([]byte(j.Path)), Spoke: strconv.QuoteToASCII(j.Spoke),
				Path: strconv.QuoteToASCII(j.Path), Step: name, Accepted: accepted, Result: out, Location: loc,
				Effects: capEffects(effs),
			})
			sb = r.renew(0)
			spoke = sb.expand(j.Spoke)
			mk()
		}
		return accepted
	}
	sz := int64(len(data))
	acc := step("short body (link drops half way)", data[:sz/2], shaHex(data), sz, 0)
	step("resume from offset", data[sz/2:], shaHex(data), sz, sz/2)
	step("redelivery of identical content", data, shaHex(data), sz, 0)
	step("same path, different content", other, shaHex(other), sz, 0)
	step("checksum mismatch", other, shaHex(data), sz, 0)
	c.Eval()
	if acc {
		c.Nontrivial(fmt.Sprintf("edge-accepted:%s|%s", j.Spoke, j.Path))
	} else if hostile(j.Path) || hostile(j.Spoke) {
		c.Nontrivial(fmt.Sprintf("edge-rejected:%s|%s", j.Spoke, j.Path))
	}
}
