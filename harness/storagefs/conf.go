package main

import (
	"bytes"
	"context"
	"encoding/base64"
	"errors"
	"fmt"
	"io"
	"os"
	"path/filepath"
	"strconv"
	"strings"
	"sync"

	"github.com/basekick-labs/arc/internal/cluster/raft"
	"github.com/basekick-labs/arc/internal/storage"
	"github.com/basekick-labs/arc/internal/zzverif/vlib"
	"github.com/rs/zerolog"
)

// keyJob is one key applied to every LocalBackend method in one sandbox variant.
type keyJob struct {
	Idx     int
	Key     string // template ({ROOT}/{SANDBOX} unexpanded)
	Variant int    // 0: no <root>.part beside the root; 1: a sentinel <root>.part exists
	Fixed   bool
}

// confDetail is the replay record of a confinement violation.
type confDetail struct {
	Kind             string   `json:"kind"` // "confinement"
	Method           string   `json:"method"`
	KeyB64           string   `json:"key_b64"`
	KeyQuoted        string   `json:"key_quoted"`
	Variant          int      `json:"variant"`
	RootSpelling     int      `json:"root_spelling"`
	ManifestAccepted bool     `json:"accepted_by_ValidateManifestPath"`
	Location         string   `json:"location_class"`
	Effects          []effect `json:"effects"`
	Result           string   `json:"call_result"`
	Root             string   `json:"root_at_observation"`
}

var allMethods = []string{
	"GetFullPath", "Exists", "StatFile", "Read", "Write", "ReadTo", "ReadToAt", "List", "ListObjects",
	"ListDirectories", "WriteReader", "AppendReader", "Delete", "DeleteBatch", "RemoveDirectory",
}

type confStats struct {
	mu       sync.Mutex
	calls    map[string]int64
	accepted map[string]int64
	rejected map[string]int64
	oserr    map[string]int64
}

func newConfStats() *confStats {
	return &confStats{calls: map[string]int64{}, accepted: map[string]int64{}, rejected: map[string]int64{}, oserr: map[string]int64{}}
}

func (s *confStats) flush(c *vlib.Ctx, prefix string) {
	var calls, acc, rej, ose int64
	for _, m := range allMethods {
		calls += s.calls[m]
		acc += s.accepted[m]
		rej += s.rejected[m]
		ose += s.oserr[m]
		if s.calls[m] > 0 {
			c.Count(prefix+"calls_"+m, s.calls[m])
			c.Count(prefix+"accepted_"+m, s.accepted[m])
		}
	}
	c.Count(prefix+"calls_total", calls)
	c.Count(prefix+"calls_accepted", acc)
	c.Count(prefix+"calls_rejected_by_validator", rej)
	c.Count(prefix+"calls_failed_in_os", ose)
}

// errReader yields n bytes of data and then a transport-style error, which makes
// WriteReader leave its ".part" staging file behind.
type errReader struct {
	data []byte
	n    int
}

var errTransport = errors.New("verif: simulated transport error")

func (e *errReader) Read(p []byte) (int, error) {
	if e.n <= 0 {
		return 0, errTransport
	}
	k := copy(p, e.data[:e.n])
	e.data = e.data[k:]
	e.n -= k
	return k, nil
}

// payload is data the harness writes: never contains the sentinel marker and never
// has a sentinel size.
func payload(idx int, tag string, size int) []byte {
	var b bytes.Buffer
	for i := 0; b.Len() < size; i++ {
		fmt.Fprintf(&b, "DATA:%d:%s:%d;", idx, tag, i)
	}
	return b.Bytes()[:size]
}

func classifyErr(err error) string {
	if err == nil {
		return "accepted"
	}
	s := err.Error()
	if strings.Contains(s, "invalid path") || strings.Contains(s, "invalid prefix") || strings.Contains(s, "path traversal") {
		return "rejected"
	}
	return "oserr"
}

func rootSpelling(sb *sandbox, n int) string {
	switch n % 4 {
	case 1:
		return sb.root + "/"
	case 2:
		return sb.dir + "/./root"
	case 3:
		return sb.dir + "/sibling/../root"
	}
	return sb.root
}

// confRunner owns the sandboxes of one worker.
type confRunner struct {
	c     *vlib.Ctx
	base  string
	sbs   [2]*sandbox
	stats *confStats
	log   zerolog.Logger
}

func newConfRunner(c *vlib.Ctx, base string, stats *confStats) *confRunner {
	return &confRunner{c: c, base: base, stats: stats, log: zerolog.Nop()}
}

func (r *confRunner) close() {
	for _, sb := range r.sbs {
		if sb != nil {
			sb.close()
		}
	}
}

func (r *confRunner) sandbox(variant int) *sandbox {
	if r.sbs[variant] == nil {
		sb, err := newSandbox(r.base, variant)
		if err == nil {
			err = sb.arm()
		}
		if err != nil {
			panic(fmt.Sprintf("sandbox setup: %v", err))
		}
		r.sbs[variant] = sb
	}
	return r.sbs[variant]
}

func (r *confRunner) renew(variant int) *sandbox {
	if r.sbs[variant] != nil {
		r.sbs[variant].close()
		r.sbs[variant] = nil
	}
	return r.sandbox(variant)
}

// runKey applies every method to the key and checks the oracles after each call.
func (r *confRunner) runKey(j keyJob) {
	c := r.c
	sb := r.sandbox(j.Variant)
	if err := sb.resetRoot(); err != nil {
		panic(err)
	}
	sb.ino.drain() // resetRoot only touches the inside of the root: the baseline stays valid

	key := sb.expand(j.Key)
	if strings.Contains(key, canaryToken) {
		panic("generator emitted the canary token")
	}
	manifestOK := raft.ValidateManifestPath(key) == nil
	c.Count("manifest_validator_calls", 1)
	if manifestOK {
		c.Count("manifest_validator_accepted", 1)
	}
	ctx := context.Background()
	var be *storage.LocalBackend
	mkBackend := func() {
		var err error
		be, err = storage.NewLocalBackend(rootSpelling(sb, j.Idx), r.log)
		if err != nil {
			panic(err)
		}
		if be.GetBasePath() != sb.root {
			c.Violation("NewLocalBackend resolves its base path to something other than the configured root",
				map[string]any{"configured": rootSpelling(sb, j.Idx), "got": be.GetBasePath(), "want": sb.root})
		}
	}
	mkBackend()

	resolved := func() string { return be.GetFullPath(key) }

	step := func(method string, fn func() (res string, err error, effs []effect)) {
		res, err, effs := fn()
		cls := classifyErr(err)
		if method == "GetFullPath" && res == `""` {
			cls = "rejected"
		}
		r.stats.mu.Lock()
		r.stats.calls[method]++
		switch cls {
		case "accepted":
			r.stats.accepted[method]++
		case "rejected":
			r.stats.rejected[method]++
		default:
			r.stats.oserr[method]++
		}
		r.stats.mu.Unlock()
		obs, overflow := sb.observe()
		if overflow {
			c.Inconclusive("inotify queue overflow")
		}
		effs = append(effs, obs...)
		if len(effs) == 0 {
			return
		}
		loc := sb.worstLoc(effs)
		errs := ""
		if err != nil {
			errs = " err=" + err.Error()
		}
		det := confDetail{
			Kind: "confinement", Method: method, KeyB64: base64.StdEncoding.EncodeToString([]byte(j.Key)),
			KeyQuoted: strconv.QuoteToASCII(j.Key), Variant: j.Variant, RootSpelling: j.Idx % 4,
			ManifestAccepted: manifestOK, Location: loc, Effects: capEffects(effs), Result: clip(res, 300) + errs, Root: sb.root,
		}
		countEffects(c, effs)
		c.Violation(fmt.Sprintf("%s reaches outside the root: %s", method, loc), det)
		if manifestOK {
			c.Violation("key accepted by raft.ValidateManifestPath is resolved outside the root by the backend: "+loc, det)
		}
		// the world is dirty: start over with a fresh sandbox and backend
		sb = r.renew(j.Variant)
		key = sb.expand(j.Key)
		mkBackend()
	}

	checkData := func(data []byte) []effect {
		if bytes.Contains(data, []byte(sentinelMarker)) {
			return []effect{{"result", "sentinel content returned to the caller", ""}}
		}
		return nil
	}
	checkNames := func(names []string, relToRoot bool) []effect {
		var effs []effect
		for _, n := range names {
			switch {
			case strings.Contains(n, canaryToken):
				effs = append(effs, effect{"result", "listing names a canary entry that exists only outside the root: " + strconv.QuoteToASCII(n), ""})
			case relToRoot && (filepath.IsAbs(n) || !sb.inside(filepath.Join(sb.root, n))):
				effs = append(effs, effect{"result", "listing returned a path outside the root", filepath.Join(sb.root, n)})
			case relToRoot:
				if fi, err := os.Lstat(filepath.Join(sb.root, n)); err != nil || fi.IsDir() {
					effs = append(effs, effect{"result", "listing returned a path that is not a file inside the root: " + strconv.QuoteToASCII(n), ""})
				}
			}
		}
		return effs
	}

	d1 := payload(j.Idx, "w", 120+j.Idx%50)
	d2 := payload(j.Idx, "wr", 200+j.Idx%70)
	d3 := payload(j.Idx, "ap", 300+j.Idx%90)

	step("GetFullPath", func() (string, error, []effect) {
		p := be.GetFullPath(key)
		if p != "" && !sb.inside(p) {
			return strconv.Quote(p), nil, []effect{{"result", "resolved absolute path is outside the root", p}}
		}
		return strconv.Quote(p), nil, nil
	})
	exists := func() (string, error, []effect) {
		ok, err := be.Exists(ctx, key)
		var effs []effect
		if ok {
			p := resolved()
			if p == "" || !sb.inside(p) {
				effs = append(effs, effect{"result", "Exists=true for a key that does not resolve inside the root", p})
			} else if _, e := os.Lstat(p); e != nil {
				effs = append(effs, effect{"result", "Exists=true but nothing exists at the resolved in-root path", ""})
			}
		}
		return fmt.Sprint(ok), err, effs
	}
	stat := func() (string, error, []effect) {
		n, err := be.StatFile(ctx, key)
		var effs []effect
		if n >= 0 {
			p := resolved()
			if isSentinelSize(n) {
				effs = append(effs, effect{"result", "StatFile returned the size of a sentinel outside the root", ""})
			} else if p == "" || !sb.inside(p) {
				effs = append(effs, effect{"result", "StatFile returned a size for a key that does not resolve inside the root", p})
			} else {
				f1, e1 := os.Lstat(p)
				f2, e2 := os.Lstat(p + ".part")
				if !(e1 == nil && f1.Size() == n) && !(e2 == nil && f2.Size() == n) {
					effs = append(effs, effect{"result", "StatFile size matches neither the resolved path nor its .part", ""})
				}
			}
		}
		return fmt.Sprint(n), err, effs
	}
	read := func() (string, error, []effect) {
		data, err := be.Read(ctx, key)
		return fmt.Sprintf("%d bytes", len(data)), err, checkData(data)
	}
	step("Exists", exists)
	step("StatFile", stat)
	step("Read", read)
	step("Write", func() (string, error, []effect) { return "", be.Write(ctx, key, d1), nil })
	step("Exists", exists)
	step("Read", read)
	step("ReadTo", func() (string, error, []effect) {
		var w bytes.Buffer
		err := be.ReadTo(ctx, key, &w)
		return fmt.Sprintf("%d bytes", w.Len()), err, checkData(w.Bytes())
	})
	for _, off := range []int64{0, 3} {
		off := off
		step("ReadToAt", func() (string, error, []effect) {
			var w bytes.Buffer
			err := be.ReadToAt(ctx, key, &w, off)
			return fmt.Sprintf("%d bytes", w.Len()), err, checkData(w.Bytes())
		})
	}
	step("StatFile", stat)
	lists := func() {
		step("List", func() (string, error, []effect) {
			names, err := be.List(ctx, key)
			return fmt.Sprintf("%d names", len(names)), err, checkNames(names, true)
		})
		step("ListObjects", func() (string, error, []effect) {
			objs, err := be.ListObjects(ctx, key)
			var names []string
			var effs []effect
			for _, o := range objs {
				names = append(names, o.Path)
				if isSentinelSize(o.Size) {
					effs = append(effs, effect{"result", "ListObjects returned the size of a sentinel outside the root", ""})
				}
			}
			return fmt.Sprintf("%d objects", len(objs)), err, append(effs, checkNames(names, true)...)
		})
		step("ListDirectories", func() (string, error, []effect) {
			names, err := be.ListDirectories(ctx, key)
			return fmt.Sprintf("%d dirs", len(names)), err, checkNames(names, false)
		})
	}
	lists()
	step("WriteReader", func() (string, error, []effect) {
		return "", be.WriteReader(ctx, key, bytes.NewReader(d2), int64(len(d2))), nil
	})
	step("Delete", func() (string, error, []effect) { return "", be.Delete(ctx, key), nil })
	// a transfer that breaks half way leaves <key>.part; then the resume path
	half := len(d3) / 2
	step("WriteReader", func() (string, error, []effect) {
		err := be.WriteReader(ctx, key, &errReader{data: d3, n: half}, int64(len(d3)))
		if errors.Is(err, errTransport) {
			err = nil // the backend accepted the key; the reader failed as intended
		}
		return "partial", err, nil
	})
	step("StatFile", stat)
	step("ReadToAt", func() (string, error, []effect) {
		var w bytes.Buffer
		err := be.ReadToAt(ctx, key, &w, 0)
		return fmt.Sprintf("%d bytes", w.Len()), err, checkData(w.Bytes())
	})
	step("AppendReader", func() (string, error, []effect) {
		rest := d3[half:]
		return "", be.AppendReader(ctx, key, struct{ io.Reader }{bytes.NewReader(rest)}, int64(len(rest))), nil
	})
	step("Read", read)
	lists()
	step("DeleteBatch", func() (string, error, []effect) {
		return "", be.DeleteBatch(ctx, []string{key, key + "/x", key + ".part"}), nil
	})
	step("RemoveDirectory", func() (string, error, []effect) { return "", be.RemoveDirectory(ctx, key), nil })
	step("Write", func() (string, error, []effect) { return "", be.Write(ctx, key+"/leaf", d1), nil })
	lists() // the key is now (also) a directory
	step("RemoveDirectory", func() (string, error, []effect) { return "", be.RemoveDirectory(ctx, key), nil })
	step("Delete", func() (string, error, []effect) { return "", be.Delete(ctx, key+"/leaf"), nil })
	step("RemoveDirectory", func() (string, error, []effect) { return "", be.RemoveDirectory(ctx, key), nil })

	c.Eval()
	if hostile(j.Key) {
		c.Nontrivial("key:" + j.Key)
	}
}

func countEffects(c *vlib.Ctx, effs []effect) {
	c.Count("outside_effects_observed", int64(len(effs)))
	for _, e := range effs {
		c.Count("outside_effects_seen_by_"+e.Monitor, 1)
	}
}

func capEffects(e []effect) []effect {
	if len(e) > 24 {
		return e[:24]
	}
	return e
}

func clip(s string, n int) string {
	if len(s) > n {
		return s[:n] + "..."
	}
	return s
}

// buildJobs derives the deterministic job list for the tier.
func buildJobs(c *vlib.Ctx, nRandom int) []keyJob {
	var jobs []keyJob
	idx := 0
	for _, k := range fixedCorpus() {
		k = capDots(k)
		for v := 0; v < 2; v++ {
			jobs = append(jobs, keyJob{Idx: idx, Key: k, Variant: v, Fixed: true})
			idx++
		}
	}
	rng := c.Rand("keys")
	seen := map[string]bool{}
	for len(jobs) < nRandom+2*len(fixedCorpus()) {
		k := genKey(rng)
		if seen[k] || strings.Contains(k, canaryToken) || strings.Contains(k, sentinelMarker) {
			continue
		}
		seen[k] = true
		v := 0
		if idx%4 == 0 {
			v = 1
		}
		jobs = append(jobs, keyJob{Idx: idx, Key: k, Variant: v})
		idx++
	}
	return jobs
}

// runConfinement runs the in-process confinement workload on `workers` goroutines.
func runConfinement(c *vlib.Ctx, base string, jobs []keyJob, workers int, stats *confStats) {
	ch := make(chan keyJob, 64)
	var wg sync.WaitGroup
	for w := 0; w < workers; w++ {
		wg.Add(1)
		go func() {
			defer wg.Done()
			r := newConfRunner(c, base, stats)
			defer r.close()
			for j := range ch {
				r.runKey(j)
			}
		}()
	}
	feat := map[string]int64{}
	for _, j := range jobs {
		for _, f := range keyFeatures(j.Key) {
			feat[f]++
		}
		ch <- j
	}
	close(ch)
	wg.Wait()
	c.Count("keys_tried", int64(len(jobs)))
	for f, n := range feat {
		c.Count("keys_with_"+f, n)
	}
}
