// Harness for the local storage backend: C08 (keys stay inside the root; files
// appear atomically under their final name).
package main

import (
	"flag"
	"fmt"
	"os"
	"runtime"

	"github.com/basekick-labs/arc/internal/zzverif/vlib"
)

// Child modes (the harness re-executes itself under strace). They are detected
// in init so that runtime.LockOSThread pins main.main to the process's main
// thread: every file-system syscall of the single backend call is then made by
// one thread, which makes strace's per-thread injection counter exact.
func init() {
	if len(os.Args) > 1 && (os.Args[1] == "-child-write" || os.Args[1] == "-child-conf") {
		runtime.LockOSThread()
	}
}

func main() {
	if len(os.Args) > 1 {
		switch os.Args[1] {
		case "-child-write":
			childWrite(os.Args[2:])
			return
		case "-child-conf":
			childConf(os.Args[2:])
			return
		}
	}
	prop := flag.String("prop", "", "property id")
	flag.String("replay", "", "replay file")
	flag.Parse()
	switch *prop {
	case "C08":
		vlib.Main("C08", "fault_enumeration", checkC08)
	default:
		fmt.Println("unknown property", *prop)
		os.Exit(2)
	}
}
