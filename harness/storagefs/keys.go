package main

import (
	"math/rand/v2"
	"strings"
)

// Key generation for the confinement part of C08.
//
// Keys may contain the placeholders {ROOT} and {SANDBOX}; they are replaced by
// the absolute paths of the worker's sandbox at use (temp dir names differ between
// runs, the key *shape* does not).
//
// SAFETY BOUND: a key never contains more than maxDots '.' bytes, so even with the
// confinement check completely disabled in a mutated tree no key can climb more
// than maxDots/2 directory levels. The sandbox root is nested nestDepth levels
// below the worker's scratch top, so destructive calls (Delete, Write...) cannot
// leave the scratch directory.
const (
	maxDots   = 10
	nestDepth = 6
)

// canaryToken never occurs in any key: a listing or a path that contains it can
// only come from the canary entries placed outside the root.
const canaryToken = "q7CANARYx"

// sentinelMarker never occurs in data written by the harness.
const sentinelMarker = "VERIF-C08-SENTINEL-CONTENT"

var dotdotEnc = []string{
	"..", "..", "..", ".\x00.", ".\x00.", "\x00..", "..\x00", ".\x00.\x00", "....", "...",
	"%2e%2e", "%2E%2E", "%252e%252e", "\uff0e\uff0e", "\u2025", "\u2024\u2024", ".\u200b.",
	"\xc0\xae\xc0\xae", ".\r.", ". .", "..;", ".\x00\x00.", "..\x00\x00",
}

var sepEnc = []string{
	"/", "/", "/", "/", "//", "\\", "/./", "\\/", "/\\", "\uff0f", "\u2215", "%2f", "%5c",
	"\x00/", "/\x00", "\xc0\xaf", "///",
}

// compound traversal shapes that a naive (single-pass / replace-then-join)
// sanitiser turns back into "../".
var survivors = []string{
	"....//", "..././", "...//", ".../...//", "....\\\\", "..\x00/", ".\x00./", "./.\x00./",
	".\x00.\x00/", "..\\", "..;/", "..//", "../", "..\x00\x00/", "_/../", "a/../../",
	"a/.\x00./.\x00./", "\x00../", ".\x00\x00./",
}

var targets = []string{
	"sibling/secret.txt", "root2/secret.txt", "secret.txt", "root.part", "root2", "sibling",
	"root/keep/inside.txt", "", "root", "root2/", "sibling/", "root.part/x", "fresh-outside.txt",
	"fresh-dir/new.txt", "../above.txt", "above.txt",
}

var benign = []string{
	"a", "db", "cpu", "2026", "01", "file.parquet", "keep", "keep/inside.txt", "x.part", ".part",
	".arc-1.tmp", ".hidden", "\u00fcber", "\u65e5\u672c\u8a9e", "\U0001F642", "e\u0301", "\ufeffbom",
	"\u202eevil", " ", "-", "con", "nul", "C:", "C:\\x", "file:", "s3://b/k", "~", "*", "?",
	"a b", "a\tb", "a\nb", "%00", "%2e", "x.parquet", "data.parquet.part",
}

var prefixes = []string{
	"", "", "", "", "/", "//", "///", "\\", "\\\\", "./", ".//", "~/", "{ROOT}/", "{ROOT}/../",
	"{SANDBOX}/", "{ROOT}2/", "/{ROOT}/", "\x00", "\x00/", "/\x00", " /", "file://", "C:\\",
}

var suffixes = []string{
	"", "", "", "", "/", "//", "/.", "/..", "\\", "\x00", ".part", "/.part", ".parquet", "/\x00",
	".", "..", " ",
}

func longName(r *rand.Rand) string {
	switch r.IntN(5) {
	case 0:
		return strings.Repeat("A", 255)
	case 1:
		return strings.Repeat("B", 256)
	case 2:
		return strings.Repeat("c", 300)
	case 3:
		return strings.Repeat("d/", 600) + "e"
	default:
		return strings.Repeat("L", 4096)
	}
}

func pick(r *rand.Rand, s []string) string { return s[r.IntN(len(s))] }

// fixedCorpus is applied at every seed (in both sandbox variants) so that a given
// root cause yields the same signatures at every seed.
func fixedCorpus() []string {
	c := []string{
		"", "/", ".", "./", "//", "\x00", "./.", "\x00/", "/.",
		"..", "../", "/..", "..\x00", "\x00..",
		".\x00.", ".\x00./", ".\x00./sibling/secret.txt", ".\x00./root2/secret.txt",
		".\x00./secret.txt", ".\x00./root.part", ".\x00./sibling", ".\x00./root2",
		".\x00./fresh-outside.txt", ".\x00./fresh-dir/new.txt", ".\x00./.\x00./above.txt",
		"a/.\x00./.\x00./sibling/secret.txt", ".\x00.\x00/sibling/secret.txt",
		"../sibling/secret.txt", "../root2/secret.txt", "../secret.txt", "../root.part",
		"../fresh-outside.txt", "../../above.txt", "/../sibling/secret.txt",
		"a/../../sibling/secret.txt", "a/b/../../../sibling/secret.txt",
		"....//sibling/secret.txt", "..././sibling/secret.txt", "...//sibling/secret.txt",
		"..\\sibling\\secret.txt", "..\\/sibling/secret.txt", "%2e%2e/sibling/secret.txt",
		"%2e%2e%2fsibling%2fsecret.txt", "\uff0e\uff0e/sibling/secret.txt",
		"\uff0e\uff0e\uff0fsibling\uff0fsecret.txt", "\xc0\xae\xc0\xae/sibling/secret.txt",
		"2/secret.txt", ".part", "..part", "/.part", "x/../.part",
		"{ROOT}", "{ROOT}/", "{ROOT}/../sibling/secret.txt", "{SANDBOX}/sibling/secret.txt",
		"{ROOT}2/secret.txt", "{ROOT}.part", "/{SANDBOX}/secret.txt",
		"keep/inside.txt", "keep", "keep/", "db/cpu/2026/01/01/00/f.parquet", "a/", "a//", "a/.",
		"a/..", "a/./b", "a//b", "a\\b", "a\\..\\b", "\u65e5\u672c\u8a9e/\U0001F642.parquet",
		strings.Repeat("A", 255), strings.Repeat("B", 256), strings.Repeat("d/", 600) + "e",
		strings.Repeat("L", 4096), "x.part", "x", " ", "~", "C:\\Windows\\x", "s3://bucket/key",
	}
	return c
}

// genKey draws one random key.
func genKey(r *rand.Rand) string {
	var b strings.Builder
	switch k := r.IntN(100); {
	case k < 40:
		// a traversal towards a real sentinel, each ".." and "/" independently encoded
		b.WriteString(pick(r, prefixes))
		for i, n := 0, r.IntN(3); i < n; i++ {
			b.WriteString(pick(r, benign))
			b.WriteString(pick(r, sepEnc))
		}
		climbs := 1 + r.IntN(3)
		useSurv := r.IntN(2) == 0
		for i := 0; i < climbs; i++ {
			if useSurv {
				b.WriteString(pick(r, survivors))
			} else {
				b.WriteString(pick(r, dotdotEnc))
				b.WriteString(pick(r, sepEnc))
			}
		}
		t := pick(r, targets)
		if r.IntN(4) == 0 {
			t = strings.ReplaceAll(t, "/", pick(r, sepEnc))
		}
		b.WriteString(t)
		b.WriteString(pick(r, suffixes))
	case k < 85:
		// free recombination of atoms
		b.WriteString(pick(r, prefixes))
		for i, n := 0, 1+r.IntN(6); i < n; i++ {
			switch r.IntN(10) {
			case 0, 1, 2:
				b.WriteString(pick(r, dotdotEnc))
			case 3:
				b.WriteString(pick(r, survivors))
			case 4:
				b.WriteString(pick(r, targets))
			case 5:
				if r.IntN(6) == 0 {
					b.WriteString(longName(r))
				} else {
					b.WriteString(randBytes(r))
				}
			default:
				b.WriteString(pick(r, benign))
			}
			if i+1 < n || r.IntN(3) == 0 {
				b.WriteString(pick(r, sepEnc))
			}
		}
		b.WriteString(pick(r, suffixes))
	default:
		// ordinary partition-shaped keys with light decoration
		b.WriteString(pick(r, []string{"", "", "/", "./"}))
		for i, n := 0, 1+r.IntN(6); i < n; i++ {
			if i > 0 {
				b.WriteString("/")
			}
			b.WriteString(pick(r, benign[:12]))
		}
		b.WriteString(pick(r, []string{"", "", "/", ".parquet", ".part"}))
	}
	key := b.String()
	// random NUL / dot insertion
	if r.IntN(8) == 0 && len(key) > 0 {
		p := r.IntN(len(key) + 1)
		key = key[:p] + "\x00" + key[p:]
	}
	return capDots(key)
}

func randBytes(r *rand.Rand) string {
	n := 1 + r.IntN(6)
	out := make([]byte, n)
	for i := range out {
		switch r.IntN(4) {
		case 0:
			out[i] = byte(r.IntN(256))
		case 1:
			out[i] = "./\\\x00 _-%"[r.IntN(8)]
		default:
			out[i] = byte('a' + r.IntN(26))
		}
	}
	return string(out)
}

// capDots enforces the safety bound by dropping '.' bytes from the end.
func capDots(key string) string {
	if strings.Count(key, ".") <= maxDots {
		return key
	}
	var b strings.Builder
	n := 0
	for i := 0; i < len(key); i++ {
		if key[i] == '.' {
			n++
			if n > maxDots {
				continue
			}
		}
		b.WriteByte(key[i])
	}
	return b.String()
}

// hostile reports whether the key exercises one of the shapes named by the
// property's quantifier (used for the non-triviality count).
func hostile(key string) bool {
	if key == "" || strings.Contains(key, "..") || strings.ContainsAny(key, "\x00\\") ||
		strings.HasPrefix(key, "/") || strings.HasSuffix(key, "/") || len(key) > 255 {
		return true
	}
	for i := 0; i < len(key); i++ {
		if key[i] >= 0x80 {
			return true
		}
	}
	return strings.Contains(key, "%") || strings.Contains(key, "./") || strings.Contains(key, "{ROOT}") ||
		strings.Contains(key, "{SANDBOX}")
}

func keyFeatures(key string) []string {
	var f []string
	add := func(c bool, s string) {
		if c {
			f = append(f, s)
		}
	}
	add(key == "", "empty")
	add(strings.Contains(key, ".."), "dotdot")
	add(strings.Contains(key, "\x00"), "nul")
	add(strings.Contains(key, "\\"), "backslash")
	add(strings.HasPrefix(key, "/") || strings.HasPrefix(key, "{"), "absolute")
	add(strings.HasSuffix(key, "/"), "trailing_slash")
	add(len(key) > 255, "long")
	add(strings.Contains(key, "%"), "percent")
	uni := false
	for i := 0; i < len(key); i++ {
		if key[i] >= 0x80 {
			uni = true
		}
	}
	add(uni, "non_ascii")
	return f
}
