package main

import (
	"bufio"
	"bytes"
	"context"
	"crypto/sha256"
	"errors"
	"fmt"
	"io"
	"os"
	"os/exec"
	"path/filepath"
	"regexp"
	"sort"
	"strconv"
	"strings"
	"sync"
	"syscall"
	"time"

	"github.com/basekick-labs/arc/internal/storage"
	"github.com/basekick-labs/arc/internal/zzverif/vlib"
	"github.com/rs/zerolog"
)

// detContent is deterministic, self-describing content: a header naming tag and
// size followed by a SHA-256 keystream of the tag. A reader that sees the header
// can recompute what the complete file must be.
func detContent(tag string, size int) []byte {
	hdr := fmt.Sprintf("C08:%s:%d\n", tag, size)
	out := make([]byte, 0, size+64)
	out = append(out, hdr...)
	for i := 0; len(out) < size; i++ {
		h := sha256.Sum256([]byte(tag + "#" + strconv.Itoa(i)))
		out = append(out, h[:]...)
	}
	return out[:size]
}

// parseDet recovers (tag,size) from content produced by detContent.
func parseDet(b []byte) (tag string, size int, ok bool) {
	nl := bytes.IndexByte(b, '\n')
	if nl < 0 || !bytes.HasPrefix(b, []byte("C08:")) {
		return "", 0, false
	}
	f := strings.Split(string(b[4:nl]), ":")
	if len(f) != 2 {
		return "", 0, false
	}
	n, err := strconv.Atoi(f[1])
	if err != nil {
		return "", 0, false
	}
	return f[0], n, true
}

const crashKey = "db/cpu/2026/01/02/03/cpu_20260102_030000_000001.parquet"

type crashCfg struct {
	Op        string `json:"op"`       // Write | WriteReader | AppendReader
	Scenario  string `json:"scenario"` // fresh | overwrite | stale-part | resume | resume-overwrite
	Size      int    `json:"size"`
	Chunked   bool   `json:"chunked_reader"`
	PrefixLen int    `json:"prefix_len"`
}

func (cf crashCfg) String() string {
	return fmt.Sprintf("%s/%s/size=%d/chunked=%v/prefix=%d", cf.Op, cf.Scenario, cf.Size, cf.Chunked, cf.PrefixLen)
}

func (cf crashCfg) newTag() string { return "new-" + cf.Op + "-" + cf.Scenario }

// childWrite: -child-write <op> <root> <key> <size> <tag> <prefixLen> <chunked>
// performs exactly one backend call and exits 0 on success.
func childWrite(a []string) {
	if len(a) != 7 {
		fmt.Fprintln(os.Stderr, "child-write: bad args")
		os.Exit(9)
	}
	op, root, key, tag := a[0], a[1], a[2], a[4]
	size, _ := strconv.Atoi(a[3])
	prefix, _ := strconv.Atoi(a[5])
	chunked := a[6] == "1"
	be, err := storage.NewLocalBackend(root, zerolog.Nop())
	if err != nil {
		fmt.Fprintln(os.Stderr, "child-write:", err)
		os.Exit(9)
	}
	content := detContent(tag, size)
	mk := func(b []byte) io.Reader {
		if chunked {
			return struct{ io.Reader }{bytes.NewReader(b)} // hides WriterTo: copied in 32 KiB chunks like a network body
		}
		return bytes.NewReader(b)
	}
	ctx := context.Background()
	switch op {
	case "Write":
		err = be.Write(ctx, key, content)
	case "WriteReader":
		err = be.WriteReader(ctx, key, mk(content), int64(size))
	case "AppendReader":
		rest := content[prefix:]
		err = be.AppendReader(ctx, key, mk(rest), int64(len(rest)))
	default:
		err = fmt.Errorf("unknown op %q", op)
	}
	if err != nil {
		fmt.Fprintln(os.Stderr, "child-write:", err)
		os.Exit(7)
	}
	os.Exit(0)
}

var crashClasses = []string{
	"openat", "write", "pwrite64", "rename", "renameat", "renameat2", "fsync", "fdatasync", "close",
	"unlink", "unlinkat", "ftruncate", "mkdir", "mkdirat", "fchmod", "fchmodat", "linkat",
}

// setupCrash prepares the pre-state of a configuration under a fresh root.
func setupCrash(base string, cf crashCfg) (top, root, final string, old []byte, err error) {
	top, err = os.MkdirTemp(base, "cr-")
	if err != nil {
		return
	}
	root = filepath.Join(top, "root")
	final = filepath.Join(root, filepath.FromSlash(crashKey))
	if err = os.MkdirAll(root, 0o700); err != nil {
		return
	}
	content := detContent(cf.newTag(), cf.Size)
	mkdir := func() error { return os.MkdirAll(filepath.Dir(final), 0o700) }
	switch cf.Scenario {
	case "fresh":
	case "overwrite":
		old = detContent("old-"+cf.Op, cf.Size/2+777)
		if err = mkdir(); err == nil {
			err = os.WriteFile(final, old, 0o600)
		}
	case "stale-part":
		if err = mkdir(); err == nil {
			err = os.WriteFile(final+".part", detContent("stale", cf.Size+4321), 0o600)
		}
	case "resume", "resume-overwrite":
		if err = mkdir(); err == nil {
			err = os.WriteFile(final+".part", content[:cf.PrefixLen], 0o600)
		}
		if err == nil && cf.Scenario == "resume-overwrite" {
			old = detContent("old-"+cf.Op, cf.Size/2+777)
			err = os.WriteFile(final, old, 0o600)
		}
	default:
		err = fmt.Errorf("unknown scenario %s", cf.Scenario)
	}
	return
}

type childOutcome int

const (
	childCompleted childOutcome = iota
	childKilled
	childFailed
	childTimeout
	childOpError // the backend call itself returned an error (child exit status 7)
)

// runChild runs the one-call child under strace. inject=="" means baseline
// (logPath receives the trace).
func runChild(cf crashCfg, root string, traceSet, inject, logPath string) (childOutcome, string) {
	self, err := os.Executable()
	if err != nil {
		return childFailed, err.Error()
	}
	args := []string{"-f", "-o", logPath, "-e", "trace=" + traceSet}
	if inject != "" {
		for _, in := range strings.Split(inject, "\x00") {
			args = append(args, "-e", "inject="+in)
		}
	}
	ch := "0"
	if cf.Chunked {
		ch = "1"
	}
	args = append(args, self, "-child-write", cf.Op, root, crashKey, strconv.Itoa(cf.Size), cf.newTag(),
		strconv.Itoa(cf.PrefixLen), ch)
	ctx, cancel := context.WithTimeout(context.Background(), 120*time.Second)
	defer cancel()
	cmd := exec.CommandContext(ctx, "strace", args...)
	cmd.Env = append(os.Environ(), "GOMAXPROCS=1", "GOGC=off")
	var stderr bytes.Buffer
	cmd.Stderr = &stderr
	err = cmd.Run()
	if ctx.Err() != nil {
		return childTimeout, "timeout"
	}
	if err == nil {
		return childCompleted, ""
	}
	var ee *exec.ExitError
	if errors.As(err, &ee) {
		if ws, ok := ee.Sys().(syscall.WaitStatus); ok && ws.Signaled() && ws.Signal() == syscall.SIGKILL {
			return childKilled, ""
		}
		if ee.ExitCode() == 7 {
			return childOpError, clip(stderr.String(), 400)
		}
	}
	return childFailed, err.Error() + ": " + clip(stderr.String(), 400)
}

var straceLine = regexp.MustCompile(`^(\d+)\s+([a-z0-9_]+)\(`)

// baseline counts, for the child's main thread, the calls of each class, and the
// per-class index of the first call at or after the first syscall naming the root.
type baselineInfo struct {
	Counts       map[string]int
	RelevantFrom map[string]int
	OffThread    int
	Sequence     []string // class sequence from the first root-touching call on
}

func parseBaseline(logPath, root string) (*baselineInfo, error) {
	f, err := os.Open(logPath)
	if err != nil {
		return nil, err
	}
	defer f.Close()
	bi := &baselineInfo{Counts: map[string]int{}, RelevantFrom: map[string]int{}}
	sc := bufio.NewScanner(f)
	sc.Buffer(make([]byte, 1<<20), 1<<26)
	mainTid := ""
	started := false
	for sc.Scan() {
		line := sc.Text()
		m := straceLine.FindStringSubmatch(line)
		if m == nil {
			continue
		}
		if mainTid == "" {
			mainTid = m[1]
		}
		if m[1] != mainTid {
			bi.OffThread++
			continue
		}
		if !started && strings.Contains(line, root) {
			started = true
		}
		bi.Counts[m[2]]++
		if started {
			if _, ok := bi.RelevantFrom[m[2]]; !ok {
				bi.RelevantFrom[m[2]] = bi.Counts[m[2]]
			}
			bi.Sequence = append(bi.Sequence, m[2])
		}
	}
	if !started {
		return nil, fmt.Errorf("baseline trace never names the root")
	}
	return bi, sc.Err()
}

type crashDetail struct {
	Kind       string   `json:"kind"` // "crash"
	Cfg        crashCfg `json:"config"`
	Class      string   `json:"syscall_class"`
	N          int      `json:"killed_before_nth_call"`
	Final      string   `json:"final_path_state"`
	FinalLen   int      `json:"final_len"`
	StagingLen int      `json:"staging_len"`
	Sequence   []string `json:"operation_syscalls"`
	Note       string   `json:"note"`
}

// finalState classifies what is under the final name.
func finalState(final string, want, old []byte) (state string, n int) {
	b, err := os.ReadFile(final)
	switch {
	case err != nil && os.IsNotExist(err):
		return "absent", 0
	case err != nil:
		return "unreadable: " + err.Error(), 0
	case bytes.Equal(b, want):
		return "complete", len(b)
	case old != nil && bytes.Equal(b, old):
		return "old-complete", len(b)
	case len(b) == 0:
		return "an empty file", 0
	case len(b) < len(want) && bytes.Equal(b, want[:len(b)]):
		return "a strict prefix of the intended content", len(b)
	}
	return "content that is neither the previous nor the intended file", len(b)
}

func okState(s string) bool { return s == "absent" || s == "complete" || s == "old-complete" }

type crashRunner struct {
	c    *vlib.Ctx
	base string
	mu   sync.Mutex
	seqs map[string]string
}

// one crash point: fresh pre-state, child killed before the nth call of class.
// Returns whether the child was killed.
func (r *crashRunner) crashPoint(cf crashCfg, class string, n int, bi *baselineInfo, multi string) (killed bool, ok bool) {
	c := r.c
	top, root, final, old, err := setupCrash(r.base, cf)
	if top != "" {
		defer os.RemoveAll(top)
	}
	if err != nil {
		panic(err)
	}
	want := detContent(cf.newTag(), cf.Size)
	traceSet, inject := class, fmt.Sprintf("%s:signal=SIGKILL:when=%d", class, n)
	if multi != "" {
		traceSet, inject = strings.Join(crashClasses, ","), multi
	}
	out, msg := runChild(cf, root, traceSet, inject, "/dev/null")
	switch out {
	case childTimeout:
		c.Inconclusive("strace child timed out: " + cf.String())
		return false, false
	case childFailed, childOpError:
		c.Inconclusive("strace child failed (" + cf.String() + " " + class + "#" + strconv.Itoa(n) + "): " + msg)
		return false, false
	}
	st, flen := finalState(final, want, old)
	slen := -1
	if fi, err := os.Stat(final + ".part"); err == nil {
		slen = int(fi.Size())
	}
	det := crashDetail{Kind: "crash", Cfg: cf, Class: class, N: n, Final: st, FinalLen: flen, StagingLen: slen}
	if bi != nil {
		det.Sequence = bi.Sequence
	}
	if out == childCompleted {
		c.Count("children_completed_normally", 1)
		if st != "complete" {
			det.Note = "child completed without error"
			c.Violation(fmt.Sprintf("%s: completes without error but the final name holds %s", cf.Op, st), det)
		}
		return false, true
	}
	inOp := bi == nil || (bi.RelevantFrom[class] > 0 && n >= bi.RelevantFrom[class])
	c.Eval()
	c.Count("crash_points_hit", 1)
	c.Count("crash_points_hit_"+cf.Op+"_"+class, 1)
	if inOp {
		c.Count("crash_points_inside_operation", 1)
		c.Nontrivial(fmt.Sprintf("crash:%s:%s:%d", cf, class, n))
	}
	switch st {
	case "absent":
		c.Count("final_after_crash_absent", 1)
	case "complete":
		c.Count("final_after_crash_complete", 1)
	case "old-complete":
		c.Count("final_after_crash_previous_version_complete", 1)
	}
	if slen >= 0 {
		c.Count("staging_file_left_after_crash", 1)
	}
	if !okState(st) {
		c.Violation(fmt.Sprintf("%s: a crash leaves %s under the final name", cf.Op, st), det)
		return true, true
	}
	// resume after the crash (the puller's protocol): StatFile -> verify the staged
	// prefix via ReadToAt -> AppendReader the rest, or restart with WriteReader.
	if cf.Op != "Write" && st == "absent" {
		r.resume(cf, root, final, want, det)
	}
	return true, true
}

// errnoFor is the error injected into the n-th call of a class (the call is not
// executed, it returns the error): what a full disk, a quota, a dying device or an
// exhausted descriptor table produce.
var errnoFor = map[string]string{
	"openat": "EMFILE", "write": "ENOSPC", "pwrite64": "ENOSPC", "rename": "ENOSPC", "renameat": "ENOSPC",
	"renameat2": "ENOSPC", "fsync": "EIO", "fdatasync": "EIO", "close": "EIO", "ftruncate": "ENOSPC",
	"mkdir": "ENOSPC", "mkdirat": "ENOSPC",
}

// one error point: fresh pre-state, the n-th call of class fails with an error instead
// of the process dying. Whatever the call reports, the final name holds nothing, the
// previous complete file or the complete new file; when it reports success, the
// complete new file.
func (r *crashRunner) errorPoint(cf crashCfg, class string, n int, bi *baselineInfo) {
	c := r.c
	top, root, final, old, err := setupCrash(r.base, cf)
	if top != "" {
		defer os.RemoveAll(top)
	}
	if err != nil {
		panic(err)
	}
	want := detContent(cf.newTag(), cf.Size)
	out, msg := runChild(cf, root, class, fmt.Sprintf("%s:error=%s:when=%d", class, errnoFor[class], n), "/dev/null")
	if out != childCompleted && out != childOpError {
		c.Inconclusive(fmt.Sprintf("strace child with an injected error did not run (%s %s#%d): %v %s", cf, class, n, out, msg))
		return
	}
	st, flen := finalState(final, want, old)
	slen := -1
	if fi, err := os.Stat(final + ".part"); err == nil {
		slen = int(fi.Size())
	}
	det := crashDetail{Kind: "io-error", Cfg: cf, Class: class, N: n, Final: st, FinalLen: flen, StagingLen: slen, Sequence: bi.Sequence,
		Note: fmt.Sprintf("call #%d of %s returned %s; backend call reported: %s", n, class, errnoFor[class], map[bool]string{true: "success", false: "error: " + msg}[out == childCompleted])}
	c.Eval()
	c.Count("io_error_points", 1)
	c.Count("io_error_points_"+cf.Op+"_"+class, 1)
	c.Nontrivial(fmt.Sprintf("ioerr:%s:%s:%d", cf, class, n))
	if out == childCompleted {
		c.Count("io_error_absorbed_call_reported_success", 1)
		if st != "complete" {
			c.Violation(fmt.Sprintf("%s: reports success after a failed %s although the final name holds %s", cf.Op, class, st), det)
		}
		return
	}
	c.Count("io_error_reported_by_call", 1)
	switch st {
	case "absent":
		c.Count("final_after_io_error_absent", 1)
	case "complete":
		c.Count("final_after_io_error_complete", 1)
	case "old-complete":
		c.Count("final_after_io_error_previous_version_complete", 1)
	default:
		c.Violation(fmt.Sprintf("%s: a failed %s leaves %s under the final name", cf.Op, class, st), det)
	}
}

func (r *crashRunner) resume(cf crashCfg, root, final string, want []byte, det crashDetail) {
	c := r.c
	be, err := storage.NewLocalBackend(root, zerolog.Nop())
	if err != nil {
		panic(err)
	}
	ctx := context.Background()
	n, err := be.StatFile(ctx, crashKey)
	if err != nil {
		c.Inconclusive("StatFile during resume: " + err.Error())
		return
	}
	how := "restart"
	if n > 0 && int(n) <= len(want) {
		var w bytes.Buffer
		if err := be.ReadToAt(ctx, crashKey, &w, 0); err == nil && bytes.Equal(w.Bytes(), want[:n]) {
			how = "append"
		}
	}
	if how == "append" {
		rest := want[n:]
		err = be.AppendReader(ctx, crashKey, struct{ io.Reader }{bytes.NewReader(rest)}, int64(len(rest)))
		if err == nil && len(rest) == 0 {
			// nothing left to append: AppendReader promotes when written==appendSize (0==0)
		}
	} else {
		err = be.WriteReader(ctx, crashKey, struct{ io.Reader }{bytes.NewReader(want)}, int64(len(want)))
	}
	st, flen := finalState(final, want, nil)
	c.Count("resumes_after_crash_"+how, 1)
	if err != nil {
		det.Note = "resume (" + how + ") returned: " + err.Error()
	}
	if st == "complete" {
		c.Count("resumed_final_complete", 1)
		return
	}
	if err != nil && st == "absent" {
		// the resume failed and left nothing under the final name: not a C08 matter
		c.Count("resume_failed_final_absent", 1)
		return
	}
	det.Final, det.FinalLen = st, flen
	if det.Note == "" {
		det.Note = "after resume via " + how
	}
	c.Violation(fmt.Sprintf("%s: resume (%s) after a crash leaves %s under the final name", cf.Op, how, st), det)
}

// enumerate runs the baseline and every crash point of one configuration.
func (r *crashRunner) enumerate(cf crashCfg, pool chan struct{}, wg *sync.WaitGroup) {
	c := r.c
	pool <- struct{}{}
	top, root, final, old, err := setupCrash(r.base, cf)
	if err != nil {
		panic(err)
	}
	logPath := filepath.Join(top, "baseline.strace")
	out, msg := runChild(cf, root, strings.Join(crashClasses, ","), "", logPath)
	if out != childCompleted {
		os.RemoveAll(top)
		<-pool
		c.Inconclusive("baseline child did not complete (" + cf.String() + "): " + msg)
		return
	}
	bi, err := parseBaseline(logPath, root)
	st, _ := finalState(final, detContent(cf.newTag(), cf.Size), old)
	os.RemoveAll(top)
	<-pool
	if err != nil {
		c.Inconclusive("baseline parse (" + cf.String() + "): " + err.Error())
		return
	}
	if st != "complete" {
		c.Violation(fmt.Sprintf("%s: completes without error but the final name holds %s", cf.Op, st),
			crashDetail{Kind: "crash", Cfg: cf, Final: st, Note: "baseline (no injection)", Sequence: bi.Sequence})
	}
	c.Count("crash_configurations", 1)
	c.Count("baseline_offthread_syscalls", int64(bi.OffThread))
	r.mu.Lock()
	r.seqs[cf.String()] = strings.Join(bi.Sequence, " ")
	r.mu.Unlock()
	var inner sync.WaitGroup
	var armed []string
	for _, class := range crashClasses {
		cnt := bi.Counts[class]
		from := bi.RelevantFrom[class]
		armed = append(armed, fmt.Sprintf("%s:signal=SIGKILL:when=%d", class, cnt+1))
		if cnt == 0 || from == 0 {
			continue // the operation never makes this call
		}
		class := class
		start := from - 1
		if start < 1 {
			start = 1
		}
		inner.Add(1)
		go func() {
			defer inner.Done()
			for n := start; n <= cnt; n++ {
				pool <- struct{}{}
				killed, ok := r.crashPoint(cf, class, n, bi, "")
				<-pool
				if !ok {
					return
				}
				if !killed {
					// fewer calls than in the baseline run: the per-thread counter and the
					// baseline disagree; the enumeration of this class is incomplete
					c.Count("crash_enumeration_baseline_mismatch", 1)
					c.Inconclusive(fmt.Sprintf("%s: %s #%d not reached although the baseline made %d calls", cf, class, n, cnt))
					return
				}
			}
		}()
	}
	for class := range errnoFor {
		cnt, from := bi.Counts[class], bi.RelevantFrom[class]
		if cnt == 0 || from == 0 {
			continue
		}
		class := class
		inner.Add(1)
		go func() {
			defer inner.Done()
			for n := from; n <= cnt; n++ {
				pool <- struct{}{}
				r.errorPoint(cf, class, n, bi)
				<-pool
			}
		}()
	}
	inner.Wait()
	// exhaustiveness: with every class armed one past its baseline count the child
	// must run to completion, i.e. no further call of any class exists
	pool <- struct{}{}
	killed, ok := r.crashPoint(cf, "all-classes", 0, bi, strings.Join(armed, "\x00"))
	<-pool
	if ok && killed {
		c.Count("crash_enumeration_baseline_mismatch", 1)
		c.Inconclusive(cf.String() + ": child still killed with every class armed past its baseline count (enumeration not exhaustive)")
	}
}

func crashConfigs(c *vlib.Ctx) []crashCfg {
	if c.Quick() {
		return []crashCfg{
			{Op: "Write", Scenario: "fresh", Size: 1},
			{Op: "Write", Scenario: "fresh", Size: 40000},
			{Op: "Write", Scenario: "fresh", Size: 100000},
			{Op: "Write", Scenario: "overwrite", Size: 100000},
			{Op: "WriteReader", Scenario: "fresh", Size: 1, Chunked: true},
			{Op: "WriteReader", Scenario: "fresh", Size: 40000, Chunked: true},
			{Op: "WriteReader", Scenario: "fresh", Size: 100000, Chunked: true},
			{Op: "WriteReader", Scenario: "fresh", Size: 100000, Chunked: false},
			{Op: "WriteReader", Scenario: "overwrite", Size: 100000, Chunked: true},
			{Op: "WriteReader", Scenario: "stale-part", Size: 40000, Chunked: true},
			{Op: "AppendReader", Scenario: "resume", Size: 1, Chunked: true, PrefixLen: 0},
			{Op: "AppendReader", Scenario: "resume", Size: 40000, Chunked: true, PrefixLen: 13333},
			{Op: "AppendReader", Scenario: "resume", Size: 100000, Chunked: true, PrefixLen: 0},
			{Op: "AppendReader", Scenario: "resume", Size: 100000, Chunked: true, PrefixLen: 32768},
			{Op: "AppendReader", Scenario: "resume", Size: 100000, Chunked: true, PrefixLen: 99999},
			{Op: "AppendReader", Scenario: "resume-overwrite", Size: 100000, Chunked: true, PrefixLen: 50000},
		}
	}
	sizes := []int{0, 1, 4095, 32768, 32769, 100000, 300000, 1 << 20}
	var out []crashCfg
	for _, s := range sizes {
		for _, sc := range []string{"fresh", "overwrite"} {
			out = append(out, crashCfg{Op: "Write", Scenario: sc, Size: s})
		}
		for _, sc := range []string{"fresh", "overwrite", "stale-part"} {
			out = append(out, crashCfg{Op: "WriteReader", Scenario: sc, Size: s, Chunked: true})
		}
		out = append(out, crashCfg{Op: "WriteReader", Scenario: "fresh", Size: s, Chunked: false})
		prefixes := []int{0, s / 3}
		if s > 40000 {
			prefixes = append(prefixes, 32768, s-1)
		}
		seen := map[int]bool{}
		for _, p := range prefixes {
			if seen[p] {
				continue
			}
			seen[p] = true
			out = append(out, crashCfg{Op: "AppendReader", Scenario: "resume", Size: s, Chunked: true, PrefixLen: p})
		}
		out = append(out, crashCfg{Op: "AppendReader", Scenario: "resume-overwrite", Size: s, Chunked: true, PrefixLen: s / 2})
	}
	return out
}

func runCrashEnumeration(c *vlib.Ctx, base string, cfgs []crashCfg, par int) {
	r := &crashRunner{c: c, base: base, seqs: map[string]string{}}
	pool := make(chan struct{}, par)
	var wg sync.WaitGroup
	for _, cf := range cfgs {
		cf := cf
		wg.Add(1)
		go func() {
			defer wg.Done()
			r.enumerate(cf, pool, &wg)
		}()
	}
	wg.Wait()
	keys := make([]string, 0, len(r.seqs))
	for k := range r.seqs {
		keys = append(keys, k)
	}
	sort.Strings(keys)
	for i, k := range keys {
		if i%((len(keys)+3)/4) == 0 {
			c.Sample(map[string]string{"crash_config": k, "operation_syscalls_main_thread": r.seqs[k]})
		}
	}
}
