package main

import (
	"bytes"
	"crypto/sha256"
	"encoding/binary"
	"fmt"
	"io/fs"
	"os"
	"path/filepath"
	"sort"
	"strings"
	"syscall"
)

// sandbox is one worker's scratch world:
//
//	top/n1/.../n4/above.txt                  sentinel above the sandbox
//	top/n1/.../n4/sandbox/                   parent directory of the root
//	    root/                                the configured storage root
//	        keep/inside.txt                  ordinary in-root file (root is never empty)
//	    root2/secret.txt, root2/<canary>/    prefix-sibling of the root
//	    root.part                (variant 1) sentinel at the root's own staging name
//	    sibling/secret.txt, sibling/<canary>.dat
//	    secret.txt
//	    <canary>-dir/
//
// Everything outside root/ is "outside": it is snapshotted (path, type, size,
// mtime, sha256) and every outside directory carries an inotify watch.
type sandbox struct {
	top     string
	dir     string // parent of root
	root    string
	variant int
	snap    map[string]snapEntry
	ino     *inotify
	buf     []byte
}

type snapEntry struct {
	Dir   bool
	Size  int64
	Mtime int64
	Mode  fs.FileMode
	Sum   [32]byte
}

func sentinelContent(name string, size int) []byte {
	var b bytes.Buffer
	for b.Len() < size {
		fmt.Fprintf(&b, "%s[%s]\n", sentinelMarker, name)
	}
	return b.Bytes()[:size]
}

// sentinel sizes are distinctive (never used as a written-data size)
var sentinelSizes = map[string]int{
	"above.txt": 1009, "secret.txt": 1013, "sibling/secret.txt": 1019, "root2/secret.txt": 1021,
	"root.part": 1031, "canary.dat": 1033,
}

func isSentinelSize(n int64) bool {
	for _, s := range sentinelSizes {
		if int64(s) == n {
			return true
		}
	}
	return false
}

func newSandbox(base string, variant int) (*sandbox, error) {
	top, err := os.MkdirTemp(base, "sb-")
	if err != nil {
		return nil, err
	}
	sb := &sandbox{top: top, variant: variant}
	p := top
	for i := 1; i <= nestDepth-2; i++ {
		p = filepath.Join(p, fmt.Sprintf("n%d", i))
	}
	sb.dir = filepath.Join(p, "sandbox")
	sb.root = filepath.Join(sb.dir, "root")
	mk := func(d string) {
		if err == nil {
			err = os.MkdirAll(d, 0o755)
		}
	}
	wr := func(f string, name string) {
		if err == nil {
			err = os.WriteFile(f, sentinelContent(name, sentinelSizes[name]), 0o644)
		}
	}
	mk(sb.root)
	mk(filepath.Join(sb.dir, "root2", canaryToken+"-sub"))
	mk(filepath.Join(sb.dir, "sibling"))
	mk(filepath.Join(sb.dir, canaryToken+"-dir"))
	wr(filepath.Join(p, "above.txt"), "above.txt")
	wr(filepath.Join(sb.dir, "secret.txt"), "secret.txt")
	wr(filepath.Join(sb.dir, "sibling", "secret.txt"), "sibling/secret.txt")
	wr(filepath.Join(sb.dir, "sibling", canaryToken+".dat"), "canary.dat")
	wr(filepath.Join(sb.dir, "root2", "secret.txt"), "root2/secret.txt")
	wr(filepath.Join(sb.dir, canaryToken+"-dir", canaryToken+".dat"), "canary.dat")
	if variant == 1 {
		wr(filepath.Join(sb.dir, "root.part"), "root.part")
	}
	if err != nil {
		os.RemoveAll(top)
		return nil, err
	}
	if err := sb.resetRoot(); err != nil {
		os.RemoveAll(top)
		return nil, err
	}
	return sb, nil
}

func (sb *sandbox) close() {
	if sb.ino != nil {
		sb.ino.close()
	}
	os.RemoveAll(sb.top)
}

// resetRoot empties the root and puts the keeper file back.
func (sb *sandbox) resetRoot() error {
	ents, _ := os.ReadDir(sb.root)
	for _, e := range ents {
		if err := os.RemoveAll(filepath.Join(sb.root, e.Name())); err != nil {
			return err
		}
	}
	if err := os.MkdirAll(filepath.Join(sb.root, "keep"), 0o700); err != nil {
		return err
	}
	return os.WriteFile(filepath.Join(sb.root, "keep", "inside.txt"), []byte("inside-root keeper\n"), 0o600)
}

// inside reports whether the lexically cleaned absolute path p is the root or
// below it. There are no symlinks anywhere in the sandbox, so lexical cleaning is
// exact.
func (sb *sandbox) inside(p string) bool {
	p = filepath.Clean(p)
	return p == sb.root || strings.HasPrefix(p, sb.root+"/")
}

// expand substitutes the sandbox placeholders of a key template.
func (sb *sandbox) expand(key string) string {
	key = strings.ReplaceAll(key, "{ROOT}", sb.root)
	return strings.ReplaceAll(key, "{SANDBOX}", sb.dir)
}

// outsideDirs lists every directory of the scratch tree that is not the root or
// below it.
func (sb *sandbox) outsideDirs() []string {
	var out []string
	filepath.WalkDir(sb.top, func(p string, d fs.DirEntry, err error) error {
		if err != nil {
			return nil
		}
		if p == sb.root {
			return filepath.SkipDir
		}
		if d.IsDir() {
			out = append(out, p)
		}
		return nil
	})
	return out
}

// snapshot records everything outside the root (the root directory entry itself
// is recorded by existence/type only). It is taken after every backend call, so
// it uses raw syscalls and one reusable buffer instead of os.File.
func (sb *sandbox) snapshot() map[string]snapEntry {
	m := make(map[string]snapEntry, 32)
	if sb.buf == nil {
		sb.buf = make([]byte, 1<<16)
	}
	var walk func(p string)
	walk = func(p string) {
		var st syscall.Stat_t
		if err := syscall.Lstat(p, &st); err != nil {
			return
		}
		isDir := st.Mode&syscall.S_IFMT == syscall.S_IFDIR
		if p == sb.root {
			m[p] = snapEntry{Dir: isDir}
			return
		}
		e := snapEntry{Dir: isDir, Mode: fs.FileMode(st.Mode), Mtime: st.Mtim.Nano()}
		if !isDir {
			e.Size = st.Size
			if st.Mode&syscall.S_IFMT == syscall.S_IFREG {
				if fd, err := syscall.Open(p, syscall.O_RDONLY|syscall.O_CLOEXEC|syscall.O_NOFOLLOW, 0); err == nil {
					h := sha256.New()
					for {
						n, err := syscall.Read(fd, sb.buf)
						if n <= 0 || err != nil {
							break
						}
						h.Write(sb.buf[:n])
						if n < len(sb.buf) && int64(n) >= st.Size {
							break
						}
					}
					syscall.Close(fd)
					h.Sum(e.Sum[:0])
				}
			}
			m[p] = e
			return
		}
		m[p] = e
		fd, err := syscall.Open(p, syscall.O_RDONLY|syscall.O_DIRECTORY|syscall.O_CLOEXEC, 0)
		if err != nil {
			return
		}
		var names []string
		for {
			n, err := syscall.ReadDirent(fd, sb.buf)
			if n <= 0 || err != nil {
				break
			}
			_, _, names = syscall.ParseDirent(sb.buf[:n], -1, names)
		}
		syscall.Close(fd)
		for _, nm := range names {
			walk(p + "/" + nm)
		}
	}
	walk(sb.top)
	return m
}

// effect is one observation of the backend touching something outside the root.
type effect struct {
	Monitor string `json:"monitor"` // snapshot | inotify | result | strace
	Kind    string `json:"kind"`
	Path    string `json:"path"`
}

func diffSnap(a, b map[string]snapEntry) []effect {
	var out []effect
	for p, ea := range a {
		eb, ok := b[p]
		switch {
		case !ok:
			out = append(out, effect{"snapshot", "removed", p})
		case ea.Dir != eb.Dir || ea.Mode != eb.Mode:
			out = append(out, effect{"snapshot", "type-or-mode-changed", p})
		case !ea.Dir && (ea.Size != eb.Size || ea.Sum != eb.Sum):
			out = append(out, effect{"snapshot", "content-modified", p})
		case ea.Mtime != eb.Mtime:
			if ea.Dir {
				out = append(out, effect{"snapshot", "directory-entries-changed(mtime)", p})
			} else {
				out = append(out, effect{"snapshot", "mtime-changed", p})
			}
		}
	}
	for p := range b {
		if _, ok := a[p]; !ok {
			out = append(out, effect{"snapshot", "created", p})
		}
	}
	sort.Slice(out, func(i, j int) bool { return out[i].Path+out[i].Kind < out[j].Path+out[j].Kind })
	return out
}

// ---- inotify -------------------------------------------------------------

type inotify struct {
	fd  int
	wds map[int32]string
	buf []byte
}

const inoMask = syscall.IN_ACCESS | syscall.IN_MODIFY | syscall.IN_ATTRIB | syscall.IN_CLOSE_WRITE |
	syscall.IN_CLOSE_NOWRITE | syscall.IN_OPEN | syscall.IN_MOVED_FROM | syscall.IN_MOVED_TO |
	syscall.IN_CREATE | syscall.IN_DELETE | syscall.IN_DELETE_SELF | syscall.IN_MOVE_SELF

func newInotify(dirs []string) (*inotify, error) {
	fd, err := syscall.InotifyInit1(syscall.IN_NONBLOCK | syscall.IN_CLOEXEC)
	if err != nil {
		return nil, err
	}
	in := &inotify{fd: fd, wds: map[int32]string{}, buf: make([]byte, 1<<16)}
	for _, d := range dirs {
		wd, err := syscall.InotifyAddWatch(fd, d, inoMask)
		if err != nil {
			syscall.Close(fd)
			return nil, fmt.Errorf("inotify watch %s: %w", d, err)
		}
		in.wds[int32(wd)] = d
	}
	return in, nil
}

func (in *inotify) close() { syscall.Close(in.fd) }

type inoEvent struct {
	Dir  string
	Name string
	Mask uint32
}

// drain returns all queued events without blocking. inotify queues an event
// synchronously inside the file-system operation that causes it, so after a
// backend call has returned all of its events are already in the queue.
func (in *inotify) drain() (evs []inoEvent, overflow bool) {
	for {
		n, err := syscall.Read(in.fd, in.buf)
		if n <= 0 || err != nil {
			return
		}
		off := 0
		for off+syscall.SizeofInotifyEvent <= n {
			wd := int32(binary.LittleEndian.Uint32(in.buf[off:]))
			mask := binary.LittleEndian.Uint32(in.buf[off+4:])
			ln := int(binary.LittleEndian.Uint32(in.buf[off+12:]))
			name := ""
			if ln > 0 {
				name = string(bytes.TrimRight(in.buf[off+16:off+16+ln], "\x00"))
			}
			off += syscall.SizeofInotifyEvent + ln
			if mask&syscall.IN_Q_OVERFLOW != 0 {
				overflow = true
				continue
			}
			if mask&syscall.IN_IGNORED != 0 {
				continue
			}
			evs = append(evs, inoEvent{Dir: in.wds[wd], Name: name, Mask: mask})
		}
	}
}

func maskNames(m uint32) string {
	var s []string
	for _, x := range []struct {
		b uint32
		n string
	}{
		{syscall.IN_ACCESS, "ACCESS"}, {syscall.IN_MODIFY, "MODIFY"}, {syscall.IN_ATTRIB, "ATTRIB"},
		{syscall.IN_CLOSE_WRITE, "CLOSE_WRITE"}, {syscall.IN_CLOSE_NOWRITE, "CLOSE_NOWRITE"},
		{syscall.IN_OPEN, "OPEN"}, {syscall.IN_MOVED_FROM, "MOVED_FROM"}, {syscall.IN_MOVED_TO, "MOVED_TO"},
		{syscall.IN_CREATE, "CREATE"}, {syscall.IN_DELETE, "DELETE"}, {syscall.IN_DELETE_SELF, "DELETE_SELF"},
		{syscall.IN_MOVE_SELF, "MOVE_SELF"}, {syscall.IN_ISDIR, "ISDIR"},
	} {
		if m&x.b != 0 {
			s = append(s, x.n)
		}
	}
	return strings.Join(s, "|")
}

// arm installs the inotify watches and takes the baseline snapshot. Call after
// every harness-made change outside the root.
func (sb *sandbox) arm() error {
	if sb.ino != nil {
		sb.ino.close()
	}
	in, err := newInotify(sb.outsideDirs())
	if err != nil {
		return err
	}
	sb.ino = in
	sb.snap = sb.snapshot()
	sb.ino.drain()
	return nil
}

// observe is called right after a backend call: it turns queued inotify events and
// the snapshot difference into effects, and re-baselines. Reads of the root
// directory entry itself (open/readdir of <sandbox>/root seen from the parent's
// watch) are not effects.
func (sb *sandbox) observe() (effs []effect, overflow bool) {
	evs, ov := sb.ino.drain()
	seen := map[string]bool{}
	for _, e := range evs {
		p := e.Dir
		if e.Name != "" {
			p = filepath.Join(e.Dir, e.Name)
		}
		if p == sb.root {
			ro := uint32(syscall.IN_OPEN | syscall.IN_ACCESS | syscall.IN_CLOSE_NOWRITE | syscall.IN_ISDIR)
			if e.Mask&^ro == 0 {
				continue
			}
		}
		k := maskNames(e.Mask) + " " + p
		if seen[k] {
			continue
		}
		seen[k] = true
		effs = append(effs, effect{"inotify", maskNames(e.Mask), p})
	}
	after := sb.snapshot()
	effs = append(effs, diffSnap(sb.snap, after)...)
	sb.snap = after
	sb.ino.drain() // events caused by our own snapshot reads
	return effs, ov
}

// locClass classifies an outside path relative to the root (for signatures).
const (
	locOther    = "elsewhere outside the root"
	locAdjacent = "a name derived from the root path itself (<root>.part staging file / temp file beside the root)"
	locParent   = "the parent directory of the root"
	locRootSelf = "the root directory entry itself (removed or replaced)"
)

func (sb *sandbox) locClass(p string) string {
	p = filepath.Clean(p)
	switch {
	case p == sb.root:
		return locRootSelf
	case p == sb.dir:
		return locParent
	case filepath.Dir(p) == sb.dir:
		b := filepath.Base(p)
		if b == "root.part" || (strings.HasPrefix(b, ".arc-") && strings.HasSuffix(b, ".tmp")) {
			return locAdjacent
		}
	}
	return locOther
}

var locRank = map[string]int{locParent: 1, locRootSelf: 2, locAdjacent: 3, locOther: 4}

// worstLoc picks the most specific location class among the effects.
func (sb *sandbox) worstLoc(effs []effect) string {
	best := ""
	for _, e := range effs {
		c := locOther
		if e.Path != "" {
			c = sb.locClass(e.Path)
		}
		if locRank[c] > locRank[best] {
			best = c
		}
	}
	return best
}
