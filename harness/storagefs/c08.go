package main

import (
	"encoding/base64"
	"encoding/json"
	"fmt"
	"os"
	"runtime"
	"runtime/pprof"
	"time"

	"github.com/basekick-labs/arc/internal/zzverif/vlib"
)

func checkC08(c *vlib.Ctx) {
	c.Rule("confinement: fixed corpus + seeded random keys ('..' in many encodings, NUL, backslash, unicode look-alikes, " +
		"percent forms, sanitiser survivors such as '....//' and '.\\x00.', absolute paths into the sandbox, prefix-siblings, " +
		"trailing slashes, long names), each applied to every keyed LocalBackend method in a sandbox whose root has sentinel " +
		"siblings; a key is non-trivial if it has one of the hostile shapes. atomicity: every (operation, pre-state, size, " +
		"syscall class, N) for which a strace-injected SIGKILL before the N-th call of that class hits the child performing " +
		"one Write/WriteReader/AppendReader; a crash point is non-trivial if it lies at or after the operation's first " +
		"file-system call. plus concurrent readers polling final names while writers publish versions.")
	c.Assume("crash = the process is killed between two system calls (the injected SIGKILL suppresses the N-th call); the page cache survives, so power-loss reordering/fsync is not modelled")
	c.Assume("no symlinks exist in the sandbox, so lexical cleaning of observed paths is exact; symlink planting inside the root is outside the key-string quantifier")
	c.Assume("inotify delivers events synchronously with the file-system operation; strace -e trace=file shows every path-taking syscall")
	c.Assume("edge-sync validators are unexported and are exercised through Receiver.Receive; header-derived keys are covered by quantifying over all key strings at the backend")

	base := vlib.TempDir("c08")
	defer os.RemoveAll(base)

	if c.Replay != "" {
		replayC08(c, base)
		return
	}
	par := runtime.NumCPU()
	if par > 16 {
		par = 16
	}
	jobs := buildJobs(c, c.N(5000, 150000))
	for i, j := range jobs {
		if !j.Fixed && i%600 == 0 {
			c.Sample(map[string]string{"key": fmt.Sprintf("%q", j.Key)})
		}
	}
	if pp := os.Getenv("VERIF_PPROF"); pp != "" {
		f, _ := os.Create(pp)
		pprof.StartCPUProfile(f)
		defer pprof.StopCPUProfile()
	}
	t0 := time.Now()
	phase := func(name string) {
		fmt.Printf("phase %-22s %.1fs\n", name, time.Since(t0).Seconds()) // informational only
		t0 = time.Now()
	}
	// the fixed corpus first and sequentially, so that the replay kept per signature
	// is the same at every seed
	nf := 0
	for nf < len(jobs) && jobs[nf].Fixed {
		nf++
	}
	stats := newConfStats()
	runConfinement(c, base, jobs[:nf], 1, stats)
	runConfinement(c, base, jobs[nf:], par, stats)
	stats.flush(c, "backend_")
	phase("confinement")
	if os.Getenv("VERIF_PPROF") != "" {
		pprof.StopCPUProfile()
		return
	}

	// syscall-level sample: the whole fixed corpus + a slice of the random keys
	nSample := c.N(600, 6000)
	var sample []keyJob
	for _, j := range jobs {
		if j.Fixed || nSample > 0 {
			sample = append(sample, j)
			if !j.Fixed {
				nSample--
			}
		}
	}
	runStraceSample(c, base, sample, par/2)
	phase("strace-confinement")
	runEdgeSync(c, base, buildEdgeJobs(c, c.N(2000, 40000)), par)
	phase("edgesync")
	runCrashEnumeration(c, base, crashConfigs(c), par)
	phase("crash-enumeration")
	runConcurrentReaders(c, base)
	phase("concurrent-readers")
	if os.Getenv("VERIF_C08_PROBE") != "" {
		probeSharedWriteReader(c, base)
	}
	c.Floor(c.N(3000, 50000))
}

// replayC08 re-runs the single failing case of a replay file.
func replayC08(c *vlib.Ctx, base string) {
	var kind struct {
		Kind string `json:"kind"`
	}
	if err := vlib.LoadReplay(c.Replay, &kind); err != nil {
		panic(err)
	}
	c.Floor(0)
	switch kind.Kind {
	case "confinement":
		var d confDetail
		if err := vlib.LoadReplay(c.Replay, &d); err != nil {
			panic(err)
		}
		kb, _ := base64.StdEncoding.DecodeString(d.KeyB64)
		j := keyJob{Idx: d.RootSpelling, Key: string(kb), Variant: d.Variant, Fixed: true}
		st := newConfStats()
		runConfinement(c, base, []keyJob{j}, 1, st)
		st.flush(c, "backend_")
		runStraceSample(c, base, []keyJob{j}, 1)
	case "edgesync":
		var d edgeDetail
		if err := vlib.LoadReplay(c.Replay, &d); err != nil {
			panic(err)
		}
		sp, _ := base64.StdEncoding.DecodeString(d.SpokeB64)
		pa, _ := base64.StdEncoding.DecodeString(d.PathB64)
		runEdgeSync(c, base, []edgeJob{{Idx: 0, Spoke: string(sp), Path: string(pa)}}, 1)
	case "crash":
		var d crashDetail
		if err := vlib.LoadReplay(c.Replay, &d); err != nil {
			panic(err)
		}
		if d.Class == "" {
			runCrashEnumeration(c, base, []crashCfg{d.Cfg}, 4)
			return
		}
		r := &crashRunner{c: c, base: base, seqs: map[string]string{}}
		killed, ok := r.crashPoint(d.Cfg, d.Class, d.N, nil, "")
		b, _ := json.Marshal(map[string]any{"killed": killed, "ok": ok})
		fmt.Println("replay crash point:", string(b))
	case "concurrent-reader":
		runConcurrentReaders(c, base)
	default:
		panic("unknown replay kind " + kind.Kind)
	}
}
