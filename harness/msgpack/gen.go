package main

// Payload generator: columnar / row / batch / top-level-array / scalar payloads
// over a small column pool, every value with a freely chosen wire encoding, plus
// structure-aware and byte-level mutations.

import (
	"fmt"
	"math"
	"math/rand/v2"
)

type genPayload struct {
	Idx    int
	Bytes  []byte
	Family string
	Muts   []string
}

type gen struct {
	r    *rand.Rand
	muts []string
}

func (g *gen) p(pct int) bool { return g.r.IntN(100) < pct }

func (g *gen) note(m string) { g.muts = append(g.muts, m) }

// ---------- scalars ----------

var intEdges = []int64{0, 1, -1, 31, 32, -32, -33, 127, 128, -128, -129, 255, 256, 32767, 32768, -32768, -32769,
	65535, 65536, math.MaxInt32, math.MaxInt32 + 1, math.MinInt32, math.MinInt32 - 1, math.MaxUint32, math.MaxUint32 + 1,
	math.MaxInt64, math.MinInt64, math.MaxInt64 - 1, 1 << 53, 1<<53 + 1}

func (g *gen) intVal() int64 {
	switch g.r.IntN(10) {
	case 0, 1, 2, 3:
		return int64(g.r.IntN(200)) - 40
	case 4:
		return int64(g.r.IntN(70000)) - 33000
	case 5:
		return int64(g.r.Uint32()) - (1 << 31)
	case 6:
		return int64(g.r.Uint64())
	case 7, 8:
		return intEdges[g.r.IntN(len(intEdges))]
	}
	return int64(g.r.IntN(1 << 20))
}

func (g *gen) intNode(v int64) *Node {
	if g.p(45) {
		return Int(v)
	}
	codes := IntCodes(v)
	return IntAs(v, codes[g.r.IntN(len(codes))])
}

var floatEdges = []float64{0, math.Copysign(0, -1), 1, -1, 0.5, -0.5, 1.5, 1e-300, 5e-324, 3.0, 255.0, 1e10, 1e15,
	9.2233720368547758e18, -9.2233720368547758e18, 9.3e18, -9.3e18, 1e19, -1e19, 1e300, math.MaxFloat64,
	math.Inf(1), math.Inf(-1), math.NaN(), 1.8446744073709552e19, 123456.789, 2147483648.0, 4294967296.5}

func (g *gen) floatNode() *Node {
	var f float64
	switch g.r.IntN(5) {
	case 0:
		f = float64(g.r.IntN(1000)) / 8
	case 1:
		f = float64(g.r.IntN(100000) - 50000)
	case 2, 3:
		f = floatEdges[g.r.IntN(len(floatEdges))]
	default:
		f = g.r.NormFloat64() * 1e6
	}
	if g.p(35) {
		return F32(float32(f))
	}
	if g.p(3) { // NaN with a payload / signalling pattern
		return f64node(0x7ff0000000000001 | uint64(g.r.IntN(1<<20))<<8)
	}
	return F64(f)
}

var strPool = []string{"a", "", "srv01", "us-east", "héllo", "日本", "x y", "with\x00nul", "tab\there", "Ünï", "quote\"s",
	"\xff\xfe", "ok\xc3", "\xed\xa0\x80", "abc\x80def", "long-long-long-long-long-long-32b", "1234567890123456789012345678901"}

func (g *gen) strVal() string {
	if g.p(6) {
		n := []int{31, 32, 33, 255, 256, 300}[g.r.IntN(6)]
		b := make([]byte, n)
		for i := range b {
			b[i] = byte('a' + g.r.IntN(26))
		}
		return string(b)
	}
	return strPool[g.r.IntN(len(strPool))]
}

func (g *gen) strNode(s string) *Node {
	need := strCode(len(s))
	if g.p(65) {
		return StrAs(s, need)
	}
	var opts []byte
	for _, c := range []byte{0xa0, 0xd9, 0xda, 0xdb} {
		if c == 0xa0 && len(s) > 31 || c == 0xd9 && len(s) > 255 {
			continue
		}
		opts = append(opts, c)
	}
	return StrAs(s, opts[g.r.IntN(len(opts))])
}

func (g *gen) binNode() *Node {
	b := []byte(g.strVal())
	return Bin(b, []byte{0xc4, 0xc5, 0xc6}[g.r.IntN(3)])
}

func (g *gen) extNode() *Node {
	if g.p(30) { // the registered timestamp extension (-1), well-formed
		switch g.r.IntN(3) {
		case 0:
			return Ext(-1, []byte{0x5f, 0x5e, 0x10, 0x00}, 0xd6)
		case 1:
			return Ext(-1, []byte{0, 0, 0, 4, 0x5f, 0x5e, 0x10, 0x00}, 0xd7)
		}
		return Ext(-1, []byte{0, 0, 0, 1, 0, 0, 0, 0, 0x5f, 0x5e, 0x10, 0x00}, 0xc7)
	}
	typ := int8(g.r.IntN(20) - 3)
	switch g.r.IntN(4) {
	case 0:
		return Ext(typ, []byte{1}, 0xd4)
	case 1:
		return Ext(typ, []byte{1, 2, 3, 4}, 0xd6)
	case 2:
		return Ext(typ, []byte{1, 2, 3}, 0xc7)
	}
	return Ext(typ, []byte{}, 0xc8)
}

func (g *gen) arr(items []*Node) *Node {
	n := Arr(items...)
	if g.p(25) {
		if len(items) <= 0xffff && g.p(60) {
			n.C = 0xdc
		} else {
			n.C = 0xdd
		}
	}
	return n
}

func (g *gen) mp(kv []*Node) *Node {
	n := Map(kv...)
	if g.p(15) {
		if g.p(60) {
			n.C = 0xde
		} else {
			n.C = 0xdf
		}
	}
	return n
}

// anyValue: arbitrary small tree (used for skipped / ignored positions).
func (g *gen) anyValue(depth int) *Node {
	k := g.r.IntN(14)
	if depth > 2 && k >= 10 {
		k = g.r.IntN(10)
	}
	switch k {
	case 0:
		return Nil()
	case 1:
		return Bool(g.p(50))
	case 2, 3:
		return g.intNode(g.intVal())
	case 4:
		return g.floatNode()
	case 5, 6:
		return g.strNode(g.strVal())
	case 7:
		return g.binNode()
	case 8:
		return g.extNode()
	case 9:
		return U64(uint64(math.MaxInt64) + 1 + uint64(g.r.IntN(1000)))
	case 10, 11:
		n := g.r.IntN(4)
		items := make([]*Node, n)
		for i := range items {
			items[i] = g.anyValue(depth + 1)
		}
		return g.arr(items)
	default:
		n := g.r.IntN(3)
		var kv []*Node
		for i := 0; i < n; i++ {
			var key *Node
			if g.p(25) {
				key = g.nonStringKey()
			} else {
				key = g.strNode(fmt.Sprintf("n%d", i))
			}
			kv = append(kv, key, g.anyValue(depth+1))
		}
		return g.mp(kv)
	}
}

func (g *gen) nonStringKey() *Node {
	switch g.r.IntN(7) {
	case 0:
		return g.intNode(int64(g.r.IntN(50)))
	case 1:
		return Nil()
	case 2:
		return Bool(true)
	case 3:
		return g.binNode()
	case 4:
		return g.floatNode()
	case 5:
		return Arr(Int(1))
	}
	return g.intNode(-5)
}

// ---------- columns ----------

func (g *gen) sprinkleNils(col []*Node, pct int) {
	for i := range col {
		if g.p(pct) {
			col[i] = Nil()
		}
	}
}

func (g *gen) valueColumn(n int) ([]*Node, string) {
	col := make([]*Node, n)
	fill := func(f func() *Node) {
		for i := range col {
			col[i] = f()
		}
	}
	nilPct := []int{0, 0, 0, 20, 50}[g.r.IntN(5)]
	kind := g.r.IntN(100)
	switch {
	case kind < 20:
		fill(func() *Node { return g.intNode(g.intVal()) })
		g.sprinkleNils(col, nilPct)
		return col, "int"
	case kind < 36:
		fill(g.floatNode)
		g.sprinkleNils(col, nilPct)
		return col, "float"
	case kind < 52:
		fill(func() *Node { return g.strNode(g.strVal()) })
		g.sprinkleNils(col, nilPct)
		return col, "str"
	case kind < 60:
		fill(func() *Node { return Bool(g.p(50)) })
		g.sprinkleNils(col, nilPct)
		return col, "bool"
	case kind < 65:
		fill(Nil)
		return col, "all-nil"
	case kind < 72: // int class, later floats / uint64
		fill(func() *Node {
			switch g.r.IntN(4) {
			case 0:
				return g.floatNode()
			case 1:
				return U64(g.r.Uint64())
			}
			return g.intNode(g.intVal())
		})
		col[0] = g.intNode(g.intVal())
		g.sprinkleNils(col, nilPct)
		return col, "int+float/uint64"
	case kind < 79: // float class, later ints / uint64
		fill(func() *Node {
			switch g.r.IntN(4) {
			case 0:
				return g.intNode(g.intVal())
			case 1:
				return U64(g.r.Uint64())
			}
			return g.floatNode()
		})
		col[0] = g.floatNode()
		g.sprinkleNils(col, nilPct)
		return col, "float+int/uint64"
	case kind < 83: // uint64-coded column (values above and below MaxInt64)
		fill(func() *Node {
			if g.p(40) {
				return U64(uint64(math.MaxInt64) + uint64(g.r.IntN(3)))
			}
			return U64(uint64(g.r.IntN(1 << 30)))
		})
		g.sprinkleNils(col, nilPct)
		return col, "uint64"
	case kind < 90: // mixed classes (expected to be rejected by both)
		gens := []func() *Node{
			func() *Node { return g.intNode(g.intVal()) }, g.floatNode,
			func() *Node { return g.strNode(g.strVal()) }, func() *Node { return Bool(g.p(50)) },
		}
		a, b := g.r.IntN(4), g.r.IntN(4)
		fill(func() *Node {
			if g.p(60) {
				return gens[a]()
			}
			return gens[b]()
		})
		g.sprinkleNils(col, nilPct)
		return col, "mixed"
	case kind < 95: // nil first, then a typed run
		gens := []func() *Node{
			func() *Node { return g.intNode(g.intVal()) }, g.floatNode,
			func() *Node { return g.strNode(g.strVal()) }, func() *Node { return Bool(g.p(50)) },
		}
		a := g.r.IntN(4)
		fill(gens[a])
		col[0] = Nil()
		if n > 2 && g.p(50) {
			col[1] = Nil()
		}
		return col, "nil-first"
	default: // unsupported element kinds
		fill(func() *Node { return g.intNode(g.intVal()) })
		i := g.r.IntN(n)
		switch g.r.IntN(5) {
		case 0:
			col[i] = g.binNode()
		case 1:
			col[i] = g.extNode()
		case 2:
			col[i] = Arr(Int(1))
		case 3:
			col[i] = Map(Str("k"), Int(1))
		default:
			col[i] = Raw(0xc1)
		}
		return col, "unsupported-elem"
	}
}

// payload times stay far away from the wall clock (2001..2023)
func (g *gen) epochSeconds() int64 { return 1_000_000_000 + int64(g.r.IntN(700_000_000)) }

var timeEdges = []int64{0, 1, -1, 9_999_999_999, 10_000_000_000, 9_999_999_999_999, 10_000_000_000_000,
	9_999_999_999_999_999, 10_000_000_000_000_000, math.MaxInt64, math.MinInt64, -1_000_000_000, 9_223_372_036_855}

func (g *gen) timeColumn(n int) ([]*Node, string) {
	col := make([]*Node, n)
	base := g.epochSeconds()
	unit := []int64{1, 1000, 1_000_000, 1_000_000_000}[g.r.IntN(4)]
	for i := range col {
		col[i] = g.intNode((base + int64(i)*int64(g.r.IntN(5000))) * unit)
	}
	kind := g.r.IntN(100)
	switch {
	case kind < 40:
		return col, "int"
	case kind < 50:
		for i := range col {
			v := float64(base+int64(i)) * float64(unit)
			if g.p(30) {
				v += 0.5
			}
			if g.p(25) {
				col[i] = F32(float32(v))
			} else {
				col[i] = F64(v)
			}
		}
		return col, "float"
	case kind < 56:
		i := g.r.IntN(n)
		col[i] = U64(uint64(math.MaxInt64) + 1 + uint64(g.r.IntN(1<<20)))
		return col, "uint64>MaxInt64"
	case kind < 62:
		for i := range col {
			col[i] = U64(uint64((base + int64(i)) * unit))
		}
		return col, "uint64"
	case kind < 70: // mixed units: unit detection must come from element 0
		for i := range col {
			u := []int64{1, 1000, 1_000_000, 1_000_000_000}[g.r.IntN(4)]
			col[i] = g.intNode((base + int64(i)) * u)
		}
		if g.p(30) {
			col[0] = g.intNode(0)
		}
		return col, "mixed-units"
	case kind < 77:
		i := g.r.IntN(n)
		if g.p(40) {
			i = 0
		}
		col[i] = Nil()
		return col, "nil-elem"
	case kind < 81:
		for i := range col {
			col[i] = Nil()
		}
		return col, "all-nil"
	case kind < 86:
		i := g.r.IntN(n)
		if g.p(50) {
			i = 0
		}
		switch g.r.IntN(4) {
		case 0:
			col[i] = g.strNode("2021-01-01T00:00:00Z")
		case 1:
			col[i] = Bool(true)
		case 2:
			col[i] = g.binNode()
		default:
			col[i] = g.extNode()
		}
		return col, "non-numeric-elem"
	case kind < 94:
		for i := range col {
			if g.p(60) {
				col[i] = g.intNode(timeEdges[g.r.IntN(len(timeEdges))])
			}
		}
		return col, "edge"
	default:
		for i := range col {
			switch g.r.IntN(3) {
			case 0:
				col[i] = F64(floatEdges[g.r.IntN(len(floatEdges))])
			case 1:
				col[i] = F32(float32(floatEdges[g.r.IntN(len(floatEdges))]))
			}
		}
		return col, "float-edge"
	}
}

var valueNames = []string{"host", "region", "v", "f", "s", "b", "n", "x", "usage_idle", "Ünï", "time_2", "_x", "a b", "Time"}

func (g *gen) measurementNode(idx int) (*Node, string) {
	name := fmt.Sprintf("m%d", idx)
	k := g.r.IntN(100)
	switch {
	case k < 70:
		return g.strNode(name), "str"
	case k < 76:
		return g.intNode(int64(idx)), "int"
	case k < 80:
		return U64(uint64(idx)), "uint64"
	case k < 82:
		return U64(uint64(math.MaxInt64) + 1 + uint64(idx)), "uint64>MaxInt64"
	case k < 84:
		return g.intNode(-int64(idx) - 1), "neg-int"
	case k < 87:
		return F64(float64(idx)), "float"
	case k < 90:
		return Nil(), "nil"
	case k < 92:
		return Bin([]byte(name), 0xc4), "bin"
	case k < 94:
		return Bool(true), "bool"
	case k < 96:
		return g.strNode([]string{"", "9lives", "has space", "dash-ok", "sl/ash", "ctl\x01", "Ünï", "x\xff"}[g.r.IntN(8)]), "odd-name"
	case k < 98:
		return Arr(g.strNode(name)), "array"
	}
	return g.extNode(), "ext"
}

// columnar builds {m, columns{...}} (+ optional extra keys) and applies
// structure-aware mutations.
func (g *gen) columnar(idx int, clean bool) *Node {
	n := []int{1, 1, 2, 2, 3, 3, 3, 4, 5, 6, 9, 16, 17, 40}[g.r.IntN(14)]
	var cols []*Node
	add := func(name string, v *Node) { cols = append(cols, g.strNode(name), v) }

	if clean || g.p(85) {
		rid := make([]*Node, n)
		for i := range rid {
			rid[i] = g.intNode(int64(idx)*1000 + int64(i))
		}
		add("rid", g.arr(rid))
	}
	if g.p(75) {
		tc, kind := g.timeColumn(n)
		if clean {
			for kind != "int" && kind != "float" && kind != "uint64" && kind != "mixed-units" {
				tc, kind = g.timeColumn(n)
			}
		}
		g.note("time:" + kind)
		add("time", g.arr(tc))
	} else {
		g.note("time:absent")
	}
	nv := 1 + g.r.IntN(4)
	used := map[string]bool{}
	for i := 0; i < nv; i++ {
		name := valueNames[g.r.IntN(len(valueNames))]
		if !clean && g.p(1) {
			name = "" // arc's flush path panics on an empty column name (both paths alike)
			g.note("empty-col-name")
		}
		if clean {
			name = valueNames[g.r.IntN(9)]
		}
		if used[name] {
			continue
		}
		used[name] = true
		vc, kind := g.valueColumn(n)
		if clean {
			for kind == "mixed" || kind == "unsupported-elem" || kind == "uint64" || kind == "int+float/uint64" {
				vc, kind = g.valueColumn(n)
			}
		}
		g.note("col:" + kind)
		add(name, g.arr(vc))
	}
	// shuffle column order (pairs)
	np := len(cols) / 2
	for i := np - 1; i > 0; i-- {
		j := g.r.IntN(i + 1)
		cols[2*i], cols[2*j] = cols[2*j], cols[2*i]
		cols[2*i+1], cols[2*j+1] = cols[2*j+1], cols[2*i+1]
	}
	colsNode := g.mp(cols)

	var mNode *Node
	if clean {
		mNode = g.strNode(fmt.Sprintf("m%d", idx))
		g.note("m:str")
	} else {
		var mk string
		mNode, mk = g.measurementNode(idx)
		g.note("m:" + mk)
	}
	top := []*Node{g.strNode("m"), mNode, g.strNode("columns"), colsNode}
	if g.p(50) {
		top = []*Node{top[2], top[3], top[0], top[1]}
	}
	root := g.mp(top)
	if clean {
		return root
	}

	// extra top-level keys
	if g.p(18) {
		key := []string{"x", "t", "h", "fields", "tags", "f", "meta", "batch"}[g.r.IntN(8)]
		g.note("extra-key:" + key)
		g.insertPair(root, g.strNode(key), g.anyValue(0))
	}

	// structure-aware mutations
	if g.p(42) {
		for k := 1 + g.r.IntN(2); k > 0; k-- {
			g.mutateColumnar(root, colsNode, n)
		}
	}
	return root
}

func (g *gen) insertPair(m *Node, k, v *Node) {
	pos := 2 * g.r.IntN(len(m.Items)/2+1)
	items := append([]*Node{}, m.Items[:pos]...)
	items = append(items, k, v)
	items = append(items, m.Items[pos:]...)
	m.Items = items
	if m.C == 0x80 && len(m.Items)/2 > 15 {
		m.C = 0xde
	}
}

func (g *gen) nonArrayValue() *Node {
	switch g.r.IntN(8) {
	case 0:
		return Nil()
	case 1:
		return g.intNode(g.intVal())
	case 2:
		return g.strNode(g.strVal())
	case 3:
		return g.floatNode()
	case 4:
		return g.extNode()
	case 5:
		return g.binNode()
	case 6:
		return Bool(false)
	}
	return g.anyValue(1)
}

func (g *gen) mutateColumnar(root, cols *Node, n int) {
	ncol := len(cols.Items) / 2
	pickCol := func() int { return 2 * g.r.IntN(ncol) }
	switch g.r.IntN(15) {
	case 0: // duplicate top-level key
		i := 2 * g.r.IntN(len(root.Items)/2)
		v := root.Items[i+1].Clone()
		if g.p(50) {
			v = g.anyValue(0)
		}
		g.note("dup-top-key")
		g.insertPair(root, root.Items[i].Clone(), v)
	case 1, 2: // duplicate column key
		if ncol == 0 {
			return
		}
		i := pickCol()
		var v *Node
		switch g.r.IntN(3) {
		case 0:
			v = cols.Items[i+1].Clone()
			g.note("dup-col:array")
		case 1:
			vc, _ := g.valueColumn(n)
			v = g.arr(vc)
			g.note("dup-col:other-array")
		default:
			v = g.nonArrayValue()
			g.note("dup-col:non-array")
		}
		g.insertPair(cols, cols.Items[i].Clone(), v)
	case 3: // non-string key somewhere
		g.note("non-string-key")
		switch g.r.IntN(3) {
		case 0:
			i := 2 * g.r.IntN(len(root.Items)/2)
			root.Items[i] = g.nonStringKey()
		case 1:
			if ncol > 0 {
				cols.Items[pickCol()] = g.nonStringKey()
			}
		default:
			g.insertPair(root, g.strNode("meta"), Map(g.nonStringKey(), g.anyValue(1)))
		}
	case 4: // key encoded as bin
		g.note("bin-key")
		if g.p(50) || ncol == 0 {
			i := 2 * g.r.IntN(len(root.Items)/2)
			root.Items[i] = Bin(root.Items[i].S, 0xc4)
		} else {
			i := pickCol()
			cols.Items[i] = Bin(cols.Items[i].S, 0xc4)
		}
	case 5, 6: // non-array column value
		if ncol == 0 {
			return
		}
		g.note("non-array-col")
		cols.Items[pickCol()+1] = g.nonArrayValue()
	case 7: // extra non-array column
		g.note("extra-non-array-col")
		g.insertPair(cols, g.strNode("aux"), g.nonArrayValue())
	case 8, 9: // length mismatch
		if ncol == 0 {
			return
		}
		g.note("len-mismatch")
		a := cols.Items[pickCol()+1]
		if a.K != KArr {
			return
		}
		if g.p(50) && len(a.Items) > 0 {
			a.Items = a.Items[:len(a.Items)-1]
		} else {
			a.Items = append(a.Items, g.intNode(1))
		}
		if a.C == 0x90 && len(a.Items) > 15 {
			a.C = 0xdc
		}
	case 10, 11: // forged length header
		g.note("forged-len")
		targets := []*Node{root, cols}
		for i := 1; i < len(cols.Items); i += 2 {
			targets = append(targets, cols.Items[i])
			if cols.Items[i].K == KArr {
				for _, e := range cols.Items[i].Items {
					if e.K == KStr {
						targets = append(targets, e)
						break
					}
				}
			}
		}
		t := targets[g.r.IntN(len(targets))]
		actual := int64(len(t.Items))
		if t.K == KMap {
			actual /= 2
		}
		if t.K == KStr {
			actual = int64(len(t.S))
		}
		mode := g.r.IntN(5)
		if mode >= 2 && (t.K == KMap && !g.p(4) || t.K != KMap && !g.p(25)) {
			// a forged length >= 10^6 makes the generic decoder pre-size a million-entry
			// slice (16 MB zeroed) or Go map (seconds of page faults per request in this
			// sandbox), on both paths alike: keep those rarer, use mid-size forgeries
			mode = 5
		}
		switch mode {
		case 0:
			t.Len = actual + 1
		case 1:
			if actual > 0 {
				t.Len = actual - 1
			}
		case 2:
			t.Len = 1<<20 + 1
			g.widen(t)
		case 3:
			t.Len = math.MaxUint32
			g.widen(t)
		case 4:
			t.Len = 1 << 20
			g.widen(t)
		default:
			t.Len = actual + 2 + int64(g.r.IntN(3000))
			g.widen(t)
		}
		if t.Len > 15 && (t.C == 0x90 || t.C == 0x80) || t.Len > 31 && t.C == 0xa0 {
			g.widen(t)
		}
	case 12: // empty containers
		g.note("empty")
		switch g.r.IntN(3) {
		case 0:
			cols.Items = nil
		case 1:
			for i := 1; i < len(cols.Items); i += 2 {
				if cols.Items[i].K == KArr {
					cols.Items[i].Items = nil
				}
			}
		default:
			if ncol > 0 {
				if a := cols.Items[pickCol()+1]; a.K == KArr {
					a.Items = nil
				}
			}
		}
	case 13: // drop m or columns
		g.note("drop-top-key")
		i := 2 * g.r.IntN(len(root.Items)/2)
		root.Items = append(root.Items[:i:i], root.Items[i+2:]...)
	default: // columns is not a map
		g.note("columns-not-map")
		for i := 0; i+1 < len(root.Items); i += 2 {
			if string(root.Items[i].S) == "columns" {
				root.Items[i+1] = g.nonArrayValue()
			}
		}
	}
}

func (g *gen) widen(t *Node) {
	switch t.K {
	case KArr:
		t.C = 0xdd
	case KMap:
		t.C = 0xdf
	case KStr:
		t.C = 0xdb
	}
}

// ---------- row / batch / array ----------

func (g *gen) rowItem(name *Node, clean bool) *Node {
	var kv []*Node
	kv = append(kv, g.strNode("m"), name)
	if g.p(80) {
		base := g.epochSeconds()
		var t *Node
		switch g.r.IntN(8) {
		case 0:
			t = g.intNode(base)
		case 1:
			t = g.intNode(base * 1000)
		case 2:
			t = g.intNode(base * 1_000_000)
		case 3:
			t = g.intNode(base * 1_000_000_000)
		case 4:
			t = F64(float64(base) + 0.5)
		case 5:
			t = U64(uint64(base * 1000))
		case 6:
			if clean {
				t = g.intNode(base)
			} else {
				t = g.strNode("2020")
			}
		default:
			t = F32(float32(base))
		}
		kv = append(kv, g.strNode("t"), t)
	}
	if g.p(50) {
		if g.p(80) {
			kv = append(kv, g.strNode("h"), g.strNode("srv"))
		} else {
			kv = append(kv, g.strNode("h"), g.intNode(7))
		}
	}
	if g.p(90) {
		var f []*Node
		for i, k := 0, 1+g.r.IntN(3); i < k; i++ {
			var v *Node
			switch g.r.IntN(6) {
			case 0:
				v = g.floatNode()
			case 1:
				v = g.strNode(g.strVal())
			case 2:
				v = Bool(g.p(50))
			case 3:
				if clean {
					v = g.intNode(3)
				} else {
					v = g.anyValue(1)
				}
			default:
				v = g.intNode(g.intVal())
			}
			f = append(f, g.strNode(fmt.Sprintf("f%d", i)), v)
		}
		kv = append(kv, g.strNode("fields"), g.mp(f))
	} else if g.p(70) {
		kv = append(kv, g.strNode("f"), g.arr([]*Node{g.intNode(1), g.floatNode()}))
	}
	if g.p(60) {
		var t []*Node
		for i, k := 0, 1+g.r.IntN(2); i < k; i++ {
			var v *Node = g.strNode(g.strVal())
			if !clean && g.p(15) {
				v = g.intNode(5)
			}
			t = append(t, g.strNode(fmt.Sprintf("t%d", i)), v)
		}
		kv = append(kv, g.strNode("tags"), g.mp(t))
	}
	return g.mp(kv)
}

func (g *gen) items(idx int) []*Node {
	k := 1 + g.r.IntN(4)
	out := make([]*Node, 0, k)
	rowName := fmt.Sprintf("r%d", idx)
	for i := 0; i < k; i++ {
		switch g.r.IntN(10) {
		case 0, 1, 2, 3, 4:
			c := g.columnar(idx, g.p(60))
			out = append(out, c)
		case 5, 6, 7, 8:
			out = append(out, g.rowItem(g.strNode(rowName), g.p(60)))
		default:
			out = append(out, g.anyValue(1))
		}
	}
	return out
}

// ---------- byte-level mutations ----------

func (g *gen) byteMutate(b []byte) []byte {
	b = append([]byte(nil), b...)
	switch g.r.IntN(8) {
	case 0:
		g.note("trailing-bytes")
		switch g.r.IntN(3) {
		case 0:
			return append(b, byte(g.r.IntN(256)))
		case 1:
			return append(b, b...)
		}
		return append(b, 0xc1, 0xff, 0x00)
	case 1, 2:
		g.note("truncate")
		if len(b) == 0 {
			return b
		}
		return b[:g.r.IntN(len(b))]
	case 3, 4:
		g.note("byte-flip")
		for k := 1 + g.r.IntN(2); k > 0 && len(b) > 0; k-- {
			b[g.r.IntN(len(b))] = byte(g.r.IntN(256))
		}
		return b
	case 5:
		g.note("bit-flip")
		if len(b) > 0 {
			b[g.r.IntN(len(b))] ^= 1 << g.r.IntN(8)
		}
		return b
	case 6:
		g.note("insert-byte")
		i := g.r.IntN(len(b) + 1)
		x := []byte{0xc1, 0xc0, 0x00, 0xff, 0xcf, 0xd9, 0xc7}[g.r.IntN(7)]
		return append(b[:i:i], append([]byte{x}, b[i:]...)...)
	default:
		g.note("delete-byte")
		if len(b) == 0 {
			return b
		}
		i := g.r.IntN(len(b))
		return append(b[:i:i], b[i+1:]...)
	}
}

// generate builds the whole deterministic payload list for a run.
func generate(r *rand.Rand, total int) []genPayload {
	g := &gen{r: r}
	out := make([]genPayload, 0, total+2048)
	emit := func(fam string, b []byte) {
		out = append(out, genPayload{Idx: len(out), Bytes: b, Family: fam, Muts: g.muts})
		g.muts = nil
	}
	// systematic part: every truncation offset of a few small well-formed payloads
	for k := 0; k < 12; k++ {
		g.muts = nil
		root := g.columnar(len(out), true)
		b := root.Bytes()
		if len(b) > 160 {
			continue
		}
		muts := g.muts
		for cut := 0; cut < len(b); cut++ {
			g.muts = append(append([]string{}, muts...), "truncate-every-offset")
			// each truncated copy gets its own measurement-independent database, so
			// the same bytes can be reused
			emit("columnar", append([]byte(nil), b[:cut]...))
		}
	}
	// directed part: every hostile construct of the mutation catalogue once in each
	// position the decoders ignore (unknown top-level key / non-array column value)
	// and the duplicate-column patterns, on a clean accepted base payload
	hostile := func() []*Node {
		return []*Node{
			Ext(5, []byte{1}, 0xd4), Ext(-1, []byte{}, 0xc8), Ext(-1, []byte{0x5f, 0x5e, 0x10, 0x00}, 0xd6),
			Map(Bin([]byte("k"), 0xc4), Int(1)), Map(Nil(), Int(1)), Map(Int(5), Int(1)),
			Map(Str("a"), Int(1), Int(5), Int(2)), Map(Int(5), Int(1), Str("a"), Int(2)), Map(Arr(Int(1)), Int(1)),
			Arr(Ext(5, []byte{1}, 0xd4)), Map(Str("a"), Map(Nil(), Int(1))), Bin([]byte("xyz"), 0xc4),
			U64(math.MaxUint64), Raw(0xc1),
		}
	}
	for hi := range hostile() {
		for pos := 0; pos < 2; pos++ {
			g.muts = nil
			root := g.columnar(len(out), true)
			g.muts = []string{"directed-hostile-ignored-value"}
			if pos == 0 {
				g.insertPair(root, Str("extra"), hostile()[hi])
			} else {
				for i := 0; i+1 < len(root.Items); i += 2 {
					if string(root.Items[i].S) == "columns" {
						g.insertPair(root.Items[i+1], Str("aux"), hostile()[hi])
					}
				}
			}
			emit("columnar-directed", root.Bytes())
		}
	}
	for pat := 0; pat < 8; pat++ {
		g.muts = nil
		root := g.columnar(len(out), true)
		g.muts = []string{"directed-duplicate-column"}
		for i := 0; i+1 < len(root.Items); i += 2 {
			if string(root.Items[i].S) != "columns" {
				continue
			}
			cols := root.Items[i+1]
			// the column to duplicate: "time" when present for the odd patterns, else the first one
			ci := 0
			if pat%2 == 1 {
				for k := 0; k < len(cols.Items); k += 2 {
					if string(cols.Items[k].S) == "time" {
						ci = k
					}
				}
			}
			key, val := cols.Items[ci].Clone(), cols.Items[ci+1].Clone()
			var dup *Node
			switch pat / 2 {
			case 0:
				dup = Int(7) // array first, non-array last
			case 1:
				dup = Nil()
			case 2:
				dup = val.Clone() // same array twice
			default:
				dup = val // non-array first, array last
				cols.Items[ci+1] = Int(7)
			}
			cols.Items = append(cols.Items, key, dup)
		}
		emit("columnar-directed", root.Bytes())
	}
	for len(out) < total {
		idx := len(out)
		fam := g.r.IntN(100)
		var root *Node
		var name string
		switch {
		case fam < 30:
			root, name = g.columnar(idx, true), "columnar-clean"
		case fam < 72:
			root, name = g.columnar(idx, false), "columnar"
		case fam < 80:
			var m *Node
			if g.p(80) {
				m = g.strNode(fmt.Sprintf("r%d", idx))
			} else {
				m, _ = g.measurementNode(idx)
			}
			root, name = g.rowItem(m, g.p(50)), "row"
		case fam < 88:
			kv := []*Node{g.strNode("batch"), g.arr(g.items(idx))}
			if g.p(15) {
				c := g.columnar(idx, true)
				kv = append(kv, c.Items...)
				g.note("batch+columns")
			}
			if g.p(10) {
				kv[1] = g.nonArrayValue()
				g.note("batch-not-array")
			}
			root, name = g.mp(kv), "batch"
		case fam < 96:
			root, name = g.arr(g.items(idx)), "top-array"
		default:
			root, name = g.anyValue(2), "scalar-or-other"
		}
		b := root.Bytes()
		if name != "columnar-clean" && g.p(28) || name == "columnar-clean" && g.p(8) {
			b = g.byteMutate(b)
		}
		if hugeBin(b) {
			// excluded: a bin header declaring more than 16 MB makes arc's generic decoder
			// allocate the declared size up front on BOTH paths (gigabytes per request),
			// which turns runs slow and timing dependent; see NOTES.md
			g.muts = nil
			continue
		}
		emit(name, b)
	}
	return out
}

func hugeBin(b []byte) bool {
	root, _ := ParseAll(b)
	if root == nil {
		return false
	}
	var walk func(n *Node) bool
	walk = func(n *Node) bool {
		if n.K == KBin && n.Len > 1<<24 {
			return true
		}
		for _, c := range n.Items {
			if walk(c) {
				return true
			}
		}
		return false
	}
	return walk(root)
}
