package main

// An independent MessagePack tree model with an encoder that can choose every
// wire encoding for every value (including non-minimal widths and forged length
// headers) and a total parser: EVERY byte string parses into a tree that
// re-encodes to exactly the same bytes (truncated tails and the reserved code
// 0xc1 become raw leaves, containers that end early keep their declared length).
// Neither uses arc's msgpack library.

import (
	"encoding/binary"
	"fmt"
	"math"
	"sort"
	"strings"
	"unicode/utf8"
)

type Kind uint8

const (
	KNil Kind = iota
	KBool
	KInt  // positive/negative fixint (C==0) or int8..int64 (C=0xd0..0xd3); value in I
	KUint // uint8..uint64 (C=0xcc..0xcf); value in U
	KF32
	KF64
	KStr // C=0xa0 (fixstr) | 0xd9 | 0xda | 0xdb
	KBin // C=0xc4 | 0xc5 | 0xc6
	KExt // C=0xd4..0xd8 (fixext) | 0xc7 | 0xc8 | 0xc9
	KArr // C=0x90 (fixarray) | 0xdc | 0xdd
	KMap // C=0x80 (fixmap) | 0xde | 0xdf ; Items = k0,v0,k1,v1,...
	KRaw // literal bytes (reserved code, truncated scalar)
)

type Node struct {
	K     Kind
	C     byte
	I     int64
	U     uint64
	F     float64
	B     bool
	S     []byte
	X     int8
	Items []*Node
	Len   int64 // declared length in the header when it differs from the actual one; -1 = actual
}

// ---------- constructors ----------

func Nil() *Node { return &Node{K: KNil, Len: -1} }
func Bool(b bool) *Node {
	return &Node{K: KBool, B: b, Len: -1}
}

// Int encodes v with the narrowest signed/fix encoding (msgpack-python style:
// non-negative values use the unsigned family).
func Int(v int64) *Node {
	switch {
	case v >= -32 && v <= 127:
		return &Node{K: KInt, I: v, Len: -1}
	case v >= 0 && v <= math.MaxUint8:
		return &Node{K: KUint, C: 0xcc, U: uint64(v), Len: -1}
	case v >= 0 && v <= math.MaxUint16:
		return &Node{K: KUint, C: 0xcd, U: uint64(v), Len: -1}
	case v >= 0 && v <= math.MaxUint32:
		return &Node{K: KUint, C: 0xce, U: uint64(v), Len: -1}
	case v >= 0:
		return &Node{K: KUint, C: 0xcf, U: uint64(v), Len: -1}
	case v >= math.MinInt8:
		return &Node{K: KInt, C: 0xd0, I: v, Len: -1}
	case v >= math.MinInt16:
		return &Node{K: KInt, C: 0xd1, I: v, Len: -1}
	case v >= math.MinInt32:
		return &Node{K: KInt, C: 0xd2, I: v, Len: -1}
	}
	return &Node{K: KInt, C: 0xd3, I: v, Len: -1}
}

// IntCodes lists every wire code able to hold v (0 = fixint).
func IntCodes(v int64) []byte {
	var out []byte
	if v >= -32 && v <= 127 {
		out = append(out, 0)
	}
	if v >= math.MinInt8 && v <= math.MaxInt8 {
		out = append(out, 0xd0)
	}
	if v >= math.MinInt16 && v <= math.MaxInt16 {
		out = append(out, 0xd1)
	}
	if v >= math.MinInt32 && v <= math.MaxInt32 {
		out = append(out, 0xd2)
	}
	out = append(out, 0xd3)
	if v >= 0 {
		if v <= math.MaxUint8 {
			out = append(out, 0xcc)
		}
		if v <= math.MaxUint16 {
			out = append(out, 0xcd)
		}
		if v <= math.MaxUint32 {
			out = append(out, 0xce)
		}
		out = append(out, 0xcf)
	}
	return out
}

// IntAs encodes v with the given code (0 fixint, 0xd0..0xd3 signed, 0xcc..0xcf unsigned).
func IntAs(v int64, code byte) *Node {
	if code >= 0xcc && code <= 0xcf {
		return &Node{K: KUint, C: code, U: uint64(v), Len: -1}
	}
	return &Node{K: KInt, C: code, I: v, Len: -1}
}

func U64(v uint64) *Node  { return &Node{K: KUint, C: 0xcf, U: v, Len: -1} }
func F32(f float32) *Node { return f32node(math.Float32bits(f)) }
func F64(f float64) *Node { return f64node(math.Float64bits(f)) }

func strCode(n int) byte {
	switch {
	case n <= 31:
		return 0xa0
	case n <= 0xff:
		return 0xd9
	case n <= 0xffff:
		return 0xda
	}
	return 0xdb
}

func Str(s string) *Node { return &Node{K: KStr, C: strCode(len(s)), S: []byte(s), Len: -1} }
func StrAs(s string, code byte) *Node {
	return &Node{K: KStr, C: code, S: []byte(s), Len: -1}
}
func Bin(b []byte, code byte) *Node { return &Node{K: KBin, C: code, S: b, Len: -1} }
func Ext(typ int8, body []byte, code byte) *Node {
	return &Node{K: KExt, C: code, X: typ, S: body, Len: -1}
}

func arrCode(n int) byte {
	switch {
	case n <= 15:
		return 0x90
	case n <= 0xffff:
		return 0xdc
	}
	return 0xdd
}

func Arr(items ...*Node) *Node {
	return &Node{K: KArr, C: arrCode(len(items)), Items: items, Len: -1}
}

func mapCode(n int) byte {
	switch {
	case n <= 15:
		return 0x80
	case n <= 0xffff:
		return 0xde
	}
	return 0xdf
}

// Map takes k0,v0,k1,v1...
func Map(kv ...*Node) *Node {
	return &Node{K: KMap, C: mapCode(len(kv) / 2), Items: kv, Len: -1}
}

func Raw(b ...byte) *Node { return &Node{K: KRaw, S: b, Len: -1} }

func (n *Node) Clone() *Node {
	if n == nil {
		return nil
	}
	c := *n
	if n.S != nil {
		c.S = append([]byte(nil), n.S...)
	}
	if n.Items != nil {
		c.Items = make([]*Node, len(n.Items))
		for i, it := range n.Items {
			c.Items[i] = it.Clone()
		}
	}
	return &c
}

// ---------- encoder ----------

func (n *Node) declared(actual int) uint64 {
	if n.Len >= 0 {
		return uint64(n.Len)
	}
	return uint64(actual)
}

func putLen(out []byte, width int, v uint64) []byte {
	switch width {
	case 1:
		return append(out, byte(v))
	case 2:
		return binary.BigEndian.AppendUint16(out, uint16(v))
	case 4:
		return binary.BigEndian.AppendUint32(out, uint32(v))
	}
	return out
}

func (n *Node) Append(out []byte) []byte {
	switch n.K {
	case KNil:
		return append(out, 0xc0)
	case KBool:
		if n.B {
			return append(out, 0xc3)
		}
		return append(out, 0xc2)
	case KInt:
		switch n.C {
		case 0:
			return append(out, byte(int8(n.I)))
		case 0xd0:
			return append(out, 0xd0, byte(int8(n.I)))
		case 0xd1:
			return binary.BigEndian.AppendUint16(append(out, 0xd1), uint16(int16(n.I)))
		case 0xd2:
			return binary.BigEndian.AppendUint32(append(out, 0xd2), uint32(int32(n.I)))
		default:
			return binary.BigEndian.AppendUint64(append(out, 0xd3), uint64(n.I))
		}
	case KUint:
		switch n.C {
		case 0:
			return append(out, byte(n.U&0x7f))
		case 0xcc:
			return append(out, 0xcc, byte(n.U))
		case 0xcd:
			return binary.BigEndian.AppendUint16(append(out, 0xcd), uint16(n.U))
		case 0xce:
			return binary.BigEndian.AppendUint32(append(out, 0xce), uint32(n.U))
		default:
			return binary.BigEndian.AppendUint64(append(out, 0xcf), n.U)
		}
	case KF32:
		return binary.BigEndian.AppendUint32(append(out, 0xca), uint32(n.U))
	case KF64:
		return binary.BigEndian.AppendUint64(append(out, 0xcb), n.U)
	case KStr:
		d := n.declared(len(n.S))
		switch n.C {
		case 0xa0:
			out = append(out, 0xa0|byte(d&0x1f))
		case 0xd9:
			out = putLen(append(out, 0xd9), 1, d)
		case 0xda:
			out = putLen(append(out, 0xda), 2, d)
		default:
			out = putLen(append(out, 0xdb), 4, d)
		}
		return append(out, n.S...)
	case KBin:
		d := n.declared(len(n.S))
		switch n.C {
		case 0xc4:
			out = putLen(append(out, 0xc4), 1, d)
		case 0xc5:
			out = putLen(append(out, 0xc5), 2, d)
		default:
			out = putLen(append(out, 0xc6), 4, d)
		}
		return append(out, n.S...)
	case KExt:
		d := n.declared(len(n.S))
		switch n.C {
		case 0xc7:
			out = putLen(append(out, 0xc7), 1, d)
		case 0xc8:
			out = putLen(append(out, 0xc8), 2, d)
		case 0xc9:
			out = putLen(append(out, 0xc9), 4, d)
		default: // fixext: length implied by the code
			out = append(out, n.C)
		}
		out = append(out, byte(n.X))
		return append(out, n.S...)
	case KArr:
		d := n.declared(len(n.Items))
		switch n.C {
		case 0x90:
			out = append(out, 0x90|byte(d&0x0f))
		case 0xdc:
			out = putLen(append(out, 0xdc), 2, d)
		default:
			out = putLen(append(out, 0xdd), 4, d)
		}
		for _, it := range n.Items {
			out = it.Append(out)
		}
		return out
	case KMap:
		d := n.declared(len(n.Items) / 2)
		switch n.C {
		case 0x80:
			out = append(out, 0x80|byte(d&0x0f))
		case 0xde:
			out = putLen(append(out, 0xde), 2, d)
		default:
			out = putLen(append(out, 0xdf), 4, d)
		}
		for _, it := range n.Items {
			out = it.Append(out)
		}
		return out
	case KRaw:
		return append(out, n.S...)
	}
	return out
}

func (n *Node) Bytes() []byte { return n.Append(nil) }

// F32/F64 nodes: the float bit pattern is kept in U so NaN payloads survive.

func f32node(bits uint32) *Node {
	return &Node{K: KF32, C: 0xca, U: uint64(bits), F: float64(math.Float32frombits(bits)), Len: -1}
}
func f64node(bits uint64) *Node {
	return &Node{K: KF64, C: 0xcb, U: bits, F: math.Float64frombits(bits), Len: -1}
}

// ---------- total parser ----------

type parser struct {
	b     []byte
	p     int
	depth int
}

// ParseAll parses the first value; rest is whatever follows it (trailing bytes).
func ParseAll(b []byte) (root *Node, rest []byte) {
	ps := &parser{b: b}
	if len(b) == 0 {
		return nil, nil
	}
	root = ps.value()
	return root, b[ps.p:]
}

func (ps *parser) remaining() int { return len(ps.b) - ps.p }

// scalar of `w` payload bytes after the code; if truncated, a raw leaf holding the tail.
func (ps *parser) fixed(w int) ([]byte, *Node) {
	if ps.remaining() < 1+w {
		n := Raw(append([]byte(nil), ps.b[ps.p:]...)...)
		ps.p = len(ps.b)
		return nil, n
	}
	v := ps.b[ps.p+1 : ps.p+1+w]
	ps.p += 1 + w
	return v, nil
}

func (ps *parser) value() *Node {
	c := ps.b[ps.p]
	switch {
	case c <= 0x7f:
		ps.p++
		return &Node{K: KInt, I: int64(c), Len: -1}
	case c >= 0xe0:
		ps.p++
		return &Node{K: KInt, I: int64(int8(c)), Len: -1}
	case c >= 0xa0 && c <= 0xbf:
		ps.p++
		return ps.blob(KStr, 0xa0, int64(c&0x1f))
	case c >= 0x90 && c <= 0x9f:
		ps.p++
		return ps.container(KArr, 0x90, int64(c&0x0f))
	case c >= 0x80 && c <= 0x8f:
		ps.p++
		return ps.container(KMap, 0x80, int64(c&0x0f))
	}
	switch c {
	case 0xc0:
		ps.p++
		return Nil()
	case 0xc2, 0xc3:
		ps.p++
		return Bool(c == 0xc3)
	case 0xc1:
		ps.p++
		return Raw(0xc1)
	case 0xcc, 0xcd, 0xce, 0xcf:
		w := 1 << (c - 0xcc)
		v, raw := ps.fixed(w)
		if raw != nil {
			return raw
		}
		var u uint64
		for _, x := range v {
			u = u<<8 | uint64(x)
		}
		return &Node{K: KUint, C: c, U: u, Len: -1}
	case 0xd0, 0xd1, 0xd2, 0xd3:
		w := 1 << (c - 0xd0)
		v, raw := ps.fixed(w)
		if raw != nil {
			return raw
		}
		var u uint64
		for _, x := range v {
			u = u<<8 | uint64(x)
		}
		var i int64
		switch w {
		case 1:
			i = int64(int8(u))
		case 2:
			i = int64(int16(u))
		case 4:
			i = int64(int32(u))
		default:
			i = int64(u)
		}
		return &Node{K: KInt, C: c, I: i, Len: -1}
	case 0xca:
		v, raw := ps.fixed(4)
		if raw != nil {
			return raw
		}
		return f32node(binary.BigEndian.Uint32(v))
	case 0xcb:
		v, raw := ps.fixed(8)
		if raw != nil {
			return raw
		}
		return f64node(binary.BigEndian.Uint64(v))
	case 0xd9, 0xda, 0xdb, 0xc4, 0xc5, 0xc6:
		w := map[byte]int{0xd9: 1, 0xda: 2, 0xdb: 4, 0xc4: 1, 0xc5: 2, 0xc6: 4}[c]
		v, raw := ps.fixed(w)
		if raw != nil {
			return raw
		}
		var u uint64
		for _, x := range v {
			u = u<<8 | uint64(x)
		}
		k := KStr
		if c <= 0xc6 {
			k = KBin
		}
		return ps.blob(k, c, int64(u))
	case 0xdc, 0xdd, 0xde, 0xdf:
		w := 2
		if c == 0xdd || c == 0xdf {
			w = 4
		}
		v, raw := ps.fixed(w)
		if raw != nil {
			return raw
		}
		var u uint64
		for _, x := range v {
			u = u<<8 | uint64(x)
		}
		if c <= 0xdd {
			return ps.container(KArr, c, int64(u))
		}
		return ps.container(KMap, c, int64(u))
	case 0xd4, 0xd5, 0xd6, 0xd7, 0xd8:
		if ps.remaining() < 2 {
			n := Raw(append([]byte(nil), ps.b[ps.p:]...)...)
			ps.p = len(ps.b)
			return n
		}
		typ := int8(ps.b[ps.p+1])
		ps.p += 2
		want := 1 << (c - 0xd4)
		take := want
		if take > ps.remaining() {
			take = ps.remaining()
		}
		body := append([]byte(nil), ps.b[ps.p:ps.p+take]...)
		ps.p += take
		return &Node{K: KExt, C: c, X: typ, S: body, Len: -1}
	case 0xc7, 0xc8, 0xc9:
		w := 1 << (c - 0xc7)
		if ps.remaining() < 1+w+1 {
			n := Raw(append([]byte(nil), ps.b[ps.p:]...)...)
			ps.p = len(ps.b)
			return n
		}
		var u uint64
		for _, x := range ps.b[ps.p+1 : ps.p+1+w] {
			u = u<<8 | uint64(x)
		}
		typ := int8(ps.b[ps.p+1+w])
		ps.p += 1 + w + 1
		take := int64(u)
		if take > int64(ps.remaining()) {
			take = int64(ps.remaining())
		}
		body := append([]byte(nil), ps.b[ps.p:ps.p+int(take)]...)
		ps.p += int(take)
		n := &Node{K: KExt, C: c, X: typ, S: body, Len: -1}
		if int64(u) != take {
			n.Len = int64(u)
		}
		return n
	}
	// unreachable: every byte value is covered above
	ps.p++
	return Raw(c)
}

func (ps *parser) blob(k Kind, code byte, declared int64) *Node {
	take := declared
	if take > int64(ps.remaining()) {
		take = int64(ps.remaining())
	}
	n := &Node{K: k, C: code, S: append([]byte{}, ps.b[ps.p:ps.p+int(take)]...), Len: -1}
	ps.p += int(take)
	if take != declared {
		n.Len = declared
	}
	return n
}

func (ps *parser) container(k Kind, code byte, declared int64) *Node {
	n := &Node{K: k, C: code, Len: -1}
	want := declared
	if k == KMap {
		want = declared * 2
	}
	ps.depth++
	for int64(len(n.Items)) < want && ps.remaining() > 0 {
		if ps.depth > 200 {
			// pathological nesting: keep the tail as one raw leaf
			n.Items = append(n.Items, Raw(append([]byte(nil), ps.b[ps.p:]...)...))
			ps.p = len(ps.b)
			break
		}
		n.Items = append(n.Items, ps.value())
	}
	ps.depth--
	if int64(len(n.Items)) != want {
		n.Len = declared
	}
	return n
}

// ---------- shape (classification used in finding signatures) ----------

var protoKeys = map[string]bool{"m": true, "columns": true, "time": true, "batch": true, "t": true, "h": true, "fields": true, "tags": true, "f": true}

type shaper struct {
	ids        map[string]string
	structural bool // the node being rendered is a protocol-level map (root, columns, fields, tags)
}

// features lists the constructs inside a subtree that Decoder.Skip tolerates but a
// full generic decode rejects or mishandles.
func features(n *Node) []string {
	set := map[string]bool{}
	var walk func(n *Node)
	walk = func(n *Node) {
		if n.K == KExt {
			set["ext"] = true
		}
		if n.K == KMap {
			for i := 0; i < len(n.Items); i += 2 {
				switch n.Items[i].K {
				case KStr:
				case KNil:
					set["nil-key"] = true
				default:
					set["non-string-key"] = true
				}
			}
		}
		for _, c := range n.Items {
			walk(c)
		}
	}
	walk(n)
	var out []string
	for k := range set {
		out = append(out, k)
	}
	sort.Strings(out)
	return out
}

// Shape renders the tree with values abstracted to the classes the two decoders
// dispatch on. Protocol keys are shown literally, other string keys as k1,k2...
// (equal keys get equal ids, so duplicates are visible).
func Shape(n *Node) string {
	if n == nil {
		return "<empty>"
	}
	s := &shaper{ids: map[string]string{}, structural: true}
	return s.shape(n, false)
}

func intClass(neg bool, mag uint64) string {
	switch {
	case neg:
		return "(neg)"
	case mag > math.MaxInt64:
		return "(>MaxInt64)"
	case mag < 1e10:
		return ""
	case mag < 1e13:
		return "(ms-range)"
	case mag < 1e16:
		return "(us-range)"
	}
	return "(ns-range)"
}

func floatClass(f float64) string {
	switch {
	case math.IsNaN(f):
		return "(nan)"
	case math.IsInf(f, 0):
		return "(inf)"
	case f >= 9223372036854775808.0 || f < -9223372036854775808.0:
		return "(out-of-int64)"
	case f != math.Trunc(f):
		return "(frac)"
	case f < 0:
		return "(neg)"
	case f >= 1e16:
		return "(ns-range)"
	case f >= 1e13:
		return "(us-range)"
	case f >= 1e10:
		return "(ms-range)"
	}
	return ""
}

func (s *shaper) lenNote(n *Node, actual int) string {
	if n.Len < 0 {
		return ""
	}
	switch {
	case n.Len > 1<<20:
		return "#len>2^20"
	case n.Len > int64(actual):
		return "#len>content"
	}
	return "#len<content"
}

func (s *shaper) shape(n *Node, asKey bool) string {
	switch n.K {
	case KNil:
		return "nil"
	case KBool:
		return "bool"
	case KInt:
		if n.I < 0 {
			return "int" + intClass(true, 0)
		}
		return "int" + intClass(false, uint64(n.I))
	case KUint:
		if n.C == 0xcf {
			return "uint64" + intClass(false, n.U)
		}
		return "int" + intClass(false, n.U)
	case KF32:
		return "f32" + floatClass(n.F)
	case KF64:
		return "f64" + floatClass(n.F)
	case KStr:
		note := s.lenNote(n, len(n.S))
		if asKey {
			k := string(n.S)
			if protoKeys[k] {
				return k + note
			}
			id, ok := s.ids[k]
			if !ok {
				id = fmt.Sprintf("k%d", len(s.ids)+1)
				s.ids[k] = id
			}
			return id + note
		}
		switch {
		case len(n.S) == 0:
			return "str(empty)" + note
		case !utf8.Valid(n.S):
			return "str(bad-utf8)" + note
		}
		return "str" + note
	case KBin:
		if asKey {
			return "bin-key" + s.lenNote(n, len(n.S))
		}
		return "bin" + s.lenNote(n, len(n.S))
	case KExt:
		return "ext" + s.lenNote(n, len(n.S))
	case KRaw:
		if len(n.S) == 1 && n.S[0] == 0xc1 {
			return "reserved(c1)"
		}
		if len(n.S) > 0 {
			return fmt.Sprintf("truncated(%02x)", n.S[0])
		}
		return "truncated"
	case KArr:
		var parts []string
		prev, cnt := "", 0
		flush := func() {
			if cnt == 1 {
				parts = append(parts, prev)
			} else if cnt > 1 {
				parts = append(parts, prev+"*")
			}
		}
		for _, it := range n.Items {
			sh := s.shape(it, false)
			if sh == prev {
				cnt++
				continue
			}
			flush()
			prev, cnt = sh, 1
		}
		flush()
		return "[" + strings.Join(parts, ",") + "]" + s.lenNote(n, len(n.Items))
	case KMap:
		if !s.structural {
			// a map that is not part of the write protocol's structure (value of an
			// unknown key / of a column): what matters is which constructs it holds
			// that a full decode treats differently from a skip
			if f := features(n); len(f) > 0 {
				return "map(" + strings.Join(f, ",") + ")" + s.lenNote(n, len(n.Items)/2)
			}
		}
		var parts []string
		for i := 0; i < len(n.Items); i += 2 {
			k := s.shape(n.Items[i], true)
			if i+1 < len(n.Items) {
				// structural maps: the root, and the values of columns/fields/tags
				s.structural = n.Items[i].K == KStr && (string(n.Items[i].S) == "columns" || string(n.Items[i].S) == "fields" || string(n.Items[i].S) == "tags")
				parts = append(parts, k+":"+s.shape(n.Items[i+1], false))
				s.structural = false
			} else {
				parts = append(parts, k+":<missing>")
			}
		}
		return "{" + strings.Join(parts, ",") + "}" + s.lenNote(n, len(n.Items)/2)
	}
	return "?"
}
