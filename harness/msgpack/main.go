// Harness for the msgpack area: C02 (typed MessagePack decoding is
// indistinguishable from generic decoding).
package main

import (
	"flag"
	"fmt"
	"os"

	"github.com/basekick-labs/arc/internal/zzverif/vlib"
)

func main() {
	prop := flag.String("prop", "", "property id")
	flag.String("replay", "", "replay file")
	selftest := flag.String("selftest", "", "internal: child-process probe")
	flag.Parse()
	if *selftest == "emptyname" {
		emptyNameSelfTest()
		return
	}
	switch *prop {
	case "C02":
		vlib.Main("C02", "exploration", checkC02)
	default:
		fmt.Println("unknown property", *prop)
		os.Exit(2)
	}
}
