package main

// Request generator. A request is described by a spec (endpoint, how the database
// is named, measurements, routing-like decoys); build() renders it deterministically
// into URL, headers and body, so that the shrinker and the replayer can rebuild
// variants of the same request.

import (
	"bytes"
	"fmt"
	"math/rand/v2"
	"mime/multipart"
	"net/url"
	"sort"
	"strings"

	"github.com/Basekick-Labs/msgpack/v6"
	"github.com/apache/arrow-go/v18/arrow"
	"github.com/apache/arrow-go/v18/arrow/array"
	"github.com/apache/arrow-go/v18/arrow/memory"
	"github.com/apache/arrow-go/v18/parquet"
	"github.com/apache/arrow-go/v18/parquet/pqarrow"
)

// decoy is a routing-like name carried by the payload as tag, field or column whose
// value names a database / measurement the caller may not write.
type decoy struct {
	Name string `json:"name"`
	As   string `json:"as"` // tag | field | column | toplevel
}

func (d decoy) String() string { return d.As + ":" + d.Name }

func decoyValue(name string) string {
	switch name {
	case "database", "_database", "db":
		return forbiddenDB
	}
	return badM
}

// part is one measurement's worth of rows inside a request.
type part struct {
	Meas string `json:"measurement"`
	Form string `json:"form,omitempty"` // msgpack batch/array items: columnar | row
	Rows int    `json:"rows"`
}

type reqSpec struct {
	ID       int    `json:"id"`
	Endpoint string `json:"endpoint"`
	// lp:/write | lp:/api/v2/write | lp:/api/v1/write/line-protocol |
	// msgpack:columnar | msgpack:row | msgpack:batch | msgpack:array |
	// import:csv | import:parquet | import:lp
	HdrDB      string      `json:"hdr_db"`   // x-arc-database ("" = header absent)
	QueryDB    string      `json:"query_db"` // the endpoint's database query parameter ("" = absent)
	DecoyQuery [][2]string `json:"decoy_query,omitempty"`
	DecoyHdr   [][2]string `json:"decoy_hdr,omitempty"`
	Parts      []part      `json:"parts"`
	MeasParam  string      `json:"measurement_param,omitempty"` // imports: ?measurement=
	Decoys     []decoy     `json:"decoys,omitempty"`
	Special    string      `json:"special,omitempty"` // empty-measurement | int-measurement | dup-m-other-last | dup-m-other-first (columnar: key "m" twice)
	FirstRID   int64       `json:"first_rid"`
}

func (s *reqSpec) kind() string { return s.Endpoint[:strings.Index(s.Endpoint, ":")] }

// dbParam is the name of the query parameter the endpoint documents for the database.
func (s *reqSpec) dbParam() string {
	switch s.Endpoint {
	case "lp:/api/v2/write":
		return "bucket"
	case "lp:/api/v1/write/line-protocol", "msgpack:columnar", "msgpack:row", "msgpack:batch", "msgpack:array":
		return "" // header only
	}
	return "db"
}

// namedDB is the database the request names, per the endpoint's documented
// precedence: the x-arc-database header wins over the query parameter; the write
// endpoints fall back to "default", the import endpoints require a name.
func (s *reqSpec) namedDB() string {
	if s.HdrDB != "" {
		return s.HdrDB
	}
	if s.dbParam() != "" && s.QueryDB != "" {
		return s.QueryDB
	}
	if s.kind() == "import" {
		return ""
	}
	return "default"
}

func (s *reqSpec) rids() []int64 {
	n := 0
	for _, p := range s.Parts {
		n += p.Rows
	}
	out := make([]int64, n)
	for i := range out {
		out[i] = s.FirstRID + int64(i)
	}
	return out
}

const baseMS = int64(1704067200000) // 2024-01-01T00:00:00Z

type built struct {
	method string
	url    string
	hdr    map[string]string
	body   []byte
}

func (s *reqSpec) build() built {
	q := url.Values{}
	hdr := map[string]string{}
	if s.HdrDB != "" {
		hdr["x-arc-database"] = s.HdrDB
	}
	if s.QueryDB != "" {
		p := s.dbParam()
		if p == "" {
			p = "db" // a parameter the endpoint does not document; must be inert
		}
		q.Set(p, s.QueryDB)
	}
	for _, d := range s.DecoyQuery {
		if q.Get(d[0]) == "" {
			q.Set(d[0], d[1])
		}
	}
	for _, d := range s.DecoyHdr {
		hdr[d[0]] = d[1]
	}
	b := built{method: "POST", hdr: hdr}
	switch s.kind() {
	case "lp":
		q.Set("precision", "ms")
		b.url = strings.TrimPrefix(s.Endpoint, "lp:")
		b.body = s.lpBody()
	case "msgpack":
		b.url = "/api/v1/write/msgpack"
		hdr["Content-Type"] = "application/msgpack"
		b.body = s.msgpackBody()
	default:
		f := strings.TrimPrefix(s.Endpoint, "import:")
		b.url = "/api/v1/import/" + f
		if s.MeasParam != "" {
			q.Set("measurement", s.MeasParam)
		}
		var file []byte
		switch f {
		case "csv":
			file = s.csvFile()
		case "parquet":
			file = s.parquetFile()
			q.Set("time_format", "epoch_ms")
		default:
			file = s.lpBody()
			q.Set("precision", "ms")
		}
		if f == "csv" {
			q.Set("time_format", "epoch_ms")
		}
		var buf bytes.Buffer
		mw := multipart.NewWriter(&buf)
		// form fields with routing-like names: must be inert
		for _, d := range s.Decoys {
			if d.As == "toplevel" {
				_ = mw.WriteField(d.Name, decoyValue(d.Name))
			}
		}
		fw, _ := mw.CreateFormFile("file", "upload."+f)
		fw.Write(file)
		mw.Close()
		b.body = buf.Bytes()
		hdr["Content-Type"] = mw.FormDataContentType()
	}
	if enc := q.Encode(); enc != "" {
		b.url += "?" + enc
	}
	return b
}

func (s *reqSpec) decoysAs(as ...string) []decoy {
	var out []decoy
	for _, d := range s.Decoys {
		for _, a := range as {
			if d.As == a {
				out = append(out, d)
			}
		}
	}
	return out
}

func (s *reqSpec) lpBody() []byte {
	var sb strings.Builder
	rid := s.FirstRID
	for _, p := range s.Parts {
		for r := 0; r < p.Rows; r++ {
			sb.WriteString(p.Meas)
			sb.WriteString(",src=gen")
			for _, d := range s.decoysAs("tag", "column") {
				fmt.Fprintf(&sb, ",%s=%s", d.Name, decoyValue(d.Name))
			}
			fmt.Fprintf(&sb, " rid=%di", rid)
			for _, d := range s.decoysAs("field") {
				fmt.Fprintf(&sb, ",%s=\"%s\"", d.Name, decoyValue(d.Name))
			}
			fmt.Fprintf(&sb, " %d\n", baseMS+rid%3_000_000)
			rid++
		}
	}
	return []byte(sb.String())
}

func (s *reqSpec) measValue(p part) any {
	switch s.Special {
	case "empty-measurement":
		return ""
	case "int-measurement":
		return int64(5)
	}
	return p.Meas
}

func (s *reqSpec) msgpackItem(p part, form string, rid *int64, top bool) []map[string]any {
	addTop := func(m map[string]any) {
		if !top {
			return
		}
		for _, d := range s.decoysAs("toplevel") {
			if d.Name == "m" {
				continue // "m" is the documented measurement key itself
			}
			m[d.Name] = decoyValue(d.Name)
		}
	}
	if form == "columnar" {
		times := make([]any, p.Rows)
		rids := make([]any, p.Rows)
		for r := 0; r < p.Rows; r++ {
			rids[r] = *rid
			times[r] = baseMS + *rid%3_000_000
			*rid++
		}
		cols := map[string]any{"time": times, "rid": rids}
		for _, d := range s.decoysAs("column", "tag", "field") {
			if d.Name == "time" || d.Name == "rid" {
				continue
			}
			v := make([]any, p.Rows)
			for r := range v {
				v[r] = decoyValue(d.Name)
			}
			cols[d.Name] = v
		}
		m := map[string]any{"m": s.measValue(p), "columns": cols}
		addTop(m)
		return []map[string]any{m}
	}
	var out []map[string]any
	for r := 0; r < p.Rows; r++ {
		fields := map[string]any{"rid": *rid}
		tags := map[string]any{"src": "gen"}
		for _, d := range s.decoysAs("field", "column") {
			fields[d.Name] = decoyValue(d.Name)
		}
		for _, d := range s.decoysAs("tag") {
			tags[d.Name] = decoyValue(d.Name)
		}
		m := map[string]any{"m": s.measValue(p), "t": baseMS + *rid%3_000_000, "fields": fields, "tags": tags}
		addTop(m)
		out = append(out, m)
		*rid++
	}
	return out
}

func (s *reqSpec) msgpackBody() []byte {
	rid := s.FirstRID
	var payload any
	switch s.Endpoint {
	case "msgpack:columnar":
		payload = s.msgpackItem(s.Parts[0], "columnar", &rid, true)[0]
	case "msgpack:row":
		items := s.msgpackItem(s.Parts[0], "row", &rid, true)
		if len(items) == 1 {
			payload = items[0]
		} else {
			arr := make([]any, len(items))
			for i := range items {
				arr[i] = items[i]
			}
			payload = arr
		}
	default:
		var arr []any
		for _, p := range s.Parts {
			for _, it := range s.msgpackItem(p, p.Form, &rid, true) {
				arr = append(arr, it)
			}
		}
		if s.Endpoint == "msgpack:batch" {
			m := map[string]any{"batch": arr}
			for _, d := range s.decoysAs("toplevel") {
				m[d.Name] = decoyValue(d.Name)
			}
			payload = m
		} else {
			payload = arr
		}
	}
	if item, ok := payload.(map[string]any); ok && s.Endpoint == "msgpack:columnar" && strings.HasPrefix(s.Special, "dup-m") {
		// the top-level key "m" twice (no map encoder produces this; hand-encoded): once
		// with the part's measurement, once with another one. Which of the two a decoder
		// keeps is its own business - what is checked is that the measurement the rows are
		// stored under, and the one the WAL record would be replayed to, is the one that
		// was permission-checked.
		other := badM
		if s.Parts[0].Meas == badM {
			other = okM1
		}
		first, last := item["m"], any(other)
		if s.Special == "dup-m-other-first" {
			first, last = last, first
		}
		delete(item, "m")
		keys := make([]string, 0, len(item))
		for k := range item {
			keys = append(keys, k)
		}
		sort.Strings(keys)
		var buf bytes.Buffer
		enc := msgpack.NewEncoder(&buf)
		must := func(err error) {
			if err != nil {
				panic(err)
			}
		}
		must(enc.EncodeMapLen(len(item) + 2))
		must(enc.EncodeString("m"))
		must(enc.Encode(first))
		for _, k := range keys {
			must(enc.EncodeString(k))
			must(enc.Encode(item[k]))
		}
		must(enc.EncodeString("m"))
		must(enc.Encode(last))
		return buf.Bytes()
	}
	b, err := msgpack.Marshal(payload)
	if err != nil {
		panic(err)
	}
	return b
}

func (s *reqSpec) csvFile() []byte {
	var sb strings.Builder
	ds := s.decoysAs("column", "tag", "field")
	sb.WriteString("time,rid")
	for _, d := range ds {
		sb.WriteString("," + d.Name)
	}
	sb.WriteString("\n")
	rid := s.FirstRID
	for _, p := range s.Parts {
		for r := 0; r < p.Rows; r++ {
			fmt.Fprintf(&sb, "%d,%d", baseMS+rid%3_000_000, rid)
			for _, d := range ds {
				sb.WriteString("," + decoyValue(d.Name))
			}
			sb.WriteString("\n")
			rid++
		}
	}
	return []byte(sb.String())
}

func (s *reqSpec) parquetFile() []byte {
	ds := s.decoysAs("column", "tag", "field")
	fields := []arrow.Field{
		{Name: "time", Type: arrow.PrimitiveTypes.Int64, Nullable: true},
		{Name: "rid", Type: arrow.PrimitiveTypes.Int64, Nullable: true},
	}
	for _, d := range ds {
		fields = append(fields, arrow.Field{Name: d.Name, Type: arrow.BinaryTypes.String, Nullable: true})
	}
	schema := arrow.NewSchema(fields, nil)
	rb := array.NewRecordBuilder(memory.DefaultAllocator, schema)
	defer rb.Release()
	rid := s.FirstRID
	for _, p := range s.Parts {
		for r := 0; r < p.Rows; r++ {
			rb.Field(0).(*array.Int64Builder).Append(baseMS + rid%3_000_000)
			rb.Field(1).(*array.Int64Builder).Append(rid)
			for i, d := range ds {
				rb.Field(2 + i).(*array.StringBuilder).Append(decoyValue(d.Name))
			}
			rid++
		}
	}
	rec := rb.NewRecord()
	defer rec.Release()
	var buf bytes.Buffer
	w, err := pqarrow.NewFileWriter(schema, &buf, parquet.NewWriterProperties(), pqarrow.NewArrowWriterProperties())
	if err != nil {
		panic(err)
	}
	if err := w.Write(rec); err != nil {
		panic(err)
	}
	w.Close()
	return buf.Bytes()
}

// ---- random specs ----

var endpoints = []string{
	"lp:/write", "lp:/api/v2/write", "lp:/api/v1/write/line-protocol",
	"msgpack:columnar", "msgpack:row", "msgpack:batch", "msgpack:array",
	"import:csv", "import:parquet", "import:lp",
}

var decoyNames = []string{"database", "_database", "measurement", "_measurement", "m", "db"}

func pickDB(rng *rand.Rand) string {
	return []string{"", allowedDB, allowedDB, allowedDB, forbiddenDB}[rng.IntN(5)]
}

func pickMeas(rng *rand.Rand) string {
	return []string{okM1, okM1, okM2, okM2, okM1, badM}[rng.IntN(6)]
}

func genSpec(rng *rand.Rand, id int, ep string, hdrDB, queryDB string) *reqSpec {
	s := &reqSpec{ID: id, Endpoint: ep, HdrDB: hdrDB, QueryDB: queryDB}
	nParts := 1
	switch ep {
	case "lp:/write", "lp:/api/v2/write", "lp:/api/v1/write/line-protocol", "import:lp", "msgpack:batch", "msgpack:array":
		nParts = 1 + rng.IntN(3)
	}
	for i := 0; i < nParts; i++ {
		p := part{Meas: pickMeas(rng), Rows: 1 + rng.IntN(4)}
		if s.kind() == "msgpack" {
			p.Form = []string{"columnar", "row"}[rng.IntN(2)]
		}
		s.Parts = append(s.Parts, p)
	}
	if s.kind() == "import" {
		if ep == "import:lp" {
			if rng.IntN(3) == 0 {
				s.MeasParam = pickMeas(rng) // filter
			}
		} else {
			s.MeasParam = s.Parts[0].Meas
		}
	}
	// decoys: each routing-like name with some probability, in a form the payload format has
	forms := map[string][]string{"lp": {"tag", "field"}, "msgpack": {"tag", "field", "column", "toplevel"}, "import": {"column", "toplevel"}}[s.kind()]
	used := map[string]bool{}
	for _, name := range decoyNames {
		if rng.IntN(3) != 0 {
			continue
		}
		as := forms[rng.IntN(len(forms))]
		if ep == "import:lp" && as == "column" {
			as = []string{"tag", "field"}[rng.IntN(2)]
		}
		if used[name] {
			continue
		}
		used[name] = true
		s.Decoys = append(s.Decoys, decoy{name, as})
	}
	// decoy query parameters and headers
	if rng.IntN(3) == 0 {
		cands := [][2]string{{"bucket", forbiddenDB}, {"db", forbiddenDB}, {"database", forbiddenDB}, {"org", forbiddenDB}, {"rp", forbiddenDB}}
		if s.kind() != "import" {
			cands = append(cands, [2]string{"measurement", badM})
		}
		d := cands[rng.IntN(len(cands))]
		if d[0] != s.dbParam() {
			s.DecoyQuery = append(s.DecoyQuery, d)
		}
	}
	if rng.IntN(4) == 0 {
		cands := [][2]string{{"x-arc-measurement", badM}, {"x-arc-db", forbiddenDB}, {"database", forbiddenDB}, {"x-database", forbiddenDB}}
		s.DecoyHdr = append(s.DecoyHdr, cands[rng.IntN(len(cands))])
	}
	if s.kind() == "msgpack" && rng.IntN(8) == 0 {
		s.Special = []string{"empty-measurement", "int-measurement", "dup-m-other-last", "dup-m-other-first"}[rng.IntN(4)]
		if strings.HasPrefix(s.Special, "dup-m") && ep != "msgpack:columnar" {
			s.Special = ""
		}
	}
	sort.Slice(s.Decoys, func(i, j int) bool { return s.Decoys[i].String() < s.Decoys[j].String() })
	return s
}
