//go:build !verifreplshim

package main

import (
	"github.com/basekick-labs/arc/internal/cluster/replication"
	"github.com/basekick-labs/arc/internal/ingest"
)

// Without the export shim of repo-hooks.patch the reader-side routing of replicated
// entries (an unexported method of the license-gated cluster.Coordinator) cannot be
// reached; the replicated-write sub-check is then skipped and says so.
const haveReplShim = false

func replicaHandler(buf *ingest.ArrowBuffer) replication.IngestHandler { return nil }
