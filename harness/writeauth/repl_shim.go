//go:build verifreplshim

package main

// Built only when the area tag "verifreplshim" is set, which requires the
// verif-tagged export shim of repo-hooks.patch (cluster.VerifReplicationIngestHandler)
// to be present in the checkout.

import (
	"github.com/basekick-labs/arc/internal/cluster"
	"github.com/basekick-labs/arc/internal/cluster/replication"
	"github.com/basekick-labs/arc/internal/ingest"
)

const haveReplShim = true

func replicaHandler(buf *ingest.ArrowBuffer) replication.IngestHandler {
	return cluster.VerifReplicationIngestHandler(buf)
}
