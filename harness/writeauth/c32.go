package main

import (
	"context"
	"fmt"
	"os"
	"path/filepath"
	"sort"
	"strings"
	"sync"

	"github.com/rs/zerolog"

	"github.com/basekick-labs/arc/internal/wal"
	"github.com/basekick-labs/arc/internal/zzverif/vfix"
	"github.com/basekick-labs/arc/internal/zzverif/vlib"
	"github.com/basekick-labs/arc/internal/zzverif/vpq"
)

// obs is what was observed for one request.
type obs struct {
	Status int    `json:"status"`
	Resp   string `json:"response"`
	Asked  []ask  `json:"asked"`
}

// viol is one refuting observation about one request.
type viol struct {
	Kind   string         `json:"kind"`
	Detail map[string]any `json:"detail"`
}

func checkC32(c *vlib.Ctx) {
	c.Rule("requests are generated over 10 endpoint/format combinations (line protocol via /write, /api/v2/write, /api/v1/write/line-protocol; MessagePack columnar, row, batch, array; imports csv, parquet, lp) x every combination of x-arc-database header {absent, allowed, forbidden} and database query parameter {absent, allowed, forbidden} (db, bucket; also sent to endpoints that do not document one) x measurements {m_ok1, m_ok2, m_bad} in one to three parts x routing-like names (database, _database, measurement, _measurement, m, db) as tags, fields, columns, extra top-level payload keys or multipart form fields whose values name the forbidden database / measurement x decoy query parameters and headers x special measurement values (empty string, integer). The caller's token is allowed to write database `allowed`, measurements m_ok1 and m_ok2 only; a recording RBAC checker logs every (database, measurement, permission) it is asked and what it answered, per request (requests are serialised per node). non-trivial = distinct requests carrying at least one decoy, a conflicting database designation or a forbidden name")
	c.Assume("the database a request names = the endpoint's documented precedence: x-arc-database header over the query parameter (db for /write and the import endpoints, bucket for /api/v2/write, none for /api/v1/write/line-protocol and /api/v1/write/msgpack), write endpoints default to `default`, import endpoints require a name")
	c.Assume("the authentication layer is played by a middleware that places the caller's token into the request context (where api.CheckWritePermissions reads it); the RBAC decision is the stub's policy, the real RBAC manager (license-gated) is not executed")
	c.Assume("stored rows are located by their unique rid in the Parquet files read back with arrow-go (vpq); local backend only")
	if c.Replay != "" {
		replayC32(c)
		return
	}
	// systematic part: every endpoint x header x query-parameter combination, twice; then random fill
	nodes := 16
	per := c.N(400, 6000)
	type nodeRes struct {
		specs []*reqSpec
		obs   []obs
		viols map[int][]viol
		wal   []viol
	}
	res := make([]nodeRes, nodes)
	var wg sync.WaitGroup
	for ni := 0; ni < nodes; ni++ {
		wg.Add(1)
		go func(ni int) {
			defer wg.Done()
			rng := c.Rand(fmt.Sprintf("node-%d", ni))
			var specs []*reqSpec
			dbs := []string{"", allowedDB, forbiddenDB}
			k := 0
			for _, ep := range endpoints {
				for _, h := range dbs {
					for _, q := range dbs {
						if (k+ni)%2 == 0 { // each node takes half of the grid; two nodes cover it
							specs = append(specs, genSpec(rng, 0, ep, h, q))
						}
						k++
					}
				}
			}
			for len(specs) < per {
				specs = append(specs, genSpec(rng, 0, endpoints[rng.IntN(len(endpoints))], pickDB(rng), pickDB(rng)))
			}
			rng.Shuffle(len(specs), func(i, j int) { specs[i], specs[j] = specs[j], specs[i] })
			rid := int64(ni+1) * 10_000_000
			for i, s := range specs {
				s.ID = ni*1_000_000 + i
				s.FirstRID = rid
				rid += int64(len(s.rids())) + 3
			}
			o, v, w, inc := runSpecs(c, specs, true)
			if inc != "" {
				c.Inconclusive(fmt.Sprintf("node %d: %s", ni, inc))
			}
			res[ni] = nodeRes{specs, o, v, w}
		}(ni)
	}
	wg.Wait()

	shrunk := map[string]bool{}
	for ni := range res {
		r := res[ni]
		for i, s := range r.specs {
			c.Eval()
			c.Count("requests:"+s.Endpoint, 1)
			if ni == 0 && i < 8 && len(r.obs) > i {
				c.Sample(map[string]any{"request": describe(s), "classification": classify(s), "status": r.obs[i].Status, "permission_questions": r.obs[i].Asked})
			}
			if len(r.obs) > i {
				switch st := r.obs[i].Status; {
				case st >= 200 && st < 300:
					c.Count("requests_accepted", 1)
				case st == 403:
					c.Count("requests_denied_403", 1)
				default:
					c.Count("requests_refused_other", 1)
				}
				c.Count("permission_questions_logged", int64(len(r.obs[i].Asked)))
			}
			if len(s.Decoys) > 0 || s.Special != "" || (s.HdrDB != "" && s.QueryDB != "" && s.HdrDB != s.QueryDB) || s.namedDB() != allowedDB || len(s.DecoyQuery)+len(s.DecoyHdr) > 0 {
				c.Nontrivial(vlib.JSON(s))
			}
			for _, v := range r.viols[s.ID] {
				// shrink to the minimal request that still shows this kind of violation; the
				// classification of the minimal request is the signature
				minS := shrinkSpec(c, s, v.Kind)
				sig := v.Kind + " [" + classify(minS) + "]"
				if shrunk[sig] {
					continue
				}
				shrunk[sig] = true
				var o obs
				if len(r.obs) > i {
					o = r.obs[i]
				}
				c.Violation(sig, map[string]any{"minimal": minS, "minimal_request": describe(minS), "original": s, "original_observation": o, "observed": v.Detail})
			}
		}
		for _, w := range r.wal {
			c.Violation(w.Kind, w.Detail)
		}
	}
	c.Floor(c.N(3000, 40000))
}

func describe(s *reqSpec) map[string]any {
	b := s.build()
	body := string(b.body)
	if s.kind() == "msgpack" || s.Endpoint == "import:parquet" {
		body = fmt.Sprintf("%x", b.body)
	}
	if len(body) > 1500 {
		body = body[:1500] + "..."
	}
	h := map[string]string{}
	for k, v := range b.hdr {
		h[k] = v
	}
	return map[string]any{"url": b.url, "headers": h, "body": body, "names_database": s.namedDB()}
}

// classify renders the stable classification of a (minimal) request.
func classify(s *reqSpec) string {
	parts := []string{s.Endpoint}
	if s.Special != "" {
		parts = append(parts, s.Special)
	}
	for _, d := range s.Decoys {
		parts = append(parts, d.String())
	}
	for _, d := range s.DecoyQuery {
		parts = append(parts, "query:"+d[0])
	}
	for _, d := range s.DecoyHdr {
		parts = append(parts, "header:"+d[0])
	}
	name := func(v string) string {
		if v == "" {
			return "absent"
		}
		return v
	}
	parts = append(parts, "header db "+name(s.HdrDB), "query db "+name(s.QueryDB))
	ms := map[string]bool{}
	for _, p := range s.Parts {
		ms[p.Meas] = true
	}
	var ml []string
	for m := range ms {
		ml = append(ml, m)
	}
	sort.Strings(ml)
	parts = append(parts, "measurements "+strings.Join(ml, "+"))
	if s.MeasParam != "" {
		parts = append(parts, "measurement param "+s.MeasParam)
	}
	return strings.Join(parts, "; ")
}

func cloneSpec(s *reqSpec) *reqSpec {
	c := *s
	c.Parts = append([]part(nil), s.Parts...)
	c.Decoys = append([]decoy(nil), s.Decoys...)
	c.DecoyQuery = append([][2]string(nil), s.DecoyQuery...)
	c.DecoyHdr = append([][2]string(nil), s.DecoyHdr...)
	return &c
}

// shrinkSpec removes features while a fresh node still shows the same kind of violation.
func shrinkSpec(c *vlib.Ctx, s *reqSpec, kind string) *reqSpec {
	still := func(t *reqSpec) bool {
		_, v, _, inc := runSpecs(nil, []*reqSpec{t}, false)
		if inc != "" {
			return false
		}
		for _, x := range v[t.ID] {
			if x.Kind == kind {
				return true
			}
		}
		return false
	}
	cur := cloneSpec(s)
	if !still(cur) {
		return cur // not reproducible alone: keep the original classification
	}
	try := func(mut func(t *reqSpec) bool) {
		t := cloneSpec(cur)
		if mut(t) && still(t) {
			cur = t
		}
	}
	for changed := true; changed; {
		before := vlib.JSON(cur)
		for i := len(cur.Decoys) - 1; i >= 0; i-- {
			i := i
			try(func(t *reqSpec) bool {
				if i >= len(t.Decoys) {
					return false
				}
				t.Decoys = append(t.Decoys[:i], t.Decoys[i+1:]...)
				return true
			})
		}
		try(func(t *reqSpec) bool { ok := len(t.DecoyQuery) > 0; t.DecoyQuery = nil; return ok })
		try(func(t *reqSpec) bool { ok := len(t.DecoyHdr) > 0; t.DecoyHdr = nil; return ok })
		try(func(t *reqSpec) bool { ok := t.Special != ""; t.Special = ""; return ok })
		try(func(t *reqSpec) bool {
			if len(t.Parts) < 2 {
				return false
			}
			t.Parts = t.Parts[:1]
			if t.MeasParam != "" && t.Endpoint != "import:lp" {
				t.MeasParam = t.Parts[0].Meas
			}
			return true
		})
		try(func(t *reqSpec) bool {
			if len(t.Parts) < 2 {
				return false
			}
			t.Parts = t.Parts[1:]
			if t.MeasParam != "" && t.Endpoint != "import:lp" {
				t.MeasParam = t.Parts[0].Meas
			}
			return true
		})
		for pi := range cur.Parts {
			pi := pi
			try(func(t *reqSpec) bool { ok := t.Parts[pi].Rows > 1; t.Parts[pi].Rows = 1; return ok })
			try(func(t *reqSpec) bool {
				ok := t.Parts[pi].Meas != okM1
				t.Parts[pi].Meas = okM1
				if t.MeasParam != "" && t.Endpoint != "import:lp" && pi == 0 {
					t.MeasParam = okM1
				}
				return ok
			})
		}
		try(func(t *reqSpec) bool {
			ok := t.Endpoint == "import:lp" && t.MeasParam != ""
			t.MeasParam = ""
			return ok
		})
		// simplest database designation: header = allowed, no query parameter
		try(func(t *reqSpec) bool { ok := t.QueryDB != ""; t.QueryDB = ""; return ok })
		try(func(t *reqSpec) bool { ok := t.HdrDB != allowedDB; t.HdrDB = allowedDB; return ok })
		// no database designation at all (only when no query parameter is left, so that
		// "header" and "query parameter" designations converge on the same minimum)
		try(func(t *reqSpec) bool { ok := t.HdrDB != "" && t.QueryDB == ""; t.HdrDB = ""; return ok })
		changed = vlib.JSON(cur) != before
	}
	return cur
}

// runSpecs sends the requests one after the other to a fresh monitored node, waits
// for the flushes, reads storage (and the WAL when enabled) back and returns, per
// request id, the violations of C32.
func runSpecs(c *vlib.Ctx, specs []*reqSpec, withWAL bool) ([]obs, map[int][]viol, []viol, string) {
	n := newMonitoredNode(withWAL)
	defer n.close()
	out := make([]obs, len(specs))
	byRID := map[int64]int{} // rid -> index in specs
	for i, s := range specs {
		for _, r := range s.rids() {
			byRID[r] = i
		}
		b := s.build()
		mark := n.chk.mark()
		code, resp, _ := n.Do(b.method, b.url, b.hdr, b.body)
		rs := string(resp)
		if len(rs) > 300 {
			rs = rs[:300]
		}
		out[i] = obs{Status: code, Resp: rs, Asked: n.chk.since(mark)}
	}
	buffered, _ := n.Buffer.GetStats()["total_records_buffered"].(int64)
	if !n.Quiesce(buffered) {
		return out, nil, nil, "flush queue did not drain within the watchdog; storage comparison skipped"
	}
	files, err := vpq.ReadTree(n.Root)
	if err != nil {
		return out, nil, []viol{{"stored Parquet file unreadable", map[string]any{"err": err.Error()}}}, ""
	}
	viols := map[int][]viol{}
	add := func(i int, kind string, d map[string]any) {
		id := specs[i].ID
		for _, v := range viols[id] {
			if v.Kind == kind {
				return
			}
		}
		viols[id] = append(viols[id], viol{kind, d})
	}
	var global []viol
	for _, f := range files {
		if c != nil {
			c.Count("parquet_files_read", 1)
		}
		parts := strings.Split(f.Rel, "/")
		db, meas := parts[0], ""
		if len(parts) > 1 {
			meas = parts[1]
		}
		for _, row := range f.Rows {
			rid, ok := row["rid"].(int64)
			i, known := byRID[rid]
			if !ok || !known {
				global = append(global, viol{"stored row that cannot be attributed to a request (no known rid)", map[string]any{"file": f.Rel, "row": fmt.Sprint(row)}})
				continue
			}
			if c != nil {
				c.Count("stored_rows_attributed", 1)
			}
			s, o := specs[i], out[i]
			d := map[string]any{"file": f.Rel, "rid": rid, "stored_database": db, "stored_measurement": meas, "request_names_database": s.namedDB(), "status": o.Status, "asked": o.Asked}
			if o.Status < 200 || o.Status >= 300 {
				// the other two observations follow trivially for a refused request
				add(i, "row of a refused request was stored", d)
				continue
			}
			if db != s.namedDB() {
				add(i, "row stored under a database other than the one the request named", d)
			}
			granted := false
			for _, a := range o.Asked {
				if a.DB == db && a.Meas == meas && a.Perm == "write" && a.Granted {
					granted = true
				}
			}
			if !granted {
				add(i, "row stored under a (database, measurement) for which write permission was not asked-and-granted during the request", d)
			}
		}
	}
	var walViols []viol
	if withWAL {
		walViols = checkWAL(c, n, specs, out, byRID)
		if haveReplShim {
			walViols = append(walViols, checkReplica(c, n, specs, out, byRID)...)
		}
	}
	return out, viols, append(global, walViols...), ""
}

// checkWAL reads the node's WAL files back with the real wal.Reader and compares
// the routing keys the WAL carries for every row (the keys WAL replay and WAL
// replication route by) with the database / measurement the request was checked for.
func checkWAL(c *vlib.Ctx, n *mnode, specs []*reqSpec, out []obs, byRID map[int64]int) []viol {
	n.wal.Close()
	n.wal = nil
	var vs []viol
	seen := map[string]bool{}
	add := func(kind string, d map[string]any) {
		if !seen[kind] {
			seen[kind] = true
			vs = append(vs, viol{kind, d})
		}
	}
	wfiles, _ := filepath.Glob(filepath.Join(n.walDir, "*.wal"))
	sort.Strings(wfiles)
	toI64 := func(v any) (int64, bool) {
		switch t := v.(type) {
		case int64:
			return t, true
		case uint64:
			return int64(t), true
		case int8:
			return int64(t), true
		case int16:
			return int64(t), true
		case int32:
			return int64(t), true
		case uint8:
			return int64(t), true
		case uint16:
			return int64(t), true
		case uint32:
			return int64(t), true
		case int:
			return int64(t), true
		}
		return 0, false
	}
	judge := func(rid int64, db, meas, form string) {
		i, ok := byRID[rid]
		if !ok {
			return
		}
		if c != nil {
			c.Count("wal_rows_checked", 1)
		}
		s, o := specs[i], out[i]
		if o.Status < 200 || o.Status >= 300 || (s.Special == "empty-measurement" && meas == "") {
			return // already reported at the storage level (refused request stored / unchecked empty measurement)
		}
		granted := false
		for _, a := range o.Asked {
			if a.DB == db && a.Meas == meas && a.Granted {
				granted = true
			}
		}
		if db == s.namedDB() && granted {
			return
		}
		has := func(name string) bool {
			for _, d := range s.Decoys {
				if d.Name == name && d.As != "toplevel" {
					return true
				}
			}
			return false
		}
		var causes []string
		if db != s.namedDB() {
			if has("_database") && db == forbiddenDB {
				causes = append(causes, "the database key is the value of the client's `_database` column")
			} else {
				causes = append(causes, "database key differs")
			}
		}
		measAsked := false
		for _, a := range o.Asked {
			if a.Meas == meas && a.Granted {
				measAsked = true
			}
		}
		if !measAsked {
			if has("_measurement") && meas == badM {
				causes = append(causes, "the measurement key is the value of the client's `_measurement` column")
			} else {
				causes = append(causes, "measurement key differs")
			}
		}
		add(fmt.Sprintf("WAL record (%s) of an accepted write carries routing keys other than the database/measurement the request was checked for [%s: %s]", form, s.kind(), strings.Join(causes, "; ")),
			map[string]any{"request": s, "request_summary": describe(s), "wal_database": db, "wal_measurement": meas, "request_names_database": s.namedDB(), "asked": o.Asked, "rid": rid,
				"note": "WAL replay (cmd/arc/main.go createWALRecoveryCallback) and WAL replication (Coordinator.buildReplicationIngestHandler) route rows by these keys; neither consumer is executed by this check"})
	}
	for _, wf := range wfiles {
		entries, err := wal.NewReader(wf, zerolog.Nop()).ReadAll()
		if err != nil {
			continue
		}
		for _, e := range entries {
			if e.ColumnarData != nil {
				db := e.ColumnarData.Database
				if db == "" {
					db = "default"
				}
				for _, r := range e.ColumnarData.Columns["rid"] {
					if rid, ok := toI64(r); ok {
						judge(rid, db, e.ColumnarData.Measurement, "columnar, envelope")
					}
				}
				continue
			}
			for _, rec := range e.Records {
				if os.Getenv("VERIF_DEBUG") != "" {
					fmt.Printf("DEBUG wal row: %v\n", rec)
				}
				rid, ok := toI64(rec["rid"])
				if !ok {
					continue
				}
				db, _ := rec["_database"].(string)
				meas, _ := rec["_measurement"].(string)
				judge(rid, db, meas, "row format")
			}
		}
	}
	return vs
}

// checkReplica feeds every payload the writer's WAL handed to its replication hook,
// in order, to the handler a reader-role coordinator installs in its
// replication.Receiver (obtained through the verif-tagged export shim), bound to
// the ingest buffer of a second node, and compares where the rows land on that
// reader with the database / measurement the original request was checked for.
// The TCP transport (Sender/Receiver framing, which passes payloads through
// unchanged) is not part of this path.
func checkReplica(c *vlib.Ctx, n *mnode, specs []*reqSpec, out []obs, byRID map[int64]int) []viol {
	n.replMu.Lock()
	payloads := n.repl
	n.replMu.Unlock()
	rd, err := vfix.NewNode(vfix.Options{})
	if err != nil {
		panic(err)
	}
	defer rd.Close()
	h := replicaHandler(rd.Buffer)
	var vs []viol
	seen := map[string]bool{}
	add := func(kind string, d map[string]any) {
		if !seen[kind] {
			seen[kind] = true
			vs = append(vs, viol{kind, d})
		}
	}
	for _, p := range payloads {
		if c != nil {
			c.Count("replicated_entries_applied", 1)
		}
		if err := h.ApplyReplicatedEntry(context.Background(), p); err != nil && c != nil {
			c.Count("replicated_entries_refused_by_reader", 1)
		}
	}
	buffered, _ := rd.Buffer.GetStats()["total_records_buffered"].(int64)
	if !rd.Quiesce(buffered) {
		if c != nil {
			c.Inconclusive("reader node: flush queue did not drain within the watchdog")
		}
		return nil
	}
	files, err := vpq.ReadTree(rd.Root)
	if err != nil {
		return []viol{{"replicated write: stored Parquet file unreadable on the reader", map[string]any{"err": err.Error()}}}
	}
	for _, f := range files {
		parts := strings.Split(f.Rel, "/")
		db, meas := parts[0], ""
		if len(parts) > 1 {
			meas = parts[1]
		}
		for _, row := range f.Rows {
			rid, ok := row["rid"].(int64)
			i, known := byRID[rid]
			if !ok || !known {
				continue
			}
			if c != nil {
				c.Count("replicated_rows_checked", 1)
			}
			s, o := specs[i], out[i]
			if o.Status < 200 || o.Status >= 300 || s.Special == "empty-measurement" {
				continue // reported at the storage level of the writer
			}
			granted := false
			for _, a := range o.Asked {
				if a.DB == db && a.Meas == meas && a.Granted {
					granted = true
				}
			}
			if db == s.namedDB() && granted {
				continue
			}
			var what []string
			if db != s.namedDB() {
				what = append(what, fmt.Sprintf("reader database `%s` instead of the named one", dbClass(db)))
			}
			if !granted && db == s.namedDB() {
				what = append(what, "measurement not among the checked ones")
			}
			add(fmt.Sprintf("replicated write: row lands on the reader where the request was not checked to write [%s; %s]", s.kind(), strings.Join(what, "; ")),
				map[string]any{"request": s, "request_summary": describe(s), "reader_file": f.Rel, "rid": rid, "request_names_database": s.namedDB(), "asked": o.Asked})
		}
	}
	return vs
}

func dbClass(db string) string {
	switch db {
	case "default", allowedDB, forbiddenDB:
		return db
	}
	return "other"
}

func replayC32(c *vlib.Ctx) {
	var d struct {
		Minimal *reqSpec `json:"minimal"`
		Request *reqSpec `json:"request"`
	}
	if err := vlib.LoadReplay(c.Replay, &d); err != nil {
		panic(err)
	}
	s := d.Minimal
	if s == nil {
		s = d.Request
	}
	if s == nil {
		panic("replay file has no request")
	}
	c.Nontrivial("replay-a")
	c.Nontrivial("replay-b")
	c.Eval()
	o, v, w, inc := runSpecs(c, []*reqSpec{s}, true)
	if inc != "" {
		c.Inconclusive(inc)
	}
	fmt.Printf("request: %s\n  -> status %d %s\n  asked: %+v\n", vlib.JSON(describe(s)), o[0].Status, o[0].Resp, o[0].Asked)
	for _, x := range v[s.ID] {
		fmt.Printf("  violation: %s %v\n", x.Kind, x.Detail)
		c.Violation(x.Kind+" ["+classify(s)+"]", map[string]any{"minimal": s, "observed": x.Detail})
	}
	for _, x := range w {
		c.Violation(x.Kind, x.Detail)
	}
}
