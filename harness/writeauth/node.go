package main

// The monitored node: vfix's in-process arc node (real handlers, real ingest buffer,
// local storage) behind a tiny middleware that plays the authentication layer (it
// puts the caller's token into the request context, which is where
// api.CheckWritePermissions looks for it), with a RECORDING RBAC checker that
// implements the policy "this caller may write database `allowed`, measurements
// m_ok1 and m_ok2, nothing else" and logs every question it is asked.

import (
	"os"
	"path/filepath"
	"sync"
	"time"

	"github.com/gofiber/fiber/v2"
	"github.com/rs/zerolog"

	"github.com/basekick-labs/arc/internal/auth"
	"github.com/basekick-labs/arc/internal/wal"
	"github.com/basekick-labs/arc/internal/zzverif/vfix"
)

const (
	allowedDB   = "allowed"
	forbiddenDB = "forbidden"
	okM1        = "m_ok1"
	okM2        = "m_ok2"
	badM        = "m_bad"
)

type ask struct {
	DB      string `json:"db"`
	Meas    string `json:"measurement"`
	Perm    string `json:"permission"`
	Granted bool   `json:"granted"`
}

type recChecker struct {
	mu  sync.Mutex
	log []ask
}

func (r *recChecker) IsRBACEnabled() bool { return true }

func (r *recChecker) decide(req *auth.PermissionCheckRequest) *auth.PermissionCheckResult {
	ok := req.TokenInfo != nil && req.Permission == "write" && req.Database == allowedDB && (req.Measurement == okM1 || req.Measurement == okM2)
	r.mu.Lock()
	r.log = append(r.log, ask{req.Database, req.Measurement, req.Permission, ok})
	r.mu.Unlock()
	if ok {
		return &auth.PermissionCheckResult{Allowed: true, Source: "rbac"}
	}
	return &auth.PermissionCheckResult{Allowed: false, Source: "denied", Reason: "policy: only " + allowedDB + "/{" + okM1 + "," + okM2 + "}"}
}

func (r *recChecker) CheckPermission(req *auth.PermissionCheckRequest) *auth.PermissionCheckResult {
	return r.decide(req)
}

func (r *recChecker) CheckPermissionsBatch(reqs []*auth.PermissionCheckRequest) []*auth.PermissionCheckResult {
	out := make([]*auth.PermissionCheckResult, len(reqs))
	for i, q := range reqs {
		out[i] = r.decide(q)
	}
	return out
}

func (r *recChecker) mark() int {
	r.mu.Lock()
	defer r.mu.Unlock()
	return len(r.log)
}

func (r *recChecker) since(m int) []ask {
	r.mu.Lock()
	defer r.mu.Unlock()
	return append([]ask(nil), r.log[m:]...)
}

type mnode struct {
	*vfix.Node
	chk    *recChecker
	wal    *wal.Writer
	walDir string
	repl   [][]byte // payloads handed to the replication hook, in order
	replMu sync.Mutex
}

func newMonitoredNode(withWAL bool) *mnode {
	chk := &recChecker{}
	n, err := vfix.NewNode(vfix.Options{WithImport: true, RBAC: chk})
	if err != nil {
		panic(err)
	}
	// same handlers, behind the token middleware
	app := fiber.New(fiber.Config{BodyLimit: 256 << 20, DisableStartupMessage: true})
	tok := &auth.TokenInfo{ID: 7, Name: "limited-writer", Permissions: []string{"write"}, Enabled: true, CreatedAt: time.Unix(1700000000, 0)}
	app.Use(func(c *fiber.Ctx) error {
		c.Locals("token_info", tok)
		return c.Next()
	})
	n.LP.RegisterRoutes(app)
	n.MsgPack.RegisterRoutes(app)
	n.Import.RegisterRoutes(app)
	n.App = app
	m := &mnode{Node: n, chk: chk}
	if withWAL {
		m.walDir = filepath.Join(n.Dir, "wal")
		w, err := wal.NewWriter(&wal.WriterConfig{WALDir: m.walDir, SyncMode: wal.SyncModeAsync, MaxSizeBytes: 1 << 30, MaxAge: time.Hour, Logger: zerolog.Nop()})
		if err != nil {
			panic(err)
		}
		w.SetReplicationHook(func(e *wal.ReplicationEntry) {
			m.replMu.Lock()
			m.repl = append(m.repl, append([]byte(nil), e.Payload...))
			m.replMu.Unlock()
		})
		n.Buffer.SetWAL(w)
		m.wal = w
	}
	return m
}

func (m *mnode) close() {
	if m.wal != nil {
		m.wal.Close()
	}
	m.Node.Close()
	_ = os.RemoveAll(m.walDir)
}
