// Harness for the writeauth area: C32 (writes land only where the caller may write).
package main

import (
	"flag"
	"fmt"
	"os"

	"github.com/basekick-labs/arc/internal/zzverif/vlib"
)

func main() {
	prop := flag.String("prop", "", "property id")
	flag.String("replay", "", "replay file")
	flag.Parse()
	switch *prop {
	case "C32":
		vlib.Main("C32", "exploration", checkC32)
	default:
		fmt.Println("unknown property", *prop)
		os.Exit(2)
	}
}
