package main

import (
	"fmt"
	"sort"
	"strings"
	"sync"

	"github.com/basekick-labs/arc/internal/cluster"
	"github.com/basekick-labs/arc/internal/zzverif/vlib"
)

// Stable signatures.
const (
	sigTwoHops      = "request reached more than two nodes (forwarded more than once)"
	sigNoMarker     = "forwarded request does not carry the forwarding node's id in X-Arc-Forwarded-By"
	sigTwoProc      = "request processed by more than one node"
	sigIncapable    = "request processed locally by a node whose role cannot serve it"
	sigNotLocal     = "capable receiving node did not serve the request locally"
	sigPhantom      = "success answer although no node processed the request"
	sigErrProcessed = "error answer although a node processed the request"
	sigNotServed    = "request not served although the receiving node's registry lists a healthy, running, capable peer"
	sigSpoofChanged = "client-supplied X-Forwarded-* headers changed the routing outcome"
	sigHeaderLeak   = "client-supplied forwarding header value reached the peer on the forwarded hop"
	sigWrongTarget  = "request forwarded to a node the forwarder's registry does not list as a healthy writer/reader"
)

// capable asks arc's own role table (role.go); a node without router is not
// cluster-aware and serves everything, like a standalone node.
func capable(n nodeSpec, kind string) bool {
	if !n.Router {
		return true
	}
	caps := cluster.NodeRole(n.Role).GetCapabilities()
	if kind == "query" {
		return caps.CanQuery
	}
	return caps.CanIngest
}

// candidates are the peers the entry node's registry lists as healthy nodes of a role
// the router forwards this kind to (writers for writes; readers and writers for
// queries). clean = all of them are really running and really capable.
func candidates(c clusterCfg, entry int, kind string) (cand []int, clean bool) {
	clean = true
	for j, s := range c.Nodes {
		if j == entry || s.Health == "unhealthy" {
			continue
		}
		vr := c.viewRole(entry, j)
		if !(vr == "writer" || (kind == "query" && vr == "reader")) {
			continue
		}
		cand = append(cand, j)
		if s.Health == "down" || !capable(s, kind) {
			clean = false
		}
	}
	return
}

type verdict struct {
	Sig    string
	Detail map[string]any
}

func judge(c clusterCfg, r reqRec, ids []string, baseline *reqRec) []verdict {
	var out []verdict
	add := func(sig string, extra map[string]any) {
		d := map[string]any{"config": c, "request": r, "node_ids": ids}
		for k, v := range extra {
			d[k] = v
		}
		out = append(out, verdict{sig, d})
	}
	entry := c.Nodes[r.Entry]
	var proc []int
	if r.Kind == "query" {
		if r.QueryAt >= 0 {
			proc = []int{r.QueryAt}
		}
	} else {
		proc = r.Stored
	}
	ok2xx := r.Status >= 200 && r.Status < 300

	// hops
	if len(r.Hops) > 2 {
		add(sigTwoHops, nil)
	}
	if len(r.Hops) >= 2 {
		h := r.Hops[1]
		if h.FwdBy != ids[r.Entry] {
			add(sigNoMarker, nil)
		}
		vr := c.viewRole(r.Entry, h.Node)
		if h.Node == r.Entry || c.Nodes[h.Node].Health == "unhealthy" || !(vr == "writer" || (r.Kind == "query" && vr == "reader")) {
			add(sigWrongTarget, nil)
		}
		if r.Variant == "xfwd" || r.Variant == "both" {
			// the same header arriving with the client's value = not stripped / not re-established
			got := [][2]string{{"X-Forwarded-For", h.XFF}, {"X-Forwarded-Host", h.XFHost}, {"X-Real-IP", h.XRealIP},
				{"X-Arc-Original-Host", h.OrigHost}, {"Forwarded", h.Fwd}}
			for _, nv := range got {
				if strings.Contains(nv[1], spoof[nv[0]]) {
					add(sigHeaderLeak, map[string]any{"header": nv[0]})
					break
				}
			}
		}
	}
	// processors
	if len(proc) > 1 {
		add(sigTwoProc, nil)
	}
	for _, p := range proc {
		if p >= len(c.Nodes) {
			add(sigWrongTarget, map[string]any{"why": "processed by a node outside the configured cluster"})
			continue
		}
		if !capable(c.Nodes[p], r.Kind) {
			add(sigIncapable, map[string]any{"processor": p, "processor_role": c.Nodes[p].Role})
		}
	}
	if ok2xx && len(proc) == 0 {
		add(sigPhantom, nil)
	}
	if !ok2xx && len(proc) > 0 {
		add(sigErrProcessed, nil)
	}
	// capable entry serves locally, whatever the client headers say
	if capable(entry, r.Kind) {
		if !(len(proc) == 1 && proc[0] == r.Entry && len(r.Hops) == 1 && ok2xx) {
			add(sigNotLocal, nil)
		}
		return out
	}
	// incapable entry: must be served by a peer when one is known, running and capable
	cand, clean := candidates(c, r.Entry, r.Kind)
	marker := r.Variant == "marker" || r.Variant == "both"
	if len(cand) > 0 && clean && !marker {
		served := len(proc) == 1 && ok2xx && len(r.Hops) == 2
		if served {
			in := false
			for _, j := range cand {
				in = in || j == proc[0]
			}
			served = in
		}
		if !served {
			if r.Variant != "none" && baseline != nil && baseline.Status >= 200 && baseline.Status < 300 {
				add(sigSpoofChanged, map[string]any{"same_request_without_client_headers": baseline})
			} else {
				add(sigNotServed, map[string]any{"candidates": cand})
			}
		}
	}
	return out
}

func checkC30(c *vlib.Ctx) {
	c.Rule("case = cluster configuration (1-4 real nodes on loopback TCP; per node: role standalone / writer primary|standby|unset / reader / compactor with a real cluster.Router+Registry, or no router at all; " +
		"health healthy / marked unhealthy in the peers' registries / registered healthy but not listening; optionally one stale registry entry: one node lists one peer under a role the peer does not have) " +
		"x entry node (every listening node) x request kind (line protocol write, MessagePack write, SQL query) x client headers (none, forged X-Arc-Forwarded-By carrying a real peer id, forged X-Forwarded-For/Host/X-Real-IP/X-Arc-Original-Host/Forwarded, both). " +
		"All 1- and 2-node configurations are enumerated; 3- and 4-node ones are enumerated (3, thorough) or sampled. Non-trivial = configuration in which some request had to leave the receiving node (receiving node's role cannot serve it); distinct by configuration.")
	c.Assume("Which roles can serve which request kind is taken from arc's own cluster.NodeRole.GetCapabilities (called, not re-implemented); a node without router is not cluster-aware and counts as capable of everything (it is what cmd/arc builds when clustering is off).")
	c.Assume("'Processed by' is observed, not inferred: a written row's unique rid is found in exactly the storage roots that hold it after flush (arrow-go reader); a query's answer carries the id stored in the answering node's own copy of rt.ident. Hops are what a recording middleware in front of every node saw (request id header set by the harness).")
	c.Assume("Registries are static during a configuration (no health checker, no Raft, no heartbeats); the roles/health a node sees are what the harness registered. A request must be SERVED only when every peer the receiving node's registry offers for that kind is really running and really capable; otherwise a deterministic error is accepted. Standalone-role peers are never forwarding targets in arc (documented: standalone = single-node mode) and are not demanded as such.")

	if c.Replay != "" {
		var d struct {
			Config clusterCfg `json:"config"`
		}
		if err := vlib.LoadReplay(c.Replay, &d); err != nil {
			panic(err)
		}
		d.Config.ID = 0
		runConfigs(c, []clusterCfg{d.Config}, 1)
		c.Floor(0)
		return
	}

	r := c.Rand("configs")
	var cfgs []clusterCfg
	addCfg := func(cf clusterCfg, pSkew int) {
		cfgs = append(cfgs, cf)
		cfgs = append(cfgs, loopSkews(cf)...)
		if len(cf.Nodes) > 1 && r.IntN(100) < pSkew {
			cfgs = append(cfgs, withSkew(r, cf))
		}
	}
	for _, cf := range allConfigs(1) {
		addCfg(cf, 0)
	}
	for _, cf := range allConfigs(2) {
		addCfg(cf, c.N(30, 100))
	}
	if c.Quick() {
		for i := 0; i < 450; i++ {
			addCfg(randomConfig(r, 3), 50)
		}
	} else {
		for _, cf := range allConfigs(3) {
			addCfg(cf, 25)
		}
	}
	for i := 0; i < c.N(450, 4000); i++ {
		addCfg(randomConfig(r, 4), 50)
	}
	for i := range cfgs {
		cfgs[i].ID = i
	}
	runConfigs(c, cfgs, 8)
	c.Floor(len(cfgs) / 4)
}

func runConfigs(c *vlib.Ctx, cfgs []clusterCfg, workers int) {
	type result struct {
		recs    []reqRec
		ids     []string
		inconcl string
	}
	if workers > len(cfgs) {
		workers = len(cfgs)
	}
	results := make([]result, workers)
	var wg sync.WaitGroup
	for w := 0; w < workers; w++ {
		wg.Add(1)
		go func(w int) {
			defer wg.Done()
			wd, err := newWorld(w)
			if err != nil {
				results[w].inconcl = "building nodes: " + err.Error()
				return
			}
			defer wd.close()
			for _, n := range wd.nodes {
				results[w].ids = append(results[w].ids, n.id)
			}
			var recs []reqRec
			for ci := w; ci < len(cfgs); ci += workers {
				cf := cfgs[ci]
				wd.apply(cf)
				sub := int64(0)
				for e, ns := range cf.Nodes {
					if ns.Health == "down" {
						continue // nothing listens there for clients either
					}
					for _, k := range reqKinds {
						for _, v := range hdrVariants {
							sub++
							recs = append(recs, wd.send(cf, e, k, v, int64(cf.ID)*1000+sub))
						}
					}
				}
			}
			wd.apply(clusterCfg{}) // routers off
			st, err := wd.stored()
			if err != nil {
				results[w].inconcl = err.Error()
				return
			}
			wd.mu.Lock()
			for i := range recs {
				recs[i].Hops = wd.hops[recs[i].Req]
				sort.Slice(recs[i].Hops, func(a, b int) bool { return recs[i].Hops[a].Seq < recs[i].Hops[b].Seq })
				if recs[i].Kind != "query" {
					recs[i].Stored = st[recs[i].Num]
				}
			}
			wd.mu.Unlock()
			results[w].recs = recs
		}(w)
	}
	wg.Wait()

	// verdicts in configuration order (stable replay choice)
	var all []reqRec
	ids := []string{}
	for _, r := range results {
		if r.inconcl != "" {
			c.Inconclusive(r.inconcl)
			continue
		}
		all = append(all, r.recs...)
		ids = r.ids
	}
	sort.Slice(all, func(i, j int) bool { return all[i].Num < all[j].Num })
	base := map[string]*reqRec{}
	for i := range all {
		if all[i].Variant == "none" {
			base[fmt.Sprintf("%d/%d/%s", all[i].Cfg, all[i].Entry, all[i].Kind)] = &all[i]
		}
	}
	sampled := map[string]bool{}
	for i := range all {
		r := all[i]
		cf := cfgs[r.Cfg]
		c.Eval()
		if len(r.Hops) == 0 || r.Hops[0].Node != r.Entry {
			c.Inconclusive(fmt.Sprintf("request %s not seen by the entry node's middleware (status %d)", r.Req, r.Status))
			continue
		}
		// The router retries a forward after a transport error or timeout (at-least-once);
		// on an overloaded machine that is timing, not routing: the same peer sees the same
		// forwarded request twice. Never a verdict.
		if len(r.Hops) > 2 && r.Hops[1].Node == r.Hops[2].Node && r.Hops[1].FwdBy == r.Hops[2].FwdBy {
			c.Inconclusive(fmt.Sprintf("request %s: forwarder retried after a timeout (peer saw it %d times)", r.Req, len(r.Hops)-1))
			continue
		}
		c.Count("requests_"+r.Kind, 1)
		c.Count("hops_recorded", int64(len(r.Hops)))
		ec := capable(cf.Nodes[r.Entry], r.Kind)
		nproc := len(r.Stored)
		if r.Kind == "query" && r.QueryAt >= 0 {
			nproc = 1
		}
		switch {
		case ec:
			c.Count("entry_capable", 1)
		default:
			c.Count("entry_not_capable", 1)
			c.Nontrivial(cf.key())
			switch {
			case nproc == 1 && len(r.Hops) == 2:
				c.Count("served_by_peer_after_one_forward", 1)
				k := "peer/" + r.Kind + "/" + r.Variant
				if !sampled[k] {
					sampled[k] = true
					c.Sample(map[string]any{"config": cf.key(), "entry": r.Entry, "kind": r.Kind, "client_headers": r.Variant, "status": r.Status, "hops": r.Hops, "stored_on": r.Stored, "query_answered_by": r.QueryAt})
				}
			case r.Status == 508:
				c.Count("refused_508_already_forwarded", 1)
				if len(r.Hops) == 2 {
					c.Count("refused_508_at_second_node", 1)
				}
			case r.Status == 503:
				c.Count("refused_503_no_target", 1)
			case r.Status == 502:
				c.Count("refused_502_target_unreachable", 1)
			default:
				c.Count(fmt.Sprintf("other_status_%d", r.Status), 1)
			}
		}
		if r.Variant != "none" {
			c.Count("requests_with_forged_client_headers", 1)
		}
		if len(r.Hops) == 2 && (r.Variant == "xfwd" || r.Variant == "both") {
			c.Count("forwarded_hops_inspected_for_client_header_values", 1)
			// observation only (not part of C30's statement): Fiber's default config trusts
			// X-Forwarded-Host when BuildHTTPRequest asks for c.BaseURL(), and the router
			// copies that host into X-Arc-Original-Host
			if strings.Contains(r.Hops[1].OrigHost, spoof["X-Forwarded-Host"]) {
				c.Count("observed_client_x_forwarded_host_value_as_x_arc_original_host_at_peer", 1)
			}
		}
		if len(cf.Skews) > 0 {
			c.Count("requests_under_stale_registry_view", 1)
		}
		for _, v := range judge(cf, r, ids, base[fmt.Sprintf("%d/%d/%s", r.Cfg, r.Entry, r.Kind)]) {
			c.Violation(v.Sig, v.Detail)
		}
	}
	c.Count("configurations", int64(len(cfgs)))
}
