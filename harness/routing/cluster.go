package main

import (
	"bytes"
	"context"
	"encoding/json"
	"fmt"
	"io"
	"net"
	"net/http"
	"os"
	"path/filepath"
	"strings"
	"sync"
	"sync/atomic"
	"time"

	"github.com/Basekick-Labs/msgpack/v6"
	"github.com/gofiber/fiber/v2"
	"github.com/rs/zerolog"

	"github.com/basekick-labs/arc/internal/api"
	"github.com/basekick-labs/arc/internal/cluster"
	"github.com/basekick-labs/arc/internal/cluster/security"
	"github.com/basekick-labs/arc/internal/config"
	"github.com/basekick-labs/arc/internal/database"
	"github.com/basekick-labs/arc/internal/ingest"
	"github.com/basekick-labs/arc/internal/storage"
	"github.com/basekick-labs/arc/internal/zzverif/vlib"
	"github.com/basekick-labs/arc/internal/zzverif/vpq"
)

const reqHeader = "X-Verif-Req" // request id set by the harness; not a forwarding header, so arc copies it onto a forward

// hopRec is what the recording middleware in front of a node saw for one request.
type hopRec struct {
	Seq      int64  `json:"seq"`
	Req      string `json:"req"`
	Node     int    `json:"node"`
	Path     string `json:"path"`
	FwdBy    string `json:"x_arc_forwarded_by"`
	XFF      string `json:"x_forwarded_for"`
	XFHost   string `json:"x_forwarded_host"`
	XRealIP  string `json:"x_real_ip"`
	OrigHost string `json:"x_arc_original_host"`
	Fwd      string `json:"forwarded"`
	Status   int    `json:"status"`
}

// physNode is one real arc node: own storage root, ingest buffer, DuckDB, Fiber app
// on a loopback TCP port, wired like cmd/arc/main.go wires the handlers (copied from
// vfix, plus the recording middleware and SetRouter).
type physNode struct {
	idx     int
	id      string
	dir     string
	root    string
	backend *storage.LocalBackend
	buffer  *ingest.ArrowBuffer
	db      *database.DuckDB
	app     *fiber.App
	lp      *api.LineProtocolHandler
	mp      *api.MsgPackHandler
	q       *api.QueryHandler
	ln      net.Listener
	addr    string
}

// world is one worker's set of four physical nodes; roles live only in the routers
// and registries, which are rebuilt for every configuration.
type world struct {
	nodes     []*physNode
	deadAddr  string // a loopback port nothing listens on
	transport *http.Transport
	client    *http.Client
	seq       atomic.Int64
	mu        sync.Mutex
	hops      map[string][]hopRec
	entered   map[string]int // arrivals per request id (counted on entry: nested hops have not returned yet)
}

func newWorld(w int) (*world, error) {
	wd := &world{hops: map[string][]hopRec{}, entered: map[string]int{}}
	wd.transport = security.NewClusterHTTPTransport(nil) // arc's own constructor, shared by this worker's routers
	wd.client = &http.Client{Timeout: 60 * time.Second, Transport: &http.Transport{MaxIdleConnsPerHost: 8}}
	for i := 0; i < 4; i++ {
		n, err := wd.newNode(w, i)
		if err != nil {
			wd.close()
			return nil, err
		}
		wd.nodes = append(wd.nodes, n)
	}
	ln, err := net.Listen("tcp", "127.0.0.1:0")
	if err != nil {
		wd.close()
		return nil, err
	}
	wd.deadAddr = ln.Addr().String()
	ln.Close()
	// distinct data per node: the answer to a query reveals the node that executed it
	for _, n := range wd.nodes {
		code, body := wd.post(n, "/write?db=rt&precision=us", nil, []byte(fmt.Sprintf("ident nid=%di 1767225600000000\n", n.idx)), "")
		if code != 204 {
			wd.close()
			return nil, fmt.Errorf("seeding node %d: %d %s", n.idx, code, body)
		}
		if !quiesce(n) {
			wd.close()
			return nil, fmt.Errorf("seeding node %d: flush watchdog", n.idx)
		}
	}
	return wd, nil
}

func (wd *world) newNode(w, i int) (*physNode, error) {
	dir := vlib.TempDir(fmt.Sprintf("rt%d-%d", w, i))
	n := &physNode{idx: i, id: fmt.Sprintf("node-%d", i), dir: dir, root: filepath.Join(dir, "data")}
	lg := zerolog.Nop()
	be, err := storage.NewLocalBackend(n.root, lg)
	if err != nil {
		return nil, err
	}
	n.backend = be
	n.buffer = ingest.NewArrowBuffer(&config.IngestConfig{
		MaxBufferSize: 5000, MaxBufferAgeMS: 2000, Compression: "snappy", WriteStatistics: true,
		DataPageVersion: "2.0", FlushWorkers: 2, FlushQueueSize: 1000, ShardCount: 4,
	}, be, lg)
	tmp := filepath.Join(dir, "duckdb-tmp")
	upl := filepath.Join(tmp, "uploads")
	if err := os.MkdirAll(upl, 0o700); err != nil {
		return nil, err
	}
	absRoot, _ := filepath.Abs(n.root)
	n.db, err = database.New(&database.Config{
		MaxConnections: 2, MemoryLimit: "512MB", ThreadCount: 1, TempDirectory: tmp,
		LocalStorageRoot: absRoot, UploadDir: filepath.ToSlash(upl), PreserveInsertionOrder: true,
	}, lg)
	if err != nil {
		return nil, fmt.Errorf("database.New: %w", err)
	}
	n.app = fiber.New(fiber.Config{BodyLimit: 16 << 20, DisableStartupMessage: true})
	n.app.Use(func(c *fiber.Ctx) error {
		if c.Get(reqHeader) == "" {
			return c.Next()
		}
		// fiber hands out strings backed by the request buffer: copy before keeping
		g := func(k string) string { return strings.Clone(c.Get(k)) }
		req := g(reqHeader)
		rec := hopRec{Seq: wd.seq.Add(1), Req: req, Node: n.idx, Path: strings.Clone(c.Path()),
			FwdBy: g(api.ForwardedByHeader), XFF: g("X-Forwarded-For"), XFHost: g("X-Forwarded-Host"),
			XRealIP: g("X-Real-IP"), OrigHost: g("X-Arc-Original-Host"), Fwd: g("Forwarded")}
		wd.mu.Lock()
		wd.entered[req]++
		seen := wd.entered[req]
		wd.mu.Unlock()
		var err error
		if seen > 6 {
			// safety valve: a request bouncing between nodes is already a recorded
			// violation (more than two hops); cut the loop instead of waiting for timeouts
			err = c.Status(599).SendString("verif: forwarding loop cut")
		} else {
			err = c.Next()
		}
		rec.Status = c.Response().StatusCode()
		wd.mu.Lock()
		wd.hops[req] = append(wd.hops[req], rec)
		wd.mu.Unlock()
		return err
	})
	n.lp = api.NewLineProtocolHandler(n.buffer, lg)
	n.mp = api.NewMsgPackHandler(lg, n.buffer, 16<<20)
	n.q = api.NewQueryHandler(n.db, be, lg, 0, 0)
	n.lp.RegisterRoutes(n.app)
	n.mp.RegisterRoutes(n.app)
	n.q.RegisterRoutes(n.app)
	n.ln, err = net.Listen("tcp", "127.0.0.1:0")
	if err != nil {
		return nil, err
	}
	n.addr = n.ln.Addr().String()
	go func() { _ = n.app.Listener(n.ln) }()
	return n, nil
}

func (wd *world) close() {
	for _, n := range wd.nodes {
		if n.app != nil {
			_ = n.app.ShutdownWithTimeout(2 * time.Second)
		}
		if n.buffer != nil {
			n.buffer.Close()
		}
		if n.db != nil {
			n.db.Close()
		}
		os.RemoveAll(n.dir)
	}
	wd.transport.CloseIdleConnections()
}

// quiesce flushes a node's buffers and waits (bounded) until everything the buffer
// accepted has been written.
func quiesce(n *physNode) bool {
	_ = n.buffer.FlushAll(context.Background())
	for w := 0; w < 12000; w++ {
		st := n.buffer.GetStats()
		if st["total_records_written"].(int64) >= st["total_records_buffered"].(int64) &&
			st["flush_queue_depth"].(int64) == 0 && st["active_buffers"].(int) == 0 {
			return true
		}
		if w%200 == 199 {
			_ = n.buffer.FlushAll(context.Background())
		}
		time.Sleep(5 * time.Millisecond)
	}
	return false
}

// apply installs the configuration: one Registry + Router per router-carrying node,
// populated with that node's role and its (possibly stale) view of the peers.
func (wd *world) apply(c clusterCfg) {
	k := len(c.Nodes)
	for i, n := range wd.nodes {
		if i >= k || !c.Nodes[i].Router {
			n.lp.SetRouter(nil)
			n.mp.SetRouter(nil)
			n.q.SetRouter(nil)
			continue
		}
		mk := func(j int, role string) *cluster.Node {
			s := c.Nodes[j]
			nd := cluster.NewNode(wd.nodes[j].id, wd.nodes[j].id, cluster.NodeRole(role), "verif")
			addr := wd.nodes[j].addr
			if s.Health == "down" && j != i {
				addr = wd.deadAddr
			}
			nd.SetAddresses("", addr)
			if role == "writer" {
				nd.SetWriterState(cluster.WriterState(s.WState))
			}
			if s.Health == "unhealthy" && j != i {
				nd.UpdateState(cluster.StateUnhealthy)
			} else {
				nd.UpdateState(cluster.StateHealthy)
			}
			return nd
		}
		local := mk(i, c.Nodes[i].Role)
		reg := cluster.NewRegistry(&cluster.RegistryConfig{LocalNode: local, Logger: zerolog.Nop()})
		for j := 0; j < k; j++ {
			if j == i {
				continue
			}
			_ = reg.Register(mk(j, c.viewRole(i, j)))
		}
		r := cluster.NewRouter(&cluster.RouterConfig{Timeout: 20 * time.Second, Retries: 1, Registry: reg, LocalNode: local,
			Logger: zerolog.Nop(), Transport: wd.transport})
		n.lp.SetRouter(r)
		n.mp.SetRouter(r)
		n.q.SetRouter(r)
	}
}

func (wd *world) post(n *physNode, path string, hdr map[string]string, body []byte, req string) (int, []byte) {
	r, _ := http.NewRequest("POST", "http://"+n.addr+path, bytes.NewReader(body))
	for k, v := range hdr {
		r.Header.Set(k, v)
	}
	if req != "" {
		r.Header.Set(reqHeader, req)
	}
	resp, err := wd.client.Do(r)
	if err != nil {
		return -1, []byte(err.Error())
	}
	defer resp.Body.Close()
	b, _ := io.ReadAll(resp.Body)
	return resp.StatusCode, b
}

// reqRec is one client request and everything observed about it.
type reqRec struct {
	Req     string   `json:"req"`
	Num     int64    `json:"num"`
	Cfg     int      `json:"config"`
	Entry   int      `json:"entry_node"`
	Kind    string   `json:"kind"`
	Variant string   `json:"client_headers"`
	Status  int      `json:"status"`
	Body    string   `json:"body,omitempty"`
	QueryAt int      `json:"query_answered_by"` // node id in the answer, -1 = none
	Hops    []hopRec `json:"hops"`
	Stored  []int    `json:"stored_on_nodes"`
}

func clientHeaders(variant string, c clusterCfg, entry int, wd *world) map[string]string {
	h := map[string]string{}
	if variant == "marker" || variant == "both" {
		// the id of a real peer when there is one: the most plausible forgery
		h[api.ForwardedByHeader] = "evil-node"
		if len(c.Nodes) > 1 {
			h[api.ForwardedByHeader] = wd.nodes[(entry+1)%len(c.Nodes)].id
		}
	}
	if variant == "xfwd" || variant == "both" {
		for name, v := range spoof {
			h[name] = v
		}
	}
	return h
}

// send issues one request of the given kind at the entry node.
func (wd *world) send(c clusterCfg, entry int, kind, variant string, num int64) reqRec {
	rr := reqRec{Req: fmt.Sprintf("r%d", num), Num: num, Cfg: c.ID, Entry: entry, Kind: kind, Variant: variant, QueryAt: -1}
	h := clientHeaders(variant, c, entry, wd)
	n := wd.nodes[entry]
	var body []byte
	switch kind {
	case "lp":
		rr.Status, body = wd.post(n, "/write?db=rt&precision=us", h, []byte(fmt.Sprintf("w rid=%di %d\n", num, 1767225600000000+num)), rr.Req)
	case "msgpack":
		h["x-arc-database"] = "rt"
		h["Content-Type"] = "application/msgpack"
		p, _ := msgpack.Marshal(map[string]any{"m": "w", "columns": map[string]any{
			"time": []int64{1767225600000000 + num}, "rid": []int64{num}}})
		rr.Status, body = wd.post(n, "/api/v1/write/msgpack", h, p, rr.Req)
	case "query":
		h["Content-Type"] = "application/json"
		p, _ := json.Marshal(map[string]string{"sql": fmt.Sprintf("SELECT nid, %d AS q FROM rt.ident", num)})
		rr.Status, body = wd.post(n, "/api/v1/query", h, p, rr.Req)
		var ans struct {
			Success bool    `json:"success"`
			Data    [][]any `json:"data"`
		}
		if rr.Status == 200 && json.Unmarshal(body, &ans) == nil && ans.Success && len(ans.Data) == 1 && len(ans.Data[0]) == 2 {
			if q, ok := ans.Data[0][1].(float64); ok && int64(q) == num {
				if nid, ok := ans.Data[0][0].(float64); ok {
					rr.QueryAt = int(nid)
				}
			}
		}
	}
	if rr.Status >= 300 || rr.Status < 0 {
		if len(body) > 200 {
			body = body[:200]
		}
		rr.Body = string(body)
	}
	return rr
}

// stored reads every node's storage back (after quiesce) and returns rid -> nodes.
func (wd *world) stored() (map[int64][]int, error) {
	out := map[int64][]int{}
	for _, n := range wd.nodes {
		if !quiesce(n) {
			return nil, fmt.Errorf("flush watchdog on node %d", n.idx)
		}
		files, err := vpq.ReadTree(filepath.Join(n.root, "rt", "w"))
		if err != nil {
			return nil, err
		}
		for _, f := range files {
			for _, r := range f.Rows {
				if rid, ok := r["rid"].(int64); ok {
					out[rid] = append(out[rid], n.idx)
				}
			}
		}
	}
	return out, nil
}
