// Harness for cluster request routing: C30 (served by a capable node after at most
// one forward).
package main

import (
	"flag"
	"fmt"
	"os"

	"github.com/basekick-labs/arc/internal/zzverif/vlib"
)

func main() {
	prop := flag.String("prop", "", "property id")
	flag.String("replay", "", "replay file")
	flag.Parse()
	switch *prop {
	case "C30":
		vlib.Main("C30", "exploration", checkC30)
	default:
		fmt.Println("unknown property", *prop)
		os.Exit(2)
	}
}
