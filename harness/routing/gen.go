package main

import (
	"fmt"
	"math/rand/v2"
	"strings"
)

// nodeSpec is one node of a generated cluster configuration.
type nodeSpec struct {
	Role   string `json:"role"`         // standalone | writer | reader | compactor (cluster.NodeRole)
	WState string `json:"writer_state"` // primary | standby | "" (writers only)
	Router bool   `json:"router"`       // false: handlers have no router (node is not cluster-aware)
	Health string `json:"health"`       // healthy | unhealthy (peers' registries say so) | down (registries say healthy, nothing listens)
}

// skew makes node From's registry list node To with another role than To really has
// (a stale view); it is what makes a forwarded request arrive at a node that cannot
// serve it.
type skew struct {
	From int    `json:"from"`
	To   int    `json:"to"`
	Role string `json:"role"`
}

type clusterCfg struct {
	ID    int        `json:"id"`
	Nodes []nodeSpec `json:"nodes"`
	Skews []skew     `json:"stale_views,omitempty"`
}

// viewRole is the role node `from` has registered for node `to`.
func (c clusterCfg) viewRole(from, to int) string {
	for _, s := range c.Skews {
		if s.From == from && s.To == to {
			return s.Role
		}
	}
	return c.Nodes[to].Role
}

func (c clusterCfg) key() string {
	var b strings.Builder
	for _, n := range c.Nodes {
		r := "R"
		if !n.Router {
			r = "-"
		}
		fmt.Fprintf(&b, "%s/%s/%s/%s;", n.Role, n.WState, r, n.Health)
	}
	for _, s := range c.Skews {
		fmt.Fprintf(&b, "view %d->%d=%s;", s.From, s.To, s.Role)
	}
	return b.String()
}

// kinds: every role/writer-state with a router, plus two router-less nodes (their role
// only exists in the peers' registries).
var kinds = []nodeSpec{
	{Role: "standalone", Router: true},
	{Role: "writer", WState: "primary", Router: true},
	{Role: "writer", WState: "standby", Router: true},
	{Role: "writer", WState: "", Router: true},
	{Role: "reader", Router: true},
	{Role: "compactor", Router: true},
	{Role: "writer", WState: "primary", Router: false},
	{Role: "reader", Router: false},
}

var healths = []string{"healthy", "unhealthy", "down"}

var allRoles = []string{"standalone", "writer", "reader", "compactor"}

func nodeVariants() []nodeSpec {
	var out []nodeSpec
	for _, k := range kinds {
		for _, h := range healths {
			n := k
			n.Health = h
			out = append(out, n)
		}
	}
	return out
}

// allConfigs enumerates every configuration of the given size.
func allConfigs(size int) []clusterCfg {
	vs := nodeVariants()
	var out []clusterCfg
	idx := make([]int, size)
	for {
		c := clusterCfg{Nodes: make([]nodeSpec, size)}
		for i, v := range idx {
			c.Nodes[i] = vs[v]
		}
		out = append(out, c)
		i := size - 1
		for i >= 0 {
			idx[i]++
			if idx[i] < len(vs) {
				break
			}
			idx[i] = 0
			i--
		}
		if i < 0 {
			return out
		}
	}
}

func randomConfig(r *rand.Rand, size int) clusterCfg {
	vs := nodeVariants()
	c := clusterCfg{Nodes: make([]nodeSpec, size)}
	for i := range c.Nodes {
		c.Nodes[i] = vs[r.IntN(len(vs))]
	}
	return c
}

func withSkew(r *rand.Rand, c clusterCfg) clusterCfg {
	n := len(c.Nodes)
	from := r.IntN(n)
	to := (from + 1 + r.IntN(n-1)) % n
	role := allRoles[r.IntN(len(allRoles))]
	for role == c.Nodes[to].Role {
		role = allRoles[r.IntN(len(allRoles))]
	}
	out := clusterCfg{Nodes: append([]nodeSpec(nil), c.Nodes...), Skews: []skew{{From: from, To: to, Role: role}}}
	return out
}

// loopSkews returns, for every pair of listening router-carrying nodes that both cannot
// ingest (reader / compactor), the configuration in which each lists the other as a
// writer: a write entering at one of them is forwarded to a node that cannot serve it
// and that itself knows a "writer" to forward to. Only the forwarded-by marker keeps
// such a request from bouncing. Compactor pairs do the same to queries.
func loopSkews(c clusterCfg) []clusterCfg {
	var out []clusterCfg
	ok := func(n nodeSpec) bool {
		return n.Router && n.Health == "healthy" && (n.Role == "reader" || n.Role == "compactor")
	}
	for a := 0; a < len(c.Nodes); a++ {
		for b := a + 1; b < len(c.Nodes); b++ {
			if ok(c.Nodes[a]) && ok(c.Nodes[b]) {
				out = append(out, clusterCfg{Nodes: append([]nodeSpec(nil), c.Nodes...),
					Skews: []skew{{From: a, To: b, Role: "writer"}, {From: b, To: a, Role: "writer"}}})
			}
		}
	}
	return out
}

// request kinds and client header variants
var reqKinds = []string{"lp", "msgpack", "query"}

var hdrVariants = []string{"none", "marker", "xfwd", "both"}

// one distinct forged value per client header, so that a value seen at the peer tells
// which client header it came from
var spoof = map[string]string{
	"X-Forwarded-For":     "203.0.113.7",
	"X-Forwarded-Host":    "evil-xfh.example",
	"X-Real-IP":           "203.0.113.8",
	"X-Arc-Original-Host": "evil-orig.example",
	"Forwarded":           "for=203.0.113.9;host=evil-fwd.example",
}
