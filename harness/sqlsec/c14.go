package main

// C14: a query can only read data the caller is authorized to read.
//
// Runtime monitor: every request of an adversarial workload is sent, as a caller
// allowed to read only database db1, through the real query handlers and the real
// sandboxed DuckDB; a kernel-level inotify monitor reports which stored files were
// opened or read while the request ran, and a recording RBAC checker reports which
// (database, measurement) pairs the handler asked about and was granted.

import (
	"encoding/json"
	"fmt"
	"os"
	"sort"
	"strings"
	"sync"
	"time"

	"github.com/basekick-labs/arc/internal/zzverif/vfix"
	"github.com/basekick-labs/arc/internal/zzverif/vlib"
)

// tcase is one request of the workload.
type tcase struct {
	Req  request
	Key  string // lexical shape key
	Spec *spec  // statement cases (minimisable)
	// endpoint cases: reduced variants to try (first that still refutes wins) and the signature
	Alt []request
	Sig string
}

type verdict struct {
	o        outcome
	findings []finding
}

type c14Detail struct {
	Request   request   `json:"request"`
	Spec      *spec     `json:"spec,omitempty"`
	Status    int       `json:"status"`
	Asked     []ask     `json:"rbac_questions"`
	Findings  []finding `json:"findings"`
	Minimal   request   `json:"minimal_request"`
	MinSpec   *spec     `json:"minimal_spec,omitempty"`
	MinStatus int       `json:"minimal_status"`
	MinFind   []finding `json:"minimal_findings"`
	Note      string    `json:"note"`
}

func fileFunctions(ref *vfix.Ref) ([]string, error) {
	_, rows, err := ref.Rows(`SELECT DISTINCT function_name FROM duckdb_functions()
		WHERE function_type IN ('table','table_macro') AND len(parameter_types) > 0
		  AND parameter_types[1]::VARCHAR IN ('VARCHAR','VARCHAR[]') ORDER BY 1`)
	if err != nil {
		return nil, err
	}
	var out []string
	for _, r := range rows {
		name := strings.TrimPrefix(r[0], "S:")
		// functions that change engine state rather than read a path (they would
		// poison the shared fixture: enable_profiling() makes DuckDB print a profile
		// for every later query) are not file-reading spellings
		if strings.HasPrefix(name, "enable_") || strings.HasPrefix(name, "disable_") || strings.Contains(name, "checkpoint") || strings.HasPrefix(name, "truncate_") {
			continue
		}
		out = append(out, name)
	}
	return out, nil
}

// ---------- other endpoints ----------

func endpointCases(g *genCtx, n int) []tcase {
	r := g.rng
	var out []tcase
	dbs := []string{"db1", "db2", "secret", "default", "DB2", "db2/", "..", "*", "db%", ""}
	// measurement listing
	for _, d := range dbs {
		p := "/api/v1/measurements"
		if d != "" {
			p += "?database=" + urlq(d)
		}
		out = append(out, tcase{Req: request{Method: "GET", Path: p}, Key: "ep:measurements|" + d,
			Sig: "measurements of a denied database listed by /api/v1/measurements"})
	}
	// SHOW forms
	shows := []string{"SHOW DATABASES", "show databases;", "SHOW TABLES", "SHOW MEASUREMENTS", "SHOW TABLES FROM %s", "show measurements from %s",
		`SHOW TABLES FROM "%s"`, "SHOW TABLES FROM '%s'", "SHOW TABLES FROM `%s`", "SHOW  TABLES\nFROM\t%s ;", "/* c */ SHOW TABLES FROM %s", "SHOW TABLES FROM %s -- c",
		"SHOW TABLES FROM %s /* from db1 */", "SHOW TABLES -- FROM db1\n FROM %s", "SHOW /* ' */ TABLES FROM %s", "SHOW TABLES FROM db1 -- '\n, %s", "SHOW ALL TABLES",
		"SHOW TABLES FROM db1; SHOW TABLES FROM %s", "SHOW TABLES FROM %s", "SHOW TABLES FROM %s\r", "SHOW TABLES FROM 'a\\' -- ' FROM %s"}
	for _, f := range shows {
		for _, d := range []string{"db1", "db2", "secret"} {
			for _, ep := range []string{"query", "estimate", "arrow", "msgpack"} {
				for _, h := range []string{"", "db1", "db2"} {
					if (ep != "query" || h != "") && r.IntN(4) != 0 {
						continue
					}
					sql := f
					if strings.Contains(f, "%s") {
						sql = fmt.Sprintf(f, d)
					} else if d != "db1" {
						continue
					}
					q := request{Method: "POST", Path: endpointPath(ep), SQL: sql}
					if h != "" {
						q.Header = map[string]string{"x-arc-database": h}
					}
					out = append(out, tcase{Req: q, Key: "ep:show|" + f + "|" + ep + "|" + h,
						Sig: "measurements of a denied database listed by a SHOW statement"})
				}
			}
		}
	}
	// GET /api/v1/query/:measurement with adversarial parameters
	wheres := []string{"", "value > 0", "host = 'alpha'", "value > (SELECT min(value) FROM %S)", "EXISTS (SELECT 1 FROM %S)", "region IN (SELECT region FROM %S)",
		"value > 0 OR EXISTS (SELECT 1 FROM %S WHERE 'x'='x')", "note <> (SELECT max(note) FROM %S)"}
	for i := 0; i < n; i++ {
		m := pick(r, []string{"cpu", "mem", "secret", "keys", "cpu;x", `"cpu"`})
		d := pick(r, []string{"db1", "db1", "db1", "db2", "secret", "default", ""})
		w := pick(r, wheres)
		var s src
		if strings.Contains(w, "%S") {
			s = g.genSrc("")
			for s.Kind == "tref" && (s.Style == "bare" || s.Style == "bare-dq" || s.Style == "bare-bt") {
				s = g.genSrc("")
			}
			if s.DB == allowedDB {
				s.DB, s.M = "db2", "secret"
			}
			st, _ := renderSrc(s, "")
			w = strings.ReplaceAll(w, "%S", st)
		}
		p := "/api/v1/query/" + urlq(m) + "?x=1"
		if d != "" {
			p += "&database=" + urlq(d)
		}
		if w != "" {
			p += "&where=" + urlq(w)
		}
		if r.IntN(3) == 0 {
			p += "&order_by=" + urlq(pick(r, []string{"time ASC", "value DESC, time", "time; --", "(SELECT 1)"}))
		}
		if r.IntN(3) == 0 {
			p += "&limit=" + pick(r, []string{"5", "0", "1000000"})
		}
		tc := tcase{Req: request{Method: "GET", Path: p}, Key: "ep:measurement|" + m + "|" + d + "|" + w}
		if s.Kind != "" {
			via := "a table reference"
			if s.Kind != "tref" {
				via = srcClass(s)
			}
			tc.Sig = "denied file read via " + via + " in a subquery of the where parameter of /api/v1/query/:measurement (only the path's measurement is permission-checked)"
			plain := "/api/v1/query/cpu?database=db1&where=" + urlq("value > (SELECT min(value) FROM "+func() string { t, _ := renderSrc(s, ""); return t }()+")")
			tc.Alt = []request{{Method: "GET", Path: plain}}
		} else {
			tc.Sig = "denied data returned by /api/v1/query/:measurement"
		}
		out = append(out, tc)
	}
	return out
}

// ---------- minimisation ----------

type tester func(q request) ([]finding, outcome)

var plainSibling = map[string]string{"sq-bs": "sq", "sq-bsbs": "sq", "sq-dbl": "sq", "E-bsq": "E", "E-bsbs": "E", "E-lower-bsbs": "E",
	"dq-alias-bs": "dq-alias", "dtag-uni": "dtag", "dollar-q": "dollar"}

// minimise reduces a refuting statement spec; it returns the reduced spec and whether
// the endpoint / header turned out to be essential.
func minimise(sp spec, test tester) (spec, bool, bool, []finding, outcome) {
	cur := sp.clone()
	try := func(s spec) bool {
		if fs, _ := test(s.request()); len(fs) > 0 {
			cur = s
			return true
		}
		return false
	}
	// every reduction step is retried until a whole pass changes nothing (a step can
	// become possible only after another one, e.g. shape after the name quoting)
	for pass, changed := 0, true; changed && pass < 6; pass++ {
		changed = false
		step := func(ok bool, mut func(t *spec)) {
			if !ok {
				return
			}
			t := cur.clone()
			mut(&t)
			if try(t) {
				changed = true
			}
		}
		step(cur.EP != "query", func(t *spec) { t.EP = "query" })
		step(cur.Header != "" && !(cur.Src.Kind == "tref" && strings.HasPrefix(cur.Src.Style, "bare")), func(t *spec) { t.Header = "" })
		step(cur.Shape != "from", func(t *spec) { t.Shape = "from" })
		step(cur.Shape != "from" && cur.Shape != "table" && !isFromGroup(cur.Shape), func(t *spec) { t.Shape = "table" })
		for i := 0; i < len(cur.Decos); i++ {
			t := cur.clone()
			t.Decos = append(t.Decos[:i:i], cur.Decos[i+1:]...)
			if try(t) {
				changed = true
				i--
			}
		}
		for i := range cur.Decos {
			if cur.Decos[i].Kind == "lit" {
				step(cur.Decos[i].Arg2 != "a", func(t *spec) { t.Decos[i].Arg2 = "a" })
				step(cur.Decos[i].Arg != "sq", func(t *spec) { t.Decos[i].Arg = "sq" })
				if sib, ok := plainSibling[cur.Decos[i].Arg]; ok { // same quote kind without the special ending
					step(true, func(t *spec) { t.Decos[i].Arg = sib })
				}
			}
		}
		step(cur.Case != 0, func(t *spec) { t.Case = 0 })
		step(cur.Src.Kind != "tref" && cur.Src.Path != "abs-glob", func(t *spec) { t.Src.Path = "abs-glob" })
		step(cur.Src.Kind == "func" && cur.Src.FnQ != "plain", func(t *spec) { t.Src.FnQ = "plain" })
		step(cur.Src.Kind == "func" && cur.Src.Style != "str", func(t *spec) { t.Src.Style = "str" })
		step(cur.Src.Kind == "sqlstr" && cur.Src.Style != "scan", func(t *spec) { t.Src.Style = "scan" })
		step(cur.Src.Kind == "sqlstr" && cur.Src.Fn == "query-dollar", func(t *spec) { t.Src.Fn = "query" })
		step(cur.Src.Kind == "scan" && strings.HasSuffix(cur.Src.Style, "-nows"), func(t *spec) { t.Src.Style = strings.TrimSuffix(t.Src.Style, "-nows") })
		step(cur.Src.Kind == "scan" && cur.Src.Style == "e", func(t *spec) { t.Src.Style = "E" })
		step(cur.Src.Kind == "scan" && cur.Src.Style == "dtag", func(t *spec) { t.Src.Style = "dollar" })
		step(cur.Src.Alias, func(t *spec) { t.Src.Alias = false })
	}
	fs, o := test(cur.request())
	epEss := cur.EP != "query"
	hdrEss := cur.Header != ""
	return cur, epEss, hdrEss, fs, o
}

// ---------- the check ----------

func checkC14(c *vlib.Ctx) {
	c.Rule("requests = adversarial SQL grammar (statement shapes: SELECT / comma join / every JOIN kind / subqueries in FROM, WHERE and the select list / CTEs / set operations / FROM-first / TABLE, DESCRIBE, SUMMARIZE, SHOW, PIVOT heads) x source spellings (db.m in every identifier-quoting style, bare names with the x-arc-database header, every table function of the engine's catalog that takes a path, replacement scans in every string-quoting style, SQL text handed to query()/query_table()/json_execute_serialized_sql()) x lexical disguises (literals in every quoting style incl. backslash before the closing quote, quotes inside -- and /* */ comments, comment markers inside literals, placeholder look-alikes __STR_n__/__IDENT_n__/__FROM_MASK_n__ as text and in place of keywords, ASCII and Unicode whitespace, CR-terminated comments, case) x endpoint (query, msgpack, arrow, estimate) x database header; plus the measurement listing, GET query/:measurement and SHOW forms. A case is non-trivial when the statement was accepted and executed, denied by the permission check, or opened a stored file; distinct = distinct lexical shape.")
	c.Assume("the caller is authenticated by a middleware that sets the same token_info local the production auth middleware sets; the RBAC decision is a recording stub implementing 'read on database db1 only'")
	c.Assume("inotify reports opens and reads of files, not which bytes were read; directory listings are ignored; the storage tree is static while requests run")
	c.Assume("canary strings/numbers exist only in databases the caller may not read and in no request")

	if c.Replay != "" {
		replayC14(c)
		return
	}

	ref, err := vfix.NewRef()
	if err != nil {
		c.Inconclusive("reference engine: " + err.Error())
		return
	}
	fns, err := fileFunctions(ref)
	ref.Close()
	if err != nil || len(fns) < 10 {
		c.Inconclusive(fmt.Sprintf("table-function catalog: %v (%d)", err, len(fns)))
		return
	}
	c.Extra("path_taking_table_functions_from_engine_catalog", fns)

	g := &genCtx{rng: c.Rand("c14-gen"), fileFns: fns}
	var cases []tcase
	for _, sp := range seedSpecs() {
		s := sp
		cases = append(cases, tcase{Req: s.request(), Key: s.shapeKey(), Spec: &s})
	}
	for _, sp := range systematicSpecs(fns) {
		s := sp
		cases = append(cases, tcase{Req: s.request(), Key: s.shapeKey(), Spec: &s})
	}
	c.Count("systematic_statements", int64(len(cases)))
	n := c.N(6000, 400000)
	for i := 0; i < n; i++ {
		s := g.genSpec()
		cases = append(cases, tcase{Req: s.request(), Key: s.shapeKey(), Spec: &s})
	}
	ge := &genCtx{rng: c.Rand("c14-endpoints"), fileFns: fns}
	cases = append(cases, endpointCases(ge, c.N(400, 20000))...)

	const workers = 8
	rigs := make([]*rig, workers)
	rigErr := make([]error, workers)
	var wg sync.WaitGroup
	for w := range rigs {
		wg.Add(1)
		go func(w int) {
			defer wg.Done()
			r, err := newRig()
			if err != nil {
				rigErr[w] = err
				return
			}
			rigs[w] = r
			if err := r.selfTest(); err != nil {
				rigErr[w] = fmt.Errorf("self-test: %w", err)
			}
		}(w)
	}
	wg.Wait()
	defer func() {
		for _, r := range rigs {
			if r != nil {
				r.close()
			}
		}
	}()
	for _, err := range rigErr {
		if err == errQuiesce {
			c.Inconclusive("fixture: " + err.Error())
			return
		}
		if err != nil {
			panic("C14 fixture / monitor self-test failed: " + err.Error())
		}
	}
	c.Count("monitor_self_tests_passed", workers)
	t0 := time.Now()

	verdicts := make([]verdict, len(cases))
	for w := 0; w < workers; w++ {
		wg.Add(1)
		go func(w int) {
			defer wg.Done()
			r := rigs[w]
			prev := -1
			for i := w; i < len(cases); i += workers {
				o := r.run(cases[i].Req)
				if prev >= 0 {
					for k, v := range o.LatePrev {
						verdicts[prev].o.Opened[k] |= v
						c.Count("late_inotify_events", 1)
					}
					verdicts[prev].findings = r.judge(&verdicts[prev].o)
				}
				verdicts[i].o = o
				prev = i
			}
			if prev >= 0 {
				f := r.run(request{Method: "POST", Path: "/api/v1/query", SQL: "SELECT 1"})
				for k, v := range f.LatePrev {
					verdicts[prev].o.Opened[k] |= v
				}
				verdicts[prev].findings = r.judge(&verdicts[prev].o)
			}
		}(w)
	}
	wg.Wait()

	fmt.Printf("C14: main pass over %d requests took %.1fs\n", len(cases), time.Since(t0).Seconds())
	t0 = time.Now()
	// accounting
	var bad []int
	perKey := map[string]int{}
	for i := range cases {
		v := &verdicts[i]
		c.Eval()
		c.Count("requests_sent", 1)
		if v.o.Overflow {
			c.Inconclusive("inotify queue overflow")
		}
		c.Count("rbac_questions", int64(len(v.o.Asked)))
		c.Count("files_opened_events", int64(len(v.o.Opened)))
		executed := v.o.Status == 200 && !strings.Contains(string(v.o.Body[:min(len(v.o.Body), 200)]), `"success":false`)
		switch {
		case v.o.Status == 403:
			c.Count("denied_by_permission_check", 1)
		case v.o.Status == 400:
			c.Count("rejected_by_validation", 1)
		case executed:
			c.Count("accepted_and_executed", 1)
		default:
			c.Count("engine_or_other_error", 1)
		}
		if len(v.o.Opened) > 0 {
			c.Count("requests_that_opened_files", 1)
		}
		if executed || v.o.Status == 403 || len(v.o.Opened) > 0 {
			c.Nontrivial(cases[i].Key)
		}
		if len(v.findings) > 0 {
			c.Count("refuting_requests", 1)
			pk := cases[i].Sig
			if cases[i].Spec != nil {
				pk = signature(*cases[i].Spec, v.findings, false, false, nil)
			}
			if perKey[pk] < 3 {
				perKey[pk]++
				bad = append(bad, i)
			} else {
				c.Count("refuting_requests_not_minimised_same_unreduced_class_as_3_minimised", 1)
			}
		}
		if i < 4 || (executed && len(v.o.Opened) > 0 && i%500 == 0) {
			c.Sample(map[string]any{"request": cases[i].Req, "status": v.o.Status, "asked": v.o.Asked, "opened": len(v.o.Opened)})
		}
	}

	// minimise and classify every refuting request (in parallel, reported in order)
	type res struct {
		sig    string
		sig2   string // a second, independent cause the reduced statement still needs
		detail c14Detail
	}
	results := make([]res, len(bad))
	aloneCache := map[string]bool{}
	var aloneMu sync.Mutex
	for w := 0; w < workers; w++ {
		wg.Add(1)
		go func(w int) {
			defer wg.Done()
			r := rigs[w]
			test := func(q request) ([]finding, outcome) {
				o := r.runSettled(q)
				return r.judge(&o), o
			}
			for j := w; j < len(bad); j += workers {
				i := bad[j]
				tc := cases[i]
				d := c14Detail{Request: tc.Req, Spec: tc.Spec, Status: verdicts[i].o.Status, Asked: verdicts[i].o.Asked, Findings: verdicts[i].findings}
				if tc.Spec != nil {
					fs0, _ := test(tc.Req)
					if len(fs0) == 0 {
						results[j] = res{sig: "refuting observation not reproducible when the request is repeated alone", detail: d}
						continue
					}
					ms, epEss, hdrEss, fs, o := minimise(*tc.Spec, test)
					d.MinSpec, d.Minimal, d.MinStatus, d.MinFind = &ms, ms.request(), o.Status, fs
					d.Minimal.SQL = render(ms)
					alone := func(class string) bool {
						aloneMu.Lock()
						v, ok := aloneCache[class]
						aloneMu.Unlock()
						if ok {
							return v
						}
						for _, cs := range canonicalSingles(class) {
							if f, _ := test(cs.request()); len(f) > 0 {
								v = true
								break
							}
						}
						aloneMu.Lock()
						aloneCache[class] = v
						aloneMu.Unlock()
						return v
					}
					results[j] = res{sig: signature(ms, fs, epEss, hdrEss, alone), detail: d}
					if fastPathEssential(ms) {
						results[j].sig2 = fastPathSig
					}
				} else {
					d.Minimal, d.MinFind, d.MinStatus = tc.Req, verdicts[i].findings, verdicts[i].o.Status
					for _, a := range tc.Alt {
						if fs, o := test(a); len(fs) > 0 {
							d.Minimal, d.MinFind, d.MinStatus = a, fs, o.Status
							break
						}
					}
					results[j] = res{sig: tc.Sig, detail: d}
				}
			}
		}(w)
	}
	wg.Wait()
	fmt.Printf("C14: minimisation of %d refuting requests took %.1fs\n", len(bad), time.Since(t0).Seconds())
	sigCount := map[string]int{}
	for j := range bad {
		results[j].detail.Note = "replay: ./check C14 --replay <this file>; {ROOT}/{REL}/{FILE:db/m} stand for the node's storage root"
		sigCount[results[j].sig]++
		c.Violation(results[j].sig, results[j].detail)
		if results[j].sig2 != "" {
			sigCount[results[j].sig2]++
			c.Violation(results[j].sig2, results[j].detail)
		}
	}
	crossCallerSequences(c, rigs[0])
	var sigs []string
	for s := range sigCount {
		sigs = append(sigs, fmt.Sprintf("%s  [x%d]", s, sigCount[s]))
	}
	sort.Strings(sigs)
	c.Extra("refuting_signatures", sigs)
	c.Floor(c.N(1500, 20000))
}

func replayC14(c *vlib.Ctx) {
	var d c14Detail
	if err := vlib.LoadReplay(c.Replay, &d); err != nil {
		c.Inconclusive("replay file: " + err.Error())
		return
	}
	var wrap struct {
		Signature string `json:"signature"`
	}
	if b, err := os.ReadFile(c.Replay); err == nil {
		_ = json.Unmarshal(b, &wrap)
	}
	r, err := newRig()
	if err != nil {
		c.Inconclusive("fixture: " + err.Error())
		return
	}
	defer r.close()
	if err := r.selfTest(); err != nil {
		panic("C14 monitor self-test failed: " + err.Error())
	}
	for _, q := range []struct {
		name string
		q    request
	}{{"original", d.Request}, {"minimal", d.Minimal}} {
		if q.q.Method == "" {
			continue
		}
		o := r.runSettled(q.q)
		fs := r.judge(&o)
		c.Eval()
		c.Nontrivial(q.name)
		c.Nontrivial(q.name + "-b")
		fmt.Printf("REPLAY %s: %s %s sql=%q header=%v\n  status=%d rbac=%v opened=%d findings=%v\n  body=%.300s\n", q.name, q.q.Method, q.q.Path, q.q.SQL, q.q.Header, o.Status, o.Asked, len(o.Opened), fs, o.Body)
		if len(fs) > 0 {
			c.Violation(wrap.Signature, map[string]any{"replayed": q.name, "request": q.q, "findings": fs})
		}
	}
}
