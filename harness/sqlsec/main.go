// Harness for the sqlsec area: C14 (a query can only read data the caller is
// authorized to read) and C15 (SQL normalisation agrees with DuckDB's lexer and
// is reversible).
package main

import (
	"flag"
	"fmt"
	"os"

	"github.com/basekick-labs/arc/internal/zzverif/vlib"
)

func main() {
	prop := flag.String("prop", "", "property id")
	flag.String("replay", "", "replay file")
	flag.Parse()
	switch *prop {
	case "C14":
		vlib.Main("C14", "exploration", checkC14)
	case "C15":
		vlib.Main("C15", "exploration", checkC15)
	default:
		fmt.Println("unknown property", *prop)
		os.Exit(2)
	}
}
