package main

// Adversarial SQL grammar for C14: statement shapes x source spellings x lexical
// disguises. A statement is described by a spec (so that it can be minimised and
// classified), rendered to text with {ROOT}/{REL}/{FILE:db/m} placeholders.

import (
	"fmt"
	"math/rand/v2"
	"sort"
	"strings"
)

// src is the way the statement names the data it wants to read.
type src struct {
	Kind  string `json:"kind"`            // tref | func | scan | sqlstr
	DB    string `json:"db"`              // target database
	M     string `json:"m"`               // target measurement
	Style string `json:"style"`           // tref: spelling; scan: quote style; func/sqlstr: argument style
	Fn    string `json:"fn,omitempty"`    // func/sqlstr: function name
	FnQ   string `json:"fnq,omitempty"`   // func: how the name is written (plain|upper|dq|bt|main|sysmain)
	Path  string `json:"path,omitempty"`  // func/scan/sqlstr: path form
	Alias bool   `json:"alias,omitempty"` // write an alias after the source
}

type deco struct {
	Kind string `json:"kind"` // lit | tail | cmt | ws | kwlook | look | semi | fnws | nows
	Arg  string `json:"arg,omitempty"`
	Arg2 string `json:"arg2,omitempty"`
	Pos  int    `json:"pos,omitempty"`
}

type spec struct {
	Shape  string `json:"shape"`
	Src    src    `json:"src"`
	Header string `json:"header,omitempty"`
	EP     string `json:"endpoint"` // query | msgpack | arrow | estimate
	Case   int    `json:"case"`     // 0 UPPER, 1 lower, 2 MiXeD
	Decos  []deco `json:"decos,omitempty"`
}

func (s spec) clone() spec {
	c := s
	c.Decos = append([]deco(nil), s.Decos...)
	return c
}

// ---------- vocabulary ----------

var deniedPairs = [][2]string{{"db2", "secret"}, {"secret", "keys"}, {"default", "cpu"}}
var allowedPairs = [][2]string{{"db1", "cpu"}, {"db1", "mem"}}

var trefStyles = []string{"plain", "dq", "bt", "dq-m", "dq-db", "bt-m", "spaced", "cmt", "bare", "bare-dq", "bare-bt"}
var scanStyles = []string{"sq", "dq", "bt", "E", "e", "dollar", "dtag", "dtag-d2", "sq-nows", "dq-nows"}
var pathForms = []string{"abs-glob", "abs-file", "rel-glob", "wild-db", "dotdot", "abs-hour"}
var fnQuotings = []string{"plain", "plain", "upper", "dq", "bt", "main", "sysmain"}
var argStyles = []string{"str", "str", "list", "E", "dollar"}

var shapesFrom = []string{
	"from", "from", "from", "comma",
	"join:JOIN", "join:INNER JOIN", "join:LEFT JOIN", "join:LEFT OUTER JOIN", "join:RIGHT JOIN", "join:FULL OUTER JOIN",
	"join:CROSS JOIN", "join:NATURAL JOIN", "join:SEMI JOIN", "join:ANTI JOIN", "join:POSITIONAL JOIN", "join:ASOF JOIN",
	"join:JOIN LATERAL", "join-using",
	"subq-from", "subq-scalar", "subq-exists", "subq-in", "subq-select", "lateral-comma",
	"cte", "cte-shadow", "cte2",
	"union:UNION", "union:UNION ALL", "union:INTERSECT", "union:EXCEPT",
	"fromfirst", "fromonly", "explain",
}
var shapesOther = []string{"table", "describe", "describe-table", "summarize", "show", "pivot", "table-subq", "describe-select", "summarize-select"}

func isFromGroup(shape string) bool {
	for _, s := range shapesOther {
		if s == shape {
			return false
		}
	}
	return true
}

var litStyles = []string{"sq", "sq-bs", "sq-dbl", "E", "E-bsq", "E-bsbs", "dq-alias", "dq-alias-bs", "dollar", "dtag", "dtag-d2", "dollar-q", "dtag-uni", "sq-bsbs", "E-lower-bsbs"}
var litContents = []string{"a", "a", "a", "read_parquet", "__STR_0__", "__IDENT_0__", "__FROM_MASK_0__", "--", "/*", "*/", ";", "from x", "'", "it''s", "é日"}
var tails = []string{"'x'='x'", "'x' = 'x'", `"time" IS NOT NULL`, "'--' <> 'a'", "1=1 -- '", "1=1 /* ' */", "$$x$$=$$x$$", "E'x'=E'x'", `1=1 -- "`, "'/*' <> '*/'"}
var comments = []string{"/* c */", "/**/", "/* it's */", `/* " */`, "/* /* n */ */", "-- c\n", "-- it's\n", "--\"\n", "-- c\r", "--\r", "/* -- */", "-- /*\n", "/* $$ */", "/* __STR_0__ */", "-- from db2.secret\n", "/* EXTRACT( */", "--read_parquet\r", "/* read_parquet */", "-- read_parquet\n"}
var wsVariants = []string{"\n", "\t", "\r", "\r\n", "\f", "\v", "  ", "\u00a0", "\u2003", "\u3000", " \n "}
var lookalikes = []string{"__STR_0__", "__STR_1__", "__IDENT_0__", "__IDENT_1__", "__FROM_MASK_0__"}
var semis = []string{";", "; ", ";\n", " ;", ";;", "; -- c"}
var kwlooks = []string{"extract", "substring", "trim", "overlay"}

// ---------- rendering ----------

type part struct {
	s    string
	slot bool
}

type builder struct {
	sp    spec
	parts []part
	mixN  int
}

func (b *builder) kw(s string) {
	switch b.sp.Case {
	case 1:
		s = strings.ToLower(s)
	case 2:
		r := []byte(s)
		for i := range r {
			b.mixN++
			if b.mixN%2 == 0 && r[i] >= 'A' && r[i] <= 'Z' {
				r[i] += 'a' - 'A'
			}
		}
		s = string(r)
	}
	b.parts = append(b.parts, part{s: s})
}
func (b *builder) raw(s string) { b.parts = append(b.parts, part{s: s}) }
func (b *builder) sl()          { b.parts = append(b.parts, part{s: " ", slot: true}) }

// kws writes a multi-word keyword phrase with slots between the words.
func (b *builder) kws(phrase string) {
	for i, w := range strings.Fields(phrase) {
		if i > 0 {
			b.sl()
		}
		b.kw(w)
	}
}

func pathOf(form, db, m string) string {
	switch form {
	case "abs-file":
		return "{FILE:" + db + "/" + m + "}"
	case "rel-glob":
		return "{REL}/" + db + "/" + m + "/**/*.parquet"
	case "wild-db":
		return "{ROOT}/*/" + m + "/**/*.parquet"
	case "dotdot":
		return "{ROOT}/db1/../" + db + "/" + m + "/**/*.parquet"
	case "abs-hour":
		return "{ROOT}/" + db + "/" + m + "/2024/03/01/10/*.parquet"
	}
	return "{ROOT}/" + db + "/" + m + "/**/*.parquet"
}

func sqEsc(s string) string { return strings.ReplaceAll(s, "'", "''") }

func strArg(style, p string) string {
	switch style {
	case "list":
		return "['" + p + "']"
	case "E":
		return "E'" + p + "'"
	case "dollar":
		return "$$" + p + "$$"
	}
	return "'" + p + "'"
}

// renderSrc returns the source text and whether it must directly abut the preceding
// keyword (no whitespace).
func renderSrc(s src, fnws string) (string, bool) {
	switch s.Kind {
	case "tref":
		db, m := s.DB, s.M
		switch s.Style {
		case "dq":
			return `"` + db + `"."` + m + `"`, false
		case "bt":
			return "`" + db + "`.`" + m + "`", false
		case "dq-m":
			return db + `."` + m + `"`, false
		case "dq-db":
			return `"` + db + `".` + m, false
		case "bt-m":
			return db + ".`" + m + "`", false
		case "spaced":
			return db + " . " + m, false
		case "cmt":
			return db + "./**/" + m, false
		case "bare":
			return m, false
		case "bare-dq":
			return `"` + m + `"`, false
		case "bare-bt":
			return "`" + m + "`", false
		}
		return db + "." + m, false
	case "scan":
		p := pathOf(s.Path, s.DB, s.M)
		switch s.Style {
		case "dq":
			return `"` + p + `"`, false
		case "dq-nows":
			return `"` + p + `"`, true
		case "sq-nows":
			return "'" + p + "'", true
		case "bt":
			return "`" + p + "`", false
		case "E":
			return "E'" + p + "'", false
		case "e":
			return "e'" + p + "'", false
		case "dollar":
			return "$$" + p + "$$", false
		case "dtag":
			return "$p$" + p + "$p$", false
		case "dtag-d2": // tag with a digit as its second character
			return "$a1$" + p + "$a1$", false
		}
		return "'" + p + "'", false
	case "func":
		name := s.Fn
		switch s.FnQ {
		case "upper":
			name = strings.ToUpper(name)
		case "dq":
			name = `"` + name + `"`
		case "bt":
			name = "`" + name + "`"
		case "main":
			name = "main." + name
		case "sysmain":
			name = "system.main." + name
		}
		return name + fnws + "(" + strArg(s.Style, pathOf(s.Path, s.DB, s.M)) + ")", false
	case "sqlstr":
		p := pathOf(s.Path, s.DB, s.M)
		var inner string
		switch s.Style {
		case "scan":
			inner = "SELECT * FROM '" + p + "'"
		case "rp":
			inner = "SELECT * FROM read_parquet('" + p + "')"
		case "tref":
			inner = "SELECT * FROM " + s.DB + "." + s.M
		default:
			inner = "FROM '" + p + "'"
		}
		switch s.Fn {
		case "json_execute_serialized_sql":
			return "json_execute_serialized_sql(json_serialize_sql('" + sqEsc(inner) + "'))", false
		case "query-dollar":
			return "query($q$" + inner + "$q$)", false
		}
		return s.Fn + fnws + "('" + sqEsc(inner) + "')", false
	}
	return "x", false
}

func renderLit(style, content string) string {
	switch style {
	case "sq-bs":
		return "'" + content + `\'`
	case "sq-bsbs":
		return "'" + content + `\\'`
	case "sq-dbl":
		return "'" + content + "''s'"
	case "E":
		return "E'" + content + "'"
	case "E-bsq":
		return "E'" + content + `\''`
	case "E-bsbs":
		return "E'" + content + `\\'`
	case "E-lower-bsbs":
		return "e'" + content + `\\'`
	case "dq-alias":
		return `1 AS "` + strings.ReplaceAll(content, `"`, `""`) + `"`
	case "dq-alias-bs":
		return `1 AS "` + strings.ReplaceAll(content, `"`, `""`) + `\"`
	case "dollar":
		return "$$" + content + "$$"
	case "dtag":
		return "$t$" + content + "$t$"
	case "dtag-d2":
		return "$_0$" + content + "$_0$"
	case "dollar-q":
		return "$$" + content + "'$$"
	case "dtag-uni":
		return "$é$" + content + "$é$"
	}
	return "'" + content + "'"
}

// render produces the statement text.
func render(sp spec) string {
	b := &builder{sp: sp}
	var lits, looks []string
	tail, semi, fnws, kwlook := "", "", "", ""
	nows := false
	for _, d := range sp.Decos {
		switch d.Kind {
		case "lit":
			lits = append(lits, renderLit(d.Arg, d.Arg2))
		case "look":
			looks = append(looks, "1 AS "+d.Arg)
		case "tail":
			tail = d.Arg
		case "semi":
			semi = d.Arg
		case "fnws":
			fnws = d.Arg
		case "kwlook":
			kwlook = d.Arg
		case "nows":
			nows = true
		}
	}
	midlit := ""
	for _, d := range sp.Decos {
		if d.Kind == "midlit" {
			midlit = d.Arg
		}
	}
	srcText, abut := renderSrc(sp.Src, fnws)
	if nows {
		abut = true
	}
	alias := sp.Src.Alias

	items := func(base string) {
		n := 0
		put := func(s string) {
			if n > 0 {
				b.raw(",")
				b.sl()
			}
			b.raw(s)
			n++
		}
		switch kwlook {
		case "extract":
			put("EXTRACT(year FROM now())")
		case "substring":
			put("SUBSTRING('abc' FROM 2)")
		case "trim":
			put("TRIM(BOTH 'x' FROM 'xax')")
		case "overlay":
			put("OVERLAY('abc' PLACING 'z' FROM 2)")
		}
		for _, l := range lits {
			put(l)
		}
		for _, l := range looks {
			put(l)
		}
		put(base)
	}
	// fromX writes "FROM <src>" (the FROM that introduces the target source).
	fromX := func() {
		if kwlook != "" {
			b.raw("__FROM_MASK_0__")
		} else {
			b.kw("FROM")
		}
		if !abut {
			b.sl()
		}
		b.raw(srcText)
	}
	srcOnly := func(kwPhrase string) {
		b.kws(kwPhrase)
		if !abut {
			b.sl()
		}
		b.raw(srcText)
	}
	comp := "db1.cpu"
	if sp.Header != "" {
		comp = "cpu"
	}
	where := func(first bool) {
		if tail == "" {
			return
		}
		b.sl()
		if first {
			b.kw("WHERE")
		} else {
			b.kw("AND")
		}
		b.sl()
		b.raw(tail)
	}
	sel := func(base string) {
		b.kw("SELECT")
		b.sl()
		items(base)
		b.sl()
	}

	shape, arg := sp.Shape, ""
	if i := strings.IndexByte(shape, ':'); i >= 0 {
		shape, arg = shape[:i], shape[i+1:]
	}
	// mid writes a predicate with a string literal that stands BEFORE the target source
	mid := func(col string, and bool) {
		if midlit == "" {
			return
		}
		if and {
			b.raw(" " + col + " <> '" + midlit + "' ")
			b.kw("AND")
		} else {
			b.sl()
			b.kw("WHERE")
			b.raw(" " + col + " <> '" + midlit + "'")
		}
	}
	switch shape {
	case "splice":
		// arg = holder:k:term ; a literal (or identifier) whose text is the placeholder
		// of a LATER literal whose body is SQL naming the target source
		f := strings.Split(arg, ":")
		holder, k, term := f[0], f[1], f[2]
		inner := strings.ReplaceAll(srcText, "'", "''")
		body := " , host FROM " + inner
		if term == "dash" {
			body += " --"
		}
		look := "__STR_" + k + "__"
		var hold string
		switch holder {
		case "dq":
			hold = `1 AS "` + look + `"`
			body = `"` + body
		case "sqident":
			hold = "'__IDENT_" + k + "__' AS a"
		default:
			hold = "'" + look + "' AS a"
		}
		payload := "'" + body + "'"
		if holder == "sqident" {
			payload = `"` + strings.ReplaceAll(body, `"`, `""`) + `"`
		}
		b.kw("SELECT")
		b.sl()
		switch k {
		case "0":
			b.raw(payload + " AS p, " + hold)
			b.sl()
			b.kw("FROM")
			b.sl()
			b.raw(comp)
		default:
			b.raw(hold)
			if k == "2" {
				b.raw(", 'z' AS b")
			}
			b.sl()
			b.kw("FROM")
			b.sl()
			b.raw(comp)
			b.sl()
			b.kw("WHERE")
			b.raw(" host <> " + payload)
		}
	case "from":
		sel("*")
		fromX()
		if alias {
			b.sl()
			b.kw("AS")
			b.sl()
			b.raw("s")
		}
		where(true)
	case "comma":
		sel("*")
		b.kw("FROM")
		b.sl()
		b.raw(comp + " a,")
		b.sl()
		if abut {
			b.parts = b.parts[:len(b.parts)-1]
		}
		b.raw(srcText + " s")
		where(true)
	case "join":
		sel("*")
		b.kw("FROM")
		b.sl()
		b.raw(comp + " a")
		b.sl()
		srcOnly(arg)
		b.raw(" s")
		switch arg {
		case "CROSS JOIN", "NATURAL JOIN", "POSITIONAL JOIN":
		case "ASOF JOIN":
			b.sl()
			b.kw("ON")
			b.raw(" a.time >= s.time")
		default:
			b.sl()
			b.kw("ON")
			b.raw(" true")
		}
		where(true)
	case "join-using":
		sel("*")
		b.kw("FROM")
		b.sl()
		b.raw(comp + " a")
		b.sl()
		srcOnly("JOIN")
		b.raw(" s")
		b.sl()
		b.kw("USING")
		b.raw(" (region)")
		where(true)
	case "subq-from":
		sel("*")
		b.kw("FROM")
		b.sl()
		b.raw("(")
		b.kw("SELECT")
		b.raw(" * ")
		fromX()
		b.raw(") s")
		where(true)
	case "subq-scalar":
		sel("*")
		b.kw("FROM")
		b.sl()
		b.raw(comp + " a")
		b.sl()
		b.kw("WHERE")
		mid("a.note", true)
		b.raw(" a.value < (")
		b.kw("SELECT")
		b.raw(" max(value) ")
		fromX()
		b.raw(")")
		where(false)
	case "subq-exists":
		sel("*")
		b.kw("FROM")
		b.sl()
		b.raw(comp + " a")
		b.sl()
		b.kw("WHERE")
		mid("a.note", true)
		b.sl()
		b.kw("EXISTS")
		b.raw(" (")
		b.kw("SELECT")
		b.raw(" 1 ")
		fromX()
		b.raw(")")
		where(false)
	case "subq-in":
		sel("*")
		b.kw("FROM")
		b.sl()
		b.raw(comp + " a")
		b.sl()
		b.kw("WHERE")
		mid("a.note", true)
		b.raw(" a.region ")
		b.kw("IN")
		b.raw(" (")
		b.kw("SELECT")
		b.raw(" region ")
		fromX()
		b.raw(")")
		where(false)
	case "subq-select":
		b.kw("SELECT")
		b.sl()
		items("1 AS one")
		b.raw(", (")
		b.kw("SELECT")
		b.raw(" max(note) ")
		fromX()
		b.raw(") AS leak")
		b.sl()
		b.kw("FROM")
		b.sl()
		b.raw(comp + " a")
		where(true)
	case "lateral-comma":
		sel("*")
		b.kw("FROM")
		b.sl()
		b.raw(comp + " a,")
		b.sl()
		b.kw("LATERAL")
		b.raw(" (")
		b.kw("SELECT")
		b.raw(" * ")
		fromX()
		b.raw(") s")
		where(true)
	case "cte":
		b.kw("WITH")
		b.raw(" t ")
		b.kw("AS")
		b.raw(" (")
		b.kw("SELECT")
		b.raw(" * ")
		fromX()
		b.raw(")")
		b.sl()
		sel("*")
		b.kw("FROM")
		b.raw(" t")
		where(true)
	case "cte-shadow":
		b.kw("WITH")
		b.raw(" cpu ")
		b.kw("AS")
		b.raw(" (")
		b.kw("SELECT")
		b.raw(" * ")
		fromX()
		b.raw(")")
		b.sl()
		sel("*")
		b.kw("FROM")
		b.raw(" cpu")
		where(true)
	case "cte2":
		b.kw("WITH")
		b.raw(" a ")
		b.kw("AS")
		b.raw(" (")
		b.kw("SELECT")
		b.raw(" 1 AS one), t(region) ")
		b.kw("AS")
		b.raw(" (")
		b.kw("SELECT")
		b.raw(" region ")
		fromX()
		b.raw(")")
		b.sl()
		sel("*")
		b.kw("FROM")
		b.raw(" t, a")
		where(true)
	case "union":
		sel("*")
		b.kw("FROM")
		b.raw(" (")
		b.kw("SELECT")
		b.raw(" note ")
		b.kw("FROM")
		b.raw(" " + comp)
		mid("note", false)
		b.sl()
		b.kws(arg)
		b.sl()
		b.kw("SELECT")
		b.raw(" note ")
		fromX()
		b.raw(") u")
		where(true)
	case "fromfirst":
		fromX()
		b.sl()
		b.kw("SELECT")
		b.sl()
		items("*")
	case "fromonly":
		fromX()
		where(true)
	case "explain":
		b.kws("EXPLAIN")
		b.sl()
		sel("*")
		fromX()
		where(true)
	case "table":
		srcOnly("TABLE")
	case "describe":
		srcOnly("DESCRIBE")
	case "describe-table":
		srcOnly("DESCRIBE TABLE")
	case "summarize":
		srcOnly("SUMMARIZE")
	case "show":
		srcOnly("SHOW")
	case "pivot":
		srcOnly("PIVOT")
		b.sl()
		b.kw("ON")
		b.raw(" region ")
		b.kw("USING")
		b.raw(" max(note)")
	case "table-subq":
		sel("*")
		b.kw("FROM")
		b.raw(" (")
		srcOnly("TABLE")
		b.raw(") s")
		where(true)
	case "describe-select":
		b.kw("DESCRIBE")
		b.sl()
		sel("*")
		fromX()
	case "summarize-select":
		b.kw("SUMMARIZE")
		b.sl()
		sel("*")
		fromX()
	}
	if semi != "" {
		b.raw(semi)
	}
	// whitespace-slot decorations
	var slots []int
	for i, p := range b.parts {
		if p.slot {
			slots = append(slots, i)
		}
	}
	if len(slots) > 0 {
		for _, d := range sp.Decos {
			switch d.Kind {
			case "ws":
				b.parts[slots[d.Pos%len(slots)]].s = d.Arg
			case "cmt":
				i := slots[d.Pos%len(slots)]
				if strings.HasPrefix(d.Arg, "--") {
					b.parts[i].s = " " + d.Arg
				} else {
					b.parts[i].s = " " + d.Arg + " "
				}
			}
		}
	}
	var sb strings.Builder
	for _, p := range b.parts {
		sb.WriteString(p.s)
	}
	return sb.String()
}

func endpointPath(ep string) string {
	switch ep {
	case "msgpack":
		return "/api/v1/query/msgpack"
	case "arrow":
		return "/api/v1/query/arrow"
	case "estimate":
		return "/api/v1/query/estimate"
	}
	return "/api/v1/query"
}

func (sp spec) request() request {
	q := request{Method: "POST", Path: endpointPath(sp.EP), SQL: render(sp)}
	if sp.Header != "" {
		q.Header = map[string]string{"x-arc-database": sp.Header}
	}
	return q
}

// shapeKey identifies the lexical shape of a statement (what Nontrivial counts).
func (sp spec) shapeKey() string {
	var ds []string
	for _, d := range sp.Decos {
		k := d.Kind + ":" + d.Arg
		if d.Kind == "lit" {
			k += ":" + d.Arg2
		}
		ds = append(ds, k)
	}
	sort.Strings(ds)
	s := sp.Src
	return fmt.Sprintf("%s|%s/%s/%s/%s/%s|hdr=%v|%s|%s", sp.Shape, s.Kind, s.Style, s.Fn, s.FnQ, s.Path, sp.Header != "", sp.EP, strings.Join(ds, ","))
}

// ---------- generation ----------

func pick[T any](r *rand.Rand, xs []T) T { return xs[r.IntN(len(xs))] }

type genCtx struct {
	rng     *rand.Rand
	fileFns []string // table functions whose first parameter is VARCHAR / VARCHAR[] (from the engine's catalog)
}

func (g *genCtx) genSrc(header string) src {
	r := g.rng
	k := r.IntN(100)
	switch {
	case k < 34: // table reference
		s := src{Kind: "tref", Alias: r.IntN(2) == 0}
		if r.IntN(100) < 35 {
			p := pick(r, allowedPairs)
			s.DB, s.M = p[0], p[1]
		} else {
			p := pick(r, deniedPairs)
			s.DB, s.M = p[0], p[1]
		}
		s.Style = pick(r, trefStyles)
		if header != "" && r.IntN(4) > 0 {
			s.Style = pick(r, []string{"bare", "bare-dq", "bare-bt"})
		}
		return s
	case k < 62: // file-reading function
		p := pick(r, deniedPairs)
		return src{Kind: "func", DB: p[0], M: p[1], Fn: pick(r, g.fileFns), FnQ: pick(r, fnQuotings), Style: pick(r, argStyles), Path: pick(r, pathForms), Alias: r.IntN(2) == 0}
	case k < 92: // replacement scan
		p := pick(r, deniedPairs)
		return src{Kind: "scan", DB: p[0], M: p[1], Style: pick(r, scanStyles), Path: pick(r, pathForms), Alias: r.IntN(2) == 0}
	default: // SQL text handed to a function that runs it
		p := pick(r, deniedPairs)
		return src{Kind: "sqlstr", DB: p[0], M: p[1], Fn: pick(r, []string{"query", "query", "query_table", "json_execute_serialized_sql", "query-dollar"}),
			Style: pick(r, []string{"scan", "rp", "tref", "fromonly"}), Path: pick(r, pathForms)}
	}
}

func (g *genCtx) genDeco() deco {
	r := g.rng
	switch k := r.IntN(100); {
	case k < 34:
		return deco{Kind: "lit", Arg: pick(r, litStyles), Arg2: pick(r, litContents)}
	case k < 46:
		return deco{Kind: "tail", Arg: pick(r, tails)}
	case k < 62:
		return deco{Kind: "cmt", Arg: pick(r, comments), Pos: r.IntN(64)}
	case k < 76:
		return deco{Kind: "ws", Arg: pick(r, wsVariants), Pos: r.IntN(64)}
	case k < 82:
		return deco{Kind: "kwlook", Arg: pick(r, kwlooks)}
	case k < 87:
		return deco{Kind: "look", Arg: pick(r, lookalikes)}
	case k < 92:
		return deco{Kind: "semi", Arg: pick(r, semis)}
	case k < 97:
		return deco{Kind: "fnws", Arg: pick(r, append([]string{" ", "/**/", "/* c */"}, wsVariants...))}
	case k < 99:
		return deco{Kind: "midlit", Arg: pick(r, []string{"--", "/*", "*/", "-- x", "a"})}
	default:
		return deco{Kind: "nows"}
	}
}

func (g *genCtx) genSpec() spec {
	r := g.rng
	sp := spec{EP: "query", Case: r.IntN(3)}
	switch k := r.IntN(100); {
	case k < 12:
		sp.EP = "estimate"
	case k < 22:
		sp.EP = "msgpack"
	case k < 32:
		sp.EP = "arrow"
	}
	if r.IntN(100) < 30 {
		sp.Header = pick(r, []string{"db1", "db1", "db2", "secret", "default"})
	}
	if r.IntN(100) < 78 {
		sp.Shape = pick(r, shapesFrom)
	} else {
		sp.Shape = pick(r, shapesOther)
	}
	sp.Src = g.genSrc(sp.Header)
	if r.IntN(100) < 4 {
		sp.Shape = "splice:" + pick(r, []string{"sq", "sq", "dq", "sqident"}) + ":" + pick(r, []string{"0", "1", "1", "2"}) + ":" + pick(r, []string{"dash", "dash", "none"})
	}
	nd := []int{0, 0, 1, 1, 1, 2, 2, 3, 4}[r.IntN(9)]
	seen := map[string]bool{}
	for i := 0; i < nd; i++ {
		d := g.genDeco()
		single := d.Kind == "midlit" || d.Kind == "tail" || d.Kind == "semi" || d.Kind == "fnws" || d.Kind == "kwlook" || d.Kind == "nows"
		if single && seen[d.Kind] {
			continue
		}
		if d.Kind == "fnws" && sp.Src.Kind != "func" && sp.Src.Kind != "sqlstr" {
			continue
		}
		base := sp.Shape
		if i := strings.IndexByte(base, ':'); i >= 0 {
			base = base[:i]
		}
		noItems := base == "table" || base == "describe" || base == "describe-table" || base == "summarize" || base == "show" || base == "pivot" || base == "fromonly"
		noTail := base == "table" || base == "describe" || base == "describe-table" || base == "summarize" || base == "show" || base == "pivot" || base == "fromfirst" || base == "describe-select" || base == "summarize-select"
		if noItems && (d.Kind == "lit" || d.Kind == "look" || d.Kind == "kwlook") {
			continue
		}
		if noTail && d.Kind == "tail" {
			continue
		}
		seen[d.Kind] = true
		sp.Decos = append(sp.Decos, d)
	}
	return sp
}

// systematicSpecs enumerates, independent of the seed, every single disguise (and every
// disguise paired with a literal mentioning read_parquet, which switches the rewrite
// off) on a plain SELECT over five canonical carriers.
func systematicSpecs(fileFns []string) []spec {
	carriers := []src{
		{Kind: "scan", DB: "db2", M: "secret", Style: "dq", Path: "abs-file"},
		{Kind: "scan", DB: "db2", M: "secret", Style: "sq", Path: "abs-glob"},
		{Kind: "func", DB: "db2", M: "secret", Fn: "read_parquet", FnQ: "plain", Style: "str", Path: "abs-file"},
		{Kind: "func", DB: "secret", M: "keys", Fn: "parquet_scan", FnQ: "dq", Style: "str", Path: "abs-glob"},
		{Kind: "tref", DB: "db2", M: "secret", Style: "plain"},
	}
	var singles []deco
	for _, st := range litStyles {
		for _, ct := range []string{"a", "read_parquet", "__STR_0__", "--", "/*", "'", ";"} {
			singles = append(singles, deco{Kind: "lit", Arg: st, Arg2: ct})
		}
	}
	for _, cm := range comments {
		for pos := 0; pos < 4; pos++ {
			singles = append(singles, deco{Kind: "cmt", Arg: cm, Pos: pos})
		}
	}
	for _, w := range wsVariants {
		for pos := 0; pos < 4; pos++ {
			singles = append(singles, deco{Kind: "ws", Arg: w, Pos: pos})
		}
		singles = append(singles, deco{Kind: "fnws", Arg: w})
	}
	for _, k := range kwlooks {
		singles = append(singles, deco{Kind: "kwlook", Arg: k})
	}
	for _, l := range lookalikes {
		singles = append(singles, deco{Kind: "look", Arg: l})
	}
	for _, sm := range semis {
		singles = append(singles, deco{Kind: "semi", Arg: sm})
	}
	singles = append(singles, deco{Kind: "nows"})
	rp := deco{Kind: "lit", Arg: "sq", Arg2: "read_parquet"}
	var out []spec
	// every path-taking table function of the engine, undisguised
	for _, fn := range fileFns {
		for _, st := range []string{"str", "list"} {
			out = append(out, spec{Shape: "from", EP: "query", Src: src{Kind: "func", DB: "db2", M: "secret", Fn: fn, FnQ: "plain", Style: st, Path: "abs-file"}})
		}
		out = append(out, spec{Shape: "from", EP: "query", Src: src{Kind: "func", DB: "db2", M: "secret", Fn: fn, FnQ: "dq", Style: "str", Path: "abs-glob"}})
	}
	for _, fn := range []string{"query", "query_table", "json_execute_serialized_sql", "query-dollar"} {
		for _, st := range []string{"scan", "rp", "tref", "fromonly"} {
			out = append(out, spec{Shape: "from", EP: "query", Src: src{Kind: "sqlstr", DB: "db2", M: "secret", Fn: fn, Style: st, Path: "abs-glob"}})
		}
	}
	// placeholder splice: a literal holding the placeholder text of a later literal
	for _, holder := range []string{"sq", "dq", "sqident"} {
		for _, k := range []string{"0", "1", "2"} {
			for _, term := range []string{"dash", "none"} {
				for _, x := range []src{
					{Kind: "scan", DB: "db2", M: "secret", Style: "dollar", Path: "abs-file"},
					{Kind: "scan", DB: "db2", M: "secret", Style: "dollar", Path: "abs-glob"},
					{Kind: "scan", DB: "db2", M: "secret", Style: "dq", Path: "abs-file"},
					{Kind: "scan", DB: "db2", M: "secret", Style: "dtag", Path: "abs-glob"},
					{Kind: "scan", DB: "db2", M: "secret", Style: "sq", Path: "abs-file"},
					{Kind: "func", DB: "db2", M: "secret", Fn: "read_parquet", FnQ: "plain", Style: "dollar", Path: "abs-file"},
					{Kind: "tref", DB: "db2", M: "secret", Style: "plain"},
				} {
					for _, h := range []string{"", "db1"} {
						out = append(out, spec{Shape: "splice:" + holder + ":" + k + ":" + term, EP: "query", Header: h, Src: x})
					}
				}
			}
		}
	}
	// raw-SQL fast path: the substring read_parquet in a comment or literal, alone and
	// with a CR-terminated comment, in front of every replacement-scan spelling
	for _, st := range scanStyles {
		x := src{Kind: "scan", DB: "db2", M: "secret", Style: st, Path: "abs-file"}
		for _, ds := range [][]deco{
			{{Kind: "cmt", Arg: "--read_parquet\r", Pos: 3}},
			{{Kind: "cmt", Arg: "--read_parquet\r", Pos: 0}},
			{{Kind: "cmt", Arg: "/* read_parquet */", Pos: 3}},
			{{Kind: "cmt", Arg: "-- read_parquet\n", Pos: 3}},
			{rp},
			{rp, {Kind: "cmt", Arg: "-- c\r", Pos: 3}},
			{{Kind: "tail", Arg: "'read_parquet' <> 'a'"}},
		} {
			out = append(out, spec{Shape: "from", EP: "query", Src: x, Decos: ds})
			out = append(out, spec{Shape: "comma", EP: "query", Src: x, Decos: ds})
		}
	}
	// comment markers INSIDE string literals standing before a denied db.table reference
	for _, sh := range []string{"from", "comma", "join:JOIN", "join:LEFT JOIN", "union:UNION ALL", "union:UNION", "subq-in", "subq-exists", "subq-scalar", "subq-from", "cte"} {
		for _, st := range []string{"plain", "dq", "bare"} {
			x := src{Kind: "tref", DB: "db2", M: "secret", Style: st}
			hdr := ""
			if st == "bare" {
				hdr = "db2"
			}
			for _, ds := range [][]deco{
				{{Kind: "lit", Arg: "sq", Arg2: "--"}},
				{{Kind: "lit", Arg: "sq", Arg2: "/*"}, {Kind: "tail", Arg: "'*/' <> 'a'"}},
				{{Kind: "midlit", Arg: "--"}},
				{{Kind: "midlit", Arg: "/*"}, {Kind: "tail", Arg: "'*/' <> 'a'"}},
				{{Kind: "lit", Arg: "dollar", Arg2: "--"}},
				{{Kind: "lit", Arg: "E", Arg2: "--"}},
			} {
				out = append(out, spec{Shape: sh, EP: "query", Header: hdr, Src: x, Decos: ds})
			}
		}
	}
	// every statement head x every way of quoting a path, undisguised
	for _, sh := range append(append([]string{}, shapesOther...), "from", "comma", "join:JOIN", "subq-from", "fromonly", "fromfirst") {
		for _, st := range scanStyles {
			out = append(out, spec{Shape: sh, EP: "query", Src: src{Kind: "scan", DB: "db2", M: "secret", Style: st, Path: "abs-glob"}})
		}
		for _, st := range trefStyles {
			out = append(out, spec{Shape: sh, EP: "query", Src: src{Kind: "tref", DB: "db2", M: "secret", Style: st}})
			out = append(out, spec{Shape: sh, EP: "query", Header: "db2", Src: src{Kind: "tref", DB: "db2", M: "secret", Style: st}})
		}
	}
	for _, c := range carriers {
		for _, d := range singles {
			if d.Kind == "fnws" && c.Kind != "func" {
				continue
			}
			out = append(out, spec{Shape: "from", EP: "query", Src: c, Decos: []deco{d}})
			if !(d.Kind == "lit" && d.Arg2 == "read_parquet") && c.Kind != "tref" {
				out = append(out, spec{Shape: "from", EP: "query", Src: c, Decos: []deco{rp, d}})
			}
		}
	}
	return out
}

// seedSpecs are fixed statements that are always part of the workload: the
// probe-confirmed shape of DESIGN section 5 and one plain representative per axis.
func seedSpecs() []spec {
	dq := src{Kind: "scan", DB: "db2", M: "secret", Style: "dq", Path: "abs-glob"}
	return []spec{
		{Shape: "from", EP: "query", Src: dq, Decos: []deco{{Kind: "lit", Arg: "sq-bs", Arg2: "a"}, {Kind: "tail", Arg: "'x'='x'"}}},
		{Shape: "from", EP: "query", Src: dq},
		{Shape: "from", EP: "query", Src: src{Kind: "scan", DB: "db2", M: "secret", Style: "sq", Path: "abs-glob"}},
		{Shape: "from", EP: "query", Src: src{Kind: "tref", DB: "db2", M: "secret", Style: "plain"}},
		{Shape: "from", EP: "query", Src: src{Kind: "tref", DB: "db1", M: "cpu", Style: "plain"}},
		{Shape: "from", EP: "query", Header: "db1", Src: src{Kind: "tref", DB: "db1", M: "cpu", Style: "bare"}},
		{Shape: "from", EP: "query", Header: "db2", Src: src{Kind: "tref", DB: "db2", M: "secret", Style: "bare"}},
		{Shape: "from", EP: "query", Src: src{Kind: "func", DB: "db2", M: "secret", Fn: "read_parquet", FnQ: "plain", Style: "str", Path: "abs-glob"}},
		{Shape: "from", EP: "estimate", Src: dq, Decos: []deco{{Kind: "lit", Arg: "sq-bs", Arg2: "a"}}},
		{Shape: "from", EP: "arrow", Src: dq, Decos: []deco{{Kind: "lit", Arg: "sq-bs", Arg2: "a"}}},
		{Shape: "from", EP: "msgpack", Src: dq, Decos: []deco{{Kind: "lit", Arg: "sq-bs", Arg2: "a"}}},
	}
}

// ---------- classification of a minimal refuting statement ----------

func srcClass(s src) string {
	switch s.Kind {
	case "tref":
		names := map[string]string{"plain": "db.m", "dq": `"db"."m"`, "bt": "`db`.`m`", "dq-m": `db."m"`, "dq-db": `"db".m`, "bt-m": "db.`m`",
			"spaced": "db . m", "cmt": "db./**/m", "bare": "bare m", "bare-dq": `bare "m"`, "bare-bt": "bare `m`"}
		return "table reference spelled " + names[s.Style]
	case "func":
		q := ""
		switch s.FnQ {
		case "dq":
			q = " (name double-quoted)"
		case "bt":
			q = " (name in backticks)"
		case "main", "sysmain":
			q = " (schema-qualified)"
		}
		return "table function " + s.Fn + "()" + q
	case "scan":
		names := map[string]string{"sq": "single-quoted", "sq-nows": "single-quoted", "dq": "double-quoted", "dq-nows": "double-quoted", "bt": "backtick-quoted",
			"E": "E-string", "e": "E-string", "dollar": "dollar-quoted", "dtag": "dollar-quoted", "dtag-d2": "dollar-quoted (tag with a digit)"}
		return "replacement scan of a " + names[s.Style] + " path"
	case "sqlstr":
		fn := s.Fn
		if fn == "query-dollar" {
			fn = "query"
		}
		return "SQL text executed by table function " + fn + "()"
	}
	return s.Kind
}

func wsClass(w string) string {
	switch w {
	case "\u00a0":
		return "no-break space U+00A0"
	case "\u2003":
		return "em space U+2003"
	case "\u3000":
		return "ideographic space U+3000"
	case "\r", "\r\n":
		return "carriage return"
	case "\f":
		return "form feed"
	case "\v":
		return "vertical tab"
	case "\n", " \n ":
		return "newline"
	case "\t":
		return "tab"
	case "/**/", "/* c */":
		return "block comment"
	}
	return "whitespace"
}

// Mechanism classes: one name per root cause in arc's normalisation, so that the same
// cause reached through different spellings gets the same signature.
const (
	mBackslash   = `backslash before a closing quote treated as an escape in an ordinary literal / quoted identifier ('a\' ... ')`
	mEString     = `E-string escapes not consumed left to right (E'a\\' / E'a\'')`
	mDollarUni   = "dollar-quote tag with a non-ASCII letter not recognised ($é$...$é$)"
	mFromMask    = "placeholder look-alike __FROM_MASK_n__ in user text rewritten to FROM by the unmask step"
	mQuoteInCmt  = "quote or dollar-quote marker inside a comment opens a masked literal (masking runs before comment stripping)"
	mCRComment   = "carriage return ends a line comment for DuckDB but not for arc"
	mUniSpace    = "Unicode space accepted by DuckDB as whitespace but not by arc's scanners"
	mIdentStrip  = "identifier quotes stripped before masking expose a quote or comment marker inside a quoted identifier"
	mRewriteSkp  = "raw-SQL fast path: statement containing the substring read_parquet (in a literal or comment) is executed unrewritten"
	mMarkerInLit = "comment marker inside a string literal that precedes the source"
	mSplice      = "placeholder look-alike __STR_n__ inside a literal spliced by the unmask step (a later literal's body becomes executable SQL)"
	mNoSpace     = "no whitespace between FROM/JOIN and the quoted source (permission extractor requires whitespace)"
	mGluedFn     = "quoted function name abutting the preceding keyword (identifier-quote stripping glues it to the keyword and defeats the denylist's word boundary)"
)

func decoClass(d deco) string {
	switch d.Kind {
	case "lit":
		var cls []string
		switch d.Arg {
		case "sq-bs", "sq-bsbs", "dq-alias-bs":
			cls = append(cls, mBackslash)
		case "E-bsbs", "E-lower-bsbs", "E-bsq":
			cls = append(cls, mEString)
		case "dtag-uni":
			cls = append(cls, mDollarUni)
		case "dq-alias":
			if strings.ContainsAny(d.Arg2, "'") || strings.Contains(d.Arg2, "--") || strings.Contains(d.Arg2, "/*") {
				cls = append(cls, mIdentStrip)
			} else {
				cls = append(cls, "double-quoted identifier with content "+d.Arg2)
			}
		case "sq":
		default:
			cls = append(cls, "literal style "+d.Arg)
		}
		switch d.Arg2 {
		case "a":
		case "read_parquet":
			cls = append(cls, mRewriteSkp)
		default:
			if len(cls) == 0 { // content matters only when the style itself is unremarkable
				if d.Arg2 == "--" || d.Arg2 == "/*" || d.Arg2 == "*/" {
					cls = append(cls, mMarkerInLit)
				} else {
					cls = append(cls, "literal content "+d.Arg2)
				}
			}
		}
		if len(cls) == 0 {
			return "plain literal"
		}
		return strings.Join(cls, " + ")
	case "tail":
		return "later quoted text (" + d.Arg + ")"
	case "midlit":
		return mMarkerInLit
	case "cmt":
		a := d.Arg
		switch {
		case strings.HasSuffix(a, "\r") && strings.Contains(a, "read_parquet"):
			return mCRComment + " + " + mRewriteSkp
		case strings.Contains(a, "read_parquet"):
			return mRewriteSkp
		case strings.HasSuffix(a, "\r"):
			return mCRComment
		case strings.ContainsAny(a, `'"`) || strings.Contains(a, "$$"):
			return mQuoteInCmt
		case strings.HasPrefix(a, "/* /*"):
			return "nested block comment"
		case strings.Contains(a, "EXTRACT("):
			return "comment containing EXTRACT("
		case strings.Contains(a, "__STR_"):
			return "comment containing a placeholder look-alike"
		case strings.HasPrefix(a, "--"):
			return "line comment"
		}
		return "block comment"
	case "ws", "fnws":
		where := " as token separator"
		if d.Kind == "fnws" {
			where = " between function name and parenthesis"
		}
		switch d.Arg {
		case "\u00a0", "\u2003", "\u3000":
			return mUniSpace
		}
		return wsClass(d.Arg) + where
	case "kwlook":
		return mFromMask
	case "look":
		return "bare placeholder look-alike " + strings.NewReplacer("0", "n", "1", "n").Replace(d.Arg)
	case "semi":
		return "statement terminator"
	case "nows":
		return mNoSpace
	}
	return d.Kind
}

// signature names the mechanism of a minimal refuting statement: the lexical disguise
// when one is essential (what it carries goes to the detail), otherwise the way the
// source itself is written.
func signature(sp spec, fs []finding, epEssential, hdrEssential bool, alone func(class string) bool) string {
	what := "denied data in response"
	anyFile, anyDenied := false, false
	for _, f := range fs {
		if f.Kind == "file" {
			anyFile = true
		}
		if !strings.HasPrefix(f.Pair, allowedDB+"/") {
			anyDenied = true
		}
	}
	if anyFile {
		what = "denied file read"
		if !anyDenied {
			what = "unchecked file read"
		}
	}
	if strings.HasPrefix(sp.Shape, "splice") {
		return what + " via " + mSplice
	}
	var cls []string
	seen := map[string]bool{}
	add := func(c string) {
		for _, x := range strings.Split(c, " + ") {
			if !seen[x] {
				seen[x] = true
				cls = append(cls, x)
			}
		}
	}
	for _, d := range sp.Decos {
		cl := decoClass(d)
		if d.Kind == "nows" && sp.Src.Kind == "func" {
			cl = mGluedFn
		}
		add(cl)
	}
	if sp.Src.Kind == "scan" && strings.HasSuffix(sp.Src.Style, "-nows") {
		add(mNoSpace)
	}
	if len(cls) > 1 && seen[mRewriteSkp] { // an ingredient, not a cause: named only when alone
		var k []string
		for _, x := range cls {
			if x != mRewriteSkp {
				k = append(k, x)
			}
		}
		cls = k
	}
	sort.Strings(cls)
	// A disguise that, alone on a plain SELECT, already defeats the checks is the
	// cause; whatever else the reduced statement still needs around it (a second
	// disguise, a join shape) is circumstance and stays in the detail.
	if alone != nil {
		for _, cl := range cls {
			if sp.Src.Kind == "tref" && cl != mMarkerInLit {
				continue // for other disguises a fooled table reference is named with its spelling
			}
			if alone(cl) {
				return what + " hidden by " + cl
			}
		}
	}
	var s string
	if len(cls) > 0 {
		// what the disguise carries (a replacement scan, a denylisted function, ...)
		// is in the detail; a table reference is named because it means the
		// permission extractor itself was fooled
		if sp.Src.Kind == "tref" {
			what += " (" + srcClass(sp.Src) + ")"
		}
		s = what + " hidden by " + strings.Join(cls, " + ")
	} else if sp.Src.Kind == "scan" && !isFromGroup(sp.Shape) {
		s = what + " via replacement scan of a quoted path"
	} else {
		s = what + " via " + srcClass(sp.Src)
	}
	if sp.Shape != "from" {
		if isFromGroup(sp.Shape) {
			s += " in shape " + sp.Shape
		} else {
			s += " in a table position not introduced by FROM/JOIN (TABLE/DESCRIBE/SUMMARIZE/SHOW/PIVOT statement)"
		}
	}
	if hdrEssential {
		s += " with x-arc-database header"
	}
	if epEssential {
		s += " on " + endpointPath(sp.EP)
	}
	return s
}

// canonicalDeco is the plainest spelling of each mechanism class.
var canonicalDeco = map[string]deco{
	mBackslash:   {Kind: "lit", Arg: "sq-bs", Arg2: "a"},
	mEString:     {Kind: "lit", Arg: "E-bsbs", Arg2: "a"},
	mDollarUni:   {Kind: "lit", Arg: "dtag-uni", Arg2: "a"},
	mFromMask:    {Kind: "kwlook", Arg: "extract"},
	mQuoteInCmt:  {Kind: "cmt", Arg: "/* it's */", Pos: 0},
	mCRComment:   {Kind: "cmt", Arg: "-- c\r", Pos: 0},
	mUniSpace:    {Kind: "fnws", Arg: "\u00a0"},
	mIdentStrip:  {Kind: "lit", Arg: "dq-alias", Arg2: "--"},
	mGluedFn:     {Kind: "nows"},
	mMarkerInLit: {Kind: "lit", Arg: "sq", Arg2: "--"},
}

// canonicalSingles returns the plain statements that carry only the given mechanism.
func canonicalSingles(class string) []spec {
	d, ok := canonicalDeco[class]
	if !ok {
		return nil
	}
	carriers := []src{
		{Kind: "scan", DB: "db2", M: "secret", Style: "dq", Path: "abs-file"},
		{Kind: "func", DB: "db2", M: "secret", Fn: "read_parquet", FnQ: "plain", Style: "str", Path: "abs-file"},
		{Kind: "func", DB: "db2", M: "secret", Fn: "parquet_scan", FnQ: "dq", Style: "str", Path: "abs-file"},
	}
	if class == mMarkerInLit {
		carriers = []src{{Kind: "tref", DB: "db2", M: "secret", Style: "plain"}}
	}
	var out []spec
	for _, c := range carriers {
		if d.Kind == "fnws" && c.Kind != "func" {
			continue
		}
		out = append(out, spec{Shape: "from", EP: "query", Src: c, Decos: []deco{d}})
	}
	return out
}

// fastPathEssential reports whether a reduced statement still needs the read_parquet
// mention (literal or comment) next to another disguise: the raw-SQL fast path is then a
// second, independent cause and gets its own signature.
func fastPathEssential(sp spec) bool {
	n, rp := 0, false
	for _, d := range sp.Decos {
		for _, c := range strings.Split(decoClass(d), " + ") {
			if c == mRewriteSkp {
				rp = true
			} else {
				n++
			}
		}
	}
	return rp && n > 0 && !(sp.Src.Kind == "func" && sp.Src.Fn == "read_parquet")
}

const fastPathSig = "denied file read via raw-SQL fast path: statement containing the substring read_parquet (in a literal or comment) is executed unrewritten"
