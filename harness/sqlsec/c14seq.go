package main

import (
	"encoding/json"
	"fmt"

	"github.com/basekick-labs/arc/internal/zzverif/vlib"
)

// Cross-caller sequences. Every other C14 case is one request judged on its own; here
// the state one caller leaves in the handler (the SQL-transform cache, the partition
// cache) meets the next caller's request:
//
//	A  an unrestricted caller (no RBAC gate: vfix's own app) runs statement S with the
//	   header x-arc-database: X;
//	B  the restricted caller - for this family its policy is "read on database default
//	   only" - sends the byte-identical S without the header, so its permission check
//	   is about default.<m>.
//
// B's request must open files of default/<m> only and return no canary of X, in both
// orders (A,B) and (B,A,B), on all four query endpoints, for statements that take the
// cached transform path (a literal, a comment, a CTE, a JOIN). Every sequence uses its
// own statement text, so sequences cannot influence each other.
type seqDetail struct {
	Order    string    `json:"order"`
	Endpoint string    `json:"endpoint"`
	HeaderDB string    `json:"header_database_of_the_other_caller"`
	SQL      string    `json:"sql"`
	Status   int       `json:"status_of_the_restricted_request"`
	Asked    []ask     `json:"rbac_questions"`
	Findings []finding `json:"findings"`
	Note     string    `json:"note"`
}

func crossCallerSequences(c *vlib.Ctx, r *rig) {
	r.rec.mu.Lock()
	r.rec.allowed = "default"
	r.rec.mu.Unlock()
	defer func() {
		r.rec.mu.Lock()
		r.rec.allowed = ""
		r.rec.mu.Unlock()
	}()
	shapes := []func(m string, k int) string{
		func(m string, k int) string { return fmt.Sprintf("SELECT * FROM %s WHERE 'k%d' = 'k%d'", m, k, k) },
		func(m string, k int) string { return fmt.Sprintf("SELECT * FROM %s /* k%d */", m, k) },
		func(m string, k int) string {
			return fmt.Sprintf("WITH w AS (SELECT * FROM %s) SELECT * FROM w WHERE %d = %d", m, k, k)
		},
		func(m string, k int) string {
			return fmt.Sprintf("SELECT a.* FROM %s a JOIN %s b ON a.time = b.time WHERE %d = %d", m, m, k, k)
		},
	}
	others := [][2]string{{"db1", "cpu"}, {"db2", "secret"}}
	endpoints := []string{"/api/v1/query", "/api/v1/query/estimate", "/api/v1/query/msgpack", "/api/v1/query/arrow"}
	k := 1000
	for _, ep := range endpoints {
		for si, sh := range shapes {
			for _, ot := range others {
				for _, order := range []string{"other caller first", "restricted caller first, other caller, restricted caller again"} {
					k++
					sql := sh(ot[1], k)
					body, _ := json.Marshal(map[string]string{"sql": sql})
					a := func() int {
						code, _ := doApp(r.n.App, "POST", ep, map[string]string{"Content-Type": "application/json", "x-arc-database": ot[0]}, body)
						return code
					}
					breq := request{Method: "POST", Path: ep, SQL: sql}
					if order != "other caller first" {
						o := r.runSettled(breq)
						if fs := r.judge(&o); len(fs) > 0 {
							c.Violation("restricted caller's own header-less request read files it was not checked for", seqDetail{Order: order + " (first request)", Endpoint: ep, HeaderDB: ot[0], SQL: sql, Status: o.Status, Asked: o.Asked, Findings: fs})
						}
					}
					acode := a()
					r.mon.drain()
					o := r.runSettled(breq)
					fs := r.judge(&o)
					c.Eval()
					c.Count("cross_caller_sequences", 1)
					if acode == 200 {
						c.Count("cross_caller_other_caller_request_ok", 1)
					}
					if o.Status == 200 {
						c.Count("cross_caller_restricted_request_ok", 1)
					}
					if len(o.Opened) > 0 {
						c.Count("cross_caller_restricted_request_opened_files", 1)
					}
					if acode == 200 && len(o.Asked) > 0 {
						c.Nontrivial(fmt.Sprintf("cross-caller|%s|%d|%s|%s", ep, si, ot[0], order))
					}
					if len(fs) > 0 {
						c.Violation("header-less request of a caller checked for database default executed a statement transformed for another caller's x-arc-database value (files of that database opened)",
							seqDetail{Order: order, Endpoint: ep, HeaderDB: ot[0], SQL: sql, Status: o.Status, Asked: o.Asked, Findings: fs,
								Note: "the other caller sent the same statement text with header x-arc-database: " + ot[0] + " through the ungated app"})
					}
				}
			}
		}
	}
}
